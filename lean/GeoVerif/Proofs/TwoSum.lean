import GeoVerif.Proofs.F64Div
import GeoVerif.Model.MathF
import Mathlib.Data.Int.Log
import Mathlib.Data.Rat.Floor
/-!
# Knuth's TwoSum for binary64 round-to-nearest-even (with gradual underflow, no overflow)

Abstract part over `ℚ`: `Rep x` (x is a binary64 value: `g·2^s`, `|g| < 2^53`, `s ≥ −1074`) and
`RN z r := IsRN 53 (−1074) z r`.  Main results:

* `RN.nearest`   – the rounded value is a nearest representable number;
* `err_rep`      – the rounding error of the sum of two representables is representable;
* `fts_rep`      – `|y| ≤ |x| → RN(x + y) − x` is representable (the Fast2Sum step);
* `twoSum_abstract` – the six operations of `Math::sum` recover the error exactly, for *all* representable `u`, `v`.
-/
namespace GeoVerif
open Dy

/-- binary64 values (any magnitude: overflow is handled at the `F64` level) -/
def Rep (x : ℚ) : Prop := ∃ g s : ℤ, |g| < 2 ^ 53 ∧ -1074 ≤ s ∧ x = (g:ℚ) * (2:ℚ) ^ s

/-- multiples of `2^c` -/
def OnGrid (c : ℤ) (x : ℚ) : Prop := ∃ j : ℤ, x = (j:ℚ) * (2:ℚ) ^ c

abbrev RN (z r : ℚ) : Prop := IsRN 53 (-1074) z r

namespace OnGrid
theorem zero (c : ℤ) : OnGrid c 0 := ⟨0, by simp⟩
theorem neg {c : ℤ} {x : ℚ} (h : OnGrid c x) : OnGrid c (-x) := by
  obtain ⟨j, rfl⟩ := h; exact ⟨-j, by push_cast; ring⟩
theorem add {c : ℤ} {x y : ℚ} (hx : OnGrid c x) (hy : OnGrid c y) : OnGrid c (x + y) := by
  obtain ⟨j, rfl⟩ := hx; obtain ⟨k, rfl⟩ := hy; exact ⟨j + k, by push_cast; ring⟩
theorem sub {c : ℤ} {x y : ℚ} (hx : OnGrid c x) (hy : OnGrid c y) : OnGrid c (x - y) := by
  obtain ⟨j, rfl⟩ := hx; obtain ⟨k, rfl⟩ := hy; exact ⟨j - k, by push_cast; ring⟩
theorem coarsen {c c' : ℤ} {x : ℚ} (h : OnGrid c x) (hc : c' ≤ c) : OnGrid c' x := by
  obtain ⟨j, rfl⟩ := h
  refine ⟨j * 2 ^ (c - c').toNat, ?_⟩
  push_cast
  rw [mul_assoc, ← zpow_natCast, ← two_zpow_split, Int.toNat_of_nonneg (by omega)]
  congr 2; ring
/-- a non-zero multiple of `2^c` has magnitude at least `2^c` -/
theorem abs_ge {c : ℤ} {x : ℚ} (h : OnGrid c x) (hx : x ≠ 0) : (2:ℚ) ^ c ≤ |x| := by
  obtain ⟨j, rfl⟩ := h
  have hp := two_zpow_pos c
  have hj : j ≠ 0 := by rintro rfl; simp at hx
  have : (1:ℚ) ≤ |(j:ℚ)| := by
    have : (1:ℤ) ≤ |j| := Int.one_le_abs hj
    exact_mod_cast this
  rw [abs_mul, abs_of_pos hp]
  nlinarith
end OnGrid

namespace Rep
theorem zero : Rep 0 := ⟨0, 0, by norm_num, by norm_num, by simp⟩
theorem neg {x : ℚ} (h : Rep x) : Rep (-x) := by
  obtain ⟨g, s, hg, hs, rfl⟩ := h
  exact ⟨-g, s, by rwa [abs_neg], hs, by push_cast; ring⟩
theorem neg_iff {x : ℚ} : Rep (-x) ↔ Rep x := ⟨fun h => by simpa using h.neg, neg⟩
theorem onGridMin {x : ℚ} (h : Rep x) : OnGrid (-1074) x := by
  obtain ⟨g, s, _, hs, rfl⟩ := h
  exact OnGrid.coarsen (⟨g, rfl⟩ : OnGrid s _) hs
/-- a representable number is its own rounding -/
theorem rn {x : ℚ} (h : Rep x) : RN x x := by
  obtain ⟨g, s, hg, hs, rfl⟩ := h
  have h1 := roundTo_isRN 53 (-1074) ⟨g, s⟩
  have e := roundTo_val_of_fits 53 (by norm_num) (-1074) ⟨g, s⟩ g s (le_of_lt hg) hs rfl
  rw [e] at h1; exact h1
theorem rn_eq {x r : ℚ} (h : Rep x) (hr : RN x r) : r = x := IsRN.unique (by norm_num) hr h.rn
/-- **criterion**: a multiple of `2^c` (`c ≥ −1074`) of magnitude at most `2^(c+53)` is representable -/
theorem of_grid {c : ℤ} {x : ℚ} (hg : OnGrid c x) (hc : -1074 ≤ c) (hx : |x| ≤ (2:ℚ) ^ (c + 53)) : Rep x := by
  obtain ⟨j, rfl⟩ := hg
  have hp := two_zpow_pos c
  rw [abs_mul, abs_of_pos hp, two_zpow_split, mul_comm ((2:ℚ) ^ c)] at hx
  have hj : |(j:ℚ)| ≤ (2:ℚ) ^ (53:ℤ) := le_of_mul_le_mul_right hx hp
  have hj' : |j| ≤ 2 ^ 53 := by
    rw [← Int.cast_abs] at hj
    have e : (2:ℚ) ^ (53:ℤ) = ((2 ^ 53 : ℤ) : ℚ) := by norm_num
    rw [e] at hj
    exact_mod_cast hj
  by_cases hlt : |j| < 2 ^ 53
  · exact ⟨j, c, hlt, hc, rfl⟩
  · have he : |j| = 2 ^ 53 := by omega
    -- j = ±2^53 = ±2^52·2
    rcases abs_cases j with ⟨e1, _⟩ | ⟨e1, _⟩
    · refine ⟨2 ^ 52, c + 1, by norm_num, by omega, ?_⟩
      rw [← e1, he, two_zpow_split]; norm_num; ring
    · refine ⟨-(2 ^ 52), c + 1, by norm_num, by omega, ?_⟩
      have : j = -(2 ^ 53) := by omega
      rw [this, two_zpow_split]; norm_num; ring
end Rep

/-! ## binade of a rational -/

/-- binade exponent: `2^(bin z − 1) ≤ |z| < 2^(bin z)` for `z ≠ 0` -/
noncomputable def bin (z : ℚ) : ℤ := Int.log 2 |z| + 1
/-- exponent of the rounding grid of `z` -/
noncomputable def tq (z : ℚ) : ℤ := max (bin z - 53) (-1074)

theorem bin_spec {z : ℚ} (hz : z ≠ 0) : (2:ℚ) ^ (bin z - 1) ≤ |z| ∧ |z| < (2:ℚ) ^ bin z := by
  unfold bin
  have hp : 0 < |z| := abs_pos.mpr hz
  constructor
  · have := Int.zpow_log_le_self (b := 2) (by norm_num) hp
    simpa using this
  · have := Int.lt_zpow_succ_log_self (b := 2) (by norm_num) |z|
    simpa using this

theorem bin_unique {z : ℚ} {E : ℤ} (h1 : (2:ℚ) ^ (E - 1) ≤ |z|) (h2 : |z| < (2:ℚ) ^ E) : bin z = E := by
  have hz : z ≠ 0 := by
    rintro rfl; simp at h1; exact absurd h1 (not_le.mpr (two_zpow_pos _))
  obtain ⟨b1, b2⟩ := bin_spec hz
  have a := IsRN.binade_le h1 b2
  have b := IsRN.binade_le b1 h2
  omega

theorem bin_neg (z : ℚ) : bin (-z) = bin z := by unfold bin; rw [abs_neg]
theorem tq_neg (z : ℚ) : tq (-z) = tq z := by unfold tq; rw [bin_neg]
theorem tq_ge (z : ℚ) : -1074 ≤ tq z := le_max_right _ _

theorem bin_mono {x y : ℚ} (hx : x ≠ 0) (h : |x| ≤ |y|) : bin x ≤ bin y := by
  have hy : y ≠ 0 := by
    rintro rfl; simp at h; exact hx h
  exact IsRN.binade_le (bin_spec hx).1 (lt_of_le_of_lt h (bin_spec hy).2)

theorem tq_mono {x y : ℚ} (hx : x ≠ 0) (h : |x| ≤ |y|) : tq x ≤ tq y := by
  have := bin_mono hx h; unfold tq; omega

/-- `|z| < 2^(tq z + 53)` -/
theorem abs_lt_tq {z : ℚ} (hz : z ≠ 0) : |z| < (2:ℚ) ^ (tq z + 53) :=
  lt_of_lt_of_le (bin_spec hz).2 (two_zpow_le (by unfold tq; omega))

/-! ## rounding, in terms of `tq` -/

theorem RN.zero_iff {r : ℚ} (h : RN 0 r) : r = 0 := h.zero rfl

/-- the rounded value is on the grid `2^(tq z)` within half a grid step -/
theorem RN.spec {z r : ℚ} (h : RN z r) (hz : z ≠ 0) :
    OnGrid (tq z) r ∧ 2 * |r - z| ≤ (2:ℚ) ^ tq z := by
  obtain ⟨E, k, h1, h2, h3, h4, _⟩ := h.nz hz
  have hE : bin z = E := bin_unique h1 h2
  have ht : tq z = max (E - 53) (-1074) := by unfold tq; rw [hE]
  rw [ht]
  exact ⟨⟨k, h3⟩, h4⟩

/-- an integer grid multiple with `|x| < 2^c` hmm: two grid points closer than one step coincide -/
theorem OnGrid.eq_of_close {c : ℤ} {x y : ℚ} (hx : OnGrid c x) (hy : OnGrid c y) (h : |x - y| < (2:ℚ) ^ c) : x = y := by
  by_contra hne
  have := (hx.sub hy).abs_ge (sub_ne_zero.mpr hne)
  linarith

/-- the result of a rounding is representable -/
theorem RN.rep {z r : ℚ} (h : RN z r) : Rep r := by
  by_cases hz : z = 0
  · rw [hz] at h; rw [h.zero_iff]; exact Rep.zero
  · obtain ⟨hg, hh⟩ := h.spec hz
    refine Rep.of_grid hg (tq_ge z) ?_
    -- |r| < 2^(t+53) + 2^(t−1), and r is a multiple of 2^t
    have hz' := abs_lt_tq hz
    have hp := two_zpow_pos (tq z)
    have h53 : (2:ℚ) ^ (tq z + 53) = (2:ℚ) ^ (53:ℕ) * (2:ℚ) ^ tq z := by
      rw [add_comm, two_zpow_split]; norm_num
    obtain ⟨k, hk⟩ := hg
    have habs : |r| ≤ |z| + |r - z| := by
      have := abs_add_le z (r - z); rw [show z + (r - z) = r by ring] at this; exact this
    have hlt : |r| < ((2:ℚ) ^ (53:ℕ) + 1) * (2:ℚ) ^ tq z := by
      rw [h53] at hz'; nlinarith
    rw [hk, abs_mul, abs_of_pos hp] at hlt ⊢
    have hk1 : |(k:ℚ)| < (2:ℚ) ^ (53:ℕ) + 1 := lt_of_mul_lt_mul_right hlt hp.le
    have hk2 : |k| < 2 ^ 53 + 1 := by
      rw [← Int.cast_abs] at hk1
      have e : (2:ℚ) ^ (53:ℕ) + 1 = ((2 ^ 53 + 1 : ℤ) : ℚ) := by norm_num
      rw [e] at hk1; exact_mod_cast hk1
    have hk3 : (|(k:ℚ)|) ≤ (2:ℚ) ^ (53:ℕ) := by
      rw [← Int.cast_abs]
      have : |k| ≤ 2 ^ 53 := by omega
      have e : (2:ℚ) ^ (53:ℕ) = ((2 ^ 53 : ℤ) : ℚ) := by norm_num
      rw [e]; exact_mod_cast this
    rw [h53]
    exact mul_le_mul_of_nonneg_right hk3 hp.le

/-- a representable number of magnitude `≥ 2^(E−1)` is a multiple of `2^max(E−53, −1074)` -/
theorem Rep.onGrid_of_ge {x : ℚ} (h : Rep x) (E : ℤ) (hE : (2:ℚ) ^ (E - 1) ≤ |x|) : OnGrid (max (E - 53) (-1074)) x := by
  obtain ⟨g, s, hg, hs, rfl⟩ := h
  by_cases hc : max (E - 53) (-1074) ≤ s
  · exact OnGrid.coarsen ⟨g, rfl⟩ hc
  · exfalso
    have hs2 : s + 53 ≤ E - 1 := by omega
    have hp := two_zpow_pos s
    rw [abs_mul, abs_of_pos hp] at hE
    have hgq : |(g:ℚ)| < (2:ℚ) ^ (53:ℕ) := by
      rw [← Int.cast_abs]
      have e : (2:ℚ) ^ (53:ℕ) = ((2 ^ 53 : ℤ) : ℚ) := by norm_num
      rw [e]; exact_mod_cast hg
    have : |(g:ℚ)| * (2:ℚ) ^ s < (2:ℚ) ^ (s + 53) := by
      rw [add_comm, two_zpow_split]
      have e53 : (2:ℚ) ^ (53:ℤ) = (2:ℚ) ^ (53:ℕ) := by norm_num
      rw [e53]
      exact mul_lt_mul_of_pos_right hgq hp
    have := two_zpow_le hs2
    linarith

theorem Rep.onGrid_tq {x : ℚ} (h : Rep x) (hx : x ≠ 0) : OnGrid (tq x) x :=
  h.onGrid_of_ge (bin x) (bin_spec hx).1

/-- a representable number is on the grid of every non-zero number of smaller or equal magnitude -/
theorem Rep.onGrid_tq_of_le {x y : ℚ} (h : Rep x) (hy : y ≠ 0) (hle : |y| ≤ |x|) : OnGrid (tq y) x := by
  have hx : x ≠ 0 := by rintro rfl; simp at hle; exact hy hle
  exact (h.onGrid_tq hx).coarsen (tq_mono hy hle)

/-- **the rounded value is a nearest representable number** -/
theorem RN.nearest {z r f : ℚ} (h : RN z r) (hf : Rep f) : |r - z| ≤ |f - z| := by
  by_cases hz : z = 0
  · rw [hz] at h; rw [h.zero_iff, hz]; simp
  obtain ⟨hg, hh⟩ := h.spec hz
  by_cases hclose : 2 * |f - z| < (2:ℚ) ^ tq z
  · -- then f is on the grid of z and equals r
    have hfg : OnGrid (tq z) f := by
      by_cases ht : tq z = -1074
      · rw [ht]; exact hf.onGridMin
      · have htE : tq z = bin z - 53 := by unfold tq at ht ⊢; omega
        have hb := (bin_spec hz).1
        have e1 : (2:ℚ) ^ (bin z - 1) = (2:ℚ) ^ (53:ℕ) * (2:ℚ) ^ (tq z - 1) := by
          rw [← zpow_natCast, ← two_zpow_split]; congr 1; rw [htE]; push_cast; ring
        have e2 : (2:ℚ) ^ tq z = 2 * (2:ℚ) ^ (tq z - 1) := by
          have := two_zpow_split 1 (tq z - 1)
          rw [show 1 + (tq z - 1) = tq z by ring] at this; rw [this]; norm_num
        have hp1 := two_zpow_pos (tq z - 1)
        -- |f| > 2^(E−1) − 2^(t−1)
        have hfabs : |z| - |f - z| ≤ |f| := by
          have := abs_sub_abs_le_abs_sub z (z - f)
          rw [show z - (z - f) = f by ring, abs_sub_comm z f] at this; linarith
        have hlow : ((2:ℚ) ^ (53:ℕ) - 1) * (2:ℚ) ^ (tq z - 1) < |f| := by
          rw [e2] at hclose; rw [e1] at hb; nlinarith
        -- first: multiple of 2^(t−1)
        have hg1 : OnGrid (tq z - 1) f := by
          have h2 : (2:ℚ) ^ (bin z - 1 - 1) ≤ |f| := by
            have : (2:ℚ) ^ (bin z - 1 - 1) = (2:ℚ) ^ (52:ℕ) * (2:ℚ) ^ (tq z - 1) := by
              rw [← zpow_natCast, ← two_zpow_split]; congr 1; rw [htE]; push_cast; ring
            rw [this]
            have : (2:ℚ) ^ (52:ℕ) ≤ (2:ℚ) ^ (53:ℕ) - 1 := by norm_num
            nlinarith
          have := hf.onGrid_of_ge (bin z - 1) h2
          have hm : max (bin z - 1 - 53) (-1074) = tq z - 1 := by
            have := tq_ge z; omega
          rwa [hm] at this
        obtain ⟨j, hj⟩ := hg1
        -- |j| ≥ 2^53 so |f| ≥ 2^(E−1)
        have hjabs : ((2:ℚ) ^ (53:ℕ) - 1) < |(j:ℚ)| := by
          rw [hj, abs_mul, abs_of_pos hp1] at hlow
          exact lt_of_mul_lt_mul_right hlow hp1.le
        have hj2 : (2:ℤ) ^ 53 ≤ |j| := by
          rw [← Int.cast_abs] at hjabs
          have e : (2:ℚ) ^ (53:ℕ) - 1 = ((2 ^ 53 - 1 : ℤ) : ℚ) := by norm_num
          rw [e] at hjabs
          have : (2 ^ 53 - 1 : ℤ) < |j| := by exact_mod_cast hjabs
          omega
        have hfge : (2:ℚ) ^ (bin z - 1) ≤ |f| := by
          rw [e1, hj, abs_mul, abs_of_pos hp1]
          apply mul_le_mul_of_nonneg_right _ hp1.le
          rw [← Int.cast_abs]
          have e : (2:ℚ) ^ (53:ℕ) = ((2 ^ 53 : ℤ) : ℚ) := by norm_num
          rw [e]; exact_mod_cast hj2
        have := hf.onGrid_of_ge (bin z) hfge
        have hm : max (bin z - 53) (-1074) = tq z := rfl
        rwa [hm] at this
    have : f = r := by
      apply hfg.eq_of_close hg
      have := abs_sub_le f z r
      have h2 : |z - r| = |r - z| := abs_sub_comm z r
      have hp := two_zpow_pos (tq z)
      linarith
    rw [this]
  · have hp := two_zpow_pos (tq z)
    linarith [not_lt.mp hclose]

/-! ## the two classical lemmas -/

/-- **the rounding error of a sum of two representable numbers is representable** -/
theorem err_rep {u v s : ℚ} (hu : Rep u) (hv : Rep v) (hs : RN (u + v) s) : Rep (u + v - s) := by
  by_cases hu0 : u = 0
  · subst hu0; rw [zero_add] at hs ⊢; rw [hv.rn_eq hs]; simpa using Rep.zero
  by_cases hv0 : v = 0
  · subst hv0; rw [add_zero] at hs ⊢; rw [hu.rn_eq hs]; simpa using Rep.zero
  by_cases hz : u + v = 0
  · rw [hz] at hs ⊢; rw [hs.zero_iff]; simpa using Rep.zero
  obtain ⟨hsg, _⟩ := hs.spec hz
  -- a = the finer of the two grids; the coarser operand is also on it
  have key : ∀ a b : ℚ, Rep a → Rep b → a ≠ 0 → |a| ≤ |b| → ∀ s', RN (a + b) s' → a + b ≠ 0 → Rep (a + b - s') := by
    intro a b ha hb ha0 hab s' hs' hz'
    obtain ⟨hsg', _⟩ := hs'.spec hz'
    have hga : OnGrid (tq a) a := ha.onGrid_tq ha0
    have hgb : OnGrid (tq a) b := hb.onGrid_tq_of_le ha0 hab
    by_cases hc : tq (a + b) ≤ tq a
    · -- the sum is on its own grid, hence exact
      have : Rep (a + b) := Rep.of_grid ((hga.add hgb).coarsen hc) (tq_ge _) (le_of_lt (abs_lt_tq hz'))
      rw [this.rn_eq hs']; simpa using Rep.zero
    · have hgs : OnGrid (tq a) s' := hsg'.coarsen (by omega)
      refine Rep.of_grid ((hga.add hgb).sub hgs) (tq_ge _) ?_
      have hn := hs'.nearest hb
      rw [show b - (a + b) = -a by ring, abs_neg, abs_sub_comm] at hn
      exact le_trans hn (le_of_lt (abs_lt_tq ha0))
  rcases le_total |u| |v| with h | h
  · exact key u v hu hv hu0 h s hs hz
  · have := key v u hv hu hv0 h s (by rwa [add_comm]) (by rwa [add_comm])
    rwa [add_comm] at this

/-- monotonicity against a representable bound -/
theorem RN.le_of_le_rep {z r f : ℚ} (h : RN z r) (hf : Rep f) (hle : z ≤ f) : r ≤ f :=
  IsRN.mono (by norm_num) h hf.rn hle
theorem RN.ge_of_ge_rep {z r f : ℚ} (h : RN z r) (hf : Rep f) (hle : f ≤ z) : f ≤ r :=
  IsRN.mono (by norm_num) hf.rn h hle

theorem Rep.two_mul {x : ℚ} (h : Rep x) : Rep (2 * x) := by
  obtain ⟨g, s, hg, hs, rfl⟩ := h
  exact ⟨g, s + 1, hg, by omega, by rw [two_zpow_split]; norm_num; ring⟩

/-- half of a representable number of magnitude `≥ 2^(−1074+53)` is representable -/
theorem Rep.half {x : ℚ} (h : Rep x) (hx : (2:ℚ) ^ (-1074 + 53 : ℤ) ≤ |x|) : Rep (x / 2) := by
  obtain ⟨g, s, hg, hs, rfl⟩ := h
  have hs1 : -1074 < s := by
    by_contra hc
    have : s = -1074 := by omega
    subst this
    have hp := two_zpow_pos (-1074)
    rw [abs_mul, abs_of_pos hp, two_zpow_split] at hx
    have hgq : |(g:ℚ)| < (2:ℚ) ^ (53:ℤ) := by
      rw [← Int.cast_abs]
      have e : (2:ℚ) ^ (53:ℤ) = ((2 ^ 53 : ℤ) : ℚ) := by norm_num
      rw [e]; exact_mod_cast hg
    have := mul_lt_mul_of_pos_right hgq hp
    rw [mul_comm ((2:ℚ) ^ (-1074:ℤ))] at hx
    linarith
  refine ⟨g, s - 1, hg, by omega, ?_⟩
  have := two_zpow_split (s - 1) 1
  rw [show s - 1 + 1 = s by ring] at this
  rw [this]; norm_num; ring

/-- **Fast2Sum step**: if `|y| ≤ |x|` then `RN(x + y) − x` is representable -/
theorem fts_rep {x y r : ℚ} (hx : Rep x) (hy : Rep y) (hxy : |y| ≤ |x|) (hr : RN (x + y) r) : Rep (r - x) := by
  -- reduce to x > 0
  have pos : ∀ x y r : ℚ, Rep x → Rep y → |y| ≤ |x| → RN (x + y) r → 0 < x → Rep (r - x) := by
    intro x y r hx hy hxy hr hxpos
    have hx0 : x ≠ 0 := hxpos.ne'
    rw [abs_of_pos hxpos] at hxy
    have hyb := abs_le.mp hxy
    by_cases hex : Rep (x + y)
    · rw [hex.rn_eq hr]; simpa using hy
    have hz : x + y ≠ 0 := fun e => hex (by rw [e]; exact Rep.zero)
    have hy0 : y ≠ 0 := fun e => hex (by rw [e, add_zero]; exact hx)
    have hgx : OnGrid (tq y) x := hx.onGrid_tq_of_le hy0 (by rw [abs_of_pos hxpos]; exact hxy)
    have hgy : OnGrid (tq y) y := hy.onGrid_tq hy0
    -- y > −x/2, otherwise the sum is exact (Sterbenz)
    have hyhalf : -(x / 2) < y := by
      by_contra hc
      have hc' : y ≤ -(x / 2) := not_lt.mp hc
      apply hex
      refine Rep.of_grid (hgx.add hgy) (tq_ge _) ?_
      have : |x + y| ≤ |y| := by
        rw [abs_of_nonneg (by linarith), abs_of_nonpos (by linarith)]; linarith
      exact le_trans this (le_of_lt (abs_lt_tq hy0))
    have hrrep := hr.rep
    have hr2 : r ≤ 2 * x := hr.le_of_le_rep hx.two_mul (by linarith)
    by_cases hrx : x ≤ r
    · -- r ≥ x: grid of x, |r − x| ≤ x
      have hr0 : r ≠ 0 := by linarith
      have hgr : OnGrid (tq x) r := hrrep.onGrid_tq_of_le hx0 (by rw [abs_of_pos hxpos, abs_of_pos (by linarith)]; exact hrx)
      refine Rep.of_grid (hgr.sub (hx.onGrid_tq hx0)) (tq_ge _) ?_
      rw [abs_of_nonneg (by linarith)]
      have := abs_lt_tq hx0; rw [abs_of_pos hxpos] at this; linarith
    · have hrx' : r < x := not_le.mp hrx
      have hr0' : 0 ≤ r := IsRN.nonneg hr (by linarith)
      by_cases hsmall : x < (2:ℚ) ^ (-1074 + 53 : ℤ)
      · -- everything on the minimal grid
        refine Rep.of_grid (hrrep.onGridMin.sub hx.onGridMin) (le_refl _) ?_
        rw [abs_of_nonpos (by linarith)]; linarith
      · have hxh : Rep (x / 2) := hx.half (by rw [abs_of_pos hxpos]; exact not_lt.mp hsmall)
        have hrh : x / 2 ≤ r := hr.ge_of_ge_rep hxh (by linarith)
        have hrpos : 0 < r := by linarith
        have hr0 : r ≠ 0 := hrpos.ne'
        have hgxr : OnGrid (tq r) x := hx.onGrid_tq_of_le hr0 (by rw [abs_of_pos hxpos, abs_of_pos hrpos]; linarith)
        refine Rep.of_grid ((hrrep.onGrid_tq hr0).sub hgxr) (tq_ge _) ?_
        rw [abs_of_nonpos (by linarith)]
        have := abs_lt_tq hr0; rw [abs_of_pos hrpos] at this; linarith
  rcases lt_trichotomy x 0 with hneg | h0 | hpos
  · have := pos (-x) (-y) (-r) hx.neg hy.neg (by rwa [abs_neg, abs_neg]) (by
      have := hr.neg; rwa [neg_add] at this) (by linarith)
    have e : -r - -x = -(r - x) := by ring
    rw [e] at this; exact Rep.neg_iff.mp this
  · subst h0
    have : y = 0 := by simpa using hxy
    subst this
    rw [add_zero] at hr; rw [hr.zero_iff]; simpa using Rep.zero
  · exact pos x y r hx hy hxy hr hpos

/-! ## Knuth's TwoSum -/

/-- **TwoSum (abstract)**: for all representable `u`, `v` and the six correctly rounded operations of `Math::sum`
`s = u⊕v`, `u' = s⊖v`, `v'' = s⊖u'`, `du = u'⊖u`, `dv = v''⊖v`, `w = du⊕dv`:
`w = s − (u + v)` exactly (so `t = −w` is the rounding error of `s`), and every intermediate result is determined. -/
theorem twoSum_abstract {u v s u' v'' du dv w : ℚ} (hu : Rep u) (hv : Rep v)
    (h1 : RN (u + v) s) (h2 : RN (s - v) u') (h3 : RN (s - u') v'') (h4 : RN (u' - u) du) (h5 : RN (v'' - v) dv)
    (h6 : RN (du + dv) w) :
    w = s - (u + v) ∧ du + dv = s - (u + v) ∧ Rep (u + v - s) ∧
    v'' = s - u' ∧ du = u' - u ∧ dv = v'' - v := by
  have hs := h1.rep
  have hδ : Rep (u + v - s) := err_rep hu hv h1
  have hδ' : Rep (-(u + v - s)) := hδ.neg
  by_cases hex : Rep (s - v)
  · -- the first subtraction is exact
    have e2 : u' = s - v := hex.rn_eq h2
    have e3 : v'' = v := by
      have : s - u' = v := by rw [e2]; ring
      rw [this] at h3; exact hv.rn_eq h3
    have e5 : dv = 0 := by
      rw [e3, sub_self] at h5; exact h5.zero_iff
    have e4 : du = -(u + v - s) := by
      have : u' - u = -(u + v - s) := by rw [e2]; ring
      rw [this] at h4; exact hδ'.rn_eq h4
    have e6 : w = -(u + v - s) := by
      rw [e4, e5, add_zero] at h6; exact hδ'.rn_eq h6
    refine ⟨by rw [e6]; ring, by rw [e4, e5]; ring, hδ, by rw [e3, e2]; ring, by rw [e4, e2]; ring, by rw [e5, e3]; ring⟩
  · -- otherwise |v| < |u| and the sum is inexact
    have hvu : |v| < |u| := by
      by_contra hc
      exact hex (by
        have := fts_rep hv hu (not_lt.mp hc) (by rwa [add_comm] at h1)
        exact this)
    have hne : ¬ Rep (u + v) := by
      intro hr
      apply hex
      rw [hr.rn_eq h1]; simpa using hu
    have hv0 : v ≠ 0 := fun e => hne (by rw [e, add_zero]; exact hu)
    -- |u + v| ≥ |v| (else Sterbenz makes the sum exact)
    have hge : |v| ≤ |u + v| := by
      by_contra hc
      apply hne
      have hgu : OnGrid (tq v) u := hu.onGrid_tq_of_le hv0 (le_of_lt hvu)
      exact Rep.of_grid (hgu.add (hv.onGrid_tq hv0)) (tq_ge _)
        (le_trans (le_of_lt (not_le.mp hc)) (le_of_lt (abs_lt_tq hv0)))
    -- hence |s| ≥ |v|
    have hsv : |v| ≤ |s| := by
      have hvabs : Rep |v| := by
        rcases abs_cases v with ⟨e, _⟩ | ⟨e, _⟩ <;> rw [e]
        · exact hv
        · exact hv.neg
      rcases le_abs'.mp hge with hneg | hpos
      · -- u + v ≤ −|v|
        have := h1.le_of_le_rep hvabs.neg hneg
        have h0 := abs_nonneg v
        have e : |s| = -s := abs_of_nonpos (by linarith)
        rw [e]; linarith
      · have := h1.ge_of_ge_rep hvabs hpos
        exact le_trans this (le_abs_self s)
    -- (i) s − u' is representable (Fast2Sum on s ⊖ v)
    have hi : Rep (s - u') := by
      have := fts_rep hs hv.neg (by rwa [abs_neg]) (by rwa [← sub_eq_add_neg])
      have e : s - u' = -(u' - s) := by ring
      rw [e]; exact this.neg
    -- (ii) u' − u is representable (Fast2Sum on u ⊖ δ, the same real number as s − v)
    have hii : Rep (u' - u) := by
      have hδu : |-(u + v - s)| ≤ |u| := by
        have := h1.nearest hv
        rw [show v - (u + v) = -u by ring, abs_neg] at this
        rw [abs_neg, abs_sub_comm]; exact this
      exact fts_rep hu hδ' hδu (by
        have : u + -(u + v - s) = s - v := by ring
        rwa [this])
    have e3 : v'' = s - u' := hi.rn_eq h3
    have e4 : du = u' - u := hii.rn_eq h4
    -- v'' − v = (s − v) − u' is the error of the second operation
    have hv2 : Rep (v'' - v) := by
      have := err_rep hs hv.neg (by rwa [← sub_eq_add_neg])
      have e : v'' - v = s + -v - u' := by rw [e3]; ring
      rw [e]; exact this
    have e5 : dv = v'' - v := hv2.rn_eq h5
    have esum : du + dv = -(u + v - s) := by rw [e4, e5, e3]; ring
    have e6 : w = -(u + v - s) := by
      rw [esum] at h6; exact hδ'.rn_eq h6
    exact ⟨by rw [e6]; ring, by rw [esum]; ring, hδ, e3, e4, e5⟩

/-! ## the binary64 model -/

theorem rep_two_zpow (k : ℤ) (hk : -1074 ≤ k) : Rep ((2:ℚ) ^ k) := ⟨1, k, by norm_num, hk, by simp⟩

/-- a rounding does not exceed a power-of-two bound -/
theorem RN.abs_le_zpow {z r : ℚ} (h : RN z r) (k : ℤ) (hk : -1074 ≤ k) (hz : |z| ≤ (2:ℚ) ^ k) : |r| ≤ (2:ℚ) ^ k := by
  have hb := abs_le.mp hz
  rw [abs_le]
  constructor
  · have := h.ge_of_ge_rep (rep_two_zpow k hk).neg hb.1; exact this
  · exact h.le_of_le_rep (rep_two_zpow k hk) hb.2

namespace F64

/-- the value of a finite binary64 is representable (a property of *values*; the model's `fin s m e` is not normalised) -/
def IsRep (a : F64) : Prop := a.isFinite = true ∧ Rep a.val

theorem add_rn (a b : F64) (ha : a.isFinite = true) (hb : b.isFinite = true) (k : ℤ) (hk : -1074 ≤ k) (hk2 : k < 1024)
    (hab : |a.val + b.val| ≤ (2:ℚ) ^ k) :
    (a + b).isFinite = true ∧ RN (a.val + b.val) (a + b).val ∧ |(a + b).val| ≤ (2:ℚ) ^ k := by
  obtain ⟨sa, ma, ea, rfl⟩ := exists_fin_of_isFinite a ha
  obtain ⟨sb, mb, eb, rfl⟩ := exists_fin_of_isFinite b hb
  obtain ⟨r, hr, hf⟩ := add_fin_isRN sa sb ma mb ea eb
  have hle := RN.abs_le_zpow hr k hk hab
  have hlt : |r| < (2:ℚ) ^ (1024:ℤ) := lt_of_le_of_lt hle (Dy.two_zpow_lt_iff.mpr hk2)
  obtain ⟨h1, h2⟩ := hf hlt
  exact ⟨h1, by rw [h2]; exact hr, by rw [h2]; exact hle⟩

theorem sub_rn (a b : F64) (ha : a.isFinite = true) (hb : b.isFinite = true) (k : ℤ) (hk : -1074 ≤ k) (hk2 : k < 1024)
    (hab : |a.val - b.val| ≤ (2:ℚ) ^ k) :
    (a - b).isFinite = true ∧ RN (a.val - b.val) (a - b).val ∧ |(a - b).val| ≤ (2:ℚ) ^ k := by
  obtain ⟨sa, ma, ea, rfl⟩ := exists_fin_of_isFinite a ha
  obtain ⟨sb, mb, eb, rfl⟩ := exists_fin_of_isFinite b hb
  obtain ⟨r, hr, hf⟩ := sub_fin_isRN sa sb ma mb ea eb
  have hle := RN.abs_le_zpow hr k hk hab
  have hlt : |r| < (2:ℚ) ^ (1024:ℤ) := lt_of_le_of_lt hle (Dy.two_zpow_lt_iff.mpr hk2)
  obtain ⟨h1, h2⟩ := hf hlt
  exact ⟨h1, by rw [h2]; exact hr, by rw [h2]; exact hle⟩

theorem val_zero : (0 : F64).val = 0 := by show (F64.fin false 0 0).val = 0; exact val_fin_zero false 0

theorem two_zpow_succ (k : ℤ) : (2:ℚ) ^ (k + 1) = 2 * (2:ℚ) ^ k := by rw [Dy.two_zpow_split]; norm_num; ring

theorem bound_add {x y : ℚ} {a b K : ℤ} (hx : |x| ≤ (2:ℚ) ^ a) (hy : |y| ≤ (2:ℚ) ^ b) (ha : a < K) (hb : b < K) :
    |x + y| ≤ (2:ℚ) ^ K := by
  have h1 := Dy.two_zpow_le (show a ≤ K - 1 by omega)
  have h2 := Dy.two_zpow_le (show b ≤ K - 1 by omega)
  have h3 : (2:ℚ) ^ K = 2 * (2:ℚ) ^ (K - 1) := by
    have := two_zpow_succ (K - 1); rwa [show K - 1 + 1 = K by ring] at this
  have := abs_add_le x y
  rw [h3]; linarith

theorem bound_sub {x y : ℚ} {a b K : ℤ} (hx : |x| ≤ (2:ℚ) ^ a) (hy : |y| ≤ (2:ℚ) ^ b) (ha : a < K) (hb : b < K) :
    |x - y| ≤ (2:ℚ) ^ K := by
  have := bound_add hx (show |-y| ≤ (2:ℚ) ^ b by rwa [abs_neg]) ha hb
  rwa [← sub_eq_add_neg] at this

/-- **Knuth's TwoSum for the executable model of `Math::sum`**: for finite representable `u`, `v` with
`|u|, |v| ≤ 2^1018` (no overflow in any of the six operations), both outputs are finite, the high word is the
correctly rounded sum, the low word is representable, and `s + t = u + v` **exactly**. -/
theorem twoSum_exact (u v : F64) (hu : IsRep u) (hv : IsRep v)
    (hub : |u.val| ≤ (2:ℚ) ^ (1018:ℤ)) (hvb : |v.val| ≤ (2:ℚ) ^ (1018:ℤ)) :
    (MathF.sum u v).1 = u + v ∧
    (MathF.sum u v).1.isFinite = true ∧ (MathF.sum u v).2.isFinite = true ∧
    RN (u.val + v.val) (MathF.sum u v).1.val ∧ Rep (MathF.sum u v).2.val ∧
    (MathF.sum u v).1.val + (MathF.sum u v).2.val = u.val + v.val := by
  obtain ⟨fu, ru⟩ := hu
  obtain ⟨fv, rv⟩ := hv
  -- the six operations
  obtain ⟨f1, r1, b1⟩ := add_rn u v fu fv 1019 (by norm_num) (by norm_num)
    (bound_add hub hvb (by norm_num) (by norm_num))
  obtain ⟨f2, r2, b2⟩ := sub_rn (u + v) v f1 fv 1020 (by norm_num) (by norm_num)
    (bound_sub b1 hvb (by norm_num) (by norm_num))
  obtain ⟨f3, r3, b3⟩ := sub_rn (u + v) (u + v - v) f1 f2 1021 (by norm_num) (by norm_num)
    (bound_sub b1 b2 (by norm_num) (by norm_num))
  obtain ⟨f4, r4, b4⟩ := sub_rn (u + v - v) u f2 fu 1021 (by norm_num) (by norm_num)
    (bound_sub b2 hub (by norm_num) (by norm_num))
  obtain ⟨f5, r5, b5⟩ := sub_rn (u + v - (u + v - v)) v f3 fv 1022 (by norm_num) (by norm_num)
    (bound_sub b3 hvb (by norm_num) (by norm_num))
  obtain ⟨f6, r6, b6⟩ := add_rn (u + v - v - u) (u + v - (u + v - v) - v) f4 f5 1023 (by norm_num) (by norm_num)
    (bound_add b4 b5 (by norm_num) (by norm_num))
  obtain ⟨hw, _, hδ, _, _, _⟩ := twoSum_abstract ru rv r1 r2 r3 r4 r5 r6
  -- t = 0 − w
  have f0 : (0 : F64).isFinite = true := rfl
  obtain ⟨f7, r7, _⟩ := sub_rn 0 ((u + v - v - u) + (u + v - (u + v - v) - v)) f0 f6 1023 (by norm_num) (by norm_num) (by
    rw [val_zero, zero_sub, abs_neg]; exact b6)
  rw [val_zero, zero_sub] at r7
  have e7 : ((0 : F64) - ((u + v - v - u) + (u + v - (u + v - v) - v))).val = u.val + v.val - (u + v).val := by
    rw [hw] at r7
    have : Rep (-((u + v).val - (u.val + v.val))) := by
      have e : -((u + v).val - (u.val + v.val)) = u.val + v.val - (u + v).val := by ring
      rw [e]; exact hδ
    rw [this.rn_eq r7]; ring
  have hsum : MathF.sum u v = (u + v, if F64.ne (u + v) 0 = true then (0 : F64) - ((u + v - v - u) + (u + v - (u + v - v) - v)) else u + v) := rfl
  rw [hsum]
  by_cases hne : F64.ne (u + v) 0 = true
  · simp only [hne, if_true]
    exact ⟨trivial, f1, f7, r1, by rw [e7]; exact hδ, by rw [e7]; ring⟩
  · have hne' : F64.ne (u + v) 0 = false := by simpa using hne
    simp only [hne', Bool.false_eq_true, if_false]
    have heq : F64.eq (u + v) 0 = true := by
      unfold F64.ne at hne'; simpa using hne'
    have hz : (u + v).val = 0 := by rw [(eq_fin_iff _ _ f1 f0).mp heq, val_zero]
    refine ⟨trivial, f1, f1, r1, by rw [hz]; exact Rep.zero, ?_⟩
    -- u + v rounds to 0, hence is 0
    rw [hz] at r1 hδ ⊢
    have hrep : Rep (u.val + v.val) := by simpa using hδ
    have := hrep.rn_eq r1
    linarith

/-- the low word is no larger than either input (so it is far from overflow) -/
theorem twoSum_low_le (u v : F64) (hu : IsRep u) (hv : IsRep v)
    (hub : |u.val| ≤ (2:ℚ) ^ (1018:ℤ)) (hvb : |v.val| ≤ (2:ℚ) ^ (1018:ℤ)) :
    |(MathF.sum u v).2.val| ≤ |u.val| ∧ |(MathF.sum u v).2.val| ≤ |v.val| := by
  obtain ⟨_, _, _, r1, _, hs⟩ := twoSum_exact u v hu hv hub hvb
  have e : (MathF.sum u v).2.val = -((MathF.sum u v).1.val - (u.val + v.val)) := by linarith
  rw [e, abs_neg]
  constructor
  · have := r1.nearest hv.2
    rwa [show v.val - (u.val + v.val) = -u.val by ring, abs_neg] at this
  · have := r1.nearest hu.2
    rwa [show u.val - (u.val + v.val) = -v.val by ring, abs_neg] at this

theorem IsRep.neg_fin (s : Bool) (m : ℕ) (e : ℤ) (h : IsRep (F64.fin s m e)) : IsRep (F64.neg (F64.fin s m e)) := by
  refine ⟨rfl, ?_⟩
  rw [neg_fin_val]; exact h.2.neg

/-- `remainder(x, 360)` of a representable `x` is representable (and at most 180 in magnitude) -/
theorem remainder360_rep (s : Bool) (m : ℕ) (e : ℤ) (h : IsRep (F64.fin s m e)) :
    IsRep (remainder (F64.fin s m e) (F64.fin false 360 0)) ∧
    |(remainder (F64.fin s m e) (F64.fin false 360 0)).val| ≤ 180 := by
  obtain ⟨hfin, hval, hb, _⟩ := remainder_spec s false m 360 e 0 (by norm_num)
  have h360 : (F64.fin false 360 0).val = 360 := by rw [val_fin]; simp
  rw [h360] at hval hb
  rw [abs_of_pos (by norm_num : (0:ℚ) < 360)] at hb
  have hb' : |(remainder (F64.fin s m e) (F64.fin false 360 0)).val| ≤ 180 := by linarith
  refine ⟨⟨hfin, ?_⟩, hb'⟩
  obtain ⟨g, c, hg, hc, hx⟩ := h.2
  set n := remquoN (F64.fin s m e) (F64.fin false 360 0) with hn
  set r := (remainder (F64.fin s m e) (F64.fin false 360 0)).val with hr
  -- |r| ≤ |x|
  have hrx : |r| ≤ |(F64.fin s m e).val| := by
    by_cases hbig : (180:ℚ) ≤ |(F64.fin s m e).val|
    · linarith
    · have hlt : |(F64.fin s m e).val| < 180 := not_le.mp hbig
      have hn0 : n = 0 := by
        have h1 : |(n:ℚ) * 360| < 360 := by
          have e1 : (n:ℚ) * 360 = (F64.fin s m e).val - r := by rw [hval]; ring
          rw [e1]
          have := abs_sub (F64.fin s m e).val r
          linarith
        rw [abs_mul, abs_of_pos (by norm_num : (0:ℚ) < 360)] at h1
        have h2 : |(n:ℚ)| < 1 := by linarith
        rw [← Int.cast_abs] at h2
        have : |n| < 1 := by exact_mod_cast h2
        have := abs_nonneg n
        have : |n| = 0 := by omega
        exact abs_eq_zero.mp this
      rw [hval, hn0]; simp
  have hgx : OnGrid c (F64.fin s m e).val := ⟨g, hx⟩
  have hg360 : OnGrid 3 ((n:ℚ) * 360) := ⟨n * 45, by push_cast; ring⟩
  by_cases hc3 : c ≤ 3
  · refine Rep.of_grid (c := c) ?_ hc ?_
    · rw [hval]; exact hgx.sub (hg360.coarsen hc3)
    · refine le_trans hrx ?_
      rw [hx, abs_mul, abs_of_pos (Dy.two_zpow_pos c), add_comm, Dy.two_zpow_split]
      apply mul_le_mul_of_nonneg_right _ (Dy.two_zpow_pos c).le
      rw [← Int.cast_abs]
      have e53 : (2:ℚ) ^ (53:ℤ) = ((2 ^ 53 : ℤ) : ℚ) := by norm_num
      rw [e53]; exact_mod_cast (le_of_lt hg)
  · refine Rep.of_grid (c := 3) ?_ (by norm_num) ?_
    · rw [hval]; exact (hgx.coarsen (by omega)).sub hg360
    · have : (180:ℚ) ≤ (2:ℚ) ^ (3 + 53 : ℤ) := by norm_num
      linarith

end F64
end GeoVerif
