import GeoVerif.Proofs.DMS
/-!
# Digit strings of the formatter (`%.0f`, `%.*f`, `to_string`, zero fill): only digits, right widths, right values
-/
namespace GeoVerif.DMSProofs
open GeoVerif GeoVerif.DMS GeoVerif.Gen GeoVerif.Decimal

theorem isDigit_toNat {c : Char} (h : c.isDigit = true) : IsDigit c.toNat := by
  simp only [Char.isDigit, Bool.and_eq_true, decide_eq_true_eq] at h
  obtain ⟨h1, h2⟩ := h
  have a := UInt32.le_iff_toNat_le.mp h1
  have b := UInt32.le_iff_toNat_le.mp h2
  exact ⟨a, b⟩

theorem AllDigits.nil : AllDigits [] := by intro c hc; cases hc
theorem AllDigits.append {a b : Bytes} (ha : AllDigits a) (hb : AllDigits b) : AllDigits (a ++ b) := by
  intro c hc
  rcases List.mem_append.mp hc with h | h
  · exact ha c h
  · exact hb c h
theorem AllDigits.zeros (k : Nat) : AllDigits (List.replicate k 48) := by
  intro c hc
  have := (List.mem_replicate.mp hc).2
  subst this; exact ⟨by omega, by omega⟩
theorem AllDigits.take {a : Bytes} (ha : AllDigits a) (k : Nat) : AllDigits (a.take k) :=
  fun c hc => ha c (List.mem_of_mem_take hc)
theorem AllDigits.drop {a : Bytes} (ha : AllDigits a) (k : Nat) : AllDigits (a.drop k) :=
  fun c hc => ha c (List.mem_of_mem_drop hc)

theorem digitBytes_allDigits (n : Nat) : AllDigits (digitBytes n) := by
  intro c hc
  simp only [digitBytes, List.mem_map] at hc
  obtain ⟨ch, hm, rfl⟩ := hc
  exact isDigit_toNat (Nat.isDigit_of_mem_toDigits (by decide) (by decide) hm)

theorem digitBytes_ne_nil (n : Nat) : digitBytes n ≠ [] := by
  simp [digitBytes]

theorem digitBytes_length_pos (n : Nat) : 0 < (digitBytes n).length := by
  simp only [digitBytes, List.length_map]; exact Nat.length_toDigits_pos

theorem digitBytes_length_le (n k : Nat) (hk : 0 < k) : (digitBytes n).length ≤ k ↔ n < 10 ^ k := by
  simp only [digitBytes, List.length_map]
  exact Nat.length_toDigits_le_iff (by decide) hk

theorem digitsVal_map (v : Nat) (cs : List Char) : digitsVal v (cs.map Char.toNat) = Nat.ofDigitChars 10 cs v := by
  simp only [digitsVal, Nat.ofDigitChars, List.foldl_map]
  rfl

theorem digitsVal_digitBytes (n : Nat) : digitsVal 0 (digitBytes n) = n := by
  rw [digitBytes, digitsVal_map]; exact Nat.ofDigitChars_ten_toDigits

theorem digitsVal_append (v : Nat) (a b : Bytes) : digitsVal v (a ++ b) = digitsVal (digitsVal v a) b := by
  simp only [digitsVal, List.foldl_append]

theorem digitsVal_shift (v : Nat) (ds : Bytes) : digitsVal v ds = v * 10 ^ ds.length + digitsVal 0 ds := by
  induction ds generalizing v with
  | nil => simp [digitsVal]
  | cons c t ih =>
    rw [digitsVal_cons, digitsVal_cons, ih, ih (10 * 0 + (c - 48))]
    simp only [List.length_cons, Nat.pow_succ]
    have : (10 * v + (c - 48)) * 10 ^ t.length = v * (10 ^ t.length * 10) + (10 * 0 + (c - 48)) * 10 ^ t.length := by
      rw [Nat.add_mul, Nat.add_mul]; simp only [Nat.mul_zero, Nat.zero_mul, Nat.zero_add]
      congr 1
      rw [Nat.mul_comm 10 v, Nat.mul_assoc, Nat.mul_comm 10]
    omega

theorem digitsVal_zeros (k : Nat) : digitsVal 0 (List.replicate k 48) = 0 := by
  induction k with
  | zero => rfl
  | succ k ih => rw [List.replicate_succ, digitsVal_cons]; exact ih

theorem digitsVal_lt_aux (ds : Bytes) (h : AllDigits ds) (v : Nat) : digitsVal v ds < (v + 1) * 10 ^ ds.length := by
  induction ds generalizing v with
  | nil => simp [digitsVal]
  | cons c t ih =>
    have hc : IsDigit c := h c (by simp)
    have ht : AllDigits t := fun x hx => h x (by simp [hx])
    rw [digitsVal_cons]
    have h1 := ih ht (10 * v + (c - 48))
    have h2 : (10 * v + (c - 48) + 1) * 10 ^ t.length ≤ ((v + 1) * 10) * 10 ^ t.length := by
      apply Nat.mul_le_mul_right
      unfold IsDigit at hc; omega
    simp only [List.length_cons, Nat.pow_succ]
    rw [Nat.mul_comm (10 ^ t.length) 10, ← Nat.mul_assoc]
    omega

theorem digitsVal_lt (ds : Bytes) (h : AllDigits ds) : digitsVal 0 ds < 10 ^ ds.length := by
  have := digitsVal_lt_aux ds h 0
  simpa using this

/-- leading zeros do not change the value -/
theorem digitsVal_zfill (k : Nat) (ds : Bytes) : digitsVal 0 (List.replicate k 48 ++ ds) = digitsVal 0 ds := by
  rw [digitsVal_append, digitsVal_zeros]

/-! ## `padDigits`, `unitsToFixed`, `fmtFixed` -/

theorem padDigits_allDigits (w n : Nat) : AllDigits (padDigits w n) :=
  (AllDigits.zeros _).append (digitBytes_allDigits n)

theorem padDigits_length (w n : Nat) : (padDigits w n).length = max w (digitBytes n).length := by
  simp only [padDigits, List.length_append, List.length_replicate]; omega

theorem padDigits_val (w n : Nat) : digitsVal 0 (padDigits w n) = n := by
  simp only [padDigits]; rw [digitsVal_zfill, digitsVal_digitBytes]

theorem padDigits_length_eq (w n : Nat) (hw : 0 < w) (hn : n < 10 ^ w) : (padDigits w n).length = w := by
  rw [padDigits_length]
  have := (digitBytes_length_le n w hw).mpr hn
  omega

/-- value split of a digit string at `k` from the right -/
theorem digitsVal_take_drop (ds : Bytes) (h : AllDigits ds) (p : Nat) (hp : p ≤ ds.length) :
    digitsVal 0 (ds.take (ds.length - p)) = digitsVal 0 ds / 10 ^ p ∧
    digitsVal 0 (ds.drop (ds.length - p)) = digitsVal 0 ds % 10 ^ p := by
  have hsplit : ds = ds.take (ds.length - p) ++ ds.drop (ds.length - p) := (List.take_append_drop _ _).symm
  have hlen : (ds.drop (ds.length - p)).length = p := by simp only [List.length_drop]; omega
  have hv : digitsVal 0 ds = digitsVal 0 (ds.take (ds.length - p)) * 10 ^ p + digitsVal 0 (ds.drop (ds.length - p)) := by
    conv => lhs; rw [hsplit]
    rw [digitsVal_append, digitsVal_shift, hlen]
  have hlt := digitsVal_lt _ (h.drop (ds.length - p))
  rw [hlen] at hlt
  have hpos : 0 < 10 ^ p := Nat.pow_pos (by decide)
  constructor
  · rw [hv, Nat.add_comm, Nat.add_mul_div_right _ _ hpos, Nat.div_eq_of_lt hlt, Nat.zero_add]
  · rw [hv, Nat.add_comm, Nat.add_mul_mod_self_right, Nat.mod_eq_of_lt hlt]

/-- **shape of `%.*f` on a count of units**: `int` digits (at least one), and for `p > 0` a point and exactly `p` digits;
    their values are `N / 10^p` and `N % 10^p` -/
theorem unitsToFixed_shape (N p : Nat) :
    ∃ I F : Bytes, unitsToFixed N p = I ++ (if p = 0 then [] else 46 :: F) ∧ AllDigits I ∧ I ≠ [] ∧ AllDigits F ∧
      F.length = p ∧ digitsVal 0 I = N / 10 ^ p ∧ digitsVal 0 F = N % 10 ^ p := by
  by_cases hp : p = 0
  · subst hp
    refine ⟨padDigits 1 N, [], ?_, padDigits_allDigits _ _, ?_, AllDigits.nil, rfl, ?_, ?_⟩
    · simp [unitsToFixed]
    · intro h
      have := padDigits_length 1 N
      rw [h] at this; simp at this; omega
    · rw [padDigits_val]; simp
    · simp [digitsVal, Nat.mod_one]
  · have hall := padDigits_allDigits (p + 1) N
    have hlen : p + 1 ≤ (padDigits (p + 1) N).length := by rw [padDigits_length]; omega
    obtain ⟨h1, h2⟩ := digitsVal_take_drop _ hall p (by omega)
    rw [padDigits_val] at h1 h2
    refine ⟨(padDigits (p + 1) N).take ((padDigits (p + 1) N).length - p),
      (padDigits (p + 1) N).drop ((padDigits (p + 1) N).length - p), ?_, hall.take _, ?_, hall.drop _, ?_, h1, h2⟩
    · simp only [unitsToFixed, hp, if_false, List.append_assoc, List.singleton_append]
    · intro h
      have := congrArg List.length h
      simp only [List.length_take, List.length_nil] at this
      omega
    · simp only [List.length_drop]; omega

/-- the fraction text `.ddd` of the minutes / seconds field -/
theorem fracText_shape (u p : Nat) :
    ∃ F : Bytes, fracText u p = (if p = 0 then [] else 46 :: F) ∧ AllDigits F ∧ F.length = p ∧ digitsVal 0 F = u % 10 ^ p := by
  by_cases hp : p = 0
  · subst hp; exact ⟨[], by simp [fracText], AllDigits.nil, rfl, by simp [digitsVal, Nat.mod_one]⟩
  · refine ⟨padDigits p (u % 10 ^ p), by simp [fracText, hp], padDigits_allDigits _ _, ?_, padDigits_val _ _⟩
    exact padDigits_length_eq _ _ (by omega) (Nat.mod_lt _ (Nat.pow_pos (by decide)))

end GeoVerif.DMSProofs
