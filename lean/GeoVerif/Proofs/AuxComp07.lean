import GeoVerif.Series.AuxSeries
/-! Kernel-checked composition certificates for the series tables of `AuxLatitude.cpp` (re-extracted into `Gen/AuxSeries.lean`
on every run): `checkCompose c b a` says C[c←a] = C[c←b] ∘ C[b←a] modulo n^(L+1).  GENERATED LAYOUT (one module per six
triples so that lake checks them in parallel; each `decide +kernel` takes about 10 s).  0 φ, 1 β, 2 θ, 3 μ, 4 χ, 5 ξ. -/
namespace GeoVerif.Proofs.AuxCert
open GeoVerif.Series.Aux

theorem compose_1_5_0 : checkCompose 1 5 0 = true := by decide +kernel
theorem compose_1_5_2 : checkCompose 1 5 2 = true := by decide +kernel
theorem compose_1_5_3 : checkCompose 1 5 3 = true := by decide +kernel
theorem compose_1_5_4 : checkCompose 1 5 4 = true := by decide +kernel
theorem compose_2_0_1 : checkCompose 2 0 1 = true := by decide +kernel
theorem compose_2_0_3 : checkCompose 2 0 3 = true := by decide +kernel

end GeoVerif.Proofs.AuxCert
