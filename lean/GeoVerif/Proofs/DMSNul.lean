import GeoVerif.Proofs.DMS
/-!
# `DMS::Decode`: NUL bytes, sums of signed pieces, hemisphere / sign rules (core Lean only)

All statements are about the executable byte-level model `Model/DMS.lean` and hold for every string (`List Nat`).

* **A** `decode_nul`: a string containing a NUL byte (anywhere) is rejected by `decode`.  Chain: `replaceAll`, `trim`,
  `pieces`, `strip` keep the NUL (`replaceAll_keeps_nul`, `trim_keeps_nul`, `pieces_keep_nul`, `strip_keeps_nul` via
  `strip_decomp`), the component loop rejects it (`comps_nul`), `nummatch` does not match it (`nummatch_nul`).
* **B1** `sumPieces_ok`: the sum over the pieces is the left-to-right binary64 sum, with the flags folded by `combineFlags`.
* **B2** `pieces_split`: the splitting at sign characters gives back a list of signed pieces (`FirstPiece`, `LaterPiece`).
* **B3** `decode_sum`, `decode_sum_value`: a string of signed pieces decodes to `((−0 + x₁) + x₂) + …`.
* **B4** rules of `strip` (`strip_stages`: leading letter, trailing letter, one sign): `strip_two_hemispheres`,
  `strip_sign_after_leading_hemi`, `strip_sign_with_trailing_hemi`, `strip_trailing_hemi`,
  `strip_internal_sign_not_removed` + `comps_internal_sign` (`internalDecode_double_sign`).
-/
namespace GeoVerif.DMSProofs
open GeoVerif GeoVerif.DMS GeoVerif.Gen GeoVerif.Decimal

/-! ## A. a NUL byte anywhere makes `decode` fail -/

theorem replaceGo_keeps_nul (pat : Bytes) (c : Nat) (hp : 0 ∉ pat) :
    ∀ (fuel : Nat) (s : Bytes), 0 ∈ s → 0 ∈ replaceGo pat c fuel s := by
  intro fuel
  induction fuel with
  | zero => intro s h; simpa [replaceGo] using h
  | succ fuel ih =>
    intro s h
    unfold replaceGo
    by_cases hpre : pat.isPrefixOf s = true
    · have hd : 0 ∈ s.drop pat.length := by
        obtain ⟨t, ht⟩ := List.isPrefixOf_iff_prefix.mp hpre
        subst ht
        rw [List.drop_left]
        rcases List.mem_append.mp h with h | h
        · exact absurd h hp
        · exact h
      rw [if_pos hpre]
      split
      · exact ih _ hd
      · exact ih _ (List.mem_cons_of_mem _ hd)
    · rw [if_neg hpre]
      cases s with
      | nil => cases h
      | cons x t =>
        simp only
        rcases List.mem_cons.mp h with h | h
        · rw [← h]; exact List.mem_cons_self
        · exact List.mem_cons_of_mem _ (ih t h)

theorem replace1_keeps_nul (pat : Bytes) (c : Nat) (hp : 0 ∉ pat) (s : Bytes) (h : 0 ∈ s) :
    0 ∈ replace1 pat c s := by
  unfold replace1
  split
  · exact h
  · exact replaceGo_keeps_nul pat c hp _ s h

theorem replaceTable_no_nul : ∀ pc ∈ DMSC.replaceTable, 0 ∉ pc.1 := by decide +kernel

theorem foldl_replace_keeps_nul (tbl : List (Bytes × Nat)) (ht : ∀ pc ∈ tbl, 0 ∉ pc.1) :
    ∀ s : Bytes, 0 ∈ s → 0 ∈ tbl.foldl (fun acc pc => replace1 pc.1 pc.2 acc) s := by
  induction tbl with
  | nil => intro s h; simpa using h
  | cons pc tbl ih =>
    intro s h
    rw [List.foldl_cons]
    exact ih (fun q hq => ht q (List.mem_cons_of_mem _ hq)) _
      (replace1_keeps_nul pc.1 pc.2 (ht pc List.mem_cons_self) s h)

theorem replaceAll_keeps_nul (s : Bytes) (h : 0 ∈ s) : 0 ∈ replaceAll s :=
  foldl_replace_keeps_nul _ replaceTable_no_nul s h

theorem mem_dropWhile_of_false {p : Nat → Bool} {x : Nat} :
    ∀ {s : Bytes}, x ∈ s → p x = false → x ∈ s.dropWhile p := by
  intro s
  induction s with
  | nil => intro h; cases h
  | cons a t ih =>
    intro h hp
    rw [List.dropWhile_cons]
    split
    · rename_i ha
      rcases List.mem_cons.mp h with h | h
      · subst h; rw [hp] at ha; cases ha
      · exact ih h hp
    · exact h

theorem trim_keeps_nul (s : Bytes) (h : 0 ∈ s) : 0 ∈ trim s := by
  unfold trim
  have h0 : isspace 0 = false := by decide
  exact List.mem_reverse.mpr (mem_dropWhile_of_false (List.mem_reverse.mpr (mem_dropWhile_of_false h h0)) h0)

/-- splitting a sum loses nothing (same statement as `Props.C10.pieces_join`) -/
theorem pieces_flatten : ∀ (fuel : Nat) (first : Bool) (t : Bytes), t.length ≤ fuel → (pieces fuel first t).flatten = t := by
  intro fuel
  induction fuel with
  | zero =>
    intro first t h
    have : t = [] := by cases t with | nil => rfl | cons _ _ => simp at h
    subst this; simp [pieces]
  | succ fuel ih =>
    intro first t h
    cases t with
    | nil => simp [pieces]
    | cons c t' =>
      simp only [pieces, List.isEmpty_cons, Bool.false_eq_true, if_false, List.flatten_cons]
      rw [ih]
      · exact List.take_append_drop _ _
      · simp only [List.length_drop, List.length_cons] at h ⊢
        omega

theorem pieces_keep_nul (t : Bytes) (h : 0 ∈ t) : ∃ p ∈ pieces (t.length + 1) true t, 0 ∈ p := by
  have hj := pieces_flatten (t.length + 1) true t (Nat.le_succ _)
  rw [← hj] at h
  obtain ⟨p, hp, h0⟩ := List.mem_flatten.mp h
  exact ⟨p, hp, h0⟩


/-! ### `strip` in three stages -/

/-- leading hemisphere letter -/
def stripLead (s : Bytes) : Flag × Bool × Bytes :=
  match s with
  | c :: t => let k := lookup DMSC.hemispheres c
              if k ≥ 0 then (hemiFlag k, hemiNeg k, t) else (Flag.none, false, s)
  | [] => (Flag.none, false, s)

/-- trailing hemisphere letter -/
def stripTrail (ind1 : Flag) (neg1 : Bool) (s1 : Bytes) : Except Err (Flag × Bool × Bytes) :=
  match s1.getLast? with
  | some c =>
    let k := lookup DMSC.hemispheres c
    if k ≥ 0 then
      (if ind1 ≠ Flag.none then .error "Repeated or contradictory hemisphere indicators"
       else .ok (hemiFlag k, hemiNeg k, s1.dropLast))
    else .ok (ind1, neg1, s1)
  | Option.none => .ok (ind1, neg1, s1)

/-- one sign -/
def stripSign (neg : Bool) (s2 : Bytes) : Bool × Bytes :=
  match s2 with
  | c :: t => let k := lookup DMSC.signs c
              if k ≥ 0 then ((if k = 0 then !neg else neg), t) else (neg, s2)
  | [] => (neg, s2)

theorem strip_stages (s : Bytes) :
    strip s =
      match stripTrail (stripLead s).1 (stripLead s).2.1 (stripLead s).2.2 with
      | .error e => .error e
      | .ok (ind, neg, s2) =>
        if (stripSign neg s2).2.isEmpty then .error "Empty or incomplete DMS string"
        else .ok ⟨(stripSign neg s2).1, ind, (stripSign neg s2).2⟩ := by
  rfl

theorem ne_zero_of_lookup_nonneg {tbl : Bytes} {c : Nat} (h : lookup tbl c ≥ 0) : c ≠ 0 := by
  intro h0; subst h0
  have := lookup_zero tbl
  omega

theorem stripLead_decomp (s : Bytes) :
    ∃ pre, s = pre ++ (stripLead s).2.2 ∧ ∀ c ∈ pre, c ≠ 0 := by
  cases s with
  | nil => exact ⟨[], rfl, by intro c hc; cases hc⟩
  | cons c t =>
    by_cases hk : lookup DMSC.hemispheres c ≥ 0
    · refine ⟨[c], by simp [stripLead, hk], ?_⟩
      intro x hx
      rw [List.mem_singleton] at hx; subst hx
      exact ne_zero_of_lookup_nonneg hk
    · exact ⟨[], by simp [stripLead, hk], by intro c hc; cases hc⟩

theorem stripTrail_decomp {ind1 : Flag} {neg1 : Bool} {s1 : Bytes} {ind : Flag} {neg : Bool} {s2 : Bytes}
    (h : stripTrail ind1 neg1 s1 = .ok (ind, neg, s2)) :
    ∃ post, s1 = s2 ++ post ∧ ∀ c ∈ post, c ≠ 0 := by
  unfold stripTrail at h
  split at h
  · rename_i c hc
    obtain ⟨ys, hys⟩ := List.getLast?_eq_some_iff.mp hc
    simp only at h
    split at h
    · rename_i hk
      split at h
      · cases h
      · cases h
        refine ⟨[c], ?_, ?_⟩
        · rw [hys, List.dropLast_concat]
        · intro x hx
          rw [List.mem_singleton] at hx; subst hx
          exact ne_zero_of_lookup_nonneg hk
    · cases h
      exact ⟨[], by simp, by intro c hc; cases hc⟩
  · cases h
    exact ⟨[], by simp, by intro c hc; cases hc⟩

theorem stripSign_decomp (neg : Bool) (s2 : Bytes) :
    ∃ pre, s2 = pre ++ (stripSign neg s2).2 ∧ ∀ c ∈ pre, c ≠ 0 := by
  cases s2 with
  | nil => exact ⟨[], rfl, by intro c hc; cases hc⟩
  | cons c t =>
    by_cases hk : lookup DMSC.signs c ≥ 0
    · refine ⟨[c], by simp [stripSign, hk], ?_⟩
      intro x hx
      rw [List.mem_singleton] at hx; subst hx
      exact ne_zero_of_lookup_nonneg hk
    · exact ⟨[], by simp [stripSign, hk], by intro c hc; cases hc⟩

/-- what `strip` removes: NUL-free text at both ends (a hemisphere letter and/or one sign) -/
theorem strip_decomp {s : Bytes} {st : Stripped} (h : strip s = .ok st) :
    ∃ pre post, s = pre ++ st.body ++ post ∧ (∀ c ∈ pre, c ≠ 0) ∧ (∀ c ∈ post, c ≠ 0) := by
  rw [strip_stages] at h
  obtain ⟨pre1, e1, n1⟩ := stripLead_decomp s
  split at h
  · cases h
  · rename_i ind neg s2 htr
    obtain ⟨post, e2, n2⟩ := stripTrail_decomp htr
    obtain ⟨pre3, e3, n3⟩ := stripSign_decomp neg s2
    split at h
    · cases h
    · cases h
      refine ⟨pre1 ++ pre3, post, ?_, ?_, n2⟩
      · simp only
        rw [List.append_assoc pre1, ← e3, List.append_assoc, ← e2, ← e1]
      · intro c hc
        rcases List.mem_append.mp hc with hc | hc
        · exact n1 c hc
        · exact n3 c hc

theorem strip_keeps_nul {s : Bytes} {st : Stripped} (h : strip s = .ok st) (h0 : 0 ∈ s) : 0 ∈ st.body := by
  obtain ⟨pre, post, e, n1, n2⟩ := strip_decomp h
  rw [e] at h0
  rcases List.mem_append.mp h0 with h0 | h0
  · rcases List.mem_append.mp h0 with h0 | h0
    · exact absurd rfl (n1 0 h0)
    · exact h0
  · exact absurd rfl (n2 0 h0)

/-! ### `nummatch` -/

theorem mem_stripTrailing {x c : Nat} {s : Bytes} (hx : x ∈ s) (hne : x ≠ c) : x ∈ stripTrailing c s := by
  unfold stripTrailing
  refine List.mem_reverse.mpr (mem_dropWhile_of_false (p := (· == c)) (List.mem_reverse.mpr hx) ?_)
  simpa using hne

theorem stripTrailing_prefix (c : Nat) (s : Bytes) : stripTrailing c s <+: s := by
  unfold stripTrailing
  have := List.dropWhile_suffix (l := s.reverse) (· == c)
  rw [← List.reverse_prefix, List.reverse_reverse] at this
  exact this

theorem beq_false_of_mem {w lit : Bytes} (hw : 0 ∈ w) (hl : 0 ∉ lit) : (w == lit) = false := by
  apply beq_eq_false_iff_ne.mpr
  intro e; subst e; exact hl hw

theorem ite_one_zero_le (c : Prop) [Decidable c] : (if c then 1 else 0) ≤ 1 := by
  by_cases h : c <;> simp [h]

theorem nummatch_nul (s : Bytes) (h : 0 ∈ s) : nummatch s = Option.none := by
  have ht : 0 ∈ s.map toupper := List.mem_map.mpr ⟨0, h, by decide⟩
  have hu : 0 ∈ stripTrailing 48 (s.map toupper) := mem_stripTrailing ht (by decide)
  obtain ⟨r, hr⟩ := stripTrailing_prefix 48 (s.map toupper)
  unfold nummatch
  simp only []
  generalize hp0 : (if ((s.map toupper).head? == some 45 || (s.map toupper).head? == some 43) = true then 1 else 0) = p0
  have hw : 0 ∈ (stripTrailing 48 (s.map toupper)).drop p0 := by
    cases hU : stripTrailing 48 (s.map toupper) with
    | nil => rw [hU] at hu; cases hu
    | cons a u' =>
      rw [hU] at hu hr
      rw [← hr] at hp0
      simp only [List.cons_append, List.head?_cons] at hp0
      by_cases ha : a = 0
      · subst ha
        have : p0 = 0 := by rw [← hp0]; simp
        subst this; simp
      · have hu' : 0 ∈ u' := by
          rcases List.mem_cons.mp hu with h | h
          · exact absurd h.symm ha
          · exact h
        have hle : p0 ≤ 1 := by rw [← hp0]; exact ite_one_zero_le _
        match p0, hle with
        | 0, _ => exact hu
        | 1, _ => simpa using hu'
  split
  · rfl
  · split
    · rfl
    · rw [beq_false_of_mem hw (by decide), beq_false_of_mem hw (by decide), beq_false_of_mem hw (by decide),
        beq_false_of_mem hw (by decide), beq_false_of_mem hw (by decide), beq_false_of_mem hw (by decide),
        beq_false_of_mem hw (by decide), beq_false_of_mem hw (by decide)]
      rfl

/-! ### `InternalDecode`, the sum, `Decode` -/

theorem parseFields_nul (p : Bytes) (h : 0 ∈ p) : ∃ e, parseFields p = .error e := by
  unfold parseFields
  cases hs : strip p with
  | error e => exact ⟨e, rfl⟩
  | ok st =>
    obtain ⟨e, he⟩ := comps_nul 4 0 {} st.body (strip_keeps_nul hs h)
    simp only [he]
    exact ⟨e, rfl⟩

theorem internalDecode_nul (p : Bytes) (h : 0 ∈ p) : ∃ e, internalDecode p = .error e := by
  obtain ⟨e, he⟩ := parseFields_nul p h
  unfold internalDecode
  simp only [he, nummatch_nul p h]
  exact ⟨e, rfl⟩

theorem sumPieces_error_of_mem (ps : List Bytes) (h : ∃ p ∈ ps, ∃ e, internalDecode p = .error e) :
    ∀ (v : F64) (ind : Flag), ∃ e, sumPieces ps v ind = .error e := by
  induction ps with
  | nil => obtain ⟨p, hp, _⟩ := h; cases hp
  | cons q ps ih =>
    intro v ind
    unfold sumPieces
    cases hq : internalDecode q with
    | error e => exact ⟨e, rfl⟩
    | ok x =>
      obtain ⟨x1, x2⟩ := x
      simp only
      cases hc : combineFlags ind x2 with
      | error e => exact ⟨e, rfl⟩
      | ok ind' =>
        simp only
        apply ih
        obtain ⟨p, hp, e, he⟩ := h
        rcases List.mem_cons.mp hp with hp | hp
        · subst hp; rw [hq] at he; cases he
        · exact ⟨p, hp, e, he⟩

/-- **NUL is rejected**: `DMS::Decode` of a string containing a NUL byte (anywhere) is an error -/
theorem decode_nul (s : Bytes) (h : 0 ∈ s) : ∃ e, decode s = .error e := by
  have ht : 0 ∈ trim (replaceAll s) := trim_keeps_nul _ (replaceAll_keeps_nul s h)
  obtain ⟨p, hp, h0⟩ := pieces_keep_nul _ ht
  unfold decode
  simp only
  split
  · exact ⟨_, rfl⟩
  · exact sumPieces_error_of_mem _ ⟨p, hp, internalDecode_nul p h0⟩ _ _

/-! ## B. sums of signed pieces -/

def foldFlags : List Flag → Flag → Except Err Flag
  | [], i => .ok i
  | f :: fs, i => match combineFlags i f with | .error e => .error e | .ok i' => foldFlags fs i'

theorem sumPieces_ok (ps : List Bytes) (xs : List (F64 × Flag)) :
    ps.map internalDecode = xs.map Except.ok →
    ∀ (v : F64) (ind : Flag),
    sumPieces ps v ind =
      match foldFlags (xs.map (·.2)) ind with
      | .error e => .error e
      | .ok f => .ok ((xs.map (·.1)).foldl F64.add v, f) := by
  induction ps generalizing xs with
  | nil =>
    intro h v ind
    cases xs with
    | nil => rfl
    | cons _ _ => simp at h
  | cons p ps ih =>
    intro h v ind
    cases xs with
    | nil => simp at h
    | cons x xs =>
      simp only [List.map_cons, List.cons.injEq] at h
      obtain ⟨hpx, hrest⟩ := h
      obtain ⟨x1, x2⟩ := x
      simp only [sumPieces, hpx, List.map_cons, foldFlags, List.foldl_cons]
      cases hc : combineFlags ind x2 with
      | error e => rfl
      | ok ind' => exact ih xs hrest _ _

theorem isSign_iff (c : Nat) : isSign c = true ↔ (c = 45 ∨ c = 43) := by
  by_cases hlt : c < 128
  · have : ∀ c, c < 128 → (isSign c = true ↔ (c = 45 ∨ c = 43)) := by decide +kernel
    exact this c hlt
  · have hu : toupper c = c := toupper_of_gt c (by omega)
    have h0 : c ≠ 0 := by omega
    simp only [isSign, lookup, h0, if_false, hu, DMSC.signs, indexOf]
    have e1 : (45 = c) = False := by simp; omega
    have e2 : (43 = c) = False := by simp; omega
    simp [e1, e2]
    omega

theorem isSignRaw_iff (c : Nat) : isSignRaw c = true ↔ (c = 45 ∨ c = 43) := by
  simp [isSignRaw, DMSC.signs]

theorem isSign_eq_isSignRaw (c : Nat) : isSign c = isSignRaw c := by
  have h1 := isSign_iff c
  have h2 := isSignRaw_iff c
  cases ha : isSign c <;> cases hb : isSignRaw c <;> simp_all

theorem isHemi_of_isSign {c : Nat} (h : isSign c = true) : isHemi c = false := by
  rcases (isSign_iff c).mp h with rfl | rfl <;> decide

/-! ### B2: the splitting at signs recovers a list of signed pieces -/

theorem takeWhile_append_stop {p : Nat → Bool} (a b : Bytes) (ha : ∀ x ∈ a, p x = true)
    (hb : ∀ c t, b = c :: t → p c = false) : (a ++ b).takeWhile p = a := by
  rw [List.takeWhile_append_of_pos ha]
  cases b with
  | nil => simp
  | cons c t =>
    have := hb c t rfl
    rw [List.takeWhile_cons_of_neg (by simp [this])]
    simp

/-- the rest of the text after a piece: nothing, or it starts with a (raw) sign character -/
def SignStart (R : Bytes) : Prop := ∀ c t, R = c :: t → isSignRaw c = true

/-- a piece after the first: a sign character followed by sign-free text -/
def LaterPiece (p : Bytes) : Prop :=
  ∃ c body, p = c :: body ∧ isSignRaw c = true ∧ ∀ x ∈ body, isSignRaw x = false

/-- the first piece: optional hemisphere letter, optional sign, sign-free text; not empty, not ending right after the
    hemisphere letter, and the decomposition is the greedy one (no letter taken ⇒ the text does not start with one) -/
def FirstPiece (p : Bytes) : Prop :=
  ∃ (h sg : Option Nat) (body : Bytes), p = h.toList ++ (sg.toList ++ body) ∧
    (∀ c ∈ h, isHemi c = true) ∧ (∀ c ∈ sg, isSign c = true) ∧
    (∀ x ∈ body, isSignRaw x = false) ∧
    (sg = none → body ≠ []) ∧
    (h = none → sg = none → ∀ c ∈ body.head?, isHemi c = false)

theorem takeWhile_body (body R : Bytes) (hb : ∀ x ∈ body, isSignRaw x = false) (hR : SignStart R) :
    (body ++ R).takeWhile (fun c => !isSignRaw c) = body :=
  takeWhile_append_stop body R (by intro x hx; simp [hb x hx]) (by intro c t h; simp [hR c t h])

theorem pieceLen_later (c : Nat) (body R : Bytes) (hb : ∀ x ∈ body, isSignRaw x = false) (hR : SignStart R) :
    pieceLen false ((c :: body) ++ R) = (c :: body).length := by
  simp only [pieceLen, Bool.false_and, Bool.false_eq_true, if_false, Bool.not_false, Bool.true_or, if_true,
    List.cons_append, Nat.zero_add, List.drop_succ_cons, List.drop_zero, List.length_cons]
  rw [takeWhile_body body R hb hR]
  omega

theorem pieceLen_hemi_sign (c s : Nat) (u : Bytes) (hc : isHemi c = true) (hs : isSign s = true) :
    pieceLen true (c :: s :: u) = 2 + (u.takeWhile fun c => !isSignRaw c).length := by
  simp [pieceLen, hc, hs] <;> omega

theorem pieceLen_hemi_nosign (c x : Nat) (u : Bytes) (hc : isHemi c = true) (hx : isSign x = false) :
    pieceLen true (c :: x :: u) = 1 + ((x :: u).takeWhile fun c => !isSignRaw c).length := by
  simp [pieceLen, hc, hx] <;> omega

theorem pieceLen_sign (s : Nat) (u : Bytes) (hc : isHemi s = false) (hs : isSign s = true) :
    pieceLen true (s :: u) = 1 + (u.takeWhile fun c => !isSignRaw c).length := by
  simp [pieceLen, hc, hs] <;> omega

theorem pieceLen_plain (b : Nat) (u : Bytes) (hc : isHemi b = false) (hs : isSign b = false) :
    pieceLen true (b :: u) = ((b :: u).takeWhile fun c => !isSignRaw c).length := by
  simp [pieceLen, hc, hs]

theorem pieceLen_first (p R : Bytes) (hp : FirstPiece p) (hR : SignStart R) :
    pieceLen true (p ++ R) = p.length := by
  obtain ⟨h, sg, body, rfl, hh, hsg, hb, hne, hgreedy⟩ := hp
  have tw := takeWhile_body body R hb hR
  cases h with
  | some c =>
    have hc : isHemi c = true := hh c rfl
    cases sg with
    | some s =>
      have hs : isSign s = true := hsg s rfl
      show pieceLen true (c :: s :: (body ++ R)) = (c :: s :: body).length
      rw [pieceLen_hemi_sign c s _ hc hs, tw]
      simp only [List.length_cons]; omega
    | none =>
      cases body with
      | nil => exact absurd rfl (hne rfl)
      | cons b body' =>
        have hbs : isSign b = false := by rw [isSign_eq_isSignRaw]; exact hb b List.mem_cons_self
        show pieceLen true (c :: b :: (body' ++ R)) = (c :: b :: body').length
        rw [pieceLen_hemi_nosign c b _ hc hbs]
        show 1 + (List.takeWhile (fun c => !isSignRaw c) (b :: body' ++ R)).length = _
        rw [tw]
        simp only [List.length_cons]; omega
  | none =>
    cases sg with
    | some s =>
      have hs : isSign s = true := hsg s rfl
      show pieceLen true (s :: (body ++ R)) = (s :: body).length
      rw [pieceLen_sign s _ (isHemi_of_isSign hs) hs, tw]
      simp only [List.length_cons]; omega
    | none =>
      cases body with
      | nil => exact absurd rfl (hne rfl)
      | cons b body' =>
        have hbs : isSign b = false := by rw [isSign_eq_isSignRaw]; exact hb b List.mem_cons_self
        have hbh : isHemi b = false := hgreedy rfl rfl b rfl
        show pieceLen true (b :: (body' ++ R)) = (b :: body').length
        rw [pieceLen_plain b _ hbh hbs]
        show (List.takeWhile (fun c => !isSignRaw c) (b :: body' ++ R)).length = _
        rw [tw]

theorem pieces_step (fuel : Nat) (first : Bool) (p R : Bytes) (hp : p ≠ [])
    (hlen : pieceLen first (p ++ R) = p.length) :
    pieces (fuel + 1) first (p ++ R) = p :: pieces fuel false R := by
  have hne : (p ++ R).isEmpty = false := by cases p with | nil => exact absurd rfl hp | cons _ _ => rfl
  have hpl : 1 ≤ p.length := by cases p with | nil => exact absurd rfl hp | cons _ _ => simp
  have hn : max 1 (min (pieceLen first (p ++ R)) (p ++ R).length) = p.length := by
    rw [hlen, List.length_append]; omega
  simp only [pieces, hne, Bool.false_eq_true, if_false, hn, List.take_left', List.drop_left']

theorem laterPiece_ne_nil {p : Bytes} (h : LaterPiece p) : p ≠ [] := by
  obtain ⟨c, body, rfl, _, _⟩ := h; simp

theorem firstPiece_ne_nil {p : Bytes} (h : FirstPiece p) : p ≠ [] := by
  obtain ⟨h, sg, body, rfl, _, _, _, hne, _⟩ := h
  cases sg with
  | none => have := hne rfl; simp [this]
  | some s => simp

theorem signStart_flatten (ps : List Bytes) (h : ∀ p ∈ ps, LaterPiece p) : SignStart ps.flatten := by
  intro c t e
  cases ps with
  | nil => simp at e
  | cons q ps' =>
    obtain ⟨c', body, rfl, hc', _⟩ := h q List.mem_cons_self
    simp only [List.flatten_cons, List.cons_append, List.cons.injEq] at e
    rw [← e.1]; exact hc'

theorem pieces_nil (fuel : Nat) (first : Bool) : pieces fuel first [] = [] := by
  cases fuel <;> simp [pieces]

/-- later pieces are recovered -/
theorem pieces_later (ps : List Bytes) (h : ∀ p ∈ ps, LaterPiece p) :
    ∀ fuel, ps.flatten.length ≤ fuel → pieces fuel false ps.flatten = ps := by
  induction ps with
  | nil => intro fuel _; exact pieces_nil fuel false
  | cons q ps ih =>
    intro fuel hf
    have hq := h q List.mem_cons_self
    have hps : ∀ p ∈ ps, LaterPiece p := fun p hp => h p (List.mem_cons_of_mem _ hp)
    have hqne := laterPiece_ne_nil hq
    have hql : 1 ≤ q.length := by cases q with | nil => exact absurd rfl hqne | cons _ _ => simp
    simp only [List.flatten_cons, List.length_append] at hf ⊢
    obtain ⟨f, rfl⟩ : ∃ f, fuel = f + 1 := ⟨fuel - 1, by omega⟩
    obtain ⟨c, body, rfl, _, hb⟩ := hq
    rw [pieces_step f false _ _ hqne (pieceLen_later c body _ hb (signStart_flatten ps hps))]
    rw [ih hps f (by omega)]

/-- **B2**: a list of signed pieces is exactly what the splitting of their concatenation gives back -/
theorem pieces_split (p1 : Bytes) (rest : List Bytes) (h1 : FirstPiece p1) (hr : ∀ p ∈ rest, LaterPiece p)
    (fuel : Nat) (hf : (p1 :: rest).flatten.length ≤ fuel) :
    pieces fuel true (p1 :: rest).flatten = p1 :: rest := by
  have hne := firstPiece_ne_nil h1
  have hl : 1 ≤ p1.length := by cases p1 with | nil => exact absurd rfl hne | cons _ _ => simp
  simp only [List.flatten_cons, List.length_append] at hf ⊢
  obtain ⟨f, rfl⟩ : ∃ f, fuel = f + 1 := ⟨fuel - 1, by omega⟩
  rw [pieces_step f true _ _ hne (pieceLen_first p1 _ h1 (signStart_flatten rest hr))]
  rw [pieces_later rest hr f (by omega)]

/-- **B3**: a (substitution-free, trimmed) string of signed pieces decodes to the sum of its pieces -/
theorem decode_sum (p1 : Bytes) (rest : List Bytes) (h1 : FirstPiece p1) (hr : ∀ p ∈ rest, LaterPiece p)
    (hrep : replaceAll (p1 :: rest).flatten = (p1 :: rest).flatten)
    (htrim : trim (p1 :: rest).flatten = (p1 :: rest).flatten) :
    decode (p1 :: rest).flatten = sumPieces (p1 :: rest) F64.nzero Flag.none := by
  unfold decode
  simp only [hrep, htrim]
  rw [pieces_split p1 rest h1 hr _ (Nat.le_succ _)]
  rfl

/-- B1 + B3: the value is the left-to-right binary64 sum `((−0 + x₁) + x₂) + …`, the flags are combined -/
theorem decode_sum_value (p1 : Bytes) (rest : List Bytes) (h1 : FirstPiece p1) (hr : ∀ p ∈ rest, LaterPiece p)
    (hrep : replaceAll (p1 :: rest).flatten = (p1 :: rest).flatten)
    (htrim : trim (p1 :: rest).flatten = (p1 :: rest).flatten)
    (xs : List (F64 × Flag)) (hx : (p1 :: rest).map internalDecode = xs.map Except.ok) :
    decode (p1 :: rest).flatten =
      match foldFlags (xs.map (·.2)) Flag.none with
      | .error e => .error e
      | .ok f => .ok ((xs.map (·.1)).foldl F64.add F64.nzero, f) := by
  rw [decode_sum p1 rest h1 hr hrep htrim]
  exact sumPieces_ok _ xs hx _ _

-- non-vacuity of B2 / B3: the example of the documentation, `S3-2.5+4.1N`
theorem example_first : FirstPiece (strBytes "S3") :=
  ⟨some 83, none, [51], (by decide), (by intro c hc; cases hc; decide), (by intro c hc; cases hc), (by decide),
    (by intro _; simp), (by intro h; cases h)⟩

theorem example_later : ∀ p ∈ [strBytes "-2.5", strBytes "+4.1N"], LaterPiece p := by
  intro p hp
  simp only [List.mem_cons, List.not_mem_nil, or_false] at hp
  rcases hp with rfl | rfl
  · exact ⟨45, strBytes "2.5", by decide, by decide, by decide⟩
  · exact ⟨43, strBytes "4.1N", by decide, by decide, by decide⟩

example : pieces 12 true (strBytes "S3-2.5+4.1N") = [strBytes "S3", strBytes "-2.5", strBytes "+4.1N"] :=
  pieces_split (strBytes "S3") [strBytes "-2.5", strBytes "+4.1N"] example_first example_later 12 (by decide)

example : decode (strBytes "S3-2.5+4.1N") =
    sumPieces [strBytes "S3", strBytes "-2.5", strBytes "+4.1N"] F64.nzero Flag.none :=
  decode_sum (strBytes "S3") [strBytes "-2.5", strBytes "+4.1N"] example_first example_later
    (by decide +kernel) (by decide +kernel)

/-! ### B4: hemisphere / sign rules of `strip`, for all strings -/

theorem isHemi_true_iff (c : Nat) : isHemi c = true ↔ lookup DMSC.hemispheres c ≥ 0 := by simp [isHemi]
theorem isSign_true_iff (c : Nat) : isSign c = true ↔ lookup DMSC.signs c ≥ 0 := by simp [isSign]

theorem stripLead_hemi (c : Nat) (t : Bytes) (h : isHemi c = true) :
    stripLead (c :: t) = (hemiFlag (lookup DMSC.hemispheres c), hemiNeg (lookup DMSC.hemispheres c), t) := by
  have := (isHemi_true_iff c).mp h
  simp [stripLead, this]

theorem stripLead_nohemi (c : Nat) (t : Bytes) (h : isHemi c = false) :
    stripLead (c :: t) = (Flag.none, false, c :: t) := by
  have : ¬ lookup DMSC.hemispheres c ≥ 0 := by rw [← isHemi_true_iff, h]; simp
  simp only [stripLead, this, if_false]

theorem stripTrail_nohemi (ind : Flag) (neg : Bool) (s : Bytes) (h : ∀ c ∈ s.getLast?, isHemi c = false) :
    stripTrail ind neg s = .ok (ind, neg, s) := by
  unfold stripTrail
  split
  · rename_i c hc
    have : ¬ lookup DMSC.hemispheres c ≥ 0 := by rw [← isHemi_true_iff, h c hc]; simp
    simp only [this, if_false]
  · rfl

theorem stripTrail_hemi (ind : Flag) (neg : Bool) (s : Bytes) (c : Nat) (h : isHemi c = true) :
    stripTrail ind neg (s ++ [c]) =
      if ind ≠ Flag.none then .error "Repeated or contradictory hemisphere indicators"
      else .ok (hemiFlag (lookup DMSC.hemispheres c), hemiNeg (lookup DMSC.hemispheres c), s) := by
  have := (isHemi_true_iff c).mp h
  simp only [stripTrail, List.getLast?_concat, this, if_true, List.dropLast_concat]

theorem stripSign_sign (neg : Bool) (c : Nat) (t : Bytes) (h : isSign c = true) :
    stripSign neg (c :: t) = ((if lookup DMSC.signs c = 0 then !neg else neg), t) := by
  have := (isSign_true_iff c).mp h
  simp only [stripSign, this, if_true]

theorem stripSign_nosign (neg : Bool) (c : Nat) (t : Bytes) (h : isSign c = false) :
    stripSign neg (c :: t) = (neg, c :: t) := by
  have : ¬ lookup DMSC.signs c ≥ 0 := by rw [← isSign_true_iff, h]; simp
  simp only [stripSign, this, if_false]

theorem hemiFlag_ne_none (k : Int) : hemiFlag k ≠ Flag.none := by
  unfold hemiFlag; split <;> simp

/-- **a hemisphere letter at both ends is an error** ("Repeated or contradictory hemisphere indicators"), whatever
    is between them -/
theorem strip_two_hemispheres (a b : Nat) (mid : Bytes) (ha : isHemi a = true) (hb : isHemi b = true) :
    ∃ e, strip (a :: (mid ++ [b])) = .error e := by
  rw [strip_stages, stripLead_hemi a _ ha]
  simp only [stripTrail_hemi _ _ mid b hb, hemiFlag_ne_none, ne_eq, not_false_eq_true, if_true]
  exact ⟨_, rfl⟩

theorem getLast?_cons_of_ne_nil (c : Nat) (body : Bytes) (h : body ≠ []) : (c :: body).getLast? = body.getLast? := by
  cases body with
  | nil => exact absurd rfl h
  | cons b t => simp [List.getLast?_cons_cons]

/-- **leading letter, then a sign**: the letter gives the flag and the base sign, a `-` after it flips the sign
    (`S-3` = +3 as a latitude), a `+` keeps it -/
theorem strip_sign_after_leading_hemi (hemi sg : Nat) (body : Bytes) (hh : isHemi hemi = true) (hs : isSign sg = true)
    (hne : body ≠ []) (hlast : ∀ c ∈ body.getLast?, isHemi c = false) :
    strip (hemi :: sg :: body) =
      .ok ⟨(if lookup DMSC.signs sg = 0 then !hemiNeg (lookup DMSC.hemispheres hemi) else hemiNeg (lookup DMSC.hemispheres hemi)),
           hemiFlag (lookup DMSC.hemispheres hemi), body⟩ := by
  have hb : body.isEmpty = false := by cases body with | nil => exact absurd rfl hne | cons _ _ => rfl
  rw [strip_stages, stripLead_hemi hemi _ hh]
  simp only
  rw [stripTrail_nohemi _ _ _ (by rw [getLast?_cons_of_ne_nil sg body hne]; exact hlast)]
  simp only [stripSign_sign _ sg body hs, hb, Bool.false_eq_true, if_false]

/-- **only one sign is removed**: of `--body` the second `-` stays in the text … -/
theorem strip_internal_sign_not_removed (body : Bytes) (hne : body ≠ []) (hlast : ∀ c ∈ body.getLast?, isHemi c = false) :
    strip (45 :: 45 :: body) = .ok ⟨true, Flag.none, 45 :: body⟩ := by
  rw [strip_stages, stripLead_nohemi 45 _ (by decide)]
  simp only
  rw [stripTrail_nohemi _ _ _ (by
    rw [getLast?_cons_of_ne_nil 45 _ (by simp), getLast?_cons_of_ne_nil 45 body hne]; exact hlast)]
  simp only [stripSign_sign _ 45 (45 :: body) (by decide)]
  rfl

theorem number_sign_head (body : Bytes) : number (45 :: body) = ({}, 45 :: body) := by
  have h : digitVal 45 = Option.none := by decide
  simp only [number, scanDigits, h]

/-- … and the component loop then rejects it ("Internal sign"), for every text after it -/
theorem comps_internal_sign (f np : Nat) (sl : Slots) (body : Bytes) :
    comps (f + 1) np sl (45 :: body) = .error "Internal sign" := by
  have hk : lookup DMSC.dmsindicators 45 < 0 := by decide
  have hs : isSign 45 = true := by decide
  simp only [comps, number_sign_head]
  simp [hk, hs]

/-- `--body` is not a number: the discrete stage fails -/
theorem parseFields_double_sign (body : Bytes) (hne : body ≠ []) (hlast : ∀ c ∈ body.getLast?, isHemi c = false) :
    parseFields (45 :: 45 :: body) = .error "Internal sign" := by
  simp only [parseFields, strip_internal_sign_not_removed body hne hlast, comps_internal_sign]

/-- **trailing letter with a leading sign** (`-3S`): the letter gives flag and base sign, `-` flips it -/
theorem strip_sign_with_trailing_hemi (sg hemi : Nat) (body : Bytes) (hs : isSign sg = true) (hh : isHemi hemi = true)
    (hne : body ≠ []) :
    strip (sg :: (body ++ [hemi])) =
      .ok ⟨(if lookup DMSC.signs sg = 0 then !hemiNeg (lookup DMSC.hemispheres hemi) else hemiNeg (lookup DMSC.hemispheres hemi)),
           hemiFlag (lookup DMSC.hemispheres hemi), body⟩ := by
  have hb : body.isEmpty = false := by cases body with | nil => exact absurd rfl hne | cons _ _ => rfl
  rw [strip_stages, stripLead_nohemi sg _ (isHemi_of_isSign hs)]
  simp only
  rw [← List.cons_append, stripTrail_hemi _ _ (sg :: body) hemi hh]
  simp only [ne_eq, not_true_eq_false, if_false, stripSign_sign _ sg body hs, hb, Bool.false_eq_true]

/-- **trailing letter, no sign** (`3S`) -/
theorem strip_trailing_hemi (b hemi : Nat) (body : Bytes) (hbh : isHemi b = false) (hbs : isSign b = false)
    (hh : isHemi hemi = true) :
    strip (b :: (body ++ [hemi])) =
      .ok ⟨hemiNeg (lookup DMSC.hemispheres hemi), hemiFlag (lookup DMSC.hemispheres hemi), b :: body⟩ := by
  rw [strip_stages, stripLead_nohemi b _ hbh]
  simp only
  rw [← List.cons_append, stripTrail_hemi _ _ (b :: body) hemi hh]
  simp only [ne_eq, not_true_eq_false, if_false, stripSign_nosign _ b body hbs]
  rfl

theorem beq_false_of_head {a : Nat} {w lit : Bytes} (h : lit.head? ≠ some a) : ((a :: w) == lit) = false := by
  apply beq_eq_false_iff_ne.mpr
  intro e; subst e; simp at h

/-- a text starting with two `-` is none of the nan / inf spellings -/
theorem nummatch_double_sign (body : Bytes) : nummatch (45 :: 45 :: body) = Option.none := by
  have ht : (45 :: 45 :: body).map toupper = 45 :: 45 :: body.map toupper := rfl
  obtain ⟨r, hr⟩ := stripTrailing_prefix 48 ((45 :: 45 :: body).map toupper)
  unfold nummatch
  simp only []
  rw [ht] at hr ⊢
  generalize stripTrailing 48 (45 :: 45 :: List.map toupper body) = u at hr ⊢
  have hp0 : (if ((45 :: 45 :: List.map toupper body).head? == some 45 ||
      (45 :: 45 :: List.map toupper body).head? == some 43) = true then 1 else 0) = 1 := rfl
  rw [hp0]
  split
  · rfl
  · split
    · rfl
    · rename_i hlen
      match u, hr, hlen with
      | [], _, hlen => simp at hlen
      | [_], _, hlen => simp at hlen
      | a :: b :: u', hr, _ =>
        simp only [List.cons_append, List.cons.injEq] at hr
        obtain ⟨_, rfl, _⟩ := hr
        simp only [List.drop_succ_cons, List.drop_zero]
        rw [beq_false_of_head (by decide), beq_false_of_head (by decide), beq_false_of_head (by decide),
          beq_false_of_head (by decide), beq_false_of_head (by decide), beq_false_of_head (by decide),
          beq_false_of_head (by decide), beq_false_of_head (by decide)]
        rfl

/-- **`--x` is rejected by `InternalDecode`** ("Internal sign"): only one sign is removed, and the text is not a
    nan / inf spelling either -/
theorem internalDecode_double_sign (body : Bytes) (hne : body ≠ []) (hlast : ∀ c ∈ body.getLast?, isHemi c = false) :
    internalDecode (45 :: 45 :: body) = .error "Internal sign" := by
  simp only [internalDecode, parseFields_double_sign body hne hlast, nummatch_double_sign]

end GeoVerif.DMSProofs
