import GeoVerif.Model.Elliptic
import GeoVerif.Spec.RealInstX
import Mathlib.Tactic.Ring
import Mathlib.Tactic.FieldSimp
import Mathlib.Tactic.Linarith
import Mathlib.Tactic.Positivity
import Mathlib.Tactic.NormNum
import Mathlib.Tactic.LinearCombination
/-!
# `sncndn`, the `(sn, cn, dn)` / angle interfaces and `Einv` of `Model/Elliptic.lean` read at `ℝ`: lemmas for `Props/C15.lean`

* Bulirsch's `sncndn`: `sn² + cn² = 1` for every input; the descending Landen (Gauss) step preserves the relation
  `dn²(c² + a²) = c² + b²` between the scaled cotangent `c = a·cs` and `dn` along the AGM chain, for every depth, so that a
  seed satisfying it yields `dn² = cn² + k'² sn²` exactly; the seed `dn = 1` used by the code misses the relation by exactly
  `((a_L − b_L)/2)²`, which the exit test of the ascending loop bounds by `(tolJAC·a_L/2)²`.
* The frame `wrap` ("complete value when `cn = 0`; `2·complete − ·` in the second quadrant; sign of `sn`") makes every
  incomplete integral odd and reflects it about `π/2`, for every first-quadrant kernel that is even in `sn` and `cn`; the six
  Carlson kernels are.  The periodic parts `delta*` have period `π` for *every* `X(sn, cn, dn)`; hence the angle
  interfaces satisfy `X(φ + π) = X(φ) + 2X()` across all the branches of the period handling.
* `Ed`: a turn adds `4E`.  `Einv`: shifting the argument by `2E` shifts the result by `π`; when the Newton loop ends, the
  last iterate satisfies `|E(φ) − x| ≤ tolJAC·min(1, |result|)·Δ(φ)`; `deltaEinv` has period `π`.
-/
namespace GeoVerif.Proofs.Jacobi
open GeoVerif GeoVerif.Elliptic Real

/-! ### unfolding lemmas at `ℝ` -/

@[simp] theorem pi_real : (RealLike.pi : ℝ) = π := rfl
theorem atan2_real (y x : ℝ) : RealLike.atan2 y x = Complex.arg ⟨x, y⟩ := rfl
theorem ofDec_real (n k : ℕ) : (RealLike.ofDec n k : ℝ) = (n : ℝ) / 10 ^ k := rfl

/-! ### `sncndn` -/

/-- the relation between the scaled cotangent `c`, `dn = d` and the AGM pair `(a, b²)` of the level they belong to -/
def LandenInv (a b2 c d : ℝ) : Prop := d ^ 2 * (c ^ 2 + a ^ 2) = c ^ 2 + b2

/-- `st` (innermost level first) is a piece of an AGM sequence whose next inner term is `(aN, bN2 = b_N²)`:
    for the head `(a, b)`: `aN = (a+b)/2`, `bN2 = b·a`; and so on outwards -/
def IsChain : List (ℝ × ℝ) → ℝ → ℝ → Prop
  | [], _, _ => True
  | (a, b) :: rest, aN, bN2 => aN = (a + b) / 2 ∧ bN2 = b * a ∧ 0 < a ∧ 0 < b ∧ IsChain rest a (b ^ 2)

/-- the AGM pair `(a, b²)` of the outermost level -/
def outer : List (ℝ × ℝ) → ℝ → ℝ → ℝ × ℝ
  | [], aN, bN2 => (aN, bN2)
  | (a, b) :: rest, _, _ => outer rest a (b ^ 2)

/-- one descending Landen step (one pass through the body of `while (l--)`) preserves the relation -/
theorem landen_step (a b c d : ℝ) (ha : 0 < a) (hb : 0 < b)
    (h : LandenInv ((a + b) / 2) (b * a) c d) :
    let α := c / ((a + b) / 2)
    LandenInv a (b ^ 2) (c * d) ((b + α * c) / (a + α * c)) := by
  intro α
  unfold LandenInv at h ⊢
  have hm : 0 < (a + b) / 2 := by positivity
  set m := (a + b) / 2 with hmdef
  have hαc : α * c = c ^ 2 / m := by simp only [α]; ring
  rw [hαc]
  have hden : 0 < a + c ^ 2 / m := by positivity
  have e1 : (b + c ^ 2 / m) / (a + c ^ 2 / m) = (b * m + c ^ 2) / (a * m + c ^ 2) := by
    field_simp
  rw [e1]
  have hden2 : 0 < a * m + c ^ 2 := by positivity
  rw [div_pow, div_mul_eq_mul_div, div_eq_iff (by positivity)]
  have hab : a + b = 2 * m := by rw [hmdef]; ring
  clear_value m
  have hb' : b = 2 * m - a := by linarith
  subst hb'
  linear_combination (2 * c ^ 2 * (2 * m - a - a) * m) * h

/-- the descending loop preserves the relation along an AGM chain of any depth -/
theorem landenDesc_inv (st : List (ℝ × ℝ)) (aN bN2 c d : ℝ) (hch : IsChain st aN bN2) (haN : 0 < aN)
    (h : LandenInv aN bN2 c d) :
    LandenInv (outer st aN bN2).1 (outer st aN bN2).2 (landenDesc st (c / aN) c d).1 (landenDesc st (c / aN) c d).2 := by
  induction st generalizing aN bN2 c d with
  | nil => simpa [outer, landenDesc] using h
  | cons p rest ih =>
    obtain ⟨a, b⟩ := p
    obtain ⟨h1, h2, ha, hb, hrest⟩ := hch
    subst h1 h2
    have hs := landen_step a b c d ha hb h
    simp only at hs
    have := ih a (b ^ 2) (c * d) _ hrest ha hs
    simpa [outer, landenDesc] using this

/-- the ascending loop produces an AGM chain: on success the stack is a chain whose next inner term is
    `(c, b_L·a_L)` with `c = (a_L + b_L)/2`, its outermost level is the one the loop started from, and the exit test holds
    at the innermost level -/
theorem agmAsc_chain (n : ℕ) (a mc : ℝ) (st st' : List (ℝ × ℝ)) (c : ℝ) (ha : 0 < a) (hmc : 0 < mc)
    (hst : IsChain st a mc) (h : agmAsc n a mc st = some (st', c)) :
    ∃ aL bL rest, st' = (aL, bL) :: rest ∧ c = (aL + bL) / 2 ∧ IsChain st' c (bL * aL) ∧ 0 < c ∧
      outer st' c (bL * aL) = outer st a mc ∧ |aL - bL| ≤ tolJAC * aL := by
  induction n generalizing a mc st with
  | zero => simp [agmAsc] at h
  | succ n ih =>
    have hs : 0 < √mc := Real.sqrt_pos.mpr hmc
    have hsq : √mc ^ 2 = mc := Real.sq_sqrt hmc.le
    simp only [agmAsc, sqrt_real, abs_real, ltb_real, lit_real, Bool.not_eq_true', decide_eq_false_iff_not,
      not_lt] at h
    split at h
    · rename_i hexit
      simp only [Option.some.injEq, Prod.mk.injEq] at h
      obtain ⟨h1, h2⟩ := h
      subst h1 h2
      refine ⟨a, √mc, st, rfl, by push_cast; ring, ?_, by push_cast; positivity, ?_, hexit⟩
      · refine ⟨by push_cast; ring, rfl, ha, hs, ?_⟩
        rw [hsq]; exact hst
      · simp only [outer]; rw [hsq]
    · have hch : IsChain ((a, √mc) :: st) ((a + √mc) / ((2 : ℕ) : ℝ)) (√mc * a) := by
        refine ⟨by push_cast; ring, rfl, ha, hs, ?_⟩
        rw [hsq]; exact hst
      obtain ⟨aL, bL, rest, e1, e2, e3, e4, e5, e6⟩ := ih _ _ _ (by push_cast; positivity) (by positivity) hch h
      refine ⟨aL, bL, rest, e1, e2, e3, e4, ?_, e6⟩
      rw [e5]; simp only [outer]; rw [hsq]

/-- `sn² + cn² = 1` for every parameter and argument -/
theorem sncndn_unit (e : Par ℝ) (x sn cn dn : ℝ) (h : sncndn e x = some (sn, cn, dn)) : sn ^ 2 + cn ^ 2 = 1 := by
  unfold sncndn at h
  simp only [eqb_real, Bool.not_eq_true', decide_eq_false_iff_not, sin_real, cos_real, sqrt_real, lit_real,
    tanh_realx, cosh_realx, signNeg_real, decide_eq_true_eq] at h
  split at h
  · split at h
    · simp at h
    · rename_i st c hasc
      split at h
      · generalize landenDesc st _ _ _ = r at h
        obtain ⟨c1, d1⟩ := r
        simp only [Option.some.injEq, Prod.mk.injEq] at h
        obtain ⟨h1, h2, h3⟩ := h
        have hpos : 0 < c1 * c1 + ((1 : ℕ) : ℝ) := by push_cast; nlinarith [mul_self_nonneg c1]
        have hsq : (1 / √(c1 * c1 + ((1 : ℕ) : ℝ))) ^ 2 = 1 / (c1 * c1 + 1) := by
          rw [div_pow, Real.sq_sqrt hpos.le]; push_cast; ring
        have hsn : sn ^ 2 = 1 / (c1 * c1 + 1) := by
          rw [← h1]; split
          · rw [neg_sq]; push_cast at hsq ⊢; exact hsq
          · push_cast at hsq ⊢; exact hsq
        rw [← h2, h1, mul_pow, hsn]
        have : c1 * c1 + 1 ≠ 0 := by nlinarith [mul_self_nonneg c1]
        field_simp
        ring
      · simp only [Option.some.injEq, Prod.mk.injEq] at h
        obtain ⟨h1, h2, h3⟩ := h
        rw [← h1, ← h2]; exact Real.sin_sq_add_cos_sq _
  · simp only [Option.some.injEq, Prod.mk.injEq] at h
    obtain ⟨h1, h2, h3⟩ := h
    rw [← h1, ← h2, Real.tanh_eq_sinh_div_cosh]
    have hc : Real.cosh x ≠ 0 := (Real.cosh_pos x).ne'
    have := Real.cosh_sq x
    push_cast
    field_simp
    linarith

/-- from any seed `(c, d)` that satisfies the relation at the innermost level, the descending loop followed by the final
    normalisation `sn = 1/√(c²+1)`, `cn = c·sn` gives `dn² = cn² + k'² sn²` exactly, for every depth of the AGM stack
    produced by the ascending loop -/
theorem sncndn_dn_of_seed (kp2 : ℝ) (hk : 0 < kp2) (st rest : List (ℝ × ℝ)) (c0 aL bL cs d : ℝ)
    (hasc : agmAsc num 1 kp2 [] = some (st, c0)) (hst : st = (aL, bL) :: rest) (hinv : LandenInv c0 (bL * aL) cs d) :
    let r := landenDesc st (cs / c0) cs d
    let sn := 1 / √(r.1 * r.1 + 1)
    r.2 ^ 2 = (r.1 * sn) ^ 2 + kp2 * sn ^ 2 := by
  intro r sn
  have h1 : (0 : ℝ) < 1 := one_pos
  obtain ⟨aL', bL', rest', e1, e2, e3, e4, e5, e6⟩ := agmAsc_chain num _ kp2 [] st c0 h1 hk trivial hasc
  rw [hst] at e1
  simp only [List.cons.injEq, Prod.mk.injEq] at e1
  obtain ⟨⟨rfl, rfl⟩, rfl⟩ := e1
  have hL := landenDesc_inv st c0 (bL * aL) cs d e3 e4 hinv
  rw [e5] at hL
  simp only [outer] at hL
  unfold LandenInv at hL
  change r.2 ^ 2 * (r.1 ^ 2 + 1 ^ 2) = r.1 ^ 2 + kp2 at hL
  have hpos : 0 < r.1 * r.1 + 1 := by nlinarith [mul_self_nonneg r.1]
  have hsn : sn ^ 2 = 1 / (r.1 * r.1 + 1) := by
    simp only [sn]; rw [div_pow, Real.sq_sqrt hpos.le]; ring
  rw [mul_pow, hsn]
  field_simp
  linarith

/-- the seed `dn = 1` of the code misses the relation at the innermost level by exactly `((a_L − b_L)/2)²` -/
theorem seed_defect (aL bL c : ℝ) :
    1 ^ 2 * (c ^ 2 + ((aL + bL) / 2) ^ 2) - (c ^ 2 + bL * aL) = ((aL - bL) / 2) ^ 2 := by
  ring

/-- for `k² = 1` (`k'² = 0`) the closed forms satisfy both identities -/
theorem sncndn_k1 (e : Par ℝ) (hk : e.kp2 = 0) (x sn cn dn : ℝ) (h : sncndn e x = some (sn, cn, dn)) :
    sn ^ 2 + cn ^ 2 = 1 ∧ dn ^ 2 = cn ^ 2 + e.kp2 * sn ^ 2 := by
  refine ⟨sncndn_unit e x sn cn dn h, ?_⟩
  unfold sncndn at h
  simp only [hk, eqb_real, lit_real, Nat.cast_zero, decide_true, Bool.not_true, Bool.false_eq_true, if_false,
    Option.some.injEq, Prod.mk.injEq] at h
  obtain ⟨h1, h2, h3⟩ := h
  rw [hk, ← h2, ← h3]; ring

/-! ### the frame of the incomplete integrals -/

/-- `wrap` over the reals -/
theorem wrap_real (c G s t : ℝ) :
    wrap c G s t =
      (if s < 0 then -|if t < 0 then 2 * c - (if t = 0 then c else G) else (if t = 0 then c else G)|
       else |if t < 0 then 2 * c - (if t = 0 then c else G) else (if t = 0 then c else G)|) := by
  unfold wrap
  simp only [copysign_real, signNeg_real, eqb_real, lit_real]
  simp only [Nat.cast_zero, Nat.cast_ofNat, mul_self_eq_zero,
    Bool.not_eq_true', decide_eq_false_iff_not, decide_eq_true_eq, ite_not]

/-- oddness in `sn`, for every first-quadrant kernel even in `sn` -/
theorem wrap_odd (c : ℝ) (g : ℝ → ℝ → ℝ) (hs : ∀ s t, g (-s) t = g s t) (sn cn : ℝ) (hsn : sn ≠ 0) :
    wrap c (g (-sn) cn) (-sn) cn = - wrap c (g sn cn) sn cn := by
  rw [wrap_real, wrap_real, hs]
  rcases lt_or_gt_of_ne hsn with h | h
  · have : ¬ (-sn < 0) := by linarith
    simp [h, this]
  · have h1 : ¬ (sn < 0) := by linarith
    have : (-sn < 0) := by linarith
    simp [h1, this]

/-- reflection about `π/2`, for every kernel even in `cn` with values in `[0, 2c]` -/
theorem wrap_reflect (c : ℝ) (g : ℝ → ℝ → ℝ) (hc : ∀ s t, g s (-t) = g s t) (sn cn : ℝ) (hsn : 0 < sn) (hcn : 0 < cn)
    (h0 : 0 ≤ g sn cn) (h2 : g sn cn ≤ 2 * c) :
    wrap c (g sn (-cn)) sn (-cn) = 2 * c - wrap c (g sn cn) sn cn := by
  rw [wrap_real, wrap_real, hc]
  have h1 : ¬ (sn < 0) := by linarith
  have h3 : ¬ (cn < 0) := by linarith
  have h4 : (-cn < 0) := by linarith
  have h5 : cn ≠ 0 := hcn.ne'
  simp only [h1, h3, h4, h5, neg_eq_zero, if_true, if_false]
  rw [abs_of_nonneg h0, abs_of_nonneg (by linarith)]

/-- the six Carlson kernels are even in `sn` and in `cn` -/
theorem core_even (e : Par ℝ) (k : Kind) (sn cn dn : ℝ) :
    core e k (-sn) cn dn = core e k sn cn dn ∧ core e k sn (-cn) dn = core e k sn cn dn := by
  cases k <;>
    simp only [core, coreF, coreE, coreD, corePi, coreG, coreH, abs_real, abs_neg, neg_mul_neg, and_self]

theorem delta_even (e : Par ℝ) (sn cn : ℝ) : delta e (-sn) cn = delta e sn cn ∧ delta e sn (-cn) = delta e sn cn := by
  unfold delta
  simp only [mul_neg, neg_mul, neg_neg, and_self]

/-- `F(−sn, cn, dn) = −F(sn, cn, dn)` and the same for `E, D, Pi, G, H` -/
theorem inc_odd (e : Par ℝ) (k : Kind) (sn cn dn : ℝ) (hsn : sn ≠ 0) : inc e k (-sn) cn dn = - inc e k sn cn dn := by
  unfold inc
  exact wrap_odd (comp e k) (fun s t => core e k s t dn) (fun s t => (core_even e k s t dn).1) sn cn hsn

/-- `X(sn, −cn, dn) = 2X() − X(sn, cn, dn)` in the first quadrant, when the Carlson expression lies in `[0, 2X()]` -/
theorem inc_reflect (e : Par ℝ) (k : Kind) (sn cn dn : ℝ) (hsn : 0 < sn) (hcn : 0 < cn)
    (h0 : 0 ≤ core e k sn cn dn) (h2 : core e k sn cn dn ≤ 2 * comp e k) :
    inc e k sn (-cn) dn = 2 * comp e k - inc e k sn cn dn := by
  unfold inc
  exact wrap_reflect (comp e k) (fun s t => core e k s t dn) (fun s t => (core_even e k s t dn).2) sn cn hsn hcn h0 h2

/-! ### period handling -/

/-- the periodic part has period `π` for every `X` whatsoever -/
theorem deltaWith_neg (X : ℝ → ℝ → ℝ → ℝ) (c sn cn dn : ℝ) (hcn : cn ≠ 0) :
    deltaWith X c (-sn) (-cn) dn = deltaWith X c sn cn dn := by
  unfold deltaWith
  simp only [signNeg_real, decide_eq_true_eq]
  rcases lt_or_gt_of_ne hcn with h | h
  · have : ¬ (-cn < 0) := by linarith
    simp [h, this]
  · have h1 : ¬ (cn < 0) := by linarith
    have : (-cn < 0) := by linarith
    simp [h1, this]

/-- the two regimes of `phiWith` -/
theorem phiWith_far (e : Par ℝ) (X : ℝ → ℝ → ℝ → ℝ) (c φ : ℝ) (h1 : π ≤ |φ|) :
    phiWith e X c φ = (deltaWith X c (sin φ) (cos φ) (delta e (sin φ) (cos φ)) + φ) * c / (π / 2) := by
  unfold phiWith
  simp only [ltb_real, abs_real, pi_real, sin_real, cos_real, decide_eq_true_eq, lit_real]
  rw [if_neg (not_lt.mpr h1)]

theorem phiWith_near (e : Par ℝ) (X : ℝ → ℝ → ℝ → ℝ) (c φ : ℝ) (h1 : |φ| < π) :
    phiWith e X c φ = X (sin φ) (cos φ) (delta e (sin φ) (cos φ)) := by
  unfold phiWith
  simp only [ltb_real, abs_real, pi_real, sin_real, cos_real, decide_eq_true_eq]
  rw [if_pos h1]

theorem delta_neg_neg (e : Par ℝ) (sn cn : ℝ) : delta e (-sn) (-cn) = delta e sn cn := by
  rw [(delta_even e _ _).1, (delta_even e _ _).2]

/-- beyond `±π` on both sides a half turn adds `2c`, for every `X` whatsoever (`cos φ ≠ 0`) -/
theorem phiWith_period_far (e : Par ℝ) (X : ℝ → ℝ → ℝ → ℝ) (c φ : ℝ) (h1 : π ≤ |φ|) (h2 : π ≤ |φ + π|) (hcos : cos φ ≠ 0) :
    phiWith e X c (φ + π) = phiWith e X c φ + 2 * c := by
  rw [phiWith_far e X c _ h1, phiWith_far e X c _ h2, Real.sin_add_pi, Real.cos_add_pi, delta_neg_neg,
    deltaWith_neg X c _ _ _ hcos]
  have := Real.pi_pos
  field_simp
  ring

/-- `atan2 (sin ψ) (cos ψ) = ψ` on `(−π, π]` -/
theorem atan2_sin_cos (ψ : ℝ) (h1 : -π < ψ) (h2 : ψ ≤ π) : RealLike.atan2 (sin ψ) (cos ψ) = ψ := by
  rw [atan2_real, Complex.mk_eq_add_mul_I, Complex.ofReal_cos, Complex.ofReal_sin]
  exact Complex.arg_cos_add_sin_mul_I ⟨h1, h2⟩

theorem atan2_one_zero : RealLike.atan2 (1 : ℝ) 0 = π / 2 := by
  have := atan2_sin_cos (π / 2) (by linarith [Real.pi_pos]) (by linarith [Real.pi_pos])
  rwa [Real.sin_pi_div_two, Real.cos_pi_div_two] at this

theorem atan2_neg_one_zero : RealLike.atan2 (-1 : ℝ) 0 = -(π / 2) := by
  have := atan2_sin_cos (-(π / 2)) (by linarith [Real.pi_pos]) (by linarith [Real.pi_pos])
  rwa [Real.sin_neg, Real.cos_neg, Real.sin_pi_div_two, Real.cos_pi_div_two] at this

/-- `deltaWith` over the reals -/
theorem deltaWith_real (X : ℝ → ℝ → ℝ → ℝ) (c sn cn dn : ℝ) :
    deltaWith X c sn cn dn =
      if cn < 0 then X (-sn) (-cn) dn * (π / 2) / c - RealLike.atan2 (-sn) (-cn)
      else X sn cn dn * (π / 2) / c - RealLike.atan2 sn cn := by
  unfold deltaWith
  simp only [signNeg_real, decide_eq_true_eq, pi_real, lit_real]
  split <;> rfl

/-- a half turn `(sn, cn) ↦ (−sn, −cn)` from the upper half plane lowers the framed value by `2c`, for every `cn` -/
theorem wrap_half_turn (c G s t : ℝ) (hc : 0 < c) (h0 : 0 ≤ G) (h2 : G ≤ 2 * c) (hs : 0 < s) :
    wrap c G (-s) (-t) = wrap c G s t - 2 * c := by
  rw [wrap_real, wrap_real]
  have h1 : ¬ (s < 0) := by linarith
  have h3 : -s < 0 := by linarith
  rw [if_pos h3, if_neg h1]
  rcases lt_trichotomy t 0 with ht | ht | ht
  · have : ¬ (-t < 0) := by linarith
    have h5 : t ≠ 0 := ht.ne
    simp only [this, ht, h5, neg_eq_zero, if_true, if_false]
    rw [abs_of_nonneg h0, abs_of_nonneg (by linarith)]; ring
  · subst ht
    simp only [neg_zero, lt_self_iff_false, if_true, if_false]
    rw [abs_of_pos hc]; ring
  · have : ¬ (t < 0) := by linarith
    have h4 : -t < 0 := by linarith
    have h5 : t ≠ 0 := ht.ne'
    simp only [this, h4, h5, neg_eq_zero, if_true, if_false]
    rw [abs_of_nonneg h0, abs_of_nonneg (by linarith)]; ring

/-- at `cn = 0` (`sn = ±1`) the periodic part of a framed integral vanishes -/
theorem deltaWith_wrap_zero (c : ℝ) (g : ℝ → ℝ → ℝ → ℝ) (hc : 0 < c) (s d : ℝ) (hs : s = 1 ∨ s = -1) :
    deltaWith (fun sn cn dn => wrap c (g sn cn dn) sn cn) c s 0 d = 0 := by
  rw [deltaWith_real, if_neg (lt_irrefl _), wrap_real]
  have hc0 : c ≠ 0 := hc.ne'
  rcases hs with rfl | rfl
  · rw [atan2_one_zero]
    simp only [lt_self_iff_false, if_true, if_false, not_lt.mpr zero_le_one]
    rw [abs_of_pos hc]; field_simp; ring
  · rw [atan2_neg_one_zero]
    have : (-1 : ℝ) < 0 := by norm_num
    simp only [lt_self_iff_false, if_true, if_false, this]
    rw [abs_of_pos hc]; field_simp; ring

/-- `X(φ + π) = X(φ) + 2c` for every `φ`, through all the branches of the period handling, for the frame `wrap` around
    every kernel `g` that is even in `sn`, `cn` and takes values in `[0, 2c]`, `c > 0` -/
theorem phiWith_period (e : Par ℝ) (c : ℝ) (g : ℝ → ℝ → ℝ → ℝ) (hc : 0 < c)
    (hs : ∀ s t d, g (-s) t d = g s t d) (ht : ∀ s t d, g s (-t) d = g s t d)
    (hg : ∀ s t d, 0 ≤ g s t d ∧ g s t d ≤ 2 * c) (φ : ℝ) :
    phiWith e (fun sn cn dn => wrap c (g sn cn dn) sn cn) c (φ + π) =
      phiWith e (fun sn cn dn => wrap c (g sn cn dn) sn cn) c φ + 2 * c := by
  set W := fun sn cn dn => wrap c (g sn cn dn) sn cn with hW
  have hpi := Real.pi_pos
  have hc0 : c ≠ 0 := hc.ne'
  have HT : ∀ s t d, 0 < s → W (-s) (-t) d = W s t d - 2 * c := by
    intro s t d hs0
    simp only [hW, hs, ht]
    exact wrap_half_turn c _ s t hc (hg s t d).1 (hg s t d).2 hs0
  have HT' : ∀ s t d, s < 0 → W (-s) (-t) d = W s t d + 2 * c := by
    intro s t d hs0
    have := HT (-s) (-t) d (by linarith)
    simp only [neg_neg] at this
    linarith
  by_cases h1 : |φ| < π
  · obtain ⟨h1a, h1b⟩ := abs_lt.mp h1
    by_cases h2 : |φ + π| < π
    · obtain ⟨h2a, h2b⟩ := abs_lt.mp h2
      rw [phiWith_near _ _ _ _ h1, phiWith_near _ _ _ _ h2, Real.sin_add_pi, Real.cos_add_pi, delta_neg_neg]
      exact HT' _ _ _ (Real.sin_neg_of_neg_of_neg_pi_lt (by linarith) h1a)
    · have hφ0 : 0 ≤ φ := by
        by_contra hh; rw [not_le] at hh; exact h2 (abs_lt.mpr ⟨by linarith, by linarith⟩)
      rw [phiWith_near _ _ _ _ h1, phiWith_far _ _ _ _ (not_lt.mp h2), Real.sin_add_pi, Real.cos_add_pi,
        delta_neg_neg, deltaWith_real]
      by_cases h3 : φ < π / 2
      · have hcos : 0 < cos φ := Real.cos_pos_of_mem_Ioo ⟨by linarith, h3⟩
        rw [if_pos (by linarith : -cos φ < 0), neg_neg, neg_neg, atan2_sin_cos φ (by linarith) (by linarith)]
        field_simp; ring
      · have hcos : cos φ ≤ 0 := Real.cos_nonpos_of_pi_div_two_le_of_le (by linarith) (by linarith)
        have hsin : 0 < sin φ := Real.sin_pos_of_pos_of_lt_pi (by linarith) (by linarith)
        have hat : RealLike.atan2 (-sin φ) (-cos φ) = φ - π := by
          rw [← Real.sin_sub_pi, ← Real.cos_sub_pi]; exact atan2_sin_cos _ (by linarith) (by linarith)
        rw [if_neg (by linarith : ¬ (-cos φ < 0)), HT _ _ _ hsin, hat]
        field_simp; ring
  · have h1' := not_lt.mp h1
    by_cases h2 : |φ + π| < π
    · obtain ⟨h2a, h2b⟩ := abs_lt.mp h2
      have hφ0 : φ ≤ -π := by
        by_contra hh; rw [not_le] at hh; exact h1 (abs_lt.mpr ⟨by linarith, by linarith⟩)
      rw [phiWith_far _ _ _ _ h1', phiWith_near _ _ _ _ h2, Real.sin_add_pi, Real.cos_add_pi,
        delta_neg_neg, deltaWith_real]
      by_cases h3 : -(3 * π / 2) < φ
      · have hcos : cos φ < 0 := by
          rw [← Real.cos_add_two_pi]; exact Real.cos_neg_of_pi_div_two_lt_of_lt (by linarith) (by linarith)
        have hat : RealLike.atan2 (-sin φ) (-cos φ) = φ + π := by
          rw [← Real.sin_add_pi, ← Real.cos_add_pi]; exact atan2_sin_cos _ (by linarith) (by linarith)
        rw [if_pos hcos, hat]
        field_simp; ring
      · have hcos : 0 ≤ cos φ := by
          rw [← Real.cos_add_two_pi]; exact Real.cos_nonneg_of_neg_pi_div_two_le_of_le (by linarith) (by linarith)
        have hsin : 0 < sin φ := by
          rw [← Real.sin_add_two_pi]; exact Real.sin_pos_of_pos_of_lt_pi (by linarith) (by linarith)
        have hat : RealLike.atan2 (sin φ) (cos φ) = φ + 2 * π := by
          rw [← Real.sin_add_two_pi, ← Real.cos_add_two_pi]; exact atan2_sin_cos _ (by linarith) (by linarith)
        rw [if_neg (not_lt.mpr hcos), HT _ _ _ hsin, hat]
        field_simp; ring
    · have h2' := not_lt.mp h2
      by_cases hcos : cos φ = 0
      · have hsin : sin φ = 1 ∨ sin φ = -1 := by
          have := Real.sin_sq_add_cos_sq φ
          rw [hcos] at this
          have h : (sin φ - 1) * (sin φ + 1) = 0 := by nlinarith
          rcases mul_eq_zero.mp h with h | h
          · left; linarith
          · right; linarith
        have hsin' : -sin φ = 1 ∨ -sin φ = -1 := by
          rcases hsin with h | h
          · right; linarith
          · left; linarith
        rw [phiWith_far _ _ _ _ h1', phiWith_far _ _ _ _ h2', Real.sin_add_pi, Real.cos_add_pi, hcos, neg_zero,
          deltaWith_wrap_zero c g hc _ _ hsin, deltaWith_wrap_zero c g hc _ _ hsin']
        field_simp; ring
      · exact phiWith_period_far e W c φ h1' h2' hcos

/-- the same for the six integrals of the model -/
theorem incPhi_period (e : Par ℝ) (k : Kind) (hc : 0 < comp e k)
    (hg : ∀ s t d, 0 ≤ core e k s t d ∧ core e k s t d ≤ 2 * comp e k) (φ : ℝ) :
    phiWith e (inc e k) (comp e k) (φ + π) = phiWith e (inc e k) (comp e k) φ + 2 * comp e k :=
  phiWith_period e (comp e k) (core e k) hc (fun s t d => (core_even e k s t d).1)
    (fun s t d => (core_even e k s t d).2) hg φ

/-- `incPhi` is `phiWith` outside the shortcuts for `k² = 0` and `k² = 1` -/
theorem incPhi_eq_phiWith (e : Par ℝ) (k : Kind) (hk : e.k2 ≠ 0) (hkp : e.kp2 ≠ 0) (φ : ℝ) :
    incPhi e k φ = phiWith e (inc e k) (comp e k) φ := by
  cases k <;> simp [incPhi, comp, hk, hkp, lit_real]

/-- `Ed`: one more turn adds `4E` -/
theorem edWith_turn (e : Par ℝ) (n sn cn : ℝ) : edWith e (n + 1) sn cn = edWith e n sn cn + 4 * e.eEc := by
  unfold edWith; simp only [lit_real]; push_cast; ring

/-! ### `Einv` -/

/-- `einvReduce` over the reals -/
theorem einvReduce_real (e : Par ℝ) (x : ℝ) :
    einvReduce e x = ((⌊x / (2 * e.eEc) + 1 / 2⌋ : ℝ), x - 2 * e.eEc * (⌊x / (2 * e.eEc) + 1 / 2⌋ : ℝ)) := by
  unfold einvReduce
  simp only [floor_realx, lit_real, ofDec_real]
  norm_num

theorem einvReduce_shift (e : Par ℝ) (x : ℝ) (hE : e.eEc ≠ 0) :
    einvReduce e (x + 2 * e.eEc) = ((einvReduce e x).1 + 1, (einvReduce e x).2) := by
  rw [einvReduce_real, einvReduce_real]
  have : (x + 2 * e.eEc) / (2 * e.eEc) + 1 / 2 = (x / (2 * e.eEc) + 1 / 2) + 1 := by
    field_simp; ring
  rw [this, Int.floor_add_one]
  push_cast
  refine Prod.ext rfl ?_
  simp only
  ring

/-- `Einv(x + 2E) = Einv(x) + π` -/
theorem einv_period (e : Par ℝ) (x : ℝ) (hE : e.eEc ≠ 0) : einv e (x + 2 * e.eEc) = (einv e x).map (· + π) := by
  unfold einv
  rw [einvReduce_shift e x hE]
  simp only [pi_real]
  cases einvLoop e (einvReduce e x).2 num (einvStart e (einvReduce e x).2) with
  | none => rfl
  | some v => simp only [Option.map_some, Option.some.injEq]; ring

/-- the reduced argument lies in `[−E, E)` -/
theorem einvReduce_range (e : Par ℝ) (x : ℝ) (hE : 0 < e.eEc) :
    -e.eEc ≤ (einvReduce e x).2 ∧ (einvReduce e x).2 < e.eEc := by
  rw [einvReduce_real]
  simp only
  set y := x / (2 * e.eEc) with hy
  have hx : x = y * (2 * e.eEc) := by rw [hy]; field_simp
  have h1 := Int.floor_le (y + 1 / 2)
  have h2 := Int.lt_floor_add_one (y + 1 / 2)
  rw [hx]
  constructor <;> nlinarith

/-- when the Newton loop of `Einv` ends, the last iterate `φ` satisfies `|E(φ) − x| ≤ tolJAC·Δ(φ)`, and the returned value
    is `φ` minus a correction of at most `tolJAC`; in particular a fixed point (`correction = 0`) solves `E(φ) = x` -/
theorem einvLoop_residual (e : Par ℝ) (x : ℝ) (n : ℕ) (φ0 r : ℝ) (h : einvLoop e x n φ0 = some r) :
    ∃ φ : ℝ,
      let dn := delta e (sin φ) (cos φ)
      let err := (inc e .E (sin φ) (cos φ) dn - x) / dn
      r = φ - err ∧ |err| ≤ tolJAC * min 1 |r| ∧ |err| ≤ tolJAC ∧
      (dn ≠ 0 → |inc e .E (sin φ) (cos φ) dn - x| ≤ tolJAC * min 1 |r| * |dn|) ∧
      (dn ≠ 0 → r = φ → inc e .E (sin φ) (cos φ) dn = x) := by
  have ht : (0 : ℝ) ≤ tolJAC := by unfold tolJAC; simp only [sqrt_real]; exact Real.sqrt_nonneg _
  induction n generalizing φ0 with
  | zero => simp [einvLoop] at h
  | succ n ih =>
    simp only [einvLoop, sin_real, cos_real, abs_real, ltb_real, Bool.not_eq_true', decide_eq_false_iff_not,
      not_lt, lit_real, Nat.cast_one] at h
    split at h
    · rename_i hexit
      simp only [Option.some.injEq] at h
      have hexit' : |(inc e .E (sin φ0) (cos φ0) (delta e (sin φ0) (cos φ0)) - x) / delta e (sin φ0) (cos φ0)|
          ≤ tolJAC * min 1 |r| := by rw [← h]; exact hexit
      refine ⟨φ0, h.symm, hexit', ?_, ?_, ?_⟩
      · calc _ ≤ tolJAC * min 1 |r| := hexit'
          _ ≤ tolJAC * 1 := mul_le_mul_of_nonneg_left (min_le_left _ _) ht
          _ = tolJAC := mul_one _
      · intro hd
        rw [abs_div] at hexit'
        rwa [div_le_iff₀ (abs_pos.mpr hd)] at hexit'
      · intro hd hr
        rw [← h] at hr
        have : (inc e .E (sin φ0) (cos φ0) (delta e (sin φ0) (cos φ0)) - x) / delta e (sin φ0) (cos φ0) = 0 := by
          linarith
        rcases div_eq_zero_iff.mp this with h0 | h0
        · linarith
        · exact absurd h0 hd
    · exact ih _ h

/-- `deltaEinv` has period `π` -/
theorem deltaEinv_neg (e : Par ℝ) (stau ctau : ℝ) (hc : ctau ≠ 0) : deltaEinv e (-stau) (-ctau) = deltaEinv e stau ctau := by
  unfold deltaEinv
  simp only [signNeg_real, decide_eq_true_eq]
  rcases lt_or_gt_of_ne hc with h | h
  · have : ¬ (-ctau < 0) := by linarith
    simp [h, this]
  · have h1 : ¬ (ctau < 0) := by linarith
    have : (-ctau < 0) := by linarith
    simp [h1, this]

end GeoVerif.Proofs.Jacobi
