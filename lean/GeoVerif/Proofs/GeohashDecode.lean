import GeoVerif.Proofs.GeohashBits
import GeoVerif.Proofs.GridHelpers
/-!
# Geohash decoder: size of the accumulated integers for *every* accepted string; acceptance; exact values
-/
namespace GeoVerif.GeohashDecode
open GeoVerif GeoVerif.Grid GeoVerif.Grid.Geohash GeoVerif.GeohashBits F64

theorem bitsFrom5 (u : Nat) : bitsFrom u 4 5 = [u.testBit 4, u.testBit 3, u.testBit 2, u.testBit 1, u.testBit 0] := rfl

/-- five bits from parity 0: three go to `ulon`, two to `ulat` -/
theorem step5_even (a b c d e : Bool) (x y : Nat) :
    ∃ p q : Nat, p < 8 ∧ q < 4 ∧ [a, b, c, d, e].foldl step (x, y, 0) = (8 * x + p, 4 * y + q, 1) := by
  refine ⟨4 * (if a then 1 else 0) + 2 * (if c then 1 else 0) + (if e then 1 else 0),
          2 * (if b then 1 else 0) + (if d then 1 else 0), ?_, ?_, ?_⟩
  · cases a <;> cases c <;> cases e <;> simp
  · cases b <;> cases d <;> simp
  · simp only [List.foldl, step]
    cases a <;> cases b <;> cases c <;> cases d <;> cases e <;> simp <;> omega

/-- five bits from parity 1: two go to `ulon`, three to `ulat` -/
theorem step5_odd (a b c d e : Bool) (x y : Nat) :
    ∃ p q : Nat, p < 4 ∧ q < 8 ∧ [a, b, c, d, e].foldl step (x, y, 1) = (4 * x + p, 8 * y + q, 0) := by
  refine ⟨2 * (if b then 1 else 0) + (if d then 1 else 0),
          4 * (if a then 1 else 0) + 2 * (if c then 1 else 0) + (if e then 1 else 0), ?_, ?_, ?_⟩
  · cases b <;> cases d <;> simp
  · cases a <;> cases c <;> cases e <;> simp
  · simp only [List.foldl, step]
    cases a <;> cases b <;> cases c <;> cases d <;> cases e <;> simp <;> omega

theorem go_step (c : Nat) (cs : List Nat) (x y j : Nat) (byte : Nat) (h : lookup uc c = some byte) :
    decodeInt.go (c :: cs) x y j =
      decodeInt.go cs ((bitsFrom byte 4 5).foldl step (x, y, j)).1 ((bitsFrom byte 4 5).foldl step (x, y, j)).2.1
        ((bitsFrom byte 4 5).foldl step (x, y, j)).2.2 := by
  conv_lhs => unfold decodeInt.go
  rw [h]
  rfl

theorem go_error (c : Nat) (cs : List Nat) (x y j : Nat) (h : lookup uc c = none) :
    decodeInt.go (c :: cs) x y j = .error "illegal character" := by
  conv_lhs => unfold decodeInt.go
  rw [h]

/-- **size of the decoded integers**: after `n` characters (`j = n mod 2`) with `x < 2^⌈5n/2⌉`, `y < 2^⌊5n/2⌋`, processing
the rest of the string keeps the invariant -/
theorem go_bounds (cs : List Nat) (n x y j : Nat) (hj : j = n % 2) (hx : x < 2 ^ ((5 * n + 1) / 2)) (hy : y < 2 ^ (5 * n / 2))
    (a b j' : Nat) (h : decodeInt.go cs x y j = .ok (a, b, j')) :
    a < 2 ^ ((5 * (n + cs.length) + 1) / 2) ∧ b < 2 ^ (5 * (n + cs.length) / 2) := by
  induction cs generalizing n x y j with
  | nil =>
    unfold decodeInt.go at h
    injection h with h
    simp only [Prod.mk.injEq] at h
    obtain ⟨rfl, rfl, _⟩ := h
    simpa using ⟨hx, hy⟩
  | cons c cs ih =>
    cases hl : lookup uc c with
    | none => rw [go_error c cs x y j hl] at h; cases h
    | some byte =>
      rw [go_step c cs x y j byte hl, bitsFrom5] at h
      rcases Nat.mod_two_eq_zero_or_one n with hn | hn
      · rw [hn] at hj; subst hj
        obtain ⟨p, q, hp, hq, e⟩ := step5_even (byte.testBit 4) (byte.testBit 3) (byte.testBit 2) (byte.testBit 1) (byte.testBit 0) x y
        rw [e] at h
        have := ih (n + 1) (8 * x + p) (4 * y + q) 1 (by omega)
          (by
            have e1 : (5 * (n + 1) + 1) / 2 = (5 * n + 1) / 2 + 3 := by omega
            rw [e1, Nat.pow_add]; omega)
          (by
            have e1 : 5 * (n + 1) / 2 = 5 * n / 2 + 2 := by omega
            rw [e1, Nat.pow_add]; omega) h
        rw [List.length_cons, show n + (cs.length + 1) = n + 1 + cs.length by omega]
        exact this
      · rw [hn] at hj; subst hj
        obtain ⟨p, q, hp, hq, e⟩ := step5_odd (byte.testBit 4) (byte.testBit 3) (byte.testBit 2) (byte.testBit 1) (byte.testBit 0) x y
        rw [e] at h
        have := ih (n + 1) (4 * x + p) (8 * y + q) 0 (by omega)
          (by
            have e1 : (5 * (n + 1) + 1) / 2 = (5 * n + 1) / 2 + 2 := by omega
            rw [e1, Nat.pow_add]; omega)
          (by
            have e1 : 5 * (n + 1) / 2 = 5 * n / 2 + 3 := by omega
            rw [e1, Nat.pow_add]; omega) h
        rw [List.length_cons, show n + (cs.length + 1) = n + 1 + cs.length by omega]
        exact this

/-- every accepted string: `len = min 18 |s|`, `ulon < 2^⌈5·len/2⌉`, `ulat < 2^⌊5·len/2⌋` -/
theorem decodeInt_bounds (s : List Nat) (d : Dec) (h : decodeInt s = .ok d) :
    d.len = min 18 s.length ∧ d.ulon < 2 ^ ((5 * d.len + 1) / 2) ∧ d.ulat < 2 ^ (5 * d.len / 2) := by
  unfold decodeInt at h
  have hm : maxlen = 18 := rfl
  simp only [hm] at h
  cases hg : decodeInt.go (s.take (min 18 s.length)) 0 0 0 with
  | error e => rw [hg] at h; cases h
  | ok r =>
    obtain ⟨a, b, j'⟩ := r
    rw [hg] at h
    have hd : d = ⟨a, b, min 18 s.length⟩ := by
      injection h with h; exact h.symm
    subst hd
    have := go_bounds (s.take (min 18 s.length)) 0 0 0 0 rfl (by norm_num) (by norm_num) a b j' hg
    have hlen : (s.take (min 18 s.length)).length = min 18 s.length := by
      rw [List.length_take]; omega
    rw [hlen, Nat.zero_add] at this
    exact ⟨rfl, this.1, this.2⟩

/-- the shifted integers that enter the floating expression of `Geohash::Reverse` are below `2^46` -/
theorem shifted_bounds (s : List Nat) (d : Dec) (h : decodeInt s = .ok d) (c : Nat) (hc : c ≤ 1) :
    (2 * d.ulon + c) <<< (5 * (18 - d.len) / 2) < 2 ^ 46 ∧
    (2 * d.ulat + c) <<< (5 * (18 - d.len) - 5 * (18 - d.len) / 2) < 2 ^ 46 := by
  obtain ⟨hl, h1, h2⟩ := decodeInt_bounds s d h
  have hl18 : d.len ≤ 18 := by omega
  rw [Nat.shiftLeft_eq, Nat.shiftLeft_eq]
  constructor
  · have e : (5 * d.len + 1) / 2 + 1 + 5 * (18 - d.len) / 2 = 46 := by omega
    have : 2 * d.ulon + c < 2 ^ ((5 * d.len + 1) / 2 + 1) := by rw [Nat.pow_succ]; omega
    calc (2 * d.ulon + c) * 2 ^ (5 * (18 - d.len) / 2)
        < 2 ^ ((5 * d.len + 1) / 2 + 1) * 2 ^ (5 * (18 - d.len) / 2) := Nat.mul_lt_mul_of_pos_right this (Nat.pos_of_ne_zero (by simp))
      _ = 2 ^ 46 := by rw [← Nat.pow_add, e]
  · have e : 5 * d.len / 2 + 1 + (5 * (18 - d.len) - 5 * (18 - d.len) / 2) = 46 := by omega
    have : 2 * d.ulat + c < 2 ^ (5 * d.len / 2 + 1) := by rw [Nat.pow_succ]; omega
    calc (2 * d.ulat + c) * 2 ^ (5 * (18 - d.len) - 5 * (18 - d.len) / 2)
        < 2 ^ (5 * d.len / 2 + 1) * 2 ^ (5 * (18 - d.len) - 5 * (18 - d.len) / 2) := Nat.mul_lt_mul_of_pos_right this (Nat.pos_of_ne_zero (by simp))
      _ = 2 ^ 46 := by rw [← Nat.pow_add, e]

/-- **`Geohash::Reverse` returns exact values** — every accepted string, centre or south-west corner:
`lon = U·180/2^45 − 180`, `lat = V·90/2^45 − 90` with `U`, `V` the shifted integers; no rounding occurs -/
theorem reverse_exact (s : List Nat) (cp : Bool) (d : Dec) (h : decodeInt s = .ok d) (hinv : isInvalid s = false) :
    ∃ lat lon : F64, reverse s cp = .ok (.val lat lon d.len) ∧
      HasVal lon ((((2 * d.ulon + (if cp then 1 else 0)) <<< (5 * (18 - d.len) / 2) : ℕ) : ℚ) * (180 / (2:ℚ) ^ (45:ℕ)) - 180) ∧
      HasVal lat ((((2 * d.ulat + (if cp then 1 else 0)) <<< (5 * (18 - d.len) - 5 * (18 - d.len) / 2) : ℕ) : ℚ) * (90 / (2:ℚ) ^ (45:ℕ)) - 90) := by
  obtain ⟨b1, b2⟩ := shifted_bounds s d h (if cp then 1 else 0) (by cases cp <;> simp)
  have v1 := GridHelpers.geohash_reverse_value _ (lt_trans b1 (by norm_num)) 180 (Or.inl rfl)
  have v2 := GridHelpers.geohash_reverse_value _ (lt_trans b2 (by norm_num)) 90 (Or.inr rfl)
  simp only [Nat.cast_ofNat] at v1 v2
  refine ⟨F64.ofInt (((2 * d.ulat + (if cp then 1 else 0)) <<< (5 * (18 - d.len) - 5 * (18 - d.len) / 2) : ℕ) : ℤ) *
            (F64.fin false 90 0 / shift45) - F64.fin false 90 0,
          F64.ofInt (((2 * d.ulon + (if cp then 1 else 0)) <<< (5 * (18 - d.len) / 2) : ℕ) : ℤ) *
            (F64.fin false 180 0 / shift45) - F64.fin false 180 0, ?_, v1, v2⟩
  unfold reverse
  simp only [hinv, Bool.false_eq_true, if_false, h, bind, Except.bind, pure, Except.pure]
  rfl

/-- **`geohash_accept_iff`**: a string is accepted (after the "INV"/"NAN" test) iff each of its first 18 characters is in
the base-32 alphabet (either case); anything after the 18th character is ignored, as documented -/
theorem accept_iff (s : List Nat) :
    (∃ d, decodeInt s = .ok d) ↔ ∀ c ∈ s.take 18, (lookup uc c).isSome = true := by
  have hgo : ∀ (cs : List Nat) (x y j : Nat), (∃ r, decodeInt.go cs x y j = .ok r) ↔ ∀ c ∈ cs, (lookup uc c).isSome = true := by
    intro cs
    induction cs with
    | nil => intro x y j; simp [decodeInt.go]
    | cons c cs ih =>
      intro x y j
      cases hl : lookup uc c with
      | none =>
        rw [go_error c cs x y j hl]
        simp [hl]
      | some byte =>
        rw [go_step c cs x y j byte hl, ih]
        simp [hl]
  have hm : maxlen = 18 := rfl
  have ht : s.take (min 18 s.length) = s.take 18 := by
    rcases Nat.le_total 18 s.length with h | h
    · rw [Nat.min_eq_left h]
    · rw [Nat.min_eq_right h, List.take_of_length_le (le_refl _), List.take_of_length_le h]
  rw [← hgo (s.take 18) 0 0 0]
  unfold decodeInt
  simp only [hm, ht]
  constructor
  · rintro ⟨d, hd⟩
    cases hg : decodeInt.go (s.take 18) 0 0 0 with
    | error e => rw [hg] at hd; cases hd
    | ok r => exact ⟨r, rfl⟩
  · rintro ⟨r, hr⟩
    rw [hr]
    obtain ⟨a, b, j'⟩ := r
    exact ⟨_, rfl⟩

end GeoVerif.GeohashDecode
