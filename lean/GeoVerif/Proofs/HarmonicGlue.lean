import GeoVerif.Model.HarmonicGlue
import GeoVerif.Spec.RealInst
import Mathlib.Tactic.Ring
import Mathlib.Tactic.Linarith
import Mathlib.Tactic.FieldSimp
import Mathlib.Tactic.NormNum
import Mathlib.Topology.Order.OrderClosed
import Mathlib.Topology.Algebra.Field
import Mathlib.Topology.Instances.Real.Lemmas
import Mathlib.Tactic.Positivity
import Mathlib.Analysis.SpecialFunctions.Sqrt
import Mathlib.Analysis.SpecialFunctions.Trigonometric.ArctanDeriv
import Mathlib.Data.List.GetD
/-!
# Lemmas for the glue theorems of C19 (epoch selection, continuity in time)
-/
namespace GeoVerif.Proofs.Harmonic
open GeoVerif GeoVerif.Harmonic

theorem epochSel_le (s : ℝ) (J : ℕ) : epochSel s J ≤ J := by
  induction J with
  | zero => simp [epochSel]
  | succ J ih => simp only [epochSel]; split_ifs <;> omega

theorem epochSel_of_ge (s : ℝ) (J : ℕ) (h : (J : ℝ) ≤ s) : epochSel s J = J := by
  cases J with
  | zero => rfl
  | succ J =>
    have h' : ((J : ℝ) + 1 ≤ s) := by push_cast at h; exact h
    simp [epochSel, ofNat_real, h']

theorem epochSel_of_lt_one (s : ℝ) (J : ℕ) (h : s < 1) : epochSel s J = 0 := by
  induction J with
  | zero => rfl
  | succ J ih =>
    have : ¬ ((J : ℝ) + 1 ≤ s) := by
      have : (0 : ℝ) ≤ J := Nat.cast_nonneg J
      linarith
    simp [epochSel, ofNat_real, this, ih]

/-- the affine function of the time used while epoch `j` is selected -/
noncomputable def epochBranch (B : ℕ → ℝ) (Bc t0 dt0 : ℝ) (nM j : ℕ) (t : ℝ) : ℝ :=
  (fieldCombine (B j) (B (j + 1)) Bc ((t - t0) - (j : ℝ) * dt0) dt0 (decide (j + 1 < nM))).1

theorem epochBranch_continuous (B : ℕ → ℝ) (Bc t0 dt0 : ℝ) (nM j : ℕ) : Continuous (epochBranch B Bc t0 dt0 nM j) := by
  unfold epochBranch fieldCombine
  by_cases h : j + 1 < nM <;> simp only [h, decide_true, decide_false, if_true, Bool.false_eq_true, if_false] <;> fun_prop

theorem fieldOfTime_branch (B : ℕ → ℝ) (Bc t t0 dt0 : ℝ) (nM : ℕ) :
    (fieldOfTime B Bc t t0 dt0 nM).1 = epochBranch B Bc t0 dt0 nM (epochSel ((t - t0) / dt0) (nM - 1)) t := by
  simp [fieldOfTime, epochSplit, epochBranch, ofNat_real]

/-- two neighbouring branches agree at their common boundary `t = t₀ + (J+1)·Δ` -/
theorem epochBranch_boundary (B : ℕ → ℝ) (Bc t0 dt0 : ℝ) (nM J : ℕ) (hJ : J + 1 < nM) (hd : dt0 ≠ 0) (t : ℝ) (ht : ((J + 1 : ℕ) : ℝ) = (t - t0) / dt0) :
    epochBranch B Bc t0 dt0 nM (J + 1) t = epochBranch B Bc t0 dt0 nM J t := by
  have ht' : t - t0 = ((J : ℝ) + 1) * dt0 := by push_cast at ht; field_simp at ht; linarith
  unfold epochBranch fieldCombine
  simp only [hJ, decide_true, if_true]
  push_cast
  rw [ht']
  split_ifs <;> field_simp <;> ring

theorem epochSel_branch_continuous (B : ℕ → ℝ) (Bc t0 dt0 : ℝ) (nM : ℕ) (hd : dt0 ≠ 0) (J : ℕ) (hJ : J + 1 ≤ nM) :
    Continuous fun t => epochBranch B Bc t0 dt0 nM (epochSel ((t - t0) / dt0) J) t := by
  induction J with
  | zero => simpa [epochSel] using epochBranch_continuous B Bc t0 dt0 nM 0
  | succ J ih =>
    have ih' := ih (by omega)
    simp only [epochSel, leb_real, ofNat_real, decide_eq_true_eq]
    have hs : Continuous fun t : ℝ => (t - t0) / dt0 := by fun_prop
    have key : Continuous fun t => if ((J + 1 : ℕ) : ℝ) ≤ (t - t0) / dt0 then epochBranch B Bc t0 dt0 nM (J + 1) t
        else epochBranch B Bc t0 dt0 nM (epochSel ((t - t0) / dt0) J) t := by
      apply Continuous.if_le (epochBranch_continuous B Bc t0 dt0 nM (J + 1)) ih' continuous_const hs
      intro t ht
      rw [epochBranch_boundary B Bc t0 dt0 nM J (by omega) hd t ht]
      -- at the boundary the lower selector picks `J`
      rw [epochSel_of_ge _ J (by rw [← ht]; push_cast; linarith)]
    refine key.congr ?_
    intro t
    split_ifs <;> rfl

/-! ## `FieldComponents`: angles in degrees, derivatives along `B + s·dB/dt` -/

theorem degree_real : (degree : ℝ) = Real.pi / 180 := by
  simp only [degree, lit_real]; push_cast; rfl

theorem degree_pos : (0 : ℝ) < degree := by rw [degree_real]; positivity

/-- on the half plane `x > 0` the two-argument arctangent is `arctan(y/x)` -/
theorem atan2_of_pos (y x : ℝ) (hx : 0 < x) : (RealLike.atan2 y x : ℝ) = Real.arctan (y / x) := by
  change Complex.arg ⟨x, y⟩ = _
  have h1 : |Complex.arg ⟨x, y⟩| < Real.pi / 2 := Complex.abs_arg_lt_pi_div_two_iff.mpr (Or.inl hx)
  rw [abs_lt] at h1
  have h2 := Complex.tan_arg ⟨x, y⟩
  simp only at h2
  rw [← h2, Real.arctan_tan h1.1 h1.2]

theorem lin_hasDerivAt (x xt : ℝ) : HasDerivAt (fun s : ℝ => x + s * xt) xt 0 := by
  simpa using ((hasDerivAt_id (0 : ℝ)).mul_const xt).const_add x

theorem hypot_path_hasDerivAt (x y xt yt : ℝ) (h : x ^ 2 + y ^ 2 ≠ 0) :
    HasDerivAt (fun s : ℝ => Real.sqrt ((x + s * xt) ^ 2 + (y + s * yt) ^ 2)) ((x * xt + y * yt) / Real.sqrt (x ^ 2 + y ^ 2)) 0 := by
  have h1 : HasDerivAt (fun s : ℝ => (x + s * xt) ^ 2 + (y + s * yt) ^ 2) (2 * (x * xt + y * yt)) 0 :=
    (((lin_hasDerivAt x xt).fun_pow 2).fun_add ((lin_hasDerivAt y yt).fun_pow 2)).congr_deriv (by simp; ring)
  have h2 := h1.sqrt (by simpa using h)
  refine h2.congr_deriv ?_
  simp only [zero_mul, add_zero]
  field_simp

theorem norm_mk (x y : ℝ) : ‖(⟨x, y⟩ : ℂ)‖ = Real.sqrt (x ^ 2 + y ^ 2) := by
  rw [Complex.norm_def, Complex.normSq_mk]; congr 1; ring

theorem mk_ne_zero (x y : ℝ) (h : x ^ 2 + y ^ 2 ≠ 0) : (⟨x, y⟩ : ℂ) ≠ 0 := by
  intro h0
  have h1 : ‖(⟨x, y⟩ : ℂ)‖ = 0 := by rw [h0]; simp
  rw [norm_mk, Real.sqrt_eq_zero (by positivity)] at h1
  exact h h1

/-! ## `GravityModel`: normal zonal terms -/

/-- the normal zonal coefficient of degree `n = 2j` in the model's normalisation and units: `−(GMref/GMmodel)·(aref/amodel)^n·J_n/√(2n+1)` (fully normalised) or
    without the root (Schmidt); `mult = GMref/GMmodel`, `amult = (aref/amodel)²` -/
noncomputable def zonalCoef (full : Bool) (mult amult : ℝ) (Jn : ℕ → ℝ) (j : ℕ) : ℝ :=
  -(mult * amult ^ j * Jn (2 * j)) / (if full then Real.sqrt (2 * (2 * j : ℕ) + 1) else 1)

theorem zonalTail_entries (full : Bool) (amult : ℝ) (Jn cC : ℕ → ℝ) (nmx : ℕ) :
    ∀ (fuel j : ℕ) (mult0 : ℝ) (i : ℕ), 2 * i + 1 < (zonalTail full amult Jn cC nmx fuel (2 * j) (mult0 * amult ^ (j - 1))).length → 1 ≤ j →
      (zonalTail full amult Jn cC nmx fuel (2 * j) (mult0 * amult ^ (j - 1))).getD (2 * i) 7 = 0 ∧
      (zonalTail full amult Jn cC nmx fuel (2 * j) (mult0 * amult ^ (j - 1))).getD (2 * i + 1) 7 = zonalCoef full mult0 amult Jn (j + i) := by
  intro fuel
  induction fuel with
  | zero => intro j mult0 i h; simp [zonalTail] at h
  | succ fuel ih =>
    intro j mult0 i h hj
    simp only [zonalTail] at h ⊢
    by_cases h1 : 2 * j > nmx
    · simp [h1] at h
    · simp only [h1, if_false] at h ⊢
      by_cases h2 : RealLike.eqb (cC (2 * j) - -(mult0 * amult ^ (j - 1) * amult * Jn (2 * j)) / zonalNorm full (2 * j)) (cC (2 * j)) = true
      · simp [h2] at h
      · simp only [h2, Bool.false_eq_true, if_false] at h ⊢
        have hm : mult0 * amult ^ (j - 1) * amult = mult0 * amult ^ (j + 1 - 1) := by
          have : j + 1 - 1 = (j - 1) + 1 := by omega
          rw [this, pow_succ]; ring
        cases i with
        | zero =>
          refine ⟨by simp [ofNat_real], ?_⟩
          simp only [List.getD_cons_succ, List.getD_cons_zero, Nat.mul_zero, Nat.zero_add, Nat.add_zero, zonalCoef, zonalNorm, sqrt_real, ofNat_real]
          have : mult0 * amult ^ (j - 1) * amult = mult0 * amult ^ j := by
            have : j = (j - 1) + 1 := by omega
            conv_rhs => rw [this, pow_succ]
            ring
          rw [this]
          cases full <;> simp
        | succ i =>
          have e1 : 2 * (i + 1) = (2 * i) + 1 + 1 := by ring
          rw [e1]
          simp only [List.getD_cons_succ]
          rw [hm]
          have e3 : 2 * j + 2 = 2 * (j + 1) := by ring
          rw [e3]
          have hl : 2 * i + 1 < (zonalTail full amult Jn cC nmx fuel (2 * (j + 1)) (mult0 * amult ^ (j + 1 - 1))).length := by
            rw [hm, e3] at h
            simp only [List.length_cons] at h
            omega
          have := ih (j + 1) mult0 i hl (by omega)
          rw [show j + 1 + i = j + (i + 1) by ring] at this
          exact this

/-- with enough fuel the loop ends only beyond the model degree or at a term that vanishes (over ℝ `r − s = r ↔ s = 0`) -/
theorem zonalTail_stop (full : Bool) (amult : ℝ) (Jn cC : ℕ → ℝ) (nmx : ℕ) :
    ∀ (fuel j : ℕ) (mult0 : ℝ), 1 ≤ j → nmx < 2 * j + 2 * fuel →
      ∃ k, (zonalTail full amult Jn cC nmx fuel (2 * j) (mult0 * amult ^ (j - 1))).length = 2 * k ∧
        (nmx < 2 * (j + k) ∨ zonalCoef full mult0 amult Jn (j + k) = 0) := by
  intro fuel
  induction fuel with
  | zero => intro j mult0 hj hf; exact ⟨0, by simp [zonalTail], Or.inl (by omega)⟩
  | succ fuel ih =>
    intro j mult0 hj hf
    simp only [zonalTail]
    by_cases h1 : 2 * j > nmx
    · exact ⟨0, by simp [h1], Or.inl (by omega)⟩
    · simp only [h1, if_false]
      have hmj : mult0 * amult ^ (j - 1) * amult = mult0 * amult ^ j := by
        have : j = (j - 1) + 1 := by omega
        conv_rhs => rw [this, pow_succ]
        ring
      by_cases h2 : RealLike.eqb (cC (2 * j) - -(mult0 * amult ^ (j - 1) * amult * Jn (2 * j)) / zonalNorm full (2 * j)) (cC (2 * j)) = true
      · refine ⟨0, by simp [h2], Or.inr ?_⟩
        simp only [eqb_real, decide_eq_true_eq] at h2
        have h3 : -(mult0 * amult ^ (j - 1) * amult * Jn (2 * j)) / zonalNorm full (2 * j) = 0 := by linarith
        rw [hmj] at h3
        simp only [Nat.add_zero, zonalCoef]
        simp only [zonalNorm, sqrt_real, ofNat_real] at h3
        cases full <;> simp at h3 ⊢ <;> exact h3
      · simp only [h2, Bool.false_eq_true, if_false]
        have hm : mult0 * amult ^ (j - 1) * amult = mult0 * amult ^ (j + 1 - 1) := by
          rw [hmj]; simp
        rw [hm, show 2 * j + 2 = 2 * (j + 1) by ring]
        obtain ⟨k, hk, hor⟩ := ih (j + 1) mult0 (by omega) (by omega)
        refine ⟨k + 1, by simp only [List.length_cons, hk]; ring, ?_⟩
        rw [show j + (k + 1) = j + 1 + k by ring]
        exact hor

/-! ## `readcoeffs`: positions in a concatenation of columns -/

/-- start of block `m` in a concatenation of blocks -/
def off {β : Type} (f : ℕ → List β) : ℕ → ℕ
  | 0 => 0
  | m + 1 => off f m + (f m).length

theorem length_flatMap_range {β : Type} (f : ℕ → List β) (a : ℕ) : ((List.range a).flatMap f).length = off f a := by
  induction a with
  | zero => simp [off]
  | succ a ih => rw [List.range_succ, List.flatMap_append]; simp [ih, off]

theorem off_mono {β : Type} (f : ℕ → List β) (m a : ℕ) (h : m ≤ a) : off f m ≤ off f a := by
  induction a with
  | zero => have : m = 0 := by omega
            subst this; exact le_rfl
  | succ a ih =>
    rcases Nat.lt_or_ge m (a + 1) with h1 | h1
    · have := ih (by omega); simp only [off]; omega
    · have : m = a + 1 := by omega
      subst this; exact le_rfl

theorem getD_flatMap_range {β : Type} (f : ℕ → List β) (d : β) (a m l : ℕ) (hm : m < a) (hl : l < (f m).length) :
    ((List.range a).flatMap f).getD (off f m + l) d = (f m).getD l d := by
  induction a with
  | zero => omega
  | succ a ih =>
    rw [List.range_succ, List.flatMap_append]
    rcases Nat.lt_or_ge m a with h1 | h1
    · have hlt : off f m + l < ((List.range a).flatMap f).length := by
        rw [length_flatMap_range]
        have := off_mono f (m + 1) a (by omega)
        simp only [off] at this; omega
      rw [List.getD_append _ _ _ _ hlt]
      exact ih h1
    · have : m = a := by omega
      subst this
      have hge : ((List.range m).flatMap f).length ≤ off f m + l := by rw [length_flatMap_range]; omega
      rw [List.getD_append_right _ _ _ _ hge, length_flatMap_range]
      simp

/-- column `m` of what `readcoeffs` stores into `C` -/
def colC (N0 : Int) (N : ℕ) (m : ℕ) : List Int := (List.range ((N : Int) + 1 - (m : Int)).toNat).map fun (l : ℕ) => index N0 ((m : Int) + l) m

theorem readSelC_eq (N0 : Int) (N M : ℕ) : readSelC N0 N M = (List.range (M + 1)).flatMap (colC N0 N) := by
  unfold readSelC colC
  have : ((M : Int) + 1).toNat = M + 1 := by omega
  rw [this]

theorem colC_length (N0 : Int) (N m : ℕ) : (colC N0 N m).length = N + 1 - m := by
  simp only [colC, List.length_map, List.length_range]; omega

/-- twice the start of column `m` in the packed layout of degree `N` (`= 2·index N m m`) -/
theorem two_off (N0 : Int) (N : ℕ) (m : ℕ) (h : m ≤ N + 1) : 2 * (off (colC N0 N) m : Int) = 2 * m * N - m * (m - 1) + 2 * m := by
  induction m with
  | zero => simp [off]
  | succ m ih =>
    have := ih (by omega)
    simp only [off, colC_length]
    have hc : ((N + 1 - m : ℕ) : Int) = (N : Int) + 1 - m := by omega
    push_cast
    rw [hc]
    have e : 2 * ((m : Int) + 1) * N - ((m : Int) + 1) * ((m : Int) + 1 - 1) + 2 * ((m : Int) + 1) = (2 * m * N - m * (m - 1) + 2 * m) + 2 * ((N : Int) + 1 - m) := by ring
    rw [e]; omega

/-- column `j + 1` of what `readcoeffs` stores into `S` -/
def colS (N0 : Int) (N : ℕ) (j : ℕ) : List Int := (List.range ((N : Int) - (j : Int)).toNat).map fun (l : ℕ) => index N0 ((j : Int) + 1 + l) ((j : Int) + 1) - (N0 + 1)

theorem readSelS_eq (N0 : Int) (N M : ℕ) : readSelS N0 N M = (List.range M).flatMap (colS N0 N) := by
  unfold readSelS colS
  simp

theorem colS_length (N0 : Int) (N j : ℕ) : (colS N0 N j).length = N - j := by
  simp only [colS, List.length_map, List.length_range]; omega

theorem two_offS (N0 : Int) (N : ℕ) (j : ℕ) (h : j ≤ N) : 2 * (off (colS N0 N) j : Int) = 2 * j * N - j * (j - 1) := by
  induction j with
  | zero => simp [off]
  | succ j ih =>
    have := ih (by omega)
    simp only [off, colS_length]
    have hc : ((N - j : ℕ) : Int) = (N : Int) - j := by omega
    push_cast
    rw [hc]
    have e : 2 * ((j : Int) + 1) * N - ((j : Int) + 1) * ((j : Int) + 1 - 1) = (2 * j * N - j * (j - 1)) + 2 * ((N : Int) - j) := by ring
    rw [e]; omega

instance : Fintype GcMember := ⟨{.gravity, .w, .v, .disturbance, .tGrad, .t, .sphericalAnomaly, .geoidHeight}, by intro x; cases x <;> simp⟩

end GeoVerif.Proofs.Harmonic
