import GeoVerif.Proofs.Round53
/-!
# From the rounding theory to the `F64` operations: `floor`, finite `mul`, and "one rounded product, then floor"
-/
namespace GeoVerif
open Dy

namespace Dy

/-- `Dy.floor` is the floor of the value -/
theorem floor_spec (x : Dy) : ((Dy.floor x : ℤ) : ℚ) ≤ x.val ∧ x.val < ((Dy.floor x : ℤ) : ℚ) + 1 := by
  unfold Dy.floor
  by_cases h : x.e ≥ 0
  · rw [if_pos h, shl_cast _ _ h]
    unfold val
    constructor <;> linarith
  · rw [if_neg h]
    set k := (-x.e).toNat with hk
    have hkpos : (0:ℤ) < 2 ^ k := by positivity
    have h1 := Int.mul_ediv_add_emod x.m (2 ^ k)
    have h2 := Int.emod_nonneg x.m hkpos.ne'
    have h3 := Int.emod_lt_of_pos x.m hkpos
    have hv : x.val * ((2 ^ k : ℤ) : ℚ) = x.m := by
      unfold val
      push_cast
      rw [mul_assoc, ← zpow_natCast, ← two_zpow_split, hk, Int.toNat_of_nonneg (by omega)]
      simp
    have hkq : (0:ℚ) < ((2 ^ k : ℤ) : ℚ) := by exact_mod_cast hkpos
    set q := x.m / 2 ^ k with hq
    have hm : (x.m : ℚ) = ((2 ^ k : ℤ) : ℚ) * q + ((x.m % 2 ^ k : ℤ) : ℚ) := by exact_mod_cast h1.symm
    have h2q : (0:ℚ) ≤ ((x.m % 2 ^ k : ℤ) : ℚ) := by exact_mod_cast h2
    have h3q : ((x.m % 2 ^ k : ℤ) : ℚ) < ((2 ^ k : ℤ) : ℚ) := by exact_mod_cast h3
    constructor
    · by_contra hc
      have := mul_lt_mul_of_pos_right (not_le.mp hc) hkq
      nlinarith
    · by_contra hc
      have := mul_le_mul_of_nonneg_right (not_lt.mp hc) hkq.le
      nlinarith

theorem floor_unique (x : Dy) (n : ℤ) (h1 : (n:ℚ) ≤ x.val) (h2 : x.val < (n:ℚ) + 1) : Dy.floor x = n := by
  obtain ⟨f1, f2⟩ := floor_spec x
  have a : (n:ℚ) < (Dy.floor x : ℤ) + 1 := by linarith
  have b : ((Dy.floor x : ℤ) : ℚ) < n + 1 := by linarith
  have a' : n < Dy.floor x + 1 := by exact_mod_cast a
  have b' : Dy.floor x < n + 1 := by exact_mod_cast b
  omega

theorem floor_congr (x y : Dy) (h : x.val = y.val) : Dy.floor x = Dy.floor y := by
  obtain ⟨f1, f2⟩ := floor_spec y
  exact floor_unique x _ (by rw [h]; exact f1) (by rw [h]; exact f2)

theorem floor_mono (x y : Dy) (h : x.val ≤ y.val) : Dy.floor x ≤ Dy.floor y := by
  obtain ⟨f1, f2⟩ := floor_spec x
  obtain ⟨g1, g2⟩ := floor_spec y
  have : ((Dy.floor x : ℤ) : ℚ) < (Dy.floor y : ℤ) + 1 := by linarith
  have : Dy.floor x < Dy.floor y + 1 := by exact_mod_cast this
  omega

/-- the result of rounding depends only on the value -/
theorem roundTo_val_congr (p : ℕ) (hp : 1 ≤ p) (emin : ℤ) (x y : Dy) (h : x.val = y.val) :
    (roundTo p emin x).val = (roundTo p emin y).val :=
  le_antisymm (roundTo_mono p hp emin x y h.le) (roundTo_mono p hp emin y x h.ge)

/-- the standard error model of binary64 rounding: `|rnd x − x| ≤ max (|x|·2^(−53)) 2^(−1075)` -/
theorem round53_abserr (x : Dy) :
    |(round53 x).val - x.val| ≤ max (|x.val| * (2:ℚ) ^ (-(53:ℤ))) ((2:ℚ) ^ (-(1075:ℤ))) := by
  by_cases hm : x.m = 0
  · have : (round53 x).val = 0 := roundTo_val_zero 53 (-1074) x hm
    rw [this, val_of_m_zero x hm]; simp
  · by_cases hn : -1021 ≤ bexp x
    · exact le_trans (round53_relerr x hn) (le_max_left _ _)
    · have h1 := roundTo_halfulp 53 (-1074) x hm
      have ht : tExp 53 (-1074) x = -1074 := by rw [tExp_eq]; push_cast; omega
      rw [ht] at h1
      exact le_trans h1 (le_max_right _ _)

end Dy

namespace F64

theorem overflow_false_of_lt (d : Dy) (h : |d.val| < (2:ℚ) ^ (1024:ℤ)) : overflow d = false := by
  unfold overflow
  by_cases hm : d.m = 0
  · simp [hm]
  · have := Dy.bexp_le_of_lt d hm 1024 h
    unfold Dy.bexp at this
    have h2 : ¬ ((Dy.blen d.m.natAbs : ℤ) + d.e > 1024) := by omega
    simp [h2]

theorem val_fin_zero (s : Bool) (e : ℤ) : (F64.fin s 0 e).val = 0 := by rw [val_fin]; simp

/-- a rounding that does not overflow gives the finite number with value `round53 d` -/
theorem rnd_fin (d : Dy) (zs : Bool) (h : |(Dy.round53 d).val| < (2:ℚ) ^ (1024:ℤ)) :
    (rnd d zs).isFinite = true ∧ (rnd d zs).val = (Dy.round53 d).val := by
  unfold rnd
  simp only []
  by_cases h0 : (Dy.round53 d).m = 0
  · rw [if_pos h0]
    exact ⟨rfl, by rw [val_fin_zero, Dy.val_of_m_zero _ h0]⟩
  · rw [if_neg h0, overflow_false_of_lt _ h]
    simp only [Bool.false_eq_true, if_false]
    exact ⟨rfl, by unfold val; rw [toDy_ofDy]⟩

theorem mul_fin (sa sb : Bool) (ma mb : ℕ) (ea eb : ℤ) :
    (F64.fin sa ma ea) * (F64.fin sb mb eb) =
      rnd (Dy.mul (F64.fin sa ma ea).toDy (F64.fin sb mb eb).toDy) (sa != sb) := rfl

/-- `⌊·⌋` computed through the binary64 `floor` is the floor of the value (any `F64`; NaN/inf read as 0) -/
theorem floor_toDy_floor (x : F64) : Dy.floor (F64.floor x).toDy = Dy.floor x.toDy := by
  cases x with
  | nan => rfl
  | inf s => rfl
  | fin s m e =>
    unfold F64.floor
    simp only []
    by_cases hm : (m == 0) = true
    · rw [if_pos hm]
    · rw [if_neg hm]
      by_cases hf : Dy.floor (F64.fin s m e).toDy = 0
      · rw [if_pos hf, hf]
        cases s <;> rfl
      · rw [if_neg hf]
        unfold F64.ofInt
        rw [toDy_ofDy]
        unfold Dy.floor Dy.shl
        simp

/-- "one rounded product, then floor" as coded by GARS / Georef / OSGB -/
def mulFloorCoded (a b : F64) : ℤ := Dy.floor (F64.floor (a * b)).toDy
/-- floor of the exact product -/
def mulFloorExact (a b : F64) : ℤ := Dy.floor (Dy.mul a.toDy b.toDy)

/-- **the coded cell is the exact cell or the next one.**  For finite `a`, `b` with `|a·b| ≤ 2^52`, with
`P = a·b` exact and `n = ⌊P⌋`: `n ≤ P < n + 1`, and the coded index `⌊rnd P⌋` is `n`, or it is `n + 1` and then
the rounded product *is* the integer `n + 1` and `P` lies within the rounding error below it. -/
theorem mulFloor_contains (sa sb : Bool) (ma mb : ℕ) (ea eb : ℤ) :
    let a := F64.fin sa ma ea; let b := F64.fin sb mb eb
    |a.val * b.val| ≤ 2 ^ 52 →
    let n := mulFloorExact a b
    ((n:ℚ) ≤ a.val * b.val ∧ a.val * b.val < (n:ℚ) + 1) ∧
    (mulFloorCoded a b = n ∨
      (mulFloorCoded a b = n + 1 ∧ (a * b).val = (n:ℚ) + 1 ∧
        (n:ℚ) + 1 - a.val * b.val ≤ max (|a.val * b.val| * (2:ℚ) ^ (-(53:ℤ))) ((2:ℚ) ^ (-(1075:ℤ))))) := by
  intro a b hP n
  set P := Dy.mul a.toDy b.toDy with hPd
  have hPv : P.val = a.val * b.val := by rw [hPd, Dy.val_mul]; rfl
  obtain ⟨f1, f2⟩ := Dy.floor_spec P
  have hn : n = Dy.floor P := rfl
  rw [← hn, hPv] at f1 f2
  refine ⟨⟨f1, f2⟩, ?_⟩
  -- bounds on n
  have hPa := abs_le.mp hP
  have hn1 : -(2:ℤ) ^ 52 - 1 < n := by
    have : (-(2:ℚ) ^ 52 - 1) < (n:ℚ) := by linarith [hPa.1]
    exact_mod_cast this
  have hn2 : n ≤ (2:ℤ) ^ 52 := by
    have : (n:ℚ) ≤ (2:ℚ) ^ 52 := by linarith [hPa.2]
    exact_mod_cast this
  have hnabs : |n| ≤ 2 ^ 53 := abs_le.mpr ⟨by omega, by omega⟩
  have hn1abs : |n + 1| ≤ 2 ^ 53 := abs_le.mpr ⟨by omega, by omega⟩
  -- rounding stays between n and n + 1
  have r1 := Dy.le_round53_of_int_le P n hnabs (by rw [hPv]; exact f1)
  have r2 := Dy.round53_le_of_le_int P (n + 1) hn1abs (by rw [hPv]; push_cast; linarith)
  push_cast at r2
  have hfinR : |(Dy.round53 P).val| < (2:ℚ) ^ (1024:ℤ) := by
    have h53 : (2:ℚ) ^ (53:ℕ) < (2:ℚ) ^ (1024:ℤ) := by
      rw [← zpow_natCast]; exact Dy.two_zpow_lt_iff.mpr (by norm_num)
    have hn1q : (-(2:ℚ) ^ 52 - 1) < (n:ℚ) := by exact_mod_cast hn1
    have hn2q : (n:ℚ) ≤ (2:ℚ) ^ 52 := by exact_mod_cast hn2
    have e1 : (2:ℚ) ^ 53 = 2 * 2 ^ 52 := by norm_num
    have e2 : (1:ℚ) ≤ 2 ^ 52 := by norm_num
    rw [abs_lt]
    generalize (2:ℚ) ^ (1024:ℤ) = B at *
    generalize (2:ℚ) ^ 53 = C at *
    generalize (2:ℚ) ^ 52 = D at *
    constructor <;> linarith
  obtain ⟨hfin, hval⟩ := rnd_fin P (sa != sb) hfinR
  have hab : a * b = rnd P (sa != sb) := mul_fin sa sb ma mb ea eb
  have hc : mulFloorCoded a b = Dy.floor (rnd P (sa != sb)).toDy := by
    unfold mulFloorCoded; rw [floor_toDy_floor, hab]
  have hvalR : (rnd P (sa != sb)).toDy.val = (Dy.round53 P).val := hval
  by_cases hlt : (Dy.round53 P).val < (n:ℚ) + 1
  · left
    rw [hc]; exact Dy.floor_unique _ n (by rw [hvalR]; exact r1) (by rw [hvalR]; exact hlt)
  · right
    have heq : (Dy.round53 P).val = (n:ℚ) + 1 := le_antisymm r2 (not_lt.mp hlt)
    refine ⟨?_, ?_, ?_⟩
    · rw [hc]
      exact Dy.floor_unique _ (n + 1) (by rw [hvalR, heq]; push_cast; exact le_refl _)
        (by rw [hvalR, heq]; push_cast; linarith)
    · rw [hab]; show (rnd P (sa != sb)).toDy.val = _; rw [hvalR, heq]
    · have := Dy.round53_abserr P
      rw [heq, hPv] at this
      exact le_trans (le_abs_self _) this

/-- when the exact product is representable the coded cell is the exact cell -/
theorem mulFloor_exact_of_representable (sa sb : Bool) (ma mb : ℕ) (ea eb : ℤ) :
    let a := F64.fin sa ma ea; let b := F64.fin sb mb eb
    |a.val * b.val| ≤ 2 ^ 52 →
    (Dy.round53 (Dy.mul a.toDy b.toDy)).val = a.val * b.val →
    mulFloorCoded a b = mulFloorExact a b := by
  intro a b hP hrep
  obtain ⟨⟨f1, f2⟩, h | ⟨_, h2, _⟩⟩ := mulFloor_contains sa sb ma mb ea eb hP
  · exact h
  · exfalso
    -- (a*b).val = round53 P = P < n + 1
    have hPa := abs_le.mp hP
    have hfinR : |(Dy.round53 (Dy.mul a.toDy b.toDy)).val| < (2:ℚ) ^ (1024:ℤ) := by
      rw [hrep]
      have h53 : (2:ℚ) ^ (52:ℕ) < (2:ℚ) ^ (1024:ℤ) := by
        rw [← zpow_natCast]; exact Dy.two_zpow_lt_iff.mpr (by norm_num)
      exact lt_of_le_of_lt hP h53
    obtain ⟨_, hval⟩ := rnd_fin (Dy.mul a.toDy b.toDy) (sa != sb) hfinR
    have hab : a * b = rnd (Dy.mul a.toDy b.toDy) (sa != sb) := mul_fin sa sb ma mb ea eb
    rw [hab, hval, hrep] at h2
    linarith

end F64
end GeoVerif
