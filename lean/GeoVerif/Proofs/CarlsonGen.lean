import GeoVerif.Gen.Carlson
import GeoVerif.Proofs.Carlson
/-!
# The constants of Carlson's algorithms as extracted from `EllipticFunction.cpp` (`Gen/Carlson.lean`) are the ones of the model

`Gen/Carlson.lean` is regenerated from the current source on every run by a symbolic evaluation of the C++ expressions
(`tools/translate.d/C15.py`, `gen_carlson`), so these statements are re-checked against what the code says now.
-/
namespace GeoVerif.Proofs.CarlsonGen
open GeoVerif GeoVerif.Elliptic Real

/-- value of a monomial table `[(exponents, coefficient)]` at a point -/
noncomputable def evalMV (p : List (List Nat × Int)) (v : List ℝ) : ℝ :=
  (p.map fun ec => (ec.2 : ℝ) * ((ec.1.zip v).map fun kx => kx.2 ^ kx.1).prod).sum

noncomputable def evalMVq (p : List (List Nat × Rat)) (v : List ℝ) : ℝ :=
  (p.map fun ec => (ec.2 : ℝ) * ((ec.1.zip v).map fun kx => kx.2 ^ kx.1).prod).sum

noncomputable def evalLin (w : List Rat) (v : List ℝ) : ℝ := ((w.zip v).map fun wx => (wx.1 : ℝ) * wx.2).sum

/-- the numerator, the denominator and the trip cap of the final series of `RF` in the source are those of the model -/
theorem rf_series (E2 E3 : ℝ) :
    evalMV Gen.Carlson.rfPoly [E2, E3] = rfTail E2 E3 ∧ Gen.Carlson.rfDen = 240240 ∧ Gen.Carlson.rfSumMul = 0 ∧
    Gen.Carlson.rfTrips = trips := by
  refine ⟨?_, by decide, by decide, by decide⟩
  unfold rfTail evalMV
  simp only [Gen.Carlson.rfPoly, lit_real, List.map, List.zip, List.zipWith, List.prod_cons, List.prod_nil, List.sum_cons, List.sum_nil]
  push_cast; ring

/-- the same for `RD` (`3·s` is added) -/
theorem rd_series (E2 E3 E4 E5 : ℝ) :
    evalMV Gen.Carlson.rdPoly [E2, E3, E4, E5] = rjTail E2 E3 E4 E5 ∧ Gen.Carlson.rdDen = 4084080 ∧ Gen.Carlson.rdSumMul = 3 ∧
    Gen.Carlson.rdTrips = trips := by
  refine ⟨?_, by decide, by decide, by decide⟩
  unfold rjTail evalMV
  simp only [Gen.Carlson.rdPoly, lit_real, List.map, List.zip, List.zipWith, List.prod_cons, List.prod_nil, List.sum_cons, List.sum_nil]
  push_cast; ring

/-- the same for `RJ` (`6·s` is added) -/
theorem rj_series (E2 E3 E4 E5 : ℝ) :
    evalMV Gen.Carlson.rjPoly [E2, E3, E4, E5] = rjTail E2 E3 E4 E5 ∧ Gen.Carlson.rjDen = 4084080 ∧ Gen.Carlson.rjSumMul = 6 ∧
    Gen.Carlson.rjTrips = trips := by
  refine ⟨?_, by decide, by decide, by decide⟩
  unfold rjTail evalMV
  simp only [Gen.Carlson.rjPoly, lit_real, List.map, List.zip, List.zipWith, List.prod_cons, List.prod_nil, List.sum_cons, List.sum_nil]
  push_cast; ring

/-- the means `A0` of the source are the weighted means of the model: `(x+y+z)/3`, `(x+y+3z)/5`, `(x+y+z+2p)/5` -/
theorem means (x y z p : ℝ) :
    evalLin Gen.Carlson.rfMean [x, y, z] = (x + y + z) / 3 ∧ evalLin Gen.Carlson.rdMean [x, y, z] = (x + y + 3 * z) / 5 ∧
    evalLin Gen.Carlson.rjMean [x, y, z, p] = (x + y + z + 2 * p) / 5 := by
  refine ⟨?_, ?_, ?_⟩ <;>
  · unfold evalLin
    simp only [Gen.Carlson.rfMean, Gen.Carlson.rdMean, Gen.Carlson.rjMean, List.map, List.zip, List.zipWith, List.sum_cons, List.sum_nil]
    push_cast; ring

/-- `E₂ … E₅` of the source (as polynomials in the independent deviations, the dependent one substituted) are those of the
    model, for `RF`, `RD` and `RJ` -/
theorem edefs (X Y Z : ℝ) :
    (Gen.Carlson.rfEdefs.map fun p => evalMVq p [X, Y]) = [X * Y - (-(X + Y)) * (-(X + Y)), X * Y * (-(X + Y))] ∧
    (Gen.Carlson.rdEdefs.map fun p => evalMVq p [X, Y]) = [(rdE X Y).1, (rdE X Y).2.1, (rdE X Y).2.2.1, (rdE X Y).2.2.2] ∧
    (Gen.Carlson.rjEdefs.map fun p => evalMVq p [X, Y, Z]) = [(rjE X Y Z).1, (rjE X Y Z).2.1, (rjE X Y Z).2.2.1, (rjE X Y Z).2.2.2] := by
  refine ⟨?_, ?_, ?_⟩
  · unfold evalMVq
    simp only [Gen.Carlson.rfEdefs, List.map, List.zip, List.zipWith, List.prod_cons, List.prod_nil, List.sum_cons, List.sum_nil]
    push_cast
    refine List.cons_eq_cons.mpr ⟨by ring, List.cons_eq_cons.mpr ⟨by ring, rfl⟩⟩
  · unfold evalMVq rdE
    simp only [Gen.Carlson.rdEdefs, lit_real, List.map, List.zip, List.zipWith, List.prod_cons, List.prod_nil, List.sum_cons, List.sum_nil]
    push_cast
    refine List.cons_eq_cons.mpr ⟨by ring, List.cons_eq_cons.mpr ⟨by ring, List.cons_eq_cons.mpr ⟨by ring, List.cons_eq_cons.mpr ⟨by ring, rfl⟩⟩⟩⟩
  · unfold evalMVq rjE
    simp only [Gen.Carlson.rjEdefs, lit_real, List.map, List.zip, List.zipWith, List.prod_cons, List.prod_nil, List.sum_cons, List.sum_nil]
    push_cast
    refine List.cons_eq_cons.mpr ⟨by ring, List.cons_eq_cons.mpr ⟨by ring, List.cons_eq_cons.mpr ⟨by ring, List.cons_eq_cons.mpr ⟨by ring, rfl⟩⟩⟩⟩

/-- the dependent deviation: `Z = −(X+Y)` (`RF`), `Z = −(X+Y)/3` (`RD`), `P = −(X+Y+Z)/2` (`RJ`) -/
theorem deps : Gen.Carlson.rfDep = [[-1, -1]] ∧ Gen.Carlson.rdDep = [[-1 / 3, -1 / 3]] ∧ Gen.Carlson.rjDep = [[-1 / 2, -1 / 2, -1 / 2]] := by
  refine ⟨by decide +kernel, by decide +kernel, by decide +kernel⟩

/-- the tolerances: `tolRF⁸ = (3/100)ε`, `tolRD⁸ = (1/500)ε` in `RD` and in `RJ`, `tolRG0 = (27/10)√(ε/100)` in the two AGM
    forms, `tolJAC = √(ε/100)` in `sncndn` and `Einv`, `tolJAC = ε^(3/4)` in `am`; `num_ = 25` -/
theorem tolerances :
    (tolRF : ℝ) ^ Gen.Carlson.tolRFpow = (Gen.Carlson.tolRFcoef : ℝ) * RealX.eps ∧
    (tolRD : ℝ) ^ Gen.Carlson.tolRDpow = (Gen.Carlson.tolRDcoef : ℝ) * RealX.eps ∧
    (tolRD : ℝ) ^ Gen.Carlson.tolRJpow = (Gen.Carlson.tolRJcoef : ℝ) * RealX.eps ∧
    (tolRG0 : ℝ) = (Gen.Carlson.tolRF2fac : ℝ) * √((Gen.Carlson.tolRF2eps : ℝ) * RealX.eps) ∧
    (tolRG0 : ℝ) = (Gen.Carlson.tolRG2fac : ℝ) * √((Gen.Carlson.tolRG2eps : ℝ) * RealX.eps) ∧
    (tolJAC : ℝ) = (Gen.Carlson.tolJACSncndnfac : ℝ) * √((Gen.Carlson.tolJACSncndneps : ℝ) * RealX.eps) ∧
    (tolJAC : ℝ) = (Gen.Carlson.tolJACEinvfac : ℝ) * √((Gen.Carlson.tolJACEinveps : ℝ) * RealX.eps) ∧
    Gen.Carlson.tolJACamExp = 3 / 4 ∧ (tolJACam : ℝ) ^ 4 = RealX.eps ^ 3 ∧
    Gen.Carlson.rf2Trips = trips ∧ Gen.Carlson.rg2Trips = trips ∧ Gen.Carlson.num = num := by
  have he : (RealX.eps : ℝ) = 1 / 2 ^ 52 := eps_real
  have hd (n k : ℕ) : (RealLike.ofDec n k : ℝ) = (n : ℝ) / 10 ^ k := rfl
  refine ⟨?_, ?_, ?_, ?_, ?_, ?_, ?_, by decide +kernel, ?_, by decide, by decide, by decide⟩
  · rw [show Gen.Carlson.tolRFpow = 8 from rfl, Carlson.tolRF_pow.1, he]; simp only [Gen.Carlson.tolRFcoef]; push_cast; ring
  · rw [show Gen.Carlson.tolRDpow = 8 from rfl, Carlson.tolRD_pow.1, he]; simp only [Gen.Carlson.tolRDcoef]; push_cast; ring
  · rw [show Gen.Carlson.tolRJpow = 8 from rfl, Carlson.tolRD_pow.1, he]; simp only [Gen.Carlson.tolRJcoef]; push_cast; ring
  · unfold tolRG0; simp only [hd, sqrt_real, Gen.Carlson.tolRF2fac, Gen.Carlson.tolRF2eps]; push_cast
    rw [mul_comm (RealX.eps : ℝ)]; norm_num
  · unfold tolRG0; simp only [hd, sqrt_real, Gen.Carlson.tolRG2fac, Gen.Carlson.tolRG2eps]; push_cast
    rw [mul_comm (RealX.eps : ℝ)]; norm_num
  · unfold tolJAC; simp only [hd, sqrt_real, Gen.Carlson.tolJACSncndnfac, Gen.Carlson.tolJACSncndneps]; push_cast
    rw [mul_comm (RealX.eps : ℝ)]; norm_num
  · unfold tolJAC; simp only [hd, sqrt_real, Gen.Carlson.tolJACEinvfac, Gen.Carlson.tolJACEinveps]; push_cast
    rw [mul_comm (RealX.eps : ℝ)]; norm_num
  · unfold tolJACam; simp only [sqrt_real]
    have h0 : (0 : ℝ) ≤ RealX.eps := by rw [he]; positivity
    have h1 : √(RealX.eps : ℝ) ^ 2 = RealX.eps := Real.sq_sqrt h0
    have h2 : √(√(RealX.eps : ℝ)) ^ 2 = √(RealX.eps : ℝ) := Real.sq_sqrt (Real.sqrt_nonneg _)
    calc (√(RealX.eps : ℝ) * √(√(RealX.eps : ℝ))) ^ 4 = (√(RealX.eps : ℝ) ^ 2) ^ 2 * (√(√(RealX.eps : ℝ)) ^ 2) ^ 2 := by ring
      _ = RealX.eps ^ 2 * (√(RealX.eps : ℝ)) ^ 2 := by rw [h2, h1]
      _ = RealX.eps ^ 2 * RealX.eps := by rw [h1]
      _ = RealX.eps ^ 3 := by ring

end GeoVerif.Proofs.CarlsonGen
