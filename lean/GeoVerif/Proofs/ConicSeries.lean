import GeoVerif.Model.Conic
import GeoVerif.Model.ConicKernels
import GeoVerif.Spec.RealInst
import GeoVerif.Proofs.Conic
import Mathlib.Tactic.Ring
import Mathlib.Tactic.LinearCombination
import Mathlib.Tactic.FieldSimp
import Mathlib.Tactic.Positivity
import Mathlib.Tactic.NormNum
import Mathlib.Tactic.Linarith
import Mathlib.Data.Real.Basic
import Mathlib.Data.Nat.Choose.Basic
import Mathlib.Algebra.BigOperators.Group.Finset.Basic
import Mathlib.Algebra.BigOperators.Ring.Finset
import Mathlib.Algebra.BigOperators.Intervals
/-!
# The series of `AlbersEqualArea` over ℝ: `atanhxm1`, `DDatanhee1`, `DDatanhee2` — the coded recurrences generate the Taylor
coefficients of their limits, the partial sums are truncated Taylor polynomials, and the termination rule of `DDatanhee2`
(lemmas; the property theorems are in `Props/C11.lean`)
-/
namespace GeoVerif.Proofs.ConicSeries
open GeoVerif GeoVerif.Conic GeoVerif.Proofs.Conic Finset

theorem ofNat_real' (n : ℕ) : (RealLike.ofNat n : ℝ) = (n : ℝ) := rfl

/-! ## `atanhxm1`: Horner evaluation of `x/3 + x²/5 + … + x^(n−1)/(2n−1)` -/

/-- the coefficient of `x^k` in `atanh(√x)/√x − 1` -/
noncomputable def axCoef (k : ℕ) : ℝ := (if k = 0 then 0 else 1) / ((2 * k + 1 : ℕ) : ℝ)

/-- the truncated Taylor polynomial `Σ_{k<n} axCoef k · x^k` -/
noncomputable def axPoly (x : ℝ) : ℕ → ℝ
  | 0 => 0
  | n + 1 => axPoly x n + axCoef n * x ^ n

/-- **`atanhxm1Loop` is Horner's rule**: started with `s` and `n` remaining terms it returns `s·xⁿ + Σ_{k<n} x^k/(2k+1)` (`k ≥ 1`) -/
theorem atanhxm1Loop_eq (x : ℝ) (n : ℕ) (s : ℝ) : atanhxm1Loop x n s = s * x ^ n + axPoly x n := by
  induction n generalizing s with
  | zero => simp [atanhxm1Loop, axPoly]
  | succ n ih =>
    rw [atanhxm1Loop, ih]
    simp only [axPoly, axCoef, ofNat_real', zero_real, one_real, beq_iff_eq]
    ring

/-- the value of the series branch of `atanhxm1` is the Taylor polynomial of degree `n − 1` of `atanh(√x)/√x − 1` -/
theorem atanhxm1Loop_zero (x : ℝ) (n : ℕ) : atanhxm1Loop x n 0 = axPoly x n := by
  rw [atanhxm1Loop_eq]; simp

/-! ## `DDatanhee1`: the series in `e²` -/

/-- complete homogeneous polynomial `h_m(x, y) = Σ_{i+j=m} xⁱ yʲ` by the recurrence the code uses, `t ← y·t + z` -/
noncomputable def hsym (x y : ℝ) : ℕ → ℝ
  | 0 => 1
  | m + 1 => y * hsym x y m + x ^ (m + 1)

theorem hsym_mul (x y : ℝ) (m : ℕ) : (x - y) * hsym x y m = x ^ (m + 1) - y ^ (m + 1) := by
  induction m with
  | zero => simp [hsym]
  | succ m ih =>
    have : (x - y) * hsym x y (m + 1) = y * ((x - y) * hsym x y m) + (x - y) * x ^ (m + 1) := by simp only [hsym]; ring
    rw [this, ih]; ring

/-- `c[l] = Σ_{i+j<2l} xⁱ yʲ` -/
noncomputable def dd1C (x y : ℝ) : ℕ → ℝ
  | 0 => 0
  | l + 1 => dd1C x y l + hsym x y (2 * l) + hsym x y (2 * l + 1)

/-- the partial sums `Σ_{l=1}^{L} e2^l c[l]/(2l+1)` -/
noncomputable def dd1Sum (e2 x y : ℝ) : ℕ → ℝ
  | 0 => 0
  | l + 1 => dd1Sum e2 x y l + e2 ^ (l + 1) * dd1C x y (l + 1) / ((2 * (l + 1) + 1 : ℕ) : ℝ)

/-- the state of the loop of `DDatanhee1` after `l` iterations -/
noncomputable def dd1State (e2 x y : ℝ) (l : ℕ) : DD1St ℝ :=
  ⟨x ^ (2 * l), ((2 * l + 1 : ℕ) : ℝ), if l = 0 then 0 else hsym x y (2 * l - 1), dd1C x y l, e2 ^ l, dd1Sum e2 x y l⟩

theorem dd1State_zero (e2 x y : ℝ) : dd1State e2 x y 0 = ⟨1, 1, 0, 0, 1, 0⟩ := by
  simp [dd1State, dd1C, dd1Sum]

/-- **the documented closed form of `c[l]`**: `((x−y) − (1−y)x^(2l+1) + (1−x)y^(2l+1)) / ((x−y)(1−y)(1−x))` -/
theorem dd1C_closed (x y : ℝ) (l : ℕ) :
    (x - y) * (1 - y) * (1 - x) * dd1C x y l = (x - y) - (1 - y) * x ^ (2 * l + 1) + (1 - x) * y ^ (2 * l + 1) := by
  induction l with
  | zero => simp [dd1C]; ring
  | succ l ih =>
    have h1 := hsym_mul x y (2 * l)
    have h2 := hsym_mul x y (2 * l + 1)
    have : (x - y) * (1 - y) * (1 - x) * dd1C x y (l + 1) =
        (x - y) * (1 - y) * (1 - x) * dd1C x y l + (1 - y) * (1 - x) * ((x - y) * hsym x y (2 * l)) +
          (1 - y) * (1 - x) * ((x - y) * hsym x y (2 * l + 1)) := by simp only [dd1C]; ring
    rw [this, ih, h1, h2]
    ring

/-- `c[l]` is the second divided difference of `s^(2l+1)` on the nodes `1, x, y` — the coefficient of `e2^l/(2l+1)` in `DDatanhee` since
    `atanhee(s) = Σ e2^l s^(2l+1)/(2l+1)` -/
theorem dd1C_is_dd (x y : ℝ) (l : ℕ) (hxy : x ≠ y) (hx : x ≠ 1) (hy : y ≠ 1) :
    dd1C x y l = ((1 - y ^ (2 * l + 1)) / (1 - y) - (1 - x ^ (2 * l + 1)) / (1 - x)) / (y - x) := by
  have h := dd1C_closed x y l
  have h1 : x - y ≠ 0 := sub_ne_zero.mpr hxy
  have h2 : (1 : ℝ) - y ≠ 0 := sub_ne_zero.mpr (Ne.symm hy)
  have h3 : (1 : ℝ) - x ≠ 0 := sub_ne_zero.mpr (Ne.symm hx)
  have h4 : y - x ≠ 0 := sub_ne_zero.mpr (Ne.symm hxy)
  field_simp
  linear_combination -h

/-- one iteration of the loop maps the state after `l` iterations to the state after `l + 1` (and the added term is `e2^(l+1) c[l+1]/(2l+3)`) -/
theorem dd1_step (E : Ell ℝ) (x y : ℝ) (l fuel : ℕ) :
    DDatanhee1Loop E x y (fuel + 1) (dd1State E.e2 x y l) =
      (if !(RealLike.ltb (RealLike.abs (dd1Sum E.e2 x y (l + 1)) * (eps : ℝ) / 2)
              (RealLike.abs (E.e2 ^ (l + 1) * dd1C x y (l + 1) / ((2 * (l + 1) + 1 : ℕ) : ℝ)))) then dd1Sum E.e2 x y (l + 1)
       else DDatanhee1Loop E x y fuel (dd1State E.e2 x y (l + 1))) := by
  have ht : y * (if l = 0 then 0 else hsym x y (2 * l - 1)) + x ^ (2 * l) = hsym x y (2 * l) := by
    cases l with
    | zero => simp [hsym]
    | succ l =>
      have : 2 * (l + 1) - 1 = 2 * l + 1 := by omega
      have h2 : 2 * (l + 1) = (2 * l + 1) + 1 := by ring
      simp only [this, Nat.succ_ne_zero, if_false]
      rw [h2]; simp only [hsym]
  have hz : x ^ (2 * l) * x * x = x ^ (2 * (l + 1)) := by ring
  have hk : ((2 * l + 1 : ℕ) : ℝ) + 2 = ((2 * (l + 1) + 1 : ℕ) : ℝ) := by push_cast; ring
  have ht2 : y * hsym x y (2 * l) + x ^ (2 * l) * x = hsym x y (2 * l + 1) := by simp only [hsym]; ring
  have hc : dd1C x y l + hsym x y (2 * l) + hsym x y (2 * l + 1) = dd1C x y (l + 1) := by simp only [dd1C]
  have hen : E.e2 ^ l * E.e2 = E.e2 ^ (l + 1) := by ring
  have hst : dd1State E.e2 x y (l + 1) =
      ⟨x ^ (2 * (l + 1)), ((2 * (l + 1) + 1 : ℕ) : ℝ), hsym x y (2 * l + 1), dd1C x y (l + 1), E.e2 ^ (l + 1), dd1Sum E.e2 x y (l + 1)⟩ := by
    have : 2 * (l + 1) - 1 = 2 * l + 1 := by omega
    simp only [dd1State, Nat.succ_ne_zero, if_false, this]
  rw [hst]
  simp only [DDatanhee1Loop, dd1State, two_real]
  rw [ht, ht2, hc, hz, hk, hen]
  simp only [dd1Sum]
  rfl

/-- **the value returned by `DDatanhee1` is a partial sum of the Taylor series in `e²`**: `Σ_{l=1}^{L} e2^l c[l]/(2l+1)` for some `L` -/
theorem dd1_loop_partial (E : Ell ℝ) (x y : ℝ) (fuel l : ℕ) :
    ∃ L, l ≤ L ∧ L ≤ l + fuel ∧ DDatanhee1Loop E x y fuel (dd1State E.e2 x y l) = dd1Sum E.e2 x y L := by
  induction fuel generalizing l with
  | zero => exact ⟨l, le_refl _, le_refl _, by simp [DDatanhee1Loop, dd1State]⟩
  | succ fuel ih =>
    rw [dd1_step]
    split
    · exact ⟨l + 1, by omega, by omega, rfl⟩
    · obtain ⟨L, h1, h2, h3⟩ := ih (l + 1)
      exact ⟨L, by omega, by omega, h3⟩

/-! ## `DDatanhee2`: the series in `1 − x`, `1 − y` -/

theorem ofInt_real (i : ℤ) : (ofInt i : ℝ) = (i : ℝ) := by
  unfold ofInt
  split
  · rename_i h
    rw [ofNat_real']
    have : ((-i).toNat : ℤ) = -i := Int.toNat_of_nonneg (by omega)
    have h2 : (((-i).toNat : ℕ) : ℝ) = ((-i : ℤ) : ℝ) := by exact_mod_cast congrArg (fun z : ℤ => (z : ℝ)) this
    rw [h2]; push_cast; ring
  · rename_i h
    rw [ofNat_real']
    have : (i.toNat : ℤ) = i := Int.toNat_of_nonneg (by omega)
    exact_mod_cast congrArg (fun z : ℤ => (z : ℝ)) this

/-- two steps of `choose n (k+1)·(k+1) = choose n k·(n−k)` in ℝ -/
theorem choose_ratio (n J : ℕ) (hJ : 1 ≤ J) (h : 2 * J + 1 ≤ n) :
    (n.choose (2 * J + 1) : ℝ) * ((2 * J : ℝ) * (2 * J + 1)) = (n.choose (2 * J - 1) : ℝ) * (((n : ℝ) - 2 * J) * ((n : ℝ) - 2 * J + 1)) := by
  have h1 := Nat.choose_succ_right_eq n (2 * J)
  have h2 := Nat.choose_succ_right_eq n (2 * J - 1)
  have e : 2 * J - 1 + 1 = 2 * J := by omega
  rw [e] at h2
  have c1 : (n.choose (2 * J + 1) : ℝ) * ((2 * J : ℝ) + 1) = (n.choose (2 * J) : ℝ) * ((n : ℝ) - 2 * J) := by
    have := congrArg (fun z : ℕ => (z : ℝ)) h1
    simp only [Nat.cast_mul, Nat.cast_add, Nat.cast_one] at this
    rw [Nat.cast_sub (by omega)] at this
    push_cast at this; linarith
  have c2 : (n.choose (2 * J) : ℝ) * (2 * J : ℝ) = (n.choose (2 * J - 1) : ℝ) * ((n : ℝ) - 2 * J + 1) := by
    have := congrArg (fun z : ℕ => (z : ℝ)) h2
    simp only [Nat.cast_mul] at this
    rw [Nat.cast_sub (by omega), Nat.cast_sub (by omega)] at this
    push_cast at this; linarith
  calc (n.choose (2 * J + 1) : ℝ) * ((2 * J : ℝ) * (2 * J + 1))
      = ((n.choose (2 * J + 1) : ℝ) * ((2 * J : ℝ) + 1)) * (2 * J) := by ring
    _ = ((n.choose (2 * J) : ℝ) * (2 * J : ℝ)) * ((n : ℝ) - 2 * J) := by rw [c1]; ring
    _ = _ := by rw [c2]; ring

/-- Horner form of `Σ_{i ≤ j} C(n, 2i+1) q^(j−i)` -/
noncomputable def hornerB (q : ℝ) (n : ℕ) : ℕ → ℝ
  | 0 => (n.choose 1 : ℝ)
  | j + 1 => q * hornerB q n j + (n.choose (2 * (j + 1) + 1) : ℝ)

theorem hornerB_pred (q : ℝ) (n J : ℕ) (hJ : 1 ≤ J) :
    q * hornerB q n (J - 1) + (n.choose (2 * J + 1) : ℝ) = hornerB q n J := by
  obtain ⟨J', rfl⟩ : ∃ J', J = J' + 1 := ⟨J - 1, by omega⟩
  simp only [Nat.add_sub_cancel, hornerB]

/-- **the inner loop of `DDatanhee2`**: started at loop index `k` with `c = C(m+2, 2j+1)` and the Horner sum for `j = kmax − k`, it returns the
    Horner sum for `kmax` — the coefficients the `c` recurrence generates are the binomial coefficients `C(m+2, 2j+1)` -/
theorem DD2Inner_eq (e2 : ℝ) (m kmax : ℕ) (hm : m = 2 * kmax ∨ m + 1 = 2 * kmax) (k : ℕ) (hk : k ≤ kmax) :
    DD2Inner e2 m kmax k (((m + 2).choose (2 * (kmax - k) + 1) : ℕ) : ℝ) (hornerB e2 (m + 2) (kmax - k)) = hornerB e2 (m + 2) kmax := by
  induction k with
  | zero => simp [DD2Inner]
  | succ k ih =>
    have hk' : k ≤ kmax := by omega
    set J := kmax - k with hJ
    have hJ1 : 1 ≤ J := by omega
    have hJk : kmax - (k + 1) = J - 1 := by omega
    have hn : 2 * J + 1 ≤ m + 2 := by omega
    have hcr := choose_ratio (m + 2) J hJ1 hn
    rw [hJk]
    simp only [DD2Inner, ofInt_real]
    have hc : (((m + 2).choose (2 * (J - 1) + 1) : ℕ) : ℝ) *
          (((((k : ℤ) + 1) * (2 * ((k : ℤ) + (m : ℤ) - 2 * (kmax : ℤ)) + 3) : ℤ)) : ℝ) /
          (((((kmax : ℤ) - (k : ℤ)) * (2 * ((kmax : ℤ) - (k : ℤ)) + 1) : ℤ)) : ℝ) = (((m + 2).choose (2 * J + 1) : ℕ) : ℝ) := by
      have e1 : 2 * (J - 1) + 1 = 2 * J - 1 := by omega
      rw [e1]
      have hJr : (J : ℝ) = (kmax : ℝ) - (k : ℝ) := by rw [hJ, Nat.cast_sub hk']
      have hden : (((((kmax : ℤ) - (k : ℤ)) * (2 * ((kmax : ℤ) - (k : ℤ)) + 1) : ℤ)) : ℝ) = (J : ℝ) * (2 * J + 1) := by
        push_cast; rw [hJr]
      have hJpos : (0 : ℝ) < J := by exact_mod_cast hJ1
      have hnum : 2 * (((((k : ℤ) + 1) * (2 * ((k : ℤ) + (m : ℤ) - 2 * (kmax : ℤ)) + 3) : ℤ)) : ℝ) =
          (((m + 2 : ℕ) : ℝ) - 2 * J) * (((m + 2 : ℕ) : ℝ) - 2 * J + 1) := by
        push_cast; rw [hJr]
        rcases hm with h | h
        · have : (m : ℝ) = 2 * (kmax : ℝ) := by exact_mod_cast h
          rw [this]; ring
        · have : (m : ℝ) + 1 = 2 * (kmax : ℝ) := by exact_mod_cast h
          have hm' : (m : ℝ) = 2 * (kmax : ℝ) - 1 := by linarith
          rw [hm']; ring
      rw [hden, div_eq_iff (by positivity)]
      have : (((m + 2).choose (2 * J + 1) : ℕ) : ℝ) * ((J : ℝ) * (2 * J + 1)) = (((m + 2).choose (2 * J + 1) : ℕ) : ℝ) * ((2 * J : ℝ) * (2 * J + 1)) / 2 := by ring
      rw [this, hcr, ← hnum]; ring
    rw [hc]
    rw [hornerB_pred e2 (m + 2) J hJ1]
    exact ih hk'

/-- the coefficient polynomial of the `m`-th term as coded is the Horner sum of the binomial coefficients `C(m+2, 2j+1)` -/
theorem dd2Coef_eq (e2 : ℝ) (m : ℕ) : dd2Coef e2 m = hornerB e2 (m + 2) ((m + 1) / 2) := by
  unfold dd2Coef
  have hm : m = 2 * ((m + 1) / 2) ∨ m + 1 = 2 * ((m + 1) / 2) := by omega
  have h := DD2Inner_eq e2 m ((m + 1) / 2) hm ((m + 1) / 2) (le_refl _)
  simp only [Nat.sub_self, Nat.mul_zero, Nat.zero_add, Nat.choose_one_right, hornerB] at h
  rw [ofNat_real']
  exact h
/-- the even and the odd part of `(1 + e)ⁿ = P_n(e²) + e·R_n(e²)` -/
noncomputable def Psum (q : ℝ) (n : ℕ) : ℝ := ∑ i ∈ range (n + 1), (n.choose (2 * i) : ℝ) * q ^ i
noncomputable def Rsum (q : ℝ) (n : ℕ) : ℝ := ∑ i ∈ range (n + 1), (n.choose (2 * i + 1) : ℝ) * q ^ i

theorem hornerB_sum (q : ℝ) (n J : ℕ) : hornerB q n J = ∑ i ∈ range (J + 1), (n.choose (2 * i + 1) : ℝ) * q ^ (J - i) := by
  induction J with
  | zero => simp [hornerB]
  | succ J ih =>
    rw [hornerB, ih, sum_range_succ (n := J + 1), mul_sum]
    have : ∀ i ∈ range (J + 1), q * ((n.choose (2 * i + 1) : ℝ) * q ^ (J - i)) = (n.choose (2 * i + 1) : ℝ) * q ^ (J + 1 - i) := by
      intro i hi
      have hi' : i ≤ J := Nat.lt_succ_iff.mp (mem_range.mp hi)
      have : J + 1 - i = (J - i) + 1 := by omega
      rw [this, pow_succ]; ring
    rw [sum_congr rfl this]
    simp

/-- a sum over `range (n+1)` whose terms vanish from `K+1` on -/
theorem sum_range_trunc (f : ℕ → ℝ) (K n : ℕ) (hK : K ≤ n) (hz : ∀ i, K < i → f i = 0) :
    ∑ i ∈ range (n + 1), f i = ∑ i ∈ range (K + 1), f i := by
  have hsub : range (K + 1) ⊆ range (n + 1) := range_subset_range.mpr (by omega)
  symm
  apply sum_subset hsub
  intro i _ hi
  apply hz
  simp only [mem_range, not_lt] at hi
  omega

theorem hornerB_even (q : ℝ) (K : ℕ) : hornerB q (2 * K + 2) K = Rsum q (2 * K + 2) := by
  rw [hornerB_sum, Rsum, sum_range_trunc _ K (2 * K + 2) (by omega)]
  · rw [← sum_range_reflect]
    apply sum_congr rfl
    intro i hi
    have hi' : i ≤ K := Nat.lt_succ_iff.mp (mem_range.mp hi)
    have e1 : K + 1 - 1 - i = K - i := by omega
    have e2 : K - (K - i) = i := by omega
    rw [e1, e2]
    have : (2 * K + 2).choose (2 * (K - i) + 1) = (2 * K + 2).choose (2 * i + 1) := by
      rw [← Nat.choose_symm (by omega : 2 * i + 1 ≤ 2 * K + 2)]
      congr 1; omega
    rw [this]
  · intro i hi
    rw [Nat.choose_eq_zero_of_lt (by omega)]; simp

theorem hornerB_odd (q : ℝ) (K : ℕ) : hornerB q (2 * K + 1) K = Psum q (2 * K + 1) := by
  rw [hornerB_sum, Psum, sum_range_trunc _ K (2 * K + 1) (by omega)]
  · rw [← sum_range_reflect]
    apply sum_congr rfl
    intro i hi
    have hi' : i ≤ K := Nat.lt_succ_iff.mp (mem_range.mp hi)
    have e1 : K + 1 - 1 - i = K - i := by omega
    have e2 : K - (K - i) = i := by omega
    rw [e1, e2]
    have : (2 * K + 1).choose (2 * (K - i) + 1) = (2 * K + 1).choose (2 * i) := by
      rw [← Nat.choose_symm (by omega : 2 * i ≤ 2 * K + 1)]
      congr 1; omega
    rw [this]
  · intro i hi
    rw [Nat.choose_eq_zero_of_lt (by omega)]; simp

/-- Pascal's rule on the even and odd parts: `(1 + e)^(n+1) = (1 + e)(P_n + e R_n)` -/
theorem Rsum_succ (q : ℝ) (n : ℕ) : Rsum q (n + 1) = Psum q n + Rsum q n := by
  unfold Rsum Psum
  rw [sum_range_succ (n := n + 1)]
  have hlast : ((n + 1).choose (2 * (n + 1) + 1) : ℝ) = 0 := by
    rw [Nat.choose_eq_zero_of_lt (by omega)]; simp
  rw [hlast, zero_mul, add_zero, ← sum_add_distrib]
  apply sum_congr rfl
  intro i _
  rw [Nat.choose_succ_succ' n (2 * i)]
  push_cast; ring

theorem Psum_succ (q : ℝ) (n : ℕ) : Psum q (n + 1) = Psum q n + q * Rsum q n := by
  unfold Rsum Psum
  rw [sum_range_succ' (n := n + 1)]
  -- the i = 0 term is 1; shift the rest
  have h0 : ((n + 1).choose (2 * 0) : ℝ) * q ^ 0 = 1 := by simp
  rw [h0]
  have hshift : ∀ i ∈ range (n + 1), ((n + 1).choose (2 * (i + 1)) : ℝ) * q ^ (i + 1) =
      (n.choose (2 * (i + 1)) : ℝ) * q ^ (i + 1) + q * ((n.choose (2 * i + 1) : ℝ) * q ^ i) := by
    intro i _
    have : 2 * (i + 1) = (2 * i + 1) + 1 := by ring
    rw [this, Nat.choose_succ_succ' n (2 * i + 1)]
    push_cast; ring
  rw [sum_congr rfl hshift, sum_add_distrib, ← mul_sum]
  -- Σ_{i<n+1} C(n, 2(i+1)) q^(i+1) + 1 = Σ_{i<n+1} C(n, 2i) q^i   (the top term vanishes)
  have hP : ∑ i ∈ range (n + 1), (n.choose (2 * i) : ℝ) * q ^ i =
      ∑ i ∈ range (n + 1), (n.choose (2 * (i + 1)) : ℝ) * q ^ (i + 1) + 1 := by
    have h1 : ∑ i ∈ range (n + 1 + 1), (n.choose (2 * i) : ℝ) * q ^ i = ∑ i ∈ range (n + 1), (n.choose (2 * i) : ℝ) * q ^ i := by
      rw [sum_range_succ (n := n + 1)]
      rw [Nat.choose_eq_zero_of_lt (by omega : n < 2 * (n + 1))]; simp
    rw [← h1, sum_range_succ' (n := n + 1)]; simp
  rw [hP]; ring

/-- the norm identity `P_n² − q R_n² = (1 − q)ⁿ` -/
theorem PR_norm (q : ℝ) (n : ℕ) : Psum q n ^ 2 - q * Rsum q n ^ 2 = (1 - q) ^ n := by
  induction n with
  | zero => simp [Psum, Rsum]
  | succ n ih =>
    rw [Psum_succ, Rsum_succ, pow_succ (1 - q) n, ← ih]; ring

/-- `m` even: the coefficient polynomial is the odd part `R_{m+2}` of `(1 + e)^(m+2)` -/
theorem dd2Coef_even (q : ℝ) (K : ℕ) : dd2Coef q (2 * K) = Rsum q (2 * K + 2) := by
  rw [dd2Coef_eq]
  have : (2 * K + 1) / 2 = K := by omega
  rw [this]; exact hornerB_even q K

/-- `m` odd: the coefficient polynomial is the even part `P_{m+2}` of `(1 + e)^(m+2)` -/
theorem dd2Coef_odd (q : ℝ) (K : ℕ) : dd2Coef q (2 * K + 1) = Psum q (2 * K + 3) := by
  rw [dd2Coef_eq]
  have h1 : (2 * K + 1 + 1) / 2 = K + 1 := by omega
  have h2 : 2 * K + 1 + 2 = 2 * (K + 1) + 1 := by ring
  rw [h1, h2]; exact hornerB_odd q (K + 1)

/-- **two successive coefficient polynomials never vanish together** (for `e² ≠ 1`): a term of `DDatanhee2` can vanish identically, two
    successive terms cannot — the fact behind the repaired termination rule -/
theorem dd2Coef_no_two_zero (q : ℝ) (hq : q ≠ 1) (m : ℕ) : ¬ (dd2Coef q m = 0 ∧ dd2Coef q (m + 1) = 0) := by
  rintro ⟨h1, h2⟩
  have h1q : (1 : ℝ) - q ≠ 0 := sub_ne_zero.mpr (Ne.symm hq)
  rcases Nat.even_or_odd' m with ⟨K, rfl | rfl⟩
  · -- m = 2K: R_{2K+2} = 0 and P_{2K+3} = 0
    rw [dd2Coef_even] at h1
    rw [dd2Coef_odd, show 2 * K + 3 = (2 * K + 2) + 1 by ring, Psum_succ, h1, mul_zero, add_zero] at h2
    have hn := PR_norm q (2 * K + 2)
    rw [h1, h2] at hn
    have : (1 - q) ^ (2 * K + 2) = 0 := by rw [← hn]; ring
    exact h1q (pow_eq_zero_iff (by omega) |>.mp this)
  · -- m = 2K+1: P_{2K+3} = 0 and R_{2K+4} = 0
    rw [dd2Coef_odd] at h1
    rw [show 2 * K + 1 + 1 = 2 * (K + 1) by ring, dd2Coef_even, show 2 * (K + 1) + 2 = (2 * K + 3) + 1 by ring, Rsum_succ, h1, zero_add] at h2
    have hn := PR_norm q (2 * K + 3)
    rw [h1, h2] at hn
    have : (1 - q) ^ (2 * K + 3) = 0 := by rw [← hn]; ring
    exact h1q (pow_eq_zero_iff (by omega) |>.mp this)

/-- at `e² = −3` the pair `(P, R)` returns to the real axis every third step: `(1 + i√3)³ = −8` -/
theorem PR_at_minus_three (k : ℕ) : Psum (-3 : ℝ) (3 * k) = (-8) ^ k ∧ Rsum (-3 : ℝ) (3 * k) = 0 := by
  induction k with
  | zero => simp [Psum, Rsum]
  | succ k ih =>
    obtain ⟨hp, hr⟩ := ih
    have e : 3 * (k + 1) = 3 * k + 1 + 1 + 1 := by ring
    rw [e]
    constructor
    · simp only [Psum_succ, Rsum_succ, hp, hr]; ring
    · simp only [Psum_succ, Rsum_succ, hp, hr]; ring

/-- **for `f = −1` (`e² = −3`) every sixth term of `DDatanhee2` vanishes identically**: `m = 4, 10, 16, …` (finding F61) -/
theorem dd2Coef_minus_three (k : ℕ) : dd2Coef (-3 : ℝ) (6 * k + 4) = 0 := by
  have h : 6 * k + 4 = 2 * (3 * k + 2) := by ring
  rw [h, dd2Coef_even]
  have h2 : 2 * (3 * k + 2) + 2 = 3 * (2 * k + 2) := by ring
  rw [h2]; exact (PR_at_minus_three (2 * k + 2)).2

/-! ### the terms and partial sums of `DDatanhee2` -/

/-- `ee = (−1)^m e2^(⌊m/2⌋+1)/(1 − e2)^(m+2)` -/
noncomputable def dd2ee (q e2m : ℝ) (m : ℕ) : ℝ := (-1) ^ m * q ^ (m / 2 + 1) / e2m ^ (m + 2)

/-- the `m`-th term `t·ee·xy/(m + 2)`, `xy = Σ_{i+j=m} dxⁱ dyʲ` -/
noncomputable def dd2Term (q e2m dx dy : ℝ) (m : ℕ) : ℝ := dd2Coef q m * dd2ee q e2m m * hsym dy dx m / ((m + 2 : ℕ) : ℝ)

/-- the partial sums (the leading term `m = 0` is `e2/(1 − e2)²`) -/
noncomputable def dd2Sum (q e2m dx dy : ℝ) : ℕ → ℝ
  | 0 => dd2ee q e2m 0
  | m + 1 => dd2Sum q e2m dx dy m + dd2Term q e2m dx dy (m + 1)

/-- the state of the loop of `DDatanhee2` when the terms up to `m` have been added and `ns` negligible terms have just been seen -/
noncomputable def dd2State (q e2m dx dy : ℝ) (m ns : ℕ) : DD2St ℝ :=
  ⟨m + 1, hsym dy dx m, dy ^ m, dd2ee q e2m m, dd2Sum q e2m dx dy m, ns⟩

/-- term `m` is negligible: `¬(|s|·ε/2 < |ds|)` for the partial sum `s` that already contains it -/
def dd2Negl (q e2m dx dy : ℝ) (m : ℕ) : Prop :=
  ¬ (|dd2Sum q e2m dx dy m| * (eps : ℝ) / 2 < |dd2Term q e2m dx dy m|)

theorem dd2ee_succ (q e2m : ℝ) (he : e2m ≠ 0) (m : ℕ) :
    (if (m + 1) % 2 == 0 then dd2ee q e2m m / (-e2m) * q else dd2ee q e2m m / (-e2m)) = dd2ee q e2m (m + 1) := by
  unfold dd2ee
  rcases Nat.even_or_odd' m with ⟨K, rfl | rfl⟩
  · have h1 : (2 * K + 1) % 2 = 1 := by omega
    have h2 : (2 * K + 1) / 2 = K := by omega
    have h3 : 2 * K / 2 = K := by omega
    simp only [h1, h2, h3]
    rw [if_neg (by decide)]
    rw [pow_succ (-1 : ℝ) (2 * K), pow_succ e2m (2 * K + 2)]
    field_simp
  · have h1 : (2 * K + 1 + 1) % 2 = 0 := by omega
    have h2 : (2 * K + 1 + 1) / 2 = K + 1 := by omega
    have h3 : (2 * K + 1) / 2 = K := by omega
    simp only [h1, h2, h3]
    rw [if_pos (by decide)]
    rw [pow_succ (-1 : ℝ) (2 * K + 1), pow_succ e2m (2 * K + 1 + 2), pow_succ q (K + 1)]
    field_simp

/-- **one iteration of the loop of `DDatanhee2`** on the state after `m` terms -/
theorem dd2_step (E : Ell ℝ) (dx dy : ℝ) (he : E.e2m ≠ 0) (m ns fuel : ℕ) :
    DDatanhee2Loop E dx dy (fuel + 1) (dd2State E.e2 E.e2m dx dy m ns) =
      (if |dd2Sum E.e2 E.e2m dx dy (m + 1)| * (eps : ℝ) / 2 < |dd2Term E.e2 E.e2m dx dy (m + 1)| then
          DDatanhee2Loop E dx dy fuel (dd2State E.e2 E.e2m dx dy (m + 1) 0)
       else if ns + 1 = 2 then dd2Sum E.e2 E.e2m dx dy (m + 1)
       else DDatanhee2Loop E dx dy fuel (dd2State E.e2 E.e2m dx dy (m + 1) (ns + 1))) := by
  have hxy : dx * hsym dy dx m + dy ^ m * dy = hsym dy dx (m + 1) := by simp only [hsym]; ring
  have hyy : dy ^ m * dy = dy ^ (m + 1) := by ring
  have hee := dd2ee_succ E.e2 E.e2m he m
  have hterm : dd2Coef E.e2 (m + 1) * dd2ee E.e2 E.e2m (m + 1) * hsym dy dx (m + 1) / ((m + 1 + 2 : ℕ) : ℝ) =
      dd2Term E.e2 E.e2m dx dy (m + 1) := rfl
  simp only [DDatanhee2Loop, dd2State, ltb_real, abs_real, ofNat_real', beq_iff_eq]
  rw [hxy, hyy]
  have hee' : (if (m + 1) % 2 = 0 then dd2ee E.e2 E.e2m m / -E.e2m * E.e2 else dd2ee E.e2 E.e2m m / -E.e2m) = dd2ee E.e2 E.e2m (m + 1) := by
    have := hee
    simp only [beq_iff_eq] at this
    exact this
  rw [hee', hterm]
  simp only [dd2Sum, decide_eq_true_eq]
  rfl

/-- **`DDatanhee2` stops only after two successive negligible terms** (or when its fuel, 400 terms, is exhausted), and the value it
    returns is a partial sum `Σ_{j ≤ M} C_j·(dx^(j+1) − dy^(j+1))/(dx − dy)` of the Taylor series -/
theorem dd2_loop_spec (E : Ell ℝ) (dx dy : ℝ) (he : E.e2m ≠ 0) (fuel m ns : ℕ) (hns : ns ≤ 1) :
    ∃ M, m ≤ M ∧ M ≤ m + fuel ∧
      DDatanhee2Loop E dx dy fuel (dd2State E.e2 E.e2m dx dy m ns) = dd2Sum E.e2 E.e2m dx dy M ∧
      (M = m + fuel ∨ (m + 1 ≤ M ∧ dd2Negl E.e2 E.e2m dx dy M ∧ (if M = m + 1 then ns = 1 else dd2Negl E.e2 E.e2m dx dy (M - 1)))) := by
  induction fuel generalizing m ns with
  | zero => exact ⟨m, le_refl _, le_refl _, by simp [DDatanhee2Loop, dd2State], Or.inl rfl⟩
  | succ fuel ih =>
    rw [dd2_step E dx dy he]
    by_cases hbig : |dd2Sum E.e2 E.e2m dx dy (m + 1)| * (eps : ℝ) / 2 < |dd2Term E.e2 E.e2m dx dy (m + 1)|
    · rw [if_pos hbig]
      obtain ⟨M, h1, h2, h3, h4⟩ := ih (m + 1) 0 (by omega)
      refine ⟨M, by omega, by omega, h3, ?_⟩
      rcases h4 with h4 | ⟨h5, h6, h7⟩
      · left; omega
      · right
        refine ⟨by omega, h6, ?_⟩
        have hM : M ≠ m + 1 := by omega
        rw [if_neg hM]
        by_cases hM2 : M = m + 1 + 1
        · rw [if_pos hM2] at h7; omega
        · rw [if_neg hM2] at h7; exact h7
    · rw [if_neg hbig]
      have hnegl : dd2Negl E.e2 E.e2m dx dy (m + 1) := hbig
      by_cases h2 : ns + 1 = 2
      · rw [if_pos h2]
        refine ⟨m + 1, by omega, by omega, rfl, Or.inr ⟨le_refl _, hnegl, ?_⟩⟩
        rw [if_pos rfl]; omega
      · rw [if_neg h2]
        have hns0 : ns = 0 := by omega
        obtain ⟨M, h1, h2', h3, h4⟩ := ih (m + 1) (ns + 1) (by omega)
        refine ⟨M, by omega, by omega, h3, ?_⟩
        rcases h4 with h4 | ⟨h5, h6, h7⟩
        · left; omega
        · right
          refine ⟨by omega, h6, ?_⟩
          have hM : M ≠ m + 1 := by omega
          rw [if_neg hM]
          by_cases hM2 : M = m + 1 + 1
          · have : M - 1 = m + 1 := by omega
            rw [this]; exact hnegl
          · rw [if_neg hM2] at h7; exact h7

/-! ### the coefficients are the Taylor coefficients of the limit -/

/-- `e^(n−1)·((1+e)ⁿ − (e−1)ⁿ)/2` as a polynomial in `q = e²`: `R_n q^(n/2)` for even `n`, `P_n q^((n−1)/2)` for odd `n` -/
noncomputable def wseq (q : ℝ) (n : ℕ) : ℝ := if n % 2 = 0 then Rsum q n * q ^ (n / 2) else Psum q n * q ^ (n / 2)

theorem wseq_rec (q : ℝ) (n : ℕ) : wseq q (n + 2) = 2 * q * wseq q (n + 1) + q * (1 - q) * wseq q n := by
  rcases Nat.even_or_odd' n with ⟨K, rfl | rfl⟩
  · have h0 : (2 * K) % 2 = 0 := by omega
    have h1 : (2 * K + 1) % 2 = 1 := by omega
    have h2 : (2 * K + 2) % 2 = 0 := by omega
    have d0 : 2 * K / 2 = K := by omega
    have d1 : (2 * K + 1) / 2 = K := by omega
    have d2 : (2 * K + 2) / 2 = K + 1 := by omega
    simp only [wseq, h0, h1, h2, d0, d1, d2, if_true, one_ne_zero, if_false]
    have a := Rsum_succ q (2 * K + 1)
    have b := Psum_succ q (2 * K)
    have c := Rsum_succ q (2 * K)
    rw [show 2 * K + 1 + 1 = 2 * K + 2 by ring] at a
    rw [pow_succ]
    linear_combination (q ^ K * q) * a - (q ^ K * q) * b + (q ^ K * q) * c
  · have h0 : (2 * K + 1) % 2 = 1 := by omega
    have h1 : (2 * K + 1 + 1) % 2 = 0 := by omega
    have h2 : (2 * K + 1 + 2) % 2 = 1 := by omega
    have d0 : (2 * K + 1) / 2 = K := by omega
    have d1 : (2 * K + 1 + 1) / 2 = K + 1 := by omega
    have d2 : (2 * K + 1 + 2) / 2 = K + 1 := by omega
    simp only [wseq, h0, h1, h2, d0, d1, d2, if_true, one_ne_zero, if_false]
    have a := Psum_succ q (2 * K + 1 + 1)
    have b := Psum_succ q (2 * K + 1)
    have c := Rsum_succ q (2 * K + 1)
    rw [show 2 * K + 1 + 1 + 1 = 2 * K + 1 + 2 by ring] at a
    rw [pow_succ]
    linear_combination (q ^ K * q) * a + (q ^ K * q) * b - (q ^ K * q ^ 2) * c

theorem dd2Coef_wseq (q : ℝ) (m : ℕ) : dd2Coef q m * q ^ (m / 2 + 1) = wseq q (m + 2) := by
  rcases Nat.even_or_odd' m with ⟨K, rfl | rfl⟩
  · rw [dd2Coef_even]
    have h2 : (2 * K + 2) % 2 = 0 := by omega
    have d2 : (2 * K + 2) / 2 = K + 1 := by omega
    have d0 : 2 * K / 2 = K := by omega
    simp only [wseq, h2, d2, d0, if_true]
  · rw [dd2Coef_odd]
    have h2 : (2 * K + 1 + 2) % 2 = 1 := by omega
    have d2 : (2 * K + 1 + 2) / 2 = K + 1 := by omega
    have d0 : (2 * K + 1) / 2 = K := by omega
    simp only [wseq, h2, d2, d0, one_ne_zero, if_false]

/-- the coefficients `a_j` with `Σ a_j dʲ = 1/(1 − q(1 − d)²)` as generated by the code: `a_0 = 1/(1−q)`, `a_{m+1} = −t_m·ee_m` -/
noncomputable def dd2A (q : ℝ) : ℕ → ℝ
  | 0 => 1 / (1 - q)
  | m + 1 => -(dd2Coef q m * dd2ee q (1 - q) m)

theorem dd2A_eq (q : ℝ) (j : ℕ) : dd2A q j = (-1) ^ j * wseq q (j + 1) / (1 - q) ^ (j + 1) := by
  cases j with
  | zero => simp [dd2A, wseq, Psum, Finset.sum_range_succ]
  | succ m =>
    simp only [dd2A, dd2ee]
    rw [← dd2Coef_wseq]
    rw [pow_succ (-1 : ℝ) m]
    ring

/-- **the coefficients generated by the `c`/`t`/`ee` recurrences of `DDatanhee2` are the Taylor coefficients of
    `d ↦ 1/(1 − e²(1 − d)²)`** (the derivative of `atanhee` at `1 − d`): `(Σ_j a_j dʲ)·((1 − q) + 2q d − q d²) = 1` coefficient by coefficient,
    for every `m` -/
theorem dd2A_taylor (q : ℝ) (hq : q ≠ 1) :
    (1 - q) * dd2A q 0 = 1 ∧ (1 - q) * dd2A q 1 + 2 * q * dd2A q 0 = 0 ∧
      ∀ j, (1 - q) * dd2A q (j + 2) + 2 * q * dd2A q (j + 1) - q * dd2A q j = 0 := by
  have h1q : (1 : ℝ) - q ≠ 0 := sub_ne_zero.mpr (Ne.symm hq)
  refine ⟨by simp only [dd2A]; field_simp, ?_, fun j => ?_⟩
  · rw [dd2A_eq, dd2A_eq]
    have w2 : wseq q 2 = 2 * q := by
      have : Rsum q 2 = 2 := by norm_num [Rsum, Finset.sum_range_succ, Nat.choose]
      simp only [wseq, this]; norm_num
    have w1 : wseq q 1 = 1 := by
      have : Psum q 1 = 1 := by norm_num [Psum, Finset.sum_range_succ, Nat.choose]
      simp only [wseq, this]; norm_num
    rw [w2, w1]; field_simp; ring
  · rw [dd2A_eq, dd2A_eq, dd2A_eq, wseq_rec q (j + 1)]
    have e1 : (-1 : ℝ) ^ (j + 2) = (-1) ^ j := by rw [pow_add]; norm_num
    have e2 : (-1 : ℝ) ^ (j + 1) = -(-1) ^ j := by rw [pow_succ]; ring
    rw [e1, e2, show j + 2 + 1 = (j + 1) + 1 + 1 by ring, pow_succ (1 - q) (j + 1 + 1), pow_succ (1 - q) (j + 1)]
    field_simp
    ring

/-! ### the rule repaired by 9562c37 stopped at the first negligible term -/

/-- one iteration of the old loop -/
theorem dd2old_step (E : Ell ℝ) (dx dy : ℝ) (he : E.e2m ≠ 0) (m ns fuel : ℕ) :
    DDatanhee2LoopOld E dx dy (fuel + 1) (dd2State E.e2 E.e2m dx dy m ns) =
      (if |dd2Sum E.e2 E.e2m dx dy (m + 1)| * (eps : ℝ) / 2 < |dd2Term E.e2 E.e2m dx dy (m + 1)| then
          DDatanhee2LoopOld E dx dy fuel (dd2State E.e2 E.e2m dx dy (m + 1) 0)
       else dd2Sum E.e2 E.e2m dx dy (m + 1)) := by
  have hxy : dx * hsym dy dx m + dy ^ m * dy = hsym dy dx (m + 1) := by simp only [hsym]; ring
  have hyy : dy ^ m * dy = dy ^ (m + 1) := by ring
  have hee := dd2ee_succ E.e2 E.e2m he m
  have hterm : dd2Coef E.e2 (m + 1) * dd2ee E.e2 E.e2m (m + 1) * hsym dy dx (m + 1) / ((m + 1 + 2 : ℕ) : ℝ) =
      dd2Term E.e2 E.e2m dx dy (m + 1) := rfl
  simp only [DDatanhee2LoopOld, dd2State, ltb_real, abs_real, ofNat_real', beq_iff_eq]
  rw [hxy, hyy]
  have hee' : (if (m + 1) % 2 = 0 then dd2ee E.e2 E.e2m m / -E.e2m * E.e2 else dd2ee E.e2 E.e2m m / -E.e2m) = dd2ee E.e2 E.e2m (m + 1) := by
    have := hee
    simp only [beq_iff_eq] at this
    exact this
  rw [hee', hterm]
  simp only [dd2Sum, decide_eq_true_eq]
  by_cases h : |dd2Sum E.e2 E.e2m dx dy m + dd2Term E.e2 E.e2m dx dy (m + 1)| * eps / 2 < |dd2Term E.e2 E.e2m dx dy (m + 1)|
  · simp only [h, decide_true, Bool.not_true, Bool.false_eq_true, if_false, if_true]
  · simp only [h, decide_false, Bool.not_false, if_true, if_false]

/-- `(P_n, R_n)` at `e² = −3` for `n ≤ 7` -/
theorem PR_minus_three_values :
    Psum (-3 : ℝ) 3 = -8 ∧ Rsum (-3 : ℝ) 4 = -8 ∧ Psum (-3 : ℝ) 5 = 16 ∧ Rsum (-3 : ℝ) 6 = 0 ∧ Psum (-3 : ℝ) 7 = 64 := by
  have p0 : Psum (-3 : ℝ) 0 = 1 := by norm_num [Psum, Finset.sum_range_succ, Nat.choose]
  have r0 : Rsum (-3 : ℝ) 0 = 0 := by norm_num [Rsum, Finset.sum_range_succ, Nat.choose]
  have p1 : Psum (-3 : ℝ) 1 = 1 := by rw [Psum_succ, p0, r0]; norm_num
  have r1 : Rsum (-3 : ℝ) 1 = 1 := by rw [Rsum_succ, p0, r0]; norm_num
  have p2 : Psum (-3 : ℝ) 2 = -2 := by rw [Psum_succ, p1, r1]; norm_num
  have r2 : Rsum (-3 : ℝ) 2 = 2 := by rw [Rsum_succ, p1, r1]; norm_num
  have p3 : Psum (-3 : ℝ) 3 = -8 := by rw [Psum_succ, p2, r2]; norm_num
  have r3 : Rsum (-3 : ℝ) 3 = 0 := by rw [Rsum_succ, p2, r2]; norm_num
  have p4 : Psum (-3 : ℝ) 4 = -8 := by rw [Psum_succ, p3, r3]; norm_num
  have r4 : Rsum (-3 : ℝ) 4 = -8 := by rw [Rsum_succ, p3, r3]; norm_num
  have p5 : Psum (-3 : ℝ) 5 = 16 := by rw [Psum_succ, p4, r4]; norm_num
  have r5 : Rsum (-3 : ℝ) 5 = -16 := by rw [Rsum_succ, p4, r4]; norm_num
  have p6 : Psum (-3 : ℝ) 6 = 64 := by rw [Psum_succ, p5, r5]; norm_num
  have r6 : Rsum (-3 : ℝ) 6 = 0 := by rw [Rsum_succ, p5, r5]; norm_num
  have p7 : Psum (-3 : ℝ) 7 = 64 := by rw [Psum_succ, p6, r6]; norm_num
  exact ⟨p3, r4, p5, r6, p7⟩

/-- the terms of `DDatanhee2` for `f = −1` (`e² = −3`, `1 − e² = 4`) at `x = y = 3/4` -/
theorem dd2_terms_minus_three :
    dd2Sum (-3 : ℝ) 4 (1 / 4) (1 / 4) 0 = -3 / 16 ∧ dd2Term (-3 : ℝ) 4 (1 / 4) (1 / 4) 1 = -1 / 16 ∧
    dd2Term (-3 : ℝ) 4 (1 / 4) (1 / 4) 2 = -27 / 2048 ∧ dd2Term (-3 : ℝ) 4 (1 / 4) (1 / 4) 3 = -9 / 5120 ∧
    dd2Term (-3 : ℝ) 4 (1 / 4) (1 / 4) 4 = 0 ∧ dd2Term (-3 : ℝ) 4 (1 / 4) (1 / 4) 5 = 81 / 917504 := by
  obtain ⟨p3, r4, p5, r6, p7⟩ := PR_minus_three_values
  have c1 : dd2Coef (-3 : ℝ) 1 = -8 := by have := dd2Coef_odd (-3 : ℝ) 0; simpa [p3] using this
  have c2 : dd2Coef (-3 : ℝ) 2 = -8 := by have := dd2Coef_even (-3 : ℝ) 1; simpa [r4] using this
  have c3 : dd2Coef (-3 : ℝ) 3 = 16 := by have := dd2Coef_odd (-3 : ℝ) 1; simpa [p5] using this
  have c4 : dd2Coef (-3 : ℝ) 4 = 0 := by have := dd2Coef_even (-3 : ℝ) 2; simpa [r6] using this
  have c5 : dd2Coef (-3 : ℝ) 5 = 64 := by have := dd2Coef_odd (-3 : ℝ) 2; simpa [p7] using this
  refine ⟨?_, ?_, ?_, ?_, ?_, ?_⟩
  · norm_num [dd2Sum, dd2ee]
  · simp only [dd2Term, c1, dd2ee, hsym]; norm_num
  · simp only [dd2Term, c2, dd2ee, hsym]; norm_num
  · simp only [dd2Term, c3, dd2ee, hsym]; norm_num
  · simp only [dd2Term, c4, dd2ee, hsym]; norm_num
  · simp only [dd2Term, c5, dd2ee, hsym]; norm_num

/-- partial sums and (non-)negligible terms of `DDatanhee2` for `f = −1` at `x = y = 3/4` -/
theorem dd2_minus_three_facts :
    dd2Sum (-3 : ℝ) 4 (1 / 4) (1 / 4) 3 = -2713 / 10240 ∧ dd2Sum (-3 : ℝ) 4 (1 / 4) (1 / 4) 4 = -2713 / 10240 ∧
    ¬ dd2Negl (-3 : ℝ) 4 (1 / 4) (1 / 4) 1 ∧ ¬ dd2Negl (-3 : ℝ) 4 (1 / 4) (1 / 4) 2 ∧ ¬ dd2Negl (-3 : ℝ) 4 (1 / 4) (1 / 4) 3 ∧
    dd2Negl (-3 : ℝ) 4 (1 / 4) (1 / 4) 4 ∧ ¬ dd2Negl (-3 : ℝ) 4 (1 / 4) (1 / 4) 5 := by
  obtain ⟨s0, t1, t2, t3, t4, t5⟩ := dd2_terms_minus_three
  have s1 : dd2Sum (-3 : ℝ) 4 (1 / 4) (1 / 4) 1 = -1 / 4 := by rw [dd2Sum, s0, t1]; norm_num
  have s2 : dd2Sum (-3 : ℝ) 4 (1 / 4) (1 / 4) 2 = -539 / 2048 := by rw [dd2Sum, s1, t2]; norm_num
  have s3 : dd2Sum (-3 : ℝ) 4 (1 / 4) (1 / 4) 3 = -2713 / 10240 := by rw [dd2Sum, s2, t3]; norm_num
  have s4 : dd2Sum (-3 : ℝ) 4 (1 / 4) (1 / 4) 4 = -2713 / 10240 := by rw [dd2Sum, s3, t4]; norm_num
  have s5 : dd2Sum (-3 : ℝ) 4 (1 / 4) (1 / 4) 5 = -2713 / 10240 + 81 / 917504 := by rw [dd2Sum, s4, t5]
  have heps : (eps : ℝ) = 1 / 4503599627370496 := by simp only [eps, one_real, ofNat_real']; norm_num
  refine ⟨s3, s4, ?_, ?_, ?_, ?_, ?_⟩
  · simp only [dd2Negl, not_not, s1, t1, heps]; rw [abs_of_neg (by norm_num), abs_of_neg (by norm_num)]; norm_num
  · simp only [dd2Negl, not_not, s2, t2, heps]; rw [abs_of_neg (by norm_num), abs_of_neg (by norm_num)]; norm_num
  · simp only [dd2Negl, not_not, s3, t3, heps]; rw [abs_of_neg (by norm_num), abs_of_neg (by norm_num)]; norm_num
  · simp only [dd2Negl, s4, t4, heps]; rw [abs_of_neg (by norm_num)]; norm_num
  · simp only [dd2Negl, not_not, s5, t5, heps]; rw [abs_of_neg (by norm_num), abs_of_pos (by norm_num)]; norm_num

theorem ell_minus_one : (⟨1, -1⟩ : Ell ℝ).e2 = -3 ∧ (⟨1, -1⟩ : Ell ℝ).e2m = 4 := by
  constructor
  · simp only [Ell.e2, two_real]; norm_num
  · simp only [Ell.e2m, Ell.e2, one_real, two_real]; norm_num

/-- **the old rule stops at the identically vanishing term**: for `f = −1`, `x = y = 3/4` the loop of the code before 9562c37 returns the
    sum of the terms `m ≤ 3` although term 5 is not negligible -/
theorem dd2_old_rule_stops_early :
    DDatanhee2LoopOld (⟨1, -1⟩ : Ell ℝ) (1 / 4) (1 / 4) 400 (dd2State (-3) 4 (1 / 4) (1 / 4) 0 0) = dd2Sum (-3 : ℝ) 4 (1 / 4) (1 / 4) 3 ∧
      ¬ dd2Negl (-3 : ℝ) 4 (1 / 4) (1 / 4) 5 := by
  obtain ⟨he2, he2m⟩ := ell_minus_one
  obtain ⟨s3, s4, n1, n2, n3, n4, n5⟩ := dd2_minus_three_facts
  have he : (⟨1, -1⟩ : Ell ℝ).e2m ≠ 0 := by rw [he2m]; norm_num
  refine ⟨?_, n5⟩
  have st := dd2old_step (⟨1, -1⟩ : Ell ℝ) (1 / 4) (1 / 4) he
  rw [he2, he2m] at st
  simp only [dd2Negl, not_not] at n1 n2 n3
  rw [show (400 : ℕ) = 399 + 1 by norm_num, st 0 0 399, if_pos n1]
  rw [show (399 : ℕ) = 398 + 1 by norm_num, st 1 0 398, if_pos n2]
  rw [show (398 : ℕ) = 397 + 1 by norm_num, st 2 0 397, if_pos n3]
  rw [show (397 : ℕ) = 396 + 1 by norm_num, st 3 0 396, if_neg n4, s4, s3]

/-- **the repaired rule does not**: on the same input the loop of the code runs at least to term 6 -/
theorem dd2_new_rule_continues :
    ∃ M, 6 ≤ M ∧ DDatanhee2Loop (⟨1, -1⟩ : Ell ℝ) (1 / 4) (1 / 4) 400 (dd2State (-3) 4 (1 / 4) (1 / 4) 0 0) = dd2Sum (-3 : ℝ) 4 (1 / 4) (1 / 4) M := by
  obtain ⟨he2, he2m⟩ := ell_minus_one
  obtain ⟨s3, s4, n1, n2, n3, n4, n5⟩ := dd2_minus_three_facts
  have he : (⟨1, -1⟩ : Ell ℝ).e2m ≠ 0 := by rw [he2m]; norm_num
  have sp := dd2_loop_spec (⟨1, -1⟩ : Ell ℝ) (1 / 4) (1 / 4) he 400 0 0 (by omega)
  rw [he2, he2m] at sp
  obtain ⟨M, h1, h2, h3, h4⟩ := sp
  refine ⟨M, ?_, h3⟩
  rcases h4 with h4 | ⟨h5, h6, h7⟩
  · omega
  · by_contra hlt
    have hM : M ≤ 5 := by omega
    have hc : M = 1 ∨ M = 2 ∨ M = 3 ∨ M = 4 ∨ M = 5 := by omega
    rcases hc with rfl | rfl | rfl | rfl | rfl
    · simp at h7
    · exact n2 h6
    · exact n3 h6
    · simp only [show (4 : ℕ) ≠ 0 + 1 by norm_num, if_false] at h7; exact n3 h7
    · exact n5 h6

/-! ### the top-level functions start the loops in the states `dd1State … 0`, `dd2State … 0 0` -/

theorem DDatanhee1_eq (E : Ell ℝ) (x y : ℝ) : DDatanhee1 E x y = DDatanhee1Loop E x y 400 (dd1State E.e2 x y 0) := by
  rw [dd1State_zero]; simp only [DDatanhee1, one_real, zero_real]

theorem DDatanhee2_eq (E : Ell ℝ) (x y : ℝ) :
    DDatanhee2 E x y = DDatanhee2Loop E (1 - x) (1 - y) 400 (dd2State E.e2 E.e2m (1 - x) (1 - y) 0 0) := by
  have h : dd2State E.e2 E.e2m (1 - x) (1 - y) 0 0 = ⟨1, 1, 1, E.e2 / E.e2m ^ 2, E.e2 / E.e2m ^ 2, 0⟩ := by
    simp [dd2State, hsym, dd2ee, dd2Sum]
  rw [h]; simp only [DDatanhee2, one_real, sq_real]

end GeoVerif.Proofs.ConicSeries
