import GeoVerif.Proofs.TwoSum
import GeoVerif.Model.MathG
/-!
# Lemmas about the degree-function models (`Model/MathG.lean`)
-/
namespace GeoVerif
open Dy

namespace MathF
open F64

/-! ## the exact special values -/

theorem sqrtHalf_val : sqrtHalf.val = 6369051672525773 * (2:ℚ) ^ (-53:ℤ) := by
  have h : sqrtHalf.toDy.m = 6369051672525773 ∧ sqrtHalf.toDy.e = -53 := by decide +kernel
  unfold F64.val Dy.val; rw [h.1, h.2]; norm_num

theorem sqrt3Half_val : sqrt3Half.val = 7800463371553962 * (2:ℚ) ^ (-53:ℤ) := by
  have h : sqrt3Half.toDy.m = 7800463371553962 ∧ sqrt3Half.toDy.e = -53 := by decide +kernel
  unfold F64.val Dy.val; rw [h.1, h.2]; norm_num

theorem half_val : half.val = 1 / 2 := by
  have h : half.toDy.m = 4503599627370496 ∧ half.toDy.e = -53 := by decide +kernel
  unfold F64.val Dy.val; rw [h.1, h.2]; norm_num

theorem qd_val : qd.val = 90 := by
  show (F64.fin false 90 0).val = 90; rw [F64.val_fin]; simp

/-! ## the special-value branches are taken exactly at ±45° and ±30° -/

theorem abs_fin_isRep (s : Bool) (m : ℕ) (e : ℤ) (h : IsRep (F64.fin s m e)) : IsRep (F64.abs (F64.fin s m e)) := by
  refine ⟨rfl, ?_⟩
  rw [F64.val_abs_fin]
  rcases abs_cases (F64.fin s m e).val with ⟨e1, _⟩ | ⟨e1, _⟩ <;> rw [e1]
  · exact h.2
  · exact h.2.neg

/-- small-integer multiple of a finite number: correctly rounded, finite -/
theorem natmul_rn (n : ℕ) (hn : (n:ℚ) ≤ 4) (s : Bool) (m : ℕ) (e : ℤ) (hb : |(F64.fin s m e).val| ≤ (2:ℚ) ^ (1000:ℤ)) :
    ((F64.ofNat n) * F64.abs (F64.fin s m e)).isFinite = true ∧
    RN ((n:ℚ) * |(F64.fin s m e).val|) ((F64.ofNat n) * F64.abs (F64.fin s m e)).val := by
  obtain ⟨r, hr, hf⟩ := F64.mul_fin_isRN false false n m 0 e
  have hv1 : (F64.fin false n 0).val = n := by rw [F64.val_fin]; simp
  have hv2 : (F64.fin false m e).val = |(F64.fin s m e).val| := F64.val_abs_fin s m e
  rw [hv1, hv2] at hr
  have hle : |r| ≤ (2:ℚ) ^ (1002:ℤ) := by
    apply RN.abs_le_zpow hr 1002 (by norm_num)
    rw [abs_mul, abs_abs]
    have h4 : (2:ℚ) ^ (1002:ℤ) = (2:ℚ) ^ (2:ℤ) * (2:ℚ) ^ (1000:ℤ) := by
      have e : (1002:ℤ) = 2 + 1000 := by norm_num
      rw [e, Dy.two_zpow_split]
    have h22 : (2:ℚ) ^ (2:ℤ) = 4 := by norm_num
    rw [h4, h22]
    generalize (2:ℚ) ^ (1000:ℤ) = B at *
    have hn0 : |(n:ℚ)| = n := abs_of_nonneg (Nat.cast_nonneg n)
    rw [hn0]
    exact mul_le_mul hn hb (abs_nonneg _) (by norm_num)
  have hlt : |r| < (2:ℚ) ^ (1024:ℤ) := lt_of_le_of_lt hle (Dy.two_zpow_lt_iff.mpr (by norm_num))
  obtain ⟨h1, h2⟩ := hf hlt
  refine ⟨h1, ?_⟩
  show RN _ (F64.fin false n 0 * F64.fin false m e).val
  rw [h2]; exact hr

theorem rep90 : Rep (90:ℚ) := ⟨90, 0, by norm_num, by norm_num, by norm_num⟩

/-- `2 * fabs(d) == qd` holds exactly when `|d| = 45` -/
theorem eq_two_abs_iff (s : Bool) (m : ℕ) (e : ℤ) (h : IsRep (F64.fin s m e)) (hb : |(F64.fin s m e).val| ≤ (2:ℚ) ^ (1000:ℤ)) :
    F64.eq ((2 : F64) * F64.abs (F64.fin s m e)) qd = true ↔ |(F64.fin s m e).val| = 45 := by
  obtain ⟨hf0, hr0⟩ := natmul_rn 2 (by norm_num) s m e hb
  have hf : ((2 : F64) * F64.abs (F64.fin s m e)).isFinite = true := hf0
  have hr : RN (((2:ℕ):ℚ) * |(F64.fin s m e).val|) ((2 : F64) * F64.abs (F64.fin s m e)).val := hr0
  have hrep : Rep ((2:ℚ) * |(F64.fin s m e).val|) := by
    have := (abs_fin_isRep s m e h).2; rw [F64.val_abs_fin] at this; exact this.two_mul
  have hv : ((2 : F64) * F64.abs (F64.fin s m e)).val = 2 * |(F64.fin s m e).val| := by
    have := hrep.rn_eq hr; exact_mod_cast this
  rw [F64.eq_fin_iff _ _ hf rfl, hv, qd_val]
  constructor <;> intro h1 <;> linarith

/-- `3 * fabs(d) == qd` holds exactly when `|d| = 30` (the product is rounded, but no other binary64 number rounds to 90) -/
theorem eq_three_abs_iff (s : Bool) (m : ℕ) (e : ℤ) (h : IsRep (F64.fin s m e)) (hb : |(F64.fin s m e).val| ≤ (2:ℚ) ^ (1000:ℤ)) :
    F64.eq ((3 : F64) * F64.abs (F64.fin s m e)) qd = true ↔ |(F64.fin s m e).val| = 30 := by
  obtain ⟨hf0, hr0⟩ := natmul_rn 3 (by norm_num) s m e hb
  have hf : ((3 : F64) * F64.abs (F64.fin s m e)).isFinite = true := hf0
  have hr : RN (((3:ℕ):ℚ) * |(F64.fin s m e).val|) ((3 : F64) * F64.abs (F64.fin s m e)).val := hr0
  clear hf0 hr0
  set a := |(F64.fin s m e).val| with ha
  have harep : Rep a := by
    have := (abs_fin_isRep s m e h).2; rw [F64.val_abs_fin] at this; exact this
  rw [F64.eq_fin_iff _ _ hf rfl, qd_val]
  push_cast at hr
  constructor
  · intro h90
    rw [h90] at hr
    -- 3a is within half an ulp of 90, so a is within 2^-48 of 30, and a is a multiple of 2^-48
    have hne : (3:ℚ) * a ≠ 0 := by
      intro h0; rw [h0] at hr; have := hr.zero_iff; norm_num at this
    obtain ⟨_, hclose⟩ := hr.spec hne
    -- 64 ≤ 3a < 128
    have hlo : (64:ℚ) ≤ 3 * a := by
      by_contra hc
      have : (90:ℚ) ≤ 64 := hr.le_of_le_rep ⟨64, 0, by norm_num, by norm_num, by norm_num⟩ (le_of_lt (not_le.mp hc))
      norm_num at this
    have hhi : (3:ℚ) * a < 128 := by
      by_contra hc
      have : (128:ℚ) ≤ 90 := hr.ge_of_ge_rep ⟨128, 0, by norm_num, by norm_num, by norm_num⟩ (not_lt.mp hc)
      norm_num at this
    have ha0 : 0 ≤ a := abs_nonneg _
    have hbin : bin (3 * a) = 7 := by
      apply bin_unique
      · rw [abs_of_nonneg (by linarith)]; norm_num; linarith
      · rw [abs_of_nonneg (by linarith)]; norm_num; linarith
    have htq : tq (3 * a) = -46 := by unfold tq; rw [hbin]; norm_num
    rw [htq] at hclose
    -- a on the grid 2^-48 (a ≥ 16)
    have hag : OnGrid (-48) a := by
      have := harep.onGrid_of_ge 5 (by rw [abs_of_nonneg ha0]; norm_num; linarith)
      simpa using this
    have h30g : OnGrid (-48) (30:ℚ) := ⟨30 * 2 ^ 48, by norm_num⟩
    apply hag.eq_of_close h30g
    have e1 : (90:ℚ) - 3 * a = -(3 * (a - 30)) := by ring
    rw [e1, abs_neg, abs_mul] at hclose
    have h46 : (2:ℚ) ^ (-46:ℤ) = 4 * (2:ℚ) ^ (-48:ℤ) := by
      rw [show (-46:ℤ) = 2 + -48 by norm_num, Dy.two_zpow_split]; norm_num
    rw [h46] at hclose
    have hp := Dy.two_zpow_pos (-48)
    have h3 : |(3:ℚ)| = 3 := by norm_num
    rw [h3] at hclose
    nlinarith [abs_nonneg (a - 30)]
  · intro h30
    rw [h30] at hr
    have : (3:ℚ) * 30 = 90 := by norm_num
    rw [this] at hr
    exact rep90.rn_eq hr

/-! ## `remquo`: the quotient is the nearest integer, ties to even — uniqueness gives oddness and periodicity -/

/-- `n` is the integer nearest to `z`, ties to even -/
def NearestEven (z : ℚ) (n : ℤ) : Prop := 2 * |z - n| ≤ 1 ∧ (2 * |z - n| = 1 → n % 2 = 0)

theorem NearestEven.unique {z : ℚ} {n1 n2 : ℤ} (h1 : NearestEven z n1) (h2 : NearestEven z n2) : n1 = n2 := by
  by_contra hne
  have hd : (1:ℤ) ≤ |n1 - n2| := Int.one_le_abs (sub_ne_zero.mpr hne)
  have hdq : (1:ℚ) ≤ |(n1:ℚ) - n2| := by
    have : ((1:ℤ):ℚ) ≤ ((|n1 - n2| : ℤ) : ℚ) := by exact_mod_cast hd
    rw [Int.cast_abs] at this; push_cast at this; exact this
  have htri : |(n1:ℚ) - n2| ≤ |z - n1| + |z - n2| := by
    have e : (n1:ℚ) - n2 = (z - n2) - (z - n1) := by ring
    rw [e]; have := abs_sub (z - n2) (z - n1); linarith
  have a1 : 2 * |z - n1| = 1 := by linarith [h1.1, h2.1]
  have a2 : 2 * |z - n2| = 1 := by linarith [h1.1, h2.1]
  have e1 := h1.2 a1
  have e2 := h2.2 a2
  have hle : |(n1:ℚ) - n2| ≤ 1 := by linarith
  have hle' : |n1 - n2| ≤ 1 := by
    have : ((|n1 - n2| : ℤ) : ℚ) ≤ ((1:ℤ):ℚ) := by rw [Int.cast_abs]; push_cast; exact hle
    exact_mod_cast this
  have h1' : |n1 - n2| = 1 := le_antisymm hle' hd
  rcases abs_cases (n1 - n2) with ⟨e, _⟩ | ⟨e, _⟩ <;> omega

theorem nearestEven_tie (X Y : ℤ) (hY : 0 < Y) (h : 2 * |X - F64.nearestEven X Y * Y| = Y) : F64.nearestEven X Y % 2 = 0 := by
  unfold F64.nearestEven at h ⊢
  have h1 := Int.emod_nonneg X hY.ne'
  have h2 := Int.emod_lt_of_pos X hY
  have h3 : X - X / Y * Y = X % Y := by rw [Int.emod_def]; ring
  simp only [h3] at h ⊢
  set q := X / Y with hq
  set r := X % Y with hr
  have hX : X = q * Y + r := by rw [← h3]; ring
  split_ifs at h ⊢ with a b c
  · rw [hX] at h; have : q * Y + r - q * Y = r := by ring
    rw [this, abs_of_nonneg h1] at h; omega
  · rw [hX] at h; have : q * Y + r - (q + 1) * Y = r - Y := by ring
    rw [this, abs_of_neg (by omega)] at h; omega
  · exact c
  · omega

theorem nearestEven_isNearest (X Y : ℤ) (hY : 0 < Y) : NearestEven ((X:ℚ) / Y) (F64.nearestEven X Y) := by
  have hs := F64.nearestEven_spec X Y hY
  have hYq : (0:ℚ) < Y := by exact_mod_cast hY
  set n := F64.nearestEven X Y with hn
  have e : (X:ℚ) / Y - n = ((X - n * Y : ℤ) : ℚ) / Y := by push_cast; field_simp
  have eabs : |(X:ℚ) / Y - n| = ((|X - n * Y| : ℤ) : ℚ) / Y := by
    rw [e, abs_div, abs_of_pos hYq, Int.cast_abs]
  constructor
  · rw [eabs]
    have : (2:ℚ) * ((|X - n * Y| : ℤ) : ℚ) ≤ (Y:ℚ) := by exact_mod_cast hs
    rw [← mul_div_assoc, div_le_one hYq]; exact this
  · intro h
    rw [eabs, ← mul_div_assoc, div_eq_one_iff_eq hYq.ne'] at h
    have : 2 * |X - n * Y| = Y := by exact_mod_cast h
    exact nearestEven_tie X Y hY this

/-- the integer returned by `remquo` (model: `remquoN`) is the nearest integer to `x / y`, ties to even -/
theorem remquoN_nearest (sx sy : Bool) (mx my : ℕ) (ex ey : ℤ) (hy : my ≠ 0) :
    NearestEven ((F64.fin sx mx ex).val / (F64.fin sy my ey).val) (F64.remquoN (F64.fin sx mx ex) (F64.fin sy my ey)) := by
  have hmy : (my == 0) = false := by simpa using hy
  have hdy : (F64.fin sy my ey).toDy.m ≠ 0 := F64.toDy_m_ne sy my ey hy
  obtain ⟨hYpos, c, hc, hxc, hyc⟩ := F64.ratioInts_spec (F64.fin sx mx ex).toDy (F64.fin sy my ey).toDy hdy
  have hq : F64.remquoN (F64.fin sx mx ex) (F64.fin sy my ey)
      = F64.nearestEven (F64.ratioInts (F64.fin sx mx ex).toDy (F64.fin sy my ey).toDy).1 (F64.ratioInts (F64.fin sx mx ex).toDy (F64.fin sy my ey).toDy).2 := by
    show (if (my == 0) = true then 0 else _) = _
    rw [hmy]; rfl
  rw [hq]
  have := nearestEven_isNearest (F64.ratioInts (F64.fin sx mx ex).toDy (F64.fin sy my ey).toDy).1 (F64.ratioInts (F64.fin sx mx ex).toDy (F64.fin sy my ey).toDy).2 hYpos
  have e : (F64.fin sx mx ex).val / (F64.fin sy my ey).val
      = ((F64.ratioInts (F64.fin sx mx ex).toDy (F64.fin sy my ey).toDy).1 : ℚ) / ((F64.ratioInts (F64.fin sx mx ex).toDy (F64.fin sy my ey).toDy).2 : ℚ) := by
    show (F64.fin sx mx ex).toDy.val / (F64.fin sy my ey).toDy.val = _
    rw [hxc, hyc]
    have hY0 : ((F64.ratioInts (F64.fin sx mx ex).toDy (F64.fin sy my ey).toDy).2 : ℚ) ≠ 0 := by
      have : (0:ℚ) < ((F64.ratioInts (F64.fin sx mx ex).toDy (F64.fin sy my ey).toDy).2 : ℚ) := by exact_mod_cast hYpos
      exact this.ne'
    field_simp
  rw [e]; exact this

theorem NearestEven.neg {z : ℚ} {n : ℤ} (h : NearestEven z n) : NearestEven (-z) (-n) := by
  have e : -z - ((-n : ℤ) : ℚ) = -(z - n) := by push_cast; ring
  constructor
  · rw [e, abs_neg]; exact h.1
  · intro h2; rw [e, abs_neg] at h2; have := h.2 h2; omega

theorem NearestEven.add_even {z : ℚ} {n : ℤ} (h : NearestEven z n) (j : ℤ) : NearestEven (z + 2 * j) (n + 2 * j) := by
  have e : z + 2 * j - ((n + 2 * j : ℤ) : ℚ) = z - n := by push_cast; ring
  constructor
  · rw [e]; exact h.1
  · intro h2; rw [e] at h2; have := h.2 h2; omega

/-- **`remquo` is odd**: quotient and remainder of `−x` are the negatives (values) -/
theorem remquo_neg (sx sy : Bool) (mx my : ℕ) (ex ey : ℤ) (hy : my ≠ 0) :
    F64.remquoN (F64.fin (!sx) mx ex) (F64.fin sy my ey) = -F64.remquoN (F64.fin sx mx ex) (F64.fin sy my ey) ∧
    (F64.remainder (F64.fin (!sx) mx ex) (F64.fin sy my ey)).val = -(F64.remainder (F64.fin sx mx ex) (F64.fin sy my ey)).val := by
  have hnv : (F64.fin (!sx) mx ex).val = -(F64.fin sx mx ex).val := F64.neg_fin_val sx mx ex
  have h1 := remquoN_nearest (!sx) sy mx my ex ey hy
  have h2 := (remquoN_nearest sx sy mx my ex ey hy).neg
  rw [hnv, neg_div] at h1
  have hq := h1.unique h2
  obtain ⟨_, v1, _, _⟩ := F64.remainder_spec (!sx) sy mx my ex ey hy
  obtain ⟨_, v2, _, _⟩ := F64.remainder_spec sx sy mx my ex ey hy
  refine ⟨hq, ?_⟩
  rw [v1, v2, hq, hnv]; push_cast; ring

/-- **`remquo` shifts with the argument**: adding an even multiple `2j·y` to `x` adds `2j` to the quotient and leaves the
remainder (value) unchanged -/
theorem remquo_add_even (sx sx' sy : Bool) (mx mx' my : ℕ) (ex ex' ey : ℤ) (hy : my ≠ 0) (j : ℤ)
    (h : (F64.fin sx' mx' ex').val = (F64.fin sx mx ex).val + 2 * j * (F64.fin sy my ey).val) :
    F64.remquoN (F64.fin sx' mx' ex') (F64.fin sy my ey) = F64.remquoN (F64.fin sx mx ex) (F64.fin sy my ey) + 2 * j ∧
    (F64.remainder (F64.fin sx' mx' ex') (F64.fin sy my ey)).val = (F64.remainder (F64.fin sx mx ex) (F64.fin sy my ey)).val := by
  have hy0 : (F64.fin sy my ey).val ≠ 0 := by
    have := F64.toDy_m_ne sy my ey hy
    intro hc; exact this ((Dy.m_zero_iff _).mpr hc)
  have h1 := remquoN_nearest sx' sy mx' my ex' ey hy
  have h2 := (remquoN_nearest sx sy mx my ex ey hy).add_even j
  have e : (F64.fin sx' mx' ex').val / (F64.fin sy my ey).val = (F64.fin sx mx ex).val / (F64.fin sy my ey).val + 2 * j := by
    rw [h]; field_simp
  rw [e] at h1
  have hq := h1.unique h2
  obtain ⟨_, v1, _, _⟩ := F64.remainder_spec sx' sy mx' my ex' ey hy
  obtain ⟨_, v2, _, _⟩ := F64.remainder_spec sx sy mx my ex ey hy
  refine ⟨hq, ?_⟩
  rw [v1, v2, hq, h]; push_cast; ring

/-! ## the quadrant switch -/

theorem quadSwitch_add4 {α : Type} [Neg α] (q n : ℤ) (s c : α) : quadSwitch (q + 4 * n) s c = quadSwitch q s c := by
  unfold quadSwitch
  have : (q + 4 * n) % 4 = q % 4 := by omega
  rw [this]

theorem quadSwitch_neg {α : Type} [Neg α] (hnn : ∀ a : α, - -a = a) (q : ℤ) (s c : α) :
    quadSwitch (-q) (-s) c = (-(quadSwitch q s c).1, (quadSwitch q s c).2) := by
  unfold quadSwitch
  have h4 : q % 4 = 0 ∨ q % 4 = 1 ∨ q % 4 = 2 ∨ q % 4 = 3 := by omega
  rcases h4 with h | h | h | h
  · have h' : (-q) % 4 = 0 := by omega
    simp [h, h']
  · have h' : (-q) % 4 = 3 := by omega
    simp [h, h']
  · have h' : (-q) % 4 = 2 := by omega
    simp [h, h']
  · have h' : (-q) % 4 = 1 := by omega
    simp [h, h', hnn]

/-! ## `atan2d` / `atand` / `tand`: exact results of the model on the axes and at the special angles -/

theorem degreeD_eq : degreeD = F64.fin false 5030569068109113 (-58) := by decide +kernel
theorem hd_fin : hd = F64.fin false 180 0 := rfl
theorem qd_fin : qd = F64.fin false 90 0 := rfl

theorem gt_abs_zero (sy sx : Bool) (ey : ℤ) (mx : ℕ) (ex : ℤ) :
    F64.gt (F64.abs (F64.fin sy 0 ey)) (F64.abs (F64.fin sx mx ex)) = false := by
  show Dy.lt (F64.fin false mx ex).toDy (F64.fin false 0 ey).toDy = false
  have h : ¬ (Dy.lt (F64.fin false mx ex).toDy (F64.fin false 0 ey).toDy = true) := by
    rw [Dy.lt_iff]
    have h0 : (F64.fin false 0 ey).toDy.val = 0 := by simp [F64.toDy, Dy.val]
    have h1 : 0 ≤ (F64.fin false mx ex).toDy.val := by
      simp only [F64.toDy, Dy.val, Bool.false_eq_true, if_false]
      have := Dy.two_zpow_pos ex
      positivity
    rw [h0]; linarith
  simpa using h

theorem gt_abs_nonzero (sy sx : Bool) (ex : ℤ) (my : ℕ) (ey : ℤ) (hmy : my ≠ 0) :
    F64.gt (F64.abs (F64.fin sy my ey)) (F64.abs (F64.fin sx 0 ex)) = true := by
  show Dy.lt (F64.fin false 0 ex).toDy (F64.fin false my ey).toDy = true
  rw [Dy.lt_iff]
  have h0 : (F64.fin false 0 ex).toDy.val = 0 := by simp [F64.toDy, Dy.val]
  have h1 : 0 < (F64.fin false my ey).toDy.val := by
    simp only [F64.toDy, Dy.val, Bool.false_eq_true, if_false]
    have := Dy.two_zpow_pos ey
    have : (0:ℚ) < (my:ℚ) := by exact_mod_cast Nat.pos_of_ne_zero hmy
    push_cast; positivity
  rw [h0]; exact h1

/-- canonical octant problem when `y = ±0`: no swap, `x` made non-negative -/
theorem canon_y0 (sy sx : Bool) (ey : ℤ) (mx : ℕ) (ex : ℤ) :
    atan2dCanon (F64.fin sy 0 ey) (F64.fin sx mx ex) = (F64.fin sy 0 ey, F64.fin false mx ex, if sx then 1 else 0) := by
  unfold atan2dCanon atan2dCanonG
  have hg : f64Ops.gt (f64Ops.abs (F64.fin sy 0 ey)) (f64Ops.abs (F64.fin sx mx ex)) = false := gt_abs_zero sy sx ey mx ex
  simp only [hg, Bool.false_eq_true, if_false]
  cases sx <;> rfl

/-- canonical octant problem when `x = ±0`, `y ≠ 0`: swapped -/
theorem canon_x0 (sy sx : Bool) (ex : ℤ) (my : ℕ) (ey : ℤ) (hmy : my ≠ 0) :
    atan2dCanon (F64.fin sy my ey) (F64.fin sx 0 ex) = (F64.fin sx 0 ex, F64.fin false my ey, if sy then 3 else 2) := by
  unfold atan2dCanon atan2dCanonG
  have hg : f64Ops.gt (f64Ops.abs (F64.fin sy my ey)) (f64Ops.abs (F64.fin sx 0 ex)) = true := gt_abs_nonzero sy sx ex my ey hmy
  simp only [hg, if_true]
  cases sy <;> rfl

theorem zero_div_degree (s : Bool) (e : ℤ) : F64.fin s 0 e / degreeD = F64.fin s 0 0 := by
  rw [degreeD_eq]; cases s <;> rfl

theorem wrap_q1 (sy : Bool) (ey : ℤ) : F64.sub (F64.copysign hd (F64.fin sy 0 ey)) (F64.fin sy 0 0) = F64.fin sy 180 0 := by
  have : F64.copysign hd (F64.fin sy 0 ey) = F64.fin sy 180 0 := rfl
  rw [this]; clear this; revert sy; decide +kernel
theorem wrap_q2 (s : Bool) : F64.sub qd (F64.fin s 0 0) = F64.fin false 90 0 := by revert s; decide +kernel
theorem wrap_q3 (s : Bool) : F64.add (F64.neg qd) (F64.fin s 0 0) = F64.fin true 90 0 := by revert s; decide +kernel

/-- **`atan2d` on the axis `y = ±0`** (any finite `x`, including `±0`): given that the kernel returns the signed zero
(`atan2(±0, x') = ±0` for `x' ≥ 0`, C11 F.10.1.4), the model returns `±0` for `x ≥ +0` and `±180` for `x ≤ −0`, exactly -/
theorem atan2dM_axis_y0 (k : Kern) (sy sx : Bool) (ey : ℤ) (mx : ℕ) (ex : ℤ)
    (hk : k.atan2 (F64.fin sy 0 ey) (F64.fin false mx ex) = F64.fin sy 0 0) :
    atan2dM k (F64.fin sy 0 ey) (F64.fin sx mx ex) = if sx then F64.fin sy 180 0 else F64.fin sy 0 0 := by
  unfold atan2dM
  rw [canon_y0]
  simp only []
  rw [hk, zero_div_degree]
  unfold atan2dWrap atan2dWrapG
  have hc := canon_y0 sy sx ey mx ex
  unfold atan2dCanon at hc
  rw [hc]
  cases sx
  · rfl
  · exact wrap_q1 sy ey

/-- **`atan2d` on the axis `x = ±0`**, `y ≠ 0`: `±90` exactly (sign of `y`), whatever the sign of the zero -/
theorem atan2dM_axis_x0 (k : Kern) (sy sx : Bool) (ex : ℤ) (my : ℕ) (ey : ℤ) (hmy : my ≠ 0)
    (hk : k.atan2 (F64.fin sx 0 ex) (F64.fin false my ey) = F64.fin sx 0 0) :
    atan2dM k (F64.fin sy my ey) (F64.fin sx 0 ex) = F64.fin sy 90 0 := by
  unfold atan2dM
  rw [canon_x0 sy sx ex my ey hmy]
  simp only []
  rw [hk, zero_div_degree]
  unfold atan2dWrap atan2dWrapG
  have hc := canon_x0 sy sx ex my ey hmy
  unfold atan2dCanon at hc
  rw [hc]
  cases sy
  · exact wrap_q2 sx
  · exact wrap_q3 sx

/-- **`atand(±1) = ±45`** exactly, given that the kernel returns the correctly rounded `π/4` for `atan2(1, 1)` (oddness of the kernel
in its first argument for `−1`) -/
theorem atandM_one (k : Kern) (s : Bool) (hk : k.atan2 (F64.fin s 1 0) 1 = F64.copysign (piD / 4) (F64.fin s 1 0)) :
    atandM k (F64.fin s 1 0) = F64.fin s 6333186975989760 (-47) := by
  unfold atandM atan2dM
  have hc : atan2dCanon (F64.fin s 1 0) 1 = (F64.fin s 1 0, 1, 0) := by cases s <;> decide +kernel
  rw [hc]
  simp only []
  rw [hk]
  unfold atan2dWrap atan2dWrapG
  unfold atan2dCanon at hc
  rw [hc]
  cases s <;> decide +kernel

theorem val_45 (s : Bool) : (F64.fin s 6333186975989760 (-47)).val = if s then -45 else 45 := by
  rw [F64.val_fin]; cases s <;> norm_num

theorem quadSwitch_mod {α : Type} [Neg α] (q : ℤ) (s c : α) : quadSwitch q s c = quadSwitch (q % 4) s c := by
  unfold quadSwitch
  have : q % 4 % 4 = q % 4 := by omega
  rw [this]

/-- when the switched sine is not zero the signed-zero rule does nothing -/
theorem sincosFinish_nz (q : ℤ) (z s c : F64) (h : F64.eq (quadSwitch q s c).1 0 = false) :
    sincosFinish q z (s, c) = ((quadSwitch q s c).1, (quadSwitch q s c).2 + 0) := by
  unfold sincosFinish
  simp only []
  rw [h]; simp

/-- the clamp of `tand` applied to the quotient of the finished pair -/
def tanOf (sc : F64 × F64) : F64 := stdMin (stdMax (sc.1 / sc.2) (F64.neg tandOverflow)) tandOverflow

theorem tandM_eq (k : Kern) (x : F64) : tandM k x = tanOf (sincosdM k x) := rfl

def one52 : F64 := F64.fin false 4503599627370496 (-52)

theorem tan45_closed : ∀ (sg : Bool),
    (∀ r : ℤ, r ∈ [0, 1, 2, 3] →
      F64.eq (quadSwitch r (F64.fin sg 6369051672525773 (-53)) (F64.fin false 6369051672525773 (-53))).1 0 = false ∧
      (tanOf ((quadSwitch r (F64.fin sg 6369051672525773 (-53)) (F64.fin false 6369051672525773 (-53))).1,
              (quadSwitch r (F64.fin sg 6369051672525773 (-53)) (F64.fin false 6369051672525773 (-53))).2 + 0) = one52 ∨
       tanOf ((quadSwitch r (F64.fin sg 6369051672525773 (-53)) (F64.fin false 6369051672525773 (-53))).1,
              (quadSwitch r (F64.fin sg 6369051672525773 (-53)) (F64.fin false 6369051672525773 (-53))).2 + 0) = F64.neg one52)) := by
  decide +kernel

theorem one52_val : one52.val = 1 := by unfold one52; rw [F64.val_fin]; norm_num

/-- **`tand` at odd multiples of 45°** is `±1` exactly: whenever the reduced angle takes the `2|d| = 90` branch, for every
kernel and every quadrant -/
theorem tandM_s45 (k : Kern) (x : F64) (h : sincosBranch (F64.remainder x qd) = Branch.s45) :
    tandM k x = one52 ∨ tandM k x = F64.neg one52 := by
  have hb : F64.eq ((2 : F64) * F64.abs (F64.remainder x qd)) qd = true := by
    by_contra hc
    have hc' : F64.eq ((2 : F64) * F64.abs (F64.remainder x qd)) qd = false := by simpa using hc
    unfold sincosBranch at h
    rw [hc'] at h
    simp only [Bool.false_eq_true, if_false] at h
    by_cases h3 : F64.eq ((3 : F64) * F64.abs (F64.remainder x qd)) qd = true
    · rw [if_pos h3] at h; cases h
    · rw [if_neg h3] at h; cases h
  have hcore : sincosCore k (F64.remainder x qd) = (F64.copysign sqrtHalf (F64.remainder x qd * degreeD), sqrtHalf) := by
    unfold sincosCore; simp only [hb, if_true]
  have hs : sqrtHalf = F64.fin false 6369051672525773 (-53) := by decide +kernel
  have hcs : F64.copysign sqrtHalf (F64.remainder x qd * degreeD) = F64.fin (F64.remainder x qd * degreeD).signbit 6369051672525773 (-53) := by
    rw [hs]; rfl
  rw [tandM_eq]
  unfold sincosdM
  rw [hcore, hcs, hs]
  generalize (F64.remainder x qd * degreeD).signbit = sg
  have hmem : F64.remquoN x qd % 4 ∈ [(0:ℤ), 1, 2, 3] := by
    have : F64.remquoN x qd % 4 = 0 ∨ F64.remquoN x qd % 4 = 1 ∨ F64.remquoN x qd % 4 = 2 ∨ F64.remquoN x qd % 4 = 3 := by omega
    simp only [List.mem_cons, List.mem_nil_iff, or_false]
    exact this
  obtain ⟨hnz, hv⟩ := tan45_closed sg _ hmem
  rw [← quadSwitch_mod] at hnz hv
  rw [sincosFinish_nz _ _ _ _ hnz]
  exact hv

/-- a finite number with non-zero value carries the sign of its value -/
theorem signbit_fin_iff (s : Bool) (m : ℕ) (e : ℤ) (h : (F64.fin s m e).val ≠ 0) : s = true ↔ (F64.fin s m e).val < 0 := by
  rw [F64.val_fin] at h ⊢
  have hp := Dy.two_zpow_pos e
  have hm : (0:ℚ) < m := by
    rcases Nat.eq_zero_or_pos m with h0 | h0
    · exfalso; apply h; rw [h0]; simp
    · exact_mod_cast h0
  cases s
  · simp only [Bool.false_eq_true, if_false, false_iff, not_lt]; positivity
  · simp only [if_true, true_iff]; nlinarith

/-- adding `+0` to a representable number changes neither its value nor (when it is non-zero) its sign -/
theorem add_zero_same (z : F64) (h : F64.IsRep z) (hb : |z.val| ≤ (2:ℚ) ^ (1000:ℤ)) :
    F64.IsRep (z + 0) ∧ (z + 0).val = z.val ∧ (z.val ≠ 0 → (z + 0).signbit = z.signbit) := by
  obtain ⟨f, r, _⟩ := F64.add_rn z 0 h.1 rfl 1000 (by norm_num) (by norm_num) (by rw [F64.val_zero, add_zero]; exact hb)
  rw [F64.val_zero, add_zero] at r
  have hv : (z + 0).val = z.val := h.2.rn_eq r
  refine ⟨⟨f, by rw [hv]; exact h.2⟩, hv, fun hnz => ?_⟩
  obtain ⟨s1, m1, e1, h1⟩ := F64.exists_fin_of_isFinite (z + 0) f
  obtain ⟨s2, m2, e2, h2⟩ := F64.exists_fin_of_isFinite z h.1
  have a1 := signbit_fin_iff s1 m1 e1 (by rw [← h1, hv]; exact hnz)
  have a2 := signbit_fin_iff s2 m2 e2 (by rw [← h2]; exact hnz)
  rw [← h1, hv] at a1
  rw [← h2] at a2
  rw [h1, h2]
  show s1 = s2
  rw [Bool.eq_iff_iff]; exact a1.trans a2.symm


theorem sixteenth_val : (F64.fin false 1 (-4)).val = 1 / 16 := by rw [F64.val_fin]; norm_num

theorem rep_sixteenth : Rep ((1:ℚ) / 16) := ⟨1, -4, by norm_num, by norm_num, by norm_num⟩

theorem grid57_sixteenth : OnGrid (-57) ((1:ℚ) / 16) := ⟨2 ^ 53, by norm_num⟩

theorem lt_zero_iff (w : F64) (hw : w.isFinite = true) : F64.gt w 0 = true ↔ 0 < w.val := by
  obtain ⟨s, m, e, rfl⟩ := F64.exists_fin_of_isFinite w hw
  show Dy.lt (0 : F64).toDy (F64.fin s m e).toDy = true ↔ _
  rw [Dy.lt_iff]
  have : (0 : F64).toDy.val = 0 := by show (F64.fin false 0 0).toDy.val = 0; simp [F64.toDy, Dy.val]
  rw [this]; rfl


end MathF
end GeoVerif
