import GeoVerif.Model.Geocentric
import GeoVerif.Spec.RealInst
import Mathlib.LinearAlgebra.Matrix.Determinant.Basic
import Mathlib.Tactic.FinCases
import Mathlib.Tactic.Ring
import Mathlib.Tactic.LinearCombination
import Mathlib.Tactic.Linarith
/-!
# Frames: the 3×3 matrices of `Geocentric::Rotation` / `LocalCartesian::MatrixMultiply` as Mathlib matrices, and the
angle of a unit pair (used by `Props/C07.lean`)
-/
namespace GeoVerif.GeocentricProofs
open GeoVerif GeoVerif.Geocentric

/-- the row-major list `M[0..8]` read as a matrix -/
noncomputable def toMat (M : List ℝ) : Matrix (Fin 3) (Fin 3) ℝ := fun i j => el M (3 * i.val + j.val)

/-- a rotation matrix: orthogonal with determinant `+1` -/
def IsRot (M : List ℝ) : Prop := (toMat M).transpose * toMat M = 1 ∧ (toMat M).det = 1

theorem IsRot.rows {M : List ℝ} (h : IsRot M) : toMat M * (toMat M).transpose = 1 := mul_eq_one_comm.mp h.1

/-- `LocalCartesian::MatrixMultiply` computes `rᵀ·M` -/
theorem toMat_matrixMultiply (r M : List ℝ) : toMat (matrixMultiply r M) = (toMat r).transpose * toMat M := by
  ext i j
  fin_cases i <;> fin_cases j <;>
    simp [toMat, matrixMultiply, el, Matrix.mul_apply, Fin.sum_univ_three, List.range, List.range.loop]

/-- the product of two rotations is a rotation -/
theorem matrixMultiply_isRot (r M : List ℝ) (hr : IsRot r) (hM : IsRot M) : IsRot (matrixMultiply r M) := by
  have hr1' := hr.rows
  obtain ⟨_, hr2⟩ := hr
  obtain ⟨hM1, hM2⟩ := hM
  constructor
  · rw [toMat_matrixMultiply, Matrix.transpose_mul, Matrix.transpose_transpose, Matrix.mul_assoc,
      ← Matrix.mul_assoc (toMat r), hr1', Matrix.one_mul, hM1]
  · rw [toMat_matrixMultiply, Matrix.det_mul, Matrix.det_transpose, hr2, hM2, one_mul]

/-- `rᵀ·r = I`: at the origin of a local system the frame of the point is the frame of the origin -/
theorem matrixMultiply_self (r : List ℝ) (hr : IsRot r) : toMat (matrixMultiply r r) = 1 := by
  rw [toMat_matrixMultiply]; exact hr.1

/-- `Geocentric::Rotation` of two unit pairs is a rotation matrix -/
theorem rotation_isRot (s c sl cl : ℝ) (hp : s ^ 2 + c ^ 2 = 1) (hl : sl ^ 2 + cl ^ 2 = 1) : IsRot (rotation s c sl cl) := by
  constructor
  · ext i j
    fin_cases i <;> fin_cases j <;>
      simp [toMat, rotation, el, Matrix.mul_apply, Fin.sum_univ_three, ofNat_real] <;>
      first
      | linear_combination hl
      | linear_combination hp
      | linear_combination (s ^ 2) * hl + hp
      | linear_combination (c ^ 2) * hl + hp
      | linear_combination (s * c) * hl
      | linear_combination (-(s * c)) * hl
      | ring
  · rw [Matrix.det_fin_three]
    simp [toMat, rotation, el, ofNat_real]
    linear_combination (sl ^ 2 + cl ^ 2) * hp + hl

/-- `Rotate` is `M·v`, `Unrotate` is `Mᵀ·v` -/
theorem rotate_eq (M : List ℝ) (x y z : ℝ) :
    rotate M x y z = ((toMat M).mulVec ![x, y, z] 0, (toMat M).mulVec ![x, y, z] 1, (toMat M).mulVec ![x, y, z] 2) := by
  simp [rotate, toMat, Matrix.mulVec, dotProduct, Fin.sum_univ_three]

theorem unrotate_eq (M : List ℝ) (x y z : ℝ) :
    unrotate M x y z = ((toMat M).transpose.mulVec ![x, y, z] 0, (toMat M).transpose.mulVec ![x, y, z] 1,
      (toMat M).transpose.mulVec ![x, y, z] 2) := by
  simp [unrotate, toMat, Matrix.mulVec, dotProduct, Fin.sum_univ_three]

/-- entries of the orthogonality relation `MᵀM = I` -/
theorem IsRot.col {M : List ℝ} (h : IsRot M) (i j : Fin 3) :
    el M (0 + i.val) * el M (0 + j.val) + el M (3 + i.val) * el M (3 + j.val) + el M (6 + i.val) * el M (6 + j.val) =
      if i = j then 1 else 0 := by
  have := congrFun (congrFun h.1 i) j
  simp only [Matrix.mul_apply, Matrix.transpose_apply, Fin.sum_univ_three, toMat, Matrix.one_apply] at this
  simpa using this

theorem IsRot.row {M : List ℝ} (h : IsRot M) (i j : Fin 3) :
    el M (3 * i.val + 0) * el M (3 * j.val + 0) + el M (3 * i.val + 1) * el M (3 * j.val + 1) + el M (3 * i.val + 2) * el M (3 * j.val + 2) =
      if i = j then 1 else 0 := by
  have := congrFun (congrFun h.rows i) j
  simp only [Matrix.mul_apply, Matrix.transpose_apply, Fin.sum_univ_three, toMat, Matrix.one_apply] at this
  simpa using this

/-! ## the angle of a unit pair -/

theorem arg_unit (s c : ℝ) (h : s ^ 2 + c ^ 2 = 1) :
    Real.sin (Complex.arg ⟨c, s⟩) = s ∧ Real.cos (Complex.arg ⟨c, s⟩) = c := by
  have hn : ‖(⟨c, s⟩ : ℂ)‖ = 1 := by
    rw [Complex.norm_eq_sqrt_sq_add_sq]
    show Real.sqrt (c ^ 2 + s ^ 2) = 1
    rw [add_comm, h, Real.sqrt_one]
  have hz : (⟨c, s⟩ : ℂ) ≠ 0 := by
    intro h0; rw [h0, norm_zero] at hn; exact zero_ne_one hn
  constructor
  · rw [Complex.sin_arg, hn, div_one]
  · rw [Complex.cos_arg hz, hn, div_one]

end GeoVerif.GeocentricProofs
