import GeoVerif.Model.GeodInvSeries
import GeoVerif.Proofs.Vermeille
import GeoVerif.Spec.RealInst
import Mathlib.Tactic.Ring
import Mathlib.Tactic.Linarith
import Mathlib.Tactic.Positivity
import Mathlib.Tactic.LinearCombination
/-!
# Lemmas about `Geodesic::Astroid` (model `Model/GeodInvSeries.lean`), used by `Props/C02.lean`
The algebra is Ferrari's resolvent and Cardano's formula of `Proofs/Vermeille.lean` at `e² = 1`.
-/
namespace GeoVerif.Proofs.GeodInvSeries
open GeoVerif GeoVerif.GeodInvSeries GeoVerif.Vermeille

theorem cbrt_real_nonneg' (x : ℝ) (hx : 0 ≤ x) : (RealLike.cbrt x : ℝ) = x ^ ((1:ℝ)/3) := by
  show (if 0 ≤ x then x ^ ((1 : ℝ) / 3) else -((-x) ^ ((1 : ℝ) / 3))) = _
  rw [if_pos hx]

theorem cbrt_cube' (x : ℝ) (hx : 0 ≤ x) : (x ^ ((1:ℝ)/3)) ^ 3 = x := by
  rw [← Real.rpow_natCast, ← Real.rpow_mul hx]; norm_num

/-- Cardano branch of `astroidU`: for `S > 0` and a non-negative discriminant the result solves `u³ − 3r u² = 2S` -/
theorem astroidU_spec (S r : ℝ) (hS : 0 < S) (hdisc : 0 ≤ S * (S + 2 * r ^ 3)) :
    (astroidU S r) ^ 3 - 3 * r * (astroidU S r) ^ 2 = 2 * S := by
  have h3 : 0 ≤ S + 2 * r ^ 3 := by
    by_contra hc
    have := mul_neg_of_pos_of_neg hS (not_le.mp hc); linarith
  have hT30 : 0 < S + r ^ 3 := by linarith
  set D := Real.sqrt (S * (S + 2 * r ^ 3)) with hD
  have hD0 : 0 ≤ D := Real.sqrt_nonneg _
  have hD2 : D ^ 2 = S * (2 * r ^ 3 + S) := by rw [hD, Real.sq_sqrt hdisc]; ring
  have hT3 : 0 < S + r ^ 3 + D := by linarith
  set T := (S + r ^ 3 + D) ^ ((1:ℝ)/3) with hTdef
  have hTpos : 0 < T := Real.rpow_pos_of_pos hT3 _
  have hTc : T ^ 3 = S + r ^ 3 + D := cbrt_cube' _ hT3.le
  have hu : astroidU S r = r + (T + r ^ 2 / T) := by
    unfold astroidU
    simp only [sq_real, sqrt_real, leb_real, ltb_real, eqb_real, lit_real]
    push_cast
    have e1 : r * r ^ 2 = r ^ 3 := by ring
    rw [e1]
    have hd : decide ((0:ℝ) ≤ S * (S + 2 * r ^ 3)) = true := by simpa using hdisc
    have hl : decide (S + r ^ 3 < (0:ℝ)) = false := by simpa using hT30.le
    simp only [hd, hl, if_true, Bool.false_eq_true, if_false]
    rw [← hD, cbrt_real_nonneg' _ hT3.le, ← hTdef]
    have hz : decide (T = (0:ℝ)) = false := by simpa using hTpos.ne'
    simp only [hz, Bool.not_false, if_true]
  rw [hu]
  exact vermeille_cubic r S D T hTc hD2 hTpos.ne'

/-- `k = uv/(√(uv + w²) + w)` solves `k² + 2wk = uv` and is positive, for every `w` (the source asks "positive?") -/
theorem astroid_k (uv w : ℝ) (huv : 0 < uv) :
    let k := uv / (Real.sqrt (uv + w ^ 2) + w)
    k ^ 2 + 2 * w * k = uv ∧ 0 < k := by
  intro k
  have hs : 0 ≤ uv + w ^ 2 := by positivity
  have hsq := Real.sq_sqrt hs
  have habs : |w| < Real.sqrt (uv + w ^ 2) := by
    rw [Real.lt_sqrt (abs_nonneg w), sq_abs]; linarith
  have hden : 0 < Real.sqrt (uv + w ^ 2) + w := by
    have := neg_abs_le w; linarith
  have hk : k = Real.sqrt (uv + w ^ 2) - w := by
    show uv / (Real.sqrt (uv + w ^ 2) + w) = _
    rw [div_eq_iff hden.ne']; linear_combination -hsq
  constructor
  · rw [hk]; linear_combination hsq
  · exact div_pos huv hden

end GeoVerif.Proofs.GeodInvSeries
