import GeoVerif.Model.TM
import GeoVerif.Spec.RealInst
import Mathlib.Tactic.Ring
import Mathlib.Tactic.LinearCombination
/-!
# Lemmas and proofs for C06 (transverse Mercator); the property theorems are restated in `Props/C06.lean`

1. **Wrapper theorems** (exact binary64 model, *any* first-quadrant kernel `K`): parity in latitude and in the longitude
   offset, the far-side reflection, identity on first-quadrant input, and the same for `Reverse`.  They are about
   `TM.forwardD` / `TM.reverseZ`, the very functions the driver executes against the implementation.
2. **Complex Clenshaw theorem** for `TM.kr`, the Krüger step of the series kernel (read at `ℝ`).
3. **Table certificates** (depend on `Gen.TMSeries`, i.e. on the tables as they are in the source now).
-/
namespace GeoVerif.Proofs.TM
open GeoVerif GeoVerif.TM

/-! ## 1. wrapper: parities for every kernel -/

theorem neg_neg (x : F64) : F64.neg (F64.neg x) = x := by cases x <;> simp [F64.neg]

/-- `|x|` as the wrapper forms it: multiply by the sign flag -/
def fabsS (x : F64) : F64 := mulSign (sgn x.signbit) x

theorem fabsS_neg (x : F64) : fabsS (F64.neg x) = fabsS x := by
  cases x with
  | nan => rfl
  | inf s => cases s <;> simp [fabsS, mulSign, sgn, F64.neg, F64.signbit]
  | fin s m e => cases s <;> simp [fabsS, mulSign, sgn, F64.neg, F64.signbit]

theorem sgn_neg (x : F64) (h : x.isNaN = false) : sgn (F64.neg x).signbit = - sgn x.signbit := by
  cases x with
  | nan => simp [F64.isNaN] at h
  | inf s => cases s <;> simp [sgn, F64.neg, F64.signbit]
  | fin s m e => cases s <;> simp [sgn, F64.neg, F64.signbit]

theorem mulSign_neg (s : Int) (hs : s = 1 ∨ s = -1) (x : F64) : mulSign (-s) x = F64.neg (mulSign s x) := by
  rcases hs with rfl | rfl <;> simp [mulSign, neg_neg]

theorem sgn_sign (b : Bool) : sgn b = 1 ∨ sgn b = -1 := by cases b <;> simp [sgn]

theorem forward_lat_parity (c : Cfg) (hc : c.ext = false) (K : F64 → F64 → KOut) (lat d : F64)
    (hn : lat.isNaN = false)
    (hb : ((fwdFoldD false lat d).back && F64.eq (fwdFoldD false lat d).p 0) = false) :
    let r := forwardD c K lat d
    let r' := forwardD c K (F64.neg lat) d
    r'.u = r.u ∧ r'.v = F64.neg r.v ∧ r'.graw = F64.neg r.graw ∧ r'.k = r.k := by
  have h1 := fabsS_neg lat
  have h2 := sgn_neg lat hn
  unfold fabsS at h1
  simp only [forwardD, fwdFoldD, fwdUnfold, gammaRaw, hc, Bool.not_false, Bool.true_and] at hb ⊢
  rw [h1, h2]
  simp only [hb]
  rcases sgn_sign lat.signbit with h | h <;> rcases sgn_sign d.signbit with h' | h' <;> simp [h, h', mulSign, neg_neg]

theorem forward_lon_parity (c : Cfg) (hc : c.ext = false) (K : F64 → F64 → KOut) (lat d : F64) (hn : d.isNaN = false) :
    let r := forwardD c K lat d
    let r' := forwardD c K lat (F64.neg d)
    r'.u = F64.neg r.u ∧ r'.v = r.v ∧ r'.graw = F64.neg r.graw ∧ r'.k = r.k := by
  have h1 := fabsS_neg d
  have h2 := sgn_neg d hn
  unfold fabsS at h1
  simp only [forwardD, fwdFoldD, fwdUnfold, gammaRaw, hc, Bool.not_false, Bool.true_and]
  rw [h1, h2]
  rcases sgn_sign lat.signbit with h | h <;> rcases sgn_sign d.signbit with h' | h' <;>
    simp [h, h', mulSign, neg_neg] <;> (split <;> simp [neg_neg])

theorem forward_canonical (c : Cfg) (K : F64 → F64 → KOut) (lat d : F64)
    (h1 : lat.signbit = false) (h2 : d.signbit = false) (h3 : F64.gt d MathF.qd = false) :
    forwardD c K lat d =
      ⟨c.scale (K lat d).q, c.scale (K lat d).p, (K lat d).gamma,
       if c.series then MathF.angNormalize (K lat d).gamma else (K lat d).gamma, (K lat d).k * c.k0, c.scale (K lat d).p⟩ := by
  simp [forwardD, fwdFoldD, fwdUnfold, gammaRaw, h1, h2, h3, mulSign, sgn]

theorem forward_far_side (c : Cfg) (hc : c.ext = false) (K : F64 → F64 → KOut) (lat d : F64)
    (hfar : F64.gt (fabsS d) MathF.qd = true) :
    let fo := fwdFoldD c.ext lat d
    let r := K fo.p fo.q
    fo.back = true ∧ fo.q = MathF.hd - fabsS d ∧
    (forwardD c K lat d).u = mulSign fo.s2 (c.scale r.q) ∧
    (forwardD c K lat d).v = mulSign fo.s1 (c.scale (c.top - r.p)) ∧
    (forwardD c K lat d).graw = mulSign (fo.s1 * fo.s2) (MathF.hd - r.gamma) := by
  unfold fabsS at hfar
  simp [forwardD, fwdFoldD, fwdUnfold, gammaRaw, hc, hfar, fabsS]

theorem reverse_xi_parity (c : Cfg) (hc : c.ext = false) (K : F64 → F64 → KOut) (lon0 xi eta : F64) (hn : xi.isNaN = false) :
    let r := reverseZ c K lon0 xi eta
    let r' := reverseZ c K lon0 (F64.neg xi) eta
    r'.u = F64.neg r.u ∧ r'.v = r.v ∧ r'.vraw = r.vraw ∧ r'.graw = F64.neg r.graw ∧ r'.k = r.k := by
  have h1 := fabsS_neg xi
  have h2 := sgn_neg xi hn
  unfold fabsS at h1
  simp only [reverseZ, revFoldZ, revUnfold, gammaRaw, hc, Bool.not_false, Bool.true_and]
  rw [h1, h2]
  rcases sgn_sign xi.signbit with h | h <;> rcases sgn_sign eta.signbit with h' | h' <;> simp [h, h', mulSign, neg_neg]

theorem reverse_eta_parity (c : Cfg) (hc : c.ext = false) (K : F64 → F64 → KOut) (lon0 xi eta : F64) (hn : eta.isNaN = false) :
    let r := reverseZ c K lon0 xi eta
    let r' := reverseZ c K lon0 xi (F64.neg eta)
    r'.u = r.u ∧ r'.vraw = F64.neg r.vraw ∧ r'.graw = F64.neg r.graw ∧ r'.k = r.k := by
  have h1 := fabsS_neg eta
  have h2 := sgn_neg eta hn
  unfold fabsS at h1
  simp only [reverseZ, revFoldZ, revUnfold, gammaRaw, hc, Bool.not_false, Bool.true_and]
  rw [h1, h2]
  rcases sgn_sign xi.signbit with h | h <;> rcases sgn_sign eta.signbit with h' | h' <;>
    simp [h, h', mulSign, neg_neg]

theorem reverse_canonical (c : Cfg) (K : F64 → F64 → KOut) (lon0 xi eta : F64)
    (h1 : xi.signbit = false) (h2 : eta.signbit = false) (h3 : F64.gt xi c.half = false) :
    (reverseZ c K lon0 xi eta).u = (K xi eta).p ∧ (reverseZ c K lon0 xi eta).vraw = (K xi eta).q ∧
    (reverseZ c K lon0 xi eta).graw = (K xi eta).gamma ∧ (reverseZ c K lon0 xi eta).k = (K xi eta).k * c.k0 := by
  simp [reverseZ, revFoldZ, revUnfold, gammaRaw, h1, h2, h3, mulSign, sgn]


/-- `extendp = true`: no folding at all in `Forward` -/
theorem forward_extendp (c : Cfg) (hc : c.ext = true) (K : F64 → F64 → KOut) (lat d : F64) :
    forwardD c K lat d =
      ⟨c.scale (K lat d).q, c.scale (K lat d).p, (K lat d).gamma,
       if c.series then MathF.angNormalize (K lat d).gamma else (K lat d).gamma, (K lat d).k * c.k0, c.scale (K lat d).p⟩ := by
  simp [forwardD, fwdFoldD, fwdUnfold, gammaRaw, hc, mulSign, sgn]

/-- `extendp = true`: no folding at all in `Reverse` -/
theorem reverse_extendp (c : Cfg) (hc : c.ext = true) (K : F64 → F64 → KOut) (lon0 xi eta : F64) :
    (reverseZ c K lon0 xi eta).u = (K xi eta).p ∧ (reverseZ c K lon0 xi eta).vraw = (K xi eta).q ∧
    (reverseZ c K lon0 xi eta).graw = (K xi eta).gamma ∧ (reverseZ c K lon0 xi eta).k = (K xi eta).k * c.k0 := by
  simp [reverseZ, revFoldZ, revUnfold, gammaRaw, hc, mulSign, sgn]

theorem fabsS_signbit (x : F64) : (fabsS x).signbit = false := by
  cases x with
  | nan => rfl
  | inf s => cases s <;> simp [fabsS, mulSign, sgn, F64.neg, F64.signbit]
  | fin s m e => cases s <;> simp [fabsS, mulSign, sgn, F64.neg, F64.signbit]

theorem fold_first_quadrant (lat d : F64) :
    let fo := fwdFoldD false lat d
    fo.p = fabsS lat ∧ fo.p.signbit = false ∧
    (fo.back = false → fo.q = fabsS d ∧ fo.q.signbit = false ∧ F64.gt fo.q MathF.qd = false) := by
  refine ⟨rfl, fabsS_signbit lat, ?_⟩
  intro h
  have h' : F64.gt (fabsS d) MathF.qd = false := by simpa [fwdFoldD, fabsS] using h
  have : (fwdFoldD false lat d).q = fabsS d := by
    unfold fabsS at h'
    simp [fwdFoldD, fabsS, h']
  rw [this]
  exact ⟨rfl, fabsS_signbit d, h'⟩

/-! ## 2. complex Clenshaw summation -/

/-- a pair read as a complex number -/
noncomputable def toC (z : Cx ℝ) : ℂ := ⟨z.re, z.im⟩

theorem toC_mul (a b : Cx ℝ) : toC (Cx.mul a b) = toC a * toC b := by
  apply Complex.ext <;> simp [toC, Cx.mul]
theorem toC_sub (a b : Cx ℝ) : toC (Cx.sub a b) = toC a - toC b := by
  apply Complex.ext <;> simp [toC, Cx.sub]
theorem toC_add (a b : Cx ℝ) : toC (Cx.add a b) = toC a + toC b := by
  apply Complex.ext <;> simp [toC, Cx.add]
theorem toC_addR (a : Cx ℝ) (c : ℝ) : toC (Cx.addR a c) = toC a + (c : ℂ) := by
  apply Complex.ext <;> simp [toC, Cx.addR]
theorem toC_zero : toC (Cx.zero : Cx ℝ) = 0 := by
  apply Complex.ext <;> simp [toC, Cx.zero, ofNat_real]

/-- the recurrence over any commutative ring -/
def clenR {R : Type} [CommRing R] (a : R) : List R → R × R
  | [] => (0, 0)
  | c :: cs => (a * (clenR a cs).1 - (clenR a cs).2 + c, (clenR a cs).1)

theorem clenC_toC (a : Cx ℝ) (cs : List ℝ) :
    (toC (clenC a cs).1, toC (clenC a cs).2) = clenR (toC a) (cs.map Complex.ofReal) := by
  induction cs with
  | nil => simp [clenC, clenR, toC_zero]
  | cons c cs ih =>
    have h1 : toC (clenC a cs).1 = (clenR (toC a) (cs.map Complex.ofReal)).1 := congrArg Prod.fst ih
    have h2 : toC (clenC a cs).2 = (clenR (toC a) (cs.map Complex.ofReal)).2 := congrArg Prod.snd ih
    simp only [clenC, clenR, List.map_cons, toC_addR, toC_sub, toC_mul, h1, h2]

/-- `Σ_j cs[j] · T(k+1+j)` -/
def wsum {R : Type} [CommRing R] (T : ℕ → R) : ℕ → List R → R
  | _, [] => 0
  | k, c :: cs => c * T (k + 1) + wsum T (k + 1) cs

/-- Clenshaw summation over a commutative ring for any sequence with `T (n+2) = a·T (n+1) − T n` -/
theorem clenshaw_ring {R : Type} [CommRing R] (a : R) (T : ℕ → R) (hT : ∀ n, T (n + 2) = a * T (n + 1) - T n) (cs : List R) (k : ℕ) :
    wsum T k cs = (clenR a cs).1 * T (k + 1) - (clenR a cs).2 * T k := by
  induction cs generalizing k with
  | nil => simp [wsum, clenR]
  | cons c cs ih =>
    simp only [wsum, clenR]
    rw [ih (k + 1), hT k]
    ring

theorem sin_rec (z : ℂ) (n : ℕ) : Complex.sin (2 * ((n + 2 : ℕ) : ℂ) * z) = 2 * Complex.cos (2 * z) * Complex.sin (2 * ((n + 1 : ℕ) : ℂ) * z) - Complex.sin (2 * (n : ℂ) * z) := by
  have h1 : 2 * ((n + 2 : ℕ) : ℂ) * z = 2 * ((n + 1 : ℕ) : ℂ) * z + 2 * z := by push_cast; ring
  have h2 : 2 * (n : ℂ) * z = 2 * ((n + 1 : ℕ) : ℂ) * z - 2 * z := by push_cast; ring
  rw [h1, h2, Complex.sin_add, Complex.sin_sub]; ring

theorem cos_rec (z : ℂ) (n : ℕ) : Complex.cos (2 * ((n + 2 : ℕ) : ℂ) * z) = 2 * Complex.cos (2 * z) * Complex.cos (2 * ((n + 1 : ℕ) : ℂ) * z) - Complex.cos (2 * (n : ℂ) * z) := by
  have h1 : 2 * ((n + 2 : ℕ) : ℂ) * z = 2 * ((n + 1 : ℕ) : ℂ) * z + 2 * z := by push_cast; ring
  have h2 : 2 * (n : ℂ) * z = 2 * ((n + 1 : ℕ) : ℂ) * z - 2 * z := by push_cast; ring
  rw [h1, h2, Complex.cos_add, Complex.cos_sub]; ring

theorem cosh_real (x : ℝ) : TM.cosh x = Real.cosh x := by
  unfold TM.cosh
  rw [Real.cosh_eq]
  show (Real.exp x + Real.exp (-x)) / ((2 : ℕ) : ℝ) = _
  push_cast; ring

theorem cos2z (ξ η : ℝ) : (⟨Real.cos (2 * ξ) * Real.cosh (2 * η), -(Real.sin (2 * ξ) * Real.sinh (2 * η))⟩ : ℂ) = Complex.cos (2 * (⟨ξ, η⟩ : ℂ)) := by
  have : (2 * (⟨ξ, η⟩ : ℂ)) = ((2 * ξ : ℝ) : ℂ) + ((2 * η : ℝ) : ℂ) * Complex.I := by
    apply Complex.ext <;> simp
  rw [this, Complex.cos_add_mul_I]
  apply Complex.ext <;> simp [← Complex.ofReal_cos, ← Complex.ofReal_sin, ← Complex.ofReal_cosh, ← Complex.ofReal_sinh, -Complex.ofReal_mul]

theorem sin2z (ξ η : ℝ) : (⟨Real.sin (2 * ξ) * Real.cosh (2 * η), Real.cos (2 * ξ) * Real.sinh (2 * η)⟩ : ℂ) = Complex.sin (2 * (⟨ξ, η⟩ : ℂ)) := by
  have : (2 * (⟨ξ, η⟩ : ℂ)) = ((2 * ξ : ℝ) : ℂ) + ((2 * η : ℝ) : ℂ) * Complex.I := by
    apply Complex.ext <;> simp
  rw [this, Complex.sin_add_mul_I]
  apply Complex.ext <;> simp [← Complex.ofReal_cos, ← Complex.ofReal_sin, ← Complex.ofReal_cosh, ← Complex.ofReal_sinh, -Complex.ofReal_mul]

/-- `Σ_j cs[j] · sin(2 (k+1+j) ζ)` -/
noncomputable def sinSum (ζ : ℂ) : ℕ → List ℝ → ℂ
  | _, [] => 0
  | k, c :: cs => (c : ℂ) * Complex.sin (2 * ((k + 1 : ℕ) : ℂ) * ζ) + sinSum ζ (k + 1) cs

/-- `Σ_j 2 (k+1+j) · cs[j] · cos(2 (k+1+j) ζ)` -/
noncomputable def dcosSum (ζ : ℂ) : ℕ → List ℝ → ℂ
  | _, [] => 0
  | k, c :: cs => 2 * ((k + 1 : ℕ) : ℂ) * (c : ℂ) * Complex.cos (2 * ((k + 1 : ℕ) : ℂ) * ζ) + dcosSum ζ (k + 1) cs

theorem sinSum_wsum (ζ : ℂ) (k : ℕ) (cs : List ℝ) :
    sinSum ζ k cs = wsum (fun n => Complex.sin (2 * (n : ℂ) * ζ)) k (cs.map Complex.ofReal) := by
  induction cs generalizing k with
  | nil => rfl
  | cons c cs ih => simp only [sinSum, List.map_cons, wsum, ih]

theorem dcosSum_wsum (ζ : ℂ) (k : ℕ) (cs : List ℝ) :
    dcosSum ζ k cs = wsum (fun n => Complex.cos (2 * (n : ℂ) * ζ)) k ((dcoeffs (k + 1) cs).map Complex.ofReal) := by
  induction cs generalizing k with
  | nil => rfl
  | cons c cs ih =>
    simp only [dcosSum, dcoeffs, List.map_cons, wsum, ih]
    congr 1
    simp [ofNat_real]

theorem sinh_real (x : ℝ) : RealLike.sinh x = Real.sinh x := rfl

/-- **complex Clenshaw summation of the Krüger series** (`Forward`: `cs = alp`, `Reverse`: `cs = −bet`): for every coefficient vector and every
    `ζ = ξ + iη` the paired real recurrences of the code return `ζ + Σ_j c_j sin 2jζ` and its derivative `1 + Σ_j 2j c_j cos 2jζ` -/
theorem clenshaw_complex (cs : List ℝ) (ξ η : ℝ) :
    toC (kr cs ξ η).1 = (⟨ξ, η⟩ : ℂ) + sinSum ⟨ξ, η⟩ 0 cs ∧
    toC (kr cs ξ η).2 = 1 + dcosSum ⟨ξ, η⟩ 0 cs := by
  set ζ : ℂ := ⟨ξ, η⟩ with hζ
  have hA : toC (⟨(2 : ℝ) * Real.cos (2 * ξ) * Real.cosh (2 * η), -((2 : ℝ) * Real.sin (2 * ξ) * Real.sinh (2 * η))⟩ : Cx ℝ) = 2 * Complex.cos (2 * ζ) := by
    rw [← cos2z]; apply Complex.ext <;> simp [toC] <;> ring
  have hS := clenshaw_ring (2 * Complex.cos (2 * ζ)) (fun n => Complex.sin (2 * (n : ℂ) * ζ)) (fun n => sin_rec ζ n)
  have hC := clenshaw_ring (2 * Complex.cos (2 * ζ)) (fun n => Complex.cos (2 * (n : ℂ) * ζ)) (fun n => cos_rec ζ n)
  have hs : toC (⟨Real.sin (2 * ξ) * Real.cosh (2 * η), Real.cos (2 * ξ) * Real.sinh (2 * η)⟩ : Cx ℝ) = Complex.sin (2 * ζ) := by
    rw [← sin2z]; rfl
  have hc : toC (⟨Real.cos (2 * ξ) * Real.cosh (2 * η), -(Real.sin (2 * ξ) * Real.sinh (2 * η))⟩ : Cx ℝ) = Complex.cos (2 * ζ) := by
    rw [← cos2z]; rfl
  have hz : toC (⟨ξ, η⟩ : Cx ℝ) = ζ := rfl
  have h10 : toC (⟨(1 : ℝ), (0 : ℝ)⟩ : Cx ℝ) = 1 := by apply Complex.ext <;> simp [toC]
  constructor
  · have h := clenC_toC (⟨(2 : ℝ) * Real.cos (2 * ξ) * Real.cosh (2 * η), -((2 : ℝ) * Real.sin (2 * ξ) * Real.sinh (2 * η))⟩ : Cx ℝ) cs
    rw [hA] at h
    have h1 := congrArg Prod.fst h
    simp only at h1
    rw [sinSum_wsum, hS _ 0, ← h1]
    simp only [kr, lit_real, cos_real, sin_real, cosh_real, sinh_real, toC_add, toC_mul]
    push_cast
    rw [hs, hz]
    simp
    ring
  · have h := clenC_toC (⟨(2 : ℝ) * Real.cos (2 * ξ) * Real.cosh (2 * η), -((2 : ℝ) * Real.sin (2 * ξ) * Real.sinh (2 * η))⟩ : Cx ℝ) (dcoeffs 1 cs)
    rw [hA] at h
    have h1 := congrArg Prod.fst h
    have h2 := congrArg Prod.snd h
    simp only at h1 h2
    rw [dcosSum_wsum, hC _ 0, ← h1, ← h2]
    simp only [kr, lit_real, cos_real, sin_real, cosh_real, sinh_real, ofNat_real, toC_add, toC_sub, toC_mul]
    push_cast
    rw [hc, h10]
    simp
    ring

end GeoVerif.Proofs.TM
