import GeoVerif.Proofs.DMSClosure
import GeoVerif.Proofs.DMSRound
import GeoVerif.Proofs.DMSStrVal
import Mathlib.Tactic.Ring
import Mathlib.Tactic.FieldSimp
import Mathlib.Tactic.Linarith
import Mathlib.Tactic.Positivity
/-!
# `Decode (Encode x)` is within half a unit of the last printed digit of `x`, plus round-off: the composition
-/
namespace GeoVerif.DMSProofs
open GeoVerif GeoVerif.DMS GeoVerif.Gen GeoVerif.Decimal

/-! ## the printed fields re-assemble to `idegree + units / (scale·10^prec)` exactly -/

theorem natDivMod_cast (a b : ℕ) : (a : ℚ) = ((a / b : ℕ) : ℚ) * b + ((a % b : ℕ) : ℚ) := by
  have := Nat.div_add_mod a b
  have h : ((b * (a / b) + a % b : ℕ) : ℚ) = (a : ℚ) := by rw [this]
  push_cast at h; rw [← h]; ring

theorem splitFields_one (i : ℕ) : splitFields 1 i = (i / 60, i % 60, 0) := by
  simp [splitFields, DMSC.compMINUTE, MathC.dm]
theorem splitFields_two (i : ℕ) : splitFields 2 i = (i / 60 / 60, i / 60 % 60, i % 60) := by
  simp [splitFields, DMSC.compMINUTE, DMSC.compSECOND, MathC.dm, MathC.ms]

theorem printed_minute (u P ideg : ℕ) :
    (((splitFields 1 (u / 10 ^ P)).1 + ideg : ℕ) : ℚ) + (((splitFields 1 (u / 10 ^ P)).2.1 : ℚ) + ((u % 10 ^ P : ℕ) : ℚ) / 10 ^ P) / 60
      = ideg + (u : ℚ) / (60 * 10 ^ P) := by
  have h1 := natDivMod_cast u (10 ^ P)
  have h2 := natDivMod_cast (u / 10 ^ P) 60
  rw [splitFields_one]
  simp only
  have hp : (0:ℚ) < 10 ^ P := by positivity
  push_cast at h1 h2 ⊢
  rw [h1]
  rw [h2]
  field_simp
  ring

theorem printed_second (u P ideg : ℕ) :
    (((splitFields 2 (u / 10 ^ P)).1 + ideg : ℕ) : ℚ) + ((splitFields 2 (u / 10 ^ P)).2.1 : ℚ) / 60 +
      (((splitFields 2 (u / 10 ^ P)).2.2 : ℚ) + ((u % 10 ^ P : ℕ) : ℚ) / 10 ^ P) / 3600
      = ideg + (u : ℚ) / (3600 * 10 ^ P) := by
  have h1 := natDivMod_cast u (10 ^ P)
  have h2 := natDivMod_cast (u / 10 ^ P) 60
  have h3 := natDivMod_cast (u / 10 ^ P / 60) 60
  rw [splitFields_two]
  simp only
  have hp : (0:ℚ) < 10 ^ P := by positivity
  push_cast at h1 h2 h3 ⊢
  rw [h1, h2, h3]
  field_simp
  ring

theorem printed_degree (u P : ℕ) :
    ((u / 10 ^ P : ℕ) : ℚ) + ((u % 10 ^ P : ℕ) : ℚ) / 10 ^ P = (u : ℚ) / 10 ^ P := by
  have h1 := natDivMod_cast u (10 ^ P)
  have hp : (0:ℚ) < 10 ^ P := by positivity
  push_cast at h1 ⊢
  rw [h1]
  field_simp

/-! ## values and well-formedness of the `Num` records of the grammar -/

theorem numVal_numOf (X : Bytes) : numVal (numOf X) = (digitsVal 0 X : ℚ) := rfl
theorem numOK_numOf (X : Bytes) : NumOK (numOf X) := fun h => Bool.noConfusion h

theorem numVal_lastNum (X F : Bytes) : numVal (lastNum X F) = (digitsVal 0 X : ℚ) + (digitsVal 0 F : ℚ) / 10 ^ F.length := by
  unfold lastNum
  split
  · rename_i h; subst h
    show ((digitsVal 0 X : ℕ) : ℚ) = _
    simp [digitsVal]
  · rfl

theorem numOK_lastNum (X F : Bytes) (hF : AllDigits F) (hl : F.length ≤ 15) : NumOK (lastNum X F) := by
  unfold lastNum
  split
  · exact numOK_numOf X
  · intro _
    exact ⟨hl, digitsVal_lt F hF⟩

theorem lastNum_int (X F : Bytes) : (lastNum X F).int = digitsVal 0 X := by
  unfold lastNum; split <;> rfl

theorem clampPrec_le15 (t p : ℕ) : clampPrec t p ≤ 15 := by unfold clampPrec; omega

/-! ## the decoder side on top of a bound for the printed value -/

/-- if the printed value `V` of the slots is within `B` of `X ≥ 0`, the decoded value (after the addition to `-0`) is
    within `B + 4·2⁻⁵³·(X + B)` of `±X` -/
theorem roundtrip_core (neg : Bool) (sl : Slots) (X B : ℚ)
    (hD : sl.d.int < 2 ^ 41) (hM : sl.m.int < 60) (hS : sl.s.int < 60)
    (hd : NumOK sl.d) (hm : NumOK sl.m) (hs : NumOK sl.s)
    (hlast_s : numVal sl.s ≠ 0 → sl.d.point = false ∧ sl.m.point = false)
    (hlast_m : numVal sl.m ≠ 0 → sl.d.point = false)
    (hV : |(numVal sl.d + numVal sl.m / 60 + numVal sl.s / 3600 - X)| ≤ B) :
    ∃ v : F64, evalSlots neg sl = .ok v ∧ (F64.add F64.nzero v).isFinite = true ∧
      |((F64.add F64.nzero v).val - (if neg then -X else X))| ≤ B + 4 * (2:ℚ) ^ (-(53:ℤ)) * (X + B) := by
  obtain ⟨v, hv, hrep, hvb, hve⟩ := evalSlots_bound neg sl hD hM hS hd hm hs hlast_s hlast_m
  set V : ℚ := numVal sl.d + numVal sl.m / 60 + numVal sl.s / 3600 with hVdef
  have h1024 : |v.val| < (2:ℚ) ^ (1024:ℤ) := lt_huge_of_le53 hvb
  obtain ⟨hfin, hval⟩ := add_nzero_exact v hrep h1024
  refine ⟨v, hv, hfin, ?_⟩
  rw [hval]
  have hu : (0:ℚ) < 4 * (2:ℚ) ^ (-(53:ℤ)) := by have := two_m53_pos; linarith
  have hVX : V ≤ X + B := by have := (abs_le.mp hV).2; linarith
  have h4 : 4 * (2:ℚ) ^ (-(53:ℤ)) * V ≤ 4 * (2:ℚ) ^ (-(53:ℤ)) * (X + B) := mul_le_mul_of_nonneg_left hVX hu.le
  have hV' := abs_le.mp hV
  have hve' := abs_le.mp hve
  rw [abs_le]
  cases neg
  · simp only [Bool.false_eq_true, if_false] at hve' ⊢
    constructor <;> linarith [hve'.1, hve'.2, hV'.1, hV'.2]
  · simp only [if_true] at hve' ⊢
    constructor <;> linarith [hve'.1, hve'.2, hV'.1, hV'.2]


/-! ## the encoder side: facts about the printed fields -/

theorem val_sign (s : Bool) (m : ℕ) (e : ℤ) :
    (F64.fin s m e).val = if s then -|(F64.fin s m e).val| else |(F64.fin s m e).val| := by
  rw [abs_val_fin, F64.val_fin]
  cases s <;> simp

theorem readNeg_of_ne_azi (ind : Flag) (neg : Bool) (h : ind ≠ Flag.azi) : readNeg ind neg = neg := by
  simp [readNeg, h]

/-- whole degrees as a natural number -/
theorem floor_nat (X : ℚ) (hX : 0 ≤ X) (hb : X < 2 ^ 40) :
    ∃ k : ℕ, ((⌊X⌋ : ℤ) : ℚ) = (k : ℚ) ∧ k < 2 ^ 40 := by
  have h0 : 0 ≤ ⌊X⌋ := Int.floor_nonneg.mpr hX
  refine ⟨⌊X⌋.toNat, ?_, ?_⟩
  · have : ((⌊X⌋.toNat : ℕ) : ℤ) = ⌊X⌋ := Int.toNat_of_nonneg h0
    exact_mod_cast this.symm
  · have h1 : ((⌊X⌋ : ℤ) : ℚ) ≤ X := Int.floor_le X
    have h2 : ((⌊X⌋.toNat : ℕ) : ℤ) = ⌊X⌋ := Int.toNat_of_nonneg h0
    have h3 : ((⌊X⌋.toNat : ℕ) : ℚ) = ((⌊X⌋ : ℤ) : ℚ) := by exact_mod_cast h2
    have h4 : ((⌊X⌋.toNat : ℕ) : ℚ) < ((2 ^ 40 : ℕ) : ℚ) := by rw [h3]; push_cast; linarith
    exact_mod_cast h4

/-- the rounded count of whole trailing units does not exceed one degree -/
theorem units_div_le (u P sc : ℕ) (h : (u : ℚ) ≤ (sc : ℚ) * 10 ^ P) : u / 10 ^ P ≤ sc := by
  have h' : u ≤ sc * 10 ^ P := by exact_mod_cast h
  exact Nat.div_le_of_le_mul (by rw [Nat.mul_comm]; exact h')

/-- the degrees field: carry + whole degrees, exactly -/
theorem degree_field (cd k : ℕ) (idg : F64) (hf : idg.isFinite = true) (hk : idg.val = k) (hb : cd + k ≤ 2 ^ 53) :
    fixedUnits (F64.add (F64.ofNat cd) idg) 0 = cd + k := by
  obtain ⟨h1, h2⟩ := add_carry_exact cd idg hf k hk hb
  exact fixedUnits_int _ h1 (cd + k) h2


/-! ## the round trip -/

/-- the round-trip bound: half a unit of the last printed digit, the round-off `2⁻⁵³` of the scaling in `Encode`, and
    `4·2⁻⁵³` relative for the three roundings of `Decode` -/
def rtBound (t p : ℕ) (X : ℚ) : ℚ :=
  ((1 / 2) / ((scaleOf t : ℚ) * 10 ^ clampPrec t p) + (2:ℚ) ^ (-(53:ℤ))) +
    4 * (2:ℚ) ^ (-(53:ℤ)) * (X + ((1 / 2) / ((scaleOf t : ℚ) * 10 ^ clampPrec t p) + (2:ℚ) ^ (-(53:ℤ))))

theorem roundtrip_second_gen (s : Bool) (m : ℕ) (e : ℤ) (p : ℕ) (ind : Flag) (sep : ℕ) (hsep : sep = 0 ∨ sep = 58)
    (hN : ind ≠ Flag.num) (s0 : Bool) (m0 : ℕ) (e0 : ℤ) (ind0 : Flag) (hA0 : ind0 ≠ Flag.azi)
    (hx : F64.IsRep (F64.fin s0 m0 e0)) (hb : |(F64.fin s0 m0 e0).val| < 2 ^ 40)
    (hhead : encodeHead (F64.fin s m e) 2 p ind = encodeHead (F64.fin s0 m0 e0) 2 p ind0)
    (hsgn : (if readNeg ind s0 then -|(F64.fin s0 m0 e0).val| else |(F64.fin s0 m0 e0).val|) = (F64.fin s0 m0 e0).val) :
    ∃ y : F64, decode (encode (F64.fin s m e) 2 p ind sep) = .ok (y, readFlag ind) ∧ y.isFinite = true ∧
      |(y.val - (F64.fin s0 m0 e0).val)| ≤ rtBound 2 p |(F64.fin s0 m0 e0).val| := by
  obtain ⟨D, M, S, F, hD, hM, hS, hF, nD, nM, nS, hl, v1, v2, v3, v4, henc⟩ := encode_shape s m e 2 p ind sep (by omega)
  obtain ⟨a1, a2, a3, a4, a5, a6, a7⟩ := encodeHead_bound_ms s0 m0 e0 hx 2 p (Or.inr rfl) ind0 hA0
  rw [← hhead] at a1 a2 a3 a4 a5 a6 a7
  obtain ⟨k, hk, hk40⟩ := floor_nat |(F64.fin s0 m0 e0).val| (abs_nonneg _) hb
  rw [hk] at a5
  have hsc : ((scaleOf 2 : ℕ) : ℚ) = 3600 := by simp [scaleOf, DMSC.compMINUTE, DMSC.compSECOND]
  rw [hsc] at a6 a7
  generalize hh : encodeHead (F64.fin s m e) 2 p ind = h at *
  have hi : h.units / 10 ^ clampPrec 2 p ≤ 3600 := units_div_le _ _ 3600 (by exact_mod_cast a7)
  have hcd : (splitFields 2 (h.units / 10 ^ clampPrec 2 p)).1 ≤ 1 := by rw [splitFields_two]; simp only; omega
  have hmi : (splitFields 2 (h.units / 10 ^ clampPrec 2 p)).2.1 < 60 := by rw [splitFields_two]; simp only; omega
  have hse : (splitFields 2 (h.units / 10 ^ clampPrec 2 p)).2.2 < 60 := by rw [splitFields_two]; simp only; omega
  have e1 : (encFields h 2).1 = (splitFields 2 (h.units / 10 ^ clampPrec 2 p)).1 + k := by
    simp only [encFields, a2]
    exact degree_field _ k h.idegree a3 a5 (by omega)
  have e2 : (encFields h 2).2.1 = (splitFields 2 (h.units / 10 ^ clampPrec 2 p)).2.1 := by simp [encFields, a2]
  have e3 : (encFields h 2).2.2.1 = (splitFields 2 (h.units / 10 ^ clampPrec 2 p)).2.2 := by simp [encFields, a2]
  have e4 : (encFields h 2).2.2.2 = h.units % 10 ^ clampPrec 2 p := by simp [encFields, a2]
  rw [e1] at v1; rw [e2] at v2; rw [e3] at v3; rw [e4] at v4
  have hsl : slotsOf 2 D M S F = { d := numOf D, m := numOf M, s := lastNum S F } := rfl
  have hVeq : numVal (numOf D) + numVal (numOf M) / 60 + numVal (lastNum S F) / 3600 =
      (k : ℚ) + (h.units : ℚ) / (3600 * 10 ^ clampPrec 2 p) := by
    rw [numVal_numOf, numVal_numOf, numVal_lastNum, v1, v2, v3, v4, hl]
    exact printed_second h.units (clampPrec 2 p) k
  have hV : |(numVal (numOf D) + numVal (numOf M) / 60 + numVal (lastNum S F) / 3600 - |(F64.fin s0 m0 e0).val|)| ≤
      (1 / 2) / (3600 * 10 ^ clampPrec 2 p) + (2:ℚ) ^ (-(53:ℤ)) := by
    rw [hVeq, ← a5]; exact a6
  obtain ⟨v, hv, hfin, hbound⟩ := roundtrip_core (readNeg ind h.neg) (slotsOf 2 D M S F) |(F64.fin s0 m0 e0).val|
    ((1 / 2) / (3600 * 10 ^ clampPrec 2 p) + (2:ℚ) ^ (-(53:ℤ)))
    (by rw [hsl]; show digitsVal 0 D < 2 ^ 41; rw [v1]; omega)
    (by rw [hsl]; show digitsVal 0 M < 60; rw [v2]; exact hmi)
    (by rw [hsl]; show (lastNum S F).int < 60; rw [lastNum_int, v3]; exact hse)
    (by rw [hsl]; exact numOK_numOf D) (by rw [hsl]; exact numOK_numOf M)
    (by rw [hsl]; exact numOK_lastNum S F hF (by rw [hl]; exact clampPrec_le15 2 p))
    (by intro _; exact ⟨rfl, rfl⟩) (by intro _; rfl) (by rw [hsl]; exact hV)
  refine ⟨F64.add F64.nzero v, ?_, hfin, ?_⟩
  · rw [henc]
    exact decode_layout 2 sep D M S F ind h.neg v (by omega) hsep hN hD hM hS hF nD nM nS hv
  · rw [a1, hsgn] at hbound
    unfold rtBound
    rw [hsc]
    exact hbound


theorem roundtrip_second (s : Bool) (m : ℕ) (e : ℤ) (hx : F64.IsRep (F64.fin s m e)) (hb : |(F64.fin s m e).val| < 2 ^ 40)
    (p : ℕ) (ind : Flag) (hind : ind = Flag.none ∨ ind = Flag.lat ∨ ind = Flag.lon) (sep : ℕ) (hsep : sep = 0 ∨ sep = 58) :
    ∃ y : F64, decode (encode (F64.fin s m e) 2 p ind sep) = .ok (y, readFlag ind) ∧ y.isFinite = true ∧
      |(y.val - (F64.fin s m e).val)| ≤ rtBound 2 p |(F64.fin s m e).val| := by
  have hA : ind ≠ Flag.azi := by rcases hind with rfl | rfl | rfl <;> decide
  have hN : ind ≠ Flag.num := by rcases hind with rfl | rfl | rfl <;> decide
  exact roundtrip_second_gen s m e p ind sep hsep hN s m e ind hA hx hb rfl
    (by rw [readNeg_of_ne_azi ind s hA]; exact (val_sign s m e).symm)

theorem roundtrip_minute_gen (s : Bool) (m : ℕ) (e : ℤ) (p : ℕ) (ind : Flag) (sep : ℕ) (hsep : sep = 0 ∨ sep = 58)
    (hN : ind ≠ Flag.num) (s0 : Bool) (m0 : ℕ) (e0 : ℤ) (ind0 : Flag) (hA0 : ind0 ≠ Flag.azi)
    (hx : F64.IsRep (F64.fin s0 m0 e0)) (hb : |(F64.fin s0 m0 e0).val| < 2 ^ 40)
    (hhead : encodeHead (F64.fin s m e) 1 p ind = encodeHead (F64.fin s0 m0 e0) 1 p ind0)
    (hsgn : (if readNeg ind s0 then -|(F64.fin s0 m0 e0).val| else |(F64.fin s0 m0 e0).val|) = (F64.fin s0 m0 e0).val) :
    ∃ y : F64, decode (encode (F64.fin s m e) 1 p ind sep) = .ok (y, readFlag ind) ∧ y.isFinite = true ∧
      |(y.val - (F64.fin s0 m0 e0).val)| ≤ rtBound 1 p |(F64.fin s0 m0 e0).val| := by
  obtain ⟨D, M, S, F, hD, hM, hS, hF, nD, nM, nS, hl, v1, v2, v3, v4, henc⟩ := encode_shape s m e 1 p ind sep (by omega)
  obtain ⟨a1, a2, a3, a4, a5, a6, a7⟩ := encodeHead_bound_ms s0 m0 e0 hx 1 p (Or.inl rfl) ind0 hA0
  rw [← hhead] at a1 a2 a3 a4 a5 a6 a7
  obtain ⟨k, hk, hk40⟩ := floor_nat |(F64.fin s0 m0 e0).val| (abs_nonneg _) hb
  rw [hk] at a5
  have hsc : ((scaleOf 1 : ℕ) : ℚ) = 60 := by simp [scaleOf, DMSC.compMINUTE]
  rw [hsc] at a6 a7
  generalize hh : encodeHead (F64.fin s m e) 1 p ind = h at *
  have hi : h.units / 10 ^ clampPrec 1 p ≤ 60 := units_div_le _ _ 60 (by exact_mod_cast a7)
  have hcd : (splitFields 1 (h.units / 10 ^ clampPrec 1 p)).1 ≤ 1 := by rw [splitFields_one]; simp only; omega
  have hmi : (splitFields 1 (h.units / 10 ^ clampPrec 1 p)).2.1 < 60 := by rw [splitFields_one]; simp only; omega
  have e1 : (encFields h 1).1 = (splitFields 1 (h.units / 10 ^ clampPrec 1 p)).1 + k := by
    simp only [encFields, a2]
    exact degree_field _ k h.idegree a3 a5 (by omega)
  have e2 : (encFields h 1).2.1 = (splitFields 1 (h.units / 10 ^ clampPrec 1 p)).2.1 := by simp [encFields, a2]
  have e4 : (encFields h 1).2.2.2 = h.units % 10 ^ clampPrec 1 p := by simp [encFields, a2]
  rw [e1] at v1; rw [e2] at v2; rw [e4] at v4
  have hsl : slotsOf 1 D M S F = { d := numOf D, m := lastNum M F } := rfl
  have hVeq : numVal (numOf D) + numVal (lastNum M F) / 60 + numVal ({} : Num) / 3600 =
      (k : ℚ) + (h.units : ℚ) / (60 * 10 ^ clampPrec 1 p) := by
    rw [numVal_numOf, numVal_lastNum, numVal_empty, v1, v2, v4, hl, zero_div, add_zero]
    exact printed_minute h.units (clampPrec 1 p) k
  have hV : |(numVal (numOf D) + numVal (lastNum M F) / 60 + numVal ({} : Num) / 3600 - |(F64.fin s0 m0 e0).val|)| ≤
      (1 / 2) / (60 * 10 ^ clampPrec 1 p) + (2:ℚ) ^ (-(53:ℤ)) := by
    rw [hVeq, ← a5]; exact a6
  obtain ⟨v, hv, hfin, hbound⟩ := roundtrip_core (readNeg ind h.neg) (slotsOf 1 D M S F) |(F64.fin s0 m0 e0).val|
    ((1 / 2) / (60 * 10 ^ clampPrec 1 p) + (2:ℚ) ^ (-(53:ℤ)))
    (by rw [hsl]; show digitsVal 0 D < 2 ^ 41; rw [v1]; omega)
    (by rw [hsl]; show (lastNum M F).int < 60; rw [lastNum_int, v2]; exact hmi)
    (by rw [hsl]; show (0:ℕ) < 60; omega)
    (by rw [hsl]; exact numOK_numOf D)
    (by rw [hsl]; exact numOK_lastNum M F hF (by rw [hl]; exact clampPrec_le15 1 p))
    (by rw [hsl]; exact numOK_empty)
    (by rw [hsl]; intro hne; exact absurd numVal_empty hne) (by intro _; rfl) (by rw [hsl]; exact hV)
  refine ⟨F64.add F64.nzero v, ?_, hfin, ?_⟩
  · rw [henc]
    exact decode_layout 1 sep D M S F ind h.neg v (by omega) hsep hN hD hM hS hF nD nM nS hv
  · rw [a1, hsgn] at hbound
    unfold rtBound
    rw [hsc]
    exact hbound

theorem roundtrip_minute (s : Bool) (m : ℕ) (e : ℤ) (hx : F64.IsRep (F64.fin s m e)) (hb : |(F64.fin s m e).val| < 2 ^ 40)
    (p : ℕ) (ind : Flag) (hind : ind = Flag.none ∨ ind = Flag.lat ∨ ind = Flag.lon) (sep : ℕ) (hsep : sep = 0 ∨ sep = 58) :
    ∃ y : F64, decode (encode (F64.fin s m e) 1 p ind sep) = .ok (y, readFlag ind) ∧ y.isFinite = true ∧
      |(y.val - (F64.fin s m e).val)| ≤ rtBound 1 p |(F64.fin s m e).val| := by
  have hA : ind ≠ Flag.azi := by rcases hind with rfl | rfl | rfl <;> decide
  have hN : ind ≠ Flag.num := by rcases hind with rfl | rfl | rfl <;> decide
  exact roundtrip_minute_gen s m e p ind sep hsep hN s m e ind hA hx hb rfl
    (by rw [readNeg_of_ne_azi ind s hA]; exact (val_sign s m e).symm)

theorem roundtrip_degree_gen (s : Bool) (m : ℕ) (e : ℤ) (p : ℕ) (ind : Flag) (sep : ℕ) (hsep : sep = 0 ∨ sep = 58)
    (hN : ind ≠ Flag.num) (s0 : Bool) (m0 : ℕ) (e0 : ℤ) (ind0 : Flag) (hA0 : ind0 ≠ Flag.azi)
    (hx : F64.IsRep (F64.fin s0 m0 e0)) (hb : |(F64.fin s0 m0 e0).val| < 2 ^ 40)
    (hhead : encodeHead (F64.fin s m e) 0 p ind = encodeHead (F64.fin s0 m0 e0) 0 p ind0)
    (hsgn : (if readNeg ind s0 then -|(F64.fin s0 m0 e0).val| else |(F64.fin s0 m0 e0).val|) = (F64.fin s0 m0 e0).val) :
    ∃ y : F64, decode (encode (F64.fin s m e) 0 p ind sep) = .ok (y, readFlag ind) ∧ y.isFinite = true ∧
      |(y.val - (F64.fin s0 m0 e0).val)| ≤ rtBound 0 p |(F64.fin s0 m0 e0).val| := by
  have hb' : |(F64.fin s0 m0 e0).val| < (2:ℚ) ^ (1024:ℤ) := by
    have h1 : (2:ℚ) ^ (40:ℕ) < (2:ℚ) ^ (1024:ℤ) := by
      rw [← zpow_natCast]; exact Dy.two_zpow_lt_iff.mpr (by norm_num)
    exact lt_trans hb h1
  obtain ⟨D, M, S, F, hD, hM, hS, hF, nD, nM, nS, hl, v1, v2, v3, v4, henc⟩ := encode_shape s m e 0 p ind sep (by omega)
  obtain ⟨a1, a2, a3, a4, a5, a6⟩ := encodeHead_bound_deg s0 m0 e0 hx hb' p ind0 hA0
  rw [← hhead] at a1 a2 a3 a4 a5 a6
  have hsc : ((scaleOf 0 : ℕ) : ℚ) = 1 := by simp [scaleOf, DMSC.compMINUTE, DMSC.compSECOND]
  generalize hh : encodeHead (F64.fin s m e) 0 p ind = h at *
  have e1 : (encFields h 0).1 = h.units / 10 ^ clampPrec 0 p := by simp [encFields, a2]
  have e4 : (encFields h 0).2.2.2 = h.units % 10 ^ clampPrec 0 p := by simp [encFields, a2]
  rw [e1] at v1; rw [e4] at v4
  have hsl : slotsOf 0 D M S F = { d := lastNum D F } := rfl
  have hp10 : (0:ℚ) < 10 ^ clampPrec 0 p := by positivity
  have hVeq : numVal (lastNum D F) + numVal ({} : Num) / 60 + numVal ({} : Num) / 3600 =
      (h.units : ℚ) / 10 ^ clampPrec 0 p := by
    rw [numVal_lastNum, numVal_empty, v1, v4, hl, zero_div, zero_div, add_zero, add_zero]
    exact printed_degree h.units (clampPrec 0 p)
  have hV : |(numVal (lastNum D F) + numVal ({} : Num) / 60 + numVal ({} : Num) / 3600 - |(F64.fin s0 m0 e0).val|)| ≤
      (1 / 2) / (1 * 10 ^ clampPrec 0 p) + (2:ℚ) ^ (-(53:ℤ)) := by
    rw [hVeq, one_mul]
    have := two_m53_pos
    linarith
  have hDlt : digitsVal 0 D < 2 ^ 41 := by
    rw [v1]
    have h1 : ((h.units / 10 ^ clampPrec 0 p : ℕ) : ℚ) ≤ (h.units : ℚ) / 10 ^ clampPrec 0 p := by
      rw [le_div_iff₀ hp10]
      have := Nat.div_mul_le_self h.units (10 ^ clampPrec 0 p)
      exact_mod_cast this
    have h2 := (abs_le.mp a6).2
    have h3 : (1:ℚ) / 2 / 10 ^ clampPrec 0 p ≤ 1 / 2 := by
      rw [div_le_iff₀ hp10]
      have : (1:ℚ) ≤ 10 ^ clampPrec 0 p := one_le_pow₀ (by norm_num)
      linarith
    have h4 : ((h.units / 10 ^ clampPrec 0 p : ℕ) : ℚ) < ((2 ^ 41 : ℕ) : ℚ) := by
      push_cast
      have : (2:ℚ) ^ 40 + 1 / 2 < 2 ^ 41 := by norm_num
      linarith
    exact_mod_cast h4
  obtain ⟨v, hv, hfin, hbound⟩ := roundtrip_core (readNeg ind h.neg) (slotsOf 0 D M S F) |(F64.fin s0 m0 e0).val|
    ((1 / 2) / (1 * 10 ^ clampPrec 0 p) + (2:ℚ) ^ (-(53:ℤ)))
    (by rw [hsl]; show (lastNum D F).int < 2 ^ 41; rw [lastNum_int]; exact hDlt)
    (by rw [hsl]; show (0:ℕ) < 60; omega)
    (by rw [hsl]; show (0:ℕ) < 60; omega)
    (by rw [hsl]; exact numOK_lastNum D F hF (by rw [hl]; exact clampPrec_le15 0 p))
    (by rw [hsl]; exact numOK_empty) (by rw [hsl]; exact numOK_empty)
    (by rw [hsl]; intro hne; exact absurd numVal_empty hne)
    (by rw [hsl]; intro hne; exact absurd numVal_empty hne) (by rw [hsl]; exact hV)
  refine ⟨F64.add F64.nzero v, ?_, hfin, ?_⟩
  · rw [henc]
    exact decode_layout 0 sep D M S F ind h.neg v (by omega) hsep hN hD hM hS hF nD nM nS hv
  · rw [a1, hsgn] at hbound
    unfold rtBound
    rw [hsc]
    exact hbound

theorem roundtrip_degree (s : Bool) (m : ℕ) (e : ℤ) (hx : F64.IsRep (F64.fin s m e)) (hb : |(F64.fin s m e).val| < 2 ^ 40)
    (p : ℕ) (ind : Flag) (hind : ind = Flag.none ∨ ind = Flag.lat ∨ ind = Flag.lon) (sep : ℕ) (hsep : sep = 0 ∨ sep = 58) :
    ∃ y : F64, decode (encode (F64.fin s m e) 0 p ind sep) = .ok (y, readFlag ind) ∧ y.isFinite = true ∧
      |(y.val - (F64.fin s m e).val)| ≤ rtBound 0 p |(F64.fin s m e).val| := by
  have hA : ind ≠ Flag.azi := by rcases hind with rfl | rfl | rfl <;> decide
  have hN : ind ≠ Flag.num := by rcases hind with rfl | rfl | rfl <;> decide
  exact roundtrip_degree_gen s m e p ind sep hsep hN s m e ind hA hx hb rfl
    (by rw [readNeg_of_ne_azi ind s hA]; exact (val_sign s m e).symm)

/-- **the round trip, all three trailing units** -/
theorem roundtrip_all (s : Bool) (m : ℕ) (e : ℤ) (hx : F64.IsRep (F64.fin s m e)) (hb : |(F64.fin s m e).val| < 2 ^ 40)
    (t p : ℕ) (ht : t ≤ 2) (ind : Flag) (hind : ind = Flag.none ∨ ind = Flag.lat ∨ ind = Flag.lon) (sep : ℕ)
    (hsep : sep = 0 ∨ sep = 58) :
    ∃ y : F64, decode (encode (F64.fin s m e) t p ind sep) = .ok (y, readFlag ind) ∧ y.isFinite = true ∧
      |(y.val - (F64.fin s m e).val)| ≤ rtBound t p |(F64.fin s m e).val| := by
  have ht' : t = 0 ∨ t = 1 ∨ t = 2 := by omega
  rcases ht' with rfl | rfl | rfl
  · exact roundtrip_degree s m e hx hb p ind hind sep hsep
  · exact roundtrip_minute s m e hx hb p ind hind sep hsep
  · exact roundtrip_second s m e hx hb p ind hind sep hsep


/-! ## AZIMUTH: `Encode` first reduces the angle to `[0, 360]` -/

/-- the angle `Encode` prints for the AZIMUTH flag: `AngNormalize`, then `+360` if negative, `0 + a` otherwise -/
def aziReduce (x : F64) : F64 :=
  if F64.lt (MathF.angNormalize x) F64.pzero then F64.add (MathF.angNormalize x) MathF.td
  else F64.add F64.pzero (MathF.angNormalize x)

theorem encodeHead_azi (x : F64) (t p : ℕ) : encodeHead x t p Flag.azi = encodeHead (aziReduce x) t p Flag.none := rfl

theorem rep_180 (s : Bool) : Rep (F64.fin s 180 0).val := by
  rw [F64.val_fin]
  cases s
  · exact ⟨180, 0, by norm_num, by norm_num, by simp⟩
  · exact ⟨-180, 0, by norm_num, by norm_num, by simp⟩

theorem angNormalize_rep (s : Bool) (m : ℕ) (e : ℤ) (hx : F64.IsRep (F64.fin s m e)) :
    F64.IsRep (MathF.angNormalize (F64.fin s m e)) ∧ |(MathF.angNormalize (F64.fin s m e)).val| ≤ 180 := by
  obtain ⟨hrep, hb⟩ := F64.remainder360_rep s m e hx
  have htd : MathF.td = F64.fin false 360 0 := rfl
  unfold MathF.angNormalize
  rw [htd]
  simp only []
  by_cases hE : F64.eq (F64.abs (F64.remainder (F64.fin s m e) (F64.fin false 360 0))) MathF.hd = true
  · rw [if_pos hE]
    have hcs : F64.copysign MathF.hd (F64.fin s m e) = F64.fin s 180 0 := rfl
    rw [hcs]
    refine ⟨⟨rfl, rep_180 s⟩, ?_⟩
    rw [F64.val_fin]; cases s <;> simp
  · rw [if_neg hE]
    exact ⟨hrep, hb⟩

theorem aziReduce_spec (s : Bool) (m : ℕ) (e : ℤ) (hx : F64.IsRep (F64.fin s m e)) :
    F64.IsRep (aziReduce (F64.fin s m e)) ∧ 0 ≤ (aziReduce (F64.fin s m e)).val ∧ (aziReduce (F64.fin s m e)).val ≤ 512 ∧
    ((MathF.angNormalize (F64.fin s m e)).val < 0 →
      RN ((MathF.angNormalize (F64.fin s m e)).val + 360) (aziReduce (F64.fin s m e)).val) ∧
    (0 ≤ (MathF.angNormalize (F64.fin s m e)).val → (aziReduce (F64.fin s m e)).val = (MathF.angNormalize (F64.fin s m e)).val) := by
  obtain ⟨⟨hfa, hra⟩, hab⟩ := angNormalize_rep s m e hx
  unfold aziReduce
  generalize MathF.angNormalize (F64.fin s m e) = a at *
  have hab' := abs_le.mp hab
  have h0 : F64.pzero.val = 0 := F64.val_fin_zero _ _
  have htdv : MathF.td.val = 360 := by
    show (F64.fin false 360 0).val = 360
    rw [F64.val_fin]; simp
  by_cases hlt : F64.lt a F64.pzero = true
  · rw [if_pos hlt]
    have hav : a.val < 0 := by have := (lt_fin_iff a F64.pzero hfa rfl).mp hlt; rwa [h0] at this
    obtain ⟨f1, f2, f3⟩ := F64.add_rn a MathF.td hfa rfl 9 (by norm_num) (by norm_num) (by
      rw [htdv, abs_le]; constructor <;> norm_num <;> linarith)
    rw [htdv] at f2
    have hnn : 0 ≤ (a + MathF.td).val := IsRN.nonneg f2 (by linarith)
    have f3' := (abs_le.mp f3).2
    refine ⟨⟨f1, RN.rep f2⟩, hnn, by norm_num at f3'; exact f3', fun _ => f2, fun h => absurd hav (not_lt.mpr h)⟩
  · rw [if_neg hlt]
    have hav : 0 ≤ a.val := by
      by_contra hc
      exact hlt ((lt_fin_iff a F64.pzero hfa rfl).mpr (by rw [h0]; exact not_le.mp hc))
    obtain ⟨f1, f2, f3⟩ := F64.add_rn F64.pzero a rfl hfa 8 (by norm_num) (by norm_num) (by
      rw [h0, zero_add, abs_le]; constructor <;> norm_num <;> linarith)
    rw [h0, zero_add] at f2
    have hval : (F64.add F64.pzero a).val = a.val := hra.rn_eq f2
    refine ⟨⟨f1, by rw [hval]; exact hra⟩, by rw [hval]; exact hav, by rw [hval]; linarith,
      fun h => absurd hav (not_le.mpr h), fun _ => hval⟩

/-- **the round trip for the AZIMUTH flag**, with respect to the reduced angle `aziReduce x ∈ [0, 360]` that `Encode` prints -/
theorem roundtrip_azimuth (s : Bool) (m : ℕ) (e : ℤ) (hx : F64.IsRep (F64.fin s m e)) (t p : ℕ) (ht : t ≤ 2) (sep : ℕ)
    (hsep : sep = 0 ∨ sep = 58) :
    ∃ y : F64, decode (encode (F64.fin s m e) t p Flag.azi sep) = .ok (y, Flag.none) ∧ y.isFinite = true ∧
      |(y.val - (aziReduce (F64.fin s m e)).val)| ≤ rtBound t p (aziReduce (F64.fin s m e)).val := by
  obtain ⟨⟨hf, hr⟩, h0, h512, _, _⟩ := aziReduce_spec s m e hx
  obtain ⟨s0, m0, e0, hx0⟩ := F64.exists_fin_of_isFinite _ hf
  have hhead : encodeHead (F64.fin s m e) t p Flag.azi = encodeHead (F64.fin s0 m0 e0) t p Flag.none := by
    rw [← hx0]; rfl
  rw [hx0] at hr h0 h512 ⊢
  have habs : |(F64.fin s0 m0 e0).val| = (F64.fin s0 m0 e0).val := abs_of_nonneg h0
  have hb : |(F64.fin s0 m0 e0).val| < 2 ^ 40 := by rw [habs]; norm_num; linarith
  have hsgn : (if readNeg Flag.azi s0 then -|(F64.fin s0 m0 e0).val| else |(F64.fin s0 m0 e0).val|) = (F64.fin s0 m0 e0).val := by
    simp [readNeg, habs]
  have ht' : t = 0 ∨ t = 1 ∨ t = 2 := by omega
  rcases ht' with rfl | rfl | rfl
  · have := roundtrip_degree_gen s m e p Flag.azi sep hsep (by decide) s0 m0 e0 Flag.none (by decide) ⟨rfl, hr⟩ hb hhead hsgn
    rwa [habs] at this
  · have := roundtrip_minute_gen s m e p Flag.azi sep hsep (by decide) s0 m0 e0 Flag.none (by decide) ⟨rfl, hr⟩ hb hhead hsgn
    rwa [habs] at this
  · have := roundtrip_second_gen s m e p Flag.azi sep hsep (by decide) s0 m0 e0 Flag.none (by decide) ⟨rfl, hr⟩ hb hhead hsgn
    rwa [habs] at this

/-! ## `Utility::val (Utility::str x p)` -/

theorem utilVal_utilStr (s : Bool) (m : ℕ) (e : ℤ) (hb : |(F64.fin s m e).val| ≤ 2 ^ 52) (p : ℕ) (hp : p ≤ 30) :
    ∃ y : F64, utilVal (utilStr (F64.fin s m e) p) = .ok y ∧ y.isFinite = true ∧
      |(y.val - (F64.fin s m e).val)| ≤ (1 / 2) / 10 ^ p + (2:ℚ) ^ (-(53:ℤ)) * (|(F64.fin s m e).val| + 1) := by
  obtain ⟨hfin, hbound⟩ := ofDec_fixedUnits (F64.fin s m e) rfl hb p hp
  have hstr : utilStr (F64.fin s m e) p = fmtFixed (F64.fin s m e) p := rfl
  have htrim : trim (fmtFixed (F64.fin s m e) p) = fmtFixed (F64.fin s m e) p := trim_noop _ (fmtFixed_nospace _ p)
  have hval := valPlain_fmtFixed s m e p
  have hof : ofDecExp (fixedUnits (F64.fin s m e) p) (0 - (p : ℤ)) = ofDec (fixedUnits (F64.fin s m e) p) p := by
    unfold ofDec; rw [Int.zero_sub]
  rw [hof] at hval
  obtain ⟨sv, mv, ev, hv⟩ := F64.exists_fin_of_isFinite _ hfin
  rw [hv] at hval hbound
  simp only at hval
  refine ⟨if s then F64.neg (F64.fin sv mv ev) else F64.fin sv mv ev, ?_, ?_, ?_⟩
  · unfold utilVal
    simp only [hstr, htrim, hval]
  · cases s <;> rfl
  · have hs := val_sign s m e
    cases s
    · simp only [Bool.false_eq_true, if_false] at hs ⊢
      rw [hs, abs_abs]; exact hbound
    · simp only [if_true] at hs ⊢
      rw [F64.neg_fin_val, hs, abs_neg, abs_abs]
      have : -(F64.fin sv mv ev).val - -|(F64.fin true m e).val| = -((F64.fin sv mv ev).val - |(F64.fin true m e).val|) := by ring
      rw [this, abs_neg]; exact hbound

end GeoVerif.DMSProofs
