import GeoVerif.Model.Polygon
import GeoVerif.Model.PolygonF
import Mathlib.Tactic.Linarith
import Mathlib.Tactic.Ring
import Mathlib.Tactic.SplitIfs
import GeoVerif.Proofs.F64Div
/-!
# Lemmas for C08: edit histories of `PolygonAreaT` (both the exact-sum model and the bit-level record)
-/
namespace GeoVerif.Polygon

/-- `AddPoint` / `AddEdge` -/
def Op.isAdd : Op → Bool
  | .addPoint .. => true
  | .addEdge .. => true
  | _ => false

def Op.isClear : Op → Bool
  | .clear => true
  | _ => false

/-- what is left of a history for the state: the `Add*` operations after the last `Clear` -/
def effective (ops : List Op) : List Op :=
  ops.foldl (fun acc op => if op.isClear then [] else if op.isAdd then acc ++ [op] else acc) []

theorem effective_foldl_acc (ops acc : List Op) (hc : ∀ op ∈ ops, op.isClear = false) :
    ops.foldl (fun acc op => if op.isClear then [] else if op.isAdd then acc ++ [op] else acc) acc
      = acc ++ ops.filter Op.isAdd := by
  induction ops generalizing acc with
  | nil => simp
  | cons op ops ih =>
    have h1 := hc op (by simp)
    have h2 := ih (acc := if op.isAdd then acc ++ [op] else acc) (fun o ho => hc o (List.mem_cons_of_mem _ ho))
    simp only [List.foldl_cons, h1, Bool.false_eq_true, if_false]
    rw [h2]
    by_cases ha : op.isAdd = true
    · simp [ha, List.filter_cons]
    · simp [ha, List.filter_cons]

/-- the definition means what it says: everything up to and including a `Clear` is forgotten … -/
theorem effective_append_clear (l r : List Op) : effective (l ++ Op.clear :: r) = effective r := by
  unfold effective
  rw [List.foldl_append, List.foldl_cons]
  simp [Op.isClear]

/-- … and of a history without `Clear` exactly the `Add*` operations remain, in order -/
theorem effective_no_clear (r : List Op) (hc : ∀ op ∈ r, op.isClear = false) : effective r = r.filter Op.isAdd := by
  unfold effective
  rw [effective_foldl_acc r [] hc]; simp

theorem effective_adds (r : List Op) (ha : ∀ op ∈ r, op.isAdd = true) : effective r = r := by
  rw [effective_no_clear r (fun op h => by have := ha op h; cases op <;> simp_all [Op.isAdd, Op.isClear])]
  exact List.filter_eq_self.mpr ha

/-- **the generic history lemma**: a machine whose `Clear` leads to one fixed state from every state satisfying an
    invariant, and whose other non-`Add` operations do not change the state, ends in the state reached by the
    effective operations alone -/
theorem foldl_effective {σ : Type} (step : σ → Op → σ) (P : σ → Prop) (i : σ) (hi : P i)
    (hP : ∀ s op, P s → P (step s op)) (hclear : ∀ s, P s → step s Op.clear = i)
    (hobs : ∀ s op, op.isAdd = false → op.isClear = false → step s op = s) (ops : List Op) :
    ops.foldl step i = (effective ops).foldl step i := by
  have key : ∀ (ops acc : List Op) (s : σ), P s → s = acc.foldl step i →
      ops.foldl step s = (ops.foldl (fun acc op => if op.isClear then [] else if op.isAdd then acc ++ [op] else acc) acc).foldl step i := by
    intro ops
    induction ops with
    | nil => intro acc s _ hs; simpa using hs
    | cons op ops ih =>
      intro acc s hp hs
      simp only [List.foldl_cons]
      by_cases hc : op.isClear = true
      · have : op = Op.clear := by cases op <;> simp_all [Op.isClear]
        subst this
        simp only [Op.isClear, if_true]
        exact ih [] _ (by rw [hclear s hp]; exact hi) (by rw [hclear s hp]; rfl)
      · have hc' : op.isClear = false := by simpa using hc
        by_cases ha : op.isAdd = true
        · simp only [hc', ha, Bool.false_eq_true, if_false, if_true]
          exact ih (acc ++ [op]) _ (hP s op hp) (by rw [List.foldl_append, ← hs]; rfl)
        · have ha' : op.isAdd = false := by simpa using ha
          simp only [hc', ha', Bool.false_eq_true, if_false]
          rw [hobs s op ha' hc']
          exact ih acc s hp hs
  exact key ops [] i hi rfl

/-! ### the exact-sum machine -/

theorem exec_polyline (B : Backend) (A : Rat) (st : State) (op : Op) : (exec B A st op).1.polyline = st.polyline := by
  cases op <;> simp only [exec, clear, init, addPoint, addEdge] <;> split_ifs <;> rfl

theorem exec_observer (B : Backend) (A : Rat) (st : State) (op : Op) (ha : op.isAdd = false) (hc : op.isClear = false) :
    (exec B A st op).1 = st := by
  cases op <;> simp_all [Op.isAdd, Op.isClear, exec]

theorem trace_append (B : Backend) (A : Rat) (st : State) (l r : List Op) :
    trace B A st (l ++ r) = trace B A st l ++ trace B A (run B A st l) r := by
  induction l generalizing st with
  | nil => rfl
  | cons op l ih => simp only [List.cons_append, trace, ih, run, List.foldl_cons]

theorem trace_length (B : Backend) (A : Rat) (st : State) (l : List Op) : (trace B A st l).length = l.length := by
  induction l generalizing st with
  | nil => rfl
  | cons op l ih => simp [trace, ih]

/-! ### the bit-level machine -/

theorem execF_polyline (B : Backend) (A : F64) (st : PolygonF.StateF) (op : Op) :
    (PolygonF.exec B A st op).1.polyline = st.polyline := by
  cases op <;> simp only [PolygonF.exec, PolygonF.clear, PolygonF.init, PolygonF.addPoint, PolygonF.addEdge] <;> split_ifs <;> rfl

theorem execF_observer (B : Backend) (A : F64) (st : PolygonF.StateF) (op : Op) (ha : op.isAdd = false) (hc : op.isClear = false) :
    (PolygonF.exec B A st op).1 = st := by
  cases op <;> simp_all [Op.isAdd, Op.isClear, PolygonF.exec]

/-! ### further lemmas on histories -/

theorem run_cons (B : Backend) (A : ℚ) (st : State) (op : Op) (r : List Op) :
    run B A st (op :: r) = run B A (exec B A st op).1 r := rfl


theorem effective_isAdd (ops : List Op) : ∀ op ∈ effective ops, op.isAdd = true := by
  unfold effective
  have key : ∀ (ops acc : List Op), (∀ op ∈ acc, op.isAdd = true) →
      ∀ op ∈ ops.foldl (fun acc op => if op.isClear then [] else if op.isAdd then acc ++ [op] else acc) acc, op.isAdd = true := by
    intro ops
    induction ops with
    | nil => intro acc h; simpa using h
    | cons o r ih =>
      intro acc h
      simp only [List.foldl_cons]
      apply ih
      split_ifs with h1 h2
      · simp
      · intro op hop
        rcases List.mem_append.mp hop with h' | h'
        · exact h op h'
        · simp at h'; subst h'; exact h2
      · exact h
  exact key ops [] (by simp)

theorem effective_no_clear_mem (ops : List Op) : ∀ op ∈ effective ops, op.isClear = false := by
  intro op h
  have := effective_isAdd ops op h
  cases op <;> simp_all [Op.isAdd, Op.isClear]

/-- an object with fewer than two vertices has accumulated nothing -/
def Fresh (st : State) : Prop := st.num < 2 → st.perimsum = 0 ∧ st.areasum = 0 ∧ st.crossings = 0

theorem fresh_exec (B : Backend) (A : ℚ) (st : State) (op : Op) (h : Fresh st) : Fresh (exec B A st op).1 := by
  cases op with
  | clear => intro _; simp [exec, clear, init]
  | compute rv sg => exact h
  | testPoint lat lon rv sg => exact h
  | testEdge azi s rv sg => exact h
  | addPoint lat lon =>
    by_cases h0 : st.num = 0
    · intro _; have := h (by omega); simpa [exec, addPoint, h0] using this
    · intro hlt; simp [exec, addPoint, h0] at hlt; omega
  | addEdge azi s =>
    by_cases h0 : st.num = 0
    · intro _; have := h (by omega); simpa [exec, addEdge, h0] using this
    · intro hlt; simp [exec, addEdge, h0] at hlt; omega

theorem fresh_run (B : Backend) (A : ℚ) (ops : List Op) (st : State) (h : Fresh st) : Fresh (run B A st ops) := by
  induction ops generalizing st with
  | nil => exact h
  | cons op r ih => rw [run_cons]; exact ih _ (fresh_exec B A st op h)

theorem fresh_init (pl : Bool) : Fresh (init pl) := fun _ => ⟨rfl, rfl, rfl⟩


/-! ### accumulators -/
open GeoVerif.Accum

theorem F64_neg_neg (x : F64) : F64.neg (F64.neg x) = x := by cases x <;> simp [F64.neg]

theorem negate_negate (a : Acc) : negate (negate a) = a := by
  cases a; simp [negate, F64_neg_neg]

theorem val_neg_all (x : F64) : (F64.neg x).val = -x.val := by
  cases x with
  | nan => simp [F64.neg, F64.val, F64.toDy, Dy.val]
  | inf s => simp [F64.neg, F64.val, F64.toDy, Dy.val]
  | fin s m e => exact F64.neg_fin_val s m e

/-- the value heldQ by an accumulator -/
def heldQ (a : Acc) : ℚ := a.s.val + a.t.val

theorem heldQ_negate (a : Acc) : heldQ (negate a) = - heldQ a := by
  simp only [heldQ, negate, val_neg_all]; ring



end GeoVerif.Polygon
