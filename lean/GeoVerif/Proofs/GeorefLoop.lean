import GeoVerif.Proofs.Digits
/-!
# Loop lemmas for `Georef.decodeInt` (core Lean only)
-/
namespace GeoVerif.GeorefLoop
open GeoVerif.Grid

/-- a `for` loop in `Except` whose body always yields is a fold -/
theorem forIn_yield {ε σ α : Type} (l : List α) (init : σ) (f : α → σ → Except ε (ForInStep σ)) (g : α → σ → σ)
    (h : ∀ a ∈ l, ∀ st, f a st = .ok (.yield (g a st))) :
    forIn l init f = (.ok (l.foldl (fun st a => g a st) init) : Except ε σ) := by
  induction l generalizing init with
  | nil => rfl
  | cons a as ih =>
    simp only [List.forIn_cons, List.foldl_cons]
    rw [h a (by simp)]
    simp only [bind, Except.bind]
    exact ih _ (fun b hb => h b (by simp [hb]))

/-- the `i`-th character of a fixed-width digit string -/
theorem digitsW_getD (tbl : List Char) (b : Nat) (w n i : Nat) (hi : i < w) :
    (toBytes (digitsW tbl b w n)).getD i 0 = (chr tbl (n / b ^ (w - 1 - i) % b)).toNat := by
  induction w generalizing n i with
  | zero => omega
  | succ w ih =>
    simp only [digitsW, Digits.toBytes_append]
    by_cases h : i < w
    · have hl : i < (toBytes (digitsW tbl b w (n / b))).length := by
        simp [toBytes, Digits.digitsW_length]; exact h
      rw [List.getD_eq_getElem?_getD, List.getElem?_append_left hl, ← List.getD_eq_getElem?_getD]
      rw [ih (n / b) i h]
      have : w + 1 - 1 - i = (w - 1 - i) + 1 := by omega
      rw [this, Nat.pow_succ, Nat.div_div_eq_div_mul, Nat.mul_comm b]
    · have : i = w := by omega
      subst this
      have hl : (toBytes (digitsW tbl b i (n / b))).length ≤ i := by
        simp [toBytes, Digits.digitsW_length]
      rw [List.getD_eq_getElem?_getD, List.getElem?_append_right hl]
      simp [toBytes, Digits.digitsW_length]

end GeoVerif.GeorefLoop
