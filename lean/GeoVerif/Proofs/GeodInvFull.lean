import GeoVerif.Model.GeodInvFull
import GeoVerif.Proofs.GeodLine
import GeoVerif.Spec.RealInst
import Mathlib.Tactic.Ring
import Mathlib.Tactic.Linarith
import Mathlib.Tactic.FieldSimp
import Mathlib.Tactic.NormNum
import Mathlib.Tactic.Positivity
import Mathlib.Tactic.LinearCombination
/-!
# Lemmas about `Model/GeodInvFull.lean` (the whole of `GenInverse` behind the canonicalisation), used by `Props/C02.lean`

Part 1 holds for every number type (binary64 included): which fields one pass of the Newton/bisection loop can touch, the
iteration budget.  Part 2 is the real reading: the bracket is a bracket, a bisection step halves it, output ranges, the closed
forms of the equatorial and meridional answers.
-/
namespace GeoVerif.Proofs.GeodInvFull
open GeoVerif GeoVerif.GeodLine GeoVerif.GeodInvSeries GeoVerif.GeodInvFull

/-! ## Part 1 — every number type -/

section AnyType
open GeoVerif.RealLike.Lits
variable {α : Type} [RealLike α]

/-- `updBracket` moves at most one end, and only to the current point, and only on the sign of `v` -/
theorem updBracket_spec (p : Params α) (numit : Nat) (st : LoopSt α) (v : α) :
    (updBracket p numit st v).salp1 = st.salp1 ∧ (updBracket p numit st v).calp1 = st.calp1 ∧
    (updBracket p numit st v).tripn = st.tripn ∧ (updBracket p numit st v).tripb = st.tripb ∧
    (((updBracket p numit st v).salp1a = st.salp1a ∧ (updBracket p numit st v).calp1a = st.calp1a ∧
      (updBracket p numit st v).salp1b = st.salp1b ∧ (updBracket p numit st v).calp1b = st.calp1b) ∨
     (RealLike.ltb 0 v = true ∧ (updBracket p numit st v).salp1b = st.salp1 ∧ (updBracket p numit st v).calp1b = st.calp1 ∧
      (updBracket p numit st v).salp1a = st.salp1a ∧ (updBracket p numit st v).calp1a = st.calp1a) ∨
     (RealLike.ltb v 0 = true ∧ (updBracket p numit st v).salp1a = st.salp1 ∧ (updBracket p numit st v).calp1a = st.calp1 ∧
      (updBracket p numit st v).salp1b = st.salp1b ∧ (updBracket p numit st v).calp1b = st.calp1b)) := by
  unfold updBracket
  split
  · rename_i h
    simp only [Bool.and_eq_true] at h
    exact ⟨rfl, rfl, rfl, rfl, Or.inr (Or.inl ⟨h.1, rfl, rfl, rfl, rfl⟩)⟩
  · split
    · rename_i h
      simp only [Bool.and_eq_true] at h
      exact ⟨rfl, rfl, rfl, rfl, Or.inr (Or.inr ⟨h.1, rfl, rfl, rfl, rfl⟩)⟩
    · exact ⟨rfl, rfl, rfl, rfl, Or.inl ⟨rfl, rfl, rfl, rfl⟩⟩

/-- an accepted Newton update leaves the bracket alone -/
theorem newtonTry_ends (p : Params α) (numit : Nat) (st s : LoopSt α) (v dv : α) (h : newtonTry p numit st v dv = some s) :
    s.salp1a = st.salp1a ∧ s.calp1a = st.calp1a ∧ s.salp1b = st.salp1b ∧ s.calp1b = st.calp1b ∧ s.tripb = st.tripb := by
  unfold newtonTry at h
  split at h
  · simp only [] at h
    split at h
    · split at h
      · injection h with h; subst h; exact ⟨rfl, rfl, rfl, rfl, rfl⟩
      · cases h
    · cases h
  · cases h

/-- the Newton update is only attempted while `numit < maxit1_` and with a positive derivative -/
theorem newtonTry_some (p : Params α) (numit : Nat) (st s : LoopSt α) (v dv : α) (h : newtonTry p numit st v dv = some s) :
    numit < p.maxit1 ∧ RealLike.ltb 0 dv = true := by
  unfold newtonTry at h
  split at h
  · rename_i hc
    simpa using hc
  · cases h

theorem bisect_ends (p : Params α) (st : LoopSt α) :
    (bisect p st).salp1a = st.salp1a ∧ (bisect p st).calp1a = st.calp1a ∧ (bisect p st).salp1b = st.salp1b ∧
    (bisect p st).calp1b = st.calp1b ∧ (bisect p st).tripn = false := ⟨rfl, rfl, rfl, rfl, rfl⟩

/-- one pass of the loop changes the bracket exactly as `updBracket` does -/
theorem step_ends (p : Params α) (numit : Nat) (st : LoopSt α) (v dv : α) :
    (step p numit st v dv).salp1a = (updBracket p numit st v).salp1a ∧ (step p numit st v dv).calp1a = (updBracket p numit st v).calp1a ∧
    (step p numit st v dv).salp1b = (updBracket p numit st v).salp1b ∧ (step p numit st v dv).calp1b = (updBracket p numit st v).calp1b := by
  unfold step
  simp only []
  split
  · rename_i s hs
    have := newtonTry_ends p numit _ s v dv hs
    exact ⟨this.1, this.2.1, this.2.2.1, this.2.2.2.1⟩
  · exact ⟨rfl, rfl, rfl, rfl⟩

/-- from `maxit1_` on every pass is a bisection -/
theorem step_after_maxit1 (p : Params α) (numit : Nat) (st : LoopSt α) (v dv : α) (h : p.maxit1 ≤ numit) :
    step p numit st v dv = bisect p (updBracket p numit st v) := by
  unfold step
  simp only []
  have : newtonTry p numit (updBracket p numit st v) v dv = none := by
    unfold newtonTry
    have : decide (numit < p.maxit1) = false := by simp; omega
    simp [this]
  rw [this]

/-- … and beyond `maxit1_` the end on the side of the sign of `v` is replaced unconditionally -/
theorem updBracket_after_maxit1_pos (p : Params α) (numit : Nat) (st : LoopSt α) (v : α) (h : p.maxit1 < numit) (hv : RealLike.ltb 0 v = true) :
    (updBracket p numit st v).salp1b = st.salp1 ∧ (updBracket p numit st v).calp1b = st.calp1 := by
  unfold updBracket
  have : decide (p.maxit1 < numit) = true := by simpa using h
  simp [hv, this]

theorem updBracket_after_maxit1_neg (p : Params α) (numit : Nat) (st : LoopSt α) (v : α) (h : p.maxit1 < numit) (hv : RealLike.ltb v 0 = true)
    (hv' : RealLike.ltb 0 v = false) :
    (updBracket p numit st v).salp1a = st.salp1 ∧ (updBracket p numit st v).calp1a = st.calp1 := by
  unfold updBracket
  have : decide (p.maxit1 < numit) = true := by simpa using h
  simp [hv, hv', this]

/-- the iteration budget: started with `numit + fuel = maxit2_ + 1` the loop returns with `numit ≤ maxit2_` (the
    `numit == maxit2_` exit fires before the fuel runs out) -/
theorem loop_numit_le (p : Params α) (lam : α → α → Nat → LamOut α) (sb : α) (fuel numit : Nat) (st : LoopSt α) (nb : Nat) (its : List (α × α))
    (h : numit + fuel = p.maxit2 + 1) (hf : 0 < fuel) :
    (loop p lam sb fuel numit st nb its).numit ≤ p.maxit2 := by
  induction fuel generalizing numit st nb its with
  | zero => omega
  | succ fuel ih =>
    unfold loop
    simp only []
    split
    · show numit ≤ p.maxit2
      omega
    · rename_i hstop
      have hne : numit ≠ p.maxit2 := by
        intro he
        apply hstop
        unfold stopNow
        simp [he]
      apply ih
      · omega
      · omega

/-- `numit` never decreases, and one kernel evaluation is recorded per pass -/
theorem loop_evals (p : Params α) (lam : α → α → Nat → LamOut α) (sb : α) (fuel numit : Nat) (st : LoopSt α) (nb : Nat) (its : List (α × α)) :
    numit ≤ (loop p lam sb fuel numit st nb its).numit ∧
    (loop p lam sb fuel numit st nb its).iterates.length = its.length + ((loop p lam sb fuel numit st nb its).numit - numit) + 1 := by
  induction fuel generalizing numit st nb its with
  | zero => unfold loop; simp
  | succ fuel ih =>
    unfold loop
    simp only []
    split
    · simp
    · have := ih (numit + 1) (step p numit st (lam st.salp1 st.calp1 numit).lam12 (lam st.salp1 st.calp1 numit).dlam12)
        (if isBisect p numit st (lam st.salp1 st.calp1 numit).lam12 (lam st.salp1 st.calp1 numit).dlam12 then nb + 1 else nb)
        ((st.salp1, st.calp1) :: its)
      constructor
      · omega
      · rw [this.2]; simp; omega

/-- extra fuel changes nothing -/
theorem loop_fuel_irrelevant (p : Params α) (lam : α → α → Nat → LamOut α) (sb : α) (fuel extra numit : Nat) (st : LoopSt α) (nb : Nat)
    (its : List (α × α)) (h : numit + fuel = p.maxit2 + 1) (hf : 0 < fuel) :
    loop p lam sb (fuel + extra) numit st nb its = loop p lam sb fuel numit st nb its := by
  induction fuel generalizing numit st nb its with
  | zero => omega
  | succ fuel ih =>
    have : fuel + 1 + extra = (fuel + extra) + 1 := by omega
    rw [this]
    unfold loop
    simp only []
    split
    · rfl
    · rename_i hstop
      have hne : numit ≠ p.maxit2 := by
        intro he
        apply hstop
        unfold stopNow
        simp [he]
      apply ih
      · omega
      · omega

/-- what the bracket ends are, for any kernel: the initial end, or a point at which the kernel was evaluated and found to
    have the sign that puts the root on the other side -/
def EndsObserved (p : Params α) (lam : α → α → Nat → LamOut α) (st : LoopSt α) : Prop :=
  ((st.salp1a = p.tiny ∧ st.calp1a = 1) ∨ ∃ n, RealLike.ltb (lam st.salp1a st.calp1a n).lam12 0 = true) ∧
  ((st.salp1b = p.tiny ∧ st.calp1b = -(1 : α)) ∨ ∃ n, RealLike.ltb 0 (lam st.salp1b st.calp1b n).lam12 = true)

theorem step_ends_observed (p : Params α) (lam : α → α → Nat → LamOut α) (numit : Nat) (st : LoopSt α) (dv : α)
    (h : EndsObserved p lam st) : EndsObserved p lam (step p numit st (lam st.salp1 st.calp1 numit).lam12 dv) := by
  obtain ⟨ha, hb⟩ := h
  have hs := step_ends p numit st (lam st.salp1 st.calp1 numit).lam12 dv
  have hu := updBracket_spec p numit st (lam st.salp1 st.calp1 numit).lam12
  unfold EndsObserved
  rw [hs.1, hs.2.1, hs.2.2.1, hs.2.2.2]
  rcases hu.2.2.2.2 with hu | hu | hu
  · rw [hu.1, hu.2.1, hu.2.2.1, hu.2.2.2]; exact ⟨ha, hb⟩
  · rw [hu.2.1, hu.2.2.1, hu.2.2.2.1, hu.2.2.2.2]; exact ⟨ha, Or.inr ⟨numit, hu.1⟩⟩
  · rw [hu.2.1, hu.2.2.1, hu.2.2.2.1, hu.2.2.2.2]; exact ⟨Or.inr ⟨numit, hu.1⟩, hb⟩

theorem loop_ends_observed (p : Params α) (lam : α → α → Nat → LamOut α) (sb : α) (fuel numit : Nat) (st : LoopSt α) (nb : Nat)
    (its : List (α × α)) (h : EndsObserved p lam st) : EndsObserved p lam (loop p lam sb fuel numit st nb its).st := by
  induction fuel generalizing numit st nb its with
  | zero => unfold loop; exact h
  | succ fuel ih =>
    unfold loop
    simp only []
    split
    · exact h
    · exact ih _ _ _ _ (step_ends_observed p lam numit st _ h)

end AnyType


/-! ### branch selection -/

section Cases
open GeoVerif.RealLike.Lits
variable {α : Type} [RealLike α]

theorem meridional_branch (p : Params α) (k : Kernels α) (β : Beta α) (s c : α) : (meridional p k β s c).sol.branch = .meridional := rfl
theorem equatorial_branch (p : Params α) (lon12 lam12 : α) : (equatorial p lon12 lam12).branch = .equatorial := rfl
theorem shortLine_branch (p : Params α) (st : StartOut α) (lam12 : α) : (shortLine p st lam12).branch = .short := rfl
theorem newtonBranch_branch (p : Params α) (k : Kernels α) (sb s c : α) : (newtonBranch p k sb s c).branch = .newton := rfl

/-- the case analysis of `GenInverse`, spelt out -/
theorem solve_cases (p : Params α) (k : Kernels α) (β : Beta α) (c : Canon α) :
    (isMeridian c = true ∧ (meridional p k β c.slam12 c.clam12).accepted = true ∧
      (solve p k β c).1 = (meridional p k β c.slam12 c.clam12).sol) ∨
    (equatorialTest p β.sbet1 (lon12sOf c) = true ∧ (solve p k β c).1 = equatorial p c.lon12 (lam12Of c)) ∨
    (RealLike.leb 0 k.start.sig12 = true ∧ (solve p k β c).1 = shortLine p k.start (lam12Of c)) ∨
    (RealLike.leb 0 k.start.sig12 = false ∧ (solve p k β c).1 = newtonBranch p k β.sbet1 c.slam12 c.clam12) := by
  unfold solve
  cases hm : isMeridian c <;> cases he : equatorialTest p β.sbet1 (lon12sOf c) <;> cases hs : RealLike.leb 0 k.start.sig12 <;>
    cases ha : (meridional p k β c.slam12 c.clam12).accepted <;> simp [ha]

theorem solve_meridional (p : Params α) (k : Kernels α) (β : Beta α) (c : Canon α) (h : (solve p k β c).1.branch = .meridional) :
    isMeridian c = true ∧ (meridional p k β c.slam12 c.clam12).accepted = true ∧
    (solve p k β c).1 = (meridional p k β c.slam12 c.clam12).sol := by
  rcases solve_cases p k β c with hc | hc | hc | hc
  · exact hc
  · rw [hc.2, equatorial_branch] at h; cases h
  · rw [hc.2, shortLine_branch] at h; cases h
  · rw [hc.2, newtonBranch_branch] at h; cases h

theorem solve_equatorial (p : Params α) (k : Kernels α) (β : Beta α) (c : Canon α) (h : (solve p k β c).1.branch = .equatorial) :
    equatorialTest p β.sbet1 (lon12sOf c) = true ∧ (solve p k β c).1 = equatorial p c.lon12 (lam12Of c) := by
  rcases solve_cases p k β c with hc | hc | hc | hc
  · rw [hc.2.2, meridional_branch] at h; cases h
  · exact hc
  · rw [hc.2, shortLine_branch] at h; cases h
  · rw [hc.2, newtonBranch_branch] at h; cases h

theorem solve_short (p : Params α) (k : Kernels α) (β : Beta α) (c : Canon α) (h : (solve p k β c).1.branch = .short) :
    RealLike.leb 0 k.start.sig12 = true ∧ (solve p k β c).1 = shortLine p k.start (lam12Of c) := by
  rcases solve_cases p k β c with hc | hc | hc | hc
  · rw [hc.2.2, meridional_branch] at h; cases h
  · rw [hc.2, equatorial_branch] at h; cases h
  · exact hc
  · rw [hc.2, newtonBranch_branch] at h; cases h

/-- what the loop returns as "last `Lambda12` output" is a value of the kernel -/
theorem loop_lo (p : Params α) (lam : α → α → Nat → LamOut α) (sb : α) (fuel numit : Nat) (st : LoopSt α) (nb : Nat) (its : List (α × α)) :
    ∃ s c n, (loop p lam sb fuel numit st nb its).lo = lam s c n := by
  induction fuel generalizing numit st nb its with
  | zero => unfold loop; exact ⟨_, _, _, rfl⟩
  | succ fuel ih =>
    unfold loop
    simp only []
    split
    · exact ⟨_, _, _, rfl⟩
    · exact ih _ _ _ _

/-- the clamp of fix 62054f0 in every number type whose `<` is irreflexive at 180 (binary64, ℝ): the result is never `> 180` -/
theorem clamp180_le (q : α) (h : RealLike.ltb (180 : α) 180 = false) : RealLike.ltb (180 : α) (clamp180 q) = false := by
  unfold clamp180
  split
  · exact h
  · rename_i hc; simpa using hc

/-- … and a NaN (any `q` that does not compare `> 180`) passes through unchanged -/
theorem clamp180_passes (q : α) (h : RealLike.ltb (180 : α) q = false) : clamp180 q = q := by
  unfold clamp180; simp [h]

/-- the exits of the loop, spelt out (the fourth is fix 8088996) -/
theorem stopNow_cases (p : Params α) (sb : α) (numit : Nat) (st : LoopSt α) (v : α) (h : stopNow p sb numit st v = true) :
    st.tripb = true ∨ RealLike.leb ((if st.tripn then (8 : α) else 1) * p.tol0) (RealLike.abs v) = false ∨ numit = p.maxit2 ∨
    (RealLike.eqb sb 0 = true ∧ RealLike.eqb st.calp1 0 = true ∧ RealLike.ltb 0 v = true) := by
  unfold stopNow at h
  simp only [Bool.or_eq_true, Bool.and_eq_true, Bool.not_eq_true', beq_iff_eq] at h
  rcases h with ((h | h) | h) | h
  · exact Or.inl h
  · exact Or.inr (Or.inl h)
  · exact Or.inr (Or.inr (Or.inl h))
  · exact Or.inr (Or.inr (Or.inr ⟨h.1.1, h.1.2, h.2⟩))

end Cases

/-! ## Part 2 — the real reading -/

section Real
open Real

theorem pi_real : (RealLike.pi : ℝ) = Real.pi := rfl
theorem atan2_real (y x : ℝ) : RealLike.atan2 y x = Complex.arg ⟨x, y⟩ := rfl
theorem max_real (x y : ℝ) : RealLike.max x y = max x y := rfl
theorem min_real (x y : ℝ) : RealLike.min x y = min x y := rfl

theorem lit_zero : @OfNat.ofNat ℝ 0 RealLike.Lits.instLit = (0 : ℝ) := by rw [lit_real]; simp
theorem lit_one : @OfNat.ofNat ℝ 1 RealLike.Lits.instLit = (1 : ℝ) := by rw [lit_real]; simp
theorem lit_two : @OfNat.ofNat ℝ 2 RealLike.Lits.instLit = (2 : ℝ) := by rw [lit_real]; try norm_num

theorem degree_eq : (degree : ℝ) = Real.pi / 180 := by
  unfold degree; simp only [pi_real, lit_real]; try push_cast

theorem degree_pos : (0 : ℝ) < degree := by rw [degree_eq]; positivity

/-- `atan2` of a non-negative ordinate lies in `[0, π]` -/
theorem atan2_range (y x : ℝ) (hy : 0 ≤ y) : 0 ≤ (RealLike.atan2 y x : ℝ) ∧ (RealLike.atan2 y x : ℝ) ≤ Real.pi := by
  rw [atan2_real]
  exact ⟨Complex.arg_nonneg_iff.mpr hy, Complex.arg_le_pi _⟩

theorem norm2_fst (x y : ℝ) : (norm2 x y).1 = x / Real.sqrt (x ^ 2 + y ^ 2) := rfl
theorem norm2_snd (x y : ℝ) : (norm2 x y).2 = y / Real.sqrt (x ^ 2 + y ^ 2) := rfl

theorem norm2_pos_unit (x y : ℝ) (hx : 0 < x) :
    0 < (norm2 x y).1 ∧ (norm2 x y).1 ^ 2 + (norm2 x y).2 ^ 2 = 1 ∧ (norm2 x y).2 / (norm2 x y).1 = y / x := by
  have hp : 0 < x ^ 2 + y ^ 2 := by positivity
  have hs : 0 < Real.sqrt (x ^ 2 + y ^ 2) := Real.sqrt_pos.mpr hp
  refine ⟨?_, GeoVerif.Proofs.GeodLine.norm2_unit x y (Or.inl hx.ne'), ?_⟩
  · rw [norm2_fst]; positivity
  · rw [norm2_fst, norm2_snd]; field_simp

/-! ### the loop -/

/-- the current point is a unit vector in the open upper half plane (`alp1 ∈ (0, π)`), the ends have positive sine -/
def Good (st : LoopSt ℝ) : Prop := 0 < st.salp1 ∧ st.salp1 ^ 2 + st.calp1 ^ 2 = 1 ∧ 0 < st.salp1a ∧ 0 < st.salp1b

/-- `ρ = cot(root)` lies strictly between the cotangents of the ends (`cot` decreases on `(0, π)`: the lower end has the larger one) -/
def Brackets (ρ : ℝ) (st : LoopSt ℝ) : Prop := st.calp1b / st.salp1b < ρ ∧ ρ < st.calp1a / st.salp1a

/-- the kernel is positive only above the root and negative only below it -/
def SignContract (lam : ℝ → ℝ → Nat → LamOut ℝ) (ρ : ℝ) : Prop :=
  ∀ s c n, 0 < s → (0 < (lam s c n).lam12 → c / s < ρ) ∧ ((lam s c n).lam12 < 0 → ρ < c / s)

theorem bisect_pos_unit (p : Params ℝ) (st : LoopSt ℝ) (ha : 0 < st.salp1a) (hb : 0 < st.salp1b) :
    0 < (bisect p st).salp1 ∧ (bisect p st).salp1 ^ 2 + (bisect p st).calp1 ^ 2 = 1 ∧
    (bisect p st).calp1 / (bisect p st).salp1 = (st.calp1a + st.calp1b) / (st.salp1a + st.salp1b) := by
  have hx : 0 < (st.salp1a + st.salp1b) / 2 := by positivity
  have h := norm2_pos_unit ((st.salp1a + st.salp1b) / 2) ((st.calp1a + st.calp1b) / 2) hx
  have e1 : (bisect p st).salp1 = (norm2 ((st.salp1a + st.salp1b) / 2) ((st.calp1a + st.calp1b) / 2)).1 := by
    unfold bisect; simp only [lit_two]
  have e2 : (bisect p st).calp1 = (norm2 ((st.salp1a + st.salp1b) / 2) ((st.calp1a + st.calp1b) / 2)).2 := by
    unfold bisect; simp only [lit_two]
  rw [e1, e2]
  refine ⟨h.1, h.2.1, ?_⟩
  rw [h.2.2]; field_simp

/-- a bisection step puts the current point strictly inside the bracket (its cotangent is the mediant of the ends') -/
theorem bisect_between (p : Params ℝ) (st : LoopSt ℝ) (ha : 0 < st.salp1a) (hb : 0 < st.salp1b)
    (hab : st.calp1b / st.salp1b < st.calp1a / st.salp1a) :
    st.calp1b / st.salp1b < (bisect p st).calp1 / (bisect p st).salp1 ∧
    (bisect p st).calp1 / (bisect p st).salp1 < st.calp1a / st.salp1a := by
  rw [(bisect_pos_unit p st ha hb).2.2]
  have hs : 0 < st.salp1a + st.salp1b := by positivity
  rw [div_lt_div_iff₀ hb ha] at hab
  constructor
  · rw [div_lt_div_iff₀ hb hs]; nlinarith
  · rw [div_lt_div_iff₀ hs ha]; nlinarith

/-- **a bisection step halves the bracket, in the angle**: the normalised midpoint of the chord between the directions `A` and
    `B` (less than a half turn apart) is the direction `(A + B)/2` -/
theorem bisect_angle (A B : ℝ) (h : |A - B| < Real.pi) :
    norm2 ((Real.sin A + Real.sin B) / 2) ((Real.cos A + Real.cos B) / 2) = (Real.sin ((A + B) / 2), Real.cos ((A + B) / 2)) := by
  set u := (A + B) / 2 with hu
  set w := (A - B) / 2 with hw
  have hA : A = u + w := by rw [hu, hw]; ring
  have hB : B = u - w := by rw [hu, hw]; ring
  have hcw : 0 < Real.cos w := by
    apply Real.cos_pos_of_mem_Ioo
    have := abs_lt.mp h
    constructor <;> rw [hw] <;> linarith [this.1, this.2]
  have hx : (Real.sin A + Real.sin B) / 2 = Real.sin u * Real.cos w := by rw [hA, hB, Real.sin_add, Real.sin_sub]; ring
  have hy : (Real.cos A + Real.cos B) / 2 = Real.cos u * Real.cos w := by rw [hA, hB, Real.cos_add, Real.cos_sub]; ring
  have hh : Real.sqrt ((Real.sin u * Real.cos w) ^ 2 + (Real.cos u * Real.cos w) ^ 2) = Real.cos w := by
    have : (Real.sin u * Real.cos w) ^ 2 + (Real.cos u * Real.cos w) ^ 2 = Real.cos w ^ 2 := by
      have := Real.sin_sq_add_cos_sq u; nlinarith
    rw [this, Real.sqrt_sq hcw.le]
  rw [hx, hy]
  ext
  · rw [norm2_fst, hh]; exact mul_div_cancel_right₀ _ hcw.ne'
  · rw [norm2_snd, hh]; exact mul_div_cancel_right₀ _ hcw.ne'

theorem newtonTry_pos_unit (p : Params ℝ) (numit : Nat) (st s : LoopSt ℝ) (v dv : ℝ) (h : newtonTry p numit st v dv = some s) :
    0 < s.salp1 ∧ s.salp1 ^ 2 + s.calp1 ^ 2 = 1 := by
  unfold newtonTry at h
  split at h
  · simp only [] at h
    split at h
    · split at h
      · rename_i hn
        injection h with h; subst h
        simp only [ltb_real, decide_eq_true_eq, lit_zero, sin_real, cos_real] at hn
        have := norm2_pos_unit _ (st.calp1 * Real.cos (-v / dv) - st.salp1 * Real.sin (-v / dv)) hn
        exact ⟨this.1, this.2.1⟩
      · cases h
    · cases h
  · cases h

theorem updBracket_good (p : Params ℝ) (numit : Nat) (st : LoopSt ℝ) (v : ℝ) (h : Good st) : Good (updBracket p numit st v) := by
  obtain ⟨h1, h2, h3, h4⟩ := h
  have hu := updBracket_spec p numit st v
  unfold Good
  rw [hu.1, hu.2.1]
  rcases hu.2.2.2.2 with hu | hu | hu
  · rw [hu.1, hu.2.2.1]; exact ⟨h1, h2, h3, h4⟩
  · rw [hu.2.1, hu.2.2.2.1]; exact ⟨h1, h2, h3, h1⟩
  · rw [hu.2.1, hu.2.2.2.1]; exact ⟨h1, h2, h1, h4⟩

/-- **the iterates stay in `(0, π)`**: one pass of the loop keeps the current point a unit vector with positive sine, and the
    ends in the upper half plane — for every kernel -/
theorem step_good (p : Params ℝ) (numit : Nat) (st : LoopSt ℝ) (v dv : ℝ) (h : Good st) : Good (step p numit st v dv) := by
  have hu := updBracket_good p numit st v h
  unfold step
  simp only []
  split
  · rename_i s hs
    have he := newtonTry_ends p numit _ s v dv hs
    have hp := newtonTry_pos_unit p numit _ s v dv hs
    exact ⟨hp.1, hp.2, by rw [he.1]; exact hu.2.2.1, by rw [he.2.2.1]; exact hu.2.2.2⟩
  · have hb := bisect_pos_unit p (updBracket p numit st v) hu.2.2.1 hu.2.2.2
    exact ⟨hb.1, hb.2.1, hu.2.2.1, hu.2.2.2⟩

theorem loop_good (p : Params ℝ) (lam : ℝ → ℝ → Nat → LamOut ℝ) (sb : ℝ) (fuel numit : Nat) (st : LoopSt ℝ) (nb : Nat) (its : List (ℝ × ℝ))
    (h : Good st) : Good (loop p lam sb fuel numit st nb its).st := by
  induction fuel generalizing numit st nb its with
  | zero => unfold loop; exact h
  | succ fuel ih =>
    unfold loop
    simp only []
    split
    · exact h
    · exact ih _ _ _ _ (step_good p numit st _ _ h)

/-- `updBracket` keeps the root between the ends when the kernel's sign tells on which side of the current point it is -/
theorem updBracket_brackets (p : Params ℝ) (lam : ℝ → ℝ → Nat → LamOut ℝ) (ρ : ℝ) (numit : Nat) (st : LoopSt ℝ)
    (hc : SignContract lam ρ) (hg : Good st) (hb : Brackets ρ st) :
    Brackets ρ (updBracket p numit st (lam st.salp1 st.calp1 numit).lam12) := by
  have hu := updBracket_spec p numit st (lam st.salp1 st.calp1 numit).lam12
  have hs := hc st.salp1 st.calp1 numit hg.1
  unfold Brackets
  rcases hu.2.2.2.2 with hu | hu | hu
  · rw [hu.1, hu.2.1, hu.2.2.1, hu.2.2.2]; exact hb
  · rw [hu.2.1, hu.2.2.1, hu.2.2.2.1, hu.2.2.2.2]
    have : 0 < (lam st.salp1 st.calp1 numit).lam12 := by simpa [lit_zero] using hu.1
    exact ⟨hs.1 this, hb.2⟩
  · rw [hu.2.1, hu.2.2.1, hu.2.2.2.1, hu.2.2.2.2]
    have : (lam st.salp1 st.calp1 numit).lam12 < 0 := by simpa [lit_zero] using hu.1
    exact ⟨hb.1, hs.2 this⟩

theorem step_brackets (p : Params ℝ) (lam : ℝ → ℝ → Nat → LamOut ℝ) (ρ : ℝ) (numit : Nat) (st : LoopSt ℝ) (dv : ℝ)
    (hc : SignContract lam ρ) (hg : Good st) (hb : Brackets ρ st) :
    Brackets ρ (step p numit st (lam st.salp1 st.calp1 numit).lam12 dv) := by
  have hs := step_ends p numit st (lam st.salp1 st.calp1 numit).lam12 dv
  have hu := updBracket_brackets p lam ρ numit st hc hg hb
  unfold Brackets at hu ⊢
  rw [hs.1, hs.2.1, hs.2.2.1, hs.2.2.2]
  exact hu

theorem loop_brackets (p : Params ℝ) (lam : ℝ → ℝ → Nat → LamOut ℝ) (sb ρ : ℝ) (fuel numit : Nat) (st : LoopSt ℝ) (nb : Nat)
    (its : List (ℝ × ℝ)) (hc : SignContract lam ρ) (hg : Good st) (hb : Brackets ρ st) :
    Brackets ρ (loop p lam sb fuel numit st nb its).st := by
  induction fuel generalizing numit st nb its with
  | zero => unfold loop; exact hb
  | succ fuel ih =>
    unfold loop
    simp only []
    split
    · exact hb
    · exact ih _ _ _ _ (step_good p numit st _ _ hg) (step_brackets p lam ρ numit st _ hc hg hb)

/-- up to `maxit1_` an end is only ever replaced by a point on its inner side: the ends move monotonically -/
theorem updBracket_monotone (p : Params ℝ) (numit : Nat) (st : LoopSt ℝ) (v : ℝ) (h : numit ≤ p.maxit1) :
    (updBracket p numit st v).calp1a / (updBracket p numit st v).salp1a ≤ st.calp1a / st.salp1a ∧
    st.calp1b / st.salp1b ≤ (updBracket p numit st v).calp1b / (updBracket p numit st v).salp1b := by
  unfold updBracket
  have hd : decide (p.maxit1 < numit) = false := by simp; omega
  split
  · rename_i hc
    simp only [hd, Bool.false_or, Bool.and_eq_true, ltb_real, decide_eq_true_eq] at hc
    exact ⟨le_refl _, hc.2.le⟩
  · split
    · rename_i hc
      simp only [hd, Bool.false_or, Bool.and_eq_true, ltb_real, decide_eq_true_eq] at hc
      exact ⟨hc.2.le, le_refl _⟩
    · exact ⟨le_refl _, le_refl _⟩

/-! ### output ranges -/

theorem a12_of_sig12 (s : ℝ) (h0 : 0 ≤ s) (h1 : s ≤ Real.pi) : 0 ≤ s / (degree : ℝ) ∧ s / (degree : ℝ) ≤ 180 := by
  have hd := degree_pos
  refine ⟨div_nonneg h0 hd.le, ?_⟩
  rw [div_le_iff₀ hd, degree_eq]
  have := Real.pi_pos
  linarith

local notation "lit0" => (@OfNat.ofNat ℝ 0 RealLike.Lits.instLit)

theorem meridional_sig12c (p : Params ℝ) (k : Kernels ℝ) (β : Beta ℝ) (s c : ℝ) :
    0 ≤ (meridional p k β s c).sig12c ∧ (meridional p k β s c).sig12c ≤ Real.pi := by
  show 0 ≤ RealLike.atan2 (RealLike.max lit0 _ + lit0) _ ∧ RealLike.atan2 (RealLike.max lit0 _ + lit0) _ ≤ Real.pi
  refine atan2_range _ _ ?_
  rw [lit_zero, max_real, add_zero]
  exact le_max_left _ _

theorem meridional_a12_eq (p : Params ℝ) (k : Kernels ℝ) (β : Beta ℝ) (s c : ℝ) :
    (meridional p k β s c).sol.a12 =
      (if (meridional p k β s c).zeroed then (0 : ℝ) else (meridional p k β s c).sig12c) / degree := by
  show (if (meridional p k β s c).zeroed then lit0 else (meridional p k β s c).sig12c) / degree = _
  rw [lit_zero]

theorem meridional_a12 (p : Params ℝ) (k : Kernels ℝ) (β : Beta ℝ) (s c : ℝ) :
    0 ≤ (meridional p k β s c).sol.a12 ∧ (meridional p k β s c).sol.a12 ≤ 180 := by
  rw [meridional_a12_eq]
  have h := meridional_sig12c p k β s c
  split
  · exact a12_of_sig12 0 le_rfl Real.pi_pos.le
  · exact a12_of_sig12 _ h.1 h.2

theorem clamp180_real (q : ℝ) : clamp180 q = min q 180 := by
  unfold clamp180
  simp only [ltb_real, lit_real]
  push_cast
  by_cases h : (180 : ℝ) < q
  · simp only [h, decide_true, if_true]; exact (min_eq_right h.le).symm
  · simp only [h, decide_false, Bool.false_eq_true, if_false]; exact (min_eq_left (not_lt.mp h)).symm

theorem equatorial_a12_eq (p : Params ℝ) (lon12 lam12 : ℝ) : (equatorial p lon12 lam12).a12 = min (lon12 / p.f1) 180 :=
  clamp180_real _

/-- the equatorial answer has `0 ≤ a12 ≤ 180` — since fix 62054f0 (F68) by the clamp, whatever the cut-off test did -/
theorem equatorial_a12 (p : Params ℝ) (c : Canon ℝ) (hp : 0 < p.f1) (hl0 : 0 ≤ c.lon12) :
    0 ≤ (equatorial p c.lon12 (lam12Of c)).a12 ∧ (equatorial p c.lon12 (lam12Of c)).a12 ≤ 180 := by
  rw [equatorial_a12_eq]
  exact ⟨le_min (div_nonneg hl0 hp.le) (by norm_num), min_le_right _ _⟩

/-- … and the clamp is inactive when the cut-off test holds exactly (`lon12s = 180 − lon12 − e` with the error term `e ≥ 0`) -/
theorem equatorial_a12_unclamped (p : Params ℝ) (β : Beta ℝ) (c : Canon ℝ) (hf1 : p.f1 = 1 - p.f) (hf : p.f < 1)
    (hl0 : 0 ≤ c.lon12) (hl1 : c.lon12 ≤ 180) (he : 0 ≤ c.lon12e) (ht : equatorialTest p β.sbet1 (lon12sOf c) = true) :
    (equatorial p c.lon12 (lam12Of c)).a12 = c.lon12 / p.f1 := by
  rw [equatorial_a12_eq]
  apply min_eq_left
  have hp : 0 < p.f1 := by rw [hf1]; linarith
  rw [div_le_iff₀ hp]
  unfold equatorialTest lon12sOf at ht
  simp only [Bool.and_eq_true, Bool.or_eq_true, leb_real, decide_eq_true_eq, lit_real] at ht
  push_cast at ht
  rcases ht.2 with h | h
  · rw [hf1]; nlinarith
  · rw [hf1]; nlinarith

/-- **`0 ≤ a12 ≤ 180` for the whole case analysis**, for every kernel whose arc lengths are in `[0, π]` -/
theorem solve_a12_range (p : Params ℝ) (k : Kernels ℝ) (β : Beta ℝ) (c : Canon ℝ) (hp : 0 < p.f1) (hl0 : 0 ≤ c.lon12)
    (hstart : k.start.sig12 ≤ Real.pi)
    (hlam : ∀ s c n, 0 ≤ (k.lam s c n).sig12 ∧ (k.lam s c n).sig12 ≤ Real.pi) :
    0 ≤ (solve p k β c).1.a12 ∧ (solve p k β c).1.a12 ≤ 180 := by
  rcases solve_cases p k β c with hc | hc | hc | hc
  · rw [hc.2.2]; exact meridional_a12 p k β _ _
  · rw [hc.2]; exact equatorial_a12 p c hp hl0
  · rw [hc.2]
    show 0 ≤ k.start.sig12 / degree ∧ k.start.sig12 / degree ≤ 180
    have : 0 ≤ k.start.sig12 := by simpa [lit_zero] using hc.1
    exact a12_of_sig12 _ this hstart
  · rw [hc.2]
    obtain ⟨s, c', n, hlo⟩ := loop_lo p k.lam β.sbet1 (p.maxit2 + 1) 0 (initSt p.tiny k.start.salp1 k.start.calp1) 0 []
    show 0 ≤ (loop p k.lam β.sbet1 (p.maxit2 + 1) 0 (initSt p.tiny k.start.salp1 k.start.calp1) 0 []).lo.sig12 / degree ∧
         (loop p k.lam β.sbet1 (p.maxit2 + 1) 0 (initSt p.tiny k.start.salp1 k.start.calp1) 0 []).lo.sig12 / degree ≤ 180
    rw [hlo]
    exact a12_of_sig12 _ (hlam s c' n).1 (hlam s c' n).2

/-- the series kernels satisfy the contract of `solve_a12_range` -/
theorem lambda12_sig12 (g : Geod ℝ) (sbet1 cbet1 dn1 sbet2 cbet2 dn2 salp1 calp1 slam120 clam120 : ℝ) :
    0 ≤ (lambda12 g sbet1 cbet1 dn1 sbet2 cbet2 dn2 salp1 calp1 slam120 clam120).sig12 ∧
    (lambda12 g sbet1 cbet1 dn1 sbet2 cbet2 dn2 salp1 calp1 slam120 clam120).sig12 ≤ Real.pi := by
  show 0 ≤ RealLike.atan2 (RealLike.max lit0 _ + lit0) _ ∧ RealLike.atan2 (RealLike.max lit0 _ + lit0) _ ≤ Real.pi
  refine atan2_range _ _ ?_
  rw [lit_zero, max_real, add_zero]
  exact le_max_left _ _

theorem startFinish_sig12 (sig12 salp1 calp1 salp2 calp2 dnm : ℝ) : (startFinish sig12 salp1 calp1 salp2 calp2 dnm).sig12 = sig12 := by
  unfold startFinish; split <;> rfl

theorem startFinish_dnm (sig12 salp1 calp1 salp2 calp2 dnm : ℝ) : (startFinish sig12 salp1 calp1 salp2 calp2 dnm).dnm = dnm := by
  unfold startFinish; split <;> rfl

theorem ite_le_of {c : Prop} [Decidable c] {a b t : ℝ} (ha : a ≤ t) (hb : b ≤ t) : (if c then a else b) ≤ t := by
  split <;> assumption

theorem le_ite_of {c : Prop} [Decidable c] {a b t : ℝ} (ha : t ≤ a) (hb : t ≤ b) : t ≤ (if c then a else b) := by
  split <;> assumption

theorem inverseStart_sig12 (g : Geod ℝ) (eps0 sbet1 cbet1 dn1 sbet2 cbet2 dn2 lam12 slam12 clam12 : ℝ) :
    (inverseStart g eps0 sbet1 cbet1 dn1 sbet2 cbet2 dn2 lam12 slam12 clam12).sig12 ≤ Real.pi := by
  have hneg : (-(@OfNat.ofNat ℝ 1 RealLike.Lits.instLit)) ≤ Real.pi := by rw [lit_one]; have := Real.pi_pos; linarith
  unfold inverseStart
  simp only [apply_ite StartOut.sig12, startFinish_sig12]
  refine ite_le_of ?_ (ite_le_of hneg (ite_le_of (ite_le_of hneg hneg) hneg))
  exact (atan2_range _ _ (by rw [hypot_real]; exact Real.sqrt_nonneg _)).2

/-- … and `dnm ≥ 0` -/
theorem inverseStart_dnm (g : Geod ℝ) (eps0 sbet1 cbet1 dn1 sbet2 cbet2 dn2 lam12 slam12 clam12 : ℝ) :
    0 ≤ (inverseStart g eps0 sbet1 cbet1 dn1 sbet2 cbet2 dn2 lam12 slam12 clam12).dnm := by
  have hd : ∀ (c : Prop) [Decidable c] (x : ℝ), 0 ≤ (if c then RealLike.sqrt x else lit0) := by
    intro c _ x
    refine le_ite_of ?_ ?_
    · rw [sqrt_real]; exact Real.sqrt_nonneg x
    · rw [lit_zero]
  unfold inverseStart
  simp only [apply_ite StartOut.dnm, startFinish_dnm]
  refine le_ite_of (hd _ _) (le_ite_of (hd _ _) (le_ite_of (le_ite_of (hd _ _) (hd _ _)) (hd _ _)))

/-! ### distances, closed forms, azimuths -/

theorem shortLine_s12 (p : Params ℝ) (st : StartOut ℝ) (lam12 : ℝ) (hs : 0 ≤ st.sig12) (hb : 0 ≤ p.b) (hd : 0 ≤ st.dnm) :
    0 ≤ (shortLine p st lam12).s12x := by
  show 0 ≤ st.sig12 * p.b * st.dnm
  positivity

theorem equatorial_s12 (p : Params ℝ) (c : Canon ℝ) (ha : 0 ≤ p.a) (hl : 0 ≤ c.lon12) :
    0 ≤ (equatorial p c.lon12 (lam12Of c)).s12x := by
  show 0 ≤ p.a * (c.lon12 * degree)
  have := degree_pos
  positivity

theorem restore_s12 (ls sw lt : Int) (s : Sol ℝ) (S : ℝ) : (restore ls sw lt s S).s12 = s.s12x := by
  show lit0 + s.s12x = _
  rw [lit_zero, zero_add]

theorem restore_m12 (ls sw lt : Int) (s : Sol ℝ) (S : ℝ) : (restore ls sw lt s S).m12 = s.m12x := by
  show lit0 + s.m12x = _
  rw [lit_zero, zero_add]

theorem restore_a12 (ls sw lt : Int) (s : Sol ℝ) (S : ℝ) : (restore ls sw lt s S).a12 = s.a12 := rfl
theorem restore_S12 (ls sw lt : Int) (s : Sol ℝ) (S : ℝ) : (restore ls sw lt s S).S12 = S := rfl

theorem mulSign_real (s : Int) (x : ℝ) : mulSign s x = if s < 0 then -x else x := rfl

theorem arg_pos_real (x : ℝ) (hx : 0 < x) : Complex.arg ⟨x, 0⟩ = 0 := by
  have : (⟨x, 0⟩ : ℂ) = (x : ℂ) := rfl
  rw [this]; exact Complex.arg_ofReal_of_nonneg hx.le

/-- `atan2d(0, x)` is `0` for `x > 0` and `180` for `x < 0` -/
theorem atan2d_zero_pos (x : ℝ) (hx : 0 < x) : atan2d 0 x = 0 := by
  unfold atan2d signNeg
  have h1 : ¬ (|x| < |(0:ℝ)|) := by simp
  have h2 : ¬ (x < 0) := not_lt.mpr hx.le
  simp only [ltb_real, eqb_real, abs_real, lit_zero, h1, h2, hx.ne', decide_false, Bool.false_eq_true, if_false, Bool.false_and,
    Bool.or_false, atan2_real]
  rw [arg_pos_real x hx, zero_div]

theorem atan2d_zero_neg (x : ℝ) (hx : x < 0) : atan2d 0 x = 180 := by
  unfold atan2d signNeg copysign signNeg
  have h1 : ¬ (|x| < |(0:ℝ)|) := by simp
  have h0 : ¬ ((0:ℝ) < 0) := lt_irrefl _
  simp only [ltb_real, eqb_real, abs_real, lit_zero, h1, hx, h0, decide_false, decide_true, Bool.false_eq_true, if_false, if_true,
    Bool.true_or, Bool.false_or, atan2_real, div_zero, Bool.and_false]
  rw [arg_pos_real (-x) (by linarith), zero_div, lit_real]
  push_cast
  rw [abs_of_pos (by norm_num : (0:ℝ) < 180)]; ring

local notation "lit1" => (@OfNat.ofNat ℝ 1 RealLike.Lits.instLit)
local notation "lit2" => (@OfNat.ofNat ℝ 2 RealLike.Lits.instLit)

theorem areaAlp12_equatorial (tiny : ℝ) (p : Params ℝ) (β : Beta ℝ) (lon12 lam12 : ℝ) (h1 : β.sbet1 = 0) (h2 : β.sbet2 = 0)
    (hc1 : 0 < β.cbet1) (hc2 : 0 < β.cbet2) : areaAlp12 tiny β (equatorial p lon12 lam12) = 0 := by
  unfold areaAlp12
  split
  · rename_i hc
    have hcm : -(7071 / 10 ^ 4 : ℝ) < Real.cos (lam12 / p.f1) := by
      have := hc
      simp only [Bool.and_eq_true, ltb_real, decide_eq_true_eq] at this
      exact this.1.2
    have hpos : 0 < (1 + Real.cos (lam12 / p.f1)) * (0 * 0 + (1 + β.cbet1) * (1 + β.cbet2)) := by
      have a0 : 0 < 1 + Real.cos (lam12 / p.f1) := by norm_num at hcm; linarith
      have a1 : 0 < 1 + β.cbet1 := by linarith
      have a2 : 0 < 1 + β.cbet2 := by linarith
      have := mul_pos a1 a2
      apply mul_pos a0; linarith
    show lit2 * RealLike.atan2 (Real.sin (lam12 / p.f1) * (β.sbet1 * (lit1 + β.cbet2) + β.sbet2 * (lit1 + β.cbet1)))
      ((lit1 + Real.cos (lam12 / p.f1)) * (β.sbet1 * β.sbet2 + (lit1 + β.cbet1) * (lit1 + β.cbet2))) = 0
    rw [h1, h2, lit_one, lit_two, atan2_real]
    have e : Real.sin (lam12 / p.f1) * (0 * (1 + β.cbet2) + 0 * (1 + β.cbet1)) = 0 := by ring
    rw [e, arg_pos_real _ hpos, mul_zero]
  · show (if (RealLike.eqb (lit1 * lit0 - lit0 * lit1) lit0 && RealLike.ltb (lit0 * lit0 + lit1 * lit1) lit0) = true then
        RealLike.atan2 (tiny * lit0) (-lit1) else RealLike.atan2 (lit1 * lit0 - lit0 * lit1) (lit0 * lit0 + lit1 * lit1)) = 0
    rw [lit_zero, lit_one]
    have e1 : (1 : ℝ) * 0 - 0 * 1 = 0 := by ring
    have e2 : (0 : ℝ) * 0 + 1 * 1 = 1 := by ring
    rw [e1, e2]
    have h10 : ¬ ((1:ℝ) < 0) := by norm_num
    simp only [eqb_real, ltb_real, h10, decide_false, Bool.and_false, Bool.false_eq_true, if_false, atan2_real]
    exact arg_pos_real 1 one_pos

/-- the `C4` part of the area vanishes on the equator (`calp0 = 0`) -/
theorem areaSeries_equatorial (g : Geod ℝ) (β : Beta ℝ) (h1 : β.sbet1 = 0) : areaSeries g β 1 0 1 0 = 0 := by
  unfold areaSeries
  have : RealLike.hypot (0 : ℝ) (1 * β.sbet1) = 0 := by rw [h1, hypot_real]; norm_num
  simp only [this, eqb_real]
  simp [lit_zero]

/-! ### the sign flags: symmetries of the whole function -/


theorem neg_lit0 : -lit0 = (0 : ℝ) := by rw [lit_zero, neg_zero]

/-- the sign restoration applied to the equatorial answer -/
theorem restore_equatorial (p : Params ℝ) (lon12 lam12 : ℝ) (ls sw lt : Int) (S : ℝ) :
    (restore ls sw lt (equatorial p lon12 lam12) S).s12 = p.a * lam12 ∧
    (restore ls sw lt (equatorial p lon12 lam12) S).m12 = p.b * Real.sin (lam12 / p.f1) ∧
    (restore ls sw lt (equatorial p lon12 lam12) S).M12 = Real.cos (lam12 / p.f1) ∧
    (restore ls sw lt (equatorial p lon12 lam12) S).M21 = Real.cos (lam12 / p.f1) ∧
    (restore ls sw lt (equatorial p lon12 lam12) S).a12 = min (lon12 / p.f1) 180 ∧
    (restore ls sw lt (equatorial p lon12 lam12) S).calp1 = 0 ∧ (restore ls sw lt (equatorial p lon12 lam12) S).calp2 = 0 ∧
    (restore ls sw lt (equatorial p lon12 lam12) S).salp1 = (if sw * ls < 0 then -1 else 1) ∧
    (restore ls sw lt (equatorial p lon12 lam12) S).salp2 = (if sw * ls < 0 then -1 else 1) := by
  refine ⟨?_, ?_, ?_, ?_, equatorial_a12_eq p lon12 lam12, ?_, ?_, ?_, ?_⟩
  · rw [restore_s12]; rfl
  · rw [restore_m12]; rfl
  · show (if sw < 0 then Real.cos (lam12 / p.f1) else Real.cos (lam12 / p.f1)) = _
    split <;> rfl
  · show (if sw < 0 then Real.cos (lam12 / p.f1) else Real.cos (lam12 / p.f1)) = _
    split <;> rfl
  · show mulSign (sw * lt) (if sw < 0 then lit0 else lit0) = 0
    rw [mulSign_real]; split <;> split <;> simp [lit_zero]
  · show mulSign (sw * lt) (if sw < 0 then lit0 else lit0) = 0
    rw [mulSign_real]; split <;> split <;> simp [lit_zero]
  · show mulSign (sw * ls) (if sw < 0 then lit1 else lit1) = _
    rw [mulSign_real]; split <;> split <;> simp [lit_one]
  · show mulSign (sw * ls) (if sw < 0 then lit1 else lit1) = _
    rw [mulSign_real]; split <;> split <;> simp [lit_one]

theorem areaS12_equatorial (p : Params ℝ) (k : Kernels ℝ) (β : Beta ℝ) (lon12 lam12 : ℝ) (ls sw lt : Int) (h1 : β.sbet1 = 0)
    (h2 : β.sbet2 = 0) (hc1 : 0 < β.cbet1) (hc2 : 0 < β.cbet2) (harea : k.area 1 0 1 0 = 0) :
    areaS12 p k β (equatorial p lon12 lam12) ls sw lt = 0 := by
  unfold areaS12
  rw [areaAlp12_equatorial p.tiny p β lon12 lam12 h1 h2 hc1 hc2]
  show mulSign (sw * ls * lt) (k.area lit1 lit0 lit1 lit0 + p.c2 * 0) + lit0 = 0
  rw [lit_one, lit_zero, harea, mulSign_real]
  split <;> simp

/-- the meridional candidate, spelt out: `σ12 = σ2 − σ1` with `tan σ1 = sbet1/(clam12 cbet1)`, `tan σ2 = sbet2/cbet2`, clipped at 0 -/
theorem meridional_sig12c_eq (p : Params ℝ) (k : Kernels ℝ) (β : Beta ℝ) (s c : ℝ) :
    (meridional p k β s c).sig12c =
      RealLike.atan2 (max 0 (c * β.cbet1 * β.sbet2 - β.sbet1 * β.cbet2)) (c * β.cbet1 * β.cbet2 + β.sbet1 * β.sbet2) := by
  show RealLike.atan2 (RealLike.max lit0 (c * β.cbet1 * β.sbet2 - β.sbet1 * (lit1 * β.cbet2)) + lit0)
      (c * β.cbet1 * (lit1 * β.cbet2) + β.sbet1 * β.sbet2) = _
  rw [lit_zero, lit_one, one_mul, add_zero, max_real]

theorem meridional_fields (p : Params ℝ) (k : Kernels ℝ) (β : Beta ℝ) (s c : ℝ) :
    (meridional p k β s c).sol.salp1 = s ∧ (meridional p k β s c).sol.calp1 = c ∧
    (meridional p k β s c).sol.salp2 = 0 ∧ (meridional p k β s c).sol.calp2 = 1 ∧
    (meridional p k β s c).sol.s12x =
      (if (meridional p k β s c).zeroed then 0
       else (k.lenMerid (meridional p k β s c).sig12c β.sbet1 (c * β.cbet1) β.sbet2 β.cbet2).s12b) * p.b ∧
    (meridional p k β s c).sol.m12x =
      (if (meridional p k β s c).zeroed then 0
       else (k.lenMerid (meridional p k β s c).sig12c β.sbet1 (c * β.cbet1) β.sbet2 β.cbet2).m12b) * p.b := by
  refine ⟨rfl, rfl, lit_zero, lit_one, ?_, ?_⟩
  · show (if (meridional p k β s c).zeroed then lit0
      else (k.lenMerid (meridional p k β s c).sig12c β.sbet1 (c * β.cbet1) β.sbet2 (lit1 * β.cbet2)).s12b) * p.b = _
    rw [lit_zero, lit_one, one_mul]
  · show (if (meridional p k β s c).zeroed then lit0
      else (k.lenMerid (meridional p k β s c).sig12c β.sbet1 (c * β.cbet1) β.sbet2 (lit1 * β.cbet2)).m12b) * p.b = _
    rw [lit_zero, lit_one, one_mul]

/-- `mulSign` of a sign flag on `±1` / `0` -/
theorem mulSign_pm_one (s : Int) (x : ℝ) (hx : x = 1 ∨ x = -1) : mulSign s x = 1 ∨ mulSign s x = -1 := by
  rw [mulSign_real]; split <;> rcases hx with rfl | rfl <;> simp

theorem mulSign_zero (s : Int) : mulSign s (0 : ℝ) = 0 := by
  rw [mulSign_real]; split <;> simp

theorem atan2d_zero_pm_one (x : ℝ) (hx : x = 1 ∨ x = -1) : atan2d 0 x = 0 ∨ atan2d 0 x = 180 := by
  rcases hx with rfl | rfl
  · exact Or.inl (atan2d_zero_pos 1 one_pos)
  · exact Or.inr (atan2d_zero_neg (-1) (by norm_num))

theorem mulSign_neg_flag (s : Int) (hs : s = 1 ∨ s = -1) (x : ℝ) : mulSign (-s) x = -mulSign s x := by
  rcases hs with rfl | rfl <;> simp [mulSign_real]

/-! ### reduced latitudes: the ordering guard (fix 48445e6 / F55) -/

theorem copysign_abs (m x : ℝ) : |copysign m x| = |m| := by
  unfold copysign; split <;> simp

theorem redOne_pos (f1 tiny s c : ℝ) (ht : 0 < tiny) : 0 < (redOne f1 tiny s c).2 := by
  show 0 < RealLike.max tiny _
  rw [max_real]; exact lt_of_lt_of_le ht (le_max_left _ _)

/-- after the guard `|bet2| ≤ |bet1|` holds in the form `Lambda12` needs it, whatever round-off did to `sincosd` and `norm` -/
theorem reduceLat_ordered (p : Params ℝ) (s1 c1 s2 c2 : ℝ) (ht : 0 < p.tiny) (hs : (reduceLat p s1 c1 s2 c2).sbet1 ≤ 0) :
    0 < (reduceLat p s1 c1 s2 c2).cbet1 ∧ 0 < (reduceLat p s1 c1 s2 c2).cbet2 ∧
    ((reduceLat p s1 c1 s2 c2).cbet1 < -(reduceLat p s1 c1 s2 c2).sbet1 →
      (reduceLat p s1 c1 s2 c2).cbet1 ≤ (reduceLat p s1 c1 s2 c2).cbet2) ∧
    (¬ (reduceLat p s1 c1 s2 c2).cbet1 < -(reduceLat p s1 c1 s2 c2).sbet1 →
      |(reduceLat p s1 c1 s2 c2).sbet2| ≤ -(reduceLat p s1 c1 s2 c2).sbet1) := by
  have h1 := redOne_pos p.f1 p.tiny s1 c1 ht
  have h2 := redOne_pos p.f1 p.tiny s2 c2 ht
  have hs' : (redOne p.f1 p.tiny s1 c1).1 ≤ 0 := hs
  set b1 := redOne p.f1 p.tiny s1 c1 with hb1
  set b2 := redOne p.f1 p.tiny s2 c2 with hb2
  have e1 : (reduceLat p s1 c1 s2 c2).sbet1 = b1.1 := rfl
  have e2 : (reduceLat p s1 c1 s2 c2).cbet1 = b1.2 := rfl
  have e3 : (reduceLat p s1 c1 s2 c2).sbet2 =
      if (if RealLike.ltb b1.2 (-b1.1) then RealLike.leb b2.2 b1.2 else RealLike.leb (-b1.1) (RealLike.abs b2.1)) then copysign b1.1 b2.1
      else b2.1 := rfl
  have e4 : (reduceLat p s1 c1 s2 c2).cbet2 =
      if (if RealLike.ltb b1.2 (-b1.1) then RealLike.leb b2.2 b1.2 else RealLike.leb (-b1.1) (RealLike.abs b2.1)) then b1.2
      else b2.2 := rfl
  rw [e1, e2, e3, e4]
  simp only [ltb_real, leb_real, abs_real]
  by_cases hc : b1.2 < -b1.1
  · simp only [hc, decide_true, if_true, not_true, false_imp_iff, and_true, forall_true_left]
    by_cases hf : b2.2 ≤ b1.2
    · simp only [hf, decide_true, if_true]; exact ⟨h1, h1, le_refl _⟩
    · simp only [hf, decide_false, Bool.false_eq_true, if_false]; exact ⟨h1, h2, (not_le.mp hf).le⟩
  · simp only [hc, decide_false, Bool.false_eq_true, if_false, not_false_eq_true, forall_true_left, false_imp_iff, true_and]
    by_cases hf : -b1.1 ≤ |b2.1|
    · simp only [hf, decide_true, if_true]
      refine ⟨h1, h1, ?_⟩
      rw [copysign_abs, abs_of_nonpos hs']
    · simp only [hf, decide_false, Bool.false_eq_true, if_false]
      exact ⟨h1, h2, (not_le.mp hf).le⟩

/-- hence the radicand of `calp2` in `Lambda12` is non-negative for every trial azimuth: no `sqrt` of a negative number (what F55 was) -/
theorem radicand_nonneg (sbet1 cbet1 sbet2 cbet2 calp1 : ℝ) (hc1 : 0 < cbet1) (hc2 : 0 < cbet2)
    (ho1 : cbet1 < -sbet1 → cbet1 ≤ cbet2) (ho2 : ¬ cbet1 < -sbet1 → |sbet2| ≤ -sbet1) :
    0 ≤ RealLike.sq (calp1 * cbet1) +
      (if RealLike.ltb cbet1 (-sbet1) then (cbet2 - cbet1) * (cbet1 + cbet2) else (sbet1 - sbet2) * (sbet1 + sbet2)) := by
  rw [sq_real, ltb_real]
  by_cases hc : cbet1 < -sbet1
  · simp only [hc, decide_true, if_true]
    have := ho1 hc
    have h1 : 0 ≤ (cbet2 - cbet1) * (cbet1 + cbet2) := mul_nonneg (by linarith) (by linarith)
    positivity
  · simp only [hc, decide_false, Bool.false_eq_true, if_false]
    have := ho2 hc
    have h2 : sbet2 ^ 2 ≤ sbet1 ^ 2 := by
      have := abs_le.mp this
      nlinarith [this.1, this.2]
    have h1 : 0 ≤ (sbet1 - sbet2) * (sbet1 + sbet2) := by nlinarith
    positivity

end Real

end GeoVerif.Proofs.GeodInvFull
