import GeoVerif.Model.GeodInvFull
import GeoVerif.Proofs.GeodLine
import GeoVerif.Spec.RealInst
import Mathlib.Tactic.Ring
import Mathlib.Tactic.Linarith
import Mathlib.Tactic.FieldSimp
import Mathlib.Tactic.NormNum
import Mathlib.Tactic.Positivity
import Mathlib.Tactic.LinearCombination
/-!
# Lemmas about `Model/GeodInvFull.lean` (the whole of `GenInverse` behind the canonicalisation), used by `Props/C02.lean`

Part 1 holds for every number type (binary64 included): which fields one pass of the Newton/bisection loop can touch, the
iteration budget.  Part 2 is the real reading: the bracket is a bracket, a bisection step halves it, output ranges, the closed
forms of the equatorial and meridional answers.
-/
namespace GeoVerif.Proofs.GeodInvFull
open GeoVerif GeoVerif.GeodLine GeoVerif.GeodInvSeries GeoVerif.GeodInvFull

/-! ## Part 1 — every number type -/

section AnyType
open GeoVerif.RealLike.Lits
variable {α : Type} [RealLike α]

/-- `updBracket` moves at most one end, and only to the current point, and only on the sign of `v` -/
theorem updBracket_spec (p : Params α) (numit : Nat) (st : LoopSt α) (v : α) :
    (updBracket p numit st v).salp1 = st.salp1 ∧ (updBracket p numit st v).calp1 = st.calp1 ∧
    (updBracket p numit st v).tripn = st.tripn ∧ (updBracket p numit st v).tripb = st.tripb ∧
    (((updBracket p numit st v).salp1a = st.salp1a ∧ (updBracket p numit st v).calp1a = st.calp1a ∧
      (updBracket p numit st v).salp1b = st.salp1b ∧ (updBracket p numit st v).calp1b = st.calp1b) ∨
     (RealLike.ltb 0 v = true ∧ (updBracket p numit st v).salp1b = st.salp1 ∧ (updBracket p numit st v).calp1b = st.calp1 ∧
      (updBracket p numit st v).salp1a = st.salp1a ∧ (updBracket p numit st v).calp1a = st.calp1a) ∨
     (RealLike.ltb v 0 = true ∧ (updBracket p numit st v).salp1a = st.salp1 ∧ (updBracket p numit st v).calp1a = st.calp1 ∧
      (updBracket p numit st v).salp1b = st.salp1b ∧ (updBracket p numit st v).calp1b = st.calp1b)) := by
  unfold updBracket
  split
  · rename_i h
    simp only [Bool.and_eq_true] at h
    exact ⟨rfl, rfl, rfl, rfl, Or.inr (Or.inl ⟨h.1, rfl, rfl, rfl, rfl⟩)⟩
  · split
    · rename_i h
      simp only [Bool.and_eq_true] at h
      exact ⟨rfl, rfl, rfl, rfl, Or.inr (Or.inr ⟨h.1, rfl, rfl, rfl, rfl⟩)⟩
    · exact ⟨rfl, rfl, rfl, rfl, Or.inl ⟨rfl, rfl, rfl, rfl⟩⟩

/-- an accepted Newton update leaves the bracket alone -/
theorem newtonTry_ends (p : Params α) (numit : Nat) (st s : LoopSt α) (v dv : α) (h : newtonTry p numit st v dv = some s) :
    s.salp1a = st.salp1a ∧ s.calp1a = st.calp1a ∧ s.salp1b = st.salp1b ∧ s.calp1b = st.calp1b ∧ s.tripb = st.tripb := by
  unfold newtonTry at h
  split at h
  · simp only [] at h
    split at h
    · split at h
      · injection h with h; subst h; exact ⟨rfl, rfl, rfl, rfl, rfl⟩
      · cases h
    · cases h
  · cases h

/-- the Newton update is only attempted while `numit < maxit1_` and with a positive derivative -/
theorem newtonTry_some (p : Params α) (numit : Nat) (st s : LoopSt α) (v dv : α) (h : newtonTry p numit st v dv = some s) :
    numit < p.maxit1 ∧ RealLike.ltb 0 dv = true := by
  unfold newtonTry at h
  split at h
  · rename_i hc
    simpa using hc
  · cases h

theorem bisect_ends (p : Params α) (st : LoopSt α) :
    (bisect p st).salp1a = st.salp1a ∧ (bisect p st).calp1a = st.calp1a ∧ (bisect p st).salp1b = st.salp1b ∧
    (bisect p st).calp1b = st.calp1b ∧ (bisect p st).tripn = false := ⟨rfl, rfl, rfl, rfl, rfl⟩

/-- one pass of the loop changes the bracket exactly as `updBracket` does -/
theorem step_ends (p : Params α) (numit : Nat) (st : LoopSt α) (v dv : α) :
    (step p numit st v dv).salp1a = (updBracket p numit st v).salp1a ∧ (step p numit st v dv).calp1a = (updBracket p numit st v).calp1a ∧
    (step p numit st v dv).salp1b = (updBracket p numit st v).salp1b ∧ (step p numit st v dv).calp1b = (updBracket p numit st v).calp1b := by
  unfold step
  simp only []
  split
  · rename_i s hs
    have := newtonTry_ends p numit _ s v dv hs
    exact ⟨this.1, this.2.1, this.2.2.1, this.2.2.2.1⟩
  · exact ⟨rfl, rfl, rfl, rfl⟩

/-- from `maxit1_` on every pass is a bisection -/
theorem step_after_maxit1 (p : Params α) (numit : Nat) (st : LoopSt α) (v dv : α) (h : p.maxit1 ≤ numit) :
    step p numit st v dv = bisect p (updBracket p numit st v) := by
  unfold step
  simp only []
  have : newtonTry p numit (updBracket p numit st v) v dv = none := by
    unfold newtonTry
    have : decide (numit < p.maxit1) = false := by simp; omega
    simp [this]
  rw [this]

/-- … and beyond `maxit1_` the end on the side of the sign of `v` is replaced unconditionally -/
theorem updBracket_after_maxit1_pos (p : Params α) (numit : Nat) (st : LoopSt α) (v : α) (h : p.maxit1 < numit) (hv : RealLike.ltb 0 v = true) :
    (updBracket p numit st v).salp1b = st.salp1 ∧ (updBracket p numit st v).calp1b = st.calp1 := by
  unfold updBracket
  have : decide (p.maxit1 < numit) = true := by simpa using h
  simp [hv, this]

theorem updBracket_after_maxit1_neg (p : Params α) (numit : Nat) (st : LoopSt α) (v : α) (h : p.maxit1 < numit) (hv : RealLike.ltb v 0 = true)
    (hv' : RealLike.ltb 0 v = false) :
    (updBracket p numit st v).salp1a = st.salp1 ∧ (updBracket p numit st v).calp1a = st.calp1 := by
  unfold updBracket
  have : decide (p.maxit1 < numit) = true := by simpa using h
  simp [hv, hv', this]

/-- the iteration budget: started with `numit + fuel = maxit2_ + 1` the loop returns with `numit ≤ maxit2_` (the
    `numit == maxit2_` exit fires before the fuel runs out) -/
theorem loop_numit_le (p : Params α) (lam : α → α → Nat → LamOut α) (fuel numit : Nat) (st : LoopSt α) (nb : Nat) (its : List (α × α))
    (h : numit + fuel = p.maxit2 + 1) (hf : 0 < fuel) :
    (loop p lam fuel numit st nb its).numit ≤ p.maxit2 := by
  induction fuel generalizing numit st nb its with
  | zero => omega
  | succ fuel ih =>
    unfold loop
    simp only []
    split
    · show numit ≤ p.maxit2
      omega
    · rename_i hstop
      have hne : numit ≠ p.maxit2 := by
        intro he
        apply hstop
        unfold stopNow
        simp [he]
      apply ih
      · omega
      · omega

/-- `numit` never decreases, and one kernel evaluation is recorded per pass -/
theorem loop_evals (p : Params α) (lam : α → α → Nat → LamOut α) (fuel numit : Nat) (st : LoopSt α) (nb : Nat) (its : List (α × α)) :
    numit ≤ (loop p lam fuel numit st nb its).numit ∧
    (loop p lam fuel numit st nb its).iterates.length = its.length + ((loop p lam fuel numit st nb its).numit - numit) + 1 := by
  induction fuel generalizing numit st nb its with
  | zero => unfold loop; simp
  | succ fuel ih =>
    unfold loop
    simp only []
    split
    · simp
    · have := ih (numit + 1) (step p numit st (lam st.salp1 st.calp1 numit).lam12 (lam st.salp1 st.calp1 numit).dlam12)
        (if isBisect p numit st (lam st.salp1 st.calp1 numit).lam12 (lam st.salp1 st.calp1 numit).dlam12 then nb + 1 else nb)
        ((st.salp1, st.calp1) :: its)
      constructor
      · omega
      · rw [this.2]; simp; omega

/-- extra fuel changes nothing -/
theorem loop_fuel_irrelevant (p : Params α) (lam : α → α → Nat → LamOut α) (fuel extra numit : Nat) (st : LoopSt α) (nb : Nat)
    (its : List (α × α)) (h : numit + fuel = p.maxit2 + 1) (hf : 0 < fuel) :
    loop p lam (fuel + extra) numit st nb its = loop p lam fuel numit st nb its := by
  induction fuel generalizing numit st nb its with
  | zero => omega
  | succ fuel ih =>
    have : fuel + 1 + extra = (fuel + extra) + 1 := by omega
    rw [this]
    unfold loop
    simp only []
    split
    · rfl
    · rename_i hstop
      have hne : numit ≠ p.maxit2 := by
        intro he
        apply hstop
        unfold stopNow
        simp [he]
      apply ih
      · omega
      · omega

/-- what the bracket ends are, for any kernel: the initial end, or a point at which the kernel was evaluated and found to
    have the sign that puts the root on the other side -/
def EndsObserved (p : Params α) (lam : α → α → Nat → LamOut α) (st : LoopSt α) : Prop :=
  ((st.salp1a = p.tiny ∧ st.calp1a = 1) ∨ ∃ n, RealLike.ltb (lam st.salp1a st.calp1a n).lam12 0 = true) ∧
  ((st.salp1b = p.tiny ∧ st.calp1b = -(1 : α)) ∨ ∃ n, RealLike.ltb 0 (lam st.salp1b st.calp1b n).lam12 = true)

theorem step_ends_observed (p : Params α) (lam : α → α → Nat → LamOut α) (numit : Nat) (st : LoopSt α) (dv : α)
    (h : EndsObserved p lam st) : EndsObserved p lam (step p numit st (lam st.salp1 st.calp1 numit).lam12 dv) := by
  obtain ⟨ha, hb⟩ := h
  have hs := step_ends p numit st (lam st.salp1 st.calp1 numit).lam12 dv
  have hu := updBracket_spec p numit st (lam st.salp1 st.calp1 numit).lam12
  unfold EndsObserved
  rw [hs.1, hs.2.1, hs.2.2.1, hs.2.2.2]
  rcases hu.2.2.2.2 with hu | hu | hu
  · rw [hu.1, hu.2.1, hu.2.2.1, hu.2.2.2]; exact ⟨ha, hb⟩
  · rw [hu.2.1, hu.2.2.1, hu.2.2.2.1, hu.2.2.2.2]; exact ⟨ha, Or.inr ⟨numit, hu.1⟩⟩
  · rw [hu.2.1, hu.2.2.1, hu.2.2.2.1, hu.2.2.2.2]; exact ⟨Or.inr ⟨numit, hu.1⟩, hb⟩

theorem loop_ends_observed (p : Params α) (lam : α → α → Nat → LamOut α) (fuel numit : Nat) (st : LoopSt α) (nb : Nat)
    (its : List (α × α)) (h : EndsObserved p lam st) : EndsObserved p lam (loop p lam fuel numit st nb its).st := by
  induction fuel generalizing numit st nb its with
  | zero => unfold loop; exact h
  | succ fuel ih =>
    unfold loop
    simp only []
    split
    · exact h
    · exact ih _ _ _ _ (step_ends_observed p lam numit st _ h)

end AnyType

/-! ## Part 2 — the real reading -/

section Real
open Real

theorem pi_real : (RealLike.pi : ℝ) = Real.pi := rfl
theorem atan2_real (y x : ℝ) : RealLike.atan2 y x = Complex.arg ⟨x, y⟩ := rfl
theorem max_real (x y : ℝ) : RealLike.max x y = max x y := rfl
theorem min_real (x y : ℝ) : RealLike.min x y = min x y := rfl

theorem lit_zero : @OfNat.ofNat ℝ 0 RealLike.Lits.instLit = (0 : ℝ) := by rw [lit_real]; simp
theorem lit_one : @OfNat.ofNat ℝ 1 RealLike.Lits.instLit = (1 : ℝ) := by rw [lit_real]; simp
theorem lit_two : @OfNat.ofNat ℝ 2 RealLike.Lits.instLit = (2 : ℝ) := by rw [lit_real]; try norm_num

theorem degree_eq : (degree : ℝ) = Real.pi / 180 := by
  unfold degree; simp only [pi_real, lit_real]; try push_cast

theorem degree_pos : (0 : ℝ) < degree := by rw [degree_eq]; positivity

/-- `atan2` of a non-negative ordinate lies in `[0, π]` -/
theorem atan2_range (y x : ℝ) (hy : 0 ≤ y) : 0 ≤ (RealLike.atan2 y x : ℝ) ∧ (RealLike.atan2 y x : ℝ) ≤ Real.pi := by
  rw [atan2_real]
  exact ⟨Complex.arg_nonneg_iff.mpr hy, Complex.arg_le_pi _⟩

theorem norm2_fst (x y : ℝ) : (norm2 x y).1 = x / Real.sqrt (x ^ 2 + y ^ 2) := rfl
theorem norm2_snd (x y : ℝ) : (norm2 x y).2 = y / Real.sqrt (x ^ 2 + y ^ 2) := rfl

theorem norm2_pos_unit (x y : ℝ) (hx : 0 < x) :
    0 < (norm2 x y).1 ∧ (norm2 x y).1 ^ 2 + (norm2 x y).2 ^ 2 = 1 ∧ (norm2 x y).2 / (norm2 x y).1 = y / x := by
  have hp : 0 < x ^ 2 + y ^ 2 := by positivity
  have hs : 0 < Real.sqrt (x ^ 2 + y ^ 2) := Real.sqrt_pos.mpr hp
  refine ⟨?_, GeoVerif.Proofs.GeodLine.norm2_unit x y (Or.inl hx.ne'), ?_⟩
  · rw [norm2_fst]; positivity
  · rw [norm2_fst, norm2_snd]; field_simp

/-! ### the loop -/

/-- the current point is a unit vector in the open upper half plane (`alp1 ∈ (0, π)`), the ends have positive sine -/
def Good (st : LoopSt ℝ) : Prop := 0 < st.salp1 ∧ st.salp1 ^ 2 + st.calp1 ^ 2 = 1 ∧ 0 < st.salp1a ∧ 0 < st.salp1b

/-- `ρ = cot(root)` lies strictly between the cotangents of the ends (`cot` decreases on `(0, π)`: the lower end has the larger one) -/
def Brackets (ρ : ℝ) (st : LoopSt ℝ) : Prop := st.calp1b / st.salp1b < ρ ∧ ρ < st.calp1a / st.salp1a

/-- the kernel is positive only above the root and negative only below it -/
def SignContract (lam : ℝ → ℝ → Nat → LamOut ℝ) (ρ : ℝ) : Prop :=
  ∀ s c n, 0 < s → (0 < (lam s c n).lam12 → c / s < ρ) ∧ ((lam s c n).lam12 < 0 → ρ < c / s)

theorem bisect_pos_unit (p : Params ℝ) (st : LoopSt ℝ) (ha : 0 < st.salp1a) (hb : 0 < st.salp1b) :
    0 < (bisect p st).salp1 ∧ (bisect p st).salp1 ^ 2 + (bisect p st).calp1 ^ 2 = 1 ∧
    (bisect p st).calp1 / (bisect p st).salp1 = (st.calp1a + st.calp1b) / (st.salp1a + st.salp1b) := by
  have hx : 0 < (st.salp1a + st.salp1b) / 2 := by positivity
  have h := norm2_pos_unit ((st.salp1a + st.salp1b) / 2) ((st.calp1a + st.calp1b) / 2) hx
  have e1 : (bisect p st).salp1 = (norm2 ((st.salp1a + st.salp1b) / 2) ((st.calp1a + st.calp1b) / 2)).1 := by
    unfold bisect; simp only [lit_two]
  have e2 : (bisect p st).calp1 = (norm2 ((st.salp1a + st.salp1b) / 2) ((st.calp1a + st.calp1b) / 2)).2 := by
    unfold bisect; simp only [lit_two]
  rw [e1, e2]
  refine ⟨h.1, h.2.1, ?_⟩
  rw [h.2.2]; field_simp

/-- a bisection step puts the current point strictly inside the bracket (its cotangent is the mediant of the ends') -/
theorem bisect_between (p : Params ℝ) (st : LoopSt ℝ) (ha : 0 < st.salp1a) (hb : 0 < st.salp1b)
    (hab : st.calp1b / st.salp1b < st.calp1a / st.salp1a) :
    st.calp1b / st.salp1b < (bisect p st).calp1 / (bisect p st).salp1 ∧
    (bisect p st).calp1 / (bisect p st).salp1 < st.calp1a / st.salp1a := by
  rw [(bisect_pos_unit p st ha hb).2.2]
  have hs : 0 < st.salp1a + st.salp1b := by positivity
  rw [div_lt_div_iff₀ hb ha] at hab
  constructor
  · rw [div_lt_div_iff₀ hb hs]; nlinarith
  · rw [div_lt_div_iff₀ hs ha]; nlinarith

/-- **a bisection step halves the bracket, in the angle**: the normalised midpoint of the chord between the directions `A` and
    `B` (less than a half turn apart) is the direction `(A + B)/2` -/
theorem bisect_angle (A B : ℝ) (h : |A - B| < Real.pi) :
    norm2 ((Real.sin A + Real.sin B) / 2) ((Real.cos A + Real.cos B) / 2) = (Real.sin ((A + B) / 2), Real.cos ((A + B) / 2)) := by
  set u := (A + B) / 2 with hu
  set w := (A - B) / 2 with hw
  have hA : A = u + w := by rw [hu, hw]; ring
  have hB : B = u - w := by rw [hu, hw]; ring
  have hcw : 0 < Real.cos w := by
    apply Real.cos_pos_of_mem_Ioo
    have := abs_lt.mp h
    constructor <;> rw [hw] <;> linarith [this.1, this.2]
  have hx : (Real.sin A + Real.sin B) / 2 = Real.sin u * Real.cos w := by rw [hA, hB, Real.sin_add, Real.sin_sub]; ring
  have hy : (Real.cos A + Real.cos B) / 2 = Real.cos u * Real.cos w := by rw [hA, hB, Real.cos_add, Real.cos_sub]; ring
  have hh : Real.sqrt ((Real.sin u * Real.cos w) ^ 2 + (Real.cos u * Real.cos w) ^ 2) = Real.cos w := by
    have : (Real.sin u * Real.cos w) ^ 2 + (Real.cos u * Real.cos w) ^ 2 = Real.cos w ^ 2 := by
      have := Real.sin_sq_add_cos_sq u; nlinarith
    rw [this, Real.sqrt_sq hcw.le]
  rw [hx, hy]
  ext
  · rw [norm2_fst, hh]; exact mul_div_cancel_right₀ _ hcw.ne'
  · rw [norm2_snd, hh]; exact mul_div_cancel_right₀ _ hcw.ne'

theorem newtonTry_pos_unit (p : Params ℝ) (numit : Nat) (st s : LoopSt ℝ) (v dv : ℝ) (h : newtonTry p numit st v dv = some s) :
    0 < s.salp1 ∧ s.salp1 ^ 2 + s.calp1 ^ 2 = 1 := by
  unfold newtonTry at h
  split at h
  · simp only [] at h
    split at h
    · split at h
      · rename_i hn
        injection h with h; subst h
        simp only [ltb_real, decide_eq_true_eq, lit_zero, sin_real, cos_real] at hn
        have := norm2_pos_unit _ (st.calp1 * Real.cos (-v / dv) - st.salp1 * Real.sin (-v / dv)) hn
        exact ⟨this.1, this.2.1⟩
      · cases h
    · cases h
  · cases h

theorem updBracket_good (p : Params ℝ) (numit : Nat) (st : LoopSt ℝ) (v : ℝ) (h : Good st) : Good (updBracket p numit st v) := by
  obtain ⟨h1, h2, h3, h4⟩ := h
  have hu := updBracket_spec p numit st v
  unfold Good
  rw [hu.1, hu.2.1]
  rcases hu.2.2.2.2 with hu | hu | hu
  · rw [hu.1, hu.2.2.1]; exact ⟨h1, h2, h3, h4⟩
  · rw [hu.2.1, hu.2.2.2.1]; exact ⟨h1, h2, h3, h1⟩
  · rw [hu.2.1, hu.2.2.2.1]; exact ⟨h1, h2, h1, h4⟩

/-- **the iterates stay in `(0, π)`**: one pass of the loop keeps the current point a unit vector with positive sine, and the
    ends in the upper half plane — for every kernel -/
theorem step_good (p : Params ℝ) (numit : Nat) (st : LoopSt ℝ) (v dv : ℝ) (h : Good st) : Good (step p numit st v dv) := by
  have hu := updBracket_good p numit st v h
  unfold step
  simp only []
  split
  · rename_i s hs
    have he := newtonTry_ends p numit _ s v dv hs
    have hp := newtonTry_pos_unit p numit _ s v dv hs
    exact ⟨hp.1, hp.2, by rw [he.1]; exact hu.2.2.1, by rw [he.2.2.1]; exact hu.2.2.2⟩
  · have hb := bisect_pos_unit p (updBracket p numit st v) hu.2.2.1 hu.2.2.2
    exact ⟨hb.1, hb.2.1, hu.2.2.1, hu.2.2.2⟩

theorem loop_good (p : Params ℝ) (lam : ℝ → ℝ → Nat → LamOut ℝ) (fuel numit : Nat) (st : LoopSt ℝ) (nb : Nat) (its : List (ℝ × ℝ))
    (h : Good st) : Good (loop p lam fuel numit st nb its).st := by
  induction fuel generalizing numit st nb its with
  | zero => unfold loop; exact h
  | succ fuel ih =>
    unfold loop
    simp only []
    split
    · exact h
    · exact ih _ _ _ _ (step_good p numit st _ _ h)

/-- `updBracket` keeps the root between the ends when the kernel's sign tells on which side of the current point it is -/
theorem updBracket_brackets (p : Params ℝ) (lam : ℝ → ℝ → Nat → LamOut ℝ) (ρ : ℝ) (numit : Nat) (st : LoopSt ℝ)
    (hc : SignContract lam ρ) (hg : Good st) (hb : Brackets ρ st) :
    Brackets ρ (updBracket p numit st (lam st.salp1 st.calp1 numit).lam12) := by
  have hu := updBracket_spec p numit st (lam st.salp1 st.calp1 numit).lam12
  have hs := hc st.salp1 st.calp1 numit hg.1
  unfold Brackets
  rcases hu.2.2.2.2 with hu | hu | hu
  · rw [hu.1, hu.2.1, hu.2.2.1, hu.2.2.2]; exact hb
  · rw [hu.2.1, hu.2.2.1, hu.2.2.2.1, hu.2.2.2.2]
    have : 0 < (lam st.salp1 st.calp1 numit).lam12 := by simpa [lit_zero] using hu.1
    exact ⟨hs.1 this, hb.2⟩
  · rw [hu.2.1, hu.2.2.1, hu.2.2.2.1, hu.2.2.2.2]
    have : (lam st.salp1 st.calp1 numit).lam12 < 0 := by simpa [lit_zero] using hu.1
    exact ⟨hb.1, hs.2 this⟩

theorem step_brackets (p : Params ℝ) (lam : ℝ → ℝ → Nat → LamOut ℝ) (ρ : ℝ) (numit : Nat) (st : LoopSt ℝ) (dv : ℝ)
    (hc : SignContract lam ρ) (hg : Good st) (hb : Brackets ρ st) :
    Brackets ρ (step p numit st (lam st.salp1 st.calp1 numit).lam12 dv) := by
  have hs := step_ends p numit st (lam st.salp1 st.calp1 numit).lam12 dv
  have hu := updBracket_brackets p lam ρ numit st hc hg hb
  unfold Brackets at hu ⊢
  rw [hs.1, hs.2.1, hs.2.2.1, hs.2.2.2]
  exact hu

theorem loop_brackets (p : Params ℝ) (lam : ℝ → ℝ → Nat → LamOut ℝ) (ρ : ℝ) (fuel numit : Nat) (st : LoopSt ℝ) (nb : Nat)
    (its : List (ℝ × ℝ)) (hc : SignContract lam ρ) (hg : Good st) (hb : Brackets ρ st) :
    Brackets ρ (loop p lam fuel numit st nb its).st := by
  induction fuel generalizing numit st nb its with
  | zero => unfold loop; exact hb
  | succ fuel ih =>
    unfold loop
    simp only []
    split
    · exact hb
    · exact ih _ _ _ _ (step_good p numit st _ _ hg) (step_brackets p lam ρ numit st _ hc hg hb)

/-- up to `maxit1_` an end is only ever replaced by a point on its inner side: the ends move monotonically -/
theorem updBracket_monotone (p : Params ℝ) (numit : Nat) (st : LoopSt ℝ) (v : ℝ) (h : numit ≤ p.maxit1) :
    (updBracket p numit st v).calp1a / (updBracket p numit st v).salp1a ≤ st.calp1a / st.salp1a ∧
    st.calp1b / st.salp1b ≤ (updBracket p numit st v).calp1b / (updBracket p numit st v).salp1b := by
  unfold updBracket
  have hd : decide (p.maxit1 < numit) = false := by simp; omega
  split
  · rename_i hc
    simp only [hd, Bool.false_or, Bool.and_eq_true, ltb_real, decide_eq_true_eq] at hc
    exact ⟨le_refl _, hc.2.le⟩
  · split
    · rename_i hc
      simp only [hd, Bool.false_or, Bool.and_eq_true, ltb_real, decide_eq_true_eq] at hc
      exact ⟨hc.2.le, le_refl _⟩
    · exact ⟨le_refl _, le_refl _⟩

end Real

end GeoVerif.Proofs.GeodInvFull
