import GeoVerif.Model.Conic
import GeoVerif.Model.ConicKernels
import GeoVerif.Spec.RealInst
import GeoVerif.Proofs.Conic
import GeoVerif.Proofs.ConicDD
import Mathlib.Tactic.Ring
import Mathlib.Tactic.LinearCombination
import Mathlib.Tactic.FieldSimp
import Mathlib.Tactic.Positivity
import Mathlib.Tactic.NormNum
import Mathlib.Tactic.Linarith
import Mathlib.Data.Real.Basic
/-!
# `Init` of the two conic classes over ℝ: the careful `1 − n` of `LambertConformalConic`, and `s`, `1 − s`, `C`, the Newton
function of `AlbersEqualArea` (lemmas; the property theorems are in `Props/C11.lean`)
-/
namespace GeoVerif.Proofs.ConicInit
open GeoVerif GeoVerif.Conic GeoVerif.Proofs.Conic GeoVerif.Proofs.ConicDD

/-! ## pieces of `lccOneMinusN` -/

/-- `hyp x ≥ 1` -/
theorem one_le_hyp (x : ℝ) : 1 ≤ hyp x := by
  have h := hyp_sq x; have p := hyp_pos x
  nlinarith [sq_nonneg x]

/-- the conformal secant: for `tchi = ch·t − sh·sc` (`ch = hyp sh`, `sc = hyp t`), `hyp tchi = ch·sc − sh·t` -/
theorem hyp_tchi (t sh : ℝ) : hyp (hyp sh * t - sh * hyp t) = hyp sh * hyp t - sh * t := by
  have h1 := hyp_sq t; have h2 := hyp_sq sh
  have p1 := hyp_pos t; have p2 := hyp_pos sh
  have a1 := abs_lt_hyp t; have a2 := abs_lt_hyp sh
  have hpos : 0 < hyp sh * hyp t - sh * t := by
    have : |sh * t| < hyp sh * hyp t := by
      rw [abs_mul]
      exact mul_lt_mul'' a2 a1 (abs_nonneg _) (abs_nonneg _)
    have := (abs_lt.mp this).2
    linarith
  rw [hyp_real]
  have e : 1 + (hyp sh * t - sh * hyp t) ^ 2 = (hyp sh * hyp t - sh * t) ^ 2 := by
    linear_combination (-(hyp t ^ 2 - t ^ 2)) * h2 - h1
  rw [e]
  exact Real.sqrt_sq hpos.le

/-- `s1 = scbet1² − scchi1²` (written without the two ones: `tbet1² − tchi1²`) -/
theorem lccS_eq (fm t sh : ℝ) :
    lccS (1 - fm ^ 2) t (hyp t) sh (hyp sh) = (fm * t) ^ 2 - (hyp sh * t - sh * hyp t) ^ 2 := by
  have h1 := hyp_sq t; have h2 := hyp_sq sh
  unfold lccS
  simp only [sq_real, one_real, two_real]
  linear_combination (t ^ 2) * h2 + (sh ^ 2) * h1

/-- `t1 = scbet1 − tchi1`, both forms -/
theorem lccT_eq (s tchi scbet : ℝ) (hs : s + 1 = scbet ^ 2 - tchi ^ 2) (hb : 0 < scbet) :
    lccT s tchi scbet = scbet - tchi := by
  unfold lccT
  simp only [ltb_real, zero_real, one_real]
  by_cases h : tchi < 0
  · simp only [h, decide_true, if_true]
  · simp only [h, decide_false, Bool.false_eq_true, if_false]
    have : 0 < scbet + tchi := by linarith [not_lt.mp h]
    rw [hs, div_eq_iff this.ne']
    ring

/-- `1 + a1 = (tchi1 + scchi1)/(2 scbet1)` -/
theorem lccA_eq (s t tchi scchi scbet : ℝ) (hs : s = scbet ^ 2 - scchi ^ 2) (ht : t = scbet - tchi) (hb : 0 < scbet) (hc : 0 < scchi) :
    1 + lccA s t scchi scbet = (tchi + scchi) / (2 * scbet) := by
  unfold lccA
  simp only [two_real]
  have h1 : scbet + scchi ≠ 0 := by positivity
  rw [hs, ht]
  field_simp
  ring

theorem lccSecMinusTan_eq (tb : ℝ) : lccSecMinusTan tb (hyp tb) = hyp tb - tb := by
  have h := hyp_sq tb; have p := hyp_pos tb; have a := abs_lt_hyp tb
  unfold lccSecMinusTan
  simp only [ltb_real, zero_real, one_real]
  by_cases h0 : 0 < tb
  · simp only [h0, decide_true, if_true]
    have : hyp tb + tb ≠ 0 := by positivity
    rw [div_eq_iff this]
    linear_combination -h
  · simp only [h0, decide_false, Bool.false_eq_true, if_false]

/-- `tbm = 1 − (tbet2 + tbet1)/(scbet2 + scbet1)` -/
theorem lccTbm_eq (tb1 tb2 : ℝ) : lccTbm tb1 (hyp tb1) tb2 (hyp tb2) = 1 - (tb2 + tb1) / (hyp tb2 + hyp tb1) := by
  have p1 := hyp_pos tb1; have p2 := hyp_pos tb2
  unfold lccTbm
  rw [lccSecMinusTan_eq, lccSecMinusTan_eq]
  field_simp
  ring

/-- `dbet = (scbet2 + scbet1)/fm − (scphi2 + scphi1)` -/
theorem lccDbet_eq (fm t1 t2 : ℝ) (hfm : 0 < fm) :
    lccDbet (1 - fm ^ 2) fm (hyp t1) (hyp (fm * t1)) (hyp t2) (hyp (fm * t2)) =
      (hyp (fm * t2) + hyp (fm * t1)) / fm - (hyp t2 + hyp t1) := by
  have h1 := hyp_sq t1; have h2 := hyp_sq t2
  have b1 := hyp_sq (fm * t1); have b2 := hyp_sq (fm * t2)
  have p1 := hyp_pos t1; have p2 := hyp_pos t2
  have q1 := hyp_pos (fm * t1); have q2 := hyp_pos (fm * t2)
  unfold lccDbet
  simp only [one_real]
  have e : ∀ t : ℝ, (1 - fm ^ 2) / (hyp (fm * t) + fm * hyp t) = hyp (fm * t) - fm * hyp t := by
    intro t
    have a := hyp_sq t; have b := hyp_sq (fm * t); have c := hyp_pos t; have d := hyp_pos (fm * t)
    have : hyp (fm * t) + fm * hyp t ≠ 0 := by positivity
    rw [div_eq_iff this]
    linear_combination (fm ^ 2) * a - b
  have e1 := e t1; have e2 := e t2
  have hd1 : hyp (fm * t1) + fm * hyp t1 ≠ 0 := by positivity
  have hd2 : hyp (fm * t2) + fm * hyp t2 ≠ 0 := by positivity
  calc (1 - fm ^ 2) / fm * (1 / (hyp (fm * t2) + fm * hyp t2) + 1 / (hyp (fm * t1) + fm * hyp t1))
      = ((1 - fm ^ 2) / (hyp (fm * t2) + fm * hyp t2) + (1 - fm ^ 2) / (hyp (fm * t1) + fm * hyp t1)) / fm := by
        field_simp
    _ = _ := by rw [e1, e2]; field_simp; ring

/-- `1 − sin φ = 1/(sec φ (tan φ + sec φ))` -/
theorem one_sub_sn (t : ℝ) : 1 - t / hyp t = 1 / (hyp t * (t + hyp t)) := by
  have h := hyp_sq t; have p := hyp_pos t; have a := abs_lt_hyp t
  have : 0 < t + hyp t := by have := neg_abs_le t; linarith
  field_simp
  linear_combination h

/-- `dxiZ1 = Deatanhe(1, sphi1)·(1 − sphi1)` -/
theorem lccDxiZ_eq (e2 es t : ℝ) :
    lccDxiZ e2 es (t / hyp t) t (hyp t) = Deatanhe e2 es 1 (t / hyp t) * (1 - t / hyp t) := by
  unfold lccDxiZ
  simp only [one_real]
  rw [one_sub_sn]
  have p := hyp_pos t; have a := abs_lt_hyp t
  have : 0 < t + hyp t := by have := neg_abs_le t; linarith
  field_simp

/-- `Dsinh·(x − y) = sinh x − sinh y` (also for `x = y`) -/
theorem Dsinh_mul (x y : ℝ) :
    Dsinh x y (Real.sinh x) (Real.sinh y) (hyp (Real.sinh x)) (hyp (Real.sinh y)) * (x - y) = Real.sinh x - Real.sinh y := by
  rw [hyp_sinh, hyp_sinh]
  by_cases h : x = y
  · rw [h]; simp
  · rw [Dsinh_dd _ _ h]
    have : x - y ≠ 0 := sub_ne_zero.mpr h
    field_simp

/-- `Dhyp·(x − y) = hyp x − hyp y` (also for `x = y`) -/
theorem Dhyp_mul (x y : ℝ) : Dhyp x y (hyp x) (hyp y) * (x - y) = hyp x - hyp y := by
  by_cases h : x = y
  · rw [h]; simp
  · rw [Dhyp_dd _ _ h]
    have : x - y ≠ 0 := sub_ne_zero.mpr h
    field_simp

/-- `Dsn·(x − y) = sn x − sn y` -/
theorem Dsn_mul (x y : ℝ) : Dsn x y (x / hyp x) (y / hyp y) * (x - y) = x / hyp x - y / hyp y := by
  by_cases h : x = y
  · rw [h]; simp
  · rw [Dsn_dd _ _ h]
    have : x - y ≠ 0 := sub_ne_zero.mpr h
    field_simp

/-- `Dlog1p·(x − y) = log(1 + x) − log(1 + y)` on `(−1, ∞)` (also for `x = y`) -/
theorem Dlog1p_mul (x y : ℝ) (hx : -1 < x) (hy : -1 < y) : Dlog1p x y * (x - y) = Real.log (1 + x) - Real.log (1 + y) := by
  by_cases h : x = y
  · rw [h]; simp
  · rw [Dlog1p_dd _ _ hx hy h]
    have : x - y ≠ 0 := sub_ne_zero.mpr h
    field_simp

/-- **`D(nu2, nu1)`**: with `dshxiZ = shxiZ − shxi`, `dchxiZ = chxiZ − chxi` (cosh and sinh of `xi`), `dxi = (xi2 − xi1)/(tphi2 − tphi1)`,
    either arm of the code is the divided difference of `nu = scphi·dshxiZ − tphi·dchxiZ` -/
theorem lccDnu12_eq (f t1 t2 x1 x2 shZ chZ : ℝ) (h12 : t1 ≠ t2) (dxi : ℝ) (hdxi : dxi * (t2 - t1) = x2 - x1) :
    lccDnu12 f t1 (hyp t1) x1 (Real.sinh x1) (hyp (Real.sinh x1)) (shZ - Real.sinh x1) (chZ - hyp (Real.sinh x1))
        t2 (hyp t2) x2 (Real.sinh x2) (hyp (Real.sinh x2)) (shZ - Real.sinh x2) (chZ - hyp (Real.sinh x2)) dxi =
      ((hyp t2 * (shZ - Real.sinh x2) - t2 * (chZ - hyp (Real.sinh x2))) -
        (hyp t1 * (shZ - Real.sinh x1) - t1 * (chZ - hyp (Real.sinh x1)))) / (t2 - t1) := by
  have hΔ : t2 - t1 ≠ 0 := sub_ne_zero.mpr (Ne.symm h12)
  have hs := Dsinh_mul x1 x2
  have hh := Dhyp_mul (Real.sinh x1) (Real.sinh x2)
  have ht := Dhyp_mul t1 t2
  set S := Dsinh x1 x2 (Real.sinh x1) (Real.sinh x2) (hyp (Real.sinh x1)) (hyp (Real.sinh x2)) with hS
  set H := Dhyp (Real.sinh x1) (Real.sinh x2) (hyp (Real.sinh x1)) (hyp (Real.sinh x2)) with hH
  set T := Dhyp t1 t2 (hyp t1) (hyp t2) with hT
  -- sinh and cosh differences through the chain of divided differences
  have e1 : S * dxi * (t2 - t1) = Real.sinh x2 - Real.sinh x1 := by
    have : S * dxi * (t2 - t1) = -(S * (x1 - x2)) := by rw [mul_assoc, hdxi]; ring
    rw [this, hs]; ring
  have e2 : H * S * dxi * (t2 - t1) = hyp (Real.sinh x2) - hyp (Real.sinh x1) := by
    have : H * S * dxi * (t2 - t1) = -(H * (-(S * dxi * (t2 - t1)))) := by ring
    rw [this, e1]
    have : -(H * -(Real.sinh x2 - Real.sinh x1)) = -(H * (Real.sinh x1 - Real.sinh x2)) := by ring
    rw [this, hh]; ring
  have e3 : T * (t2 - t1) = hyp t2 - hyp t1 := by
    have : T * (t2 - t1) = -(T * (t1 - t2)) := by ring
    rw [this, ht]; ring
  unfold lccDnu12
  simp only [ltb_real, two_real]
  rw [eq_div_iff hΔ]
  split
  · -- divided differences
    have : ((shZ - Real.sinh x1 + (shZ - Real.sinh x2)) / 2 * T -
          (hyp t1 + hyp t2) / 2 * S * dxi +
        (t1 + t2) / 2 * H * S * dxi - (chZ - hyp (Real.sinh x1) + (chZ - hyp (Real.sinh x2))) / 2) * (t2 - t1) =
        (shZ - Real.sinh x1 + (shZ - Real.sinh x2)) / 2 * (T * (t2 - t1)) -
          (hyp t1 + hyp t2) / 2 * (S * dxi * (t2 - t1)) +
        (t1 + t2) / 2 * (H * S * dxi * (t2 - t1)) - (chZ - hyp (Real.sinh x1) + (chZ - hyp (Real.sinh x2))) / 2 * (t2 - t1) := by ring
    rw [this, e1, e2, e3]
    ring
  · -- ratio of differences
    have : ((hyp t2 * (shZ - Real.sinh x2) - hyp t1 * (shZ - Real.sinh x1)) / (t2 - t1) +
        (t1 + t2) / 2 * H * S * dxi - (chZ - hyp (Real.sinh x1) + (chZ - hyp (Real.sinh x2))) / 2) * (t2 - t1) =
        (hyp t2 * (shZ - Real.sinh x2) - hyp t1 * (shZ - Real.sinh x1)) +
        (t1 + t2) / 2 * (H * S * dxi * (t2 - t1)) - (chZ - hyp (Real.sinh x1) + (chZ - hyp (Real.sinh x2))) / 2 * (t2 - t1) := by
      field_simp
    rw [this, e2]
    ring

/-- the algebraic core of the careful `1 − n`: with `T = ch t − sh sc`, `S = ch sc − sh t`, `E = T + S` -/
theorem lcc_core_algebra (fm t1 t2 sc1 sc2 sh1 sh2 ch1 ch2 sb1 sb2 shZ chZ : ℝ)
    (hfm : 0 < fm) (hΔ : t2 - t1 ≠ 0)
    (hsc1 : sc1 ^ 2 = 1 + t1 ^ 2) (hsc2 : sc2 ^ 2 = 1 + t2 ^ 2)
    (hch1 : ch1 ^ 2 = 1 + sh1 ^ 2) (hch2 : ch2 ^ 2 = 1 + sh2 ^ 2)
    (hsb1 : sb1 ^ 2 = 1 + (fm * t1) ^ 2) (hsb2 : sb2 ^ 2 = 1 + (fm * t2) ^ 2)
    (psb1 : 0 < sb1) (psb2 : 0 < sb2)
    (pS1 : 0 < ch1 * sc1 - sh1 * t1) (pS2 : 0 < ch2 * sc2 - sh2 * t2)
    (pE1 : 0 < (ch1 * t1 - sh1 * sc1) + (ch1 * sc1 - sh1 * t1)) (pE2 : 0 < (ch2 * t2 - sh2 * sc2) + (ch2 * sc2 - sh2 * t2)) :
    let T1 := ch1 * t1 - sh1 * sc1
    let T2 := ch2 * t2 - sh2 * sc2
    let S1 := ch1 * sc1 - sh1 * t1
    let S2 := ch2 * sc2 - sh2 * t2
    let E1 := T1 + S1
    let E2 := T2 + S2
    let dtchi := (T2 - T1) / (t2 - t1)
    let dbet := (sb2 + sb1) / fm - (sc2 + sc1)
    let amu12 := -(sc1 * (chZ - ch1)) + t1 * (shZ - sh1) - sc2 * (chZ - ch2) + t2 * (shZ - sh2)
    let dnu12 := ((sc2 * (shZ - sh2) - t2 * (chZ - ch2)) - (sc1 * (shZ - sh1) - t1 * (chZ - ch1))) / (t2 - t1)
    let dchia := amu12 - dnu12 * (sc2 + sc1)
    let tam := (dchia - dtchi * dbet) / (S1 + S2)
    let tbm := 1 - (fm * t2 + fm * t1) / (sb2 + sb1)
    ((E2 + E1) / (4 * sb1 * sb2) * fm) * (tbm - tam) = (E2 / (2 * sb2) - E1 / (2 * sb1)) / (t2 - t1) := by
  intro T1 T2 S1 S2 E1 E2 dtchi dbet amu12 dnu12 dchia tam tbm
  have hS : S1 + S2 ≠ 0 := by positivity
  have hE : E1 + E2 ≠ 0 := by positivity
  have hsb : sb2 + sb1 ≠ 0 := by positivity
  -- S² − T² = 1
  have hST1 : S1 ^ 2 - T1 ^ 2 = 1 := by
    simp only [S1, T1]; linear_combination (sc1 ^ 2 - t1 ^ 2) * hch1 + hsc1
  have hST2 : S2 ^ 2 - T2 ^ 2 = 1 := by
    simp only [S2, T2]; linear_combination (sc2 ^ 2 - t2 ^ 2) * hch2 + hsc2
  -- step A
  have hA : dchia = (S1 + S2) - dtchi * (sc2 + sc1) := by
    simp only [dchia, amu12, dnu12, dtchi, S1, S2, T1, T2]
    field_simp
    linear_combination shZ * hsc1 - shZ * hsc2
  have hfm0 : fm ≠ 0 := hfm.ne'
  have hB : tam = 1 - dtchi * (sb2 + sb1) / (fm * (S1 + S2)) := by
    simp only [tam]
    rw [hA]
    simp only [dbet]
    field_simp
    ring
  have hkey : (T2 - T1) * (E1 + E2) = (E2 - E1) * (S1 + S2) := by
    simp only [E1, E2]
    linear_combination hST1 - hST2
  have h1 : dtchi * (sb2 + sb1) / (fm * (S1 + S2)) = (E2 - E1) * (sb1 + sb2) / (fm * (t2 - t1) * (E1 + E2)) := by
    have hd : dtchi * (t2 - t1) = T2 - T1 := by simp only [dtchi]; field_simp
    have hne : fm * (t2 - t1) * (E1 + E2) ≠ 0 := mul_ne_zero (mul_ne_zero hfm0 hΔ) hE
    rw [div_eq_div_iff (by positivity) hne]
    linear_combination (fm * (sb1 + sb2) * (E1 + E2)) * hd + (fm * (sb1 + sb2)) * hkey
  have h2 : (fm * t2 + fm * t1) / (sb2 + sb1) = (sb2 - sb1) / (fm * (t2 - t1)) := by
    rw [div_eq_div_iff hsb (mul_ne_zero hfm0 hΔ)]
    linear_combination hsb1 - hsb2
  have hC : tbm - tam = ((E2 - E1) * (sb1 + sb2) / (E1 + E2) - (sb2 - sb1)) / (fm * (t2 - t1)) := by
    simp only [tbm]
    rw [hB, h1, h2]
    field_simp
    ring
  rw [hC]
  field_simp
  ring

/-- the conformal tangent `tan χ = cosh ξ · tan φ − sinh ξ · sec φ` from `tan φ` and `ξ = eatanhe(sin φ)` -/
noncomputable def tchiR (t x : ℝ) : ℝ := hyp (Real.sinh x) * t - Real.sinh x * hyp t

theorem arsinh_tchiR (t x : ℝ) : Real.arsinh (tchiR t x) = Real.arsinh t - x := by
  have h : Real.sinh (Real.arsinh t - x) = tchiR t x := by
    rw [Real.sinh_sub, Real.sinh_arsinh, Real.cosh_arsinh, ← hyp_real, ← hyp_sinh]
    unfold tchiR; ring
  rw [← h, Real.arsinh_sinh]

theorem e2_eq (E : Ell ℝ) : E.e2 = 1 - E.fm ^ 2 := by
  simp only [Ell.e2, Ell.fm, one_real, two_real]; ring

/-- **The careful `1 − n` of `LambertConformalConic::Init` is `1 − n`.**  `t1, t2` are the tangents of the (ordered, distinct)
    parallels, `x1, x2` their `ξ = eatanhe(sin φ)`; `den` and `n` are characterised by `den·Δ = ψ2 − ψ1`, `n·den·Δ = ln sec β2 − ln sec β1`
    (`ψ = arsinh tan χ` the isometric latitude), and `Deatanhe` is assumed to be the divided difference of `eatanhe` on the three pairs
    the code uses (true for oblate, spherical and — with the stated restriction — prolate ellipsoids). -/
theorem lccOneMinusN_eq (E : Ell ℝ) (t1 t2 x1 x2 den n : ℝ) (hfm : 0 < E.fm) (h12 : t1 ≠ t2)
    (hDe1 : Deatanhe E.e2 E.es 1 (t1 / hyp t1) * (1 - t1 / hyp t1) = eatanhe 1 E.es - x1)
    (hDe2 : Deatanhe E.e2 E.es 1 (t2 / hyp t2) * (1 - t2 / hyp t2) = eatanhe 1 E.es - x2)
    (hDe12 : Deatanhe E.e2 E.es (t1 / hyp t1) (t2 / hyp t2) * (t1 / hyp t1 - t2 / hyp t2) = x1 - x2)
    (hden : den * (t2 - t1) = Real.arsinh (tchiR t2 x2) - Real.arsinh (tchiR t1 x1)) (hden0 : den ≠ 0)
    (hn : n * den * (t2 - t1) = Real.log (hyp (E.fm * t2)) - Real.log (hyp (E.fm * t1))) :
    lccOneMinusN E den
        (t1 / hyp t1) t1 (hyp t1) (Real.sinh x1) (hyp (Real.sinh x1)) x1 (tchiR t1 x1) (hyp (tchiR t1 x1)) (E.fm * t1) (hyp (E.fm * t1))
        (t2 / hyp t2) t2 (hyp t2) (Real.sinh x2) (hyp (Real.sinh x2)) x2 (tchiR t2 x2) (hyp (tchiR t2 x2)) (E.fm * t2) (hyp (E.fm * t2))
      = 1 - n := by
  have hΔ : t2 - t1 ≠ 0 := sub_ne_zero.mpr (Ne.symm h12)
  have he2 := e2_eq E
  -- abbreviations
  set fm := E.fm with hfmdef
  set sc1 := hyp t1 with hsc1d
  set sc2 := hyp t2 with hsc2d
  set sh1 := Real.sinh x1 with hsh1d
  set sh2 := Real.sinh x2 with hsh2d
  set ch1 := hyp sh1 with hch1d
  set ch2 := hyp sh2 with hch2d
  set sb1 := hyp (fm * t1) with hsb1d
  set sb2 := hyp (fm * t2) with hsb2d
  have hsc1 : sc1 ^ 2 = 1 + t1 ^ 2 := hyp_sq t1
  have hsc2 : sc2 ^ 2 = 1 + t2 ^ 2 := hyp_sq t2
  have hch1 : ch1 ^ 2 = 1 + sh1 ^ 2 := hyp_sq sh1
  have hch2 : ch2 ^ 2 = 1 + sh2 ^ 2 := hyp_sq sh2
  have hsb1 : sb1 ^ 2 = 1 + (fm * t1) ^ 2 := hyp_sq (fm * t1)
  have hsb2 : sb2 ^ 2 = 1 + (fm * t2) ^ 2 := hyp_sq (fm * t2)
  have psb1 : 0 < sb1 := hyp_pos _
  have psb2 : 0 < sb2 := hyp_pos _
  have hT1 : tchiR t1 x1 = ch1 * t1 - sh1 * sc1 := rfl
  have hT2 : tchiR t2 x2 = ch2 * t2 - sh2 * sc2 := rfl
  have hS1 : hyp (tchiR t1 x1) = ch1 * sc1 - sh1 * t1 := hyp_tchi t1 sh1
  have hS2 : hyp (tchiR t2 x2) = ch2 * sc2 - sh2 * t2 := hyp_tchi t2 sh2
  set T1 := tchiR t1 x1 with hT1d
  set T2 := tchiR t2 x2 with hT2d
  set S1 := hyp T1 with hS1d
  set S2 := hyp T2 with hS2d
  have pS1 : 0 < S1 := hyp_pos _
  have pS2 : 0 < S2 := hyp_pos _
  have hST1 : S1 ^ 2 = 1 + T1 ^ 2 := hyp_sq T1
  have hST2 : S2 ^ 2 = 1 + T2 ^ 2 := hyp_sq T2
  have pE1 : 0 < T1 + S1 := by have := abs_lt_hyp T1; have := neg_abs_le T1; linarith
  have pE2 : 0 < T2 + S2 := by have := abs_lt_hyp T2; have := neg_abs_le T2; linarith
  -- the pieces
  have hs1 : lccS E.e2 t1 sc1 sh1 ch1 = (fm * t1) ^ 2 - T1 ^ 2 := by rw [he2]; exact lccS_eq fm t1 sh1
  have hs2 : lccS E.e2 t2 sc2 sh2 ch2 = (fm * t2) ^ 2 - T2 ^ 2 := by rw [he2]; exact lccS_eq fm t2 sh2
  have ht1 : lccT ((fm * t1) ^ 2 - T1 ^ 2) T1 sb1 = sb1 - T1 := lccT_eq _ _ _ (by linear_combination -hsb1) psb1
  have ht2 : lccT ((fm * t2) ^ 2 - T2 ^ 2) T2 sb2 = sb2 - T2 := lccT_eq _ _ _ (by linear_combination -hsb2) psb2
  have ha1 : 1 + lccA ((fm * t1) ^ 2 - T1 ^ 2) (sb1 - T1) S1 sb1 = (T1 + S1) / (2 * sb1) :=
    lccA_eq _ _ T1 S1 sb1 (by linear_combination hST1 - hsb1) rfl psb1 pS1
  have ha2 : 1 + lccA ((fm * t2) ^ 2 - T2 ^ 2) (sb2 - T2) S2 sb2 = (T2 + S2) / (2 * sb2) :=
    lccA_eq _ _ T2 S2 sb2 (by linear_combination hST2 - hsb2) rfl psb2 pS2
  set a1 := lccA ((fm * t1) ^ 2 - T1 ^ 2) (sb1 - T1) S1 sb1 with ha1d
  set a2 := lccA ((fm * t2) ^ 2 - T2 ^ 2) (sb2 - T2) S2 sb2 with ha2d
  have pa1 : -1 < a1 := by
    have : 0 < (T1 + S1) / (2 * sb1) := by positivity
    linarith
  have pa2 : -1 < a2 := by
    have : 0 < (T2 + S2) / (2 * sb2) := by positivity
    linarith
  have hep1 : epPsi T1 S1 = T1 + S1 := by rw [hS1d, epPsi_real, exp_arsinh_hyp]
  have hep2 : epPsi T2 S2 = T2 + S2 := by rw [hS2d, epPsi_real, exp_arsinh_hyp]
  -- logarithms
  have hlog1 : Real.log (1 + a1) = Real.arsinh T1 - Real.log 2 - Real.log sb1 := by
    rw [ha1, ← exp_arsinh_hyp, Real.log_div (Real.exp_pos _).ne' (by positivity), Real.log_exp,
      Real.log_mul (by norm_num) psb1.ne']
    ring
  have hlog2 : Real.log (1 + a2) = Real.arsinh T2 - Real.log 2 - Real.log sb2 := by
    rw [ha2, ← exp_arsinh_hyp, Real.log_div (Real.exp_pos _).ne' (by positivity), Real.log_exp,
      Real.log_mul (by norm_num) psb2.ne']
    ring
  have hW : Dlog1p a2 a1 * (a2 - a1) = (1 - n) * (den * (t2 - t1)) := by
    rw [Dlog1p_mul a2 a1 pa2 pa1, hlog1, hlog2]
    linear_combination hn - hden
  have hda : a2 - a1 = (T2 + S2) / (2 * sb2) - (T1 + S1) / (2 * sb1) := by linear_combination ha2 - ha1
  -- dtchi
  have hdpsi := lcc_dpsi T2 T1
  have hTne : T2 - T1 ≠ 0 := by
    intro h
    have hT : T2 = T1 := by linarith
    rw [hT, sub_self] at hden
    exact (mul_ne_zero hden0 hΔ) hden
  have hDa : Dasinh T2 T1 S2 S1 * (T2 - T1) = den * (t2 - t1) := by rw [hden]; exact hdpsi
  have hDane : Dasinh T2 T1 S2 S1 ≠ 0 := by
    intro h; rw [h, zero_mul] at hDa; exact (mul_ne_zero hden0 hΔ) hDa.symm
  have hdtchi : den / Dasinh T2 T1 S2 S1 = (T2 - T1) / (t2 - t1) := by
    rw [div_eq_div_iff hDane hΔ]; linear_combination -hDa
  -- the differences of the hyperbolic functions of xi
  set xiZ := eatanhe 1 E.es with hxiZd
  have hdx1 : lccDxiZ E.e2 E.es (t1 / sc1) t1 sc1 = xiZ - x1 := by rw [lccDxiZ_eq]; exact hDe1
  have hdx2 : lccDxiZ E.e2 E.es (t2 / sc2) t2 sc2 = xiZ - x2 := by rw [lccDxiZ_eq]; exact hDe2
  have hdsh1 : Dsinh xiZ x1 (Real.sinh xiZ) sh1 (hyp (Real.sinh xiZ)) ch1 * (xiZ - x1) = Real.sinh xiZ - sh1 := Dsinh_mul xiZ x1
  have hdsh2 : Dsinh xiZ x2 (Real.sinh xiZ) sh2 (hyp (Real.sinh xiZ)) ch2 * (xiZ - x2) = Real.sinh xiZ - sh2 := Dsinh_mul xiZ x2
  set shZ := Real.sinh xiZ with hshZd
  set chZ := hyp shZ with hchZd
  have hdch1 : Dhyp shZ sh1 chZ ch1 * (shZ - sh1) = chZ - ch1 := Dhyp_mul shZ sh1
  have hdch2 : Dhyp shZ sh2 chZ ch2 * (shZ - sh2) = chZ - ch2 := Dhyp_mul shZ sh2
  have hdxi : Deatanhe E.e2 E.es (t1 / sc1) (t2 / sc2) * Dsn t2 t1 (t2 / sc2) (t1 / sc1) * (t2 - t1) = x2 - x1 := by
    rw [mul_assoc, Dsn_mul t2 t1]
    linear_combination -hDe12
  have hnu := lccDnu12_eq E.f t1 t2 x1 x2 shZ chZ h12 _ hdxi
  -- assemble
  unfold lccOneMinusN
  simp only [sinh_real, four_real, one_real, two_real, ← hfmdef]
  simp only [← hxiZd, ← hshZd, ← hchZd]
  rw [hs1, hs2, ht1, ht2, hep1, hep2, hdtchi, hdx1, hdx2, hdsh1, hdsh2, hdch1, hdch2, hnu, lccTbm_eq, he2, lccDbet_eq fm t1 t2 hfm]
  have hcore := lcc_core_algebra fm t1 t2 sc1 sc2 sh1 sh2 ch1 ch2 sb1 sb2 shZ chZ hfm hΔ hsc1 hsc2 hch1 hch2 hsb1 hsb2 psb1 psb2
    (by rw [← hS1]; exact pS1) (by rw [← hS2]; exact pS2) (by rw [← hT1, ← hS1]; exact pE1) (by rw [← hT2, ← hS2]; exact pE2)
  simp only [← hT1, ← hT2, ← hS1, ← hS2] at hcore
  have hdenΔ : den * (t2 - t1) ≠ 0 := mul_ne_zero hden0 hΔ
  calc Dlog1p a2 a1 / den * ((T2 + S2 + (T1 + S1)) / (4 * sb1 * sb2) * fm) *
        (1 - (fm * t2 + fm * t1) / (sb2 + sb1) -
          (-(sc1 * (chZ - ch1)) + t1 * (shZ - sh1) - sc2 * (chZ - ch2) + t2 * (shZ - sh2) -
                (sc2 * (shZ - sh2) - t2 * (chZ - ch2) - (sc1 * (shZ - sh1) - t1 * (chZ - ch1))) / (t2 - t1) * (sc2 + sc1) -
              (T2 - T1) / (t2 - t1) * ((sb2 + sb1) / fm - (sc2 + sc1))) /
            (S1 + S2))
      = Dlog1p a2 a1 / den * (((T2 + S2 + (T1 + S1)) / (4 * sb1 * sb2) * fm) *
        (1 - (fm * t2 + fm * t1) / (sb2 + sb1) -
          (-(sc1 * (chZ - ch1)) + t1 * (shZ - sh1) - sc2 * (chZ - ch2) + t2 * (shZ - sh2) -
                (sc2 * (shZ - sh2) - t2 * (chZ - ch2) - (sc1 * (shZ - sh1) - t1 * (chZ - ch1))) / (t2 - t1) * (sc2 + sc1) -
              (T2 - T1) / (t2 - t1) * ((sb2 + sb1) / fm - (sc2 + sc1))) /
            (S1 + S2))) := by ring
    _ = Dlog1p a2 a1 / den * (((T2 + S2) / (2 * sb2) - (T1 + S1) / (2 * sb1)) / (t2 - t1)) := by rw [hcore]
    _ = Dlog1p a2 a1 * (a2 - a1) / (den * (t2 - t1)) := by rw [hda]; field_simp
    _ = 1 - n := by rw [hW]; field_simp

end GeoVerif.Proofs.ConicInit
