import GeoVerif.Model.Conic
import GeoVerif.Model.ConicKernels
import GeoVerif.Spec.RealInst
import GeoVerif.Proofs.Conic
import GeoVerif.Proofs.ConicDD
import Mathlib.Tactic.Ring
import Mathlib.Tactic.LinearCombination
import Mathlib.Tactic.FieldSimp
import Mathlib.Tactic.Positivity
import Mathlib.Tactic.NormNum
import Mathlib.Tactic.Linarith
import Mathlib.Data.Real.Basic
/-!
# `Init` of the two conic classes over ℝ: the careful `1 − n` of `LambertConformalConic`, and `s`, `1 − s`, `C`, the Newton
function of `AlbersEqualArea` (lemmas; the property theorems are in `Props/C11.lean`)
-/
namespace GeoVerif.Proofs.ConicInit
open GeoVerif GeoVerif.Conic GeoVerif.Proofs.Conic GeoVerif.Proofs.ConicDD

/-! ## pieces of `lccOneMinusN` -/

/-- `hyp x ≥ 1` -/
theorem one_le_hyp (x : ℝ) : 1 ≤ hyp x := by
  have h := hyp_sq x; have p := hyp_pos x
  nlinarith [sq_nonneg x]

/-- the conformal secant: for `tchi = ch·t − sh·sc` (`ch = hyp sh`, `sc = hyp t`), `hyp tchi = ch·sc − sh·t` -/
theorem hyp_tchi (t sh : ℝ) : hyp (hyp sh * t - sh * hyp t) = hyp sh * hyp t - sh * t := by
  have h1 := hyp_sq t; have h2 := hyp_sq sh
  have p1 := hyp_pos t; have p2 := hyp_pos sh
  have a1 := abs_lt_hyp t; have a2 := abs_lt_hyp sh
  have hpos : 0 < hyp sh * hyp t - sh * t := by
    have : |sh * t| < hyp sh * hyp t := by
      rw [abs_mul]
      exact mul_lt_mul'' a2 a1 (abs_nonneg _) (abs_nonneg _)
    have := (abs_lt.mp this).2
    linarith
  rw [hyp_real]
  have e : 1 + (hyp sh * t - sh * hyp t) ^ 2 = (hyp sh * hyp t - sh * t) ^ 2 := by
    linear_combination (-(hyp t ^ 2 - t ^ 2)) * h2 - h1
  rw [e]
  exact Real.sqrt_sq hpos.le

/-- `s1 = scbet1² − scchi1²` (written without the two ones: `tbet1² − tchi1²`) -/
theorem lccS_eq (fm t sh : ℝ) :
    lccS (1 - fm ^ 2) t (hyp t) sh (hyp sh) = (fm * t) ^ 2 - (hyp sh * t - sh * hyp t) ^ 2 := by
  have h1 := hyp_sq t; have h2 := hyp_sq sh
  unfold lccS
  simp only [sq_real, one_real, two_real]
  linear_combination (t ^ 2) * h2 + (sh ^ 2) * h1

/-- `t1 = scbet1 − tchi1`, both forms -/
theorem lccT_eq (s tchi scbet : ℝ) (hs : s + 1 = scbet ^ 2 - tchi ^ 2) (hb : 0 < scbet) :
    lccT s tchi scbet = scbet - tchi := by
  unfold lccT
  simp only [ltb_real, zero_real, one_real]
  by_cases h : tchi < 0
  · simp only [h, decide_true, if_true]
  · simp only [h, decide_false, Bool.false_eq_true, if_false]
    have : 0 < scbet + tchi := by linarith [not_lt.mp h]
    rw [hs, div_eq_iff this.ne']
    ring

/-- `1 + a1 = (tchi1 + scchi1)/(2 scbet1)` -/
theorem lccA_eq (s t tchi scchi scbet : ℝ) (hs : s = scbet ^ 2 - scchi ^ 2) (ht : t = scbet - tchi) (hb : 0 < scbet) (hc : 0 < scchi) :
    1 + lccA s t scchi scbet = (tchi + scchi) / (2 * scbet) := by
  unfold lccA
  simp only [two_real]
  have h1 : scbet + scchi ≠ 0 := by positivity
  rw [hs, ht]
  field_simp
  ring

theorem lccSecMinusTan_eq (tb : ℝ) : lccSecMinusTan tb (hyp tb) = hyp tb - tb := by
  have h := hyp_sq tb; have p := hyp_pos tb; have a := abs_lt_hyp tb
  unfold lccSecMinusTan
  simp only [ltb_real, zero_real, one_real]
  by_cases h0 : 0 < tb
  · simp only [h0, decide_true, if_true]
    have : hyp tb + tb ≠ 0 := by positivity
    rw [div_eq_iff this]
    linear_combination -h
  · simp only [h0, decide_false, Bool.false_eq_true, if_false]

/-- `tbm = 1 − (tbet2 + tbet1)/(scbet2 + scbet1)` -/
theorem lccTbm_eq (tb1 tb2 : ℝ) : lccTbm tb1 (hyp tb1) tb2 (hyp tb2) = 1 - (tb2 + tb1) / (hyp tb2 + hyp tb1) := by
  have p1 := hyp_pos tb1; have p2 := hyp_pos tb2
  unfold lccTbm
  rw [lccSecMinusTan_eq, lccSecMinusTan_eq]
  field_simp
  ring

/-- `dbet = (scbet2 + scbet1)/fm − (scphi2 + scphi1)` -/
theorem lccDbet_eq (fm t1 t2 : ℝ) (hfm : 0 < fm) :
    lccDbet (1 - fm ^ 2) fm (hyp t1) (hyp (fm * t1)) (hyp t2) (hyp (fm * t2)) =
      (hyp (fm * t2) + hyp (fm * t1)) / fm - (hyp t2 + hyp t1) := by
  have h1 := hyp_sq t1; have h2 := hyp_sq t2
  have b1 := hyp_sq (fm * t1); have b2 := hyp_sq (fm * t2)
  have p1 := hyp_pos t1; have p2 := hyp_pos t2
  have q1 := hyp_pos (fm * t1); have q2 := hyp_pos (fm * t2)
  unfold lccDbet
  simp only [one_real]
  have e : ∀ t : ℝ, (1 - fm ^ 2) / (hyp (fm * t) + fm * hyp t) = hyp (fm * t) - fm * hyp t := by
    intro t
    have a := hyp_sq t; have b := hyp_sq (fm * t); have c := hyp_pos t; have d := hyp_pos (fm * t)
    have : hyp (fm * t) + fm * hyp t ≠ 0 := by positivity
    rw [div_eq_iff this]
    linear_combination (fm ^ 2) * a - b
  have e1 := e t1; have e2 := e t2
  have hd1 : hyp (fm * t1) + fm * hyp t1 ≠ 0 := by positivity
  have hd2 : hyp (fm * t2) + fm * hyp t2 ≠ 0 := by positivity
  calc (1 - fm ^ 2) / fm * (1 / (hyp (fm * t2) + fm * hyp t2) + 1 / (hyp (fm * t1) + fm * hyp t1))
      = ((1 - fm ^ 2) / (hyp (fm * t2) + fm * hyp t2) + (1 - fm ^ 2) / (hyp (fm * t1) + fm * hyp t1)) / fm := by
        field_simp
    _ = _ := by rw [e1, e2]; field_simp; ring

/-- `1 − sin φ = 1/(sec φ (tan φ + sec φ))` -/
theorem one_sub_sn (t : ℝ) : 1 - t / hyp t = 1 / (hyp t * (t + hyp t)) := by
  have h := hyp_sq t; have p := hyp_pos t; have a := abs_lt_hyp t
  have : 0 < t + hyp t := by have := neg_abs_le t; linarith
  field_simp
  linear_combination h

/-- `dxiZ1 = Deatanhe(1, sphi1)·(1 − sphi1)` -/
theorem lccDxiZ_eq (e2 es t : ℝ) :
    lccDxiZ e2 es (t / hyp t) t (hyp t) = Deatanhe e2 es 1 (t / hyp t) * (1 - t / hyp t) := by
  unfold lccDxiZ
  simp only [one_real]
  rw [one_sub_sn]
  have p := hyp_pos t; have a := abs_lt_hyp t
  have : 0 < t + hyp t := by have := neg_abs_le t; linarith
  field_simp

/-- `Dsinh·(x − y) = sinh x − sinh y` (also for `x = y`) -/
theorem Dsinh_mul (x y : ℝ) :
    Dsinh x y (Real.sinh x) (Real.sinh y) (hyp (Real.sinh x)) (hyp (Real.sinh y)) * (x - y) = Real.sinh x - Real.sinh y := by
  rw [hyp_sinh, hyp_sinh]
  by_cases h : x = y
  · rw [h]; simp
  · rw [Dsinh_dd _ _ h]
    have : x - y ≠ 0 := sub_ne_zero.mpr h
    field_simp

/-- `Dhyp·(x − y) = hyp x − hyp y` (also for `x = y`) -/
theorem Dhyp_mul (x y : ℝ) : Dhyp x y (hyp x) (hyp y) * (x - y) = hyp x - hyp y := by
  by_cases h : x = y
  · rw [h]; simp
  · rw [Dhyp_dd _ _ h]
    have : x - y ≠ 0 := sub_ne_zero.mpr h
    field_simp

/-- `Dsn·(x − y) = sn x − sn y` -/
theorem Dsn_mul (x y : ℝ) : Dsn x y (x / hyp x) (y / hyp y) * (x - y) = x / hyp x - y / hyp y := by
  by_cases h : x = y
  · rw [h]; simp
  · rw [Dsn_dd _ _ h]
    have : x - y ≠ 0 := sub_ne_zero.mpr h
    field_simp

/-- `Dlog1p·(x − y) = log(1 + x) − log(1 + y)` on `(−1, ∞)` (also for `x = y`) -/
theorem Dlog1p_mul (x y : ℝ) (hx : -1 < x) (hy : -1 < y) : Dlog1p x y * (x - y) = Real.log (1 + x) - Real.log (1 + y) := by
  by_cases h : x = y
  · rw [h]; simp
  · rw [Dlog1p_dd _ _ hx hy h]
    have : x - y ≠ 0 := sub_ne_zero.mpr h
    field_simp

/-- **`D(nu2, nu1)`**: with `dshxiZ = shxiZ − shxi`, `dchxiZ = chxiZ − chxi` (cosh and sinh of `xi`), `dxi = (xi2 − xi1)/(tphi2 − tphi1)`,
    either arm of the code is the divided difference of `nu = scphi·dshxiZ − tphi·dchxiZ` -/
theorem lccDnu12_eq (f t1 t2 x1 x2 shZ chZ : ℝ) (h12 : t1 ≠ t2) (dxi : ℝ) (hdxi : dxi * (t2 - t1) = x2 - x1) :
    lccDnu12 f t1 (hyp t1) x1 (Real.sinh x1) (hyp (Real.sinh x1)) (shZ - Real.sinh x1) (chZ - hyp (Real.sinh x1))
        t2 (hyp t2) x2 (Real.sinh x2) (hyp (Real.sinh x2)) (shZ - Real.sinh x2) (chZ - hyp (Real.sinh x2)) dxi =
      ((hyp t2 * (shZ - Real.sinh x2) - t2 * (chZ - hyp (Real.sinh x2))) -
        (hyp t1 * (shZ - Real.sinh x1) - t1 * (chZ - hyp (Real.sinh x1)))) / (t2 - t1) := by
  have hΔ : t2 - t1 ≠ 0 := sub_ne_zero.mpr (Ne.symm h12)
  have hs := Dsinh_mul x1 x2
  have hh := Dhyp_mul (Real.sinh x1) (Real.sinh x2)
  have ht := Dhyp_mul t1 t2
  set S := Dsinh x1 x2 (Real.sinh x1) (Real.sinh x2) (hyp (Real.sinh x1)) (hyp (Real.sinh x2)) with hS
  set H := Dhyp (Real.sinh x1) (Real.sinh x2) (hyp (Real.sinh x1)) (hyp (Real.sinh x2)) with hH
  set T := Dhyp t1 t2 (hyp t1) (hyp t2) with hT
  -- sinh and cosh differences through the chain of divided differences
  have e1 : S * dxi * (t2 - t1) = Real.sinh x2 - Real.sinh x1 := by
    have : S * dxi * (t2 - t1) = -(S * (x1 - x2)) := by rw [mul_assoc, hdxi]; ring
    rw [this, hs]; ring
  have e2 : H * S * dxi * (t2 - t1) = hyp (Real.sinh x2) - hyp (Real.sinh x1) := by
    have : H * S * dxi * (t2 - t1) = -(H * (-(S * dxi * (t2 - t1)))) := by ring
    rw [this, e1]
    have : -(H * -(Real.sinh x2 - Real.sinh x1)) = -(H * (Real.sinh x1 - Real.sinh x2)) := by ring
    rw [this, hh]; ring
  have e3 : T * (t2 - t1) = hyp t2 - hyp t1 := by
    have : T * (t2 - t1) = -(T * (t1 - t2)) := by ring
    rw [this, ht]; ring
  unfold lccDnu12
  simp only [ltb_real, two_real]
  rw [eq_div_iff hΔ]
  split
  · -- divided differences
    have : ((shZ - Real.sinh x1 + (shZ - Real.sinh x2)) / 2 * T -
          (hyp t1 + hyp t2) / 2 * S * dxi +
        (t1 + t2) / 2 * H * S * dxi - (chZ - hyp (Real.sinh x1) + (chZ - hyp (Real.sinh x2))) / 2) * (t2 - t1) =
        (shZ - Real.sinh x1 + (shZ - Real.sinh x2)) / 2 * (T * (t2 - t1)) -
          (hyp t1 + hyp t2) / 2 * (S * dxi * (t2 - t1)) +
        (t1 + t2) / 2 * (H * S * dxi * (t2 - t1)) - (chZ - hyp (Real.sinh x1) + (chZ - hyp (Real.sinh x2))) / 2 * (t2 - t1) := by ring
    rw [this, e1, e2, e3]
    ring
  · -- ratio of differences
    have : ((hyp t2 * (shZ - Real.sinh x2) - hyp t1 * (shZ - Real.sinh x1)) / (t2 - t1) +
        (t1 + t2) / 2 * H * S * dxi - (chZ - hyp (Real.sinh x1) + (chZ - hyp (Real.sinh x2))) / 2) * (t2 - t1) =
        (hyp t2 * (shZ - Real.sinh x2) - hyp t1 * (shZ - Real.sinh x1)) +
        (t1 + t2) / 2 * (H * S * dxi * (t2 - t1)) - (chZ - hyp (Real.sinh x1) + (chZ - hyp (Real.sinh x2))) / 2 * (t2 - t1) := by
      field_simp
    rw [this, e2]
    ring

/-- the algebraic core of the careful `1 − n`: with `T = ch t − sh sc`, `S = ch sc − sh t`, `E = T + S` -/
theorem lcc_core_algebra (fm t1 t2 sc1 sc2 sh1 sh2 ch1 ch2 sb1 sb2 shZ chZ : ℝ)
    (hfm : 0 < fm) (hΔ : t2 - t1 ≠ 0)
    (hsc1 : sc1 ^ 2 = 1 + t1 ^ 2) (hsc2 : sc2 ^ 2 = 1 + t2 ^ 2)
    (hch1 : ch1 ^ 2 = 1 + sh1 ^ 2) (hch2 : ch2 ^ 2 = 1 + sh2 ^ 2)
    (hsb1 : sb1 ^ 2 = 1 + (fm * t1) ^ 2) (hsb2 : sb2 ^ 2 = 1 + (fm * t2) ^ 2)
    (psb1 : 0 < sb1) (psb2 : 0 < sb2)
    (pS1 : 0 < ch1 * sc1 - sh1 * t1) (pS2 : 0 < ch2 * sc2 - sh2 * t2)
    (pE1 : 0 < (ch1 * t1 - sh1 * sc1) + (ch1 * sc1 - sh1 * t1)) (pE2 : 0 < (ch2 * t2 - sh2 * sc2) + (ch2 * sc2 - sh2 * t2)) :
    let T1 := ch1 * t1 - sh1 * sc1
    let T2 := ch2 * t2 - sh2 * sc2
    let S1 := ch1 * sc1 - sh1 * t1
    let S2 := ch2 * sc2 - sh2 * t2
    let E1 := T1 + S1
    let E2 := T2 + S2
    let dtchi := (T2 - T1) / (t2 - t1)
    let dbet := (sb2 + sb1) / fm - (sc2 + sc1)
    let amu12 := -(sc1 * (chZ - ch1)) + t1 * (shZ - sh1) - sc2 * (chZ - ch2) + t2 * (shZ - sh2)
    let dnu12 := ((sc2 * (shZ - sh2) - t2 * (chZ - ch2)) - (sc1 * (shZ - sh1) - t1 * (chZ - ch1))) / (t2 - t1)
    let dchia := amu12 - dnu12 * (sc2 + sc1)
    let tam := (dchia - dtchi * dbet) / (S1 + S2)
    let tbm := 1 - (fm * t2 + fm * t1) / (sb2 + sb1)
    ((E2 + E1) / (4 * sb1 * sb2) * fm) * (tbm - tam) = (E2 / (2 * sb2) - E1 / (2 * sb1)) / (t2 - t1) := by
  intro T1 T2 S1 S2 E1 E2 dtchi dbet amu12 dnu12 dchia tam tbm
  have hS : S1 + S2 ≠ 0 := by positivity
  have hE : E1 + E2 ≠ 0 := by positivity
  have hsb : sb2 + sb1 ≠ 0 := by positivity
  -- S² − T² = 1
  have hST1 : S1 ^ 2 - T1 ^ 2 = 1 := by
    simp only [S1, T1]; linear_combination (sc1 ^ 2 - t1 ^ 2) * hch1 + hsc1
  have hST2 : S2 ^ 2 - T2 ^ 2 = 1 := by
    simp only [S2, T2]; linear_combination (sc2 ^ 2 - t2 ^ 2) * hch2 + hsc2
  -- step A
  have hA : dchia = (S1 + S2) - dtchi * (sc2 + sc1) := by
    simp only [dchia, amu12, dnu12, dtchi, S1, S2, T1, T2]
    field_simp
    linear_combination shZ * hsc1 - shZ * hsc2
  have hfm0 : fm ≠ 0 := hfm.ne'
  have hB : tam = 1 - dtchi * (sb2 + sb1) / (fm * (S1 + S2)) := by
    simp only [tam]
    rw [hA]
    simp only [dbet]
    field_simp
    ring
  have hkey : (T2 - T1) * (E1 + E2) = (E2 - E1) * (S1 + S2) := by
    simp only [E1, E2]
    linear_combination hST1 - hST2
  have h1 : dtchi * (sb2 + sb1) / (fm * (S1 + S2)) = (E2 - E1) * (sb1 + sb2) / (fm * (t2 - t1) * (E1 + E2)) := by
    have hd : dtchi * (t2 - t1) = T2 - T1 := by simp only [dtchi]; field_simp
    have hne : fm * (t2 - t1) * (E1 + E2) ≠ 0 := mul_ne_zero (mul_ne_zero hfm0 hΔ) hE
    rw [div_eq_div_iff (by positivity) hne]
    linear_combination (fm * (sb1 + sb2) * (E1 + E2)) * hd + (fm * (sb1 + sb2)) * hkey
  have h2 : (fm * t2 + fm * t1) / (sb2 + sb1) = (sb2 - sb1) / (fm * (t2 - t1)) := by
    rw [div_eq_div_iff hsb (mul_ne_zero hfm0 hΔ)]
    linear_combination hsb1 - hsb2
  have hC : tbm - tam = ((E2 - E1) * (sb1 + sb2) / (E1 + E2) - (sb2 - sb1)) / (fm * (t2 - t1)) := by
    simp only [tbm]
    rw [hB, h1, h2]
    field_simp
    ring
  rw [hC]
  field_simp
  ring

/-- the conformal tangent `tan χ = cosh ξ · tan φ − sinh ξ · sec φ` from `tan φ` and `ξ = eatanhe(sin φ)` -/
noncomputable def tchiR (t x : ℝ) : ℝ := hyp (Real.sinh x) * t - Real.sinh x * hyp t

theorem arsinh_tchiR (t x : ℝ) : Real.arsinh (tchiR t x) = Real.arsinh t - x := by
  have h : Real.sinh (Real.arsinh t - x) = tchiR t x := by
    rw [Real.sinh_sub, Real.sinh_arsinh, Real.cosh_arsinh, ← hyp_real, ← hyp_sinh]
    unfold tchiR; ring
  rw [← h, Real.arsinh_sinh]

theorem e2_eq (E : Ell ℝ) : E.e2 = 1 - E.fm ^ 2 := by
  simp only [Ell.e2, Ell.fm, one_real, two_real]; ring

/-- **The careful `1 − n` of `LambertConformalConic::Init` is `1 − n`.**  `t1, t2` are the tangents of the (ordered, distinct)
    parallels, `x1, x2` their `ξ = eatanhe(sin φ)`; `den` and `n` are characterised by `den·Δ = ψ2 − ψ1`, `n·den·Δ = ln sec β2 − ln sec β1`
    (`ψ = arsinh tan χ` the isometric latitude), and `Deatanhe` is assumed to be the divided difference of `eatanhe` on the three pairs
    the code uses (true for oblate, spherical and — with the stated restriction — prolate ellipsoids). -/
theorem lccOneMinusN_eq (E : Ell ℝ) (t1 t2 x1 x2 den n : ℝ) (hfm : 0 < E.fm) (h12 : t1 ≠ t2)
    (hDe1 : Deatanhe E.e2 E.es 1 (t1 / hyp t1) * (1 - t1 / hyp t1) = eatanhe 1 E.es - x1)
    (hDe2 : Deatanhe E.e2 E.es 1 (t2 / hyp t2) * (1 - t2 / hyp t2) = eatanhe 1 E.es - x2)
    (hDe12 : Deatanhe E.e2 E.es (t1 / hyp t1) (t2 / hyp t2) * (t1 / hyp t1 - t2 / hyp t2) = x1 - x2)
    (hden : den * (t2 - t1) = Real.arsinh (tchiR t2 x2) - Real.arsinh (tchiR t1 x1)) (hden0 : den ≠ 0)
    (hn : n * den * (t2 - t1) = Real.log (hyp (E.fm * t2)) - Real.log (hyp (E.fm * t1))) :
    lccOneMinusN E den
        (t1 / hyp t1) t1 (hyp t1) (Real.sinh x1) (hyp (Real.sinh x1)) x1 (tchiR t1 x1) (hyp (tchiR t1 x1)) (E.fm * t1) (hyp (E.fm * t1))
        (t2 / hyp t2) t2 (hyp t2) (Real.sinh x2) (hyp (Real.sinh x2)) x2 (tchiR t2 x2) (hyp (tchiR t2 x2)) (E.fm * t2) (hyp (E.fm * t2))
      = 1 - n := by
  have hΔ : t2 - t1 ≠ 0 := sub_ne_zero.mpr (Ne.symm h12)
  have he2 := e2_eq E
  -- abbreviations
  set fm := E.fm with hfmdef
  set sc1 := hyp t1 with hsc1d
  set sc2 := hyp t2 with hsc2d
  set sh1 := Real.sinh x1 with hsh1d
  set sh2 := Real.sinh x2 with hsh2d
  set ch1 := hyp sh1 with hch1d
  set ch2 := hyp sh2 with hch2d
  set sb1 := hyp (fm * t1) with hsb1d
  set sb2 := hyp (fm * t2) with hsb2d
  have hsc1 : sc1 ^ 2 = 1 + t1 ^ 2 := hyp_sq t1
  have hsc2 : sc2 ^ 2 = 1 + t2 ^ 2 := hyp_sq t2
  have hch1 : ch1 ^ 2 = 1 + sh1 ^ 2 := hyp_sq sh1
  have hch2 : ch2 ^ 2 = 1 + sh2 ^ 2 := hyp_sq sh2
  have hsb1 : sb1 ^ 2 = 1 + (fm * t1) ^ 2 := hyp_sq (fm * t1)
  have hsb2 : sb2 ^ 2 = 1 + (fm * t2) ^ 2 := hyp_sq (fm * t2)
  have psb1 : 0 < sb1 := hyp_pos _
  have psb2 : 0 < sb2 := hyp_pos _
  have hT1 : tchiR t1 x1 = ch1 * t1 - sh1 * sc1 := rfl
  have hT2 : tchiR t2 x2 = ch2 * t2 - sh2 * sc2 := rfl
  have hS1 : hyp (tchiR t1 x1) = ch1 * sc1 - sh1 * t1 := hyp_tchi t1 sh1
  have hS2 : hyp (tchiR t2 x2) = ch2 * sc2 - sh2 * t2 := hyp_tchi t2 sh2
  set T1 := tchiR t1 x1 with hT1d
  set T2 := tchiR t2 x2 with hT2d
  set S1 := hyp T1 with hS1d
  set S2 := hyp T2 with hS2d
  have pS1 : 0 < S1 := hyp_pos _
  have pS2 : 0 < S2 := hyp_pos _
  have hST1 : S1 ^ 2 = 1 + T1 ^ 2 := hyp_sq T1
  have hST2 : S2 ^ 2 = 1 + T2 ^ 2 := hyp_sq T2
  have pE1 : 0 < T1 + S1 := by have := abs_lt_hyp T1; have := neg_abs_le T1; linarith
  have pE2 : 0 < T2 + S2 := by have := abs_lt_hyp T2; have := neg_abs_le T2; linarith
  -- the pieces
  have hs1 : lccS E.e2 t1 sc1 sh1 ch1 = (fm * t1) ^ 2 - T1 ^ 2 := by rw [he2]; exact lccS_eq fm t1 sh1
  have hs2 : lccS E.e2 t2 sc2 sh2 ch2 = (fm * t2) ^ 2 - T2 ^ 2 := by rw [he2]; exact lccS_eq fm t2 sh2
  have ht1 : lccT ((fm * t1) ^ 2 - T1 ^ 2) T1 sb1 = sb1 - T1 := lccT_eq _ _ _ (by linear_combination -hsb1) psb1
  have ht2 : lccT ((fm * t2) ^ 2 - T2 ^ 2) T2 sb2 = sb2 - T2 := lccT_eq _ _ _ (by linear_combination -hsb2) psb2
  have ha1 : 1 + lccA ((fm * t1) ^ 2 - T1 ^ 2) (sb1 - T1) S1 sb1 = (T1 + S1) / (2 * sb1) :=
    lccA_eq _ _ T1 S1 sb1 (by linear_combination hST1 - hsb1) rfl psb1 pS1
  have ha2 : 1 + lccA ((fm * t2) ^ 2 - T2 ^ 2) (sb2 - T2) S2 sb2 = (T2 + S2) / (2 * sb2) :=
    lccA_eq _ _ T2 S2 sb2 (by linear_combination hST2 - hsb2) rfl psb2 pS2
  set a1 := lccA ((fm * t1) ^ 2 - T1 ^ 2) (sb1 - T1) S1 sb1 with ha1d
  set a2 := lccA ((fm * t2) ^ 2 - T2 ^ 2) (sb2 - T2) S2 sb2 with ha2d
  have pa1 : -1 < a1 := by
    have : 0 < (T1 + S1) / (2 * sb1) := by positivity
    linarith
  have pa2 : -1 < a2 := by
    have : 0 < (T2 + S2) / (2 * sb2) := by positivity
    linarith
  have hep1 : epPsi T1 S1 = T1 + S1 := by rw [hS1d, epPsi_real, exp_arsinh_hyp]
  have hep2 : epPsi T2 S2 = T2 + S2 := by rw [hS2d, epPsi_real, exp_arsinh_hyp]
  -- logarithms
  have hlog1 : Real.log (1 + a1) = Real.arsinh T1 - Real.log 2 - Real.log sb1 := by
    rw [ha1, ← exp_arsinh_hyp, Real.log_div (Real.exp_pos _).ne' (by positivity), Real.log_exp,
      Real.log_mul (by norm_num) psb1.ne']
    ring
  have hlog2 : Real.log (1 + a2) = Real.arsinh T2 - Real.log 2 - Real.log sb2 := by
    rw [ha2, ← exp_arsinh_hyp, Real.log_div (Real.exp_pos _).ne' (by positivity), Real.log_exp,
      Real.log_mul (by norm_num) psb2.ne']
    ring
  have hW : Dlog1p a2 a1 * (a2 - a1) = (1 - n) * (den * (t2 - t1)) := by
    rw [Dlog1p_mul a2 a1 pa2 pa1, hlog1, hlog2]
    linear_combination hn - hden
  have hda : a2 - a1 = (T2 + S2) / (2 * sb2) - (T1 + S1) / (2 * sb1) := by linear_combination ha2 - ha1
  -- dtchi
  have hdpsi := lcc_dpsi T2 T1
  have hTne : T2 - T1 ≠ 0 := by
    intro h
    have hT : T2 = T1 := by linarith
    rw [hT, sub_self] at hden
    exact (mul_ne_zero hden0 hΔ) hden
  have hDa : Dasinh T2 T1 S2 S1 * (T2 - T1) = den * (t2 - t1) := by rw [hden]; exact hdpsi
  have hDane : Dasinh T2 T1 S2 S1 ≠ 0 := by
    intro h; rw [h, zero_mul] at hDa; exact (mul_ne_zero hden0 hΔ) hDa.symm
  have hdtchi : den / Dasinh T2 T1 S2 S1 = (T2 - T1) / (t2 - t1) := by
    rw [div_eq_div_iff hDane hΔ]; linear_combination -hDa
  -- the differences of the hyperbolic functions of xi
  set xiZ := eatanhe 1 E.es with hxiZd
  have hdx1 : lccDxiZ E.e2 E.es (t1 / sc1) t1 sc1 = xiZ - x1 := by rw [lccDxiZ_eq]; exact hDe1
  have hdx2 : lccDxiZ E.e2 E.es (t2 / sc2) t2 sc2 = xiZ - x2 := by rw [lccDxiZ_eq]; exact hDe2
  have hdsh1 : Dsinh xiZ x1 (Real.sinh xiZ) sh1 (hyp (Real.sinh xiZ)) ch1 * (xiZ - x1) = Real.sinh xiZ - sh1 := Dsinh_mul xiZ x1
  have hdsh2 : Dsinh xiZ x2 (Real.sinh xiZ) sh2 (hyp (Real.sinh xiZ)) ch2 * (xiZ - x2) = Real.sinh xiZ - sh2 := Dsinh_mul xiZ x2
  set shZ := Real.sinh xiZ with hshZd
  set chZ := hyp shZ with hchZd
  have hdch1 : Dhyp shZ sh1 chZ ch1 * (shZ - sh1) = chZ - ch1 := Dhyp_mul shZ sh1
  have hdch2 : Dhyp shZ sh2 chZ ch2 * (shZ - sh2) = chZ - ch2 := Dhyp_mul shZ sh2
  have hdxi : Deatanhe E.e2 E.es (t1 / sc1) (t2 / sc2) * Dsn t2 t1 (t2 / sc2) (t1 / sc1) * (t2 - t1) = x2 - x1 := by
    rw [mul_assoc, Dsn_mul t2 t1]
    linear_combination -hDe12
  have hnu := lccDnu12_eq E.f t1 t2 x1 x2 shZ chZ h12 _ hdxi
  -- assemble
  unfold lccOneMinusN
  simp only [sinh_real, four_real, one_real, two_real, ← hfmdef]
  simp only [← hxiZd, ← hshZd, ← hchZd]
  rw [hs1, hs2, ht1, ht2, hep1, hep2, hdtchi, hdx1, hdx2, hdsh1, hdsh2, hdch1, hdch2, hnu, lccTbm_eq, he2, lccDbet_eq fm t1 t2 hfm]
  have hcore := lcc_core_algebra fm t1 t2 sc1 sc2 sh1 sh2 ch1 ch2 sb1 sb2 shZ chZ hfm hΔ hsc1 hsc2 hch1 hch2 hsb1 hsb2 psb1 psb2
    (by rw [← hS1]; exact pS1) (by rw [← hS2]; exact pS2) (by rw [← hT1, ← hS1]; exact pE1) (by rw [← hT2, ← hS2]; exact pE2)
  simp only [← hT1, ← hT2, ← hS1, ← hS2] at hcore
  have hdenΔ : den * (t2 - t1) ≠ 0 := mul_ne_zero hden0 hΔ
  calc Dlog1p a2 a1 / den * ((T2 + S2 + (T1 + S1)) / (4 * sb1 * sb2) * fm) *
        (1 - (fm * t2 + fm * t1) / (sb2 + sb1) -
          (-(sc1 * (chZ - ch1)) + t1 * (shZ - sh1) - sc2 * (chZ - ch2) + t2 * (shZ - sh2) -
                (sc2 * (shZ - sh2) - t2 * (chZ - ch2) - (sc1 * (shZ - sh1) - t1 * (chZ - ch1))) / (t2 - t1) * (sc2 + sc1) -
              (T2 - T1) / (t2 - t1) * ((sb2 + sb1) / fm - (sc2 + sc1))) /
            (S1 + S2))
      = Dlog1p a2 a1 / den * (((T2 + S2 + (T1 + S1)) / (4 * sb1 * sb2) * fm) *
        (1 - (fm * t2 + fm * t1) / (sb2 + sb1) -
          (-(sc1 * (chZ - ch1)) + t1 * (shZ - sh1) - sc2 * (chZ - ch2) + t2 * (shZ - sh2) -
                (sc2 * (shZ - sh2) - t2 * (chZ - ch2) - (sc1 * (shZ - sh1) - t1 * (chZ - ch1))) / (t2 - t1) * (sc2 + sc1) -
              (T2 - T1) / (t2 - t1) * ((sb2 + sb1) / fm - (sc2 + sc1))) /
            (S1 + S2))) := by ring
    _ = Dlog1p a2 a1 / den * (((T2 + S2) / (2 * sb2) - (T1 + S1) / (2 * sb1)) / (t2 - t1)) := by rw [hcore]
    _ = Dlog1p a2 a1 * (a2 - a1) / (den * (t2 - t1)) := by rw [hda]; field_simp
    _ = 1 - n := by rw [hW]; field_simp

/-! ## the cone constant of the two-parallel `Init` for any ellipsoid on which `Deatanhe` is a divided difference -/

/-- `Dasinh·(x − y) = arsinh x − arsinh y` -/
theorem Dasinh_mul (x y : ℝ) : Dasinh x y (hyp x) (hyp y) * (x - y) = Real.arsinh x - Real.arsinh y := lcc_dpsi x y

/-- the numerator of `n`: `D ln sec β` -/
theorem lccNraw_num (fm t1 t2 : ℝ) (h12 : t1 ≠ t2) :
    Dlog1p (RealLike.sq (fm * t2) / (1 + hyp (fm * t2))) (RealLike.sq (fm * t1) / (1 + hyp (fm * t1))) *
        Dhyp (fm * t2) (fm * t1) (hyp (fm * t2)) (hyp (fm * t1)) * fm * (t2 - t1) =
      Real.log (hyp (fm * t2)) - Real.log (hyp (fm * t1)) := by
  have p1 := one_le_hyp (fm * t1); have p2 := one_le_hyp (fm * t2)
  rw [sq_over_one_add_hyp, sq_over_one_add_hyp]
  have hm := Dlog1p_mul (hyp (fm * t2) - 1) (hyp (fm * t1) - 1) (by linarith) (by linarith)
  have hh := Dhyp_mul (fm * t2) (fm * t1)
  have e1 : (1 : ℝ) + (hyp (fm * t2) - 1) = hyp (fm * t2) := by ring
  have e2 : (1 : ℝ) + (hyp (fm * t1) - 1) = hyp (fm * t1) := by ring
  rw [e1, e2] at hm
  rw [← hm]
  have : Dhyp (fm * t2) (fm * t1) (hyp (fm * t2)) (hyp (fm * t1)) * fm * (t2 - t1) =
      Dhyp (fm * t2) (fm * t1) (hyp (fm * t2)) (hyp (fm * t1)) * (fm * t2 - fm * t1) := by ring
  calc _ = Dlog1p (hyp (fm * t2) - 1) (hyp (fm * t1) - 1) *
        (Dhyp (fm * t2) (fm * t1) (hyp (fm * t2)) (hyp (fm * t1)) * fm * (t2 - t1)) := by ring
    _ = _ := by rw [this, hh]; ring_nf

/-- **`n = num/den` of the two-parallel `Init`** in closed form: `den·Δ = ψ2 − ψ1` and `n·den·Δ = ln sec β2 − ln sec β1`,
    `ψ = arsinh(tan φ) − ξ`, whenever `Deatanhe(sphi2, sphi1)` is the divided difference of `ξ = eatanhe(sin φ)` -/
theorem lccNraw_closed (E : Ell ℝ) (t1 t2 x1 x2 : ℝ) (h12 : t1 ≠ t2)
    (hDe : Deatanhe E.e2 E.es (t2 / hyp t2) (t1 / hyp t1) * (t2 / hyp t2 - t1 / hyp t1) = x2 - x1) :
    let nd := lccNraw E (t1 / hyp t1) t1 (hyp t1) (E.fm * t1) (hyp (E.fm * t1)) (t2 / hyp t2) t2 (hyp t2) (E.fm * t2) (hyp (E.fm * t2))
    nd.2 * (t2 - t1) = (Real.arsinh t2 - x2) - (Real.arsinh t1 - x1) ∧
    (nd.2 ≠ 0 → nd.1 * nd.2 * (t2 - t1) = Real.log (hyp (E.fm * t2)) - Real.log (hyp (E.fm * t1))) := by
  intro nd
  have hΔ : t2 - t1 ≠ 0 := sub_ne_zero.mpr (Ne.symm h12)
  have hden : nd.2 * (t2 - t1) = (Real.arsinh t2 - x2) - (Real.arsinh t1 - x1) := by
    show (Dasinh t2 t1 (hyp t2) (hyp t1) - Deatanhe E.e2 E.es (t2 / hyp t2) (t1 / hyp t1) * Dsn t2 t1 (t2 / hyp t2) (t1 / hyp t1)) * (t2 - t1) = _
    have h1 := Dasinh_mul t2 t1
    have h2 := Dsn_mul t2 t1
    calc _ = Dasinh t2 t1 (hyp t2) (hyp t1) * (t2 - t1) -
          Deatanhe E.e2 E.es (t2 / hyp t2) (t1 / hyp t1) * (Dsn t2 t1 (t2 / hyp t2) (t1 / hyp t1) * (t2 - t1)) := by ring
      _ = _ := by rw [h1, h2, hDe]; ring
  refine ⟨hden, fun h0 => ?_⟩
  have hnum := lccNraw_num E.fm t1 t2 h12
  have e : nd.1 = Dlog1p (RealLike.sq (E.fm * t2) / (1 + hyp (E.fm * t2))) (RealLike.sq (E.fm * t1) / (1 + hyp (E.fm * t1))) *
        Dhyp (E.fm * t2) (E.fm * t1) (hyp (E.fm * t2)) (hyp (E.fm * t1)) * E.fm / nd.2 := by
    simp only [nd, lccNraw, one_real]
  rw [e, ← hnum]
  field_simp

/-- **`nc` of the careful branch**: `lccNcCareful = √(max 0 (1 − n) · (1 + n))` for the `n`, `den` of `lccNraw` -/
theorem lccNcCareful_eq (E : Ell ℝ) (t1 t2 x1 x2 : ℝ) (hfm : 0 < E.fm) (h12 : t1 ≠ t2)
    (hDe1 : Deatanhe E.e2 E.es 1 (t1 / hyp t1) * (1 - t1 / hyp t1) = eatanhe 1 E.es - x1)
    (hDe2 : Deatanhe E.e2 E.es 1 (t2 / hyp t2) * (1 - t2 / hyp t2) = eatanhe 1 E.es - x2)
    (hDe12 : Deatanhe E.e2 E.es (t1 / hyp t1) (t2 / hyp t2) * (t1 / hyp t1 - t2 / hyp t2) = x1 - x2)
    (hDe21 : Deatanhe E.e2 E.es (t2 / hyp t2) (t1 / hyp t1) * (t2 / hyp t2 - t1 / hyp t1) = x2 - x1)
    (hψ : Real.arsinh t2 - x2 ≠ Real.arsinh t1 - x1) :
    let nd := lccNraw E (t1 / hyp t1) t1 (hyp t1) (E.fm * t1) (hyp (E.fm * t1)) (t2 / hyp t2) t2 (hyp t2) (E.fm * t2) (hyp (E.fm * t2))
    lccNcCareful E nd.1 nd.2
        (t1 / hyp t1) t1 (hyp t1) (Real.sinh x1) (hyp (Real.sinh x1)) x1 (tchiR t1 x1) (hyp (tchiR t1 x1)) (E.fm * t1) (hyp (E.fm * t1))
        (t2 / hyp t2) t2 (hyp t2) (Real.sinh x2) (hyp (Real.sinh x2)) x2 (tchiR t2 x2) (hyp (tchiR t2 x2)) (E.fm * t2) (hyp (E.fm * t2))
      = Real.sqrt (max 0 (1 - nd.1) * (1 + nd.1)) := by
  intro nd
  have hΔ : t2 - t1 ≠ 0 := sub_ne_zero.mpr (Ne.symm h12)
  obtain ⟨hden, hn⟩ := lccNraw_closed E t1 t2 x1 x2 h12 hDe21
  have hden0 : nd.2 ≠ 0 := by
    intro h
    have h' : nd.2 * (t2 - t1) = 0 := by rw [h, zero_mul]
    have : (Real.arsinh t2 - x2) - (Real.arsinh t1 - x1) = 0 := by
      rw [← hden]; exact h'
    apply hψ; linarith
  have hden' : nd.2 * (t2 - t1) = Real.arsinh (tchiR t2 x2) - Real.arsinh (tchiR t1 x1) := by
    rw [arsinh_tchiR, arsinh_tchiR]; exact hden
  have h1 := lccOneMinusN_eq E t1 t2 x1 x2 nd.2 nd.1 hfm h12 hDe1 hDe2 hDe12 hden' hden0 (hn hden0)
  unfold lccNcCareful
  simp only [fmax_real, zero_real, one_real, sqrt_real]
  rw [h1]

/-! ## `AlbersEqualArea::Init`: `s`, `1 − s`, `C` -/

/-- `sec φ = 1/cos φ` from a sine/cosine pair -/
theorem hyp_tan (s c : ℝ) (hc : 0 < c) (hsc : s ^ 2 + c ^ 2 = 1) : hyp (s / c) = 1 / c := by
  rw [hyp_real]
  have : 1 + (s / c) ^ 2 = (1 / c) ^ 2 := by field_simp; linarith
  rw [this, Real.sqrt_sq (by positivity)]

theorem albRatio_eq (sphi cphi sxi cxi : ℝ) (hc : 0 < cphi) (hsc : sphi ^ 2 + cphi ^ 2 = 1) (hx : sxi ^ 2 + cxi ^ 2 = 1) (hcx : 0 < cxi) :
    albRatio sphi cphi sxi cxi = (1 - sxi) / (1 - sphi) := by
  have h1 : sphi < 1 := by nlinarith
  have h1' : -1 < sphi := by nlinarith
  have h2 : sxi < 1 := by nlinarith
  have h2' : -1 < sxi := by nlinarith
  unfold albRatio
  simp only [leb_real, zero_real, one_real, sq_real]
  by_cases h : sphi ≤ 0
  · simp only [h, decide_true, if_true]
  · simp only [h, decide_false, Bool.false_eq_true, if_false]
    have e1 : (1 : ℝ) - sphi ≠ 0 := by linarith
    have e2 : (1 : ℝ) + sxi ≠ 0 := by linarith
    rw [div_eq_div_iff e2 e1]
    have hcx2 : cxi ^ 2 = (1 - sxi) * (1 + sxi) := by linear_combination hx
    have hc2 : cphi ^ 2 = (1 - sphi) * (1 + sphi) := by linear_combination hsc
    rw [div_pow, hcx2, hc2]
    have e3 : (1 : ℝ) + sphi ≠ 0 := by linarith
    field_simp

theorem albOneMinus_eq (sphi cphi : ℝ) (hsc : sphi ^ 2 + cphi ^ 2 = 1) (hc : 0 < cphi) : albOneMinus sphi cphi = 1 - sphi := by
  have h1' : -1 < sphi := by nlinarith
  unfold albOneMinus
  simp only [leb_real, zero_real, one_real, sq_real]
  by_cases h : sphi ≤ 0
  · simp only [h, decide_true, if_true]
  · simp only [h, decide_false, Bool.false_eq_true, if_false]
    have e3 : (1 : ℝ) + sphi ≠ 0 := by linarith
    rw [div_eq_iff e3]
    linear_combination hsc
/-- algebraic core of `s`, `1 − s`, `C` of `AlbersEqualArea::Init` -/
theorem alb_core_algebra (e2 fm t1 t2 s1 s2 sx1 sx2 dA dsn dd A1 A2 AZ QZ : ℝ)
    (he2m : 1 - e2 ≠ 0) (hQZ : QZ ≠ 0) (hQZd : QZ = 1 / (1 - e2) + AZ)
    (hΔ : t2 - t1 ≠ 0) (hs12 : s2 - s1 ≠ 0)
    (hw1 : 1 - e2 * s1 ^ 2 ≠ 0) (hw2 : 1 - e2 * s2 ^ 2 ≠ 0)
    (hp1 : 1 + s1 ≠ 0) (hp2 : 1 + s2 ≠ 0) (hm1 : 1 - s1 ≠ 0) (hm2 : 1 - s2 ≠ 0)
    (hscb1 : (1 + (fm * t1) ^ 2) * (1 - s1 ^ 2) = 1 - e2 * s1 ^ 2) (hscb2 : (1 + (fm * t2) ^ 2) * (1 - s2 ^ 2) = 1 - e2 * s2 ^ 2)
    (hdsn : dsn * (t2 - t1) = s2 - s1) (hDA : dA * (s2 - s1) = A2 - A1)
    (hsx1 : sx1 * QZ = s1 / (1 - e2 * s1 ^ 2) + A1) (hsx2 : sx2 * QZ = s2 / (1 - e2 * s2 ^ 2) + A2)
    (hdd : dd * (s2 - s1) = (AZ - A2) / (1 - s2) - (AZ - A1) / (1 - s1)) :
    let scb12 := 1 + (fm * t1) ^ 2
    let scb22 := 1 + (fm * t2) ^ 2
    let dtbet2 := fm * (fm * t1 + fm * t2)
    let es1 := 1 - e2 * s1 ^ 2
    let es2 := 1 - e2 * s2 ^ 2
    let dsxi := ((1 + e2 * s1 * s2) / (es2 * es1) + dA) * dsn / (2 * (QZ / 2))
    let den := (sx2 + sx1) * dtbet2 + (scb22 + scb12) * dsxi
    let s := 2 * dtbet2 / den
    let sm1 := -dsn *
      (-((1 - sx2) / (1 - s2) + (1 - sx1) / (1 - s1)) * (1 + e2 * (s1 + s2 + s1 * s2)) / (1 + (s1 + s2 + s1 * s2))
        + (scb22 * (1 - s2) + scb12 * (1 - s1)) *
          (e2 * (1 + s1 + s2 + e2 * s1 * s2) / (es1 * es2) + (1 - e2) * dd) / ((1 - e2) * QZ)) / den
    dsxi * (t2 - t1) = sx2 - sx1 ∧ den * (t2 - t1) = 2 * (scb22 * sx2 - scb12 * sx1) ∧
      (scb22 * sx2 - scb12 * sx1 ≠ 0 → s = ((fm * t2) ^ 2 - (fm * t1) ^ 2) / (scb22 * sx2 - scb12 * sx1) ∧ sm1 = 1 - s) := by
  intro scb12 scb22 dtbet2 es1 es2 dsxi den s sm1
  have hdsxi : dsxi * (t2 - t1) = sx2 - sx1 := by
    have h1 : ((1 + e2 * s1 * s2) / (es2 * es1) + dA) * (s2 - s1) = (sx2 - sx1) * QZ := by
      have : (1 + e2 * s1 * s2) / (es2 * es1) * (s2 - s1) = s2 / es2 - s1 / es1 := by
        simp only [es1, es2]; field_simp; ring
      calc _ = (1 + e2 * s1 * s2) / (es2 * es1) * (s2 - s1) + dA * (s2 - s1) := by ring
        _ = _ := by rw [this, hDA]; simp only [es1, es2]; linear_combination hsx1 - hsx2
    calc dsxi * (t2 - t1) = ((1 + e2 * s1 * s2) / (es2 * es1) + dA) * (dsn * (t2 - t1)) / QZ := by
          simp only [dsxi]; field_simp
      _ = _ := by rw [hdsn, h1]; field_simp
  have hdt : dtbet2 * (t2 - t1) = scb22 - scb12 := by simp only [dtbet2, scb22, scb12]; ring
  have hden : den * (t2 - t1) = 2 * (scb22 * sx2 - scb12 * sx1) := by
    calc den * (t2 - t1) = (sx2 + sx1) * (dtbet2 * (t2 - t1)) + (scb22 + scb12) * (dsxi * (t2 - t1)) := by simp only [den]; ring
      _ = _ := by rw [hdt, hdsxi]; ring
  refine ⟨hdsxi, hden, fun hne => ?_⟩
  have hden0 : den ≠ 0 := by
    intro h; rw [h, zero_mul] at hden
    apply hne; linarith
  have hs : s = ((fm * t2) ^ 2 - (fm * t1) ^ 2) / (scb22 * sx2 - scb12 * sx1) := by
    simp only [s]
    rw [div_eq_div_iff hden0 hne]
    have : 2 * dtbet2 * (scb22 * sx2 - scb12 * sx1) * (t2 - t1) = ((fm * t2) ^ 2 - (fm * t1) ^ 2) * den * (t2 - t1) := by
      calc _ = 2 * (dtbet2 * (t2 - t1)) * (scb22 * sx2 - scb12 * sx1) := by ring
        _ = ((fm * t2) ^ 2 - (fm * t1) ^ 2) * (den * (t2 - t1)) := by rw [hdt, hden]; simp only [scb22, scb12]; ring
        _ = _ := by ring
    exact mul_right_cancel₀ hΔ this
  refine ⟨hs, ?_⟩
  -- the two factors F = scbet²(1 − sphi), R = (1 − sxi)/(1 − sphi) and their divided differences
  set σ := s1 + s2 + s1 * s2 with hσ
  have h1σ : 1 + σ = (1 + s1) * (1 + s2) := by rw [hσ]; ring
  have h1σ0 : 1 + σ ≠ 0 := by rw [h1σ]; exact mul_ne_zero hp1 hp2
  have hF1 : scb12 * (1 - s1) = es1 / (1 + s1) := by
    rw [eq_div_iff hp1]; simp only [scb12, es1]; linear_combination hscb1
  have hF2 : scb22 * (1 - s2) = es2 / (1 + s2) := by
    rw [eq_div_iff hp2]; simp only [scb22, es2]; linear_combination hscb2
  have hDF : scb22 * (1 - s2) - scb12 * (1 - s1) = -(1 + e2 * σ) / (1 + σ) * (s2 - s1) := by
    rw [hF1, hF2, h1σ, hσ]; simp only [es1, es2]; field_simp; ring
  have hR : ∀ (sx s A : ℝ), sx * QZ = s / (1 - e2 * s ^ 2) + A → 1 - e2 * s ^ 2 ≠ 0 → 1 - s ≠ 0 →
      (1 - sx) / (1 - s) * QZ = (1 + e2 * s) / ((1 - e2) * (1 - e2 * s ^ 2)) + (AZ - A) / (1 - s) := by
    intro sx s A hsx hw hm
    have : (1 - sx) * QZ = 1 / (1 - e2) + AZ - (s / (1 - e2 * s ^ 2) + A) := by rw [← hsx, ← hQZd]; ring
    calc (1 - sx) / (1 - s) * QZ = ((1 - sx) * QZ) / (1 - s) := by ring
      _ = _ := by rw [this]; field_simp; ring
  have hR1 := hR sx1 s1 A1 hsx1 hw1 hm1
  have hR2 := hR sx2 s2 A2 hsx2 hw2 hm2
  set R1 := (1 - sx1) / (1 - s1) with hR1d
  set R2 := (1 - sx2) / (1 - s2) with hR2d
  set DR := (e2 * (1 + s1 + s2 + e2 * s1 * s2) / (es1 * es2) + (1 - e2) * dd) / ((1 - e2) * QZ) with hDRd
  have hDR : R2 - R1 = DR * (s2 - s1) := by
    have e : (R2 - R1) * QZ = DR * (s2 - s1) * QZ := by
      have : DR * (s2 - s1) * QZ = e2 * (1 + s1 + s2 + e2 * s1 * s2) / (es1 * es2) * (s2 - s1) / (1 - e2) + dd * (s2 - s1) := by
        rw [hDRd]; field_simp
      rw [this, hdd]
      calc (R2 - R1) * QZ = R2 * QZ - R1 * QZ := by ring
        _ = _ := by rw [hR1, hR2]; simp only [es1, es2]; field_simp; ring
    exact mul_right_cancel₀ hQZ e
  have hFR1 : scb12 * (1 - s1) * R1 = scb12 * (1 - sx1) := by rw [hR1d]; field_simp
  have hFR2 : scb22 * (1 - s2) * R2 = scb22 * (1 - sx2) := by rw [hR2d]; field_simp
  -- sm1·den·Δ = (1 − s)·den·Δ
  have hdenΔ : den * (t2 - t1) ≠ 0 := mul_ne_zero hden0 hΔ
  have hA : sm1 * (den * (t2 - t1)) = -2 * (scb22 * (1 - sx2) - scb12 * (1 - sx1)) := by
    have e : sm1 * den = -dsn * (-(R2 + R1) * (1 + e2 * σ) / (1 + σ) + (scb22 * (1 - s2) + scb12 * (1 - s1)) * DR) := by
      simp only [sm1]
      rw [div_mul_cancel₀ _ hden0, hR1d, hR2d, hDRd, hσ]
      ring
    calc sm1 * (den * (t2 - t1)) = sm1 * den * (t2 - t1) := by ring
      _ = -(dsn * (t2 - t1)) * (-(R2 + R1) * (1 + e2 * σ) / (1 + σ) + (scb22 * (1 - s2) + scb12 * (1 - s1)) * DR) := by rw [e]; ring
      _ = -((R2 + R1) * (-(1 + e2 * σ) / (1 + σ) * (s2 - s1)) + (scb22 * (1 - s2) + scb12 * (1 - s1)) * (DR * (s2 - s1))) := by rw [hdsn]; ring
      _ = -((R2 + R1) * (scb22 * (1 - s2) - scb12 * (1 - s1)) + (scb22 * (1 - s2) + scb12 * (1 - s1)) * (R2 - R1)) := by rw [← hDF, ← hDR]
      _ = -2 * (scb22 * (1 - s2) * R2 - scb12 * (1 - s1) * R1) := by ring
      _ = _ := by rw [hFR1, hFR2]
  have hB : (1 - s) * (den * (t2 - t1)) = -2 * (scb22 * (1 - sx2) - scb12 * (1 - sx1)) := by
    have e : s * den = 2 * dtbet2 := by simp only [s]; field_simp
    calc (1 - s) * (den * (t2 - t1)) = den * (t2 - t1) - s * den * (t2 - t1) := by ring
      _ = 2 * (scb22 * sx2 - scb12 * sx1) - 2 * (dtbet2 * (t2 - t1)) := by rw [hden, e]; ring
      _ = _ := by rw [hdt]; ring
  exact mul_right_cancel₀ hdenΔ (hA.trans hB.symm)

/-- **`s`, `1 − s` and `C` of `AlbersEqualArea::Init`** (two distinct parallels given by sine/cosine pairs, `tan φ = s/c`).
    `A1, A2, AZ` are `atanhee` at the two sines and at 1; `Datanhee(sphi2, sphi1)` is assumed to be their divided difference, `dd`
    the second divided difference `(D(1, sphi2) − D(1, sphi1))/(sphi2 − sphi1)`, `D(1, x) = (AZ − A(x))/(1 − x)`, and the authalic
    sines `sxi = txi/hyp txi` are `Q/QZ`, `Q(x) = x/(1 − e²x²) + A(x)` (`txif_closed`).  Then, with `scbet² = 1 + (fm tan φ)²`:
    `s = (tbet2² − tbet1²)/(scbet2² sxi2 − scbet1² sxi1)`, `sm1 = 1 − s`,
    `C = (scbet2² sxi2 − scbet1² sxi1)/(scbet2² scbet1² (sxi2 − sxi1))` — the expressions in the comments of the code. -/
theorem albSC_closed (E : Ell ℝ) (s1 c1 s2 c2 txi1 txi2 dd A1 A2 AZ : ℝ)
    (he2m : E.e2m ≠ 0) (hc1 : 0 < c1) (hc2 : 0 < c2) (hsc1 : s1 ^ 2 + c1 ^ 2 = 1) (hsc2 : s2 ^ 2 + c2 ^ 2 = 1)
    (h12 : s1 / c1 ≠ s2 / c2) (hAZ : E.atanhee 1 = AZ) (hDA : E.Datanhee s2 s1 * (s2 - s1) = A2 - A1)
    (hQZ : 1 / E.e2m + AZ ≠ 0) (hw1 : 1 - E.e2 * s1 ^ 2 ≠ 0) (hw2 : 1 - E.e2 * s2 ^ 2 ≠ 0)
    (hx1 : txi1 / hyp txi1 * (1 / E.e2m + AZ) = s1 / (1 - E.e2 * s1 ^ 2) + A1)
    (hx2 : txi2 / hyp txi2 * (1 / E.e2m + AZ) = s2 / (1 - E.e2 * s2 ^ 2) + A2)
    (hdd : dd * (s2 - s1) = (AZ - A2) / (1 - s2) - (AZ - A1) / (1 - s1)) :
    let r := albSC E s1 c1 (s1 / c1) s2 c2 (s2 / c2) txi1 txi2 dd
    let scb12 := 1 + (E.fm * (s1 / c1)) ^ 2
    let scb22 := 1 + (E.fm * (s2 / c2)) ^ 2
    let sx1 := txi1 / hyp txi1
    let sx2 := txi2 / hyp txi2
    scb22 * sx2 - scb12 * sx1 ≠ 0 →
      r.s = ((E.fm * (s2 / c2)) ^ 2 - (E.fm * (s1 / c1)) ^ 2) / (scb22 * sx2 - scb12 * sx1) ∧ r.sm1 = 1 - r.s ∧
      (sx2 ≠ sx1 → r.C = (scb22 * sx2 - scb12 * sx1) / (scb22 * scb12 * (sx2 - sx1))) := by
  intro r scb12 scb22 sx1 sx2 hne
  have hΔ : s2 / c2 - s1 / c1 ≠ 0 := sub_ne_zero.mpr (Ne.symm h12)
  have he2m' : E.e2m = 1 - E.e2 := by simp only [Ell.e2m, one_real]
  have hfm2 : E.fm ^ 2 = 1 - E.e2 := by rw [e2_eq]; ring
  have hh1 := hyp_tan s1 c1 hc1 hsc1
  have hh2 := hyp_tan s2 c2 hc2 hsc2
  have hs1' : s1 = (s1 / c1) / hyp (s1 / c1) := by rw [hh1]; field_simp
  have hs2' : s2 = (s2 / c2) / hyp (s2 / c2) := by rw [hh2]; field_simp
  have hdsn : Dsn (s2 / c2) (s1 / c1) s2 s1 * (s2 / c2 - s1 / c1) = s2 - s1 := by
    have := Dsn_mul (s2 / c2) (s1 / c1)
    rw [← hs1', ← hs2'] at this; exact this
  have hs12 : s2 - s1 ≠ 0 := by
    intro h; rw [h, mul_eq_zero] at hdsn
    have hs : s1 = s2 := by linarith
    -- equal sines with positive cosines: equal tangents
    have hcc : c1 = c2 := by
      have : c1 ^ 2 = c2 ^ 2 := by rw [hs] at hsc1; linarith
      exact (pow_left_inj₀ hc1.le hc2.le (by norm_num)).mp this
    apply h12; rw [hs, hcc]
  have hm : ∀ s c : ℝ, 0 < c → s ^ 2 + c ^ 2 = 1 → 1 - s ≠ 0 ∧ 1 + s ≠ 0 := by
    intro s c hc h
    constructor
    · have : s < 1 := by nlinarith
      linarith
    · have : -1 < s := by nlinarith
      linarith
  obtain ⟨hm1, hp1⟩ := hm s1 c1 hc1 hsc1
  obtain ⟨hm2, hp2⟩ := hm s2 c2 hc2 hsc2
  have hscb : ∀ s c : ℝ, 0 < c → s ^ 2 + c ^ 2 = 1 → (1 + (E.fm * (s / c)) ^ 2) * (1 - s ^ 2) = 1 - E.e2 * s ^ 2 := by
    intro s c hc h
    have hc2' : 1 - s ^ 2 = c ^ 2 := by linarith
    rw [hc2', mul_pow, hfm2]
    field_simp
    linear_combination h
  have hcx : ∀ txi : ℝ, (txi / hyp txi) ^ 2 + (1 / hyp txi) ^ 2 = 1 ∧ 0 < 1 / hyp txi := by
    intro txi
    have h := hyp_sq txi; have p := hyp_pos txi
    constructor
    · field_simp; linarith
    · positivity
  have hR1 := albRatio_eq s1 c1 (txi1 / hyp txi1) (1 / hyp txi1) hc1 hsc1 (hcx txi1).1 (hcx txi1).2
  have hR2 := albRatio_eq s2 c2 (txi2 / hyp txi2) (1 / hyp txi2) hc2 hsc2 (hcx txi2).1 (hcx txi2).2
  have hO1 := albOneMinus_eq s1 c1 hsc1 hc1
  have hO2 := albOneMinus_eq s2 c2 hsc2 hc2
  rw [he2m'] at he2m hQZ hx1 hx2
  have hqZ : E.qZ = (1 - E.e2) * (1 / (1 - E.e2) + AZ) := by
    simp only [Ell.qZ, one_real, hAZ]; rw [he2m']; field_simp
  have hqx : E.qx = (1 / (1 - E.e2) + AZ) / 2 := by
    simp only [Ell.qx, two_real]; rw [hqZ, he2m']; field_simp
  have core := alb_core_algebra E.e2 E.fm (s1 / c1) (s2 / c2) s1 s2 (txi1 / hyp txi1) (txi2 / hyp txi2) (E.Datanhee s2 s1)
    (Dsn (s2 / c2) (s1 / c1) s2 s1) dd A1 A2 AZ
    (1 / (1 - E.e2) + AZ) he2m hQZ rfl hΔ hs12 hw1 hw2 hp1 hp2 hm1 hm2
    (hscb s1 c1 hc1 hsc1) (hscb s2 c2 hc2 hsc2) hdsn hDA hx1 hx2 hdd
  obtain ⟨hdsxi, hden, hrest⟩ := core
  obtain ⟨hs, hsm1⟩ := hrest hne
  -- the model function is the expression of the algebraic lemma
  have hcxi : ∀ txi : ℝ, txi * (1 / hyp txi) = txi / hyp txi := fun txi => by ring
  have p1 : (0 : ℝ) < scb12 := by simp only [scb12]; positivity
  have p2 : (0 : ℝ) < scb22 := by simp only [scb22]; positivity
  have keyC : ∀ den dsxi : ℝ, dsxi * (s2 / c2 - s1 / c1) = sx2 - sx1 → den * (s2 / c2 - s1 / c1) = 2 * (scb22 * sx2 - scb12 * sx1) →
      sx2 ≠ sx1 → den / (2 * scb12 * scb22 * dsxi) = (scb22 * sx2 - scb12 * sx1) / (scb22 * scb12 * (sx2 - sx1)) := by
    intro den dsxi h1 h2 hsx
    have hsx' : sx2 - sx1 ≠ 0 := sub_ne_zero.mpr hsx
    have hd1 : dsxi ≠ 0 := by
      intro h; rw [h, zero_mul] at h1; exact hsx' h1.symm
    have hdd1 : (2 : ℝ) * scb12 * scb22 * dsxi ≠ 0 := by positivity
    have hdd2 : scb22 * scb12 * (sx2 - sx1) ≠ 0 := mul_ne_zero (by positivity) hsx'
    rw [div_eq_div_iff hdd1 hdd2]
    apply mul_right_cancel₀ hΔ
    linear_combination (scb22 * scb12 * (sx2 - sx1)) * h2 - (2 * scb12 * scb22 * (scb22 * sx2 - scb12 * sx1)) * h1
  refine ⟨?_, ?_, fun hsx => ?_⟩
  · simp only [r, albSC, sq_real, one_real, two_real]
    rw [hcxi, hcxi, hqx]
    exact hs
  · simp only [r, albSC, sq_real, one_real, two_real]
    rw [hcxi, hcxi, hR1, hR2, hO1, hO2, hqZ, hqx, he2m']
    exact hsm1
  · simp only [r, albSC, sq_real, one_real, two_real]
    rw [hcxi, hcxi, hqx]
    exact keyC _ _ hdsxi hden hsx

/-! ## the Newton iteration of `AlbersEqualArea::Init` -/

/-- **The Newton function of `AlbersEqualArea::Init`.**  With `sphi0 = tan φ0/sec φ0`, `x = (1 − sphi0)/(1 − e² sphi0)`, `axm1` the exact
    `atanhee(x)/x − 1`, and the subtraction formula `atanhee(1) − atanhee(sphi0) = atanhee(x)`, the coded
    `u = sm1·g − s/qZ·(D − g(A + B))` is `sm1·g − (s/qZ)(1 − g (qZ − q0))`, `g = scbet0² sphi0`, `q0 = (1 − e²)(sphi0/(1 − e² sphi0²) + atanhee(sphi0))`. -/
theorem albNewtonU_closed (E : Ell ℝ) (s sm1 t0 axm1 A0 AZ : ℝ) (he2m : E.e2m ≠ 0)
    (hw : 1 - E.e2 * (t0 / hyp t0) ^ 2 ≠ 0) (hv : 1 - E.e2 * (t0 / hyp t0) ≠ 0)
    (hAZ : E.atanhee 1 = AZ)
    (hax : (1 + axm1) * ((1 - t0 / hyp t0) / (1 - E.e2 * (t0 / hyp t0))) = AZ - A0) :
    (albNewtonU E s sm1 t0 axm1).1 =
      sm1 * ((1 + (E.fm * t0) ^ 2) * (t0 / hyp t0)) -
        s / E.qZ * (1 - (1 + (E.fm * t0) ^ 2) * (t0 / hyp t0) *
          (E.qZ - E.e2m * (t0 / hyp t0 / (1 - E.e2 * (t0 / hyp t0) ^ 2) + A0))) := by
  have he2m' : E.e2m = 1 - E.e2 := by simp only [Ell.e2m, one_real]
  have hfm2 : E.fm ^ 2 = 1 - E.e2 := by rw [e2_eq]; ring
  have h := hyp_sq t0; have p := hyp_pos t0; have a := abs_lt_hyp t0
  have hsq : Real.sqrt (1 + t0 ^ 2) = hyp t0 := (hyp_real t0).symm
  have hqZ : E.qZ = 1 + E.e2m * AZ := by simp only [Ell.qZ, one_real, hAZ]
  set σ := t0 / hyp t0 with hσ
  have hm : 1 / (hyp t0 * (t0 + hyp t0)) = 1 - σ := by rw [hσ]; exact (one_sub_sn t0).symm
  have hσ1 : σ < 1 := by rw [hσ, div_lt_one p]; have := le_abs_self t0; linarith
  have hσ2 : -1 < σ := by
    rw [hσ, lt_div_iff₀ p]; have := neg_abs_le t0; linarith
  have hp1 : 1 + σ ≠ 0 := by linarith
  have hscb : (1 + (E.fm * t0) ^ 2) * (1 - σ ^ 2) = 1 - E.e2 * σ ^ 2 := by
    rw [hσ, mul_pow, hfm2]; field_simp; linear_combination ((1 - E.e2) * t0 ^ 2) * h
  -- (1 − e²)·atanhee(x) in terms of the coded B
  unfold albNewtonU
  simp only [sq_real, one_real, two_real, sqrt_real, hsq, hm]
  rw [he2m'] at he2m ⊢
  rw [hqZ, he2m']
  simp only [← hσ]
  have hm1 : 1 - σ ≠ 0 := by linarith
  have hG : 1 + (E.fm * t0) ^ 2 = (1 - E.e2 * σ ^ 2) / ((1 - σ) * (1 + σ)) := by
    rw [eq_div_iff (mul_ne_zero hm1 hp1)]; linear_combination hscb
  have hAZ' : AZ = A0 + (1 + axm1) * ((1 - σ) / (1 - E.e2 * σ)) := by linarith
  rw [hG, hAZ']
  congr 1
  congr 1
  have hw' : 1 - E.e2 * σ ^ 2 ≠ 0 := hw
  have hv' : 1 - E.e2 * σ ≠ 0 := hv
  have he' : 1 - E.e2 ≠ 0 := he2m
  have hw'' : 1 - σ ^ 2 * E.e2 ≠ 0 := by rw [mul_comm]; exact hw'
  have hv'' : 1 - σ * E.e2 ≠ 0 := by rw [mul_comm]; exact hv'
  field_simp
  ring

/-- a zero correction of the Newton step means a zero of `u` (the derivative being finite and non-zero) -/
theorem albNewtonStep_zero_iff (E : Ell ℝ) (s sm1 t0 : ℝ)
    (hdu : (albNewtonU E s sm1 t0 (atanhxm1 (albNewtonArg E t0))).2.1 ≠ 0) :
    albNewtonStep E s sm1 t0 = 0 ↔ (albNewtonU E s sm1 t0 (atanhxm1 (albNewtonArg E t0))).1 = 0 := by
  have hc : (albNewtonU E s sm1 t0 (atanhxm1 (albNewtonArg E t0))).2.2 = Real.sqrt (1 + t0 ^ 2) * (1 + t0 ^ 2) := by
    simp only [albNewtonU, sq_real, one_real, sqrt_real]
  have hpos : 0 < Real.sqrt (1 + t0 ^ 2) * (1 + t0 ^ 2) := by
    have : 0 < 1 + t0 ^ 2 := by positivity
    exact mul_pos (Real.sqrt_pos.mpr this) this
  unfold albNewtonStep
  simp only [zero_real]
  rw [hc]
  constructor
  · intro h
    have h' : (albNewtonU E s sm1 t0 (atanhxm1 (albNewtonArg E t0))).1 / (albNewtonU E s sm1 t0 (atanhxm1 (albNewtonArg E t0))).2.1 *
        (Real.sqrt (1 + t0 ^ 2) * (1 + t0 ^ 2)) = 0 := by linarith
    rcases mul_eq_zero.mp h' with h1 | h1
    · rcases div_eq_zero_iff.mp h1 with h2 | h2
      · exact h2
      · exact absurd h2 hdu
    · exact absurd h1 hpos.ne'
  · intro h; rw [h]; simp

/-- the (safeguarded) loop stays at a point where the correction vanishes: from the start (`hasPrev = false`) or once the previous
    iterate is that point itself -/
theorem albNewtonLoop_fixed' (E : Ell ℝ) (s sm1 stol t0 : ℝ) (h : albNewtonStep E s sm1 t0 = 0) (n : ℕ) (hp : Bool) (tp up dp : ℝ)
    (hup : hp = false ∨ up = (albNewtonU E s sm1 t0 (atanhxm1 (albNewtonArg E t0))).1) :
    albNewtonLoop E s sm1 stol n hp tp up dp t0 = t0 := by
  induction n generalizing hp tp up dp with
  | zero => rfl
  | succ n ih =>
    have hd : (0 : ℝ) - (albNewtonU E s sm1 t0 (atanhxm1 (albNewtonArg E t0))).1 / (albNewtonU E s sm1 t0 (atanhxm1 (albNewtonArg E t0))).2.1 *
        (albNewtonU E s sm1 t0 (atanhxm1 (albNewtonArg E t0))).2.2 = 0 := by
      have := h; unfold albNewtonStep at this; simpa [zero_real] using this
    have hcond : (hp && RealLike.ltb (RealLike.abs up) (RealLike.abs (albNewtonU E s sm1 t0 (atanhxm1 (albNewtonArg E t0))).1)) = false := by
      rcases hup with h0 | h0
      · rw [h0]; rfl
      · rw [h0]; simp [ltb_real]
    simp only [albNewtonLoop, hcond, zero_real, hd, add_zero, Bool.false_eq_true, if_false]
    split
    · rfl
    · exact ih true t0 _ 0 (Or.inr rfl)

theorem albNewtonLoop_fixed (E : Ell ℝ) (s sm1 stol t0 : ℝ) (h : albNewtonStep E s sm1 t0 = 0) (n : ℕ) :
    albNewtonLoop E s sm1 stol n false t0 0 0 t0 = t0 :=
  albNewtonLoop_fixed' E s sm1 stol t0 h n false t0 0 0 (Or.inl rfl)

/-- `u = 0` with `sm1 = 1 − s` is the defining equation `s = sphi0 qZ/(m0² + sphi0 q0)` written without denominators:
    `g qZ = s (1 + g q0)`, `g = scbet0² sphi0 = sphi0/m0²` -/
theorem alb_u_zero_iff (s g qZ q0 : ℝ) (hq : qZ ≠ 0) :
    (1 - s) * g - s / qZ * (1 - g * (qZ - q0)) = 0 ↔ g * qZ = s * (1 + g * q0) := by
  constructor
  · intro h
    have : ((1 - s) * g - s / qZ * (1 - g * (qZ - q0))) * qZ = 0 := by rw [h, zero_mul]
    have e : ((1 - s) * g - s / qZ * (1 - g * (qZ - q0))) * qZ = g * qZ - s * (1 + g * q0) := by field_simp; ring
    linarith [e ▸ this]
  · intro h
    have e : (1 - s) * g - s / qZ * (1 - g * (qZ - q0)) = (g * qZ - s * (1 + g * q0)) / qZ := by field_simp; ring
    rw [e, h]; simp

/-! ## prolate and spherical ellipsoids; `txif` for any ellipsoid -/

/-- `Datanhee` on a prolate ellipsoid (`f < 0`, `e = √(−e²) > 0`) is the divided difference of `atanhee x = atan(e x)/e` for *every*
    pair `x ≠ y` (the `x·y < 0` guard of the code takes care of the branch of the arctangent) -/
theorem Datanhee_dd_prolate (f e x y : ℝ) (hf : f < 0) (he : 0 < e) (hxy : x ≠ y) :
    Datanhee f (-(e ^ 2)) e x y = (atanhee f e x - atanhee f e y) / (x - y) := by
  have h2 : x - y ≠ 0 := sub_ne_zero.mpr hxy
  have hnf : ¬ (0 < f) := not_lt.mpr hf.le
  unfold Datanhee atanhee
  simp only [eqb_real, ltb_real, zero_real, one_real, atan_real, hf, hnf, h2, decide_true, decide_false, if_true, Bool.false_eq_true, if_false]
  by_cases hneg : x * y < 0
  · simp only [hneg, decide_true, if_true]
  · simp only [hneg, decide_false, Bool.false_eq_true, if_false]
    have hnn : 0 ≤ x * y := not_lt.mp hneg
    have hadd : Real.arctan (e * x) - Real.arctan (e * y) = Real.arctan ((e * x - e * y) / (1 + e * x * (e * y))) := by
      have hlt : e * x * -(e * y) < 1 := by
        have : e * x * -(e * y) = -(e ^ 2 * (x * y)) := by ring
        rw [this]; have : 0 ≤ e ^ 2 * (x * y) := by positivity
        linarith
      have h := Real.arctan_add (x := e * x) (y := -(e * y)) hlt
      rw [Real.arctan_neg] at h
      have e' : (e * x + -(e * y)) / (1 - e * x * -(e * y)) = (e * x - e * y) / (1 + e * x * (e * y)) := by
        congr 1 <;> ring
      rw [e'] at h
      linarith
    have earg : e * ((x - y) / (1 - -(e ^ 2) * x * y)) = (e * x - e * y) / (1 + e * x * (e * y)) := by
      have : 1 - -(e ^ 2) * x * y = 1 + e * x * (e * y) := by ring
      rw [this]; ring
    rw [earg, ← hadd]
    have hene : e ≠ 0 := he.ne'
    field_simp

/-- on a sphere (`f = 0`, `e² = 0`) `atanhee` is the identity and `Datanhee` is 1 -/
theorem Datanhee_dd_sphere (e x y : ℝ) (hxy : x ≠ y) :
    Datanhee 0 0 e x y = (atanhee 0 e x - atanhee 0 e y) / (x - y) := by
  have h2 : x - y ≠ 0 := sub_ne_zero.mpr hxy
  unfold Datanhee atanhee
  simp only [eqb_real, ltb_real, zero_real, one_real, h2, lt_irrefl, decide_false, Bool.false_eq_true, if_false]
  by_cases hneg : x * y < 0
  · simp only [hneg, decide_true, if_true]
  · simp only [hneg, decide_false, Bool.false_eq_true, if_false]
    field_simp
    ring

/-- **`txif` is the authalic tangent for any ellipsoid on which `Datanhee(1, ±sin φ)` are divided differences of an odd `atanhee`**:
    `Q/√(QZ² − Q²)` with `Q(s) = s/(1 − e² s²) + atanhee(s)`, `QZ = 1/(1 − e²) + atanhee(1)` -/
theorem txif_of_dd (E : Ell ℝ) (tphi : ℝ) (hem : E.e2m ≠ 0) (hw : 1 - E.e2 * (tphi / hyp tphi) ^ 2 ≠ 0)
    (hD1 : E.Datanhee 1 (tphi / hyp tphi) = (E.atanhee 1 - E.atanhee (tphi / hyp tphi)) / (1 - tphi / hyp tphi))
    (hD2 : E.Datanhee 1 (-(tphi / hyp tphi)) = (E.atanhee 1 + E.atanhee (tphi / hyp tphi)) / (1 + tphi / hyp tphi))
    (hQ : (tphi / hyp tphi / (1 - E.e2 * (tphi / hyp tphi) ^ 2) + E.atanhee (tphi / hyp tphi)) ^ 2 <
          (1 / E.e2m + E.atanhee 1) ^ 2) :
    txif E tphi =
      (tphi / hyp tphi / (1 - E.e2 * (tphi / hyp tphi) ^ 2) + E.atanhee (tphi / hyp tphi)) /
        Real.sqrt ((1 / E.e2m + E.atanhee 1) ^ 2 -
          (tphi / hyp tphi / (1 - E.e2 * (tphi / hyp tphi) ^ 2) + E.atanhee (tphi / hyp tphi)) ^ 2) := by
  have hh := hyp_sq tphi; have hp := hyp_pos tphi; have hlt := abs_lt_hyp tphi
  set s := tphi / hyp tphi with hs
  clear_value s
  have hem' : E.e2m = 1 - E.e2 := by unfold Ell.e2m; simp only [one_real]
  have hsabs : |s| < 1 := by
    rw [hs, abs_div, abs_of_pos hp]; exact (div_lt_one hp).mpr hlt
  obtain ⟨hs1, hs2⟩ := abs_lt.mp hsabs
  have hc : (1 : ℝ) / Real.sqrt (1 + tphi ^ 2) = 1 / hyp tphi := by rw [hyp_real]
  have hcs : s ^ 2 + (1 / hyp tphi) ^ 2 = 1 := by
    rw [hs]; field_simp; linarith
  set Q := s / (1 - E.e2 * s ^ 2) + E.atanhee s with hQdef
  set QZ := 1 / E.e2m + E.atanhee 1 with hQZdef
  clear_value Q QZ
  have hpos : 0 < QZ ^ 2 - Q ^ 2 := by linarith
  unfold txif
  simp only [one_real, sq_real, sqrt_real]
  rw [hc]
  have hsp : tphi * (1 / hyp tphi) = s := by rw [hs]; ring
  rw [hsp, hD1, hD2]
  have hw' : 1 - E.e2 * s * s ≠ 0 := by
    have : 1 - E.e2 * s * s = 1 - E.e2 * s ^ 2 := by ring
    rw [this]; exact hw
  have hA : (1 + E.e2 * s) / (E.e2m * (1 - E.e2 * s * s)) + (E.atanhee 1 - E.atanhee s) / (1 - s) = (QZ - Q) / (1 - s) := by
    rw [hQdef, hQZdef]
    have h1s : (1 : ℝ) - s ≠ 0 := by linarith
    field_simp
    rw [hem']
    ring
  have hB : (1 - E.e2 * s) / (E.e2m * (1 - E.e2 * s * s)) + (E.atanhee 1 + E.atanhee s) / (1 + s) = (QZ + Q) / (1 + s) := by
    rw [hQdef, hQZdef]
    have h1s : (1 : ℝ) + s ≠ 0 := by linarith
    field_simp
    rw [hem']
    ring
  rw [hA, hB]
  have hN : tphi / (1 - E.e2 * s * s) + E.atanhee s / (1 / hyp tphi) = Q * hyp tphi := by
    rw [hQdef, hs]
    rw [hs] at hw hw'
    field_simp
  rw [hN]
  have hprod : (QZ - Q) / (1 - s) * ((QZ + Q) / (1 + s)) = (QZ ^ 2 - Q ^ 2) * hyp tphi ^ 2 := by
    have h1 : (1 : ℝ) - s ≠ 0 := by linarith
    have h2 : (1 : ℝ) + s ≠ 0 := by linarith
    have hc2 : (1 - s) * (1 + s) = (1 / hyp tphi) ^ 2 := by linear_combination -hcs
    rw [div_mul_div_comm, hc2]
    field_simp
    ring
  rw [hprod, Real.sqrt_mul hpos.le, Real.sqrt_sq hp.le]
  have hsq : Real.sqrt (QZ ^ 2 - Q ^ 2) ≠ 0 := (Real.sqrt_pos.mpr hpos).ne'
  field_simp

/-! ## corollaries for oblate and prolate (incl. spherical) ellipsoids -/

theorem Deatanhe_mul_oblate (es x y : ℝ) (hes : 0 < es) (hx : |es * x| < 1) (hy : |es * y| < 1) :
    Deatanhe (es ^ 2) es x y * (x - y) = eatanhe x es - eatanhe y es := by
  by_cases h : x = y
  · rw [h]; simp
  · rw [Deatanhe_dd_oblate es x y hes hx hy h]
    have : x - y ≠ 0 := sub_ne_zero.mpr h
    field_simp

theorem Deatanhe_mul_prolate (es x y : ℝ) (hes : es ≤ 0) :
    Deatanhe (-(es ^ 2)) es x y * (x - y) = eatanhe x es - eatanhe y es := by
  by_cases h : x = y
  · rw [h]; simp
  · rw [Deatanhe_dd_prolate es x y hes h]
    have : x - y ≠ 0 := sub_ne_zero.mpr h
    field_simp

theorem abs_es_sn_lt (es t : ℝ) (h0 : 0 ≤ es) (h1 : es < 1) : |es * (t / hyp t)| < 1 := by
  have ht := abs_lt_hyp t
  have hp := hyp_pos t
  rw [abs_mul, abs_of_nonneg h0, abs_div, abs_of_pos hp]
  have : |t| / hyp t < 1 := (div_lt_one hp).mpr ht
  have h0' : 0 ≤ |t| / hyp t := by positivity
  nlinarith

/-- the careful `nc` on an oblate ellipsoid (`0 < es < 1`, `e² = es²`) -/
theorem lccNcCareful_oblate (E : Ell ℝ) (t1 t2 : ℝ) (hfm : 0 < E.fm) (h12 : t1 ≠ t2) (hes : 0 < E.es) (hes1 : E.es < 1) (he2 : E.e2 = E.es ^ 2)
    (hψ : Real.arsinh t2 - eatanhe (t2 / hyp t2) E.es ≠ Real.arsinh t1 - eatanhe (t1 / hyp t1) E.es) :
    let x1 := eatanhe (t1 / hyp t1) E.es
    let x2 := eatanhe (t2 / hyp t2) E.es
    let nd := lccNraw E (t1 / hyp t1) t1 (hyp t1) (E.fm * t1) (hyp (E.fm * t1)) (t2 / hyp t2) t2 (hyp t2) (E.fm * t2) (hyp (E.fm * t2))
    lccNcCareful E nd.1 nd.2
        (t1 / hyp t1) t1 (hyp t1) (Real.sinh x1) (hyp (Real.sinh x1)) x1 (tchiR t1 x1) (hyp (tchiR t1 x1)) (E.fm * t1) (hyp (E.fm * t1))
        (t2 / hyp t2) t2 (hyp t2) (Real.sinh x2) (hyp (Real.sinh x2)) x2 (tchiR t2 x2) (hyp (tchiR t2 x2)) (E.fm * t2) (hyp (E.fm * t2))
      = Real.sqrt (max 0 (1 - nd.1) * (1 + nd.1)) := by
  intro x1 x2 nd
  have a1 := abs_es_sn_lt E.es t1 hes.le hes1
  have a2 := abs_es_sn_lt E.es t2 hes.le hes1
  have a0 : |E.es * 1| < 1 := by rw [mul_one, abs_of_pos hes]; exact hes1
  exact lccNcCareful_eq E t1 t2 x1 x2 hfm h12
    (by rw [he2]; exact Deatanhe_mul_oblate E.es 1 _ hes a0 a1)
    (by rw [he2]; exact Deatanhe_mul_oblate E.es 1 _ hes a0 a2)
    (by rw [he2]; exact Deatanhe_mul_oblate E.es _ _ hes a1 a2)
    (by rw [he2]; exact Deatanhe_mul_oblate E.es _ _ hes a2 a1) hψ

/-- the careful `nc` on a prolate or spherical ellipsoid (`es ≤ 0`, `e² = −es²`): no restriction on the parallels since 36a144d -/
theorem lccNcCareful_prolate (E : Ell ℝ) (t1 t2 : ℝ) (hfm : 0 < E.fm) (h12 : t1 ≠ t2) (hes : E.es ≤ 0) (he2 : E.e2 = -(E.es ^ 2))
    (hψ : Real.arsinh t2 - eatanhe (t2 / hyp t2) E.es ≠ Real.arsinh t1 - eatanhe (t1 / hyp t1) E.es) :
    let x1 := eatanhe (t1 / hyp t1) E.es
    let x2 := eatanhe (t2 / hyp t2) E.es
    let nd := lccNraw E (t1 / hyp t1) t1 (hyp t1) (E.fm * t1) (hyp (E.fm * t1)) (t2 / hyp t2) t2 (hyp t2) (E.fm * t2) (hyp (E.fm * t2))
    lccNcCareful E nd.1 nd.2
        (t1 / hyp t1) t1 (hyp t1) (Real.sinh x1) (hyp (Real.sinh x1)) x1 (tchiR t1 x1) (hyp (tchiR t1 x1)) (E.fm * t1) (hyp (E.fm * t1))
        (t2 / hyp t2) t2 (hyp t2) (Real.sinh x2) (hyp (Real.sinh x2)) x2 (tchiR t2 x2) (hyp (tchiR t2 x2)) (E.fm * t2) (hyp (E.fm * t2))
      = Real.sqrt (max 0 (1 - nd.1) * (1 + nd.1)) := by
  intro x1 x2 nd
  exact lccNcCareful_eq E t1 t2 x1 x2 hfm h12
    (by rw [he2]; exact Deatanhe_mul_prolate E.es 1 _ hes)
    (by rw [he2]; exact Deatanhe_mul_prolate E.es 1 _ hes)
    (by rw [he2]; exact Deatanhe_mul_prolate E.es _ _ hes)
    (by rw [he2]; exact Deatanhe_mul_prolate E.es _ _ hes) hψ

/-- Snyder's (15-8) for any ellipsoid on which `Deatanhe(sphi2, sphi1)` is a divided difference -/
theorem lcc_n_snyder_gen (E : Ell ℝ) (t1 t2 x1 x2 : ℝ) (h12 : t1 ≠ t2)
    (hDe : Deatanhe E.e2 E.es (t2 / hyp t2) (t1 / hyp t1) * (t2 / hyp t2 - t1 / hyp t1) = x2 - x1)
    (hψ : Real.arsinh t2 - x2 ≠ Real.arsinh t1 - x1) :
    (lccNraw E (t1 / hyp t1) t1 (hyp t1) (E.fm * t1) (hyp (E.fm * t1)) (t2 / hyp t2) t2 (hyp t2) (E.fm * t2) (hyp (E.fm * t2))).1 =
      (Real.log (hyp (E.fm * t2)) - Real.log (hyp (E.fm * t1))) / ((Real.arsinh t2 - x2) - (Real.arsinh t1 - x1)) := by
  obtain ⟨hden, hn⟩ := lccNraw_closed E t1 t2 x1 x2 h12 hDe
  have hΔ : t2 - t1 ≠ 0 := sub_ne_zero.mpr (Ne.symm h12)
  have hd : (Real.arsinh t2 - x2) - (Real.arsinh t1 - x1) ≠ 0 := sub_ne_zero.mpr hψ
  set nd := lccNraw E (t1 / hyp t1) t1 (hyp t1) (E.fm * t1) (hyp (E.fm * t1)) (t2 / hyp t2) t2 (hyp t2) (E.fm * t2) (hyp (E.fm * t2))
  have hden0 : nd.2 ≠ 0 := by
    intro h; rw [h, zero_mul] at hden; exact hd hden.symm
  rw [eq_div_iff hd, ← hden, ← hn hden0]; ring

theorem ell_e_sq_prolate (E : Ell ℝ) (he2 : E.e2 < 0) : 0 < E.e ∧ E.e2 = -(E.e ^ 2) := by
  constructor
  · unfold Ell.e; simp only [sqrt_real, abs_real]; exact Real.sqrt_pos.mpr (abs_pos.mpr he2.ne)
  · unfold Ell.e; simp only [sqrt_real, abs_real]
    rw [Real.sq_sqrt (abs_nonneg _), abs_of_neg he2]; ring

/-- **`txif` is the authalic tangent on a prolate ellipsoid** (`f < 0`, `e² < 0`) -/
theorem txif_prolate (E : Ell ℝ) (tphi : ℝ) (hf : E.f < 0) (he2 : E.e2 < 0)
    (hQ : (tphi / hyp tphi / (1 - E.e2 * (tphi / hyp tphi) ^ 2) + E.atanhee (tphi / hyp tphi)) ^ 2 < (1 / E.e2m + E.atanhee 1) ^ 2) :
    txif E tphi =
      (tphi / hyp tphi / (1 - E.e2 * (tphi / hyp tphi) ^ 2) + E.atanhee (tphi / hyp tphi)) /
        Real.sqrt ((1 / E.e2m + E.atanhee 1) ^ 2 -
          (tphi / hyp tphi / (1 - E.e2 * (tphi / hyp tphi) ^ 2) + E.atanhee (tphi / hyp tphi)) ^ 2) := by
  obtain ⟨hepos, hesq⟩ := ell_e_sq_prolate E he2
  have hp := hyp_pos tphi; have hlt := abs_lt_hyp tphi
  have hsabs : |tphi / hyp tphi| < 1 := by rw [abs_div, abs_of_pos hp]; exact (div_lt_one hp).mpr hlt
  obtain ⟨hs1, hs2⟩ := abs_lt.mp hsabs
  have hem : E.e2m ≠ 0 := by
    have : E.e2m = 1 - E.e2 := by unfold Ell.e2m; simp only [one_real]
    rw [this]; linarith
  have hw : 1 - E.e2 * (tphi / hyp tphi) ^ 2 ≠ 0 := by
    have : 0 ≤ -E.e2 * (tphi / hyp tphi) ^ 2 := by have := sq_nonneg (tphi / hyp tphi); nlinarith
    linarith
  have hodd : E.atanhee (-(tphi / hyp tphi)) = -E.atanhee (tphi / hyp tphi) := by
    have hnf : ¬ (0 < E.f) := not_lt.mpr hf.le
    unfold Ell.atanhee atanhee
    simp only [ltb_real, zero_real, hnf, hf, decide_false, decide_true, Bool.false_eq_true, if_false, if_true, atan_real]
    rw [mul_neg, Real.arctan_neg]; ring
  have hD1 : E.Datanhee 1 (tphi / hyp tphi) = (E.atanhee 1 - E.atanhee (tphi / hyp tphi)) / (1 - tphi / hyp tphi) := by
    unfold Ell.Datanhee Ell.atanhee
    rw [hesq]
    exact Datanhee_dd_prolate E.f E.e 1 _ hf hepos (by linarith)
  have hD2 : E.Datanhee 1 (-(tphi / hyp tphi)) = (E.atanhee 1 + E.atanhee (tphi / hyp tphi)) / (1 + tphi / hyp tphi) := by
    have : E.Datanhee 1 (-(tphi / hyp tphi)) = (E.atanhee 1 - E.atanhee (-(tphi / hyp tphi))) / (1 - -(tphi / hyp tphi)) := by
      unfold Ell.Datanhee Ell.atanhee
      rw [hesq]
      exact Datanhee_dd_prolate E.f E.e 1 _ hf hepos (by linarith)
    rw [this, hodd]; congr 1 <;> ring
  exact txif_of_dd E tphi hem hw hD1 hD2 hQ

/-- on a sphere the authalic latitude is the geographic latitude: `txif = id` -/
theorem txif_sphere (a tphi : ℝ) : txif (⟨a, 0⟩ : Ell ℝ) tphi = tphi := by
  have he2 : (⟨a, 0⟩ : Ell ℝ).e2 = 0 := by simp [Ell.e2]
  have hem : (⟨a, 0⟩ : Ell ℝ).e2m = 1 := by simp [Ell.e2m, he2, one_real]
  have hat : ∀ x : ℝ, (⟨a, 0⟩ : Ell ℝ).atanhee x = x := by
    intro x; simp [Ell.atanhee, atanhee, ltb_real, zero_real]
  have hp := hyp_pos tphi; have hlt := abs_lt_hyp tphi; have hh := hyp_sq tphi
  have hsabs : |tphi / hyp tphi| < 1 := by rw [abs_div, abs_of_pos hp]; exact (div_lt_one hp).mpr hlt
  obtain ⟨hs1, hs2⟩ := abs_lt.mp hsabs
  have hDs : ∀ y : ℝ, y ≠ 1 → (⟨a, 0⟩ : Ell ℝ).Datanhee 1 y = ((⟨a, 0⟩ : Ell ℝ).atanhee 1 - (⟨a, 0⟩ : Ell ℝ).atanhee y) / (1 - y) := by
    intro y hy
    unfold Ell.Datanhee Ell.atanhee
    rw [he2]
    exact Datanhee_dd_sphere _ 1 y (Ne.symm hy)
  have h := txif_of_dd (⟨a, 0⟩ : Ell ℝ) tphi (by rw [hem]; norm_num) (by rw [he2]; norm_num) (hDs _ (by linarith))
    (by rw [hDs _ (by linarith), hat, hat, hat]; congr 1 <;> ring)
    (by rw [he2, hem, hat, hat]
        have : (tphi / hyp tphi / (1 - 0 * (tphi / hyp tphi) ^ 2) + tphi / hyp tphi) ^ 2 = 4 * (tphi / hyp tphi) ^ 2 := by ring
        rw [this]
        have : (tphi / hyp tphi) ^ 2 < 1 := by nlinarith
        nlinarith)
  rw [h, he2, hem, hat, hat]
  have e1 : tphi / hyp tphi / (1 - 0 * (tphi / hyp tphi) ^ 2) + tphi / hyp tphi = 2 * (tphi / hyp tphi) := by ring
  rw [e1]
  have e2 : ((1 : ℝ) / 1 + 1) ^ 2 - (2 * (tphi / hyp tphi)) ^ 2 = (2 / hyp tphi) ^ 2 := by
    field_simp; linear_combination 4 * hh
  rw [e2, Real.sqrt_sq (by positivity)]
  field_simp

end GeoVerif.Proofs.ConicInit
