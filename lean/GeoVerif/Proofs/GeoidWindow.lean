import GeoVerif.Proofs.GeoidLoc
import Mathlib.Tactic.SplitIfs
/-!
# Floating-point index arithmetic of `Geoid::height` / `Geoid::CacheArea`: monotonicity and bounds of `⌊x·R⌋`

`fl (x * R)` is one correctly rounded product followed by `floor`.  From the monotonicity of correct rounding:
it is monotone in `x` (for `R ≥ 0`) and it respects integer bounds of the exact product.
-/
namespace GeoVerif
open Dy
namespace Geoid

theorem fl_eq (x : F64) : fl x = Dy.floor x.toDy := by unfold fl; rw [F64.floor_toDy_floor]

/-- value and finiteness of a product whose exact value is at most 2^52 in magnitude -/
theorem mul_val (a R : F64) (ha : a.isFinite = true) (hR : R.isFinite = true) (hz : |a.val * R.val| ≤ 2 ^ 52) :
    ∃ r : ℚ, IsRN 53 (-1074) (a.val * R.val) r ∧ (a * R).isFinite = true ∧ (a * R).val = r := by
  obtain ⟨sa, ma, ea, rfl⟩ := F64.exists_fin_of_isFinite a ha
  obtain ⟨sr, mr, er, rfl⟩ := F64.exists_fin_of_isFinite R hR
  obtain ⟨r, hr, hf⟩ := F64.mul_fin_isRN sa sr ma mr ea er
  obtain ⟨f1, f2⟩ := hf (hr.lt_huge hz)
  exact ⟨r, hr, f1, f2⟩

/-- `⌊a·R⌋ ≤ ⌊b·R⌋` for `a ≤ b`, `R ≥ 0` (one rounding each) -/
theorem fl_mul_mono (a b R : F64) (ha : a.isFinite = true) (hb : b.isFinite = true) (hR : R.isFinite = true)
    (hab : a.val ≤ b.val) (hR0 : 0 ≤ R.val) (hza : |a.val * R.val| ≤ 2 ^ 52) (hzb : |b.val * R.val| ≤ 2 ^ 52) :
    fl (a * R) ≤ fl (b * R) := by
  obtain ⟨ra, hra, _, va⟩ := mul_val a R ha hR hza
  obtain ⟨rb, hrb, _, vb⟩ := mul_val b R hb hR hzb
  rw [fl_eq, fl_eq]
  apply Dy.floor_mono
  have : ra ≤ rb := IsRN.mono (by norm_num) hra hrb (mul_le_mul_of_nonneg_right hab hR0)
  have e1 : (a * R).toDy.val = ra := va
  have e2 : (b * R).toDy.val = rb := vb
  rw [e1, e2]; exact this

/-- integer bounds of the exact product carry over to `⌊a·R⌋` -/
theorem fl_mul_bounds (a R : F64) (ha : a.isFinite = true) (hR : R.isFinite = true) (lo hi : ℤ)
    (hlo : |lo| ≤ 2 ^ 52) (hhi : |hi| ≤ 2 ^ 52) (h1 : (lo:ℚ) ≤ a.val * R.val) (h2 : a.val * R.val ≤ (hi:ℚ)) :
    lo ≤ fl (a * R) ∧ fl (a * R) ≤ hi := by
  have hz : |a.val * R.val| ≤ 2 ^ 52 := by
    rw [abs_le]
    have l1 : -(2:ℚ) ^ 52 ≤ (lo:ℚ) := by
      have := (abs_le.mp hlo).1
      have : ((-(2:ℤ) ^ 52 : ℤ) : ℚ) ≤ (lo:ℚ) := by exact_mod_cast this
      push_cast at this; linarith
    have l2 : (hi:ℚ) ≤ (2:ℚ) ^ 52 := by
      have := (abs_le.mp hhi).2
      have : (hi:ℚ) ≤ (((2:ℤ) ^ 52 : ℤ) : ℚ) := by exact_mod_cast this
      push_cast at this; linarith
    constructor <;> linarith
  obtain ⟨r, hr, _, v⟩ := mul_val a R ha hR hz
  have b1 := hr.int_le lo (le_trans hlo (by norm_num)) h1
  have b2 := hr.le_int hi (le_trans hhi (by norm_num)) h2
  rw [fl_eq]
  obtain ⟨q1, q2⟩ := Dy.floor_spec (a * R).toDy
  have e : (a * R).toDy.val = r := v
  rw [e] at q1 q2
  constructor
  · have : ((lo - 1 : ℤ) : ℚ) < ((Dy.floor (a * R).toDy : ℤ) : ℚ) := by push_cast; linarith
    have : lo - 1 < Dy.floor (a * R).toDy := by exact_mod_cast this
    omega
  · have : ((Dy.floor (a * R).toDy : ℤ) : ℚ) ≤ ((hi : ℤ) : ℚ) := by linarith
    exact_mod_cast this

/-- `_rlonres = w / 360` (one rounding): finite, between 0 and `w/256` -/
theorem rlonres_val (w : ℤ) (h2 : 2 ≤ w) (hmax : w ≤ 2 ^ 31) :
    (F64.ofInt w / F64.ofInt Gen.MathC.td).isFinite = true ∧
    0 ≤ (F64.ofInt w / F64.ofInt Gen.MathC.td).val ∧ (F64.ofInt w / F64.ofInt Gen.MathC.td).val ≤ (w:ℚ) / 256 := by
  have hw0 : (0:ℚ) ≤ (w:ℚ) := by exact_mod_cast (by omega : (0:ℤ) ≤ w)
  have htd : F64.ofInt Gen.MathC.td = .fin false 360 0 := rfl
  obtain ⟨r1, hr1, hf1⟩ := F64.div_fin (decide (w < 0)) false w.natAbs 360 0 0 (by norm_num)
  rw [← ofInt_fin, ← htd] at hr1 hf1
  have hv360 : (F64.ofInt Gen.MathC.td).val = 360 := by rw [htd, F64.val_fin]; simp
  rw [val_ofInt, hv360] at hr1
  have hwabs : |w| ≤ 2 ^ 53 := abs_le.mpr ⟨by omega, by omega⟩
  have g1 := IsRN.of_fits 53 (by norm_num) (-1074) w (-8) hwabs (by norm_num)
  have e8 : (2:ℚ) ^ (-8:ℤ) = 1 / 256 := by norm_num
  rw [e8] at g1
  have r1hi : r1 ≤ (w:ℚ) * (1 / 256) :=
    IsRN.mono (by norm_num) hr1 g1 (by rw [div_eq_mul_inv]; apply mul_le_mul_of_nonneg_left _ hw0; norm_num)
  have r1lo : 0 ≤ r1 := IsRN.nonneg hr1 (by positivity)
  have hwq : (w:ℚ) ≤ 2 ^ 31 := by exact_mod_cast hmax
  have e31 : (2:ℚ) ^ 31 = 2147483648 := by norm_num
  rw [e31] at hwq
  have r1fin : |r1| < (2:ℚ) ^ (1024:ℤ) := by
    have : (2:ℚ) ^ (31:ℤ) < (2:ℚ) ^ (1024:ℤ) := Dy.two_zpow_lt_iff.mpr (by norm_num)
    have e : (2:ℚ) ^ (31:ℤ) = 2147483648 := by norm_num
    rw [e] at this
    rw [abs_lt]
    generalize (2:ℚ) ^ (1024:ℤ) = B at *
    constructor <;> linarith
  obtain ⟨hf1a, hf1v⟩ := hf1 r1fin
  refine ⟨hf1a, ?_, ?_⟩
  · rw [hf1v]; exact r1lo
  · rw [hf1v]; linarith

/-- `_rlatres = (h − 1) / 180` (one rounding): finite, between 0 and `(h−1)/128` -/
theorem rlatres_val (h : ℤ) (h2 : 1 ≤ h) (hmax : h ≤ 2 ^ 31) :
    (F64.ofInt (h - 1) / F64.ofInt Gen.MathC.hd).isFinite = true ∧
    0 ≤ (F64.ofInt (h - 1) / F64.ofInt Gen.MathC.hd).val ∧ (F64.ofInt (h - 1) / F64.ofInt Gen.MathC.hd).val ≤ ((h - 1 : ℤ):ℚ) / 128 := by
  set w := h - 1 with hwdef
  have hw0 : (0:ℚ) ≤ (w:ℚ) := by exact_mod_cast (by omega : (0:ℤ) ≤ w)
  have htd : F64.ofInt Gen.MathC.hd = .fin false 180 0 := rfl
  obtain ⟨r1, hr1, hf1⟩ := F64.div_fin (decide (w < 0)) false w.natAbs 180 0 0 (by norm_num)
  rw [← ofInt_fin, ← htd] at hr1 hf1
  have hv180 : (F64.ofInt Gen.MathC.hd).val = 180 := by rw [htd, F64.val_fin]; simp
  rw [val_ofInt, hv180] at hr1
  have hwabs : |w| ≤ 2 ^ 53 := abs_le.mpr ⟨by omega, by omega⟩
  have g1 := IsRN.of_fits 53 (by norm_num) (-1074) w (-7) hwabs (by norm_num)
  have e8 : (2:ℚ) ^ (-7:ℤ) = 1 / 128 := by norm_num
  rw [e8] at g1
  have r1hi : r1 ≤ (w:ℚ) * (1 / 128) :=
    IsRN.mono (by norm_num) hr1 g1 (by rw [div_eq_mul_inv]; apply mul_le_mul_of_nonneg_left _ hw0; norm_num)
  have r1lo : 0 ≤ r1 := IsRN.nonneg hr1 (by positivity)
  have hwq : (w:ℚ) ≤ 2 ^ 31 := by exact_mod_cast (by omega : w ≤ 2 ^ 31)
  have e31 : (2:ℚ) ^ 31 = 2147483648 := by norm_num
  rw [e31] at hwq
  have r1fin : |r1| < (2:ℚ) ^ (1024:ℤ) := by
    have : (2:ℚ) ^ (31:ℤ) < (2:ℚ) ^ (1024:ℤ) := Dy.two_zpow_lt_iff.mpr (by norm_num)
    have e : (2:ℚ) ^ (31:ℤ) = 2147483648 := by norm_num
    rw [e] at this
    rw [abs_lt]
    generalize (2:ℚ) ^ (1024:ℤ) = B at *
    constructor <;> linarith
  obtain ⟨hf1a, hf1v⟩ := hf1 r1fin
  refine ⟨hf1a, ?_, ?_⟩
  · rw [hf1v]; exact r1lo
  · rw [hf1v]; linarith

/-! ## the window of `CacheArea` -/

theorem windowOfIdx_ok (w h : Int) (cubic : Bool) (iw ie in0 is0 : Int) (hw2 : 2 ≤ w) (hev : w % 2 = 0) (hh : 3 ≤ h)
    (h1 : iw ≤ ie) (h2 : in0 ≤ is0) (hb : 4 ≤ w → -(w - 1) ≤ iw ∧ iw ≤ w - 1) :
    0 ≤ (windowOfIdx w h cubic iw ie in0 is0).1 ∧ (windowOfIdx w h cubic iw ie in0 is0).1 < w ∧
    0 < (windowOfIdx w h cubic iw ie in0 is0).2.2.1 ∧ (windowOfIdx w h cubic iw ie in0 is0).2.2.1 ≤ w ∧
    -1 ≤ (windowOfIdx w h cubic iw ie in0 is0).2.1 ∧ 0 < (windowOfIdx w h cubic iw ie in0 is0).2.2.2 ∧
    (windowOfIdx w h cubic iw ie in0 is0).2.1 + (windowOfIdx w h cubic iw ie in0 is0).2.2.2 ≤ h + 1 := by
  unfold windowOfIdx
  simp only [Int.max_def, Int.min_def]
  generalize (h - 1) / 2 = hh2
  by_cases h4 : 4 ≤ w
  · obtain ⟨b1, b2⟩ := hb h4
    cases cubic <;> simp only [Bool.false_eq_true, if_false, if_true] <;> split_ifs <;> omega
  · have : w = 2 := by omega
    subst this
    cases cubic <;> simp only [Bool.false_eq_true, if_false, if_true] <;> split_ifs <;> omega

theorem lt_fin_iff (a b : F64) (ha : a.isFinite = true) (hb : b.isFinite = true) : F64.lt a b = true ↔ a.val < b.val := by
  obtain ⟨sa, ma, ea, rfl⟩ := F64.exists_fin_of_isFinite a ha
  obtain ⟨sb, mb, eb, rfl⟩ := F64.exists_fin_of_isFinite b hb
  show Dy.lt _ _ = true ↔ _
  rw [Dy.lt_iff]; rfl

theorem le_fin_iff (a b : F64) (ha : a.isFinite = true) (hb : b.isFinite = true) : F64.le a b = true ↔ a.val ≤ b.val := by
  obtain ⟨sa, ma, ea, rfl⟩ := F64.exists_fin_of_isFinite a ha
  obtain ⟨sb, mb, eb, rfl⟩ := F64.exists_fin_of_isFinite b hb
  show Dy.le _ _ = true ↔ _
  rw [Dy.le_iff]; rfl

theorem neg_val (a : F64) (ha : a.isFinite = true) : (F64.neg a).isFinite = true ∧ (F64.neg a).val = -a.val := by
  obtain ⟨sa, ma, ea, rfl⟩ := F64.exists_fin_of_isFinite a ha
  exact ⟨rfl, F64.neg_fin_val sa ma ea⟩

/-- `AngNormalize`: a finite result means a finite argument, and the result is in [−180, 180] -/
theorem angNormalize_fin (x : F64) (h : (MathF.angNormalize x).isFinite = true) : |(MathF.angNormalize x).val| ≤ 180 := by
  have hx : x.isFinite = true := by
    by_contra hc
    have := Props.C16.angNormalize_nonfinite x (by simpa using hc)
    cases hh : MathF.angNormalize x <;> simp_all [F64.isFinite, F64.isNaN]
  obtain ⟨s, m, e, rfl⟩ := F64.exists_fin_of_isFinite x hx
  exact (Props.C16.angNormalize_spec s m e).2.2.1

/-- `LatFix`: a finite result is the argument itself, in [−90, 90] -/
theorem latFix_fin (x : F64) (h : (MathF.latFix x).isFinite = true) : MathF.latFix x = x ∧ |x.val| ≤ 90 := by
  obtain ⟨h1, h2⟩ := Props.C16.latFix_spec x
  have e : MathF.latFix x = x := by
    rcases h1 with h1 | h1
    · exact h1
    · cases hh : MathF.latFix x <;> simp_all [F64.isFinite, F64.isNaN]
  rw [e] at h
  obtain ⟨s, m, ee, rfl⟩ := F64.exists_fin_of_isFinite x h
  exact ⟨e, (h2 s m ee rfl).mpr e⟩

/-- `east` after the `+= 360` adjustment is not west of `west`, and at most 540 -/
theorem eastOf_val (W E0 : F64) (hW : W.isFinite = true) (hE0 : E0.isFinite = true) (hWb : |W.val| ≤ 180) (hEb : |E0.val| ≤ 180) :
    (eastOf W E0).isFinite = true ∧ W.val ≤ (eastOf W E0).val ∧ (eastOf W E0).val ≤ 540 := by
  unfold eastOf
  have hW' := abs_le.mp hWb
  have hE' := abs_le.mp hEb
  split
  · obtain ⟨s, m, e, rfl⟩ := F64.exists_fin_of_isFinite E0 hE0
    have htd : F64.ofInt Gen.MathC.td = .fin false 360 0 := rfl
    rw [htd]
    obtain ⟨r, hr, hf⟩ := F64.add_fin_isRN s false m 360 e 0
    have hv360 : (F64.fin false 360 0).val = 360 := by rw [F64.val_fin]; simp
    rw [hv360] at hr
    have b1 := hr.int_le 180 (by norm_num) (by push_cast; linarith)
    have b2 := hr.le_int 540 (by norm_num) (by push_cast; linarith)
    push_cast at b1 b2
    have hfin : |r| < (2:ℚ) ^ (1024:ℤ) := hr.lt_huge (by rw [abs_le]; constructor <;> norm_num <;> linarith)
    obtain ⟨f1, f2⟩ := hf hfin
    exact ⟨f1, by rw [f2]; linarith, by rw [f2]; exact b2⟩
  · rename_i hle
    have : ¬ (E0.val ≤ W.val) := fun h => hle ((le_fin_iff E0 W hE0 hW).mpr h)
    exact ⟨hE0, by linarith, by linarith⟩

theorem eastOf_fin_inv (W E0 : F64) (h : (eastOf W E0).isFinite = true) : E0.isFinite = true := by
  cases E0 with
  | fin s m e => rfl
  | nan =>
    unfold eastOf at h
    have : F64.le F64.nan W = false := by cases W <;> rfl
    rw [this] at h; simp [F64.isFinite] at h
  | inf s =>
    unfold eastOf at h
    split at h
    · have : (F64.inf s + F64.ofInt Gen.MathC.td) = F64.inf s := rfl
      rw [this] at h; simp [F64.isFinite] at h
    · simp [F64.isFinite] at h

theorem cacheWindow_ok (f : File) (cubic : Bool) (h2 : 2 ≤ f.w) (hev : f.w % 2 = 0) (hmax : f.w ≤ 2 ^ 31)
    (hh : 3 ≤ f.h) (hhmax : f.h ≤ 2 ^ 31) (south west north east : F64) (xo yo xs ys : ℤ)
    (hw : cacheWindow f cubic south west north east = .set xo yo xs ys) :
    0 ≤ xo ∧ xo < f.w ∧ 0 < xs ∧ xs ≤ f.w ∧ -1 ≤ yo ∧ 0 < ys ∧ yo + ys ≤ f.h + 1 := by
  unfold cacheWindow at hw
  by_cases hgt : F64.gt south north = true
  · rw [if_pos hgt] at hw; cases hw
  rw [if_neg hgt] at hw
  by_cases hfin : (!((MathF.latFix south).isFinite && (MathF.latFix north).isFinite && (MathF.angNormalize west).isFinite &&
      (eastOf (MathF.angNormalize west) (MathF.angNormalize east)).isFinite)) = true
  · rw [if_pos hfin] at hw; cases hw
  rw [if_neg hfin] at hw
  simp only [cacheFloors] at hw
  have hfin' : ((MathF.latFix south).isFinite && (MathF.latFix north).isFinite && (MathF.angNormalize west).isFinite &&
      (eastOf (MathF.angNormalize west) (MathF.angNormalize east)).isFinite) = true := by
    simpa using hfin
  simp only [Bool.and_eq_true] at hfin'
  obtain ⟨⟨⟨fS, fN⟩, fW⟩, fE⟩ := hfin'
  obtain ⟨eS, bS⟩ := latFix_fin south fS
  obtain ⟨eN, bN⟩ := latFix_fin north fN
  rw [eS] at fS; rw [eN] at fN
  rw [eS, eN] at hw
  have bW := angNormalize_fin west fW
  have fE0 : (MathF.angNormalize east).isFinite = true := eastOf_fin_inv _ _ fE
  set W := MathF.angNormalize west with hWdef
  have bE0 := angNormalize_fin east fE0
  obtain ⟨_, e1, e2⟩ := eastOf_val W (MathF.angNormalize east) fW fE0 bW bE0
  set E := eastOf W (MathF.angNormalize east) with hEdef
  -- the two scale factors
  obtain ⟨fR, r0, r1⟩ := rlonres_val f.w h2 hmax
  obtain ⟨fL, l0, l1⟩ := rlatres_val f.h (by omega) hhmax
  set R := F64.ofInt f.w / F64.ofInt Gen.MathC.td with hRdef
  set L := F64.ofInt (f.h - 1) / F64.ofInt Gen.MathC.hd with hLdef
  have hwq : (f.w:ℚ) ≤ 2147483648 := by exact_mod_cast hmax
  have hw2q : (2:ℚ) ≤ (f.w:ℚ) := by exact_mod_cast h2
  have hhq : ((f.h - 1 : ℤ):ℚ) ≤ 2147483648 := by exact_mod_cast (by omega : f.h - 1 ≤ 2147483648)
  have hW' := abs_le.mp bW
  have hS' := abs_le.mp bS
  have hN' := abs_le.mp bN
  have e52 : (2:ℚ) ^ 52 = 4503599627370496 := by norm_num
  -- columns: monotone, and bounded for w ≥ 4
  have c1 : fl (W * R) ≤ fl (E * R) := by
    apply fl_mul_mono W E R fW fE fR e1 r0
    · rw [abs_le, e52]; constructor <;> nlinarith
    · rw [abs_le, e52]; constructor <;> nlinarith
  have c2 : 4 ≤ f.w → -(f.w - 1) ≤ fl (W * R) ∧ fl (W * R) ≤ f.w - 1 := by
    intro h4
    have h4q : (4:ℚ) ≤ (f.w:ℚ) := by exact_mod_cast h4
    apply fl_mul_bounds W R fW fR
    · rw [abs_le]; constructor <;> omega
    · rw [abs_le]; constructor <;> omega
    · push_cast; nlinarith
    · push_cast; nlinarith
  -- rows: monotone
  have hSN : south.val ≤ north.val := by
    by_contra hc
    exact hgt ((lt_fin_iff north south fN fS).mpr (not_le.mp hc))
  obtain ⟨fnN, vnN⟩ := neg_val north fN
  obtain ⟨fnS, vnS⟩ := neg_val south fS
  have c3 : fl (F64.neg north * L) ≤ fl (F64.neg south * L) := by
    apply fl_mul_mono _ _ L fnN fnS fL (by rw [vnN, vnS]; linarith) l0
    · rw [vnN, abs_le, e52]; constructor <;> nlinarith
    · rw [vnS, abs_le, e52]; constructor <;> nlinarith
  have key := windowOfIdx_ok f.w f.h cubic _ _ _ _ h2 hev hh c1 c3 c2
  injection hw with a1 a2 a3 a4
  rw [← a1, ← a2, ← a3, ← a4]
  exact key

/-- `_rlatres = (h − 1)/180` with its relative rounding error: at most `(h−1)/180·(1 + 2^-53) + 2^-1075` -/
theorem rlatres_fine (h : ℤ) (h2 : 1 ≤ h) (hmax : h ≤ 2 ^ 31) :
    (F64.ofInt (h - 1) / F64.ofInt Gen.MathC.hd).val ≤ ((h - 1 : ℤ):ℚ) / 180 * (1 + (2:ℚ) ^ (-(53:ℤ))) + (2:ℚ) ^ (-(1075:ℤ)) := by
  set w := h - 1 with hwdef
  have hw0 : (0:ℚ) ≤ (w:ℚ) := by exact_mod_cast (by omega : (0:ℤ) ≤ w)
  have htd : F64.ofInt Gen.MathC.hd = .fin false 180 0 := rfl
  obtain ⟨r1, hr1, hf1⟩ := F64.div_fin (decide (w < 0)) false w.natAbs 180 0 0 (by norm_num)
  rw [← ofInt_fin, ← htd] at hr1 hf1
  have hv180 : (F64.ofInt Gen.MathC.hd).val = 180 := by rw [htd, F64.val_fin]; simp
  rw [val_ofInt, hv180] at hr1
  obtain ⟨fin, _, hi⟩ := rlatres_val h h2 hmax
  have hwq : (w:ℚ) ≤ 2147483648 := by exact_mod_cast (by omega : w ≤ 2147483648)
  have r1fin : |r1| < (2:ℚ) ^ (1024:ℤ) := hr1.lt_huge (by
    rw [abs_le]; constructor
    · have : (0:ℚ) ≤ (w:ℚ) / 180 := by positivity
      have : (0:ℚ) ≤ (2:ℚ) ^ 52 := by positivity
      linarith
    · have e52 : (2:ℚ) ^ 52 = 4503599627370496 := by norm_num
      rw [e52, div_le_iff₀ (by norm_num)]; linarith)
  obtain ⟨_, hv⟩ := hf1 r1fin
  rw [hv]
  have he := hr1.err
  have e1 : ((-1074:ℤ) - 1) = -1075 := by norm_num
  rw [e1] at he
  have hz : |(w:ℚ) / 180| = (w:ℚ) / 180 := abs_of_nonneg (by positivity)
  rw [hz] at he
  have h53 : (0:ℚ) < (2:ℚ) ^ (-((53:ℕ):ℤ)) := by positivity
  have h1075 : (0:ℚ) < (2:ℚ) ^ (-(1075:ℤ)) := by positivity
  have hmaxle : max ((w:ℚ) / 180 * (2:ℚ) ^ (-((53:ℕ):ℤ))) ((2:ℚ) ^ (-(1075:ℤ))) ≤ (w:ℚ) / 180 * (2:ℚ) ^ (-((53:ℕ):ℤ)) + (2:ℚ) ^ (-(1075:ℤ)) := by
    apply max_le
    · linarith
    · have : (0:ℚ) ≤ (w:ℚ) / 180 * (2:ℚ) ^ (-((53:ℕ):ℤ)) := by positivity
      linarith
  have := (abs_le.mp (le_trans he hmaxle)).2
  have e53 : (2:ℚ) ^ (-((53:ℕ):ℤ)) = (2:ℚ) ^ (-(53:ℤ)) := by norm_num
  rw [e53] at this
  linarith

/-- **the row index of `Geoid::height`**: `0 ≤ iy ≤ h − 2` for every position — the clamp at both ends (repair 63168e3 of
    finding F72) keeps latitude +90 in the first row of cells and latitude −90 in the last one, whatever the two
    roundings of `90·((h−1)/180)` do -/
theorem locF_iy_range (f : File) (h3 : 3 ≤ f.h) (lat lon : F64) (ix iy : ℤ) (fx fy : F64)
    (h : locF f lat lon = some (ix, iy, fx, fy)) : 0 ≤ iy ∧ iy ≤ f.h - 2 := by
  unfold locF at h
  simp only [] at h
  by_cases hnan : ((MathF.latFix lat).isNaN || (MathF.angNormalize lon).isNaN) = true
  · rw [if_pos hnan] at h; exact absurd h (by simp)
  · rw [if_neg hnan] at h
    simp only [Option.some.injEq, Prod.mk.injEq] at h
    obtain ⟨_, hiy, _⟩ := h
    rw [← hiy]
    simp only [Int.min_def, Int.max_def]
    constructor <;> split_ifs <;> omega

/-- what the clamp cures: on a raster of height 59 the unclamped row of latitude +90 is `⌊−90·fl(58/180)⌋ = −30`, one
    below `−(h−1)/2 = −29` (the two roundings end above 29) -/
theorem north_row_needs_clamp :
    fl (F64.neg (F64.ofInt 90) * (F64.ofInt (59 - 1) / F64.ofInt Gen.MathC.hd)) = -30 ∧ -((59 - 1) / 2 : ℤ) = -29 := by
  decide +kernel

/-! ## the floors from which the `int` index arithmetic starts (finding F73) -/

/-- `_rlonres = w/360` with its relative rounding error -/
theorem rlonres_fine (w : ℤ) (h2 : 2 ≤ w) (hmax : w ≤ 2 ^ 31) :
    (F64.ofInt w / F64.ofInt Gen.MathC.td).val ≤ (w:ℚ) / 360 * (1 + (2:ℚ) ^ (-(53:ℤ))) + (2:ℚ) ^ (-(1075:ℤ)) := by
  have hw0 : (0:ℚ) ≤ (w:ℚ) := by exact_mod_cast (by omega : (0:ℤ) ≤ w)
  have htd : F64.ofInt Gen.MathC.td = .fin false 360 0 := rfl
  obtain ⟨r1, hr1, hf1⟩ := F64.div_fin (decide (w < 0)) false w.natAbs 360 0 0 (by norm_num)
  rw [← ofInt_fin, ← htd] at hr1 hf1
  have hv : (F64.ofInt Gen.MathC.td).val = 360 := by rw [htd, F64.val_fin]; simp
  rw [val_ofInt, hv] at hr1
  have hwq : (w:ℚ) ≤ 2147483648 := by exact_mod_cast (by omega : w ≤ 2147483648)
  have r1fin : |r1| < (2:ℚ) ^ (1024:ℤ) := hr1.lt_huge (by
    rw [abs_le]; constructor
    · have : (0:ℚ) ≤ (w:ℚ) / 360 := by positivity
      have : (0:ℚ) ≤ (2:ℚ) ^ 52 := by positivity
      linarith
    · have e52 : (2:ℚ) ^ 52 = 4503599627370496 := by norm_num
      rw [e52, div_le_iff₀ (by norm_num)]; linarith)
  obtain ⟨_, hvv⟩ := hf1 r1fin
  rw [hvv]
  have he := hr1.err
  have e1 : ((-1074:ℤ) - 1) = -1075 := by norm_num
  rw [e1] at he
  have hz : |(w:ℚ) / 360| = (w:ℚ) / 360 := abs_of_nonneg (by positivity)
  rw [hz] at he
  have h53 : (0:ℚ) < (2:ℚ) ^ (-((53:ℕ):ℤ)) := by positivity
  have h1075 : (0:ℚ) < (2:ℚ) ^ (-(1075:ℤ)) := by positivity
  have hmaxle : max ((w:ℚ) / 360 * (2:ℚ) ^ (-((53:ℕ):ℤ))) ((2:ℚ) ^ (-(1075:ℤ))) ≤ (w:ℚ) / 360 * (2:ℚ) ^ (-((53:ℕ):ℤ)) + (2:ℚ) ^ (-(1075:ℤ)) := by
    apply max_le
    · linarith
    · have : (0:ℚ) ≤ (w:ℚ) / 360 * (2:ℚ) ^ (-((53:ℕ):ℤ)) := by positivity
      linarith
  have := (abs_le.mp (le_trans he hmaxle)).2
  have e53 : (2:ℚ) ^ (-((53:ℕ):ℤ)) = (2:ℚ) ^ (-(53:ℤ)) := by norm_num
  rw [e53] at this
  linarith

/-- with a negative (normalised) west, `east` stays at or below 360 -/
theorem eastOf_val_neg (W E0 : F64) (hW : W.isFinite = true) (hE0 : E0.isFinite = true) (hWn : W.val < 0) (hEb : |E0.val| ≤ 180) :
    (eastOf W E0).val ≤ 360 := by
  unfold eastOf
  have hE' := abs_le.mp hEb
  split
  · rename_i hle
    have hle' := (le_fin_iff E0 W hE0 hW).mp hle
    obtain ⟨s, m, e, rfl⟩ := F64.exists_fin_of_isFinite E0 hE0
    have htd : F64.ofInt Gen.MathC.td = .fin false 360 0 := rfl
    rw [htd]
    obtain ⟨r, hr, hf⟩ := F64.add_fin_isRN s false m 360 e 0
    have hv360 : (F64.fin false 360 0).val = 360 := by rw [F64.val_fin]; simp
    rw [hv360] at hr
    have b2 := hr.le_int 360 (by norm_num) (by push_cast; linarith)
    push_cast at b2
    have hfin : |r| < (2:ℚ) ^ (1024:ℤ) := hr.lt_huge (by rw [abs_le]; constructor <;> norm_num <;> linarith)
    obtain ⟨_, f2⟩ := hf hfin
    rw [f2]; exact b2
  · linarith

/-- when `CacheArea` gets as far as the index arithmetic (south ≤ north, all limits finite after `LatFix` /
    `AngNormalize`) -/
def CacheLimitsOK (south west north east : F64) : Prop :=
  F64.gt south north = false ∧
  ((MathF.latFix south).isFinite && (MathF.latFix north).isFinite && (MathF.angNormalize west).isFinite &&
      (eastOf (MathF.angNormalize west) (MathF.angNormalize east)).isFinite) = true

set_option maxHeartbeats 1000000 in
/-- **the four floors of `CacheArea`** (executed binary64 arithmetic, any limits that pass the finiteness test):
    `⌊west·r⌋ ≤ ⌊east·r⌋`, `⌊−north·r'⌋ ≤ ⌊−south·r'⌋`, `|⌊west·r⌋| ≤ w` (`≤ w − 1` for `w ≥ 4`), `⌊east·r⌋ ≤ 3w/2 + 1`,
    `⌊east·r⌋ − ⌊west·r⌋ ≤ 3w/2 + 2`, and the latitude floors within `±h` -/
theorem cacheFloors_facts (f : File) (h2 : 2 ≤ f.w) (hmax : f.w ≤ 2 ^ 30) (hh : 3 ≤ f.h) (hhmax : f.h ≤ 2 ^ 30)
    (south west north east : F64) (hok : CacheLimitsOK south west north east) :
    (cacheFloors f south west north east).1 ≤ (cacheFloors f south west north east).2.1 ∧
    (cacheFloors f south west north east).2.2.1 ≤ (cacheFloors f south west north east).2.2.2 ∧
    (4 ≤ f.w → -(f.w - 1) ≤ (cacheFloors f south west north east).1 ∧ (cacheFloors f south west north east).1 ≤ f.w - 1) ∧
    (-f.w ≤ (cacheFloors f south west north east).1 ∧ (cacheFloors f south west north east).1 ≤ f.w) ∧
    (cacheFloors f south west north east).2.1 ≤ 3 * f.w / 2 + 1 ∧
    (cacheFloors f south west north east).2.1 - (cacheFloors f south west north east).1 ≤ 3 * f.w / 2 + 2 ∧
    (-f.h ≤ (cacheFloors f south west north east).2.2.1 ∧ (cacheFloors f south west north east).2.2.1 ≤ f.h) ∧
    (-f.h ≤ (cacheFloors f south west north east).2.2.2 ∧ (cacheFloors f south west north east).2.2.2 ≤ f.h) := by
  obtain ⟨hgt, hfin'⟩ := hok
  simp only [cacheFloors]
  simp only [Bool.and_eq_true] at hfin'
  obtain ⟨⟨⟨fS, fN⟩, fW⟩, fE⟩ := hfin'
  obtain ⟨eS, bS⟩ := latFix_fin south fS
  obtain ⟨eN, bN⟩ := latFix_fin north fN
  rw [eS] at fS; rw [eN] at fN
  rw [eS, eN]
  have bW := angNormalize_fin west fW
  have fE0 : (MathF.angNormalize east).isFinite = true := eastOf_fin_inv _ _ fE
  set W := MathF.angNormalize west with hWdef
  have bE0 := angNormalize_fin east fE0
  obtain ⟨_, e1, e2⟩ := eastOf_val W (MathF.angNormalize east) fW fE0 bW bE0
  have e3 : W.val < 0 → (eastOf W (MathF.angNormalize east)).val ≤ 360 := fun hn => eastOf_val_neg W _ fW fE0 hn bE0
  set E := eastOf W (MathF.angNormalize east) with hEdef
  -- the two scale factors
  obtain ⟨fR, r0, r1⟩ := rlonres_val f.w h2 (by omega)
  have r2 := rlonres_fine f.w h2 (by omega)
  obtain ⟨fL, l0, l1⟩ := rlatres_val f.h (by omega) (by omega)
  set R := F64.ofInt f.w / F64.ofInt Gen.MathC.td with hRdef
  set L := F64.ofInt (f.h - 1) / F64.ofInt Gen.MathC.hd with hLdef
  have hwq : (f.w:ℚ) ≤ 1073741824 := by exact_mod_cast hmax
  have hw2q : (2:ℚ) ≤ (f.w:ℚ) := by exact_mod_cast h2
  have hhq : ((f.h - 1 : ℤ):ℚ) ≤ 1073741824 := by exact_mod_cast (by omega : f.h - 1 ≤ 1073741824)
  have hh0 : (2:ℚ) ≤ ((f.h - 1 : ℤ):ℚ) := by exact_mod_cast (by omega : (2:ℤ) ≤ f.h - 1)
  have hW' := abs_le.mp bW
  have hS' := abs_le.mp bS
  have hN' := abs_le.mp bN
  have e52 : (2:ℚ) ^ 52 = 4503599627370496 := by norm_num
  have e53 : (2:ℚ) ^ (-(53:ℤ)) = 1 / 9007199254740992 := by norm_num
  have e1075 : (2:ℚ) ^ (-(1075:ℤ)) ≤ 1 / 9007199254740992 := by
    have : (2:ℚ) ^ (-(1075:ℤ)) ≤ (2:ℚ) ^ (-(53:ℤ)) := zpow_le_zpow_right₀ (by norm_num) (by norm_num)
    rw [e53] at this; exact this
  rw [e53] at r2
  have hEl : -180 ≤ E.val := by linarith
  have pW1 : 0 ≤ (180 - W.val) * R.val := mul_nonneg (by linarith) r0
  have pW2 : 0 ≤ (180 + W.val) * R.val := mul_nonneg (by linarith) r0
  have pE1 : 0 ≤ (540 - E.val) * R.val := mul_nonneg (by linarith) r0
  have pE2 : 0 ≤ (180 + E.val) * R.val := mul_nonneg (by linarith) r0
  have pN1 : 0 ≤ (90 - north.val) * L.val := mul_nonneg (by linarith) l0
  have pN2 : 0 ≤ (90 + north.val) * L.val := mul_nonneg (by linarith) l0
  have pS1 : 0 ≤ (90 - south.val) * L.val := mul_nonneg (by linarith) l0
  have pS2 : 0 ≤ (90 + south.val) * L.val := mul_nonneg (by linarith) l0
  push_cast at l1 hhq hh0
  -- 3w/2 as an integer (w need not be even here: floor)
  have h32 : ((3 * f.w / 2 : ℤ) : ℚ) * 2 + 1 ≥ 3 * (f.w:ℚ) := by
    have : (3 * f.w / 2 : ℤ) * 2 + 1 ≥ 3 * f.w := by omega
    exact_mod_cast this
  -- columns
  have c1 : fl (W * R) ≤ fl (E * R) := by
    apply fl_mul_mono W E R fW fE fR e1 r0
    · rw [abs_le, e52]; constructor <;> linarith
    · rw [abs_le, e52]; constructor <;> linarith
  have c2 : 4 ≤ f.w → -(f.w - 1) ≤ fl (W * R) ∧ fl (W * R) ≤ f.w - 1 := by
    intro h4
    have h4q : (4:ℚ) ≤ (f.w:ℚ) := by exact_mod_cast h4
    apply fl_mul_bounds W R fW fR
    · rw [abs_le]; constructor <;> omega
    · rw [abs_le]; constructor <;> omega
    · push_cast; linarith
    · push_cast; linarith
  have c2' : -f.w ≤ fl (W * R) ∧ fl (W * R) ≤ f.w := by
    apply fl_mul_bounds W R fW fR
    · rw [abs_le]; constructor <;> omega
    · rw [abs_le]; constructor <;> omega
    · push_cast; linarith
    · push_cast; linarith
  have c4 : fl (E * R) ≤ 3 * f.w / 2 + 1 := by
    refine (fl_mul_bounds E R fE fR (-f.w) (3 * f.w / 2 + 1) (by rw [abs_le]; constructor <;> omega) (by rw [abs_le]; constructor <;> omega) ?_ ?_).2
    · push_cast; linarith
    · push_cast; linarith
  have c5 : fl (E * R) - fl (W * R) ≤ 3 * f.w / 2 + 2 := by
    by_cases hWn : W.val < 0
    · have eE := e3 hWn
      have u1 : fl (E * R) ≤ f.w + 1 := by
        refine (fl_mul_bounds E R fE fR (-f.w) (f.w + 1) (by rw [abs_le]; constructor <;> omega) (by rw [abs_le]; constructor <;> omega) ?_ ?_).2
        · push_cast; linarith
        · push_cast; linarith [mul_nonneg (by linarith : (0:ℚ) ≤ 360 - E.val) r0]
      have hhalf : ((f.w / 2 : ℤ) : ℚ) * 2 + 1 ≥ (f.w:ℚ) := by
        have : (f.w / 2 : ℤ) * 2 + 1 ≥ f.w := by omega
        exact_mod_cast this
      have u2 : -(f.w / 2) - 1 ≤ fl (W * R) := by
        refine (fl_mul_bounds W R fW fR (-(f.w / 2) - 1) f.w (by rw [abs_le]; constructor <;> omega) (by rw [abs_le]; constructor <;> omega) ?_ ?_).1
        · push_cast; linarith
        · push_cast; linarith
      omega
    · have u2 : 0 ≤ fl (W * R) := by
        refine (fl_mul_bounds W R fW fR 0 f.w (by norm_num) (by rw [abs_le]; constructor <;> omega) ?_ ?_).1
        · push_cast; linarith [mul_nonneg (by linarith : (0:ℚ) ≤ W.val) r0]
        · push_cast; linarith
      omega
  -- rows
  have hSN : south.val ≤ north.val := by
    by_contra hc
    have := (lt_fin_iff north south fN fS).mpr (not_le.mp hc)
    unfold F64.gt at hgt; rw [this] at hgt; cases hgt
  obtain ⟨fnN, vnN⟩ := neg_val north fN
  obtain ⟨fnS, vnS⟩ := neg_val south fS
  have c3 : fl (F64.neg north * L) ≤ fl (F64.neg south * L) := by
    apply fl_mul_mono _ _ L fnN fnS fL (by rw [vnN, vnS]; linarith) l0
    · rw [vnN, abs_le, e52]; constructor <;> linarith
    · rw [vnS, abs_le, e52]; constructor <;> linarith
  have c6 : -f.h ≤ fl (F64.neg north * L) ∧ fl (F64.neg north * L) ≤ f.h := by
    apply fl_mul_bounds _ L fnN fL
    · rw [abs_le]; constructor <;> omega
    · rw [abs_le]; constructor <;> omega
    · rw [vnN]; push_cast; linarith
    · rw [vnN]; push_cast; linarith
  have c7 : -f.h ≤ fl (F64.neg south * L) ∧ fl (F64.neg south * L) ≤ f.h := by
    apply fl_mul_bounds _ L fnS fL
    · rw [abs_le]; constructor <;> omega
    · rw [abs_le]; constructor <;> omega
    · rw [vnS]; push_cast; linarith
    · rw [vnS]; push_cast; linarith
  exact ⟨c1, c3, c2, c2', c4, c5, c6, c7⟩

/-- a window was produced ⇒ the limits passed the tests -/
theorem cacheWindow_set_limits (f : File) (cubic : Bool) (south west north east : F64) (xo yo xs ys : ℤ)
    (hw : cacheWindow f cubic south west north east = .set xo yo xs ys) :
    CacheLimitsOK south west north east ∧
    (xo, yo, xs, ys) = windowOfIdx f.w f.h cubic (cacheFloors f south west north east).1 (cacheFloors f south west north east).2.1
      (cacheFloors f south west north east).2.2.1 (cacheFloors f south west north east).2.2.2 := by
  unfold cacheWindow at hw
  by_cases hgt : F64.gt south north = true
  · rw [if_pos hgt] at hw; cases hw
  rw [if_neg hgt] at hw
  by_cases hfin : (!((MathF.latFix south).isFinite && (MathF.latFix north).isFinite && (MathF.angNormalize west).isFinite &&
      (eastOf (MathF.angNormalize west) (MathF.angNormalize east)).isFinite)) = true
  · rw [if_pos hfin] at hw; cases hw
  rw [if_neg hfin] at hw
  refine ⟨⟨by simpa using hgt, by simpa using hfin⟩, ?_⟩
  injection hw with a1 a2 a3 a4
  rw [← a1, ← a2, ← a3, ← a4]

/-- **the two floors of `Geoid::height`** for every position that is not NaN after `LatFix` / `AngNormalize`:
    `|⌊lon·rlonres⌋| ≤ w`, `|⌊−lat·rlatres⌋| ≤ h` (so the conversions `int(floor(·))` are defined) -/
theorem heightFloors_facts (f : File) (h2 : 2 ≤ f.w) (hmax : f.w ≤ 2 ^ 30) (hh : 3 ≤ f.h) (hhmax : f.h ≤ 2 ^ 30) (lat lon : F64)
    (hlat : (MathF.latFix lat).isNaN = false) (hlon : (MathF.angNormalize lon).isNaN = false) :
    (-f.w ≤ fl (MathF.angNormalize lon * (F64.ofInt f.w / F64.ofInt Gen.MathC.td)) ∧
      fl (MathF.angNormalize lon * (F64.ofInt f.w / F64.ofInt Gen.MathC.td)) ≤ f.w) ∧
    (-f.h ≤ fl (F64.neg (MathF.latFix lat) * (F64.ofInt (f.h - 1) / F64.ofInt Gen.MathC.hd)) ∧
      fl (F64.neg (MathF.latFix lat) * (F64.ofInt (f.h - 1) / F64.ofInt Gen.MathC.hd)) ≤ f.h) := by
  -- both are finite
  have fLon : (MathF.angNormalize lon).isFinite = true := by
    have hlf : lon.isFinite = true := by
      by_contra hc
      have := Props.C16.angNormalize_nonfinite lon (by simpa using hc)
      rw [this] at hlon; cases hlon
    obtain ⟨s, m, e, rfl⟩ := F64.exists_fin_of_isFinite lon hlf
    exact (Props.C16.angNormalize_spec s m e).1
  have fLat : (MathF.latFix lat).isFinite = true := by
    obtain ⟨h1, _⟩ := Props.C16.latFix_spec lat
    rcases h1 with h1 | h1
    · rw [h1] at hlat ⊢
      cases lat with
      | nan => simp [F64.isNaN] at hlat
      | fin s m e => rfl
      | inf s =>
        exfalso
        have : MathF.latFix (F64.inf s) = F64.nan := by unfold MathF.latFix; cases s <;> rfl
        rw [this] at h1; cases h1
    · rw [h1] at hlat; cases hlat
  have bLon := angNormalize_fin lon fLon
  obtain ⟨eL, bLat⟩ := latFix_fin lat fLat
  rw [eL] at fLat ⊢
  obtain ⟨fn, vn⟩ := neg_val lat fLat
  obtain ⟨fR, r0, r1⟩ := rlonres_val f.w h2 (by omega)
  obtain ⟨fL, l0, l1⟩ := rlatres_val f.h (by omega) (by omega)
  set R := F64.ofInt f.w / F64.ofInt Gen.MathC.td
  set L := F64.ofInt (f.h - 1) / F64.ofInt Gen.MathC.hd
  set X := MathF.angNormalize lon
  have hX := abs_le.mp bLon
  have hY := abs_le.mp bLat
  have hwq : (f.w:ℚ) ≤ 1073741824 := by exact_mod_cast hmax
  have hw2q : (2:ℚ) ≤ (f.w:ℚ) := by exact_mod_cast h2
  have hhq : ((f.h - 1 : ℤ):ℚ) ≤ 1073741824 := by exact_mod_cast (by omega : f.h - 1 ≤ 1073741824)
  have hh0 : (2:ℚ) ≤ ((f.h - 1 : ℤ):ℚ) := by exact_mod_cast (by omega : (2:ℤ) ≤ f.h - 1)
  push_cast at l1 hhq hh0
  have p1 : 0 ≤ (180 - X.val) * R.val := mul_nonneg (by linarith) r0
  have p2 : 0 ≤ (180 + X.val) * R.val := mul_nonneg (by linarith) r0
  have p3 : 0 ≤ (90 - lat.val) * L.val := mul_nonneg (by linarith) l0
  have p4 : 0 ≤ (90 + lat.val) * L.val := mul_nonneg (by linarith) l0
  constructor
  · apply fl_mul_bounds X R fLon fR
    · rw [abs_le]; constructor <;> omega
    · rw [abs_le]; constructor <;> omega
    · push_cast; linarith
    · push_cast; linarith
  · apply fl_mul_bounds _ L fn fL
    · rw [abs_le]; constructor <;> omega
    · rw [abs_le]; constructor <;> omega
    · rw [vn]; push_cast; linarith
    · rw [vn]; push_cast; linarith

end Geoid
end GeoVerif
