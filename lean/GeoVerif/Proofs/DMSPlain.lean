import GeoVerif.Proofs.DMSGrammar
/-!
# `Decode` on a plain single-piece text: the substitution table, trimming and splitting do nothing

For a text over plain ASCII (no `*`, no grave accent, no high-bit byte, no white space, at most one `'`) whose only sign
is a leading one, `decode` is `strip`, `comps`, `evalSlots` and one addition to `-0`.
-/
namespace GeoVerif.DMSProofs
open GeoVerif GeoVerif.DMS GeoVerif.Gen GeoVerif.Decimal

/-! ## `replaceAll` -/

theorem replaceGo_noop (pat : Bytes) (c : Nat) (fuel : Nat) (s : Bytes)
    (h : ∀ t, t <:+ s → pat.isPrefixOf t = false) : replaceGo pat c fuel s = s := by
  induction fuel generalizing s with
  | zero => rfl
  | succ f ih =>
    have h0 := h s (List.suffix_refl s)
    unfold replaceGo
    simp only [h0, Bool.false_eq_true, if_false]
    cases s with
    | nil => rfl
    | cons x t =>
      simp only
      rw [ih t (fun u hu => h u (hu.trans (List.suffix_cons x t)))]

theorem replace1_noop (pat : Bytes) (c : Nat) (s : Bytes) (h : ∀ t, t <:+ s → pat.isPrefixOf t = false) :
    replace1 pat c s = s := by
  unfold replace1
  split
  · rfl
  · exact replaceGo_noop pat c _ s h

theorem foldl_replace_noop (tbl : List (Bytes × Nat)) (s : Bytes) (h : ∀ pc ∈ tbl, replace1 pc.1 pc.2 s = s) :
    tbl.foldl (fun acc pc => replace1 pc.1 pc.2 acc) s = s := by
  induction tbl with
  | nil => rfl
  | cons pc tl ih =>
    simp only [List.foldl_cons]
    rw [h pc (by simp)]
    exact ih (fun q hq => h q (by simp [hq]))

theorem isPrefixOf_false_of_head (a : Nat) (rest t : Bytes) (ha : a ∉ t) : (a :: rest).isPrefixOf t = false := by
  cases t with
  | nil => rfl
  | cons b u =>
    have : a ≠ b := by intro e; subst e; simp at ha
    simp [List.isPrefixOf, this]

/-- the first byte of a pattern is a high-bit byte, `*` or the grave accent -/
def headBad (pat : Bytes) : Bool :=
  match pat with
  | a :: _ => decide (128 ≤ a) || a == 42 || a == 96
  | [] => false

/-- every pattern of the substitution table of `DMS::Decode` starts with a non-ASCII byte, `*` or a grave accent,
    except `''` (two minute marks) -/
theorem table_heads : ∀ pc ∈ DMSC.replaceTable, pc.1 = [39, 39] ∨ headBad pc.1 = true := by decide +kernel

theorem dbl_not_prefix (s : Bytes) (h39 : s.count 39 ≤ 1) (t : Bytes) (ht : t <:+ s) : [39, 39].isPrefixOf t = false := by
  cases hp : [39, 39].isPrefixOf t with
  | false => rfl
  | true =>
    exfalso
    have hpre : [39, 39] <+: t := List.isPrefixOf_iff_prefix.mp hp
    have h1 : [39, 39].count 39 ≤ t.count 39 := hpre.sublist.count_le 39
    have h2 : t.count 39 ≤ s.count 39 := ht.sublist.count_le 39
    have : [39, 39].count 39 = 2 := by decide
    omega

/-- **the substitution table leaves plain text alone** -/
theorem replaceAll_noop (s : Bytes) (hA : ∀ c ∈ s, c < 128 ∧ c ≠ 42 ∧ c ≠ 96) (h39 : s.count 39 ≤ 1) : replaceAll s = s := by
  unfold replaceAll
  apply foldl_replace_noop
  intro pc hpc
  apply replace1_noop
  intro t ht
  rcases table_heads pc hpc with h | h
  · rw [h]; exact dbl_not_prefix s h39 t ht
  · rcases hp : pc.1 with _ | ⟨a, rest⟩
    · rw [hp] at h; simp [headBad] at h
    · rw [hp] at h
      simp only [headBad, Bool.or_eq_true, decide_eq_true_eq, beq_iff_eq] at h
      apply isPrefixOf_false_of_head
      intro ha
      have := hA a (ht.subset ha)
      omega

/-! ## `trim` -/

theorem trim_noop (s : Bytes) (h : ∀ c ∈ s, isspace c = false) : trim s = s := by
  have hd : ∀ l : Bytes, (∀ c ∈ l, isspace c = false) → l.dropWhile isspace = l := by
    intro l hl
    cases l with
    | nil => rfl
    | cons a t => simp [hl a (by simp)]
  unfold trim
  rw [hd s h, hd s.reverse (fun c hc => h c (List.mem_reverse.mp hc)), List.reverse_reverse]

/-! ## `pieces` -/

theorem takeWhile_all (p : Nat → Bool) (l : Bytes) (h : ∀ x ∈ l, p x = true) : l.takeWhile p = l := by
  induction l with
  | nil => rfl
  | cons a t ih =>
    rw [List.takeWhile_cons, h a (by simp)]
    simp only [if_true]
    rw [ih (fun x hx => h x (by simp [hx]))]

/-- a text whose only sign character is (possibly) its first character and that does not start with a hemisphere
    letter is a single piece -/
theorem pieces_single (c : Nat) (t : Bytes) (hh : isHemi c = false) (ht : ∀ x ∈ t, isSignRaw x = false)
    (hc : isSign c = true ∨ isSignRaw c = false) (fuel : Nat) :
    pieces (fuel + 2) true (c :: t) = [c :: t] := by
  have hlen : pieceLen true (c :: t) = (c :: t).length := by
    unfold pieceLen
    simp only [List.head?_cons, hh, Bool.and_false, Bool.false_eq_true, if_false, List.drop_zero, Bool.not_true,
      Bool.false_or]
    by_cases hs : isSign c = true
    · simp only [hs, if_true, Nat.zero_add, List.drop_succ_cons, List.drop_zero]
      rw [takeWhile_all _ t (by intro x hx; simp [ht x hx])]
      simp only [List.length_cons]; omega
    · have hs' : isSign c = false := by simpa using hs
      have hraw : isSignRaw c = false := by rcases hc with h | h; exact absurd h hs; exact h
      simp only [hs', Bool.false_eq_true, if_false, List.drop_zero]
      rw [takeWhile_all _ (c :: t) (by
        intro x hx
        rcases List.mem_cons.mp hx with rfl | hx
        · simp [hraw]
        · simp [ht x hx])]
      omega
  unfold pieces
  simp only [List.isEmpty_cons, Bool.false_eq_true, if_false]
  rw [hlen]
  have : max 1 (min (c :: t).length (c :: t).length) = (c :: t).length := by simp only [List.length_cons]; omega
  rw [this, List.take_length, List.drop_length]
  unfold pieces
  simp

/-! ## `decode` -/

theorem add_nzero_def (v : F64) : F64.add F64.nzero v = F64.add F64.nzero v := rfl

/-- **`Decode` of a plain single-piece text** is the discrete stage, the numeric stage and one addition to `-0` -/
theorem decode_plain (s : Bytes) (st : Stripped) (sl : Slots) (v : F64)
    (hA : ∀ c ∈ s, c < 128 ∧ c ≠ 42 ∧ c ≠ 96 ∧ isspace c = false) (h39 : s.count 39 ≤ 1)
    (hhead : ∃ c t, s = c :: t ∧ isHemi c = false ∧ (∀ x ∈ t, isSignRaw x = false) ∧ (isSign c = true ∨ isSignRaw c = false))
    (hstrip : strip s = .ok st) (hc : comps 4 0 {} st.body = .ok sl) (hv : evalSlots st.neg sl = .ok v) :
    decode s = .ok (F64.add F64.nzero v, st.flag) := by
  obtain ⟨c, t, rfl, hh, ht, hcs⟩ := hhead
  have hr : replaceAll (c :: t) = c :: t := replaceAll_noop _ (fun x hx => ⟨(hA x hx).1, (hA x hx).2.1, (hA x hx).2.2.1⟩) h39
  have htr : trim (c :: t) = c :: t := trim_noop _ (fun x hx => (hA x hx).2.2.2)
  have hp : pieces ((c :: t).length + 1) true (c :: t) = [c :: t] := by
    simp only [List.length_cons]
    exact pieces_single c t hh ht hcs t.length
  have hi : internalDecode (c :: t) = .ok (v, st.flag) := by
    unfold internalDecode parseFields
    simp only [hstrip, hc, hv]
  unfold decode
  simp only [hr, htr, hp, List.isEmpty_cons, Bool.false_eq_true, if_false]
  simp only [sumPieces, hi, combineFlags, if_true]

end GeoVerif.DMSProofs
