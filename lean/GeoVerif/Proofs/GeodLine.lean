import GeoVerif.Model.GeodLine
import GeoVerif.Series.GeodSeries
import GeoVerif.Spec.RealInst
import Mathlib.Tactic.Ring
import Mathlib.Tactic.Linarith
import Mathlib.Tactic.FieldSimp
import Mathlib.Tactic.NormNum
import Mathlib.Tactic.Positivity
import Mathlib.Tactic.LinearCombination
/-!
# Lemmas about the real reading of `Model/GeodLine.lean` (used by `Props/C01.lean`, `Props/C03.lean`)
-/
namespace GeoVerif.Proofs.GeodLine
open GeoVerif GeoVerif.Series GeoVerif.Series.Geod GeoVerif.Clenshaw GeoVerif.GeodLengths GeoVerif.GeodLine Real

/-- value of a coefficient list (lowest power first) at a real point -/
noncomputable def evalQ (p : List Rat) (x : ℝ) : ℝ := p.foldr (fun c acc => (c : ℝ) + x * acc) 0

theorem ofRat_real (q : ℚ) : (ofRat q : ℝ) = (q : ℝ) := by
  unfold ofRat
  simp only [ofNat_real]
  have key : ((q.num.natAbs : ℕ) : ℝ) = |(q.num:ℝ)| := by
    rw [← Int.cast_abs, Int.abs_eq_natAbs]; simp
  have hn : (if q.num < 0 then -((q.num.natAbs : ℕ) : ℝ) else ((q.num.natAbs : ℕ) : ℝ)) = (q.num : ℝ) := by
    rw [key]
    split_ifs with h
    · have : (q.num:ℝ) < 0 := by exact_mod_cast h
      rw [abs_of_neg this]; ring
    · have : (0:ℝ) ≤ q.num := by exact_mod_cast (not_lt.mp h)
      rw [abs_of_nonneg this]
  rw [hn, Rat.cast_def]
  split_ifs with h
  · rw [h]; simp
  · rfl

theorem norm2_unit (x y : ℝ) (h : x ≠ 0 ∨ y ≠ 0) : (norm2 x y).1 ^ 2 + (norm2 x y).2 ^ 2 = 1 := by
  unfold norm2
  simp only [hypot_real]
  have hp : 0 < x ^ 2 + y ^ 2 := by
    rcases h with h | h
    · have := sq_pos_of_ne_zero h; positivity
    · have := sq_pos_of_ne_zero h; positivity
  have hs : Real.sqrt (x ^ 2 + y ^ 2) ^ 2 = x ^ 2 + y ^ 2 := Real.sq_sqrt hp.le
  have hne : Real.sqrt (x ^ 2 + y ^ 2) ≠ 0 := (Real.sqrt_pos.mpr hp).ne'
  rw [div_pow, div_pow, ← add_div, hs]
  exact div_self hp.ne'

theorem csig1p_ne (sbet1 cbet1 calp1 : ℝ) (hc : 0 < cbet1) (hs : sbet1 = 0) :
    (if !(RealLike.eqb sbet1 0) || !(RealLike.eqb calp1 0) then cbet1 * calp1 else (1 : ℝ)) ≠ 0 := by
  by_cases h : calp1 = 0
  · simp [hs, h]
  · simp [hs, h, hc.ne']

/-- the arc returned by the head of `GenPosition` has a unit (sin, cos) pair: by construction in distance mode,
    and in arc mode when the `sincosd` kernel returns a unit pair -/
theorem arcOf_unit (L : Line ℝ) (arcmode : Bool) (s sk ck : ℝ) (hk : arcmode = true → sk ^ 2 + ck ^ 2 = 1) :
    (arcOf L arcmode s sk ck).2.1 ^ 2 + (arcOf L arcmode s sk ck).2.2.1 ^ 2 = 1 := by
  unfold arcOf
  cases arcmode with
  | true => simpa using hk rfl
  | false =>
    simp only [Bool.false_eq_true, if_false, sin_real, cos_real]
    split_ifs <;> exact Real.sin_sq_add_cos_sq _

/-- `cos σ2` before the degenerate case `cbet2 = 0` is patched -/
noncomputable def csig2pre (L : Line ℝ) (arcmode : Bool) (s sk ck : ℝ) : ℝ :=
  L.csig1 * (arcOf L arcmode s sk ck).2.2.1 - L.ssig1 * (arcOf L arcmode s sk ck).2.1
noncomputable def ssig2of (L : Line ℝ) (arcmode : Bool) (s sk ck : ℝ) : ℝ :=
  L.ssig1 * (arcOf L arcmode s sk ck).2.2.1 + L.csig1 * (arcOf L arcmode s sk ck).2.1
/-- the end point is not the degenerate one (`salp0 = 0` and `csig2 = 0`: a meridional line arriving exactly at a pole) -/
def NonDegenerate (L : Line ℝ) (arcmode : Bool) (s sk ck : ℝ) : Prop :=
  RealLike.hypot L.salp0 (L.calp0 * csig2pre L arcmode s sk ck) ≠ 0

theorem genpos_nd (L : Line ℝ) (arcmode : Bool) (s sk ck : ℝ) (un : Bool) (hnd : NonDegenerate L arcmode s sk ck) :
    let P := genPosition L arcmode s sk ck un
    P.ssig2 = ssig2of L arcmode s sk ck ∧ P.csig2 = csig2pre L arcmode s sk ck ∧
    P.cbet2 = RealLike.hypot L.salp0 (L.calp0 * csig2pre L arcmode s sk ck) ∧
    P.calp2 = L.calp0 * csig2pre L arcmode s sk ck ∧ P.salp2 = L.salp0 ∧ P.sbet2 = L.calp0 * ssig2of L arcmode s sk ck := by
  intro P
  unfold NonDegenerate at hnd
  refine ⟨rfl, ?_, ?_, ?_, rfl, rfl⟩
  · show (if RealLike.eqb _ _ = true then L.tiny else csig2pre L arcmode s sk ck) = _
    simp only [eqb_real, lit_real, Nat.cast_zero, decide_eq_true_eq]
    exact if_neg hnd
  · show (if RealLike.eqb _ _ = true then L.tiny else RealLike.hypot L.salp0 (L.calp0 * csig2pre L arcmode s sk ck)) = _
    simp only [eqb_real, lit_real, Nat.cast_zero, decide_eq_true_eq]
    exact if_neg hnd
  · show L.calp0 * (if RealLike.eqb _ _ = true then L.tiny else csig2pre L arcmode s sk ck) = _
    simp only [eqb_real, lit_real, Nat.cast_zero, decide_eq_true_eq]
    rw [if_neg (by exact hnd)]


/-- a concrete line for the non-vacuity examples: the equator of the unit sphere, eastwards from longitude 0 -/
noncomputable def exLine : Line ℝ :=
  { f := 0, f1 := 1, b := 1, c2 := 1, tiny := 1 / 1000, lon1 := 0, salp1 := 1, calp1 := 0, dn1 := 1, salp0 := 1, calp0 := 0,
    ssig1 := 0, csig1 := 1, somg1 := 0, comg1 := 1, k2 := 0, A1m1 := a1m1f 0, B11 := sinCosSeries true 0 1 (c1f 0), stau1 := 0, ctau1 := 1,
    A2m1 := a2m1f 0, B21 := sinCosSeries true 0 1 (c2f 0), A3c := 0, B31 := 0, A4 := 0, B41 := 0,
    C1a := c1f 0, C1pa := [], C2a := c2f 0, C3a := [], C4a := [] }

theorem exLine_nd (arcmode : Bool) (s sk ck : ℝ) : NonDegenerate exLine arcmode s sk ck := by
  unfold NonDegenerate
  simp [exLine, hypot_real]

end GeoVerif.Proofs.GeodLine
