import GeoVerif.Proofs.F64Val
import Mathlib.Tactic.Ring
import Mathlib.Tactic.Linarith
import Mathlib.Tactic.Positivity
/-!
# Rounding theory of `Dy.roundTo` / `Dy.round53` over the value semantics `Dy.val`

`roundTo p emin x` keeps `p` significant bits with last-bit exponent at least `emin`,
ties to even.  Everything here is about the *same* definition the driver executes
(`FP/Dy.lean`); nothing is re-defined.

Main results (all for arbitrary `p ≥ 1`, `emin`):

* `roundTo_spec`      – the result is `k·2^t` (`t = tExp p emin x` the exponent of the last kept bit)
                        within half a unit of `2^t` of `x`, with `k` even on a tie;
* `roundTo_exact`, `roundTo_idem`, `roundTo_neg`;
* `roundTo_halfulp`   – `|rnd x − x| ≤ 2^(t−1)`;
* `round53_relerr`    – `|round53 x − x| ≤ |x|·2^(−53)` without subnormal clamping;
* `roundTo_mono`      – monotonicity;
* `roundTo_no_cross`  – rounding never crosses a point of the grid `2^t ℤ`;
* `round53_int`, `le_round53_of_int_le`, `round53_le_of_le_int`.
-/
namespace GeoVerif.Dy

/-! ## natural-number core: shifting and round-half-even of `a / 2^sh` -/

/-- `2^(L−1) ≤ a < 2^L` for `L = blen a`, `a ≠ 0` -/
theorem blen_bounds (a : ℕ) (ha : a ≠ 0) : 2 ^ (blen a - 1) ≤ a ∧ a < 2 ^ blen a ∧ 1 ≤ blen a := by
  unfold blen
  rw [if_neg ha]
  exact ⟨by simpa using Nat.log2_self_le ha, Nat.lt_log2_self, by omega⟩

/-- the integer kept by `roundTo`: round-half-even of `a / 2^sh` exactly as coded -/
def rneNat (a sh : ℕ) : ℕ :=
  let q := a >>> sh
  let r := a - (q <<< sh)
  let half := (1 : ℕ) <<< (sh - 1)
  if r > half ∨ (r = half ∧ q % 2 = 1) then q + 1 else q

/-- half-unit bound and ties-to-even for `rneNat` (integer form, `sh ≥ 1`) -/
theorem rneNat_spec (a sh : ℕ) (hsh : 1 ≤ sh) :
    -(2:ℤ) ^ sh ≤ 2 * (((rneNat a sh : ℕ) : ℤ) * 2 ^ sh - a) ∧
    2 * (((rneNat a sh : ℕ) : ℤ) * 2 ^ sh - a) ≤ (2:ℤ) ^ sh ∧
    ((2 * (((rneNat a sh : ℕ) : ℤ) * 2 ^ sh - a) = (2:ℤ) ^ sh ∨
      2 * (((rneNat a sh : ℕ) : ℤ) * 2 ^ sh - a) = -(2:ℤ) ^ sh) → rneNat a sh % 2 = 0) := by
  unfold rneNat
  simp only [Nat.shiftRight_eq_div_pow, Nat.shiftLeft_eq, Nat.one_mul]
  have hP : (2:ℕ) ^ sh = 2 * 2 ^ (sh - 1) := by
    conv_lhs => rw [show sh = (sh - 1) + 1 by omega]
    rw [Nat.pow_succ]; ring
  have hdm := Nat.div_add_mod a (2 ^ sh)
  have hlt := Nat.mod_lt a (show 0 < 2 ^ sh by positivity)
  have hPz : ((2:ℤ) ^ sh) = ((2 ^ sh : ℕ) : ℤ) := by push_cast; rfl
  rw [hPz]
  generalize 2 ^ (sh - 1) = H at *
  generalize 2 ^ sh = P at *
  generalize a / P = q at *
  generalize a % P = r at *
  have hqP : P * q = q * P := Nat.mul_comm _ _
  generalize hqp : q * P = qP at *
  have hsub : a - qP = r := by omega
  rw [hsub]
  split
  · have : (((q + 1 : ℕ) : ℤ) * (P : ℤ)) = (qP : ℤ) + P := by
      rw [← hqp]; push_cast; ring
    rw [this]
    omega
  · have : (((q : ℕ) : ℤ) * (P : ℤ)) = (qP : ℤ) := by rw [← hqp]; push_cast; rfl
    rw [this]
    omega

/-! ## `roundTo` through `rneNat` -/

/-- exponent of the last kept bit: `max (e + bitlength − p) emin` -/
def tExp (p : ℕ) (emin : ℤ) (x : Dy) : ℤ := max (x.e + (blen x.m.natAbs : ℤ) - p) emin

theorem roundTo_zero (p : ℕ) (emin : ℤ) (x : Dy) (hm : x.m = 0) : roundTo p emin x = ⟨0, 0⟩ := by
  unfold roundTo; simp [hm]

theorem roundTo_unfold (p : ℕ) (emin : ℤ) (x : Dy) (hm : x.m ≠ 0) :
    roundTo p emin x = if tExp p emin x ≤ x.e then x else
      ⟨(if x.m < 0 then -((rneNat x.m.natAbs (tExp p emin x - x.e).toNat : ℕ) : ℤ)
        else ((rneNat x.m.natAbs (tExp p emin x - x.e).toNat : ℕ) : ℤ)), tExp p emin x⟩ := by
  unfold roundTo
  simp only []
  rw [if_neg (by simpa using hm)]
  rfl

/-- (a) a value that already fits is returned unchanged -/
theorem roundTo_exact (p : ℕ) (emin : ℤ) (x : Dy) (hm : x.m ≠ 0) (h : tExp p emin x ≤ x.e) :
    roundTo p emin x = x := by
  rw [roundTo_unfold p emin x hm, if_pos h]

theorem two_zpow_split (a b : ℤ) : (2:ℚ) ^ (a + b) = (2:ℚ) ^ a * (2:ℚ) ^ b :=
  zpow_add₀ (by norm_num) a b

/-- **specification of `roundTo`**: the result is `k·2^t`, within half of `2^t` of `x`, `k` even on a tie,
    and `k` has the sign of `x`. -/
theorem roundTo_spec (p : ℕ) (emin : ℤ) (x : Dy) (hm : x.m ≠ 0) :
    ∃ k : ℤ, (roundTo p emin x).val = k * (2:ℚ) ^ tExp p emin x ∧
      2 * |(roundTo p emin x).val - x.val| ≤ (2:ℚ) ^ tExp p emin x ∧
      (2 * |(roundTo p emin x).val - x.val| = (2:ℚ) ^ tExp p emin x → k % 2 = 0) ∧
      (0 < x.m → 0 ≤ k) ∧ (x.m < 0 → k ≤ 0) := by
  rw [roundTo_unfold p emin x hm]
  set t := tExp p emin x with ht
  have htp := two_zpow_pos t
  by_cases h : t ≤ x.e
  · rw [if_pos h]
    refine ⟨x.m * 2 ^ (x.e - t).toNat, ?_, ?_, ?_, ?_, ?_⟩
    · unfold val
      have : (2:ℚ) ^ x.e = (2:ℚ) ^ (x.e - t).toNat * (2:ℚ) ^ t := by
        rw [← zpow_natCast, ← two_zpow_split]; congr 1
        rw [Int.toNat_of_nonneg (by omega)]; ring
      rw [this]; push_cast; ring
    · simp; exact htp.le
    · intro h2; simp at h2; exact absurd h2.symm htp.ne'
    · intro h2; positivity
    · intro h2
      have : (0:ℤ) ≤ 2 ^ (x.e - t).toNat := by positivity
      exact Int.mul_nonpos_of_nonpos_of_nonneg h2.le this
  · rw [if_neg h]
    set sh := (t - x.e).toNat with hsh
    have hsh1 : 1 ≤ sh := by omega
    obtain ⟨h1, h2, h3⟩ := rneNat_spec x.m.natAbs sh hsh1
    set q := rneNat x.m.natAbs sh with hq
    have hte : (2:ℚ) ^ t = (2:ℚ) ^ sh * (2:ℚ) ^ x.e := by
      rw [← zpow_natCast, ← two_zpow_split]; congr 1
      rw [hsh, Int.toNat_of_nonneg (by omega)]; ring
    have hep := two_zpow_pos x.e
    -- the integer error `d = q·2^sh − a`
    set d : ℤ := (q : ℤ) * 2 ^ sh - (x.m.natAbs : ℤ) with hd
    have hd1 : -((2:ℚ) ^ sh) ≤ 2 * (d : ℚ) := by exact_mod_cast h1
    have hd2 : 2 * (d : ℚ) ≤ (2:ℚ) ^ sh := by exact_mod_cast h2
    have habs : 2 * |(d:ℚ)| ≤ (2:ℚ) ^ sh := by
      rcases abs_cases (d:ℚ) with ⟨e1, _⟩ | ⟨e1, _⟩ <;> rw [e1] <;> linarith
    have hdq : (d : ℚ) = (q:ℚ) * (2:ℚ) ^ sh - ((x.m.natAbs : ℤ) : ℚ) := by
      rw [hd]; simp only [Int.cast_sub, Int.cast_mul, Int.cast_pow, Int.cast_natCast, Int.cast_ofNat]
    have hna : ((x.m.natAbs : ℤ) : ℚ) = |(x.m : ℚ)| := by rw [Int.natCast_natAbs]; push_cast; rfl
    have key : ∀ s : ℚ, (s = 1 ∨ s = -1) → (x.m : ℚ) = s * ((x.m.natAbs : ℤ) : ℚ) →
        2 * |s * (q:ℚ) * (2:ℚ) ^ t - x.m * (2:ℚ) ^ x.e| ≤ (2:ℚ) ^ t ∧
        (2 * |s * (q:ℚ) * (2:ℚ) ^ t - x.m * (2:ℚ) ^ x.e| = (2:ℚ) ^ t → q % 2 = 0) := by
      intro s hs hms
      have e1 : s * (q:ℚ) * (2:ℚ) ^ t - x.m * (2:ℚ) ^ x.e = s * ((d:ℚ) * (2:ℚ) ^ x.e) := by
        rw [hte, hms, hdq]; ring
      have e2 : |s * ((d:ℚ) * (2:ℚ) ^ x.e)| = |(d:ℚ)| * (2:ℚ) ^ x.e := by
        rw [abs_mul, abs_mul, abs_of_pos hep]
        rcases hs with rfl | rfl <;> simp
      rw [e1, e2, hte]
      constructor
      · nlinarith
      · intro heq
        have h4 : 2 * |(d:ℚ)| = (2:ℚ) ^ sh := by
          have : (2 * |(d:ℚ)| - (2:ℚ) ^ sh) * (2:ℚ) ^ x.e = 0 := by linarith
          rcases mul_eq_zero.mp this with h5 | h5
          · linarith
          · exact absurd h5 hep.ne'
        apply h3
        rcases abs_cases (d:ℚ) with ⟨e3, _⟩ | ⟨e3, _⟩
        · left; rw [e3] at h4; exact_mod_cast h4
        · right; rw [e3] at h4
          have : 2 * (d:ℚ) = -((2:ℚ) ^ sh) := by linarith
          exact_mod_cast this
    by_cases hneg : x.m < 0
    · simp only [hneg, if_true]
      have hms : (x.m : ℚ) = (-1) * ((x.m.natAbs : ℤ) : ℚ) := by
        rw [hna, abs_of_neg (by exact_mod_cast hneg)]; ring
      obtain ⟨k1, k2⟩ := key (-1) (Or.inr rfl) (by simpa using hms)
      refine ⟨-(q:ℤ), ?_, ?_, ?_, ?_, ?_⟩
      · unfold val; push_cast; ring
      · unfold val; simp only []; push_cast
        have : -(q:ℚ) * (2:ℚ) ^ t = (-1) * (q:ℚ) * (2:ℚ) ^ t := by ring
        rw [this]; exact k1
      · unfold val; simp only []; push_cast
        have : -(q:ℚ) * (2:ℚ) ^ t = (-1) * (q:ℚ) * (2:ℚ) ^ t := by ring
        rw [this]; intro h5; have := k2 h5; omega
      · intro h5; omega
      · intro _; exact Int.neg_nonpos_of_nonneg (Int.natCast_nonneg _)
    · simp only [hneg, if_false]
      have hms : (x.m : ℚ) = 1 * ((x.m.natAbs : ℤ) : ℚ) := by
        rw [hna, abs_of_nonneg (by exact_mod_cast (not_lt.mp hneg))]; ring
      obtain ⟨k1, k2⟩ := key 1 (Or.inl rfl) (by simpa using hms)
      refine ⟨(q:ℤ), ?_, ?_, ?_, ?_, ?_⟩
      · unfold val; push_cast; ring
      · unfold val; simp only []; push_cast
        have : (q:ℚ) * (2:ℚ) ^ t = 1 * (q:ℚ) * (2:ℚ) ^ t := by ring
        rw [this]; exact k1
      · unfold val; simp only []; push_cast
        have : (q:ℚ) * (2:ℚ) ^ t = 1 * (q:ℚ) * (2:ℚ) ^ t := by ring
        rw [this]; intro h5; have := k2 h5; omega
      · intro _; exact Int.natCast_nonneg _
      · intro h5; first | exact absurd h5 hneg | exact h5.elim

theorem val_of_m_zero (x : Dy) (h : x.m = 0) : x.val = 0 := (m_zero_iff x).mp h

theorem roundTo_val_zero (p : ℕ) (emin : ℤ) (x : Dy) (hm : x.m = 0) : (roundTo p emin x).val = 0 := by
  rw [roundTo_zero p emin x hm]; simp [val]

/-- `roundTo` commutes with negation (structurally) -/
theorem roundTo_neg (p : ℕ) (emin : ℤ) (x : Dy) : roundTo p emin (neg x) = neg (roundTo p emin x) := by
  by_cases hm : x.m = 0
  · rw [roundTo_zero p emin x hm, roundTo_zero p emin (neg x) (by simp [neg, hm])]; rfl
  · have hm' : (neg x).m ≠ 0 := by simp [neg, hm]
    have ht : tExp p emin (neg x) = tExp p emin x := by simp [tExp, neg]
    rw [roundTo_unfold p emin x hm, roundTo_unfold p emin (neg x) hm', ht]
    have he : (neg x).e = x.e := rfl
    have hna : (neg x).m.natAbs = x.m.natAbs := by simp [neg]
    rw [he, hna]
    by_cases h : tExp p emin x ≤ x.e
    · rw [if_pos h, if_pos h]
    · rw [if_neg h, if_neg h]
      have hnm : (neg x).m = - x.m := rfl
      rw [hnm]
      unfold neg
      by_cases h1 : x.m < 0
      · have h2 : ¬ (-x.m < 0) := by omega
        rw [if_pos h1, if_neg h2, Int.neg_neg]
      · have h2 : -x.m < 0 := by omega
        rw [if_neg h1, if_pos h2]

/-- (b) **half-ulp bound**: `|rnd x − x| ≤ 2^(t−1)`, `t` the exponent of the last kept bit -/
theorem roundTo_halfulp (p : ℕ) (emin : ℤ) (x : Dy) (hm : x.m ≠ 0) :
    |(roundTo p emin x).val - x.val| ≤ (2:ℚ) ^ (tExp p emin x - 1) := by
  obtain ⟨k, _, h2, _⟩ := roundTo_spec p emin x hm
  have : (2:ℚ) ^ (tExp p emin x) = (2:ℚ) ^ (tExp p emin x - 1) * 2 := by
    have := two_zpow_split (tExp p emin x - 1) 1
    rw [show tExp p emin x - 1 + 1 = tExp p emin x by ring] at this
    rw [this]; norm_num
  linarith

/-! ## binade of a dyadic: `2^(bexp−1) ≤ |x| < 2^bexp` -/

/-- binade exponent `e + bitlength` -/
def bexp (x : Dy) : ℤ := x.e + (blen x.m.natAbs : ℤ)

theorem tExp_eq (p : ℕ) (emin : ℤ) (x : Dy) : tExp p emin x = max (bexp x - p) emin := rfl

theorem abs_val (x : Dy) : |x.val| = (x.m.natAbs : ℚ) * (2:ℚ) ^ x.e := by
  unfold val
  rw [abs_mul, abs_of_pos (two_zpow_pos x.e)]
  congr 1
  rw [← Int.cast_abs, Int.abs_eq_natAbs]; simp

theorem val_binade (x : Dy) (hm : x.m ≠ 0) :
    (2:ℚ) ^ (bexp x - 1) ≤ |x.val| ∧ |x.val| < (2:ℚ) ^ bexp x := by
  have ha : x.m.natAbs ≠ 0 := by omega
  obtain ⟨h1, h2, h3⟩ := blen_bounds x.m.natAbs ha
  rw [abs_val]
  have hep := two_zpow_pos x.e
  unfold bexp
  constructor
  · have : (2:ℚ) ^ (x.e + (blen x.m.natAbs : ℤ) - 1) = (2:ℚ) ^ (blen x.m.natAbs - 1 : ℕ) * (2:ℚ) ^ x.e := by
      rw [← zpow_natCast, ← two_zpow_split]; congr 1
      push_cast [h3]; ring
    rw [this]
    have h1q : ((2:ℚ) ^ (blen x.m.natAbs - 1 : ℕ)) ≤ (x.m.natAbs : ℚ) := by exact_mod_cast h1
    exact mul_le_mul_of_nonneg_right h1q hep.le
  · have : (2:ℚ) ^ (x.e + (blen x.m.natAbs : ℤ)) = (2:ℚ) ^ (blen x.m.natAbs : ℕ) * (2:ℚ) ^ x.e := by
      rw [← zpow_natCast, ← two_zpow_split]; congr 1; ring
    rw [this]
    have h2q : (x.m.natAbs : ℚ) < ((2:ℚ) ^ (blen x.m.natAbs : ℕ)) := by exact_mod_cast h2
    exact mul_lt_mul_of_pos_right h2q hep

theorem two_zpow_le {a b : ℤ} (h : a ≤ b) : (2:ℚ) ^ a ≤ (2:ℚ) ^ b :=
  zpow_le_zpow_right₀ (by norm_num) h
theorem two_zpow_lt_iff {a b : ℤ} : (2:ℚ) ^ a < (2:ℚ) ^ b ↔ a < b :=
  zpow_lt_zpow_iff_right₀ (by norm_num)

/-- `|x| < 2^n → bexp x ≤ n` -/
theorem bexp_le_of_lt (x : Dy) (hm : x.m ≠ 0) (n : ℤ) (h : |x.val| < (2:ℚ) ^ n) : bexp x ≤ n := by
  have := (val_binade x hm).1
  have h2 : (2:ℚ) ^ (bexp x - 1) < (2:ℚ) ^ n := lt_of_le_of_lt this h
  have := two_zpow_lt_iff.mp h2
  omega

/-- `2^n ≤ |x| → n < bexp x` -/
theorem lt_bexp_of_le (x : Dy) (hm : x.m ≠ 0) (n : ℤ) (h : (2:ℚ) ^ n ≤ |x.val|) : n < bexp x := by
  have := (val_binade x hm).2
  exact two_zpow_lt_iff.mp (lt_of_le_of_lt h this)

/-- (c) **relative error**, generic precision: without subnormal clamping, `|rnd x − x| ≤ |x|·2^(−p)` -/
theorem roundTo_relerr (p : ℕ) (emin : ℤ) (x : Dy) (hn : emin ≤ bexp x - p) :
    |(roundTo p emin x).val - x.val| ≤ |x.val| * (2:ℚ) ^ (-(p:ℤ)) := by
  by_cases hm : x.m = 0
  · rw [roundTo_val_zero p emin x hm, val_of_m_zero x hm]; simp
  · have h1 := roundTo_halfulp p emin x hm
    have ht : tExp p emin x = bexp x - p := by rw [tExp_eq]; omega
    rw [ht] at h1
    have h2 := (val_binade x hm).1
    have : (2:ℚ) ^ (bexp x - p - 1) = (2:ℚ) ^ (bexp x - 1) * (2:ℚ) ^ (-(p:ℤ)) := by
      rw [← two_zpow_split]; congr 1; ring
    rw [this] at h1
    have hp := two_zpow_pos (-(p:ℤ))
    calc _ ≤ (2:ℚ) ^ (bexp x - 1) * (2:ℚ) ^ (-(p:ℤ)) := h1
      _ ≤ |x.val| * (2:ℚ) ^ (-(p:ℤ)) := mul_le_mul_of_nonneg_right h2 hp.le

/-- (c) binary64: if `x` is in the normal range (`2^(−1022) ≤ |x|`, i.e. `bexp x ≥ −1021`) then
    `|round53 x − x| ≤ |x|·2^(−53)` -/
theorem round53_relerr (x : Dy) (hn : -1021 ≤ bexp x) :
    |(round53 x).val - x.val| ≤ |x.val| * (2:ℚ) ^ (-(53:ℤ)) := by
  have := roundTo_relerr 53 (-1074) x (by push_cast; omega)
  exact this

/-! ## rounding never crosses a point of its own grid -/

theorem roundTo_no_cross_le (p : ℕ) (emin : ℤ) (x : Dy) (hm : x.m ≠ 0) (g : ℤ)
    (h : x.val ≤ g * (2:ℚ) ^ tExp p emin x) : (roundTo p emin x).val ≤ g * (2:ℚ) ^ tExp p emin x := by
  obtain ⟨k, hk, h2, _⟩ := roundTo_spec p emin x hm
  have htp := two_zpow_pos (tExp p emin x)
  by_contra hc
  rw [hk] at hc h2
  have hkg : g < k := by
    have := lt_of_mul_lt_mul_right (not_le.mp hc) htp.le
    exact_mod_cast this
  have hkg' : (g:ℚ) + 1 ≤ k := by exact_mod_cast hkg
  have h3 : (g:ℚ) * (2:ℚ) ^ tExp p emin x + (2:ℚ) ^ tExp p emin x ≤ k * (2:ℚ) ^ tExp p emin x := by nlinarith
  have h4 := le_abs_self ((k:ℚ) * (2:ℚ) ^ tExp p emin x - x.val)
  linarith

theorem roundTo_no_cross_ge (p : ℕ) (emin : ℤ) (x : Dy) (hm : x.m ≠ 0) (g : ℤ)
    (h : g * (2:ℚ) ^ tExp p emin x ≤ x.val) : g * (2:ℚ) ^ tExp p emin x ≤ (roundTo p emin x).val := by
  obtain ⟨k, hk, h2, _⟩ := roundTo_spec p emin x hm
  have htp := two_zpow_pos (tExp p emin x)
  by_contra hc
  rw [hk] at hc h2
  have hkg : k < g := by
    have := lt_of_mul_lt_mul_right (not_le.mp hc) htp.le
    exact_mod_cast this
  have hkg' : (k:ℚ) + 1 ≤ g := by exact_mod_cast hkg
  have h3 : (k:ℚ) * (2:ℚ) ^ tExp p emin x + (2:ℚ) ^ tExp p emin x ≤ g * (2:ℚ) ^ tExp p emin x := by nlinarith
  have h4 := neg_abs_le ((k:ℚ) * (2:ℚ) ^ tExp p emin x - x.val)
  linarith

/-- a point of the (coarser or equal) grid `2^s ℤ`, `s ≥ t`, is not crossed either -/
theorem roundTo_no_cross_le' (p : ℕ) (emin : ℤ) (x : Dy) (hm : x.m ≠ 0) (g s : ℤ) (hs : tExp p emin x ≤ s)
    (h : x.val ≤ g * (2:ℚ) ^ s) : (roundTo p emin x).val ≤ g * (2:ℚ) ^ s := by
  have : (g:ℚ) * (2:ℚ) ^ s = ((g * 2 ^ (s - tExp p emin x).toNat : ℤ) : ℚ) * (2:ℚ) ^ tExp p emin x := by
    push_cast
    rw [mul_assoc, ← zpow_natCast, ← two_zpow_split]; congr 2
    rw [Int.toNat_of_nonneg (by omega)]; ring
  rw [this] at h ⊢
  exact roundTo_no_cross_le p emin x hm _ h

theorem roundTo_no_cross_ge' (p : ℕ) (emin : ℤ) (x : Dy) (hm : x.m ≠ 0) (g s : ℤ) (hs : tExp p emin x ≤ s)
    (h : g * (2:ℚ) ^ s ≤ x.val) : g * (2:ℚ) ^ s ≤ (roundTo p emin x).val := by
  have : (g:ℚ) * (2:ℚ) ^ s = ((g * 2 ^ (s - tExp p emin x).toNat : ℤ) : ℚ) * (2:ℚ) ^ tExp p emin x := by
    push_cast
    rw [mul_assoc, ← zpow_natCast, ← two_zpow_split]; congr 2
    rw [Int.toNat_of_nonneg (by omega)]; ring
  rw [this] at h ⊢
  exact roundTo_no_cross_ge p emin x hm _ h

/-- a value on the grid `2^s ℤ` with `s ≥ t` is a fixed point (in value) -/
theorem roundTo_val_of_grid (p : ℕ) (emin : ℤ) (x : Dy) (g s : ℤ) (hs : x.m ≠ 0 → tExp p emin x ≤ s)
    (h : x.val = g * (2:ℚ) ^ s) : (roundTo p emin x).val = x.val := by
  by_cases hm : x.m = 0
  · rw [roundTo_val_zero p emin x hm, val_of_m_zero x hm]
  · apply le_antisymm
    · rw [h]; exact roundTo_no_cross_le' p emin x hm g s (hs hm) h.le
    · rw [h]; exact roundTo_no_cross_ge' p emin x hm g s (hs hm) h.ge

/-- **representable values are fixed**: `x = g·2^s` with `|g| ≤ 2^p` and `s ≥ emin` rounds to itself -/
theorem roundTo_val_of_fits (p : ℕ) (hp : 1 ≤ p) (emin : ℤ) (x : Dy) (g s : ℤ) (hg : |g| ≤ 2 ^ p) (hs : emin ≤ s)
    (h : x.val = g * (2:ℚ) ^ s) : (roundTo p emin x).val = x.val := by
  have hsp := two_zpow_pos s
  have habs : |x.val| = (|g| : ℤ) * (2:ℚ) ^ s := by rw [h, abs_mul, abs_of_pos hsp]; push_cast; rfl
  by_cases hlt : |g| < 2 ^ p
  · apply roundTo_val_of_grid p emin x g s _ h
    intro hm
    have : |x.val| < (2:ℚ) ^ ((p:ℤ) + s) := by
      rw [habs, two_zpow_split, zpow_natCast]
      have : ((|g| : ℤ) : ℚ) < (2:ℚ) ^ p := by exact_mod_cast hlt
      exact mul_lt_mul_of_pos_right this hsp
    have := bexp_le_of_lt x hm _ this
    rw [tExp_eq]; omega
  · have hge : |g| = 2 ^ p := by omega
    -- `x = ±2^(p−1) · 2^(s+1)`
    have hg2 : g = 2 ^ p ∨ g = -(2 ^ p) := by
      rcases abs_cases g with ⟨e1, _⟩ | ⟨e1, _⟩ <;> [left; right] <;> omega
    have hpp : (2:ℤ) ^ p = 2 ^ (p - 1) * 2 := by
      conv_lhs => rw [show p = (p - 1) + 1 by omega]
      rw [pow_succ]
    have hs1 : (2:ℚ) ^ (s + 1) = (2:ℚ) ^ s * 2 := by rw [two_zpow_split]; norm_num
    have hx' : x.val = ((if g = 2 ^ p then 2 ^ (p - 1) else -(2 ^ (p - 1)) : ℤ) : ℚ) * (2:ℚ) ^ (s + 1) := by
      rw [h, hs1]
      rcases hg2 with e | e
      · rw [if_pos e, e, hpp]; push_cast; ring
      · have : ¬ g = 2 ^ p := by
          have : (0:ℤ) < 2 ^ p := by positivity
          omega
        rw [if_neg this, e, hpp]; push_cast; ring
    apply roundTo_val_of_grid p emin x _ (s + 1) _ hx'
    intro hm
    have : |x.val| < (2:ℚ) ^ ((p:ℤ) + s + 1) := by
      rw [habs, hge, two_zpow_split, two_zpow_split, zpow_natCast]
      push_cast
      have : (0:ℚ) < (2:ℚ) ^ p * (2:ℚ) ^ s := by positivity
      linarith
    have := bexp_le_of_lt x hm _ this
    rw [tExp_eq]; omega

/-- the result of `roundTo` is `k·2^t` with `|k| ≤ 2^p`, `t ≥ emin` (it fits) -/
theorem roundTo_fits (p : ℕ) (emin : ℤ) (x : Dy) (hm : x.m ≠ 0) :
    ∃ k : ℤ, (roundTo p emin x).val = k * (2:ℚ) ^ tExp p emin x ∧ |k| ≤ 2 ^ p ∧ emin ≤ tExp p emin x := by
  set t := tExp p emin x with ht
  have htp := two_zpow_pos t
  have htE : bexp x ≤ t + p := by rw [ht, tExp_eq]; omega
  -- G = 2^p · 2^t ≥ 2^bexp > |x|
  have hG : |x.val| ≤ ((2 ^ p : ℤ) : ℚ) * (2:ℚ) ^ t := by
    have h1 := (val_binade x hm).2
    have h2 : (2:ℚ) ^ bexp x ≤ (2:ℚ) ^ (t + p) := two_zpow_le htE
    rw [two_zpow_split, zpow_natCast] at h2
    push_cast; linarith
  have hG1 := roundTo_no_cross_le p emin x hm (2 ^ p) (le_trans (le_abs_self _) hG)
  have hG2 := roundTo_no_cross_ge p emin x hm (-(2 ^ p)) (by
    have := neg_abs_le x.val
    push_cast at hG ⊢; linarith)
  obtain ⟨k, hk, _⟩ := roundTo_spec p emin x hm
  refine ⟨k, hk, ?_, by rw [ht, tExp_eq]; omega⟩
  rw [hk] at hG1 hG2
  have h1 : (k:ℚ) ≤ ((2 ^ p : ℤ) : ℚ) := le_of_mul_le_mul_right hG1 htp
  have h2 : ((-(2 ^ p) : ℤ) : ℚ) ≤ (k:ℚ) := le_of_mul_le_mul_right hG2 htp
  have h1' : k ≤ 2 ^ p := by exact_mod_cast h1
  have h2' : -(2 ^ p) ≤ k := by exact_mod_cast h2
  exact abs_le.mpr ⟨h2', h1'⟩

/-- (a) **idempotence** (in value; the representation may be renormalised when the mantissa rounds up to `2^p`) -/
theorem roundTo_idem (p : ℕ) (hp : 1 ≤ p) (emin : ℤ) (x : Dy) :
    (roundTo p emin (roundTo p emin x)).val = (roundTo p emin x).val := by
  by_cases hm : x.m = 0
  · rw [roundTo_zero p emin x hm, roundTo_zero p emin ⟨0, 0⟩ rfl]
  · obtain ⟨k, hk, hk2, ht⟩ := roundTo_fits p emin x hm
    exact roundTo_val_of_fits p hp emin _ k _ hk2 ht hk

/-! ## sign preservation and monotonicity -/

theorem val_nonneg_iff (x : Dy) : 0 ≤ x.val ↔ 0 ≤ x.m := by
  have := m_neg_iff x
  constructor
  · intro h; by_contra hc; have := this.mp (by omega); linarith
  · intro h; by_contra hc; have := this.mpr (not_le.mp hc); omega

theorem val_nonpos_iff (x : Dy) : x.val ≤ 0 ↔ x.m ≤ 0 := by
  have := val_nonneg_iff (neg x)
  rw [val_neg] at this
  have h2 : (neg x).m = -x.m := rfl
  rw [h2] at this
  constructor
  · intro h; have := this.mp (by linarith); omega
  · intro h; have := this.mpr (by omega); linarith

theorem roundTo_val_nonneg (p : ℕ) (emin : ℤ) (x : Dy) (h : 0 ≤ x.val) : 0 ≤ (roundTo p emin x).val :=
  (val_nonneg_iff _).mpr (roundTo_sign_nonneg p emin x ((val_nonneg_iff x).mp h))

theorem roundTo_val_nonpos (p : ℕ) (emin : ℤ) (x : Dy) (h : x.val ≤ 0) : (roundTo p emin x).val ≤ 0 :=
  (val_nonpos_iff _).mpr (roundTo_sign_nonpos p emin x ((val_nonpos_iff x).mp h))

/-- monotone on one grid (this is where ties-to-even is needed) -/
theorem roundTo_mono_same (p : ℕ) (emin : ℤ) (x y : Dy) (hx : x.m ≠ 0) (hy : y.m ≠ 0)
    (ht : tExp p emin x = tExp p emin y) (h : x.val ≤ y.val) :
    (roundTo p emin x).val ≤ (roundTo p emin y).val := by
  obtain ⟨kx, hkx, hx2, hx3, _⟩ := roundTo_spec p emin x hx
  obtain ⟨ky, hky, hy2, hy3, _⟩ := roundTo_spec p emin y hy
  rw [ht] at hkx hx2 hx3
  have hT := two_zpow_pos (tExp p emin y)
  rw [hkx] at hx2 hx3 ⊢
  rw [hky] at hy2 hy3 ⊢
  generalize (2:ℚ) ^ tExp p emin y = T at *
  by_contra hc
  have hlt : ky < kx := by
    have := lt_of_mul_lt_mul_right (not_le.mp hc) hT.le
    exact_mod_cast this
  have hlt' : (ky:ℚ) + 1 ≤ kx := by exact_mod_cast hlt
  have a1 := le_abs_self ((kx:ℚ) * T - x.val)
  have b1 := neg_abs_le ((ky:ℚ) * T - y.val)
  -- (kx − ky)·T ≤ T
  have hle : ((kx:ℚ) - ky - 1) * T ≤ 0 := by nlinarith
  have hle2 : (kx:ℚ) - ky - 1 ≤ 0 := by
    by_contra h5
    have := mul_pos (not_le.mp h5) hT
    linarith
  have hkk : (kx:ℚ) = ky + 1 := by linarith
  have hkk' : kx = ky + 1 := by exact_mod_cast hkk
  have ea : (kx:ℚ) * T - x.val = T / 2 := by rw [hkk] at a1 hx2 ⊢; nlinarith
  have eb : (ky:ℚ) * T - y.val = -(T / 2) := by rw [hkk] at a1 hx2; nlinarith
  have e1 := hx3 (by rw [ea, abs_of_pos (by linarith)]; ring)
  have e2 := hy3 (by rw [eb, abs_neg, abs_of_pos (by linarith)]; ring)
  omega

/-- monotone on positive values -/
theorem roundTo_mono_pos (p : ℕ) (hp : 1 ≤ p) (emin : ℤ) (x y : Dy) (hx : 0 < x.val) (h : x.val ≤ y.val) :
    (roundTo p emin x).val ≤ (roundTo p emin y).val := by
  have hy : 0 < y.val := lt_of_lt_of_le hx h
  have hxm : x.m ≠ 0 := fun e => by rw [val_of_m_zero x e] at hx; exact lt_irrefl _ hx
  have hym : y.m ≠ 0 := fun e => by rw [val_of_m_zero y e] at hy; exact lt_irrefl _ hy
  have bx := val_binade x hxm
  have bY := val_binade y hym
  rw [abs_of_pos hx] at bx
  rw [abs_of_pos hy] at bY
  have hE : bexp x ≤ bexp y := by
    have : (2:ℚ) ^ (bexp x - 1) < (2:ℚ) ^ bexp y := by linarith
    have := two_zpow_lt_iff.mp this
    omega
  by_cases ht : tExp p emin x = tExp p emin y
  · exact roundTo_mono_same p emin x y hxm hym ht h
  · rw [tExp_eq, tExp_eq] at ht
    have hE2 : bexp x < bexp y := by omega
    have hty : tExp p emin y = bexp y - p := by rw [tExp_eq]; omega
    have htx : tExp p emin x ≤ bexp y - 1 := by rw [tExp_eq]; omega
    have hG : x.val ≤ ((1:ℤ):ℚ) * (2:ℚ) ^ (bexp y - 1) := by
      have : (2:ℚ) ^ bexp x ≤ (2:ℚ) ^ (bexp y - 1) := two_zpow_le (by omega)
      push_cast; linarith
    have hG' : ((1:ℤ):ℚ) * (2:ℚ) ^ (bexp y - 1) ≤ y.val := by push_cast; linarith
    have r1 := roundTo_no_cross_le' p emin x hxm 1 (bexp y - 1) htx hG
    have r2 := roundTo_no_cross_ge' p emin y hym 1 (bexp y - 1) (by omega) hG'
    linarith

/-- (d) **monotonicity of round-to-nearest-even** (any precision `p ≥ 1`, any `emin`) -/
theorem roundTo_mono (p : ℕ) (hp : 1 ≤ p) (emin : ℤ) (x y : Dy) (h : x.val ≤ y.val) :
    (roundTo p emin x).val ≤ (roundTo p emin y).val := by
  by_cases hx : 0 < x.val
  · exact roundTo_mono_pos p hp emin x y hx h
  · by_cases hy : y.val < 0
    · have h1 : 0 < (neg y).val := by rw [val_neg]; linarith
      have h2 : (neg y).val ≤ (neg x).val := by rw [val_neg, val_neg]; linarith
      have := roundTo_mono_pos p hp emin (neg y) (neg x) h1 h2
      rw [roundTo_neg, roundTo_neg, val_neg, val_neg] at this
      linarith
    · have := roundTo_val_nonpos p emin x (not_lt.mp hx)
      have := roundTo_val_nonneg p emin y (not_lt.mp hy)
      linarith

/-! ## binary64 corollaries -/

theorem round53_mono (x y : Dy) (h : x.val ≤ y.val) : (round53 x).val ≤ (round53 y).val :=
  roundTo_mono 53 (by norm_num) (-1074) x y h

theorem round53_neg (x : Dy) : round53 (neg x) = neg (round53 x) := roundTo_neg 53 (-1074) x

theorem round53_idem (x : Dy) : (round53 (round53 x)).val = (round53 x).val :=
  roundTo_idem 53 (by norm_num) (-1074) x

/-- an integer-valued dyadic of magnitude at most `2^53` is representable -/
theorem round53_int (x : Dy) (n : ℤ) (hn : |n| ≤ 2 ^ 53) (h : x.val = n) : (round53 x).val = n := by
  have := roundTo_val_of_fits 53 (by norm_num) (-1074) x n 0 hn (by norm_num) (by simpa using h)
  rw [← h]; exact this

theorem round53_ofInt (n : ℤ) (hn : |n| ≤ 2 ^ 53) : (round53 (ofInt n)).val = n :=
  round53_int _ n hn (val_ofInt n)

/-- rounding never crosses a representable integer: `n ≤ x → n ≤ round53 x` for `|n| ≤ 2^53` -/
theorem le_round53_of_int_le (x : Dy) (n : ℤ) (hn : |n| ≤ 2 ^ 53) (h : (n:ℚ) ≤ x.val) : (n:ℚ) ≤ (round53 x).val := by
  have := round53_mono (ofInt n) x (by rw [val_ofInt]; exact h)
  rwa [round53_ofInt n hn] at this

theorem round53_le_of_le_int (x : Dy) (n : ℤ) (hn : |n| ≤ 2 ^ 53) (h : x.val ≤ (n:ℚ)) : (round53 x).val ≤ (n:ℚ) := by
  have := round53_mono x (ofInt n) (by rw [val_ofInt]; exact h)
  rwa [round53_ofInt n hn] at this

/-- the algebraic facts about a rounding function that property theorems need (DESIGN.md §2.1) -/
structure RoundSpec (rnd : Dy → Dy) : Prop where
  /-- representable values (`g·2^s`, `|g| ≤ 2^53`, `s ≥ −1074`) are fixed -/
  exact : ∀ (x : Dy) (g s : ℤ), |g| ≤ 2 ^ 53 → -1074 ≤ s → x.val = g * (2:ℚ) ^ s → (rnd x).val = x.val
  mono : ∀ x y : Dy, x.val ≤ y.val → (rnd x).val ≤ (rnd y).val
  /-- relative error in the normal range -/
  relerr : ∀ x : Dy, (2:ℚ) ^ (-1022 : ℤ) ≤ |x.val| → |(rnd x).val - x.val| ≤ |x.val| * (2:ℚ) ^ (-(53:ℤ))
  neg : ∀ x : Dy, (rnd (neg x)).val = -(rnd x).val
  idem : ∀ x : Dy, (rnd (rnd x)).val = (rnd x).val

/-- **`round53` satisfies `RoundSpec`** -/
theorem round53_spec : RoundSpec round53 where
  exact := fun x g s hg hs h => roundTo_val_of_fits 53 (by norm_num) (-1074) x g s hg hs h
  mono := round53_mono
  relerr := fun x hx => by
    by_cases hm : x.m = 0
    · rw [val_of_m_zero x hm] at hx
      have := two_zpow_pos (-1022)
      rw [abs_zero] at hx; linarith
    · exact round53_relerr x (by have := lt_bexp_of_le x hm _ hx; omega)
  neg := fun x => by rw [round53_neg, val_neg]
  idem := round53_idem

/-! ## non-vacuity -/
/-- `2^53 + 1` is a tie and rounds to the even neighbour `2^53 = 2^52·2` -/
example : (round53 ⟨2 ^ 53 + 1, 0⟩).m = 2 ^ 52 ∧ (round53 ⟨2 ^ 53 + 1, 0⟩).e = 1 := by decide +kernel
example : tExp 53 (-1074) ⟨2 ^ 53 + 1, 0⟩ = 1 := by decide +kernel
example : bexp ⟨3, -2⟩ = 0 := by decide +kernel

end GeoVerif.Dy
