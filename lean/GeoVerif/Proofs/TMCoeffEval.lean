import GeoVerif.Model.TM
import GeoVerif.Series.Poly
import GeoVerif.Spec.RealInst
import Mathlib.Tactic.Ring
import Mathlib.Tactic.FieldSimp
import Mathlib.Data.List.GetD
/-!
# The coefficients `_alp[l]`, `_bet[l]` the constructor computes are the values at `n` of the truncated power series the
table certificates talk about

`TM.coeffs tbl n` (executed by the driver in binary64, here read at `ℝ`) is `n^l · polyval(block) / denominator`; `blockPoly tbl l` is the
same thing as a `Series.Poly` (list of rational coefficients), the object of the certificates `alp_bet_revert`, `alp_is_aux`, ….
`coeffs_eval`: `(coeffs tbl n)[l − 1] = ev (blockPoly tbl l) n` for every table and every real `n`.
-/
namespace GeoVerif.Proofs.TMCoeff
open GeoVerif GeoVerif.TM GeoVerif.Series

/-- value of a polynomial (coefficient list, low order first) at a real point -/
noncomputable def ev (p : Poly) (x : ℝ) : ℝ := p.foldr (fun c acc => (c : ℝ) + x * acc) 0

@[simp] theorem ev_nil (x : ℝ) : ev [] x = 0 := rfl
@[simp] theorem ev_cons (c : Rat) (p : Poly) (x : ℝ) : ev (c :: p) x = (c : ℝ) + x * ev p x := rfl

theorem ev_append (p q : Poly) (x : ℝ) : ev (p ++ q) x = ev p x + x ^ p.length * ev q x := by
  induction p with
  | nil => simp
  | cons c p ih => simp only [List.cons_append, ev_cons, ih, List.length_cons, pow_succ]; ring

theorem ev_replicate_zero (k : ℕ) (x : ℝ) : ev (List.replicate k (0 : Rat)) x = 0 := by
  induction k with
  | zero => rfl
  | succ k ih => simp [List.replicate_succ, ih]

theorem ev_shift (k : ℕ) (p : Poly) (x : ℝ) : ev (Poly.shift k p) x = x ^ k * ev p x := by
  unfold Poly.shift
  rw [ev_append, ev_replicate_zero, List.length_replicate]; ring

theorem ev_smul (c : Rat) (p : Poly) (x : ℝ) : ev (Poly.smul c p) x = (c : ℝ) * ev p x := by
  unfold Poly.smul
  induction p with
  | nil => simp
  | cons a p ih => simp only [List.map_cons, ev_cons, ih]; push_cast; ring

theorem trunc_eq_append (M : ℕ) (p : Poly) (h : p.length ≤ M) : Poly.trunc M p = p ++ List.replicate (M - p.length) 0 := by
  apply List.ext_getElem
  · simp [Poly.trunc]; omega
  · intro i h1 h2
    simp only [Poly.trunc, List.getElem_map, List.getElem_range, Poly.coeff]
    by_cases hi : i < p.length
    · rw [List.getElem_append_left hi, List.getD_eq_getElem _ _ hi]
    · rw [List.getElem_append_right (by omega), List.getElem_replicate, List.getD_eq_default _ _ (by omega)]

theorem ev_trunc (M : ℕ) (p : Poly) (h : p.length ≤ M) (x : ℝ) : ev (Poly.trunc M p) x = ev p x := by
  rw [trunc_eq_append M p h, ev_append, ev_replicate_zero]; ring

theorem ofRat_real (q : Rat) : (ofRat q : ℝ) = (q : ℝ) := by
  unfold ofRat
  have hn : (if q.num < 0 then -(RealLike.ofNat q.num.natAbs : ℝ) else RealLike.ofNat q.num.natAbs) = ((q.num : ℤ) : ℝ) := by
    split
    · next h =>
      rw [ofNat_real]
      have : (q.num.natAbs : ℤ) = -q.num := by omega
      have h2 : ((q.num.natAbs : ℕ) : ℝ) = ((q.num.natAbs : ℤ) : ℝ) := (Int.cast_natCast _).symm
      rw [h2, this]; push_cast; ring
    · next h =>
      rw [ofNat_real]
      have : (q.num.natAbs : ℤ) = q.num := by omega
      have h2 : ((q.num.natAbs : ℕ) : ℝ) = ((q.num.natAbs : ℤ) : ℝ) := (Int.cast_natCast _).symm
      rw [h2, this]
  simp only [hn]
  split
  · next h =>
    conv_rhs => rw [Rat.cast_def, h]
    simp
  · rw [ofNat_real, Rat.cast_def]

/-- Horner from the highest coefficient, as `Math::polyval` does it -/
theorem foldl_horner (cs : List Rat) (a x : ℝ) :
    (cs.map fun c => (ofRat c : ℝ)).foldl (fun y c => y * x + c) a = a * x ^ cs.length + ev cs.reverse x := by
  induction cs generalizing a with
  | nil => simp
  | cons c cs ih =>
    simp only [List.map_cons, List.foldl_cons, List.reverse_cons, List.length_cons]
    rw [ih, ev_append, ofRat_real]
    simp only [List.length_reverse, ev_cons, ev_nil]
    ring

theorem polyval_eq_ev (q : List Rat) (x : ℝ) : polyval (q.map fun c => (ofRat c : ℝ)) x = ev (Poly.ofHighFirst q) x := by
  unfold Poly.ofHighFirst
  cases q with
  | nil => simp [polyval, ofNat_real]
  | cons c cs =>
    simp only [polyval, List.map_cons]
    rw [foldl_horner, List.reverse_cons, ev_append, ofRat_real]
    simp only [List.length_reverse, ev_cons, ev_nil]
    ring

/-- `n^l · polyval(num, n) / den` as a polynomial (the object of the table certificates; `Props/C06.tmBlock`, `Series/TMSeries.coeffPoly`) -/
def blockPoly (tbl : List Rat) (l : Nat) : Poly :=
  let b := TM.block tbl l
  Poly.trunc (TM.N + 1) (Poly.shift l (Poly.smul (1 / b.2) (Poly.ofHighFirst b.1)))

theorem block_length (tbl : List Rat) (l : ℕ) (_hl : 1 ≤ l) (hN : l ≤ TM.N) : l + (TM.block tbl l).1.length ≤ TM.N + 1 := by
  simp only [TM.block, List.length_take]
  omega

theorem ev_blockPoly (tbl : List Rat) (l : ℕ) (_hl : 1 ≤ l) (hN : l ≤ TM.N) (x : ℝ) :
    ev (blockPoly tbl l) x = x ^ l * polyval ((TM.block tbl l).1.map fun c => (ofRat c : ℝ)) x / (ofRat (TM.block tbl l).2 : ℝ) := by
  unfold blockPoly
  have hlen : (Poly.shift l (Poly.smul (1 / (TM.block tbl l).2) (Poly.ofHighFirst (TM.block tbl l).1))).length ≤ TM.N + 1 := by
    simp only [Poly.shift, Poly.smul, Poly.ofHighFirst, List.length_append, List.length_replicate, List.length_map, List.length_reverse]
    exact block_length tbl l _hl hN
  simp only []
  rw [ev_trunc _ _ hlen, ev_shift, ev_smul, polyval_eq_ev, ofRat_real]
  push_cast
  ring

/-- the loop of the constructor in closed form -/
theorem coeffs_fold (F : ℕ → ℝ) (n : ℝ) (m : ℕ) :
    (List.range m).foldl (fun (acc : List ℝ × ℝ) i => (acc.1 ++ [acc.2 * F i], acc.2 * n)) ([], n) =
      ((List.range m).map fun i => n ^ (i + 1) * F i, n ^ (m + 1)) := by
  induction m with
  | zero => simp
  | succ m ih =>
    rw [List.range_succ, List.foldl_append, ih]
    simp only [List.foldl_cons, List.foldl_nil, List.map_append, List.map_cons, List.map_nil]
    congr 1

/-- the loop of the constructor: `_alp[l] = n^l · (polyval(block_l, n) / denominator_l)` -/
theorem coeffs_closed (tbl : List Rat) (n : ℝ) :
    coeffs tbl n = (List.range TM.N).map fun i => n ^ (i + 1) * (polyval ((TM.block tbl (i + 1)).1.map fun c => (ofRat c : ℝ)) n / (ofRat (TM.block tbl (i + 1)).2 : ℝ)) := by
  have h := coeffs_fold (fun i => polyval ((TM.block tbl (i + 1)).1.map fun c => (ofRat c : ℝ)) n / (ofRat (TM.block tbl (i + 1)).2 : ℝ)) n TM.N
  have hf : (fun (acc : List ℝ × ℝ) (i : ℕ) =>
        (match TM.block tbl (i + 1) with
          | (num, den) => (acc.1 ++ [acc.2 * polyval (num.map ofRat) n / ofRat den], acc.2 * n) : List ℝ × ℝ)) =
      fun acc i => (acc.1 ++ [acc.2 * (polyval ((TM.block tbl (i + 1)).1.map fun c => (ofRat c : ℝ)) n / (ofRat (TM.block tbl (i + 1)).2 : ℝ))], acc.2 * n) := by
    funext acc i
    show (acc.1 ++ [acc.2 * polyval ((TM.block tbl (i + 1)).1.map ofRat) n / ofRat (TM.block tbl (i + 1)).2], acc.2 * n) = _
    rw [mul_div_assoc]
  have h' := congrArg Prod.fst h
  simp only at h'
  rw [← h', ← hf]
  rfl

/-- **`_alp[l]` / `_bet[l]` as computed = value at `n` of the certified polynomial**, for every table, every `l = i + 1 ≤ N`, every real `n` -/
theorem coeffs_eval (tbl : List Rat) (n : ℝ) (i : ℕ) (hi : i < TM.N) :
    (coeffs tbl n).getD i 0 = ev (blockPoly tbl (i + 1)) n := by
  rw [coeffs_closed, ev_blockPoly tbl (i + 1) (by omega) (by omega)]
  rw [List.getD_eq_getElem _ _ (by simpa using hi)]
  simp only [List.getElem_map, List.getElem_range]
  ring

/-- on the sphere every coefficient the constructor computes vanishes -/
theorem coeffs_zero (tbl : List Rat) : coeffs tbl (0 : ℝ) = List.replicate TM.N 0 := by
  rw [coeffs_closed]
  apply List.ext_getElem
  · simp
  · intro i h1 h2
    simp [pow_succ]

end GeoVerif.Proofs.TMCoeff
