import GeoVerif.Proofs.DMSDigits
/-!
# The angle grammar written by `DMS::Encode` and its acceptance by the discrete stage of `DMS::Decode`
-/
namespace GeoVerif.DMSProofs
open GeoVerif GeoVerif.DMS GeoVerif.Gen GeoVerif.Decimal

def numOf (ds : Bytes) : Num := { int := digitsVal 0 ds, nint := ds.length }
def numFracOf (ds fs : Bytes) : Num :=
  { int := digitsVal 0 ds, nint := ds.length, point := true, frac := digitsVal 0 fs, nfrac := fs.length }

/-- `.F` for a non-empty fraction, nothing otherwise -/
def fracPart (F : Bytes) : Bytes := if F = [] then [] else 46 :: F
/-- the number `X` or `X.F` -/
def lastNum (X F : Bytes) : Num := if F = [] then numOf X else numFracOf X F

/-- **the texts `DMS::Encode` writes** (without sign and hemisphere letter): trailing component `t` = 0, 1, 2
    (degrees, minutes, seconds), separator `sep` (0 = the indicators `d ' "`), digit strings `D M S` and fraction digits `F`
    of the trailing component -/
def dmsText (t sep : Nat) (D M S F : Bytes) : Bytes :=
  let dsep := if sep ≠ 0 then sep else 100
  let msep := if sep ≠ 0 then sep else 39
  if t = 0 then D ++ fracPart F
  else if t = 1 then D ++ dsep :: (M ++ (fracPart F ++ (if sep = 0 then [39] else [])))
  else D ++ dsep :: (M ++ msep :: (S ++ (fracPart F ++ (if sep = 0 then [34] else []))))

/-- the three numbers such a text denotes -/
def slotsOf (t : Nat) (D M S F : Bytes) : Slots :=
  if t = 0 then { d := lastNum D F }
  else if t = 1 then { d := numOf D, m := lastNum M F }
  else { d := numOf D, m := numOf M, s := lastNum S F }

theorem number_last (X F rest : Bytes) (hX : AllDigits X) (hF : AllDigits F)
    (hr : ∀ c t, rest = c :: t → ¬ IsDigit c ∧ c ≠ 46) :
    number (X ++ (fracPart F ++ rest)) = (lastNum X F, rest) := by
  by_cases hF0 : F = []
  · subst hF0
    simp only [fracPart, lastNum, if_true, List.nil_append]
    exact number_int X rest hX hr
  · simp only [fracPart, lastNum, hF0, if_false, List.cons_append]
    exact number_frac X F rest hX hF (fun c t h => (hr c t h).1)

theorem lastNum_ne (X F : Bytes) (hX : X ≠ []) : (lastNum X F).nint + (lastNum X F).nfrac ≠ 0 := by
  have : X.length ≠ 0 := by cases X <;> simp_all
  unfold lastNum; split <;> simp [numOf, numFracOf, this]

theorem numOf_ne (X : Bytes) (hX : X ≠ []) : (numOf X).nint + (numOf X).nfrac ≠ 0 := by
  have : X.length ≠ 0 := by cases X <;> simp_all
  simp [numOf, this]

/-! the three steps of the component loop (as in `Props/C10.lean`, restated here for use in the closure proof) -/

theorem comps_trailing' (f npiece : Nat) (sl : Slots) (s : Bytes) (n : Num)
    (hn : number s = (n, [])) (hp : npiece < 3) (hne : n.nint + n.nfrac ≠ 0) :
    comps (f + 1) npiece sl s = .ok (sl.set npiece n) := by
  simp only [comps, hn]
  simp [Nat.not_le.mpr hp]
  intro h1 h2; omega

theorem comps_indicator' (f npiece k : Nat) (sl : Slots) (s rest : Bytes) (n : Num) (c : Nat)
    (hn : number s = (n, c :: rest)) (hc : c ≠ 46) (hk : lookup DMSC.dmsindicators c = (k : Int)) (hk3 : k < 3)
    (hord : npiece ≤ k) (hne : n.nint + n.nfrac ≠ 0) :
    comps (f + 1) npiece sl s =
      if rest.isEmpty then .ok (sl.set k n)
      else if n.point then .error "Decimal point in non-terminal component"
      else comps f (k + 1) (sl.set k n) rest := by
  have h0 : ¬ ((k : Int) < 0) := by omega
  have h3 : ¬ ((k : Int) ≥ 3) := by omega
  have h4 : ¬ (3 ≤ k) := by omega
  have h5 : ¬ (k + 1 = npiece) := by omega
  have h6 : ¬ (k < npiece) := by omega
  simp only [comps, hn, hc, hk]
  simp [h0, h3, h4, h5, h6]
  intro h1 h2; omega

theorem comps_colon' (f npiece : Nat) (sl : Slots) (s rest : Bytes) (n : Num) (c : Nat)
    (hn : number s = (n, c :: rest)) (hc : c ≠ 46) (hk : lookup DMSC.dmsindicators c = 3) (hrest : rest ≠ [])
    (hp : npiece < 3) (hne : n.nint + n.nfrac ≠ 0) :
    comps (f + 1) npiece sl s =
      if n.point then .error "Decimal point in non-terminal component"
      else comps f (npiece + 1) (sl.set npiece n) rest := by
  have h4 : ¬ (3 ≤ npiece) := by omega
  have hr : rest.isEmpty = false := by cases rest <;> simp_all
  simp only [comps, hn, hc, hk]
  simp [h4, hr]
  intro h1 h2; omega

/-- a whole number followed by `d` / `'` and more text -/
theorem comps_whole_ind (f np k : Nat) (sl : Slots) (X rest : Bytes) (c : Nat) (hX : AllDigits X) (nX : X ≠ [])
    (hc : c = 100 ∨ c = 39 ∨ c = 34) (hk : lookup DMSC.dmsindicators c = (k : Int)) (hk3 : k < 3) (hord : np ≤ k)
    (hrest : rest ≠ []) :
    comps (f + 1) np sl (X ++ c :: rest) = comps f (k + 1) (sl.set k (numOf X)) rest := by
  have hr : rest.isEmpty = false := by cases rest <;> simp_all
  rw [comps_indicator' f np k sl _ rest (numOf X) c
    (number_int X _ hX (by intro c' t h; cases h; exact nd c (by omega))) (by omega) hk hk3 hord (numOf_ne X nX)]
  simp [hr, numOf]

/-- a whole number followed by `:` and more text -/
theorem comps_whole_colon (f np : Nat) (sl : Slots) (X rest : Bytes) (hX : AllDigits X) (nX : X ≠ []) (hp : np < 3)
    (hrest : rest ≠ []) :
    comps (f + 1) np sl (X ++ 58 :: rest) = comps f (np + 1) (sl.set np (numOf X)) rest := by
  rw [comps_colon' f np sl _ rest (numOf X) 58
    (number_int X _ hX (by intro c' t h; cases h; exact nd 58 (by simp))) (by decide) ind_c hrest hp (numOf_ne X nX)]
  simp [numOf]

/-- the last number `X[.F]` followed by its indicator -/
theorem comps_last_ind (f np k : Nat) (sl : Slots) (X F : Bytes) (c : Nat) (hX : AllDigits X) (hF : AllDigits F) (nX : X ≠ [])
    (hc : c = 100 ∨ c = 39 ∨ c = 34) (hk : lookup DMSC.dmsindicators c = (k : Int)) (hk3 : k < 3) (hord : np ≤ k) :
    comps (f + 1) np sl (X ++ (fracPart F ++ [c])) = .ok (sl.set k (lastNum X F)) := by
  rw [comps_indicator' f np k sl _ [] (lastNum X F) c
    (number_last X F [c] hX hF (by intro c' t h; cases h; exact nd c (by omega))) (by omega) hk hk3 hord (lastNum_ne X F nX)]
  simp

/-- the last number `X[.F]` without indicator -/
theorem comps_last_plain (f np : Nat) (sl : Slots) (X F : Bytes) (hX : AllDigits X) (hF : AllDigits F) (nX : X ≠ [])
    (hp : np < 3) :
    comps (f + 1) np sl (X ++ fracPart F) = .ok (sl.set np (lastNum X F)) := by
  have := number_last X F [] hX hF (by intro c t h; cases h)
  rw [List.append_nil] at this
  exact comps_trailing' f np sl _ (lastNum X F) this hp (lastNum_ne X F nX)

/-- **every text of the encoder grammar is parsed into exactly its three numbers** (indicator style and `:` style,
    with or without a fraction, trailing degrees / minutes / seconds) -/
theorem grammar_text (t sep : Nat) (D M S F : Bytes) (ht : t ≤ 2) (hsep : sep = 0 ∨ sep = 58)
    (hD : AllDigits D) (hM : AllDigits M) (hS : AllDigits S) (hF : AllDigits F)
    (nD : D ≠ []) (nM : M ≠ []) (nS : S ≠ []) :
    comps 4 0 {} (dmsText t sep D M S F) = .ok (slotsOf t D M S F) := by
  have hneM : ∀ r : Bytes, M ++ r ≠ [] := by intro r; cases M <;> simp_all
  have hneS : ∀ r : Bytes, S ++ r ≠ [] := by intro r; cases S <;> simp_all
  have ht' : t = 0 ∨ t = 1 ∨ t = 2 := by omega
  rcases ht' with rfl | rfl | rfl
  · -- degrees only
    simp only [dmsText, slotsOf, if_true]
    rw [comps_last_plain 3 0 {} D F hD hF nD (by decide)]; rfl
  · rcases hsep with rfl | rfl
    · simp only [dmsText, slotsOf]
      simp only [Nat.one_ne_zero, if_false, if_true, ne_eq, not_true_eq_false]
      rw [comps_whole_ind 3 0 0 {} D _ 100 hD nD (by simp) ind_d (by decide) (by decide) (hneM _)]
      rw [comps_last_ind 2 1 1 _ M F 39 hM hF nM (by simp) ind_m (by decide) (by decide)]
      rfl
    · simp only [dmsText, slotsOf]
      simp only [Nat.one_ne_zero, if_false, ne_eq, Nat.reduceEqDiff, not_false_eq_true, if_true, List.append_nil]
      rw [comps_whole_colon 3 0 {} D _ hD nD (by decide) (hneM _)]
      rw [comps_last_plain 2 1 _ M F hM hF nM (by decide)]
      rfl
  · rcases hsep with rfl | rfl
    · simp only [dmsText, slotsOf]
      simp only [Nat.reduceEqDiff, if_false, if_true, ne_eq, not_true_eq_false]
      rw [comps_whole_ind 3 0 0 {} D _ 100 hD nD (by simp) ind_d (by decide) (by decide) (hneM _)]
      rw [comps_whole_ind 2 1 1 _ M _ 39 hM nM (by simp) ind_m (by decide) (by decide) (hneS _)]
      rw [comps_last_ind 1 2 2 _ S F 34 hS hF nS (by simp) ind_s (by decide) (by decide)]
      rfl
    · simp only [dmsText, slotsOf]
      simp only [Nat.reduceEqDiff, if_false, ne_eq, not_false_eq_true, if_true, List.append_nil]
      rw [comps_whole_colon 3 0 {} D _ hD nD (by decide) (hneM _)]
      rw [comps_whole_colon 2 1 _ M _ hM nM (by decide) (hneS _)]
      rw [comps_last_plain 1 2 _ S F hS hF nS (by decide)]
      rfl

end GeoVerif.DMSProofs
