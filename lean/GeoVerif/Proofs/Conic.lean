import GeoVerif.Model.Conic
import GeoVerif.Spec.RealInst
import Mathlib.Tactic.Ring
import Mathlib.Tactic.LinearCombination
import Mathlib.Tactic.FieldSimp
import Mathlib.Tactic.Positivity
import Mathlib.Tactic.NormNum
import Mathlib.Tactic.Linarith
/-!
# Helper lemmas for C11: the real-number reading of the small kernels of `Model/Conic.lean`
-/
namespace GeoVerif.Proofs.Conic
open GeoVerif GeoVerif.Conic

theorem one_real : (@OfNat.ofNat ℝ 1 RealLike.Lits.instLit) = (1 : ℝ) := by rw [lit_real]; try norm_num
theorem zero_real : (@OfNat.ofNat ℝ 0 RealLike.Lits.instLit) = (0 : ℝ) := by rw [lit_real]; try norm_num
theorem two_real : (@OfNat.ofNat ℝ 2 RealLike.Lits.instLit) = (2 : ℝ) := by rw [lit_real]; try norm_num

@[simp] theorem exp_real (x : ℝ) : RealLike.exp x = Real.exp x := rfl
@[simp] theorem log_real (x : ℝ) : RealLike.log x = Real.log x := rfl
@[simp] theorem sinh_real (x : ℝ) : RealLike.sinh x = Real.sinh x := rfl
@[simp] theorem asinh_real (x : ℝ) : RealLike.asinh x = Real.arsinh x := rfl
@[simp] theorem atan_real (x : ℝ) : RealLike.atan x = Real.arctan x := rfl
@[simp] theorem atanh_real (x : ℝ) : RealLike.atanh x = Real.log ((1 + x) / (1 - x)) / 2 := rfl

/-- `hyp x = √(1 + x²)` -/
theorem hyp_real (x : ℝ) : hyp x = Real.sqrt (1 + x ^ 2) := by
  simp only [hyp, hypot_real, one_real]; norm_num

theorem hyp_pos (x : ℝ) : 0 < hyp x := by
  rw [hyp_real]; exact Real.sqrt_pos.mpr (by positivity)

theorem hyp_sq (x : ℝ) : hyp x ^ 2 = 1 + x ^ 2 := by
  rw [hyp_real]; exact Real.sq_sqrt (by positivity)

/-- `|x| < hyp x` -/
theorem abs_lt_hyp (x : ℝ) : |x| < hyp x := by
  have h := hyp_sq x
  have hp := hyp_pos x
  by_contra hc
  have hc := not_lt.mp hc
  have : hyp x ^ 2 ≤ |x| ^ 2 := by
    exact pow_le_pow_left₀ hp.le hc 2
  rw [sq_abs] at this
  linarith

theorem isfin_real (x : ℝ) : isfin x = true := by
  simp [isfin, zero_real]

/-- over the reals `log1p x = log (1 + x)` -/
theorem log1p_real (x : ℝ) : log1p x = Real.log (1 + x) := by
  unfold log1p
  simp only [one_real, eqb_real, log_real]
  by_cases h : (1 : ℝ) + x = 1
  · have hx : x = 0 := by linarith
    simp [hx]
  · have hx : x ≠ 0 := fun h0 => h (by rw [h0]; ring)
    simp only [h, decide_false, Bool.false_eq_true, if_false]
    have : (1 : ℝ) + x - 1 = x := by ring
    rw [this]
    field_simp

end GeoVerif.Proofs.Conic
