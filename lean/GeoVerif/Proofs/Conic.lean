import GeoVerif.Model.Conic
import GeoVerif.Model.ConicKernels
import GeoVerif.Spec.RealInst
import Mathlib.Tactic.Ring
import Mathlib.Tactic.LinearCombination
import Mathlib.Tactic.FieldSimp
import Mathlib.Tactic.Positivity
import Mathlib.Tactic.NormNum
import Mathlib.Tactic.Linarith
/-!
# Helper lemmas for C11: the real-number reading of the small kernels of `Model/Conic.lean`
-/
namespace GeoVerif.Proofs.Conic
open GeoVerif GeoVerif.Conic

theorem one_real : (@OfNat.ofNat ℝ 1 RealLike.Lits.instLit) = (1 : ℝ) := by rw [lit_real]; try norm_num
theorem zero_real : (@OfNat.ofNat ℝ 0 RealLike.Lits.instLit) = (0 : ℝ) := by rw [lit_real]; try norm_num
theorem two_real : (@OfNat.ofNat ℝ 2 RealLike.Lits.instLit) = (2 : ℝ) := by rw [lit_real]; try norm_num
theorem three_real : (@OfNat.ofNat ℝ 3 RealLike.Lits.instLit) = (3 : ℝ) := by rw [lit_real]; try norm_num
theorem four_real : (@OfNat.ofNat ℝ 4 RealLike.Lits.instLit) = (4 : ℝ) := by rw [lit_real]; try norm_num

@[simp] theorem exp_real (x : ℝ) : RealLike.exp x = Real.exp x := rfl
@[simp] theorem log_real (x : ℝ) : RealLike.log x = Real.log x := rfl
@[simp] theorem sinh_real (x : ℝ) : RealLike.sinh x = Real.sinh x := rfl
@[simp] theorem asinh_real (x : ℝ) : RealLike.asinh x = Real.arsinh x := rfl
@[simp] theorem atan_real (x : ℝ) : RealLike.atan x = Real.arctan x := rfl
@[simp] theorem atanh_real (x : ℝ) : RealLike.atanh x = Real.log ((1 + x) / (1 - x)) / 2 := rfl

/-- `hyp x = √(1 + x²)` -/
theorem hyp_real (x : ℝ) : hyp x = Real.sqrt (1 + x ^ 2) := by
  simp only [hyp, hypot_real, one_real]; norm_num

theorem hyp_pos (x : ℝ) : 0 < hyp x := by
  rw [hyp_real]; exact Real.sqrt_pos.mpr (by positivity)

theorem hyp_sq (x : ℝ) : hyp x ^ 2 = 1 + x ^ 2 := by
  rw [hyp_real]; exact Real.sq_sqrt (by positivity)

/-- `|x| < hyp x` -/
theorem abs_lt_hyp (x : ℝ) : |x| < hyp x := by
  have h := hyp_sq x
  have hp := hyp_pos x
  by_contra hc
  have hc := not_lt.mp hc
  have : hyp x ^ 2 ≤ |x| ^ 2 := by
    exact pow_le_pow_left₀ hp.le hc 2
  rw [sq_abs] at this
  linarith

theorem isfin_real (x : ℝ) : isfin x = true := by
  simp [isfin, zero_real]

/-- over the reals `log1p x = log (1 + x)` -/
theorem log1p_real (x : ℝ) : log1p x = Real.log (1 + x) := by
  unfold log1p
  simp only [one_real, eqb_real, log_real]
  by_cases h : (1 : ℝ) + x = 1
  · have hx : x = 0 := by linarith
    simp [hx]
  · have hx : x ≠ 0 := fun h0 => h (by rw [h0]; ring)
    simp only [h, decide_false, Bool.false_eq_true, if_false]
    have : (1 : ℝ) + x - 1 = x := by ring
    rw [this]
    field_simp

/-- over the reals `expm1 x = exp x − 1` -/
theorem expm1_real (x : ℝ) : expm1 x = Real.exp x - 1 := by
  unfold expm1
  simp only [one_real, eqb_real, exp_real, log_real]
  by_cases h : Real.exp x = 1
  · have hx : x = 0 := by
      have := Real.exp_eq_one_iff x
      exact this.mp h
    simp [hx]
  · simp only [h, decide_false, Bool.false_eq_true, if_false]
    have hpos := Real.exp_pos x
    have h2 : ¬ (Real.exp x - 1 = -1) := by
      intro h'
      have : Real.exp x = 0 := by linarith
      linarith
    simp only [h2, decide_false, Bool.false_eq_true, if_false]
    rw [Real.log_exp]
    have hx : x ≠ 0 := by
      intro h0
      apply h
      rw [h0, Real.exp_zero]
    field_simp

/-- `exp(arsinh t) = t + hyp t` -/
theorem exp_arsinh_hyp (t : ℝ) : Real.exp (Real.arsinh t) = t + hyp t := by
  rw [Real.exp_arsinh, hyp_real]

/-- `exp(−arsinh t) = hyp t − t` -/
theorem exp_neg_arsinh_hyp (t : ℝ) : Real.exp (-Real.arsinh t) = hyp t - t := by
  rw [Real.exp_neg, exp_arsinh_hyp]
  have h := hyp_sq t
  have hp : t + hyp t ≠ 0 := by
    have := abs_lt_hyp t
    have := neg_abs_le t
    linarith
  field_simp
  linear_combination -h

/-- `epPsi tchi (hyp tchi) = exp(psi)`, `psi = arsinh tchi` -/
theorem epPsi_real (t : ℝ) : epPsi t (hyp t) = Real.exp (Real.arsinh t) := by
  unfold epPsi
  simp only [leb_real, zero_real, one_real]
  by_cases h : 0 ≤ t
  · simp only [h, decide_true, if_true]
    rw [exp_arsinh_hyp]; ring
  · simp only [h, decide_false, Bool.false_eq_true, if_false]
    rw [← exp_neg_arsinh_hyp, Real.exp_neg]
    simp

/-- `emPsi tchi (hyp tchi) = exp(−psi)` -/
theorem emPsi_real (t : ℝ) : emPsi t (hyp t) = Real.exp (-Real.arsinh t) := by
  unfold emPsi
  simp only [ltb_real, zero_real, one_real]
  by_cases h : 0 < t
  · simp only [h, decide_true, if_true]
    rw [Real.exp_neg, exp_arsinh_hyp]
    simp [add_comm]
  · simp only [h, decide_false, Bool.false_eq_true, if_false]
    rw [exp_neg_arsinh_hyp]

theorem fmax_real (a b : ℝ) : fmax a b = max a b := by
  unfold fmax
  simp only [ltb_real]
  by_cases h : a < b
  · simp [h, max_eq_right h.le]
  · simp [h, max_eq_left (not_lt.mp h)]

end GeoVerif.Proofs.Conic
