import GeoVerif.Model.Elliptic
import GeoVerif.Spec.RealInstX
import Mathlib.Tactic.Ring
import Mathlib.Tactic.FieldSimp
import Mathlib.Tactic.Linarith
import Mathlib.Tactic.Positivity
import Mathlib.Tactic.NormNum
/-!
# Carlson's duplication algorithms (`Model/Elliptic.lean` read at `ℝ`): lemmas for `Props/C15.lean`

The duplication theorem itself (`R_F(x,y,z) = R_F((x+λ)/4, (y+λ)/4, (z+λ)/4)`) is an identity between integrals and is
not attempted.  What is proved here are the algebraic facts the algorithm relies on, about the *executed* definitions:
the loop keeps `Aₙ` the (weighted) mean of the current arguments, the deviations shrink by exactly 4 per trip, so that
the `X, Y, Z` computed from the *original* arguments are the relative deviations of the *current* ones; leaving the loop
through its test bounds them by the tolerance, whose eighth power is the documented multiple of `ε`; every trip and the
final series are symmetric in the arguments the integral is symmetric in; the `E₂ … E₅` are the elementary symmetric
functions of the deviations; `R_C`'s closed forms satisfy the degenerate duplication `R_C(x,y) = 2 R_C(x+λ, y+λ)`,
`λ = y + 2√x√y`; `RG`'s permutation makes `z` the median argument.
-/
namespace GeoVerif.Proofs.Carlson
open GeoVerif GeoVerif.Elliptic GeoVerif.RealLike GeoVerif.RealX Real

/-! ### unfolding the literals -/

theorem ofDec_real (n k : ℕ) : (RealLike.ofDec n k : ℝ) = (n : ℝ) / 10 ^ k := rfl
@[simp] theorem max_real (x y : ℝ) : RealLike.max x y = Max.max x y := rfl
@[simp] theorem atan_real (x : ℝ) : RealLike.atan x = Real.arctan x := rfl
@[simp] theorem asinh_real (x : ℝ) : RealLike.asinh x = Real.arsinh x := rfl

/-- three square roots are an eighth root -/
theorem sqrt3_pow8 (a : ℝ) (ha : 0 ≤ a) : (√√√a) ^ 8 = a := by
  have h1 := Real.sq_sqrt ha
  have h2 := Real.sq_sqrt (Real.sqrt_nonneg a)
  have h3 := Real.sq_sqrt (Real.sqrt_nonneg √a)
  calc (√√√a) ^ 8 = (((√√√a) ^ 2) ^ 2) ^ 2 := by ring
    _ = a := by rw [h3, h2, h1]

theorem sqrt3_pos (a : ℝ) (ha : 0 < a) : 0 < √√√a :=
  Real.sqrt_pos.2 (Real.sqrt_pos.2 (Real.sqrt_pos.2 ha))

theorem tolRF_pow : (tolRF : ℝ) ^ 8 = 3 / 100 * (1 / 2 ^ 52) ∧ (0 : ℝ) < tolRF := by
  have e : (tolRF : ℝ) = √√√(3 / 100 * (1 / 2 ^ 52)) := by
    unfold tolRF
    simp only [sqrt_real, lit_real, eps_real, ofDec_real]
    congr 3; norm_num
  rw [e]
  exact ⟨sqrt3_pow8 _ (by positivity), sqrt3_pos _ (by positivity)⟩

theorem tolRD_pow : (tolRD : ℝ) ^ 8 = 1 / 500 * (1 / 2 ^ 52) ∧ (0 : ℝ) < tolRD := by
  have e : (tolRD : ℝ) = √√√(1 / 500 * (1 / 2 ^ 52)) := by
    unfold tolRD
    simp only [sqrt_real, eps_real, ofDec_real]
    congr 3; norm_num
  rw [e]
  exact ⟨sqrt3_pow8 _ (by positivity), sqrt3_pos _ (by positivity)⟩

/-! ### one duplication step -/

/-- `x + λ = (√x + √y)(√x + √z)` and cyclically: the duplicated arguments are positive unless two arguments vanish -/
theorem lam_factor (x y z : ℝ) (hx : 0 ≤ x) (hy : 0 ≤ y) (hz : 0 ≤ z) :
    x + lam x y z = (√x + √y) * (√x + √z) ∧ y + lam x y z = (√y + √z) * (√y + √x) ∧
    z + lam x y z = (√z + √x) * (√z + √y) := by
  have h1 := Real.mul_self_sqrt hx
  have h2 := Real.mul_self_sqrt hy
  have h3 := Real.mul_self_sqrt hz
  unfold lam; simp only [sqrt_real]
  refine ⟨by linear_combination (-1) * h1, by linear_combination (-1) * h2, by linear_combination (-1) * h3⟩

theorem lam_swapXY (x y z : ℝ) : lam y x z = lam x y z := by unfold lam; ring
theorem lam_swapYZ (x y z : ℝ) : lam x z y = lam x y z := by unfold lam; ring

theorem lam_nonneg (x y z : ℝ) : 0 ≤ lam x y z := by
  unfold lam; simp only [sqrt_real]
  have := Real.sqrt_nonneg x; have := Real.sqrt_nonneg y; have := Real.sqrt_nonneg z
  positivity

theorem sqrt_add_sqrt_pos {x y : ℝ} (h : 0 < x + y) : 0 < √x + √y := by
  by_cases hx0 : 0 < x
  · have := Real.sqrt_pos.2 hx0; have := Real.sqrt_nonneg y; linarith
  · have hy0 : 0 < y := by linarith
    have := Real.sqrt_pos.2 hy0; have := Real.sqrt_nonneg x; linarith

/-- a trip of `RF`: the deviations from `An` shrink by exactly 4, `mul` grows by 4 -/
theorem rfStep_dev (s : Dup ℝ) :
    (rfStep s).An - (rfStep s).x0 = (s.An - s.x0) / 4 ∧ (rfStep s).An - (rfStep s).y0 = (s.An - s.y0) / 4 ∧
    (rfStep s).An - (rfStep s).z0 = (s.An - s.z0) / 4 ∧ (rfStep s).mul = s.mul * 4 := by
  unfold rfStep; simp only [lit_real]; push_cast
  refine ⟨by ring, by ring, by ring, trivial⟩

/-- a trip of `RF` keeps `An` the mean of the arguments -/
theorem rfStep_mean (s : Dup ℝ) (h : s.An = (s.x0 + s.y0 + s.z0) / 3) :
    (rfStep s).An = ((rfStep s).x0 + (rfStep s).y0 + (rfStep s).z0) / 3 := by
  unfold rfStep; simp only [lit_real]; push_cast; rw [h]; ring

/-- a trip of `RF` maps non-negative arguments, at most one of them zero, to positive ones -/
theorem rfStep_pos (s : Dup ℝ) (hx : 0 ≤ s.x0) (hy : 0 ≤ s.y0) (hz : 0 ≤ s.z0)
    (h2 : 0 < s.x0 + s.y0 ∧ 0 < s.y0 + s.z0 ∧ 0 < s.z0 + s.x0) :
    0 < (rfStep s).x0 ∧ 0 < (rfStep s).y0 ∧ 0 < (rfStep s).z0 := by
  obtain ⟨f1, f2, f3⟩ := lam_factor s.x0 s.y0 s.z0 hx hy hz
  have p1 := sqrt_add_sqrt_pos h2.1
  have p2 := sqrt_add_sqrt_pos h2.2.1
  have p3 := sqrt_add_sqrt_pos h2.2.2
  have q1 : 0 < √s.x0 + √s.z0 := by linarith
  have q2 : 0 < √s.y0 + √s.x0 := by linarith
  have q3 : 0 < √s.z0 + √s.y0 := by linarith
  unfold rfStep; simp only [lit_real]; push_cast
  refine ⟨?_, ?_, ?_⟩
  · rw [f1]; positivity
  · rw [f2]; positivity
  · rw [f3]; positivity

/-! ### the loop of `RF` -/

/-- the invariant of the loop, for every trip budget: after the loop `mul · (An − x0)` is what it was before -/
theorem rfLoop_inv (Q : ℝ) (n : ℕ) (s : Dup ℝ) :
    (rfLoop Q n s).mul * ((rfLoop Q n s).An - (rfLoop Q n s).x0) = s.mul * (s.An - s.x0) ∧
    (rfLoop Q n s).mul * ((rfLoop Q n s).An - (rfLoop Q n s).y0) = s.mul * (s.An - s.y0) ∧
    (rfLoop Q n s).mul * ((rfLoop Q n s).An - (rfLoop Q n s).z0) = s.mul * (s.An - s.z0) ∧
    ∃ m : ℕ, m ≤ n ∧ (rfLoop Q n s).mul = s.mul * 4 ^ m := by
  induction n generalizing s with
  | zero => exact ⟨rfl, rfl, rfl, 0, le_rfl, by simp [rfLoop]⟩
  | succ n ih =>
    simp only [rfLoop]
    split
    · obtain ⟨i1, i2, i3, m, hm, i4⟩ := ih (rfStep s)
      obtain ⟨d1, d2, d3, d4⟩ := rfStep_dev s
      refine ⟨?_, ?_, ?_, m + 1, by omega, ?_⟩
      · rw [i1, d1, d4]; ring
      · rw [i2, d2, d4]; ring
      · rw [i3, d3, d4]; ring
      · rw [i4, d4]; ring
    · exact ⟨rfl, rfl, rfl, 0, by omega, by simp⟩

theorem rfLoop_mean (Q : ℝ) (n : ℕ) (s : Dup ℝ) (h : s.An = (s.x0 + s.y0 + s.z0) / 3) :
    (rfLoop Q n s).An = ((rfLoop Q n s).x0 + (rfLoop Q n s).y0 + (rfLoop Q n s).z0) / 3 := by
  induction n generalizing s with
  | zero => exact h
  | succ n ih =>
    simp only [rfLoop]
    split
    · exact ih _ (rfStep_mean s h)
    · exact h

theorem rfLoop_pos (Q : ℝ) (n : ℕ) (s : Dup ℝ) (hx : 0 ≤ s.x0) (hy : 0 ≤ s.y0) (hz : 0 ≤ s.z0)
    (h2 : 0 < s.x0 + s.y0 ∧ 0 < s.y0 + s.z0 ∧ 0 < s.z0 + s.x0) :
    0 ≤ (rfLoop Q n s).x0 ∧ 0 ≤ (rfLoop Q n s).y0 ∧ 0 ≤ (rfLoop Q n s).z0 ∧
    0 < (rfLoop Q n s).x0 + (rfLoop Q n s).y0 ∧ 0 < (rfLoop Q n s).y0 + (rfLoop Q n s).z0 ∧
    0 < (rfLoop Q n s).z0 + (rfLoop Q n s).x0 := by
  induction n generalizing s with
  | zero => exact ⟨hx, hy, hz, h2⟩
  | succ n ih =>
    simp only [rfLoop]
    split
    · obtain ⟨p1, p2, p3⟩ := rfStep_pos s hx hy hz h2
      exact ih _ p1.le p2.le p3.le ⟨by linarith, by linarith, by linarith⟩
    · exact ⟨hx, hy, hz, h2⟩

/-- the loop ends either because its test failed or because the trip budget is used up -/
theorem rfLoop_exit (Q : ℝ) (n : ℕ) (s : Dup ℝ) :
    ¬ ((rfLoop Q n s).mul * |(rfLoop Q n s).An| ≤ Q) ∨ (rfLoop Q n s).mul = s.mul * 4 ^ n := by
  induction n generalizing s with
  | zero => right; simp [rfLoop]
  | succ n ih =>
    simp only [rfLoop]
    split
    · rcases ih (rfStep s) with h | h
      · exact Or.inl h
      · right; rw [h, (rfStep_dev s).2.2.2]; ring
    · next h =>
      left
      simpa only [leb_real, abs_real, decide_eq_true_eq] using h

theorem rfRun_eq (x y z : ℝ) : rfRun x y z = rfLoop (rfQ x y z) trips ⟨(x + y + z) / 3, x, y, z, 1⟩ := by
  unfold rfRun; simp only [lit_real]; push_cast; rfl

/-- `X = (A0 − x)/(mul·An)` computed from the original arguments is the relative deviation `(An − x0)/An` of the current
    ones (for `RF`: `A0 = (x+y+z)/3`, `mul = 1` initially) -/
theorem rf_X_eq (x y z : ℝ) (hA : (rfRun x y z).An ≠ 0) :
    let A0 := (x + y + z) / 3
    let s := rfRun x y z
    (A0 - x) / (s.mul * s.An) = (s.An - s.x0) / s.An ∧ (A0 - y) / (s.mul * s.An) = (s.An - s.y0) / s.An ∧
    -((A0 - x) / (s.mul * s.An) + (A0 - y) / (s.mul * s.An)) = (s.An - s.z0) / s.An := by
  intro A0 s
  obtain ⟨i1, i2, i3, m, -, i4⟩ := rfLoop_inv (rfQ x y z) trips ⟨A0, x, y, z, 1⟩
  have hm := rfLoop_mean (rfQ x y z) trips ⟨A0, x, y, z, 1⟩ rfl
  rw [← rfRun_eq] at i1 i2 i3 i4 hm
  change s.mul * (s.An - s.x0) = 1 * (A0 - x) at i1
  change s.mul * (s.An - s.y0) = 1 * (A0 - y) at i2
  change s.mul * (s.An - s.z0) = 1 * (A0 - z) at i3
  change s.mul = 1 * 4 ^ m at i4
  change s.An = (s.x0 + s.y0 + s.z0) / 3 at hm
  have hmul : s.mul ≠ 0 := by rw [i4]; positivity
  have hA : s.An ≠ 0 := hA
  have e1 : A0 - x = s.mul * (s.An - s.x0) := by rw [i1]; ring
  have e2 : A0 - y = s.mul * (s.An - s.y0) := by rw [i2]; ring
  refine ⟨?_, ?_, ?_⟩
  · rw [e1]; field_simp
  · rw [e2]; field_simp
  · rw [e1, e2]; field_simp; rw [hm]; ring

theorem le_max3 (a b c : ℝ) : a ≤ max3 a b c ∧ b ≤ max3 a b c ∧ c ≤ max3 a b c := by
  unfold max3; simp only [max_real]
  exact ⟨le_trans (le_max_left a b) (le_max_left _ c), le_trans (le_max_right a b) (le_max_left _ c), le_max_right _ c⟩

theorem max3_swapXY (a b c : ℝ) : max3 b a c = max3 a b c := by
  unfold max3; simp only [max_real]; rw [max_comm b a]

theorem max3_swapYZ (a b c : ℝ) : max3 a c b = max3 a b c := by
  unfold max3; simp only [max_real]; exact max_right_comm a c b

/-- leaving a duplication loop through its test `Q < mul·|A|`, `Q ≥ |d|/tol`, bounds the relative deviation `d/(mul·A)` -/
theorem exit_bound_aux {d Q tol m A : ℝ} (htol : 0 < tol) (hm : 0 < m) (hd : |d| / tol ≤ Q) (hQ : Q < m * |A|) :
    |d / (m * A)| < tol := by
  have hpos : 0 < m * |A| := lt_of_le_of_lt ((div_nonneg (abs_nonneg d) htol.le).trans hd) hQ
  have h1 : |d| ≤ Q * tol := (div_le_iff₀ htol).1 hd
  rw [abs_div, abs_mul, abs_of_pos hm, div_lt_iff₀ hpos]
  nlinarith

/-- if the loop of `RF` ended through its test (not through the trip cap), the three relative deviations are below
    `tolRF`, hence their eighth powers below `3ε/100` -/
theorem rf_exit_bound (x y z : ℝ)
    (hexit : ¬ ((rfRun x y z).mul * |(rfRun x y z).An| ≤ rfQ x y z)) :
    let A0 := (x + y + z) / 3
    let s := rfRun x y z
    |(A0 - x) / (s.mul * s.An)| < tolRF ∧ |(A0 - y) / (s.mul * s.An)| < tolRF ∧ |(A0 - z) / (s.mul * s.An)| < tolRF := by
  intro A0 s
  obtain ⟨-, -, -, m, -, i4⟩ := rfLoop_inv (rfQ x y z) trips ⟨A0, x, y, z, 1⟩
  rw [← rfRun_eq] at i4
  change s.mul = 1 * 4 ^ m at i4
  have hmul : 0 < s.mul := by rw [i4]; positivity
  have hQ : rfQ x y z < s.mul * |s.An| := not_le.1 hexit
  have hQe : rfQ x y z = max3 |A0 - x| |A0 - y| |A0 - z| / tolRF := by
    unfold rfQ; simp only [lit_real, abs_real]; push_cast; rfl
  have ht := tolRF_pow.2
  obtain ⟨m1, m2, m3⟩ := le_max3 |A0 - x| |A0 - y| |A0 - z|
  rw [hQe] at hQ
  exact ⟨exit_bound_aux ht hmul (div_le_div_of_nonneg_right m1 ht.le) hQ,
    exit_bound_aux ht hmul (div_le_div_of_nonneg_right m2 ht.le) hQ,
    exit_bound_aux ht hmul (div_le_div_of_nonneg_right m3 ht.le) hQ⟩

/-- the eighth-power form of `rf_exit_bound`: each relative deviation satisfies `|X|⁸ < 3ε/100` -/
theorem rf_exit_bound_pow8 (x y z : ℝ)
    (hexit : ¬ ((rfRun x y z).mul * |(rfRun x y z).An| ≤ rfQ x y z)) :
    let A0 := (x + y + z) / 3
    let s := rfRun x y z
    |(A0 - x) / (s.mul * s.An)| ^ 8 < 3 / 100 * (1 / 2 ^ 52) ∧ |(A0 - y) / (s.mul * s.An)| ^ 8 < 3 / 100 * (1 / 2 ^ 52) ∧
    |(A0 - z) / (s.mul * s.An)| ^ 8 < 3 / 100 * (1 / 2 ^ 52) := by
  intro A0 s
  obtain ⟨b1, b2, b3⟩ := rf_exit_bound x y z hexit
  rw [← tolRF_pow.1]
  exact ⟨pow_lt_pow_left₀ b1 (abs_nonneg _) (by norm_num), pow_lt_pow_left₀ b2 (abs_nonneg _) (by norm_num),
    pow_lt_pow_left₀ b3 (abs_nonneg _) (by norm_num)⟩

/-! ### symmetry -/

def _root_.GeoVerif.Elliptic.Dup.swapXY (s : Dup ℝ) : Dup ℝ := ⟨s.An, s.y0, s.x0, s.z0, s.mul⟩
def _root_.GeoVerif.Elliptic.Dup.swapYZ (s : Dup ℝ) : Dup ℝ := ⟨s.An, s.x0, s.z0, s.y0, s.mul⟩

theorem rfStep_swapXY (s : Dup ℝ) : rfStep s.swapXY = (rfStep s).swapXY := by
  unfold rfStep Dup.swapXY; simp only [lam_swapXY s.x0 s.y0 s.z0]
theorem rfStep_swapYZ (s : Dup ℝ) : rfStep s.swapYZ = (rfStep s).swapYZ := by
  unfold rfStep Dup.swapYZ; simp only [lam_swapYZ s.x0 s.y0 s.z0]

theorem rfLoop_swapXY (Q : ℝ) (n : ℕ) (s : Dup ℝ) : rfLoop Q n s.swapXY = (rfLoop Q n s).swapXY := by
  induction n generalizing s with
  | zero => rfl
  | succ n ih =>
    simp only [rfLoop]
    rw [rfStep_swapXY, ih]
    show (if leb (s.mul * RealLike.abs s.An) Q = true then _ else _) = _
    split <;> rfl
theorem rfLoop_swapYZ (Q : ℝ) (n : ℕ) (s : Dup ℝ) : rfLoop Q n s.swapYZ = (rfLoop Q n s).swapYZ := by
  induction n generalizing s with
  | zero => rfl
  | succ n ih =>
    simp only [rfLoop]
    rw [rfStep_swapYZ, ih]
    show (if leb (s.mul * RealLike.abs s.An) Q = true then _ else _) = _
    split <;> rfl

theorem rfQ_swapXY (x y z : ℝ) : rfQ y x z = rfQ x y z := by
  unfold rfQ; simp only [lit_real]; push_cast
  rw [max3_swapXY, show y + x + z = x + y + z by ring]
theorem rfQ_swapYZ (x y z : ℝ) : rfQ x z y = rfQ x y z := by
  unfold rfQ; simp only [lit_real]; push_cast
  rw [max3_swapYZ, show x + z + y = x + y + z by ring]

theorem rfRun_swapXY (x y z : ℝ) : rfRun y x z = (rfRun x y z).swapXY := by
  rw [rfRun_eq, rfRun_eq, rfQ_swapXY, ← rfLoop_swapXY, show y + x + z = x + y + z by ring]; rfl
theorem rfRun_swapYZ (x y z : ℝ) : rfRun x z y = (rfRun x y z).swapYZ := by
  rw [rfRun_eq, rfRun_eq, rfQ_swapYZ, ← rfLoop_swapYZ, show x + z + y = x + y + z by ring]; rfl

/-- the model of `RF(x, y, z)` is symmetric under every permutation of its arguments (the code is not syntactically
    symmetric: `Z` is formed as `−(X+Y)`) -/
theorem rf3_symm (x y z : ℝ) : rf3 x y z = rf3 y x z ∧ rf3 x y z = rf3 x z y := by
  constructor
  · unfold rf3
    rw [rfRun_swapXY x y z]
    simp only [Dup.swapXY, lit_real]; push_cast
    rw [show y + x + z = x + y + z by ring]
    unfold rfTail; ring
  · unfold rf3
    rw [rfRun_swapYZ x y z]
    simp only [Dup.swapYZ, lit_real]; push_cast
    rw [show x + z + y = x + y + z by ring]
    have hZ : ((x + y + z) / 3 - z) / ((rfRun x y z).mul * (rfRun x y z).An) =
        -(((x + y + z) / 3 - x) / ((rfRun x y z).mul * (rfRun x y z).An) +
          ((x + y + z) / 3 - y) / ((rfRun x y z).mul * (rfRun x y z).An)) := by
      rw [← add_div, ← neg_div]; congr 1; ring
    rw [hZ]
    unfold rfTail; ring

/-! ### `RD` -/

theorem rdStep_dev (s : Dup ℝ) (sm : ℝ) :
    (rdStep s sm).1.An - (rdStep s sm).1.x0 = (s.An - s.x0) / 4 ∧ (rdStep s sm).1.An - (rdStep s sm).1.y0 = (s.An - s.y0) / 4 ∧
    (rdStep s sm).1.An - (rdStep s sm).1.z0 = (s.An - s.z0) / 4 ∧ (rdStep s sm).1.mul = s.mul * 4 := by
  unfold rdStep; simp only [lit_real]; push_cast
  refine ⟨by ring, by ring, by ring, trivial⟩

/-- a trip of `RD` keeps `An` the weighted mean `(x + y + 3z)/5` -/
theorem rdStep_mean (s : Dup ℝ) (sm : ℝ) (h : s.An = (s.x0 + s.y0 + 3 * s.z0) / 5) :
    (rdStep s sm).1.An = ((rdStep s sm).1.x0 + (rdStep s sm).1.y0 + 3 * (rdStep s sm).1.z0) / 5 := by
  unfold rdStep; simp only [lit_real]; push_cast; rw [h]; ring

/-- `rdLoop_inv` together with `mul = 4ᵐ · mul₀` -/
theorem rdLoop_inv' (Q : ℝ) (n : ℕ) (s : Dup ℝ) (sm : ℝ) :
    (rdLoop Q n s sm).1.mul * ((rdLoop Q n s sm).1.An - (rdLoop Q n s sm).1.x0) = s.mul * (s.An - s.x0) ∧
    (rdLoop Q n s sm).1.mul * ((rdLoop Q n s sm).1.An - (rdLoop Q n s sm).1.y0) = s.mul * (s.An - s.y0) ∧
    (rdLoop Q n s sm).1.mul * ((rdLoop Q n s sm).1.An - (rdLoop Q n s sm).1.z0) = s.mul * (s.An - s.z0) ∧
    (∃ m : ℕ, m ≤ n ∧ (rdLoop Q n s sm).1.mul = s.mul * 4 ^ m) ∧
    (s.An = (s.x0 + s.y0 + 3 * s.z0) / 5 →
      (rdLoop Q n s sm).1.An = ((rdLoop Q n s sm).1.x0 + (rdLoop Q n s sm).1.y0 + 3 * (rdLoop Q n s sm).1.z0) / 5) := by
  induction n generalizing s sm with
  | zero => exact ⟨rfl, rfl, rfl, ⟨0, le_rfl, by simp [rdLoop]⟩, fun h => h⟩
  | succ n ih =>
    simp only [rdLoop]
    split
    · obtain ⟨i1, i2, i3, ⟨m, hm, i4⟩, i5⟩ := ih (rdStep s sm).1 (rdStep s sm).2
      obtain ⟨d1, d2, d3, d4⟩ := rdStep_dev s sm
      refine ⟨?_, ?_, ?_, ⟨m + 1, by omega, ?_⟩, fun h => i5 (rdStep_mean s sm h)⟩
      · rw [i1, d1, d4]; ring
      · rw [i2, d2, d4]; ring
      · rw [i3, d3, d4]; ring
      · rw [i4, d4]; ring
    · exact ⟨rfl, rfl, rfl, ⟨0, by omega, by simp⟩, fun h => h⟩

theorem rdLoop_inv (Q : ℝ) (n : ℕ) (s : Dup ℝ) (sm : ℝ) :
    let t := (rdLoop Q n s sm).1
    t.mul * (t.An - t.x0) = s.mul * (s.An - s.x0) ∧ t.mul * (t.An - t.y0) = s.mul * (s.An - s.y0) ∧
    t.mul * (t.An - t.z0) = s.mul * (s.An - s.z0) ∧ (s.An = (s.x0 + s.y0 + 3 * s.z0) / 5 → t.An = (t.x0 + t.y0 + 3 * t.z0) / 5) := by
  intro t
  obtain ⟨i1, i2, i3, -, i5⟩ := rdLoop_inv' Q n s sm
  exact ⟨i1, i2, i3, i5⟩

theorem rdStep_swapXY (s : Dup ℝ) (sm : ℝ) : rdStep s.swapXY sm = ((rdStep s sm).1.swapXY, (rdStep s sm).2) := by
  unfold rdStep Dup.swapXY; simp only [lam_swapXY s.x0 s.y0 s.z0]

theorem rdLoop_swapXY (Q : ℝ) (n : ℕ) (s : Dup ℝ) (sm : ℝ) :
    rdLoop Q n s.swapXY sm = ((rdLoop Q n s sm).1.swapXY, (rdLoop Q n s sm).2) := by
  induction n generalizing s sm with
  | zero => rfl
  | succ n ih =>
    simp only [rdLoop]
    rw [rdStep_swapXY, ih]
    show (if leb (s.mul * RealLike.abs s.An) Q = true then _ else _) = _
    split <;> rfl

theorem rdQ_swapXY (x y z : ℝ) : rdQ y x z = rdQ x y z := by
  unfold rdQ; simp only [lit_real]; push_cast
  rw [max3_swapXY, show y + x + 3 * z = x + y + 3 * z by ring]

theorem rdRun_eq (x y z : ℝ) :
    rdRun x y z = rdLoop (rdQ x y z) trips ⟨(x + y + 3 * z) / 5, x, y, z, 1⟩ 0 := by
  unfold rdRun; simp only [lit_real]; push_cast; rfl

theorem rdRun_swapXY (x y z : ℝ) : rdRun y x z = ((rdRun x y z).1.swapXY, (rdRun x y z).2) := by
  rw [rdRun_eq, rdRun_eq, rdQ_swapXY, ← rdLoop_swapXY, show y + x + 3 * z = x + y + 3 * z by ring]; rfl

theorem rdE_comm (X Y : ℝ) : rdE Y X = rdE X Y := by
  unfold rdE; simp only [lit_real]; push_cast
  refine Prod.ext ?_ (Prod.ext ?_ (Prod.ext ?_ ?_)) <;> simp only <;> ring

/-- the model of `RD(x, y, z)` is symmetric in its first two arguments -/
theorem rd_symm (x y z : ℝ) : rd x y z = rd y x z := by
  unfold rd
  rw [rdRun_swapXY x y z]
  simp only [Dup.swapXY, lit_real]; push_cast
  rw [show y + x + 3 * z = x + y + 3 * z by ring, rdE_comm (((x + y + 3 * z) / 5 - y) / _)]

/-- `E₂ … E₅` of `RD` are the elementary symmetric functions of the five deviations `X, Y, Z, Z, Z` (`Z = −(X+Y)/3`) -/
theorem rdE_symmetric (X Y : ℝ) :
    let Z := -(X + Y) / 3
    rdE X Y = (X * Y + 3 * (X + Y) * Z + 3 * Z ^ 2,
               3 * X * Y * Z + 3 * (X + Y) * Z ^ 2 + Z ^ 3,
               3 * X * Y * Z ^ 2 + (X + Y) * Z ^ 3,
               X * Y * Z ^ 3) := by
  intro Z
  unfold rdE; simp only [lit_real]; push_cast
  refine Prod.ext ?_ (Prod.ext ?_ (Prod.ext ?_ ?_)) <;> simp only [Z] <;> ring

/-! ### `RJ` -/

theorem rjStep_dev (d : ℝ) (s : DupJ ℝ) :
    (rjStep d s).An - (rjStep d s).x0 = (s.An - s.x0) / 4 ∧ (rjStep d s).An - (rjStep d s).y0 = (s.An - s.y0) / 4 ∧
    (rjStep d s).An - (rjStep d s).z0 = (s.An - s.z0) / 4 ∧ (rjStep d s).An - (rjStep d s).p0 = (s.An - s.p0) / 4 ∧
    (rjStep d s).mul = s.mul * 4 ∧ (rjStep d s).mul3 = s.mul3 * 64 := by
  unfold rjStep; simp only [lit_real]; push_cast
  refine ⟨by ring, by ring, by ring, by ring, trivial, trivial⟩

/-- a trip of `RJ` keeps `An` the weighted mean `(x + y + z + 2p)/5` -/
theorem rjStep_mean (d : ℝ) (s : DupJ ℝ) (h : s.An = (s.x0 + s.y0 + s.z0 + 2 * s.p0) / 5) :
    (rjStep d s).An = ((rjStep d s).x0 + (rjStep d s).y0 + (rjStep d s).z0 + 2 * (rjStep d s).p0) / 5 := by
  unfold rjStep; simp only [lit_real]; push_cast; rw [h]; ring

/-- `rjLoop_inv` together with `mul = 4ᵐ · mul₀` -/
theorem rjLoop_inv' (Q d : ℝ) (n : ℕ) (s : DupJ ℝ) :
    (rjLoop Q d n s).mul * ((rjLoop Q d n s).An - (rjLoop Q d n s).x0) = s.mul * (s.An - s.x0) ∧
    (rjLoop Q d n s).mul * ((rjLoop Q d n s).An - (rjLoop Q d n s).y0) = s.mul * (s.An - s.y0) ∧
    (rjLoop Q d n s).mul * ((rjLoop Q d n s).An - (rjLoop Q d n s).z0) = s.mul * (s.An - s.z0) ∧
    (rjLoop Q d n s).mul * ((rjLoop Q d n s).An - (rjLoop Q d n s).p0) = s.mul * (s.An - s.p0) ∧
    (∃ m : ℕ, m ≤ n ∧ (rjLoop Q d n s).mul = s.mul * 4 ^ m) ∧
    (s.mul3 = s.mul ^ 3 → (rjLoop Q d n s).mul3 = (rjLoop Q d n s).mul ^ 3) ∧
    (s.An = (s.x0 + s.y0 + s.z0 + 2 * s.p0) / 5 →
      (rjLoop Q d n s).An =
        ((rjLoop Q d n s).x0 + (rjLoop Q d n s).y0 + (rjLoop Q d n s).z0 + 2 * (rjLoop Q d n s).p0) / 5) := by
  induction n generalizing s with
  | zero => exact ⟨rfl, rfl, rfl, rfl, ⟨0, le_rfl, by simp [rjLoop]⟩, fun h => h, fun h => h⟩
  | succ n ih =>
    simp only [rjLoop]
    split
    · obtain ⟨i1, i2, i3, i4, ⟨m, hm, i5⟩, i6, i7⟩ := ih (rjStep d s)
      obtain ⟨d1, d2, d3, d4, d5, d6⟩ := rjStep_dev d s
      refine ⟨?_, ?_, ?_, ?_, ⟨m + 1, by omega, ?_⟩, fun h => i6 ?_, fun h => i7 (rjStep_mean d s h)⟩
      · rw [i1, d1, d5]; ring
      · rw [i2, d2, d5]; ring
      · rw [i3, d3, d5]; ring
      · rw [i4, d4, d5]; ring
      · rw [i5, d5]; ring
      · rw [d5, d6, h]; ring
    · exact ⟨rfl, rfl, rfl, rfl, ⟨0, by omega, by simp⟩, fun h => h, fun h => h⟩

theorem rjLoop_inv (Q d : ℝ) (n : ℕ) (s : DupJ ℝ) :
    let t := rjLoop Q d n s
    t.mul * (t.An - t.x0) = s.mul * (s.An - s.x0) ∧ t.mul * (t.An - t.y0) = s.mul * (s.An - s.y0) ∧
    t.mul * (t.An - t.z0) = s.mul * (s.An - s.z0) ∧ t.mul * (t.An - t.p0) = s.mul * (s.An - s.p0) ∧
    (s.mul3 = s.mul ^ 3 → t.mul3 = t.mul ^ 3) ∧
    (s.An = (s.x0 + s.y0 + s.z0 + 2 * s.p0) / 5 → t.An = (t.x0 + t.y0 + t.z0 + 2 * t.p0) / 5) := by
  intro t
  obtain ⟨i1, i2, i3, i4, -, i6, i7⟩ := rjLoop_inv' Q d n s
  exact ⟨i1, i2, i3, i4, i6, i7⟩

def _root_.GeoVerif.Elliptic.DupJ.swapXY (s : DupJ ℝ) : DupJ ℝ := ⟨s.An, s.y0, s.x0, s.z0, s.p0, s.mul, s.mul3, s.s⟩
def _root_.GeoVerif.Elliptic.DupJ.swapYZ (s : DupJ ℝ) : DupJ ℝ := ⟨s.An, s.x0, s.z0, s.y0, s.p0, s.mul, s.mul3, s.s⟩

theorem rjStep_swapXY (d : ℝ) (s : DupJ ℝ) : rjStep d s.swapXY = (rjStep d s).swapXY := by
  unfold rjStep DupJ.swapXY
  simp only [lam_swapXY s.x0 s.y0 s.z0,
    show (RealLike.sqrt s.p0 + RealLike.sqrt s.y0) * (RealLike.sqrt s.p0 + RealLike.sqrt s.x0) *
        (RealLike.sqrt s.p0 + RealLike.sqrt s.z0) =
      (RealLike.sqrt s.p0 + RealLike.sqrt s.x0) * (RealLike.sqrt s.p0 + RealLike.sqrt s.y0) *
        (RealLike.sqrt s.p0 + RealLike.sqrt s.z0) by ring]
theorem rjStep_swapYZ (d : ℝ) (s : DupJ ℝ) : rjStep d s.swapYZ = (rjStep d s).swapYZ := by
  unfold rjStep DupJ.swapYZ
  simp only [lam_swapYZ s.x0 s.y0 s.z0,
    show (RealLike.sqrt s.p0 + RealLike.sqrt s.x0) * (RealLike.sqrt s.p0 + RealLike.sqrt s.z0) *
        (RealLike.sqrt s.p0 + RealLike.sqrt s.y0) =
      (RealLike.sqrt s.p0 + RealLike.sqrt s.x0) * (RealLike.sqrt s.p0 + RealLike.sqrt s.y0) *
        (RealLike.sqrt s.p0 + RealLike.sqrt s.z0) by ring]

theorem rjLoop_swapXY (Q d : ℝ) (n : ℕ) (s : DupJ ℝ) : rjLoop Q d n s.swapXY = (rjLoop Q d n s).swapXY := by
  induction n generalizing s with
  | zero => rfl
  | succ n ih =>
    simp only [rjLoop]
    rw [rjStep_swapXY, ih]
    show (if leb (s.mul * RealLike.abs s.An) Q = true then _ else _) = _
    split <;> rfl
theorem rjLoop_swapYZ (Q d : ℝ) (n : ℕ) (s : DupJ ℝ) : rjLoop Q d n s.swapYZ = (rjLoop Q d n s).swapYZ := by
  induction n generalizing s with
  | zero => rfl
  | succ n ih =>
    simp only [rjLoop]
    rw [rjStep_swapYZ, ih]
    show (if leb (s.mul * RealLike.abs s.An) Q = true then _ else _) = _
    split <;> rfl

theorem rjQ_swapXY (x y z p : ℝ) : rjQ y x z p = rjQ x y z p := by
  unfold rjQ; simp only [lit_real, max_real, abs_real]; push_cast
  rw [show y + x + z + 2 * p = x + y + z + 2 * p by ring, max_comm |_ - y| |_ - x|]
theorem rjQ_swapYZ (x y z p : ℝ) : rjQ x z y p = rjQ x y z p := by
  unfold rjQ; simp only [lit_real, max_real, abs_real]; push_cast
  rw [show x + z + y + 2 * p = x + y + z + 2 * p by ring]
  congr 1
  simp only [max_assoc]; congr 1
  exact max_left_comm _ _ _

theorem rjRun_eq (x y z p : ℝ) :
    rjRun x y z p = rjLoop (rjQ x y z p) ((p - x) * (p - y) * (p - z)) trips
      ⟨(x + y + z + 2 * p) / 5, x, y, z, p, 1, 1, 0⟩ := by
  unfold rjRun; simp only [lit_real]; push_cast; rfl

theorem rjRun_swapXY (x y z p : ℝ) : rjRun y x z p = (rjRun x y z p).swapXY := by
  rw [rjRun_eq, rjRun_eq, rjQ_swapXY, ← rjLoop_swapXY, show y + x + z + 2 * p = x + y + z + 2 * p by ring,
    show (p - y) * (p - x) * (p - z) = (p - x) * (p - y) * (p - z) by ring]; rfl
theorem rjRun_swapYZ (x y z p : ℝ) : rjRun x z y p = (rjRun x y z p).swapYZ := by
  rw [rjRun_eq, rjRun_eq, rjQ_swapYZ, ← rjLoop_swapYZ, show x + z + y + 2 * p = x + y + z + 2 * p by ring,
    show (p - x) * (p - z) * (p - y) = (p - x) * (p - y) * (p - z) by ring]; rfl

theorem rjE_swapXY (X Y Z : ℝ) : rjE Y X Z = rjE X Y Z := by
  unfold rjE; simp only [lit_real]; push_cast
  refine Prod.ext ?_ (Prod.ext ?_ (Prod.ext ?_ ?_)) <;> simp only <;> ring
theorem rjE_swapYZ (X Y Z : ℝ) : rjE X Z Y = rjE X Y Z := by
  unfold rjE; simp only [lit_real]; push_cast
  refine Prod.ext ?_ (Prod.ext ?_ (Prod.ext ?_ ?_)) <;> simp only <;> ring

/-- the model of `RJ(x, y, z, p)` is symmetric under every permutation of its first three arguments -/
theorem rj_symm (x y z p : ℝ) : rj x y z p = rj y x z p ∧ rj x y z p = rj x z y p := by
  constructor
  · unfold rj
    rw [rjRun_swapXY x y z p]
    simp only [DupJ.swapXY, lit_real]; push_cast
    rw [show y + x + z + 2 * p = x + y + z + 2 * p by ring,
      rjE_swapXY (((x + y + z + 2 * p) / 5 - x) / _) (((x + y + z + 2 * p) / 5 - y) / _)]
  · unfold rj
    rw [rjRun_swapYZ x y z p]
    simp only [DupJ.swapYZ, lit_real]; push_cast
    rw [show x + z + y + 2 * p = x + y + z + 2 * p by ring,
      rjE_swapYZ _ (((x + y + z + 2 * p) / 5 - y) / _) (((x + y + z + 2 * p) / 5 - z) / _)]

/-- `E₂ … E₅` of `RJ` are the elementary symmetric functions of the five deviations `X, Y, Z, P, P` (`P = −(X+Y+Z)/2`) -/
theorem rjE_symmetric (X Y Z : ℝ) :
    let P := -(X + Y + Z) / 2
    rjE X Y Z = (X * Y + X * Z + Y * Z + 2 * (X + Y + Z) * P + P ^ 2,
                 X * Y * Z + 2 * (X * Y + X * Z + Y * Z) * P + (X + Y + Z) * P ^ 2,
                 2 * X * Y * Z * P + (X * Y + X * Z + Y * Z) * P ^ 2,
                 X * Y * Z * P ^ 2) := by
  intro P
  unfold rjE; simp only [lit_real]; push_cast
  refine Prod.ext ?_ (Prod.ext ?_ (Prod.ext ?_ ?_)) <;> simp only [P] <;> ring

/-- in `RJ` the quantity `d0 = (√p+√x)(√p+√y)(√p+√z)` of a trip satisfies `δₙ₊₁ = δₙ/64` for
    `δ = (p−x)(p−y)(p−z)` of the current arguments: this is why `e0 = δ/(mul3·d0²)` uses the *original* `δ` -/
theorem rjStep_delta (d : ℝ) (s : DupJ ℝ) :
    ((rjStep d s).p0 - (rjStep d s).x0) * ((rjStep d s).p0 - (rjStep d s).y0) * ((rjStep d s).p0 - (rjStep d s).z0) =
      (s.p0 - s.x0) * (s.p0 - s.y0) * (s.p0 - s.z0) / 64 := by
  unfold rjStep; simp only [lit_real]; push_cast; ring

/-! ### `RG` -/

/-- after the permutation of `RG(x, y, z)` the third argument lies between the other two, and the arguments are the same
    up to order -/
theorem rgPerm_median (x y z : ℝ) :
    let r := rgPerm x y z
    (r.1 - r.2.2) * (r.2.1 - r.2.2) ≤ 0 ∧
    ((r = (x, y, z)) ∨ (r = (z, y, x)) ∨ (r = (x, z, y))) := by
  intro r
  have hr : r = if 0 < (x - z) * (y - z) then (if (y - x) * (z - x) ≤ 0 then (z, y, x) else (x, z, y)) else (x, y, z) := by
    simp only [r]; unfold rgPerm
    simp only [ltb_real, leb_real, lit_real, decide_eq_true_eq]; push_cast; rfl
  rw [hr]
  split_ifs with h1 h2
  · refine ⟨?_, Or.inr (Or.inl rfl)⟩
    show (z - x) * (y - x) ≤ 0
    linarith
  · refine ⟨?_, Or.inr (Or.inr rfl)⟩
    show (x - y) * (z - y) ≤ 0
    have h2' : 0 < (y - x) * (z - x) := not_le.1 h2
    by_contra hneg
    have hneg' : 0 < (x - y) * (z - y) := not_le.1 hneg
    nlinarith [mul_pos h2' hneg', mul_nonneg h1.le (sq_nonneg (x - y))]
  · refine ⟨?_, Or.inl rfl⟩
    show (x - z) * (y - z) ≤ 0
    exact not_lt.1 h1

/-! ### `RC` -/

/-- `rc` in its circular branch -/
theorem rc_atan_eq (x y : ℝ) (hxy : x < y) : rc x y = arctan (√((y - x) / x)) / √(y - x) := by
  have h : ¬ y ≤ x := not_le.2 hxy
  unfold rc; simp [h]

/-- `rc` in its hyperbolic branch with `0 < y` -/
theorem rc_asinh_eq (x y : ℝ) (hy : 0 < y) (hxy : y < x) : rc x y = arsinh (√((x - y) / y)) / √(x - y) := by
  have h : x ≠ y := hxy.ne'
  unfold rc; simp [h, hxy.le, hy, lit_real]

/-- the circular closed form (`0 < x < y`) satisfies the degenerate duplication theorem
    `R_C(x, y) = 2 R_C(x + λ, y + λ)`, `λ = y + 2√x√y` -/
theorem rc_dup_atan (x y : ℝ) (hx : 0 < x) (hxy : x < y) :
    rc x y = 2 * rc (x + (y + 2 * √x * √y)) (y + (y + 2 * √x * √y)) := by
  obtain ⟨a, ha, rfl⟩ : ∃ a, 0 < a ∧ x = a ^ 2 := ⟨√x, sqrt_pos.2 hx, (sq_sqrt hx.le).symm⟩
  obtain ⟨b, hb, rfl⟩ : ∃ b, 0 < b ∧ y = b ^ 2 :=
    ⟨√y, sqrt_pos.2 (hx.trans hxy), (sq_sqrt (hx.trans hxy).le).symm⟩
  have hab : a < b := by nlinarith
  rw [sqrt_sq ha.le, sqrt_sq hb.le]
  have hX : a ^ 2 + (b ^ 2 + 2 * a * b) = (a + b) ^ 2 := by ring
  have hXY : a ^ 2 + (b ^ 2 + 2 * a * b) < b ^ 2 + (b ^ 2 + 2 * a * b) := by linarith
  have hd : b ^ 2 + (b ^ 2 + 2 * a * b) - (a ^ 2 + (b ^ 2 + 2 * a * b)) = b ^ 2 - a ^ 2 := by ring
  rw [rc_atan_eq _ _ hxy, rc_atan_eq _ _ hXY, hd, hX]
  have hD : 0 < b ^ 2 - a ^ 2 := by linarith
  have hab0 : 0 < a + b := by positivity
  rw [sqrt_div hD.le, sqrt_div hD.le, sqrt_sq ha.le, sqrt_sq hab0.le]
  have hr2 : √(b ^ 2 - a ^ 2) ^ 2 = b ^ 2 - a ^ 2 := sq_sqrt hD.le
  have hrpos : 0 < √(b ^ 2 - a ^ 2) := sqrt_pos.2 hD
  generalize √(b ^ 2 - a ^ 2) = r at hr2 hrpos
  have ht : 2 * arctan (r / (a + b)) = arctan (r / a) := by
    have hlt : r / (a + b) < 1 := by rw [div_lt_one hab0]; nlinarith
    have hpos : 0 < r / (a + b) := by positivity
    rw [two_mul_arctan (by linarith) hlt]
    congr 1
    have e : 1 - (r / (a + b)) ^ 2 = 2 * a / (a + b) := by
      rw [div_pow, hr2]; field_simp; ring
    rw [e]; field_simp
  rw [← ht]; ring

/-- the hyperbolic closed form (`0 < y < x`) satisfies it too -/
theorem rc_dup_asinh (x y : ℝ) (hy : 0 < y) (hxy : y < x) :
    rc x y = 2 * rc (x + (y + 2 * √x * √y)) (y + (y + 2 * √x * √y)) := by
  obtain ⟨b, hb, rfl⟩ : ∃ b, 0 < b ∧ y = b ^ 2 := ⟨√y, sqrt_pos.2 hy, (sq_sqrt hy.le).symm⟩
  obtain ⟨a, ha, rfl⟩ : ∃ a, 0 < a ∧ x = a ^ 2 :=
    ⟨√x, sqrt_pos.2 (hy.trans hxy), (sq_sqrt (hy.trans hxy).le).symm⟩
  have hab : b < a := by nlinarith
  rw [sqrt_sq ha.le, sqrt_sq hb.le]
  have hY : b ^ 2 + (b ^ 2 + 2 * a * b) = 2 * b * (a + b) := by ring
  have hYpos : 0 < b ^ 2 + (b ^ 2 + 2 * a * b) := by positivity
  have hYX : b ^ 2 + (b ^ 2 + 2 * a * b) < a ^ 2 + (b ^ 2 + 2 * a * b) := by linarith
  have hd : a ^ 2 + (b ^ 2 + 2 * a * b) - (b ^ 2 + (b ^ 2 + 2 * a * b)) = a ^ 2 - b ^ 2 := by ring
  rw [rc_asinh_eq _ _ hy hxy, rc_asinh_eq _ _ hYpos hYX, hd, hY]
  have hD : 0 < a ^ 2 - b ^ 2 := by linarith
  have hab0 : 0 < a + b := by positivity
  have hq : 0 ≤ (a ^ 2 - b ^ 2) / (2 * b * (a + b)) := by positivity
  have key : arsinh (√((a ^ 2 - b ^ 2) / b ^ 2)) = 2 * arsinh (√((a ^ 2 - b ^ 2) / (2 * b * (a + b)))) := by
    apply sinh_injective
    rw [sinh_arsinh, sinh_two_mul, sinh_arsinh, cosh_arsinh, sq_sqrt hq,
      sqrt_eq_iff_mul_self_eq (by positivity) (by positivity)]
    have e1 := mul_self_sqrt hq
    have e2 := mul_self_sqrt (show 0 ≤ 1 + (a ^ 2 - b ^ 2) / (2 * b * (a + b)) by positivity)
    have e3 : 4 * ((a ^ 2 - b ^ 2) / (2 * b * (a + b))) * (1 + (a ^ 2 - b ^ 2) / (2 * b * (a + b))) =
        (a ^ 2 - b ^ 2) / b ^ 2 := by
      field_simp; ring
    rw [← e3]
    generalize (a ^ 2 - b ^ 2) / (2 * b * (a + b)) = q at e1 e2
    linear_combination (-4 * (√(1 + q) * √(1 + q))) * e1 - (4 * q) * e2
  rw [key]; ring

/-- and so does the value on the diagonal -/
theorem rc_dup_diag (y : ℝ) (hy : 0 < y) : rc y y = 2 * rc (y + (y + 2 * √y * √y)) (y + (y + 2 * √y * √y)) := by
  have h1 : ∀ w : ℝ, rc w w = 1 / √w := by
    intro w; unfold rc; simp [lit_real]
  have h2 : y + (y + 2 * √y * √y) = (2 * √y) ^ 2 := by
    have := Real.mul_self_sqrt hy.le; linear_combination (-2) * this
  rw [h1, h1, h2, Real.sqrt_sq (by positivity)]
  have := Real.sqrt_pos.2 hy
  field_simp

end GeoVerif.Proofs.Carlson
