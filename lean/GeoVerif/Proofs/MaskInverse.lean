import GeoVerif.Model.MaskInverse
/-! Helper lemmas and the definitions `Canon` / `CanonX` for the `GenInverse` dataflow theorems of `Props/C12.lean`
(kept in the namespace of the property so that the statements read the same). -/
namespace GeoVerif.Props.C12
open GeoVerif GeoVerif.Mask Gen.Mask

set_option linter.unusedSimpArgs false

theorem and_or_ne_zero_left (x a b : Nat) (h : (x &&& a != 0) = true) : (x &&& (a ||| b) != 0) = true := by
  rw [Nat.and_or_distrib_left]
  simp only [bne_iff_ne, ne_eq, Nat.or_eq_zero_iff, not_and] at h ⊢
  intro h1; exact absurd h1 h

theorem and_or_ne_zero_right (x a b : Nat) (h : (x &&& b != 0) = true) : (x &&& (a ||| b) != 0) = true := by
  rw [Nat.or_comm]; exact and_or_ne_zero_left x b a h

/-- a requested length output switches on the computation of `B12`/`AB1` -/
theorem wantLen_of (e : Enum) (eff : Nat) (o : Out) (ho : o = .s12 ∨ o = .m12 ∨ o = .M12 ∨ o = .M21)
    (h : want e eff o = true) : wantLen e eff = true := by
  unfold want at h; unfold wantLen
  rcases ho with rfl | rfl | rfl | rfl
  · exact and_or_ne_zero_left _ _ _ (and_or_ne_zero_left _ _ _ h)
  · exact and_or_ne_zero_left _ _ _ (and_or_ne_zero_right _ _ _ h)
  · exact and_or_ne_zero_right _ _ _ h
  · exact and_or_ne_zero_right _ _ _ h

theorem wantRG_of (e : Enum) (eff : Nat) (o : Out) (ho : o = .m12 ∨ o = .M12 ∨ o = .M21)
    (h : want e eff o = true) : wantRG e eff = true := by
  unfold want at h; unfold wantRG
  rcases ho with rfl | rfl | rfl
  · exact and_or_ne_zero_left _ _ _ h
  · exact and_or_ne_zero_right _ _ _ h
  · exact and_or_ne_zero_right _ _ _ h

theorem want_M21 (e : Enum) (x : Nat) : want e x .M21 = want e x .M12 := rfl

/-- the masks `GenInverse` passes to `Lengths` are *canonical* at the (reduced) mask `m`: what the caller wants is asked
    of `Lengths`, `GEODESICSCALE` is asked of it exactly when the caller wants it, on the meridional branch the distance
    and the reduced length are always obtained (they are tested), and `DISTANCE` accompanies `REDUCEDLENGTH` /
    `GEODESICSCALE` (so that the series `Lengths` forms `J12` in one way only) -/
def Canon (c : InvCfg) (m : Nat) : Prop :=
  (want c.e m .s12 = true → want c.e (c.newt m &&& c.red) .s12 = true) ∧
  (want c.e m .m12 = true → want c.e (c.newt m &&& c.red) .m12 = true) ∧
  want c.e (c.newt m &&& c.red) .M12 = want c.e m .M12 ∧
  (wantRG c.e (c.newt m &&& c.red) = true → want c.e (c.newt m &&& c.red) .s12 = true) ∧
  want c.e (c.mer m &&& c.red) .M12 = want c.e m .M12 ∧
  want c.e (c.mer m &&& c.red) .m12 = true ∧
  want c.e (c.mer m &&& c.red) .s12 = true
instance (c : InvCfg) (m : Nat) : Decidable (Canon c m) := by unfold Canon; infer_instance

/-- the same without the two `DISTANCE` clauses (the exact `Lengths` forms `J12` in one way) -/
def CanonX (c : InvCfg) (m : Nat) : Prop :=
  (want c.e m .s12 = true → want c.e (c.newt m &&& c.red) .s12 = true) ∧
  (want c.e m .m12 = true → want c.e (c.newt m &&& c.red) .m12 = true) ∧
  want c.e (c.newt m &&& c.red) .M12 = want c.e m .M12 ∧
  want c.e (c.mer m &&& c.red) .M12 = want c.e m .M12 ∧
  want c.e (c.mer m &&& c.red) .m12 = true
instance (c : InvCfg) (m : Nat) : Decidable (CanonX c m) := by unfold CanonX; infer_instance

/-! series `Lengths`: each output is one term whenever `DISTANCE` is among the requests -/
theorem lengthsG_s12b (e : Enum) (l1 l2 : Nat) (eps : T) (h1 : want e l1 .s12 = true) (h2 : want e l2 .s12 = true) :
    (lengthsG e l1 eps).s12b = (lengthsG e l2 eps).s12b := by
  have a := wantLen_of e l1 .s12 (Or.inl rfl) h1
  have b := wantLen_of e l2 .s12 (Or.inl rfl) h2
  simp only [lengthsG, h1, h2, a, b, if_true]

theorem lengthsG_m12b (e : Enum) (l1 l2 : Nat) (eps : T) (h1 : want e l1 .s12 = true) (h2 : want e l2 .s12 = true)
    (r1 : want e l1 .m12 = true) (r2 : want e l2 .m12 = true) :
    (lengthsG e l1 eps).m12b = (lengthsG e l2 eps).m12b := by
  have a := wantLen_of e l1 .s12 (Or.inl rfl) h1
  have b := wantLen_of e l2 .s12 (Or.inl rfl) h2
  have c := wantRG_of e l1 .m12 (Or.inl rfl) r1
  have d := wantRG_of e l2 .m12 (Or.inl rfl) r2
  simp only [lengthsG, h1, h2, r1, r2, a, b, c, d, if_true, Bool.and_self]

theorem lengthsG_M (e : Enum) (l1 l2 : Nat) (eps : T) (h1 : want e l1 .s12 = true) (h2 : want e l2 .s12 = true)
    (g1 : want e l1 .M12 = true) (g2 : want e l2 .M12 = true) :
    (lengthsG e l1 eps).M12 = (lengthsG e l2 eps).M12 ∧ (lengthsG e l1 eps).M21 = (lengthsG e l2 eps).M21 := by
  have a := wantLen_of e l1 .s12 (Or.inl rfl) h1
  have b := wantLen_of e l2 .s12 (Or.inl rfl) h2
  have c := wantRG_of e l1 .M12 (Or.inr (Or.inl rfl)) g1
  have d := wantRG_of e l2 .M12 (Or.inr (Or.inl rfl)) g2
  have g1' : want e l1 .M21 = true := g1
  have g2' : want e l2 .M21 = true := g2
  constructor <;> simp only [lengthsG, h1, h2, g1, g2, g1', g2', a, b, c, d, if_true, Bool.and_self]

theorem lengthsG_M_none (e : Enum) (l : Nat) (eps : T) (g : want e l .M12 = false) :
    (lengthsG e l eps).M12 = none ∧ (lengthsG e l eps).M21 = none := by
  have g' : want e l .M21 = false := g
  constructor <;> simp [lengthsG, g, g']


theorem invCoreG_a12 (c : InvCfg) (hl : c.lengths = lengthsG) (br : InvBranch) (m1 m2 : Nat) (c1 : Canon c m1) (c2 : Canon c m2) :
    (invCore c br m1).a12 = (invCore c br m2).a12 := by
  obtain ⟨_, _, _, _, _, mm1, ms1⟩ := c1
  obtain ⟨_, _, _, _, _, mm2, ms2⟩ := c2
  have hs := lengthsG_s12b c.e (c.mer m1 &&& c.red) (c.mer m2 &&& c.red) (.sym "_n|E") ms1 ms2
  have hm := lengthsG_m12b c.e (c.mer m1 &&& c.red) (c.mer m2 &&& c.red) (.sym "_n|E") ms1 ms2 mm1 mm2
  cases br <;> simp only [invCore, hl, hs, hm]

theorem invCoreG_s12x (c : InvCfg) (hl : c.lengths = lengthsG) (br : InvBranch) (m1 m2 : Nat) (c1 : Canon c m1) (c2 : Canon c m2)
    (h1 : want c.e m1 .s12 = true) (h2 : want c.e m2 .s12 = true) :
    (invCore c br m1).s12x = (invCore c br m2).s12x := by
  obtain ⟨ns1, _, _, _, _, mm1, ms1⟩ := c1
  obtain ⟨ns2, _, _, _, _, mm2, ms2⟩ := c2
  have hs := lengthsG_s12b c.e (c.mer m1 &&& c.red) (c.mer m2 &&& c.red) (.sym "_n|E") ms1 ms2
  have hm := lengthsG_m12b c.e (c.mer m1 &&& c.red) (c.mer m2 &&& c.red) (.sym "_n|E") ms1 ms2 mm1 mm2
  have hn := lengthsG_s12b c.e (c.newt m1 &&& c.red) (c.newt m2 &&& c.red) (.sym "eps|E") (ns1 h1) (ns2 h2)
  cases br <;> simp only [invCore, hl, hs, hm, hn]

theorem invCoreG_m12x (c : InvCfg) (hl : c.lengths = lengthsG) (br : InvBranch) (m1 m2 : Nat) (c1 : Canon c m1) (c2 : Canon c m2)
    (h1 : want c.e m1 .m12 = true) (h2 : want c.e m2 .m12 = true) :
    (invCore c br m1).m12x = (invCore c br m2).m12x := by
  obtain ⟨_, nm1, _, nJ1, _, mm1, ms1⟩ := c1
  obtain ⟨_, nm2, _, nJ2, _, mm2, ms2⟩ := c2
  have hs := lengthsG_s12b c.e (c.mer m1 &&& c.red) (c.mer m2 &&& c.red) (.sym "_n|E") ms1 ms2
  have hm := lengthsG_m12b c.e (c.mer m1 &&& c.red) (c.mer m2 &&& c.red) (.sym "_n|E") ms1 ms2 mm1 mm2
  have d1 := nJ1 (wantRG_of c.e _ .m12 (Or.inl rfl) (nm1 h1))
  have d2 := nJ2 (wantRG_of c.e _ .m12 (Or.inl rfl) (nm2 h2))
  have hn := lengthsG_m12b c.e (c.newt m1 &&& c.red) (c.newt m2 &&& c.red) (.sym "eps|E") d1 d2 (nm1 h1) (nm2 h2)
  cases br <;> simp only [invCore, hl, hs, hm, hn]

theorem invCoreG_M (c : InvCfg) (hl : c.lengths = lengthsG) (br : InvBranch) (m1 m2 : Nat) (c1 : Canon c m1) (c2 : Canon c m2)
    (h1 : want c.e m1 .M12 = true) (h2 : want c.e m2 .M12 = true) :
    (invCore c br m1).M12 = (invCore c br m2).M12 ∧ (invCore c br m1).M21 = (invCore c br m2).M21 := by
  obtain ⟨_, _, nG1, nJ1, mG1, _, ms1⟩ := c1
  obtain ⟨_, _, nG2, nJ2, mG2, _, ms2⟩ := c2
  have g1 : want c.e (c.newt m1 &&& c.red) .M12 = true := by rw [nG1]; exact h1
  have g2 : want c.e (c.newt m2 &&& c.red) .M12 = true := by rw [nG2]; exact h2
  have k1 : want c.e (c.mer m1 &&& c.red) .M12 = true := by rw [mG1]; exact h1
  have k2 : want c.e (c.mer m2 &&& c.red) .M12 = true := by rw [mG2]; exact h2
  have d1 := nJ1 (wantRG_of c.e _ .M12 (Or.inr (Or.inl rfl)) g1)
  have d2 := nJ2 (wantRG_of c.e _ .M12 (Or.inr (Or.inl rfl)) g2)
  have hn := lengthsG_M c.e (c.newt m1 &&& c.red) (c.newt m2 &&& c.red) (.sym "eps|E") d1 d2 g1 g2
  have hm := lengthsG_M c.e (c.mer m1 &&& c.red) (c.mer m2 &&& c.red) (.sym "_n|E") ms1 ms2 k1 k2
  cases br <;> simp only [invCore, hl, hn.1, hn.2, hm.1, hm.2, h1, h2, and_self]

/-! exact `Lengths` -/
theorem lengthsX_s12b (e : Enum) (l1 l2 : Nat) (E : T) (h1 : want e l1 .s12 = true) (h2 : want e l2 .s12 = true) :
    (lengthsX e l1 E).s12b = (lengthsX e l2 E).s12b := by
  simp only [lengthsX, h1, h2, if_true]

theorem lengthsX_m12b (e : Enum) (l1 l2 : Nat) (E : T) (r1 : want e l1 .m12 = true) (r2 : want e l2 .m12 = true) :
    (lengthsX e l1 E).m12b = (lengthsX e l2 E).m12b := by
  have c := wantRG_of e l1 .m12 (Or.inl rfl) r1
  have d := wantRG_of e l2 .m12 (Or.inl rfl) r2
  simp only [lengthsX, r1, r2, c, d, if_true, Bool.and_self]

theorem lengthsX_M (e : Enum) (l1 l2 : Nat) (E : T) (g1 : want e l1 .M12 = true) (g2 : want e l2 .M12 = true) :
    (lengthsX e l1 E).M12 = (lengthsX e l2 E).M12 ∧ (lengthsX e l1 E).M21 = (lengthsX e l2 E).M21 := by
  have c := wantRG_of e l1 .M12 (Or.inr (Or.inl rfl)) g1
  have d := wantRG_of e l2 .M12 (Or.inr (Or.inl rfl)) g2
  have g1' : want e l1 .M21 = true := g1
  have g2' : want e l2 .M21 = true := g2
  constructor <;> simp only [lengthsX, g1, g2, g1', g2', c, d, if_true, Bool.and_self]

theorem mem_writtenInverse_iff (e : Enum) (om : Nat) (o : Out) :
    o ∈ writtenInverse e om ↔ (o ≠ .lat2 ∧ o ≠ .lon2) ∧ want e (om &&& e.outMask) o = true := by
  unfold writtenInverse want
  cases o <;> simp [List.mem_filter]


end GeoVerif.Props.C12
