import GeoVerif.Proofs.OSGBScale
import Mathlib.Tactic.LinearCombination
import Mathlib.Tactic.FieldSimp
/-!
# Resolution / precision helper functions of Geohash, GARS, Georef; values returned by the decoders
-/
namespace GeoVerif.GridHelpers
open GeoVerif GeoVerif.Grid F64 Gen.Grid

/-- the search loop `for (p …) if (ok p) return p; return d`: the result is the first candidate that passes (every
earlier one fails), or the default when none passes -/
theorem firstOr_spec {α : Type} (ok : α → Bool) (l : List α) (d : α) :
    (∃ pre post, l = pre ++ firstOr ok l d :: post ∧ (∀ a ∈ pre, ok a = false) ∧ ok (firstOr ok l d) = true) ∨
    (firstOr ok l d = d ∧ ∀ a ∈ l, ok a = false) := by
  induction l with
  | nil => right; exact ⟨rfl, by simp⟩
  | cons a as ih =>
    unfold firstOr
    by_cases h : ok a = true
    · left; rw [if_pos h]; exact ⟨[], as, rfl, by simp, h⟩
    · rw [if_neg h]
      have hf : ok a = false := by simpa using h
      rcases ih with ⟨pre, post, e, h1, h2⟩ | ⟨e, h1⟩
      · left
        refine ⟨a :: pre, post, by rw [List.cons_append, ← e], ?_, h2⟩
        intro b hb
        rcases List.mem_cons.mp hb with rfl | hb
        · exact hf
        · exact h1 b hb
      · right
        refine ⟨e, ?_⟩
        intro b hb
        rcases List.mem_cons.mp hb with rfl | hb
        · exact hf
        · exact h1 b hb

/-! ### Geohash -/

theorem hd_m : MathF.hd.toDy.m.toNat = 180 := rfl
theorem td_m : MathF.td.toDy.m.toNat = 360 := rfl

/-- `LatitudeResolution(len) = 180 / 2^⌊5c/2⌋`, `LongitudeResolution(len) = 360 / 2^(5c − ⌊5c/2⌋)`, `c` = `len` clamped to `[0, 18]`
(exact: `ldexp`) -/
theorem geohash_res_val (len : ℤ) :
    (Geohash.latRes len).val = 180 / (2:ℚ) ^ (5 * Geohash.clampLen len / 2) ∧
    (Geohash.lonRes len).val = 360 / (2:ℚ) ^ (5 * Geohash.clampLen len - 5 * Geohash.clampLen len / 2) := by
  unfold Geohash.latRes Geohash.lonRes
  rw [hd_m, td_m, val_fin, val_fin]
  simp only [Bool.false_eq_true, if_false]
  constructor <;> rw [zpow_neg, zpow_natCast] <;> push_cast <;> rw [div_eq_mul_inv]

theorem clampLen_mono {a b : ℤ} (h : a ≤ b) : Geohash.clampLen a ≤ Geohash.clampLen b := by
  unfold Geohash.clampLen
  have : Geohash.maxlen = 18 := rfl
  rw [this]
  omega

theorem clampLen_le (a : ℤ) : Geohash.clampLen a ≤ 18 := by
  unfold Geohash.clampLen
  have : Geohash.maxlen = 18 := rfl
  rw [this]
  omega

/-- both resolutions are non-increasing in the length -/
theorem geohash_res_antitone (a b : ℤ) (h : a ≤ b) :
    (Geohash.latRes b).val ≤ (Geohash.latRes a).val ∧ (Geohash.lonRes b).val ≤ (Geohash.lonRes a).val := by
  obtain ⟨a1, a2⟩ := geohash_res_val a
  obtain ⟨b1, b2⟩ := geohash_res_val b
  have hc := clampLen_mono h
  rw [a1, a2, b1, b2]
  constructor
  · apply div_le_div_of_nonneg_left (by norm_num) (by positivity)
    exact pow_le_pow_right₀ (by norm_num) (by omega)
  · apply div_le_div_of_nonneg_left (by norm_num) (by positivity)
    exact pow_le_pow_right₀ (by norm_num) (by omega)

/-- the resolutions are the extents of a cell of a hash of that length: `2^(46−k)` units of `180/2^45` (longitude,
`k = ⌈5·len/2⌉` bits) resp. `90/2^45` (latitude, `k = ⌊5·len/2⌋` bits) — the cells of `geohash_cell_contains` -/
theorem geohash_res_is_cell (len : ℕ) (h : len ≤ 18) :
    (Geohash.lonRes len).val = (2:ℚ) ^ (46 - (5 * len + 1) / 2) * (180 / (2:ℚ) ^ (45:ℕ)) ∧
    (Geohash.latRes len).val = (2:ℚ) ^ (46 - 5 * len / 2) * (90 / (2:ℚ) ^ (45:ℕ)) := by
  obtain ⟨a1, a2⟩ := geohash_res_val len
  have hc : Geohash.clampLen (len : ℤ) = len := by
    unfold Geohash.clampLen
    have : Geohash.maxlen = 18 := rfl
    rw [this]; omega
  rw [a1, a2, hc]
  have k1 : 5 * len - 5 * len / 2 = (5 * len + 1) / 2 := by omega
  rw [k1]
  constructor
  · have : (2:ℚ) ^ (45:ℕ) * 2 = (2:ℚ) ^ (46 - (5 * len + 1) / 2) * (2:ℚ) ^ ((5 * len + 1) / 2) := by
      rw [← pow_add, show 46 - (5 * len + 1) / 2 + (5 * len + 1) / 2 = 46 by omega]; norm_num
    field_simp
    linear_combination 180 * this
  · have : (2:ℚ) ^ (45:ℕ) * 2 = (2:ℚ) ^ (46 - 5 * len / 2) * (2:ℚ) ^ (5 * len / 2) := by
      rw [← pow_add, show 46 - 5 * len / 2 + 5 * len / 2 = 46 by omega]; norm_num
    field_simp
    linear_combination 90 * this

/-- **`GeohashLength(res)` is the least length whose longitude resolution is `≤ |res|`** (18 when none below 18 is):
the result `L` is in `[0, 18]`, every shorter length fails the test, and `L` passes it unless `L = 18` -/
theorem geohash_length_least (res : F64) :
    let L := Geohash.lengthFor res
    0 ≤ L ∧ L ≤ 18 ∧ (L < 18 → F64.le (Geohash.lonRes L) (F64.abs res) = true) ∧
    ∀ l : ℕ, (l : ℤ) < L → F64.le (Geohash.lonRes l) (F64.abs res) = false := by
  intro L
  have hl : Geohash.lens = [0, 1, 2, 3, 4, 5, 6, 7, 8, 9, 10, 11, 12, 13, 14, 15, 16, 17] := by decide
  have hm : ((Geohash.maxlen : ℕ) : ℤ) = 18 := rfl
  rcases firstOr_spec (fun len => F64.le (Geohash.lonRes len) (F64.abs res)) Geohash.lens (Geohash.maxlen : ℤ) with
    ⟨pre, post, e, h1, h2⟩ | ⟨e, h1⟩
  · have hL : L = Geohash.lengthFor res := rfl
    unfold Geohash.lengthFor at hL
    rw [← hL] at e h2
    have hmem : L ∈ Geohash.lens := by rw [e]; simp
    have hrange : 0 ≤ L ∧ L < 18 := by
      rw [hl] at hmem
      simp only [List.mem_cons, List.not_mem_nil, or_false] at hmem
      omega
    refine ⟨hrange.1, by omega, fun _ => h2, ?_⟩
    intro l hlt
    apply h1
    -- every element of `lens` below L is in `pre` (the list is strictly increasing)
    have hlmem : (l : ℤ) ∈ Geohash.lens := by
      rw [hl]; simp only [List.mem_cons, List.not_mem_nil, or_false]; omega
    rw [e] at hlmem
    rcases List.mem_append.mp hlmem with h | h
    · exact h
    · exfalso
      have hsorted : Geohash.lens.Pairwise (· < ·) := by rw [hl]; decide
      rw [e] at hsorted
      have := List.pairwise_append.mp hsorted
      rcases List.mem_cons.mp h with h | h
      · omega
      · have := (List.pairwise_cons.mp this.2.1).1 _ h
        omega
  · have hL : L = Geohash.lengthFor res := rfl
    unfold Geohash.lengthFor at hL
    rw [← hL] at e
    rw [e, hm]
    refine ⟨by norm_num, le_refl _, fun h => absurd h (lt_irrefl _), ?_⟩
    intro l hlt
    apply h1
    rw [hl]; simp only [List.mem_cons, List.not_mem_nil, or_false]; omega

/-- mutual consistency: the length required for the resolution of length `l` is `l` (both overloads), all `l ∈ [0, 18]` -/
theorem geohash_length_of_res : ∀ l : Fin 19,
    Geohash.lengthFor (Geohash.lonRes (l.val : ℤ)) = l.val ∧
    Geohash.lengthFor2 (Geohash.latRes (l.val : ℤ)) (Geohash.lonRes (l.val : ℤ)) = l.val := by decide +kernel

/-- **`DecimalPrecision(len) = −⌊log₁₀ LatitudeResolution(len)⌋`** on the model, in integers: with `d` the returned value
and `k = ⌊5·len/2⌋`: `10^(−d) ≤ 180/2^k < 10^(1−d)` (all lengths 0..18; `d` runs from −2 to 12) -/
theorem geohash_decimal_precision_spec : ∀ l : Fin 19,
    let d := Geohash.decimalPrecision (l.val : ℤ)
    let k := 5 * l.val / 2
    (if 0 ≤ d then 2 ^ k ≤ 180 * 10 ^ d.toNat else 2 ^ k * 10 ^ (-d).toNat ≤ 180) ∧
    (if 1 ≤ d then 180 * 10 ^ (d - 1).toNat < 2 ^ k else 180 < 2 ^ k * 10 ^ (1 - d).toNat) := by decide +kernel

theorem geohash_decimal_precision_values :
    (List.range 19).map (fun l => Geohash.decimalPrecision (l : ℤ)) = [-2, -1, 0, 0, 1, 2, 3, 3, 4, 5, 6, 6, 7, 8, 9, 9, 10, 11, 12] := by
  decide +kernel

/-! ### GARS, Georef -/

theorem hasVal_one : HasVal (1 : F64) 1 := ⟨rfl, by show (F64.fin false 1 0).val = 1; rw [val_fin]; simp⟩

/-- quotient of two finite values: correctly rounded -/
theorem hasVal_div_rn {a b : F64} {va vb : ℚ} (ha : HasVal a va) (hb : HasVal b vb) (hb0 : vb ≠ 0) :
    ∃ r : ℚ, IsRN 53 (-1074) (va / vb) r ∧ (|r| < (2:ℚ) ^ (1024:ℤ) → HasVal (a / b) r) := by
  obtain ⟨sa, ma, ea, rfl, ea'⟩ := ha.fin
  obtain ⟨sb, mb, eb, rfl, eb'⟩ := hb.fin
  have hmb : mb ≠ 0 := by
    intro h
    apply hb0
    rw [← eb', h]; exact val_fin_zero sb eb
  obtain ⟨r, hr, hf⟩ := div_fin sa sb ma mb ea eb hmb
  rw [ea', eb'] at hr
  exact ⟨r, hr, fun hlt => hf hlt⟩

/-- quotient of two integers of magnitude `≤ 2^53`: the binary64 quotient is the correctly rounded rational, and it is
exact whenever the rational fits (`g·2^s`, `|g| ≤ 2^53`) -/
theorem int_div_val (N D : ℤ) (hD : D ≠ 0) (hq : |(N:ℚ) / D| ≤ 2 ^ 52) :
    ∃ r : ℚ, IsRN 53 (-1074) ((N:ℚ) / D) r ∧ HasVal (F64.ofInt N / F64.ofInt D) r ∧
      (∀ g s : ℤ, |g| ≤ 2 ^ 53 → -1074 ≤ s → (N:ℚ) / D = (g:ℚ) * (2:ℚ) ^ s → r = (N:ℚ) / D) := by
  obtain ⟨r, hr, hf⟩ := hasVal_div_rn (hasVal_ofInt N) (hasVal_ofInt D) (by exact_mod_cast hD)
  exact ⟨r, hr, hf (hr.lt_huge hq), fun g s hg hs hz => hr.eq_of_fits g s hg hs hz⟩

/-- `GARS::Resolution(prec)`: `1/2`, `1/4` exactly, and the correctly rounded `1/12` -/
theorem gars_resolution_val (prec : ℤ) :
    (prec ≤ 0 → (GARS.resolution prec).val = 1 / 2) ∧ (prec = 1 → (GARS.resolution prec).val = 1 / 4) ∧
    (2 ≤ prec → IsRN 53 (-1074) (1 / 12) (GARS.resolution prec).val) := by
  refine ⟨fun h => ?_, fun h => ?_, fun h => ?_⟩
  · have : GARS.resolution prec = F64.ofInt 1 / F64.ofInt 2 := by
      unfold GARS.resolution; rw [if_pos h]; rfl
    rw [this]
    obtain ⟨r, _, hv, hex⟩ := int_div_val 1 2 (by norm_num) (by norm_num [abs_le])
    rw [hv.2, hex 1 (-1) (by norm_num) (by norm_num) (by rw [zpow_neg]; norm_num)]
    norm_num
  · have : GARS.resolution prec = F64.ofInt 1 / F64.ofInt 4 := by
      unfold GARS.resolution; rw [if_neg (by omega), if_pos h]; rfl
    rw [this]
    obtain ⟨r, _, hv, hex⟩ := int_div_val 1 4 (by norm_num) (by norm_num [abs_le])
    rw [hv.2, hex 1 (-2) (by norm_num) (by norm_num) (by rw [zpow_neg]; norm_num)]
    norm_num
  · have : GARS.resolution prec = (1 : F64) / F64.ofInt 12 := by
      unfold GARS.resolution; rw [if_neg (by omega), if_neg (by omega)]; rfl
    rw [this]
    obtain ⟨r, hr, hf⟩ := hasVal_div_rn hasVal_one (hasVal_ofInt 12) (by norm_num)
    have hv := hf (hr.lt_huge (by norm_num [abs_le]))
    have e : ((12:ℤ):ℚ) = 12 := by norm_num
    rw [e] at hr
    rw [hv.2]; exact hr

/-- `GARS::Precision(res)` is the least precision in `{0, 1}` whose resolution is `≤ |res|`, else 2 -/
theorem gars_precision_least (res : F64) :
    let P := GARS.precision res
    0 ≤ P ∧ P ≤ 2 ∧ (P < 2 → F64.le (GARS.resolution P) (F64.abs res) = true) ∧
    ∀ q : ℕ, (q : ℤ) < P → F64.le (GARS.resolution q) (F64.abs res) = false := by
  intro P
  have hP : P = GARS.precision res := rfl
  unfold GARS.precision at hP
  have hl : ((List.range gars_maxprec.toNat).map Int.ofNat) = [0, 1] := by decide
  have hm : gars_maxprec = 2 := rfl
  rw [hl, hm] at hP
  unfold firstOr at hP
  by_cases h0 : F64.le (GARS.resolution 0) (F64.abs res) = true
  · rw [if_pos h0] at hP
    rw [hP]
    exact ⟨le_refl _, by norm_num, fun _ => h0, fun q hq => by omega⟩
  · rw [if_neg h0] at hP
    unfold firstOr at hP
    have h0' : F64.le (GARS.resolution 0) (F64.abs res) = false := by simpa using h0
    by_cases h1 : F64.le (GARS.resolution 1) (F64.abs res) = true
    · rw [if_pos h1] at hP
      rw [hP]
      refine ⟨by norm_num, by norm_num, fun _ => h1, fun q hq => ?_⟩
      have : q = 0 := by omega
      subst this; exact h0'
    · rw [if_neg h1] at hP
      have h1' : F64.le (GARS.resolution 1) (F64.abs res) = false := by simpa using h1
      have : P = 2 := hP
      rw [this]
      refine ⟨by norm_num, le_refl _, fun h => absurd h (lt_irrefl _), fun q hq => ?_⟩
      rcases (by omega : q = 0 ∨ q = 1) with rfl | rfl
      · exact h0'
      · exact h1'

/-- `Precision(Resolution(p)) = p` clamped to `[0, 2]` (GARS) -/
theorem gars_precision_of_resolution (p : ℤ) : GARS.precision (GARS.resolution p) = max 0 (min 2 p) := by
  rcases (by omega : p ≤ 0 ∨ p = 1 ∨ 2 ≤ p) with h | h | h
  · have : GARS.resolution p = GARS.resolution 0 := by unfold GARS.resolution; rw [if_pos h, if_pos (le_refl _)]
    rw [this, show max 0 (min 2 p) = 0 by omega]; decide +kernel
  · rw [h]; decide +kernel
  · have : GARS.resolution p = GARS.resolution 2 := by
      unfold GARS.resolution; rw [if_neg (by omega), if_neg (by omega), if_neg (by norm_num), if_neg (by norm_num)]
    rw [this, show max 0 (min 2 p) = 2 by omega]; decide +kernel

/-- `Georef::Resolution(prec)`: 15 for `prec < 0`, 1 for `prec = 0`, and the correctly rounded `1/(60·10^(c−2))`,
`c` = `prec` clamped to `[2, 11]`, otherwise -/
theorem georef_resolution_val (prec : ℤ) :
    (prec < 0 → (Georef.resolution prec).val = 15) ∧ (prec = 0 → (Georef.resolution prec).val = 1) ∧
    (1 ≤ prec → IsRN 53 (-1074) (1 / (60 * 10 ^ ((max 2 (min 11 prec)) - 2).toNat)) (Georef.resolution prec).val) := by
  refine ⟨fun h => ?_, fun h => ?_, fun h => ?_⟩
  · have : Georef.resolution prec = F64.ofInt 15 := by
      unfold Georef.resolution; rw [if_pos (by omega), if_pos h]; rfl
    rw [this, (hasVal_ofInt 15).2]; norm_num
  · have : Georef.resolution prec = 1 := by
      unfold Georef.resolution; rw [if_pos (by omega), if_neg (by omega)]
    rw [this, hasVal_one.2]
  · set c := max 2 (min 11 prec) with hc
    have hres : Georef.resolution prec = (1 : F64) / (F64.ofInt 60 * F64.ofInt (10 ^ (c - 2).toNat)) := by
      unfold Georef.resolution; rw [if_neg (by omega)]; rfl
    rw [hres]
    have hk : (c - 2).toNat ≤ 9 := by omega
    have hpow : ((10:ℤ) ^ (c - 2).toNat : ℤ) ≤ 10 ^ 9 := pow_le_pow_right₀ (by norm_num) hk
    have hpos : (0:ℤ) < 10 ^ (c - 2).toNat := by positivity
    have hmul : HasVal (F64.ofInt 60 * F64.ofInt (10 ^ (c - 2).toNat)) (60 * 10 ^ (c - 2).toNat) := by
      have := hasVal_mul_exact (hasVal_ofInt 60) (hasVal_ofInt (10 ^ (c - 2).toNat)) (60 * 10 ^ (c - 2).toNat) 0
        (by rw [abs_of_pos (by positivity)]; omega) (by norm_num) (by push_cast; ring) (by
          have : ((60:ℤ):ℚ) * (((10:ℤ) ^ (c - 2).toNat : ℤ) : ℚ) ≤ 60 * 10 ^ 9 := by
            have : (((10:ℤ) ^ (c - 2).toNat : ℤ) : ℚ) ≤ ((10 ^ 9 : ℤ) : ℚ) := by exact_mod_cast hpow
            push_cast at this ⊢; linarith
          rw [abs_of_nonneg (by positivity)]
          have h2 : (60:ℚ) * 10 ^ 9 ≤ 2 ^ 52 := by norm_num
          push_cast at this ⊢; linarith)
      push_cast at this; exact this
    have hne : (60:ℚ) * 10 ^ (c - 2).toNat ≠ 0 := by positivity
    obtain ⟨r, hr, hf⟩ := hasVal_div_rn hasVal_one hmul hne
    have hsmall : |(1:ℚ) / (60 * 10 ^ (c - 2).toNat)| ≤ 2 ^ 52 := by
      rw [abs_of_pos (by positivity), div_le_iff₀ (by positivity)]
      have : (1:ℚ) ≤ 10 ^ (c - 2).toNat := one_le_pow₀ (by norm_num)
      nlinarith
    have hv := hf (hr.lt_huge hsmall)
    rw [hv.2]; exact hr

/-- `Precision(Resolution(p)) = p` for every precision the encoder uses (`0, 2, …, 11`; Georef) -/
theorem georef_precision_of_resolution : ∀ p : Fin 12, p.val ≠ 1 →
    Georef.precision (Georef.resolution (p.val : ℤ)) = p.val := by decide +kernel

/-- `Georef::Precision` never returns `−1` or `1` and is at most 11 -/
theorem georef_precision_range (res : F64) :
    0 ≤ Georef.precision res ∧ Georef.precision res ≤ 11 ∧ Georef.precision res ≠ 1 := by
  have hl : (((List.range georef_maxprec.toNat).map Int.ofNat).filter (· ≠ 1)) = [0, 2, 3, 4, 5, 6, 7, 8, 9, 10] := by decide
  have hm : georef_maxprec = 11 := rfl
  unfold Georef.precision
  rw [hl, hm]
  have hs := firstOr_spec (fun p => F64.le (Georef.resolution p) (F64.abs res)) [0, 2, 3, 4, 5, 6, 7, 8, 9, 10] (11 : ℤ)
  generalize firstOr (fun p => F64.le (Georef.resolution p) (F64.abs res)) [0, 2, 3, 4, 5, 6, 7, 8, 9, 10] (11 : ℤ) = F at hs ⊢
  rcases hs with ⟨pre, post, e, _, _⟩ | ⟨e, _⟩
  · have hmem : F ∈ ([0, 2, 3, 4, 5, 6, 7, 8, 9, 10] : List ℤ) := by rw [e]; simp
    simp only [List.mem_cons, List.not_mem_nil, or_false] at hmem
    omega
  · rw [e]; norm_num

/-! ### values returned by the decoders (`centerp` arithmetic) -/

/-- **GARS `Reverse` value**: `lat1/unit` is one binary64 division of two small integers — the correctly rounded
rational, and exact when `unit` is 2, 4 or 8 (precisions 0 and 1, corner or centre) -/
theorem gars_reverse_value (lat1 unit : ℤ) (hl : |lat1| ≤ 2 ^ 40) (hu : 0 < unit ∧ unit ≤ 24) :
    ∃ r : ℚ, IsRN 53 (-1074) ((lat1:ℚ) / unit) r ∧ HasVal (F64.ofInt lat1 / F64.ofInt unit) r ∧
      ((unit = 2 ∨ unit = 4 ∨ unit = 8) → r = (lat1:ℚ) / unit) := by
  have hq : |(lat1:ℚ) / unit| ≤ 2 ^ 52 := by
    have hu1 : (1:ℚ) ≤ (unit:ℚ) := by exact_mod_cast (by omega : (1:ℤ) ≤ unit)
    rw [abs_div, abs_of_pos (by linarith : (0:ℚ) < unit), div_le_iff₀ (by linarith)]
    have : |(lat1:ℚ)| ≤ 2 ^ 40 := by exact_mod_cast hl
    have h2 : (2:ℚ) ^ 40 ≤ 2 ^ 52 := by norm_num
    nlinarith
  obtain ⟨r, hr, hv, hex⟩ := int_div_val lat1 unit (by omega) hq
  refine ⟨r, hr, hv, fun h => ?_⟩
  have h53 : |lat1| ≤ 2 ^ 53 := le_trans hl (by norm_num)
  rcases h with rfl | rfl | rfl
  · exact hex lat1 (-1) h53 (by norm_num) (by rw [zpow_neg]; norm_num; ring)
  · exact hex lat1 (-2) h53 (by norm_num) (by rw [zpow_neg]; norm_num; ring)
  · exact hex lat1 (-3) h53 (by norm_num) (by rw [zpow_neg]; norm_num; ring)

/-- **Georef `Reverse` value**: `(15·lat1)/unit` — the correctly rounded rational; exact for the 15° tiles
(`unit` 1 or 2) and the degree cells (`unit` 15 or 30) -/
theorem georef_reverse_value (lat1 unit : ℤ) (hl : |lat1| ≤ 2 ^ 47) (hu : 0 < unit) :
    ∃ r : ℚ, IsRN 53 (-1074) ((15 * lat1 : ℤ) / (unit:ℚ)) r ∧ HasVal (F64.ofInt (15 * lat1) / F64.ofInt unit) r ∧
      ((unit = 1 ∨ unit = 2 ∨ unit = 15 ∨ unit = 30) → r = (15 * lat1 : ℤ) / (unit:ℚ)) := by
  have hb := abs_le.mp hl
  have h15 : |15 * lat1| ≤ 2 ^ 51 := by rw [abs_le]; constructor <;> omega
  have hq : |((15 * lat1 : ℤ) : ℚ) / unit| ≤ 2 ^ 52 := by
    have hu1 : (1:ℚ) ≤ (unit:ℚ) := by exact_mod_cast (by omega : (1:ℤ) ≤ unit)
    rw [abs_div, abs_of_pos (by linarith : (0:ℚ) < unit), div_le_iff₀ (by linarith)]
    have : |((15 * lat1 : ℤ) : ℚ)| ≤ 2 ^ 51 := by exact_mod_cast h15
    have h2 : (2:ℚ) ^ 51 ≤ 2 ^ 52 := by norm_num
    nlinarith
  obtain ⟨r, hr, hv, hex⟩ := int_div_val (15 * lat1) unit (by omega) hq
  refine ⟨r, hr, hv, fun h => ?_⟩
  have h53 : |15 * lat1| ≤ 2 ^ 53 := le_trans h15 (by norm_num)
  rcases h with rfl | rfl | rfl | rfl
  · exact hex (15 * lat1) 0 h53 (by norm_num) (by norm_num)
  · exact hex (15 * lat1) (-1) h53 (by norm_num) (by rw [zpow_neg]; norm_num; ring)
  · exact hex lat1 0 (by rw [abs_le]; constructor <;> omega) (by norm_num) (by push_cast; field_simp)
  · exact hex lat1 (-1) (by rw [abs_le]; constructor <;> omega) (by norm_num) (by push_cast; rw [zpow_neg]; field_simp; ring)

/-- **Geohash `Reverse` value is exact** for every length and both `centerp`: with `U < 2^47` the shifted integer,
`U·(k/2^45) − k` (`k` = 180 or 90; `k/2^45` exact by `eps_spec`) involves no rounding -/
theorem geohash_reverse_value (U : ℕ) (hU : U < 2 ^ 47) (k : ℕ) (hk : k = 180 ∨ k = 90) :
    HasVal (F64.ofInt U * ((F64.fin false k 0) / shift45) - F64.fin false k 0) ((U:ℚ) * (k / (2:ℚ) ^ (45:ℕ)) - k) := by
  obtain ⟨se, me, ee, heps, _, hev⟩ := eps_spec k (by rcases hk with rfl | rfl <;> norm_num) (by rcases hk with rfl | rfl <;> norm_num)
  have hepsV : HasVal ((F64.fin false k 0) / shift45) ((k:ℚ) / (2:ℚ) ^ (45:ℕ)) := ⟨by rw [heps]; rfl, hev⟩
  have hkV : HasVal (F64.fin false k 0) (k:ℚ) := ⟨rfl, by rw [val_fin]; simp⟩
  have hUq : (U:ℚ) < 2 ^ 47 := by exact_mod_cast hU
  have hU0 : (0:ℚ) ≤ (U:ℚ) := by positivity
  -- k = 45·j with j = 4 or 2: U·k/2^45 = (U·45)·2^(-43) or ·2^(-44)
  rcases hk with rfl | rfl
  · have hprod := hasVal_mul_exact (hasVal_ofInt U) hepsV (U * 45) (-43)
      (by rw [abs_of_nonneg (by positivity)]; omega) (by norm_num)
      (by push_cast; rw [zpow_neg]; norm_num; ring)
      (by push_cast; rw [abs_of_nonneg (by positivity)]; norm_num; linarith)
    have hsub := hasVal_sub_exact hprod hkV (U * 45 - 180 * 2 ^ 43) (-43)
      (by rw [abs_le]; constructor <;> omega) (by norm_num)
      (by push_cast; rw [zpow_neg]; norm_num; ring)
      (by push_cast; rw [abs_le]; constructor <;> norm_num <;> linarith)
    push_cast at hsub ⊢; exact hsub
  · have hprod := hasVal_mul_exact (hasVal_ofInt U) hepsV (U * 45) (-44)
      (by rw [abs_of_nonneg (by positivity)]; omega) (by norm_num)
      (by push_cast; rw [zpow_neg]; norm_num; ring)
      (by push_cast; rw [abs_of_nonneg (by positivity)]; norm_num; linarith)
    have hsub := hasVal_sub_exact hprod hkV (U * 45 - 90 * 2 ^ 44) (-44)
      (by rw [abs_le]; constructor <;> omega) (by norm_num)
      (by push_cast; rw [zpow_neg]; norm_num; ring)
      (by push_cast; rw [abs_le]; constructor <;> norm_num <;> linarith)
    push_cast at hsub ⊢; exact hsub

end GeoVerif.GridHelpers
