import GeoVerif.Proofs.Digits
import GeoVerif.Proofs.GeorefLoop
import Mathlib.Tactic.Ring
import Mathlib.Tactic.Linarith
import Mathlib.Data.List.Induction
/-!
# OSGB grid references on the integer level: letters, digit strings, decoder ∘ encoder, acceptance

Everything here is about `Grid.OSGB.encodeInt`, `Grid.OSGB.decodeInt` (the definitions the driver executes) and the
specification-side encoder `encodeCell` (letters + two width-`p` decimal strings).
-/
namespace GeoVerif.OSGBInt
open GeoVerif GeoVerif.Grid GeoVerif.Grid.OSGB Gen.Grid

/-! ### `lookup`: what a successful look-up says -/

theorem lookup_go_spec (tbl : List Char) (u : Nat) (i0 : Nat) (k : Nat) (h : lookup.go u tbl i0 = some k) :
    i0 ≤ k ∧ k - i0 < tbl.length ∧ (tbl.getD (k - i0) '\x00').toNat = u := by
  induction tbl generalizing i0 with
  | nil => simp [lookup.go] at h
  | cons d ds ih =>
    unfold lookup.go at h
    by_cases hd : d.toNat = u
    · rw [if_pos hd] at h
      have : i0 = k := by simpa using h
      subst this
      simp [hd]
    · rw [if_neg hd] at h
      obtain ⟨a, b, c⟩ := ih (i0 + 1) h
      refine ⟨by omega, by simp; omega, ?_⟩
      have : k - i0 = (k - (i0 + 1)) + 1 := by omega
      rw [this, List.getD_cons_succ]; exact c

/-- a successful look-up returns an index into the table whose entry is the upper-cased byte -/
theorem lookup_some_spec (tbl : List Char) (c k : Nat) (h : lookup tbl c = some k) :
    c ≠ 0 ∧ k < tbl.length ∧ (chr tbl k).toNat = upper c := by
  unfold lookup at h
  by_cases hc : c = 0
  · simp [hc] at h
  · rw [if_neg hc] at h
    obtain ⟨_, b, d⟩ := lookup_go_spec tbl (upper c) 0 k h
    exact ⟨hc, by simpa using b, by simpa [chr] using d⟩

theorem lookup_go_none (tbl : List Char) (u i0 : Nat) (h : ∀ d ∈ tbl, d.toNat ≠ u) : lookup.go u tbl i0 = none := by
  induction tbl generalizing i0 with
  | nil => rfl
  | cons d ds ih =>
    unfold lookup.go
    rw [if_neg (h d (by simp))]
    exact ih _ (fun x hx => h x (by simp [hx]))

theorem lookup_go_isSome (tbl : List Char) (u i0 : Nat) (h : ∃ d ∈ tbl, d.toNat = u) : (lookup.go u tbl i0).isSome = true := by
  induction tbl generalizing i0 with
  | nil => simp at h
  | cons d ds ih =>
    unfold lookup.go
    by_cases hd : d.toNat = u
    · rw [if_pos hd]; rfl
    · rw [if_neg hd]
      obtain ⟨x, hx, hxu⟩ := h
      rcases List.mem_cons.mp hx with rfl | hx'
      · exact absurd hxu hd
      · exact ih _ ⟨x, hx', hxu⟩

/-- `lookup` succeeds exactly on the non-NUL bytes whose upper-case form is in the table -/
theorem lookup_isSome_iff (tbl : List Char) (c : Nat) :
    (lookup tbl c).isSome = true ↔ c ≠ 0 ∧ ∃ d ∈ tbl, d.toNat = upper c := by
  unfold lookup
  by_cases hc : c = 0
  · simp [hc]
  · rw [if_neg hc]
    constructor
    · intro h
      refine ⟨hc, ?_⟩
      by_contra hne
      rw [lookup_go_none tbl (upper c) 0 (by
        intro d hd he; exact hne ⟨d, hd, he⟩)] at h
      simp at h
    · intro ⟨_, h⟩
      exact lookup_go_isSome tbl (upper c) 0 h

/-- the OSGB letters: A–Z without I (either case) -/
def isLetter (c : Nat) : Bool := (65 ≤ upper c && upper c ≤ 90 && upper c != 73)
/-- decimal digits -/
def isDigit (c : Nat) : Bool := (48 ≤ c && c ≤ 57)

theorem lookup_none_of_large (tbl : List Char) (c : Nat) (hc : 123 ≤ c) (ht : ∀ d ∈ tbl, d.toNat ≤ 122) : lookup tbl c = none := by
  unfold lookup upper
  rw [if_neg (by omega), if_neg (by omega)]
  exact lookup_go_none tbl c 0 (fun d hd he => by have := ht d hd; omega)

theorem letters_isSome (c : Nat) : (lookup letters c).isSome = isLetter c := by
  by_cases hc : c < 123
  · have : ∀ c < 123, (lookup letters c).isSome = isLetter c := by decide +kernel
    exact this c hc
  · rw [lookup_none_of_large letters c (by omega) (by decide)]
    unfold isLetter upper
    rw [if_neg (by omega)]
    simp; omega

theorem digits_isSome (c : Nat) : (lookup digits c).isSome = isDigit c := by
  by_cases hc : c < 123
  · have : ∀ c < 123, (lookup digits c).isSome = isDigit c := by decide +kernel
    exact this c hc
  · rw [lookup_none_of_large digits c (by omega) (by decide)]
    unfold isDigit
    simp; omega

/-- a digit byte is its own upper-case form and the look-up returns its value -/
theorem digits_lookup_val (c k : Nat) (h : lookup digits c = some k) : k < 10 ∧ c = 48 + k := by
  have hs : (lookup digits c).isSome = true := by rw [h]; rfl
  rw [digits_isSome] at hs
  unfold isDigit at hs
  have hc : 48 ≤ c ∧ c ≤ 57 := by simpa using hs
  have : ∀ c, 48 ≤ c → c ≤ 57 → lookup digits c = some (c - 48) := by
    intro c h1 h2
    have : ∀ c < 58, 48 ≤ c → lookup digits c = some (c - 48) := by decide +kernel
    exact this c (by omega) h1
  rw [this c hc.1 hc.2] at h
  have : c - 48 = k := by simpa using h
  omega

/-! ### digit strings -/

/-- value of a big-endian list of decimal digits -/
def digitsVal (l : List Nat) : Nat := l.foldl (fun a d => 10 * a + d) 0
/-- the `w` low decimal digits of `n`, most significant first -/
def natDigits : Nat → Nat → List Nat
  | 0, _ => []
  | w + 1, n => natDigits w (n / 10) ++ [n % 10]

theorem natDigits_length (w n : Nat) : (natDigits w n).length = w := by
  induction w generalizing n with
  | zero => rfl
  | succ w ih => simp [natDigits, ih]

theorem digitsVal_append (a : List Nat) (d : Nat) : digitsVal (a ++ [d]) = 10 * digitsVal a + d := by
  simp [digitsVal, List.foldl_append]

theorem digitsVal_natDigits (w n : Nat) : digitsVal (natDigits w n) = n % 10 ^ w := by
  induction w generalizing n with
  | zero => simp [natDigits, digitsVal, Nat.mod_one]
  | succ w ih =>
    rw [natDigits, digitsVal_append, ih, Nat.pow_succ, Nat.mul_comm (10 ^ w) 10, Nat.mod_mul]
    omega

theorem foldl_digits_shift (l : List Nat) (a : Nat) :
    l.foldl (fun a d => 10 * a + d) a = a * 10 ^ l.length + digitsVal l := by
  induction l generalizing a with
  | nil => simp [digitsVal]
  | cons d ds ih =>
    simp only [List.foldl_cons, List.length_cons, digitsVal]
    rw [ih (10 * a + d), ih (10 * 0 + d), Nat.pow_succ]
    ring

/-- value of a concatenation -/
theorem digitsVal_concat (a b : List Nat) : digitsVal (a ++ b) = digitsVal a * 10 ^ b.length + digitsVal b := by
  unfold digitsVal
  rw [List.foldl_append, foldl_digits_shift b]
  rfl

theorem readDigits_append (tbl : List Char) (a b : List Nat) :
    readDigits tbl (a ++ b) = match readDigits tbl a, readDigits tbl b with
      | some x, some y => some (x ++ y)
      | _, _ => none := by
  induction a with
  | nil =>
    simp only [List.nil_append, readDigits]
    cases readDigits tbl b <;> rfl
  | cons c cs ih =>
    simp only [List.cons_append, readDigits, ih]
    cases lookup tbl c <;> cases readDigits tbl cs <;> cases readDigits tbl b <;> rfl

theorem digits_chr_lookup : ∀ k < 10, lookup digits (chr digits k).toNat = some k := by decide
theorem letters_chr_lookup : ∀ k < 25, lookup letters (chr letters k).toNat = some k := by decide

/-- the decoder's digit reader inverts the encoder's digit writer -/
theorem readDigits_digitsW (w n : Nat) : readDigits digits (toBytes (digitsW digits 10 w n)) = some (natDigits w n) := by
  induction w generalizing n with
  | zero => rfl
  | succ w ih =>
    rw [digitsW, Digits.toBytes_append, readDigits_append, ih, natDigits]
    simp only [toBytes, List.map_cons, List.map_nil, readDigits, digits_chr_lookup (n % 10) (Nat.mod_lt _ (by norm_num))]

/-- two adjacent digit fields are one field of the combined number -/
theorem digitsW_split (tbl : List Char) (b : Nat) (hb : 0 < b) (w1 w2 a c : Nat) (hc : c < b ^ w2) :
    digitsW tbl b w1 a ++ digitsW tbl b w2 c = digitsW tbl b (w1 + w2) (a * b ^ w2 + c) := by
  induction w2 generalizing c with
  | zero =>
    have : c = 0 := by simpa using hc
    subst this
    simp [digitsW]
  | succ w2 ih =>
    have e1 : (a * b ^ (w2 + 1) + c) / b = a * b ^ w2 + c / b := by
      rw [Nat.pow_succ, ← Nat.mul_assoc, Nat.add_comm, Nat.add_mul_div_right _ _ hb, Nat.add_comm]
    have e2 : (a * b ^ (w2 + 1) + c) % b = c % b := by
      rw [Nat.pow_succ, ← Nat.mul_assoc, Nat.add_comm, Nat.add_mul_mod_self_right]
    have hc' : c / b < b ^ w2 := by
      rw [Nat.div_lt_iff_lt_mul hb, ← Nat.pow_succ]; exact hc
    show digitsW tbl b w1 a ++ digitsW tbl b (w2 + 1) c = digitsW tbl b (w1 + w2 + 1) (a * b ^ (w2 + 1) + c)
    rw [digitsW, digitsW, e1, e2, ← ih (c / b) hc', List.append_assoc]

/-- no character the encoder can write is white space -/
theorem digitsW_nospace (w n : Nat) : ∀ c ∈ toBytes (digitsW digits 10 w n), isSpace c = false := by
  intro c hc
  simp only [toBytes, List.mem_map] at hc
  obtain ⟨ch, hch, rfl⟩ := hc
  obtain ⟨k, hk, rfl⟩ := Digits.digitsW_mem digits 10 (by norm_num) w n ch hch
  have : ∀ k < 10, isSpace (chr digits k).toNat = false := by decide
  exact this k hk

theorem letters_nospace (k : Nat) : isSpace (chr letters k).toNat = false := by
  by_cases hk : k < 25
  · have : ∀ k < 25, isSpace (chr letters k).toNat = false := by decide
    exact this k hk
  · have : chr letters k = '\x00' := by
      unfold chr
      rw [List.getD_eq_getElem?_getD, List.getElem?_eq_none (by
        have : letters.length = 25 := by decide
        omega)]
      rfl
    rw [this]; decide

/-! ### the specification-side encoder and `decodeInt ∘ encodeInt` -/

/-- letters and two width-`p` decimal strings of the in-tile indices `X`, `Y` (units of `10^(5−p)` m) -/
def encodeCell (xh yh : Int) (X Y : Nat) (p : Nat) : List Char :=
  tileLetters xh yh ++ digitsW digits 10 p X ++ digitsW digits 10 p Y

/-- combined in-tile index of one coordinate of the floating part: `i1·10^(p−5) + i2` -/
def cellIndex (sc : Sc) (p : Nat) : Nat := sc.i1.toNat * 10 ^ (p - 5) + sc.i2.toNat

/-- `encodeInt` writes the width-`p` decimal strings of the combined indices (when the second part is in range) -/
theorem encodeInt_eq_cell (sx sy : Sc) (p : Nat) (hx : sx.i2.toNat < 10 ^ (p - 5)) (hy : sy.i2.toNat < 10 ^ (p - 5)) :
    encodeInt sx sy p = encodeCell sx.h sy.h (cellIndex sx p) (cellIndex sy p) p := by
  unfold encodeInt encodeCell cellIndex
  have e5 : osgb_tilelevel.toNat = 5 := rfl
  have e10 : osgb_base.toNat = 10 := rfl
  simp only [e5, e10]
  by_cases h : p ≤ 5
  · have h0 : p - 5 = 0 := by omega
    have hm : min p 5 = p := by omega
    have zx : sx.i2.toNat = 0 := by simpa [h0] using hx
    have zy : sy.i2.toNat = 0 := by simpa [h0] using hy
    simp [h0, hm, digitsW, zx, zy]
  · have hm : min p 5 = 5 := by omega
    have hp : 5 + (p - 5) = p := by omega
    have ex := digitsW_split digits 10 (by norm_num) 5 (p - 5) sx.i1.toNat sx.i2.toNat hx
    have ey := digitsW_split digits 10 (by norm_num) 5 (p - 5) sy.i1.toNat sy.i2.toNat hy
    rw [hp] at ex ey
    rw [hm, ← ex, ← ey]
    simp only [List.append_assoc]

theorem tileLetters_form (xh yh : Int) :
    tileLetters xh yh = [chr letters ((5 - ((yh + 5) / 5) - 1) * 5 + ((xh + 10) / 5)).toNat,
                         chr letters ((5 - ((yh + 5) % 5) - 1) * 5 + ((xh + 10) % 5)).toNat] := rfl

/-- **`decodeInt ∘ encodeCell`**: every 100 km square of the grid, every in-tile index, every precision `≤ 11` -/
theorem decode_encodeCell (xh yh : Int) (X Y p : Nat) (hp : p ≤ 11) (hx : -10 ≤ xh ∧ xh < 15) (hy : -5 ≤ yh ∧ yh < 20) :
    decodeInt (toBytes (encodeCell xh yh X Y p)) = .ok ⟨xh, yh, natDigits p X, natDigits p Y, p⟩ := by
  set i := ((5 - ((yh + 5) / 5) - 1) * 5 + ((xh + 10) / 5)).toNat with hi
  set j := ((5 - ((yh + 5) % 5) - 1) * 5 + ((xh + 10) % 5)).toNat with hj
  have hi25 : i < 25 := by omega
  have hj25 : j < 25 := by omega
  set dx := toBytes (digitsW digits 10 p X) with hdx
  set dy := toBytes (digitsW digits 10 p Y) with hdy
  have ldx : dx.length = p := by simp [hdx, toBytes, Digits.digitsW_length]
  have ldy : dy.length = p := by simp [hdy, toBytes, Digits.digitsW_length]
  have hS : toBytes (encodeCell xh yh X Y p) = (chr letters i).toNat :: (chr letters j).toNat :: (dx ++ dy) := by
    unfold encodeCell
    rw [tileLetters_form]
    simp [toBytes, hdx, hdy, hi, hj]
  have hfilt : ((chr letters i).toNat :: (chr letters j).toNat :: (dx ++ dy)).filter (fun c => !isSpace c)
      = (chr letters i).toNat :: (chr letters j).toNat :: (dx ++ dy) := by
    apply List.filter_eq_self.mpr
    intro c hc
    rcases List.mem_cons.mp hc with rfl | hc
    · simp [letters_nospace]
    rcases List.mem_cons.mp hc with rfl | hc
    · simp [letters_nospace]
    rcases List.mem_append.mp hc with h | h
    · simp [digitsW_nospace p X c h]
    · simp [digitsW_nospace p Y c h]
  unfold decodeInt
  simp only [hS, hfilt]
  have hlen : ((chr letters i).toNat :: (chr letters j).toNat :: (dx ++ dy)).length = 2 + 2 * p := by
    simp [ldx, ldy]; omega
  have e11 : osgb_maxprec.toNat = 11 := rfl
  rw [hlen, e11]
  rw [if_neg (by omega), if_neg (by omega), if_neg (by omega)]
  have g0 : ((chr letters i).toNat :: (chr letters j).toNat :: (dx ++ dy)).getD 0 0 = (chr letters i).toNat := rfl
  have g1 : ((chr letters i).toNat :: (chr letters j).toNat :: (dx ++ dy)).getD 1 0 = (chr letters j).toNat := rfl
  rw [g0, g1, letters_chr_lookup i hi25, letters_chr_lookup j hj25]
  simp only []
  have hprec : (2 + 2 * p - 2) / 2 = p := by omega
  rw [hprec]
  have d1 : (List.drop 2 ((chr letters i).toNat :: (chr letters j).toNat :: (dx ++ dy))).take p = dx := by
    simp [List.take_append_of_le_length, ldx]
  have d2 : List.drop (2 + p) ((chr letters i).toNat :: (chr letters j).toNat :: (dx ++ dy)) = dy := by
    rw [Nat.add_comm]
    simp [List.drop_append, ldx]
  rw [d1, d2, hdx, hdy, readDigits_digitsW, readDigits_digitsW]
  simp only []
  congr 1
  have hxi : ((i : Nat) : Int) = (5 - ((yh + 5) / 5) - 1) * 5 + ((xh + 10) / 5) := by omega
  have hxj : ((j : Nat) : Int) = (5 - ((yh + 5) % 5) - 1) * 5 + ((xh + 10) % 5) := by omega
  simp only [letterStep, osgb_tilegrid, osgb_tileoffx, osgb_tileoffy, Dec.mk.injEq, and_true]
  constructor <;> omega

/-! ### prefix law -/

/-- **prefix law**: the reference of the parent square (`X/10`, `Y/10` at precision `p`) is, field by field, a prefix of
the reference at precision `p + 1`: letters and easting digits are a prefix of the finer reference, and the northing
digits are a prefix of the finer northing digits -/
theorem encodeCell_prefix (xh yh : Int) (X Y p : Nat) :
    (encodeCell xh yh (X / 10) (Y / 10) p).take (2 + p) <+: encodeCell xh yh X Y (p + 1) ∧
    (encodeCell xh yh (X / 10) (Y / 10) p).drop (2 + p) <+: (encodeCell xh yh X Y (p + 1)).drop (2 + (p + 1)) := by
  unfold encodeCell
  have hl : (tileLetters xh yh).length = 2 := rfl
  have lx : (digitsW digits 10 p (X / 10)).length = p := Digits.digitsW_length _ _ _ _
  have lx1 : (digitsW digits 10 (p + 1) X).length = p + 1 := Digits.digitsW_length _ _ _ _
  have e1 : (tileLetters xh yh ++ digitsW digits 10 p (X / 10) ++ digitsW digits 10 p (Y / 10)).take (2 + p)
      = tileLetters xh yh ++ digitsW digits 10 p (X / 10) := by
    rw [List.take_append_of_le_length (by simp [hl, lx]), List.take_of_length_le (by simp [hl, lx])]
  have e2 : (tileLetters xh yh ++ digitsW digits 10 p (X / 10) ++ digitsW digits 10 p (Y / 10)).drop (2 + p)
      = digitsW digits 10 p (Y / 10) := by
    rw [List.drop_append_of_le_length (by simp [hl, lx]), List.drop_of_length_le (by simp [hl, lx]), List.nil_append]
  have e3 : (tileLetters xh yh ++ digitsW digits 10 (p + 1) X ++ digitsW digits 10 (p + 1) Y).drop (2 + (p + 1))
      = digitsW digits 10 (p + 1) Y := by
    rw [List.drop_append_of_le_length (by simp [hl, lx1]), List.drop_of_length_le (by simp [hl, lx1]), List.nil_append]
  rw [e1, e2, e3]
  refine ⟨?_, Digits.digitsW_prefix _ _ _ _⟩
  rw [List.append_assoc]
  refine (List.prefix_append_right_inj _).mpr ?_
  exact (Digits.digitsW_prefix digits 10 p X).trans (List.prefix_append _ _)

/-! ### re-encoding what the decoder accepted -/

theorem digitsW_eq_map (w n : Nat) : digitsW digits 10 w n = (natDigits w n).map (chr digits) := by
  induction w generalizing n with
  | zero => rfl
  | succ w ih => simp [digitsW, natDigits, ih]

theorem natDigits_digitsVal (ds : List Nat) (h : ∀ d ∈ ds, d < 10) : natDigits ds.length (digitsVal ds) = ds := by
  induction ds using List.reverseRecOn with
  | nil => rfl
  | append_singleton init d ih =>
    have hd : d < 10 := h d (by simp)
    rw [List.length_append, List.length_singleton, natDigits, digitsVal_append,
      show (10 * digitsVal init + d) / 10 = digitsVal init by omega,
      show (10 * digitsVal init + d) % 10 = d by omega,
      ih (fun x hx => h x (by simp [hx]))]

/-- what a successful `readDigits` says: the bytes are `'0' + d` with `d < 10` -/
theorem readDigits_spec (l ds : List Nat) (h : readDigits digits l = some ds) :
    l = ds.map (48 + ·) ∧ ∀ d ∈ ds, d < 10 := by
  induction l generalizing ds with
  | nil =>
    have : ds = [] := by simpa [readDigits] using h.symm
    subst this; simp
  | cons c cs ih =>
    unfold readDigits at h
    cases hc : lookup digits c with
    | none => rw [hc] at h; simp at h
    | some k =>
      cases hr : readDigits digits cs with
      | none => rw [hc, hr] at h; simp at h
      | some ks =>
        rw [hc, hr] at h
        have : ds = k :: ks := by simpa using h.symm
        subst this
        obtain ⟨a, b⟩ := ih ks hr
        obtain ⟨k10, ck⟩ := digits_lookup_val c k hc
        refine ⟨by simp [ck, ← a], ?_⟩
        intro d hd
        rcases List.mem_cons.mp hd with rfl | hd
        · exact k10
        · exact b d hd

theorem readDigits_isSome_iff (l : List Nat) : (readDigits digits l).isSome = true ↔ ∀ c ∈ l, isDigit c = true := by
  induction l with
  | nil => simp [readDigits]
  | cons c cs ih =>
    unfold readDigits
    have hd := digits_isSome c
    cases hc : lookup digits c with
    | none =>
      rw [hc] at hd
      simp only [Option.isSome_none] at hd
      simp [← hd]
    | some k =>
      rw [hc] at hd
      simp only [Option.isSome_some] at hd
      cases hr : readDigits digits cs with
      | none =>
        rw [hr] at ih
        simp only [Option.isSome_none, Bool.false_eq_true, false_iff] at ih
        simp only [Option.isSome_none, Bool.false_eq_true, List.mem_cons, forall_eq_or_imp, false_iff, not_and]
        intro _; exact ih
      | some ks =>
        rw [hr] at ih
        simp only [Option.isSome_some, true_iff] at ih
        simp only [Option.isSome_some, List.mem_cons, forall_eq_or_imp, true_iff]
        exact ⟨hd.symm, ih⟩

theorem chr_digits_toNat : ∀ k < 10, (chr digits k).toNat = 48 + k := by decide

theorem upper_digit (d : Nat) (h : d < 10) : upper (48 + d) = 48 + d := by
  unfold upper; rw [if_neg (by omega)]

/-- the letters of the decoded square are the two letters that were read (upper-cased) -/
theorem tileLetters_letterStep (i j : Nat) (hi : i < 25) (hj : j < 25) :
    tileLetters ((letterStep (letterStep (0, 0) i) j).1 - osgb_tileoffx) ((letterStep (letterStep (0, 0) i) j).2 - osgb_tileoffy)
      = [chr letters i, chr letters j] := by
  rw [tileLetters_form]
  simp only [letterStep, osgb_tilegrid, osgb_tileoffx, osgb_tileoffy]
  have a : ((5 - (((0:Int) * 5 + 5 - (i:Int) / 5 - 1) * 5 + 5 - (j:Int) / 5 - 1 - 5 + 5) / 5 - 1) * 5
      + (((0:Int) * 5 + (i:Int) % 5) * 5 + (j:Int) % 5 - 10 + 10) / 5).toNat = i := by omega
  have b : ((5 - (((0:Int) * 5 + 5 - (i:Int) / 5 - 1) * 5 + 5 - (j:Int) / 5 - 1 - 5 + 5) % 5 - 1) * 5
      + (((0:Int) * 5 + (i:Int) % 5) * 5 + (j:Int) % 5 - 10 + 10) % 5).toNat = j := by omega
  rw [a, b]

/-- the decoded square lies in the grid -/
theorem letterStep_range (i j : Nat) (hi : i < 25) (hj : j < 25) :
    -10 ≤ (letterStep (letterStep (0, 0) i) j).1 - osgb_tileoffx ∧ (letterStep (letterStep (0, 0) i) j).1 - osgb_tileoffx < 15 ∧
    -5 ≤ (letterStep (letterStep (0, 0) i) j).2 - osgb_tileoffy ∧ (letterStep (letterStep (0, 0) i) j).2 - osgb_tileoffy < 20 := by
  simp only [letterStep, osgb_tilegrid, osgb_tileoffx, osgb_tileoffy]
  omega

/-- structure of an accepted string -/
theorem decodeInt_ok (s : List Nat) (d : Dec) (h : decodeInt s = .ok d) :
    let g := s.filter (fun c => !isSpace c)
    ∃ i j : Nat, g.length = 2 + 2 * d.prec ∧ d.prec ≤ 11 ∧
      lookup letters (g.getD 0 0) = some i ∧ lookup letters (g.getD 1 0) = some j ∧
      d.xh = (letterStep (letterStep (0, 0) i) j).1 - osgb_tileoffx ∧ d.yh = (letterStep (letterStep (0, 0) i) j).2 - osgb_tileoffy ∧
      readDigits digits ((g.drop 2).take d.prec) = some d.xd ∧ readDigits digits (g.drop (2 + d.prec)) = some d.yd := by
  intro g
  unfold decodeInt at h
  simp only [] at h
  have e11 : osgb_maxprec.toNat = 11 := rfl
  rw [e11] at h
  by_cases c1 : g.length > 2 + 2 * 11
  · rw [if_pos c1] at h; cases h
  rw [if_neg c1] at h
  by_cases c2 : g.length < 2
  · rw [if_pos c2] at h; cases h
  rw [if_neg c2] at h
  by_cases c3 : g.length % 2 ≠ 0
  · rw [if_pos c3] at h; cases h
  rw [if_neg c3] at h
  cases hi : lookup letters (g.getD 0 0) with
  | none => rw [hi] at h; cases h
  | some i =>
    cases hj : lookup letters (g.getD 1 0) with
    | none => rw [hi, hj] at h; cases h
    | some j =>
      rw [hi, hj] at h
      simp only [] at h
      cases hx : readDigits digits ((g.drop 2).take ((g.length - 2) / 2)) with
      | none => rw [hx] at h; cases h
      | some xd =>
        cases hy : readDigits digits (g.drop (2 + (g.length - 2) / 2)) with
        | none => rw [hx, hy] at h; cases h
        | some yd =>
          rw [hx, hy] at h
          simp only [] at h
          have hd : d = ⟨(letterStep (letterStep (0, 0) i) j).1 - osgb_tileoffx, (letterStep (letterStep (0, 0) i) j).2 - osgb_tileoffy,
              xd, yd, (g.length - 2) / 2⟩ := by
            injection h with h; exact h.symm
          subst hd
          exact ⟨i, j, by show g.length = 2 + 2 * ((g.length - 2) / 2); omega, by show (g.length - 2) / 2 ≤ 11; omega,
            rfl, rfl, rfl, rfl, hx, hy⟩

/-- **re-encode law (integer level)**: for every string the decoder accepts, encoding the decoded square at the decoded
precision gives the string upper-cased with white space removed -/
theorem reencode (s : List Nat) (d : Dec) (h : decodeInt s = .ok d) :
    toBytes (encodeCell d.xh d.yh (digitsVal d.xd) (digitsVal d.yd) d.prec) = (s.filter (fun c => !isSpace c)).map upper := by
  obtain ⟨i, j, hlen, _, hi, hj, hxh, hyh, hx, hy⟩ := decodeInt_ok s d h
  set g := s.filter (fun c => !isSpace c) with hg
  obtain ⟨_, i25, ci⟩ := lookup_some_spec letters _ i hi
  obtain ⟨_, j25, cj⟩ := lookup_some_spec letters _ j hj
  have l25 : letters.length = 25 := by decide
  rw [l25] at i25 j25
  obtain ⟨ex, bx⟩ := readDigits_spec _ _ hx
  obtain ⟨ey, by_⟩ := readDigits_spec _ _ hy
  have lxd : d.xd.length = d.prec := by
    have := congrArg List.length ex
    rw [List.length_map, List.length_take, List.length_drop] at this
    omega
  have lyd : d.yd.length = d.prec := by
    have := congrArg List.length ey
    rw [List.length_map, List.length_drop] at this
    omega
  -- the string in pieces
  have hsplit : g = g.getD 0 0 :: g.getD 1 0 :: ((g.drop 2).take d.prec ++ g.drop (2 + d.prec)) := by
    match g, hlen with
    | a :: b :: rest, _ =>
      simp only [List.getD_cons_zero, List.getD_cons_succ, List.drop_succ_cons, List.drop_zero]
      rw [show 2 + d.prec = d.prec + 2 by omega]
      simp only [List.drop_succ_cons, List.take_append_drop]
    | [], hl => simp at hl; omega
    | [_], hl => simp at hl; omega
  unfold encodeCell
  rw [hxh, hyh, tileLetters_letterStep i j i25 j25]
  rw [← lxd, digitsW_eq_map, natDigits_digitsVal _ bx, lxd, ← lyd, digitsW_eq_map, natDigits_digitsVal _ by_]
  conv_rhs => rw [hsplit]
  rw [ex, ey]
  simp only [toBytes, List.map_cons, List.map_append, List.map_map, List.cons_append, List.nil_append, ci, cj]
  congr 2
  congr 1 <;>
  · apply List.map_congr_left
    intro k hk
    simp only [Function.comp]
    first
      | rw [chr_digits_toNat k (bx k hk), upper_digit k (bx k hk)]
      | rw [chr_digits_toNat k (by_ k hk), upper_digit k (by_ k hk)]

/-- **`accept_iff`**: the decoder accepts exactly the strings that, with white space removed, have an even length in
`[2, 24]`, start with two letters of `A–Z` without `I` (either case) and continue with decimal digits only -/
theorem accept_iff (s : List Nat) :
    (∃ d, decodeInt s = .ok d) ↔
      (let g := s.filter (fun c => !isSpace c)
       2 ≤ g.length ∧ g.length ≤ 24 ∧ g.length % 2 = 0 ∧ isLetter (g.getD 0 0) = true ∧ isLetter (g.getD 1 0) = true ∧
       ∀ c ∈ g.drop 2, isDigit c = true) := by
  constructor
  · rintro ⟨d, h⟩
    obtain ⟨i, j, hlen, hp, hi, hj, _, _, hx, hy⟩ := decodeInt_ok s d h
    simp only []
    set g := s.filter (fun c => !isSpace c) with hg
    refine ⟨by omega, by omega, by omega, ?_, ?_, ?_⟩
    · rw [← letters_isSome, hi]; rfl
    · rw [← letters_isSome, hj]; rfl
    · intro c hc
      have hsplit : g.drop 2 = (g.drop 2).take d.prec ++ g.drop (2 + d.prec) := by
        rw [← List.drop_drop, List.take_append_drop]
      rw [hsplit] at hc
      rcases List.mem_append.mp hc with h1 | h1
      · exact (readDigits_isSome_iff _).mp (by rw [hx]; rfl) c h1
      · exact (readDigits_isSome_iff _).mp (by rw [hy]; rfl) c h1
  · simp only []
    set g := s.filter (fun c => !isSpace c) with hg
    rintro ⟨h2, h24, hev, l0, l1, hdig⟩
    rw [← letters_isSome] at l0 l1
    obtain ⟨i, hi⟩ := Option.isSome_iff_exists.mp l0
    obtain ⟨j, hj⟩ := Option.isSome_iff_exists.mp l1
    have hx : (readDigits digits ((g.drop 2).take ((g.length - 2) / 2))).isSome = true :=
      (readDigits_isSome_iff _).mpr (fun c hc => hdig c (List.mem_of_mem_take hc))
    have hy : (readDigits digits (g.drop (2 + (g.length - 2) / 2))).isSome = true :=
      (readDigits_isSome_iff _).mpr (fun c hc => hdig c (by
        rw [← List.drop_drop] at hc; exact List.mem_of_mem_drop hc))
    obtain ⟨xd, hxd⟩ := Option.isSome_iff_exists.mp hx
    obtain ⟨yd, hyd⟩ := Option.isSome_iff_exists.mp hy
    refine ⟨⟨(letterStep (letterStep (0, 0) i) j).1 - osgb_tileoffx, (letterStep (letterStep (0, 0) i) j).2 - osgb_tileoffy,
      xd, yd, (g.length - 2) / 2⟩, ?_⟩
    unfold decodeInt
    simp only []
    have e11 : osgb_maxprec.toNat = 11 := rfl
    rw [e11, ← hg, if_neg (by omega), if_neg (by omega), if_neg (by omega), hi, hj]
    simp only [hxd, hyd]

/-! ### case-insensitivity -/

theorem upper_idem (c : Nat) : upper (upper c) = upper c := by
  unfold upper
  by_cases h : 97 ≤ c ∧ c ≤ 122
  · rw [if_pos h, if_neg (by omega)]
  · rw [if_neg h, if_neg h]

theorem upper_eq_zero (c : Nat) : upper c = 0 ↔ c = 0 := by
  unfold upper
  by_cases h : 97 ≤ c ∧ c ≤ 122
  · rw [if_pos h]; omega
  · rw [if_neg h]

theorem lookup_upper (tbl : List Char) (c : Nat) : lookup tbl (upper c) = lookup tbl c := by
  unfold lookup
  rw [upper_idem]
  by_cases h : c = 0
  · rw [if_pos ((upper_eq_zero c).mpr h), if_pos h]
  · rw [if_neg (fun e => h ((upper_eq_zero c).mp e)), if_neg h]

theorem isSpace_upper (c : Nat) : isSpace (upper c) = isSpace c := by
  unfold upper
  by_cases h : 97 ≤ c ∧ c ≤ 122
  · rw [if_pos h]
    have a : isSpace (c - 32) = false := by
      unfold isSpace
      have a1 : ¬ (c - 32 = 32) := by omega
      have a2 : ¬ (c - 32 ≤ 13) := by omega
      simp [a1, a2]
    have b : isSpace c = false := by
      unfold isSpace
      have b1 : ¬ (c = 32) := by omega
      have b2 : ¬ (c ≤ 13) := by omega
      simp [b1, b2]
    rw [a, b]
  · rw [if_neg h]

theorem readDigits_upper (tbl : List Char) (l : List Nat) : readDigits tbl (l.map upper) = readDigits tbl l := by
  induction l with
  | nil => rfl
  | cons c cs ih => simp only [List.map_cons, readDigits, lookup_upper, ih]

/-- **decoding is case-insensitive**: upper-casing every byte does not change the result -/
theorem decodeInt_upper (s : List Nat) : decodeInt (s.map upper) = decodeInt s := by
  have hf : (s.map upper).filter (fun c => !isSpace c) = (s.filter (fun c => !isSpace c)).map upper := by
    rw [List.filter_map]
    congr 1
    apply List.filter_congr
    intro c _
    simp [Function.comp, isSpace_upper]
  unfold decodeInt
  simp only [hf, List.length_map]
  have g0 : ∀ i, lookup letters (((s.filter (fun c => !isSpace c)).map upper).getD i 0) =
      lookup letters ((s.filter (fun c => !isSpace c)).getD i 0) := by
    intro i
    rw [List.getD_eq_getElem?_getD, List.getD_eq_getElem?_getD, List.getElem?_map]
    cases h : (s.filter (fun c => !isSpace c))[i]? with
    | none => rfl
    | some c => simp [lookup_upper]
  rw [g0 0, g0 1]
  simp only [← List.map_drop, ← List.map_take, readDigits_upper]

end GeoVerif.OSGBInt
