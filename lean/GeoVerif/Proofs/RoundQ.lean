import GeoVerif.Proofs.Round53
/-!
# Correct rounding of a rational: the predicate `IsRN` and its consequences

`IsRN p emin z r` says that `r` is the round-to-nearest-even of the *rational* `z` to `p` significant bits with
last-bit exponent `≥ emin` (the description used by IEEE 754, via the binade `2^(E−1) ≤ |z| < 2^E`).
`Dy.roundTo` satisfies it for dyadic `z` and `Dy.divTo` for quotients (`Proofs/DivTo.lean`), so monotonicity,
"no crossing of representable numbers" and the error bounds are proved once, here, for every correctly rounded operation.
-/
namespace GeoVerif
open Dy

/-- `r` is `z` rounded to nearest (ties to even) at precision `p`, minimal exponent `emin` -/
structure IsRN (p : ℕ) (emin : ℤ) (z r : ℚ) : Prop where
  zero : z = 0 → r = 0
  nz : z ≠ 0 → ∃ E k : ℤ, (2:ℚ) ^ (E - 1) ≤ |z| ∧ |z| < (2:ℚ) ^ E ∧
      r = k * (2:ℚ) ^ (max (E - p) emin) ∧ 2 * |r - z| ≤ (2:ℚ) ^ (max (E - p) emin) ∧
      (2 * |r - z| = (2:ℚ) ^ (max (E - p) emin) → k % 2 = 0)

namespace IsRN
variable {p : ℕ} {emin : ℤ}

theorem binade_le {z : ℚ} {E1 E2 : ℤ} (h1 : (2:ℚ) ^ (E1 - 1) ≤ |z|) (h2 : |z| < (2:ℚ) ^ E2) : E1 ≤ E2 := by
  have := two_zpow_lt_iff.mp (lt_of_le_of_lt h1 h2)
  omega

theorem neg {z r : ℚ} (h : IsRN p emin z r) : IsRN p emin (-z) (-r) where
  zero := fun hz => by rw [h.zero (by linarith)]; simp
  nz := fun hz => by
    obtain ⟨E, k, h1, h2, h3, h4, h5⟩ := h.nz (by intro e; apply hz; rw [e]; simp)
    refine ⟨E, -k, by rwa [abs_neg], by rwa [abs_neg], by rw [h3]; push_cast; ring, ?_, ?_⟩
    · have : -r - -z = -(r - z) := by ring
      rw [this, abs_neg]; exact h4
    · have : -r - -z = -(r - z) := by ring
      rw [this, abs_neg]; intro e; have := h5 e; omega

/-- no crossing of a point of the own grid or any coarser one -/
theorem no_cross_le {z r : ℚ} (h : IsRN p emin z r) (hz : z ≠ 0) (g s : ℤ)
    (hs : ∀ E : ℤ, (2:ℚ) ^ (E - 1) ≤ |z| → |z| < (2:ℚ) ^ E → max (E - p) emin ≤ s)
    (hle : z ≤ g * (2:ℚ) ^ s) : r ≤ g * (2:ℚ) ^ s := by
  obtain ⟨E, k, h1, h2, h3, h4, _⟩ := h.nz hz
  have hts := hs E h1 h2
  set t := max (E - p) emin with ht
  have htp := two_zpow_pos t
  have hG : (g:ℚ) * (2:ℚ) ^ s = ((g * 2 ^ (s - t).toNat : ℤ) : ℚ) * (2:ℚ) ^ t := by
    push_cast
    rw [mul_assoc, ← zpow_natCast, ← two_zpow_split]; congr 2
    rw [Int.toNat_of_nonneg (by omega)]; ring
  rw [hG] at hle ⊢
  set g' := g * 2 ^ (s - t).toNat
  by_contra hc
  rw [h3] at hc h4
  have hkg : g' < k := by
    have := lt_of_mul_lt_mul_right (not_le.mp hc) htp.le
    exact_mod_cast this
  have hkg' : (g':ℚ) + 1 ≤ k := by exact_mod_cast hkg
  have h6 : (g':ℚ) * (2:ℚ) ^ t + (2:ℚ) ^ t ≤ k * (2:ℚ) ^ t := by nlinarith
  have h7 := le_abs_self ((k:ℚ) * (2:ℚ) ^ t - z)
  linarith

theorem no_cross_ge {z r : ℚ} (h : IsRN p emin z r) (hz : z ≠ 0) (g s : ℤ)
    (hs : ∀ E : ℤ, (2:ℚ) ^ (E - 1) ≤ |z| → |z| < (2:ℚ) ^ E → max (E - p) emin ≤ s)
    (hle : g * (2:ℚ) ^ s ≤ z) : g * (2:ℚ) ^ s ≤ r := by
  have := no_cross_le h.neg (by simpa using hz) (-g) s (by intro E; rw [abs_neg]; exact hs E)
    (by push_cast; linarith)
  push_cast at this; linarith

theorem nonneg {z r : ℚ} (h : IsRN p emin z r) (hz : 0 ≤ z) : 0 ≤ r := by
  by_cases h0 : z = 0
  · rw [h.zero h0]
  · obtain ⟨E, k, h1, h2, h3, h4, _⟩ := h.nz h0
    have := no_cross_ge h h0 0 (max (E - p) emin) (by
      intro E' a b
      have e1 := binade_le a h2
      have e2 := binade_le h1 b
      have : E' = E := by omega
      rw [this]) (by simpa using hz)
    simpa using this

theorem nonpos {z r : ℚ} (h : IsRN p emin z r) (hz : z ≤ 0) : r ≤ 0 := by
  have := nonneg h.neg (by linarith); linarith

/-- monotone on one grid -/
theorem mono_same {z1 r1 z2 r2 : ℚ} (t : ℤ) (k1 k2 : ℤ)
    (a3 : r1 = k1 * (2:ℚ) ^ t) (a4 : 2 * |r1 - z1| ≤ (2:ℚ) ^ t) (a5 : 2 * |r1 - z1| = (2:ℚ) ^ t → k1 % 2 = 0)
    (b3 : r2 = k2 * (2:ℚ) ^ t) (b4 : 2 * |r2 - z2| ≤ (2:ℚ) ^ t) (b5 : 2 * |r2 - z2| = (2:ℚ) ^ t → k2 % 2 = 0)
    (h : z1 ≤ z2) : r1 ≤ r2 := by
  have hT := two_zpow_pos t
  rw [a3] at a4 a5 ⊢
  rw [b3] at b4 b5 ⊢
  generalize (2:ℚ) ^ t = T at *
  by_contra hc
  have hlt : k2 < k1 := by
    have := lt_of_mul_lt_mul_right (not_le.mp hc) hT.le
    exact_mod_cast this
  have hlt' : (k2:ℚ) + 1 ≤ k1 := by exact_mod_cast hlt
  have a1 := le_abs_self ((k1:ℚ) * T - z1)
  have b1 := neg_abs_le ((k2:ℚ) * T - z2)
  have hle : ((k1:ℚ) - k2 - 1) * T ≤ 0 := by nlinarith
  have hle2 : (k1:ℚ) - k2 - 1 ≤ 0 := by
    by_contra h5
    have := mul_pos (not_le.mp h5) hT
    linarith
  have hkk : (k1:ℚ) = k2 + 1 := by linarith
  have hkk' : k1 = k2 + 1 := by exact_mod_cast hkk
  have ea : (k1:ℚ) * T - z1 = T / 2 := by rw [hkk] at a1 a4 ⊢; nlinarith
  have eb : (k2:ℚ) * T - z2 = -(T / 2) := by rw [hkk] at a1 a4; nlinarith
  have e1 := a5 (by rw [ea, abs_of_pos (by linarith)]; ring)
  have e2 := b5 (by rw [eb, abs_neg, abs_of_pos (by linarith)]; ring)
  omega

theorem mono_pos (hp : 1 ≤ p) {z1 r1 z2 r2 : ℚ} (h1 : IsRN p emin z1 r1) (h2 : IsRN p emin z2 r2)
    (hz : 0 < z1) (h : z1 ≤ z2) : r1 ≤ r2 := by
  have hz2 : 0 < z2 := lt_of_lt_of_le hz h
  obtain ⟨E1, k1, a1, a2, a3, a4, a5⟩ := h1.nz hz.ne'
  obtain ⟨E2, k2, b1, b2, b3, b4, b5⟩ := h2.nz hz2.ne'
  have hE : E1 ≤ E2 := by
    rw [abs_of_pos hz] at a1; rw [abs_of_pos hz2] at b2
    have : (2:ℚ) ^ (E1 - 1) < (2:ℚ) ^ E2 := by linarith
    have := two_zpow_lt_iff.mp this
    omega
  by_cases ht : max (E1 - p) emin = max (E2 - p) emin
  · rw [ht] at a3 a4 a5
    exact mono_same _ k1 k2 a3 a4 a5 b3 b4 b5 h
  · have hE2 : E1 < E2 := by omega
    have hty : max (E2 - p) emin = E2 - p := by omega
    have uniq1 : ∀ E : ℤ, (2:ℚ) ^ (E - 1) ≤ |z1| → |z1| < (2:ℚ) ^ E → max (E - p) emin ≤ E2 - 1 := by
      intro E a b
      have e1 := binade_le a a2
      omega
    have uniq2 : ∀ E : ℤ, (2:ℚ) ^ (E - 1) ≤ |z2| → |z2| < (2:ℚ) ^ E → max (E - p) emin ≤ E2 - 1 := by
      intro E a b
      have e1 := binade_le a b2
      have e2 := binade_le b1 b
      omega
    rw [abs_of_pos hz] at a2; rw [abs_of_pos hz2] at b1
    have hG : z1 ≤ ((1:ℤ):ℚ) * (2:ℚ) ^ (E2 - 1) := by
      have : (2:ℚ) ^ E1 ≤ (2:ℚ) ^ (E2 - 1) := two_zpow_le (by omega)
      push_cast; linarith
    have hG' : ((1:ℤ):ℚ) * (2:ℚ) ^ (E2 - 1) ≤ z2 := by push_cast; linarith
    have r1' := no_cross_le h1 hz.ne' 1 (E2 - 1) uniq1 hG
    have r2' := no_cross_ge h2 hz2.ne' 1 (E2 - 1) uniq2 hG'
    linarith

/-- **monotonicity of correct rounding** -/
theorem mono (hp : 1 ≤ p) {z1 r1 z2 r2 : ℚ} (h1 : IsRN p emin z1 r1) (h2 : IsRN p emin z2 r2)
    (h : z1 ≤ z2) : r1 ≤ r2 := by
  by_cases hx : 0 < z1
  · exact mono_pos hp h1 h2 hx h
  · by_cases hy : z2 < 0
    · have := mono_pos hp h2.neg h1.neg (by linarith) (by linarith)
      linarith
    · have := nonpos h1 (not_lt.mp hx)
      have := nonneg h2 (not_lt.mp hy)
      linarith

/-- the correctly rounded value is unique -/
theorem unique (hp : 1 ≤ p) {z r1 r2 : ℚ} (h1 : IsRN p emin z r1) (h2 : IsRN p emin z r2) : r1 = r2 :=
  le_antisymm (mono hp h1 h2 (le_refl _)) (mono hp h2 h1 (le_refl _))

/-- half-ulp error bound in terms of the binade -/
theorem abserr {z r : ℚ} (h : IsRN p emin z r) (E : ℤ) (hE : |z| < (2:ℚ) ^ E) :
    2 * |r - z| ≤ (2:ℚ) ^ (max (E - p) emin) := by
  by_cases h0 : z = 0
  · rw [h.zero h0, h0]; simp; positivity
  · obtain ⟨E', k, h1, h2, h3, h4, _⟩ := h.nz h0
    have := binade_le h1 hE
    exact le_trans h4 (two_zpow_le (by omega))

end IsRN

/-- `Dy.roundTo` is correct rounding of the value -/
theorem roundTo_isRN (p : ℕ) (emin : ℤ) (x : Dy) : IsRN p emin x.val (roundTo p emin x).val where
  zero := fun hz => roundTo_val_zero p emin x ((m_zero_iff x).mpr hz)
  nz := fun hz => by
    have hm : x.m ≠ 0 := fun e => hz ((m_zero_iff x).mp e)
    obtain ⟨k, hk, h2, h3, _⟩ := roundTo_spec p emin x hm
    obtain ⟨b1, b2⟩ := val_binade x hm
    exact ⟨bexp x, k, b1, b2, hk, h2, h3⟩

/-- any correctly rounded value of a dyadic is what `roundTo` computes -/
theorem IsRN.eq_roundTo {p : ℕ} (hp : 1 ≤ p) {emin : ℤ} (x : Dy) {r : ℚ} (h : IsRN p emin x.val r) :
    r = (roundTo p emin x).val := IsRN.unique hp h (roundTo_isRN p emin x)

end GeoVerif
