import GeoVerif.Proofs.DMSEncode
import GeoVerif.Proofs.DMSPlain
/-!
# Closure of the formatter into the parser: `decode (encode x …)` is the numeric stage on the printed fields
-/
namespace GeoVerif.DMSProofs
open GeoVerif GeoVerif.DMS GeoVerif.Gen GeoVerif.Decimal

/-! ## characters of the encoder grammar -/

/-- digits, `.`, `d`, `'`, `"`, `:` -/
def BodyChar (c : Nat) : Prop := IsDigit c ∨ c = 46 ∨ c = 100 ∨ c = 39 ∨ c = 34 ∨ c = 58
def AllBody (s : Bytes) : Prop := ∀ c ∈ s, BodyChar c

theorem AllBody.nil : AllBody [] := by intro c hc; cases hc
theorem AllBody.append {a b : Bytes} (ha : AllBody a) (hb : AllBody b) : AllBody (a ++ b) := by
  intro c hc
  rcases List.mem_append.mp hc with h | h
  · exact ha c h
  · exact hb c h
theorem AllBody.cons {a : Nat} {b : Bytes} (ha : BodyChar a) (hb : AllBody b) : AllBody (a :: b) := by
  intro c hc
  rcases List.mem_cons.mp hc with h | h
  · subst h; exact ha
  · exact hb c h
theorem AllDigits.allBody {a : Bytes} (h : AllDigits a) : AllBody a := fun c hc => Or.inl (h c hc)

theorem fracPart_allBody (F : Bytes) (hF : AllDigits F) : AllBody (fracPart F) := by
  unfold fracPart
  split
  · exact AllBody.nil
  · exact AllBody.cons (by unfold BodyChar; omega) hF.allBody

theorem dmsText_allBody (t sep : Nat) (D M S F : Bytes) (hsep : sep = 0 ∨ sep = 58)
    (hD : AllDigits D) (hM : AllDigits M) (hS : AllDigits S) (hF : AllDigits F) : AllBody (dmsText t sep D M S F) := by
  have b100 : BodyChar 100 := by unfold BodyChar; omega
  have b39 : BodyChar 39 := by unfold BodyChar; omega
  have b34 : BodyChar 34 := by unfold BodyChar; omega
  have b58 : BodyChar 58 := by unfold BodyChar; omega
  have hfr := fracPart_allBody F hF
  unfold dmsText
  rcases hsep with rfl | rfl
  · simp only [ne_eq, not_true_eq_false, if_false, if_true]
    split
    · exact hD.allBody.append hfr
    · split
      · exact hD.allBody.append (AllBody.cons b100 (hM.allBody.append (hfr.append (AllBody.cons b39 AllBody.nil))))
      · exact hD.allBody.append (AllBody.cons b100 (hM.allBody.append (AllBody.cons b39
          (hS.allBody.append (hfr.append (AllBody.cons b34 AllBody.nil))))))
  · simp only [ne_eq, Nat.reduceEqDiff, not_false_eq_true, if_true, if_false]
    split
    · exact hD.allBody.append hfr
    · split
      · exact hD.allBody.append (AllBody.cons b58 (hM.allBody.append (hfr.append AllBody.nil)))
      · exact hD.allBody.append (AllBody.cons b58 (hM.allBody.append (AllBody.cons b58
          (hS.allBody.append (hfr.append AllBody.nil)))))

theorem count39_digits (ds : Bytes) (h : AllDigits ds) : ds.count 39 = 0 := by
  rw [List.count_eq_zero]
  intro hc
  have := h 39 hc
  unfold IsDigit at this; omega

theorem count39_fracPart (F : Bytes) (hF : AllDigits F) : (fracPart F).count 39 = 0 := by
  unfold fracPart
  split
  · rfl
  · rw [List.count_cons, count39_digits F hF]; rfl

theorem dmsText_count39 (t sep : Nat) (D M S F : Bytes) (hsep : sep = 0 ∨ sep = 58)
    (hD : AllDigits D) (hM : AllDigits M) (hS : AllDigits S) (hF : AllDigits F) : (dmsText t sep D M S F).count 39 ≤ 1 := by
  have cD := count39_digits D hD
  have cM := count39_digits M hM
  have cS := count39_digits S hS
  have cF := count39_fracPart F hF
  unfold dmsText
  rcases hsep with rfl | rfl
  · simp only [ne_eq, not_true_eq_false, if_false, if_true]
    split
    · simp [List.count_append, cD, cF]
    · split
      · simp [List.count_append, cD, cM, cF]
      · simp [List.count_append, cD, cM, cS, cF]
  · simp only [ne_eq, Nat.reduceEqDiff, not_false_eq_true, if_true, if_false]
    split
    · simp [List.count_append, cD, cF]
    · split
      · simp [List.count_append, cD, cM, cF]
      · simp [List.count_append, cD, cM, cS, cF]

theorem dmsText_head (t sep : Nat) (D M S F : Bytes) (nD : D ≠ []) :
    ∃ d0 rest, D = d0 :: (D.drop 1) ∧ dmsText t sep D M S F = d0 :: rest := by
  cases D with
  | nil => exact absurd rfl nD
  | cons d0 D' =>
    refine ⟨d0, ?_, rfl, ?_⟩
    · exact (dmsText t sep (d0 :: D') M S F).drop 1
    · unfold dmsText; simp only []; split
      · rfl
      · split <;> rfl

/-- properties of the body characters with respect to the tables (decided on the 128 ASCII codes) -/
theorem bodyChar_tables : ∀ c, c < 128 → (48 ≤ c ∧ c ≤ 57 ∨ c = 46 ∨ c = 100 ∨ c = 39 ∨ c = 34 ∨ c = 58) →
    (lookup DMSC.hemispheres c < 0 ∧ lookup DMSC.signs c < 0 ∧ isSignRaw c = false ∧ isspace c = false ∧ isSign c = false ∧
      isHemi c = false) := by
  decide +kernel

theorem bodyChar_facts (c : Nat) (h : BodyChar c) :
    c < 128 ∧ c ≠ 42 ∧ c ≠ 96 ∧ lookup DMSC.hemispheres c < 0 ∧ lookup DMSC.signs c < 0 ∧ isSignRaw c = false ∧
      isspace c = false ∧ isSign c = false ∧ isHemi c = false := by
  have hlt : c < 128 := by unfold BodyChar IsDigit at h; omega
  have := bodyChar_tables c hlt (by unfold BodyChar IsDigit at h; exact h)
  refine ⟨hlt, ?_, ?_, this⟩ <;> (unfold BodyChar IsDigit at h; omega)

/-! ## `strip` on the three layouts -/

theorem strip_plain (b0 : Nat) (bt : Bytes) (hH0 : lookup DMSC.hemispheres b0 < 0) (hS0 : lookup DMSC.signs b0 < 0)
    (hL : ∀ c, (b0 :: bt).getLast? = some c → lookup DMSC.hemispheres c < 0) :
    strip (b0 :: bt) = .ok ⟨false, Flag.none, b0 :: bt⟩ := by
  have h1 : ¬ (lookup DMSC.hemispheres b0 ≥ 0) := by omega
  have h2 : ¬ (lookup DMSC.signs b0 ≥ 0) := by omega
  rcases hgl : (b0 :: bt).getLast? with _ | c
  · simp at hgl
  · have h3 : ¬ (lookup DMSC.hemispheres c ≥ 0) := by have := hL c hgl; omega
    simp [strip, h1, h2, h3, hgl]

theorem strip_minus (b0 : Nat) (bt : Bytes) (hL : ∀ c, (b0 :: bt).getLast? = some c → lookup DMSC.hemispheres c < 0) :
    strip (45 :: b0 :: bt) = .ok ⟨true, Flag.none, b0 :: bt⟩ := by
  have h1 : ¬ (lookup DMSC.hemispheres 45 ≥ 0) := by decide
  have h2 : lookup DMSC.signs 45 = 0 := by decide
  rcases hgl : (b0 :: bt).getLast? with _ | c
  · simp at hgl
  · have hgl' : (45 :: b0 :: bt).getLast? = some c := by rw [List.getLast?_cons_cons]; exact hgl
    have h3 : ¬ (lookup DMSC.hemispheres c ≥ 0) := by have := hL c hgl; omega
    simp [strip, h1, h2, h3, hgl']

theorem strip_hemi (b0 : Nat) (bt : Bytes) (L : Nat) (k : Int) (hk : lookup DMSC.hemispheres L = k) (hk0 : 0 ≤ k)
    (hH0 : lookup DMSC.hemispheres b0 < 0) (hS0 : lookup DMSC.signs b0 < 0) :
    strip ((b0 :: bt) ++ [L]) = .ok ⟨hemiNeg k, hemiFlag k, b0 :: bt⟩ := by
  have h1 : ¬ (lookup DMSC.hemispheres b0 ≥ 0) := by omega
  have h2 : ¬ (lookup DMSC.signs b0 ≥ 0) := by omega
  have hgl : (b0 :: (bt ++ [L])).getLast? = some L := by
    rw [← List.cons_append, List.getLast?_append]; simp
  have hdl : (b0 :: (bt ++ [L])).dropLast = b0 :: bt := by
    rw [← List.cons_append, List.dropLast_concat]
  simp [strip, h1, h2, hgl, hdl, hk, hk0]

/-! ## sign / hemisphere layouts of `assemble` -/

/-- the sign and flag `Decode` reads back from the layout written for `(ind, neg)` -/
def readNeg (ind : Flag) (neg : Bool) : Bool := if ind = Flag.azi then false else neg
def readFlag (ind : Flag) : Flag := if ind = Flag.lat then Flag.lat else if ind = Flag.lon then Flag.lon else Flag.none

theorem layout_cases (ind : Flag) (neg : Bool) (hind : ind ≠ Flag.num) :
    (sgnText ind neg = [] ∧ hemiText ind neg = [] ∧ readNeg ind neg = false ∧ readFlag ind = Flag.none) ∨
    (sgnText ind neg = [45] ∧ hemiText ind neg = [] ∧ readNeg ind neg = true ∧ readFlag ind = Flag.none) ∨
    (∃ L k, sgnText ind neg = [] ∧ hemiText ind neg = [L] ∧ lookup DMSC.hemispheres L = k ∧ 0 ≤ k ∧
      hemiNeg k = readNeg ind neg ∧ hemiFlag k = readFlag ind ∧ L < 128 ∧ L ≠ 42 ∧ L ≠ 96 ∧ L ≠ 39 ∧ isspace L = false ∧
      isSignRaw L = false) := by
  cases ind <;> cases neg
  all_goals first
    | exact absurd rfl hind
    | exact Or.inl (by decide)
    | exact Or.inr (Or.inl (by decide))
    | exact Or.inr (Or.inr ⟨83, 0, by decide⟩)
    | exact Or.inr (Or.inr ⟨78, 1, by decide⟩)
    | exact Or.inr (Or.inr ⟨87, 2, by decide⟩)
    | exact Or.inr (Or.inr ⟨69, 3, by decide⟩)

/-! ## the closure -/

/-- **`Decode` of a grammar text with the encoder's sign / hemisphere layout**: if the numeric stage accepts the three
    numbers, `decode` returns their value added to `-0`, with the flag of the hemisphere class -/
theorem decode_layout (t sep : Nat) (D M S F : Bytes) (ind : Flag) (neg : Bool) (v : F64) (ht : t ≤ 2)
    (hsep : sep = 0 ∨ sep = 58) (hind : ind ≠ Flag.num)
    (hD : AllDigits D) (hM : AllDigits M) (hS : AllDigits S) (hF : AllDigits F) (nD : D ≠ []) (nM : M ≠ []) (nS : S ≠ [])
    (hv : evalSlots (readNeg ind neg) (slotsOf t D M S F) = .ok v) :
    decode (sgnText ind neg ++ dmsText t sep D M S F ++ hemiText ind neg) = .ok (F64.add F64.nzero v, readFlag ind) := by
  have hB := dmsText_allBody t sep D M S F hsep hD hM hS hF
  have h39 := dmsText_count39 t sep D M S F hsep hD hM hS hF
  have hcomps := grammar_text t sep D M S F ht hsep hD hM hS hF nD nM nS
  obtain ⟨d0, rest, hD0, hbody⟩ := dmsText_head t sep D M S F nD
  have hd0 : IsDigit d0 := hD d0 (by rw [hD0]; simp)
  have fd0 := bodyChar_facts d0 (Or.inl hd0)
  rw [hbody] at hB h39 hcomps ⊢
  have hrestB : AllBody rest := fun c hc => hB c (by simp [hc])
  have hLast : ∀ c, (d0 :: rest).getLast? = some c → lookup DMSC.hemispheres c < 0 := by
    intro c hc
    exact (bodyChar_facts c (hB c (List.mem_of_getLast? hc))).2.2.2.1
  have hAll : ∀ c ∈ d0 :: rest, c < 128 ∧ c ≠ 42 ∧ c ≠ 96 ∧ isspace c = false := by
    intro c hc
    have := bodyChar_facts c (hB c hc)
    exact ⟨this.1, this.2.1, this.2.2.1, this.2.2.2.2.2.2.1⟩
  have hraw : ∀ x ∈ rest, isSignRaw x = false := fun x hx => (bodyChar_facts x (hrestB x hx)).2.2.2.2.2.1
  rcases layout_cases ind neg hind with ⟨e1, e2, e3, e4⟩ | ⟨e1, e2, e3, e4⟩ | ⟨L, k, e1, e2, hk, hk0, e3, e4, l1, l2, l3, l4, l5, l6⟩
  · -- no sign, no letter
    rw [e1, e2, e4, List.nil_append, List.append_nil]
    have hs := strip_plain d0 rest fd0.2.2.2.1 fd0.2.2.2.2.1 hLast
    rw [e3] at hv
    have := decode_plain (d0 :: rest) _ _ v hAll h39
      ⟨d0, rest, rfl, fd0.2.2.2.2.2.2.2.2, hraw, Or.inr fd0.2.2.2.2.2.1⟩ hs hcomps hv
    exact this
  · -- leading minus
    rw [e1, e2, e4, List.append_nil]
    have hs := strip_minus d0 rest hLast
    rw [e3] at hv
    have hAll' : ∀ c ∈ 45 :: d0 :: rest, c < 128 ∧ c ≠ 42 ∧ c ≠ 96 ∧ isspace c = false := by
      intro c hc
      rcases List.mem_cons.mp hc with rfl | hc
      · decide
      · exact hAll c hc
    have h39' : (45 :: d0 :: rest).count 39 ≤ 1 := by rw [List.count_cons]; simpa using h39
    have := decode_plain (45 :: d0 :: rest) _ _ v hAll' h39'
      ⟨45, d0 :: rest, rfl, by decide, (by
        intro x hx
        rcases List.mem_cons.mp hx with rfl | hx
        · exact fd0.2.2.2.2.2.1
        · exact hraw x hx), Or.inl (by decide)⟩ hs hcomps hv
    exact this
  · -- hemisphere letter
    rw [e1, e2, List.nil_append, ← e4]
    have hs := strip_hemi d0 rest L k hk hk0 fd0.2.2.2.1 fd0.2.2.2.2.1
    rw [← e3] at hv
    have hAll' : ∀ c ∈ (d0 :: rest) ++ [L], c < 128 ∧ c ≠ 42 ∧ c ≠ 96 ∧ isspace c = false := by
      intro c hc
      rcases List.mem_append.mp hc with hc | hc
      · exact hAll c hc
      · simp at hc; subst hc; exact ⟨l1, l2, l3, l5⟩
    have h39' : ((d0 :: rest) ++ [L]).count 39 ≤ 1 := by
      rw [List.count_append]
      have : [L].count 39 = 0 := by
        rw [List.count_eq_zero]; intro hc; simp at hc; exact l4 hc.symm
      omega
    have := decode_plain ((d0 :: rest) ++ [L]) _ _ v hAll' h39'
      ⟨d0, rest ++ [L], rfl, fd0.2.2.2.2.2.2.2.2, (by
        intro x hx
        rcases List.mem_append.mp hx with hx | hx
        · exact hraw x hx
        · simp at hx; subst hx; exact l6), Or.inr fd0.2.2.2.2.2.1⟩ hs hcomps hv
    exact this

end GeoVerif.DMSProofs
