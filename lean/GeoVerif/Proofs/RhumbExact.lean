import GeoVerif.Model.RhumbExact
import GeoVerif.Proofs.RhumbSeries
/-!
# Lemmas for the exact path of `Rhumb` (`Model/Rhumb.lean`: `Dsin`, `DParametric`, `Datanhee`, `DIsometric`;
`Model/RhumbExact.lean`: `DE`, `DRectifying`) read over ℝ
-/
namespace GeoVerif.Proofs.RhumbExact
open GeoVerif GeoVerif.Rhumb GeoVerif.RhumbS GeoVerif.RhumbX GeoVerif.Proofs.Rhumb GeoVerif.Proofs.RhumbSeries Real

/-! ### `Dsin` -/

theorem dsin_dd (x y : ℝ) : Dsin x y * (x - y) = sin x - sin y := by
  unfold Dsin
  simp only [eqb_real, decide_eq_true_eq, lit0, lit1, lit2, sin_real, cos_real]
  have key : sin x - sin y = 2 * sin ((x - y) / 2) * cos ((x + y) / 2) := by
    have h1 := Real.sin_add ((x + y) / 2) ((x - y) / 2)
    have h2 := Real.sin_sub ((x + y) / 2) ((x - y) / 2)
    rw [show (x + y) / 2 + (x - y) / 2 = x by ring] at h1
    rw [show (x + y) / 2 - (x - y) / 2 = y by ring] at h2
    rw [h1, h2]; ring
  split_ifs with h
  · have : x = y := by linarith
    subst this; simp
  · have hxy : x - y ≠ 0 := by intro h0; apply h; rw [h0]; simp
    rw [key]; field_simp

theorem dsin_confluent (x : ℝ) : Dsin x x = cos x := by
  unfold Dsin; simp [lit0, lit1, lit2]

/-! ### `Dh`: confluent value -/

theorem dh_confluent (x : ℝ) : Dh x x = x * (2 + x ^ 2) / (2 * sc x ^ 3) := by
  have hx := sc_pos x
  have hx2 := sc_sq x
  have hxn : sc x ≠ 0 := hx.ne'
  unfold Dh
  simp only [eqb_real, leb_real, decide_eq_true_eq, lit0, lit2, sn_real, sq_real]
  by_cases h0 : x = 0
  · subst h0; simp
  have hd : (x / sc x * x + x / sc x * x) / 2 ≠ 0 := by
    have : (x / sc x * x + x / sc x * x) / 2 = x ^ 2 / sc x := by field_simp; ring
    rw [this]; positivity
  have hxx : ¬ x * x ≤ 0 := by nlinarith [sq_nonneg x, sq_pos_of_ne_zero h0]
  rw [if_neg hd, if_neg hxx]
  field_simp
  ring

/-! ### `atan2` with a positive abscissa -/

theorem arg_of_pos (x y : ℝ) (hx : 0 < x) : Complex.arg ⟨x, y⟩ = Real.arctan (y / x) := by
  set θ := Real.arctan (y / x) with hθ
  have h1 : -(π / 2) < θ := Real.neg_pi_div_two_lt_arctan _
  have h2 : θ < π / 2 := Real.arctan_lt_pi_div_two _
  have hpi := Real.pi_pos
  have hc : cos θ = 1 / Real.sqrt (1 + (y / x) ^ 2) := Real.cos_arctan _
  have hs : sin θ = y / x / Real.sqrt (1 + (y / x) ^ 2) := Real.sin_arctan _
  have hq : Real.sqrt (1 + (y / x) ^ 2) = Real.sqrt (x ^ 2 + y ^ 2) / x := by
    rw [show 1 + (y / x) ^ 2 = (x ^ 2 + y ^ 2) / x ^ 2 by field_simp, Real.sqrt_div (by positivity), Real.sqrt_sq hx.le]
  have hr : 0 < Real.sqrt (x ^ 2 + y ^ 2) := Real.sqrt_pos.mpr (by positivity)
  have e : (⟨x, y⟩ : ℂ) = ⟨Real.sqrt (x ^ 2 + y ^ 2) * cos θ, Real.sqrt (x ^ 2 + y ^ 2) * sin θ⟩ := by
    rw [hc, hs, hq]; congr 1 <;> field_simp
  rw [e]
  exact GeoVerif.Props.C16.arg_of_polar _ θ hr (by linarith) (by linarith)

theorem atan2_pos (y x : ℝ) (hx : 0 < x) : RealLike.atan2 y x = Real.arctan (y / x) := by
  simp only [atan2_real]; exact arg_of_pos x y hx

/-- `atan((b − a)/(1 + a b)) = atan b − atan a` for `a b > −1` -/
theorem arctan_sub' (a b : ℝ) (h : -1 < a * b) : Real.arctan ((b - a) / (1 + a * b)) = Real.arctan b - Real.arctan a := by
  have h' := Real.arctan_add (x := b) (y := -a) (by nlinarith)
  rw [Real.arctan_neg] at h'
  rw [sub_eq_add_neg (Real.arctan b), h']; congr 1; ring

/-! ### `DParametric` -/

theorem dparametric_dd (fm1 tx ty : ℝ) (hf : 0 < fm1) :
    DParametric fm1 (fm1 * fm1) tx ty * (Real.arctan ty - Real.arctan tx) = Real.arctan (fm1 * ty) - Real.arctan (fm1 * tx) := by
  unfold DParametric
  simp only [leb_real, eqb_real, lit0, lit1, atan_real, atan2_real]
  by_cases hxy : tx = ty
  · subst hxy; simp
  have hat : Real.arctan ty - Real.arctan tx ≠ 0 := by
    intro h; exact hxy (Real.arctan_injective (by linarith))
  by_cases h0 : 0 ≤ tx * ty
  · have c0 : (!decide (0 ≤ tx * ty)) = false := by simp [h0]
    simp only [c0, hxy, decide_false, Bool.false_eq_true, if_false]
    by_cases h1 : tx * ty ≤ 1
    · simp only [h1, decide_true, if_true]
      have p1 : 0 < 1 + fm1 * fm1 * tx * ty := by nlinarith [mul_pos hf hf]
      have p2 : 0 < 1 + tx * ty := by linarith
      rw [arg_of_pos _ _ p1, arg_of_pos _ _ p2]
      have e1 : fm1 * (ty - tx) / (1 + fm1 * fm1 * tx * ty) = (fm1 * ty - fm1 * tx) / (1 + (fm1 * tx) * (fm1 * ty)) := by ring
      rw [e1, arctan_sub' (fm1 * tx) (fm1 * ty) (by nlinarith [mul_pos hf hf]), arctan_sub' tx ty (by linarith)]
      field_simp
    · simp only [h1, decide_false, Bool.false_eq_true, if_false]
      have h1' : 1 < tx * ty := not_le.mp h1
      have hx0 : tx ≠ 0 := by rintro rfl; simp at h1'; linarith
      have hy0 : ty ≠ 0 := by rintro rfl; simp at h1'; linarith
      have hinv : ¬ (1 / tx = 1 / ty) := by
        intro h; apply hxy; field_simp at h; linarith
      simp only [hinv, decide_false, Bool.false_eq_true, if_false]
      have hpos : 0 < 1 / tx * (1 / ty) := by rw [div_mul_div_comm, one_mul]; positivity
      have p1 : 0 < fm1 * fm1 + 1 / tx * (1 / ty) := by nlinarith [mul_pos hf hf]
      have p2 : 0 < 1 + 1 / tx * (1 / ty) := by linarith
      rw [arg_of_pos _ _ p1, arg_of_pos _ _ p2]
      have e1 : fm1 * (1 / ty - 1 / tx) / (fm1 * fm1 + 1 / tx * (1 / ty)) = (fm1 * tx - fm1 * ty) / (1 + (fm1 * ty) * (fm1 * tx)) := by
        field_simp; ring
      have e2 : (1 / ty - 1 / tx) / (1 + 1 / tx * (1 / ty)) = (tx - ty) / (1 + ty * tx) := by
        field_simp; ring
      rw [e1, e2, arctan_sub' (fm1 * ty) (fm1 * tx) (by nlinarith [mul_pos hf hf]), arctan_sub' ty tx (by nlinarith)]
      have : Real.arctan tx - Real.arctan ty ≠ 0 := by intro h; apply hat; linarith
      field_simp; ring
  · have c0 : (!decide (0 ≤ tx * ty)) = true := by simp [h0]
    simp only [c0, if_true]
    field_simp

theorem dparametric_confluent (fm1 t : ℝ) (hf : 0 < fm1) :
    DParametric fm1 (fm1 * fm1) t t = fm1 * (1 + t ^ 2) / (1 + fm1 ^ 2 * t ^ 2) := by
  unfold DParametric
  have h0 : 0 ≤ t * t := mul_self_nonneg t
  simp only [leb_real, eqb_real, lit0, lit1]
  have c0 : (!decide (0 ≤ t * t)) = false := by simp [h0]
  simp only [c0, decide_true, Bool.false_eq_true, if_false, if_true]
  by_cases h1 : t * t ≤ 1
  · simp only [h1, decide_true, if_true]; ring_nf
  · simp only [h1, decide_false, Bool.false_eq_true, if_false]
    have ht : t ≠ 0 := by rintro rfl; simp at h1
    have : 0 < fm1 * fm1 := mul_pos hf hf
    field_simp
    ring

/-! ### `Datanhee`, `DIsometric` -/

/-- prolate (`f < 0`): `e · Datanhee(x, y) · (y − x) = atan(e sn y) − atan(e sn x)`, i.e. `Datanhee` is the divided difference of
    `atan(e sin φ)/e` with respect to `tan φ` -/
theorem datanhee_prolate (f e e1 fm1 x y : ℝ) (hf : f < 0) :
    e * (Datanhee f e e1 fm1 x y * (y - x)) = Real.arctan (e * sn y) - Real.arctan (e * sn x) := by
  unfold Datanhee
  simp only [ltb_real, lit0, hf, decide_true, if_true]
  have h1 := dsn_dd x y
  have h2 := datan_dd (e * sn x) (e * sn y)
  linear_combination (e * Datan (e * sn x) (e * sn y)) * h1 + h2

/-- oblate (`f ≥ 0`): `e₁ (1−f) · Datanhee(x, y) · (y − x) = asinh(e₁ sn((1−f) y)) − asinh(e₁ sn((1−f) x))`, i.e. `Datanhee` is the divided
    difference of `asinh(e′ sin β)/e = atanh(e sin φ)/e` (with `e = e′ (1 − f)`) with respect to `tan φ` -/
theorem datanhee_oblate (f e e1 fm1 x y : ℝ) (hf : ¬ f < 0) :
    e1 * fm1 * (Datanhee f e e1 fm1 x y * (y - x)) = Real.arsinh (e1 * sn (fm1 * y)) - Real.arsinh (e1 * sn (fm1 * x)) := by
  unfold Datanhee
  simp only [ltb_real, lit0, hf, decide_false, Bool.false_eq_true, if_false]
  have h1 := dsn_dd (fm1 * x) (fm1 * y)
  have h2 := dasinh_dd (e1 * sn (fm1 * x)) (e1 * sn (fm1 * y))
  linear_combination (e1 * Dasinh (e1 * sn (fm1 * x)) (e1 * sn (fm1 * y))) * h1 + h2

theorem disometric_gen (f e2 e e1 fm1 tx ty : ℝ) :
    DIsometric f e2 e e1 fm1 tx ty * (Real.arctan ty - Real.arctan tx)
      = (Real.arsinh ty - Real.arsinh tx) - e2 * (Datanhee f e e1 fm1 tx ty * (ty - tx)) := by
  by_cases hxy : tx = ty
  · subst hxy; simp
  unfold DIsometric
  have hA := datan_dd tx ty
  have hS := dasinh_dd tx ty
  have hAne : Datan tx ty ≠ 0 := by
    intro h0; rw [h0, zero_mul] at hA
    exact hxy (Real.arctan_injective (by linarith))
  rw [← hA, ← hS]; field_simp

/-- isometric latitude as a function of `t = tan φ`, oblate form: `ψ = asinh t − e asinh(e′ sn((1−f) t))` `(= asinh tan φ − e atanh(e sin φ))` -/
noncomputable def psiOblate (e e1 fm1 t : ℝ) : ℝ := Real.arsinh t - e * Real.arsinh (e1 * sn (fm1 * t))
/-- prolate form (`e² < 0`, `e = √|e²|`): `ψ = asinh t + e atan(e sn t)` -/
noncomputable def psiProlate (e t : ℝ) : ℝ := Real.arsinh t + e * Real.arctan (e * sn t)

theorem disometric_oblate (f e2 e e1 fm1 tx ty : ℝ) (hf : ¬ f < 0) (he2 : e2 = e * e) (he : e = e1 * fm1) :
    DIsometric f e2 e e1 fm1 tx ty * (Real.arctan ty - Real.arctan tx) = psiOblate e e1 fm1 ty - psiOblate e e1 fm1 tx := by
  rw [disometric_gen]
  have h := datanhee_oblate f e e1 fm1 tx ty hf
  unfold psiOblate
  rw [he2]
  linear_combination (-e) * h - (e * Datanhee f e e1 fm1 tx ty * (ty - tx)) * he

theorem disometric_prolate (f e2 e e1 fm1 tx ty : ℝ) (hf : f < 0) (he2 : e2 = -(e * e)) :
    DIsometric f e2 e e1 fm1 tx ty * (Real.arctan ty - Real.arctan tx) = psiProlate e ty - psiProlate e tx := by
  rw [disometric_gen]
  have h := datanhee_prolate f e e1 fm1 tx ty hf
  unfold psiProlate
  rw [he2]
  linear_combination e * h

/-! ### `DE`: symmetry, the point on the unit circle, the confluent value -/

theorem deDs_symm (flip : Bool) (x0 y0 : ℝ) : deDs flip x0 y0 = deDs flip y0 x0 := by
  unfold deDs
  simp only [eqb_real, lit0, lit1, lit2, sin_real, cos_real, decide_eq_true_eq]
  by_cases h : x0 = y0
  · subst h; rfl
  · have h1 : (y0 - x0) / 2 ≠ 0 := by intro h0; apply h; linarith
    have h2 : (x0 - y0) / 2 ≠ 0 := by intro h0; apply h; linarith
    rw [if_neg h1, if_neg h2, add_comm x0 y0]
    congr 1
    rw [show (x0 - y0) / 2 = -((y0 - x0) / 2) by ring, Real.sin_neg]
    field_simp

theorem deDt_symm (k2 Ds sx cx sy cy : ℝ) : deDt k2 Ds sx cx sy cy = deDt k2 Ds sy cy sx cx := by
  unfold deDt
  rw [add_comm sx sy, add_comm cx cy, add_comm (sx * _) _]

theorem deTail_symm (RF RD : ℝ → ℝ → ℝ → ℝ) (k2 den d Dt sx sy : ℝ) :
    (deTail RF RD k2 den (-d) Dt sy sx).val = (deTail RF RD k2 den d Dt sx sy).val := by
  unfold deTail
  simp only [lit1, lit2]
  have e1 : -d * Dt * (-d * Dt) = d * Dt * (d * Dt) := by ring
  have e2 : (1 - -d * Dt) * (1 + -d * Dt) = (1 - d * Dt) * (1 + d * Dt) := by ring
  have e3 : ∀ w : ℝ, -d * w * (-d * w) = d * w * (d * w) := by intro w; ring
  rw [e1, e2, e3]
  have e4 : k2 * sy * sx = k2 * sx * sy := by ring
  rw [e4]

theorem de_symmetric (RF RD : ℝ → ℝ → ℝ → ℝ) (E : Ell ℝ) (X Y : Ang ℝ) : DE RF RD E X Y = DE RF RD E Y X := by
  unfold DE DEparts
  simp only []
  rw [deDs_symm, deDt_symm, ← deTail_symm]
  congr 2
  ring

theorem deTail_unit (RF RD : ℝ → ℝ → ℝ → ℝ) (k2 den d Dt sx sy : ℝ) :
    (deTail RF RD k2 den d Dt sx sy).sz ^ 2 + (deTail RF RD k2 den d Dt sx sy).cz ^ 2 = 1 := by
  unfold deTail
  simp only [lit1, lit2]
  have : 1 + d * Dt * (d * Dt) ≠ 0 := by nlinarith [mul_self_nonneg (d * Dt)]
  field_simp
  ring

/-- **confluent value** (oblate, no flip): for every pair of kernels with `RF(1, 1, 1) = 1`, `DE(X, X) = √(1 + e′² sin² x)` — the
    derivative of the elliptic integral `E(x) = ∫ √(1 + e′² sin²)` — at every `x ∈ (0, π/2)` -/
theorem de_confluent (RF RD : ℝ → ℝ → ℝ → ℝ) (E : Ell ℝ) (x : ℝ) (hf : ¬ E.f < 0) (he : 0 ≤ E.e12) (hx0 : 0 < x) (hx1 : x < π / 2)
    (hRF : RF 1 1 1 = 1) :
    DE RF RD E (sin x, cos x) (sin x, cos x) = Real.sqrt (1 + E.e12 * sin x ^ 2) := by
  have hpi := Real.pi_pos
  have hs : 0 < sin x := Real.sin_pos_of_pos_of_lt_pi hx0 (by linarith)
  have hc : 0 < cos x := Real.cos_pos_of_mem_Ioo ⟨by linarith, hx1⟩
  unfold DE DEparts
  simp only [normalized_unit, ltb_real, lit0, hf, decide_false, Bool.false_eq_true, if_false, abs_real, abs_of_pos hs, sub_self]
  have hDs : deDs false (RealLike.atan2 (sin x) (cos x)) (RealLike.atan2 (sin x) (cos x)) = cos x := by
    unfold deDs
    have hr := radians_unit x (by linarith) (by linarith)
    unfold radians at hr
    simp only [hr, sub_self, zero_div, eqb_real, lit0, lit1, lit2, decide_true, if_true, Bool.false_eq_true, if_false, cos_real]
    rw [show (x + x) / 2 = x by ring]; ring
  rw [hDs]
  set Δ := Real.sqrt (1 + E.e12 * sin x ^ 2) with hΔ
  have hΔpos : 0 < Δ := Real.sqrt_pos.mpr (by positivity)
  have hΔsq : Δ * Δ = 1 + E.e12 * sin x ^ 2 := Real.mul_self_sqrt (by positivity)
  have hDt : deDt (-E.e12) (cos x) (sin x) (cos x) (sin x) (cos x) = 1 / (2 * Δ) := by
    unfold deDt
    simp only [sqrt_real, lit1]
    have : 1 - -E.e12 * sin x * sin x = 1 + E.e12 * sin x ^ 2 := by ring
    rw [this, ← hΔ]
    field_simp
    ring
  rw [hDt]
  unfold deTail
  dsimp only
  simp only [lit0, lit1, lit2, lit_real]
  push_cast
  simp only [zero_mul, mul_zero, add_zero, sub_zero, zero_div, mul_one, div_one, one_mul, hRF]
  have : (1 - -E.e12 * sin x * sin x) = Δ * Δ := by rw [hΔsq]; ring
  rw [this]; field_simp

/-! ### `DRectifying` -/

theorem radians_half (a : ℝ) (ha : |a| < π / 2) : radians (sin a, cos a) = a := by
  obtain ⟨h1, h2⟩ := abs_lt_pi_of_lt_half ha
  exact radians_unit a h1 h2

/-- **chain rule** (same-sign, distinct latitudes): for every kernel for which `DE` is the divided difference of a function `Eint`
    of the parametric latitude `β = atan((1 − f) tan φ)`, `DRectifying · (φ₂ − φ₁) = (b / R) (Eint β₂ − Eint β₁)` -/
theorem drectifying_chain (RF RD : ℝ → ℝ → ℝ → ℝ) (E : Ell ℝ) (K : RectK ℝ) (a b : ℝ) (Eint : ℝ → ℝ)
    (ha : |a| < π / 2) (hb : |b| < π / 2) (hab : a ≠ b) (hsign : ¬ a * b < 0) (hfm1 : 0 < E.fm1) (he2m1 : E.e2m1 = E.fm1 * E.fm1)
    (hDE : DE RF RD E (parametric E (sin a, cos a)) (parametric E (sin b, cos b))
             * (Real.arctan (E.fm1 * Real.tan b) - Real.arctan (E.fm1 * Real.tan a))
           = Eint (Real.arctan (E.fm1 * Real.tan b)) - Eint (Real.arctan (E.fm1 * Real.tan a))) :
    DRectifying RF RD E K (sin a, cos a) (sin b, cos b) * (b - a)
      = E.b / K.rr * (Eint (Real.arctan (E.fm1 * Real.tan b)) - Eint (Real.arctan (E.fm1 * Real.tan a))) := by
  unfold DRectifying
  rw [radians_half a ha, radians_half b hb]
  simp only [eqb_real, ltb_real, lit0, hab, hsign, decide_false, Bool.false_eq_true, if_false]
  have hP := dparametric_dd E.fm1 (Real.tan a) (Real.tan b) hfm1
  obtain ⟨a1, a2⟩ := abs_lt.mp ha; obtain ⟨b1, b2⟩ := abs_lt.mp hb
  rw [Real.arctan_tan a1 a2, Real.arctan_tan b1 b2] at hP
  unfold DParametricA
  rw [tanA_unit, tanA_unit, he2m1]
  rw [← hDE, ← hP]; ring

/-- opposite signs: the plain quotient of the rectifying latitudes -/
theorem drectifying_opposite (RF RD : ℝ → ℝ → ℝ → ℝ) (E : Ell ℝ) (K : RectK ℝ) (a b : ℝ)
    (ha : |a| < π / 2) (hb : |b| < π / 2) (hsign : a * b < 0) :
    DRectifying RF RD E K (sin a, cos a) (sin b, cos b) * (b - a) = radians K.mu2 - radians K.mu1 := by
  have hab : a ≠ b := by rintro rfl; nlinarith [mul_self_nonneg a]
  unfold DRectifying
  rw [radians_half a ha, radians_half b hb]
  simp only [eqb_real, ltb_real, lit0, hab, hsign, decide_false, decide_true, Bool.false_eq_true, if_false, if_true]
  have : b - a ≠ 0 := sub_ne_zero.mpr (Ne.symm hab)
  field_simp

/-- confluent case: `dμ/dφ = (d tan μ / d tan φ) cos²μ / cos²φ` -/
theorem drectifying_confluent (RF RD : ℝ → ℝ → ℝ → ℝ) (E : Ell ℝ) (K : RectK ℝ) (a m : ℝ)
    (ha : |a| < π / 2) (hm : |m| < π / 2) (hmu : K.mu1 = (sin m, cos m)) :
    DRectifying RF RD E K (sin a, cos a) (sin a, cos a) = K.d1 * (cos m / cos a) ^ 2 := by
  unfold DRectifying
  simp only [eqb_real, lit0, decide_true, if_true, cos_ne_zero_of_abs_lt ha, decide_false, Bool.false_eq_true, if_false]
  rw [hmu, tanA_unit, tanA_unit, sc_tan a ha, sc_tan m hm, sq_real]
  have := cos_ne_zero_of_abs_lt ha; have := cos_ne_zero_of_abs_lt hm
  field_simp

end GeoVerif.Proofs.RhumbExact
