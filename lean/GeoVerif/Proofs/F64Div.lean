import GeoVerif.Proofs.DivTo
import GeoVerif.Proofs.F64Round
/-!
# Consequences of correct rounding for the `F64` operations `mul`, `div` followed by `floor`
-/
namespace GeoVerif
open Dy

namespace IsRN

/-- integers up to `2^53` are fixed points of binary64 rounding -/
theorem int53 (n : ℤ) (hn : |n| ≤ 2 ^ 53) : IsRN 53 (-1074) (n:ℚ) (n:ℚ) := by
  have h := roundTo_isRN 53 (-1074) (ofInt n)
  have e : (roundTo 53 (-1074) (ofInt n)).val = n := round53_ofInt n hn
  rw [e, val_ofInt] at h; exact h

theorem int_le {z r : ℚ} (h : IsRN 53 (-1074) z r) (n : ℤ) (hn : |n| ≤ 2 ^ 53) (hz : (n:ℚ) ≤ z) : (n:ℚ) ≤ r :=
  mono (by norm_num) (int53 n hn) h hz

theorem le_int {z r : ℚ} (h : IsRN 53 (-1074) z r) (n : ℤ) (hn : |n| ≤ 2 ^ 53) (hz : z ≤ (n:ℚ)) : r ≤ (n:ℚ) :=
  mono (by norm_num) h (int53 n hn) hz

/-- a rounded value of magnitude `≤ 2^52` is far from overflow -/
theorem lt_huge {z r : ℚ} (h : IsRN 53 (-1074) z r) (hz : |z| ≤ 2 ^ 52) : |r| < (2:ℚ) ^ (1024:ℤ) := by
  have hPa := abs_le.mp hz
  have r2 := h.le_int (2 ^ 52) (by norm_num) (by push_cast; exact hPa.2)
  have r1 := h.int_le (-(2 ^ 52)) (by norm_num) (by push_cast; exact hPa.1)
  push_cast at r1 r2
  have h53 : (2:ℚ) ^ (52:ℕ) < (2:ℚ) ^ (1024:ℤ) := by
    rw [← zpow_natCast]; exact Dy.two_zpow_lt_iff.mpr (by norm_num)
  have e52 : (2:ℚ) ^ (52:ℕ) = 4503599627370496 := by norm_num
  rw [e52] at h53
  rw [abs_lt]
  generalize (2:ℚ) ^ (1024:ℤ) = B at *
  constructor <;> linarith

/-- the standard error model: `|r − z| ≤ max(|z|·2^(−p), 2^(emin−1))` -/
theorem err {p : ℕ} {emin : ℤ} {z r : ℚ} (h : IsRN p emin z r) :
    |r - z| ≤ max (|z| * (2:ℚ) ^ (-(p:ℤ))) ((2:ℚ) ^ (emin - 1)) := by
  by_cases h0 : z = 0
  · rw [h.zero h0, h0]; simp
  · obtain ⟨E, k, h1, h2, h3, h4, _⟩ := h.nz h0
    have hs : ∀ t : ℤ, (2:ℚ) ^ t = 2 * (2:ℚ) ^ (t - 1) := by
      intro t
      have := two_zpow_split (t - 1) 1
      rw [show t - 1 + 1 = t by ring] at this; rw [this]; norm_num; ring
    by_cases hc : emin ≤ E - p
    · rw [max_eq_left hc, hs] at h4
      have : (2:ℚ) ^ (E - p - 1) = (2:ℚ) ^ (E - 1) * (2:ℚ) ^ (-(p:ℤ)) := by
        rw [← two_zpow_split]; congr 1; ring
      rw [this] at h4
      have hp := two_zpow_pos (-(p:ℤ))
      have := mul_le_mul_of_nonneg_right h1 hp.le
      exact le_trans (by linarith) (le_max_left _ _)
    · rw [max_eq_right (by omega), hs] at h4
      exact le_trans (by linarith) (le_max_right _ _)

end IsRN

namespace F64

/-- finite division: the value is the correctly rounded quotient (unless it overflows) -/
theorem div_fin (sa sb : Bool) (ma mb : ℕ) (ea eb : ℤ) (hb : mb ≠ 0) :
    let a := F64.fin sa ma ea; let b := F64.fin sb mb eb
    ∃ r : ℚ, IsRN 53 (-1074) (a.val / b.val) r ∧
      (|r| < (2:ℚ) ^ (1024:ℤ) → (a / b).isFinite = true ∧ (a / b).val = r) := by
  intro a b
  have hbm : b.toDy.m ≠ 0 := toDy_m_ne sb mb eb hb
  have hmb : (mb == 0) = false := by simpa using hb
  by_cases ha : ma = 0
  · refine ⟨0, ?_, fun _ => ?_⟩
    · have : a.val = 0 := by show (F64.fin sa ma ea).val = 0; rw [ha]; exact val_fin_zero sa ea
      rw [this, zero_div]; exact isRN_zero 53 (-1074)
    · have : a / b = .fin (sa != sb) 0 0 := by
        show F64.div (F64.fin sa ma ea) (F64.fin sb mb eb) = _
        unfold F64.div; simp [hmb, ha]
      rw [this]; exact ⟨rfl, val_fin_zero _ _⟩
  · have hma : (ma == 0) = false := by simpa using ha
    refine ⟨(Dy.divTo 53 (-1074) a.toDy b.toDy).val, divTo_isRN 53 (-1074) a.toDy b.toDy hbm, fun hlt => ?_⟩
    have hd : a / b = (if (Dy.divTo 53 (-1074) a.toDy b.toDy).m = 0 then F64.fin (sa != sb) 0 0
        else if overflow (Dy.divTo 53 (-1074) a.toDy b.toDy) then F64.inf (sa != sb)
        else ofDy (Dy.divTo 53 (-1074) a.toDy b.toDy)) := by
      show F64.div (F64.fin sa ma ea) (F64.fin sb mb eb) = _
      unfold F64.div; simp only [hmb, hma, Bool.false_eq_true, if_false]; rfl
    rw [hd]
    by_cases h0 : (Dy.divTo 53 (-1074) a.toDy b.toDy).m = 0
    · rw [if_pos h0]; exact ⟨rfl, by rw [val_fin_zero, Dy.val_of_m_zero _ h0]⟩
    · rw [if_neg h0, overflow_false_of_lt _ hlt]
      simp only [Bool.false_eq_true, if_false]
      exact ⟨rfl, by unfold val; rw [toDy_ofDy]⟩

/-- finite multiplication in the same form -/
theorem mul_fin_isRN (sa sb : Bool) (ma mb : ℕ) (ea eb : ℤ) :
    let a := F64.fin sa ma ea; let b := F64.fin sb mb eb
    ∃ r : ℚ, IsRN 53 (-1074) (a.val * b.val) r ∧
      (|r| < (2:ℚ) ^ (1024:ℤ) → (a * b).isFinite = true ∧ (a * b).val = r) := by
  intro a b
  refine ⟨(Dy.round53 (Dy.mul a.toDy b.toDy)).val, ?_, fun hlt => ?_⟩
  · have := roundTo_isRN 53 (-1074) (Dy.mul a.toDy b.toDy)
    rw [Dy.val_mul] at this; exact this
  · rw [mul_fin]; exact rnd_fin _ _ hlt

/-- "one correctly rounded operation, then floor": if `r` is the rounded value of `z`, `|z| ≤ 2^52` and
`n ≤ z < n + 1`, then `⌊r⌋` is `n`, or it is `n + 1` and then `r = n + 1` with `z` within the rounding error below it -/
theorem floor_of_isRN {z r : ℚ} (h : IsRN 53 (-1074) z r) (hz : |z| ≤ 2 ^ 52) (n : ℤ)
    (h1 : (n:ℚ) ≤ z) (h2 : z < (n:ℚ) + 1) (d : Dy) (hd : d.val = r) :
    |r| < (2:ℚ) ^ (1024:ℤ) ∧
    (Dy.floor d = n ∨ (Dy.floor d = n + 1 ∧ r = (n:ℚ) + 1 ∧
      (n:ℚ) + 1 - z ≤ max (|z| * (2:ℚ) ^ (-(53:ℤ))) ((2:ℚ) ^ (-(1075:ℤ))))) := by
  have hPa := abs_le.mp hz
  have hn1 : -(2:ℤ) ^ 52 - 1 < n := by
    have : (-(2:ℚ) ^ 52 - 1) < (n:ℚ) := by linarith [hPa.1]
    exact_mod_cast this
  have hn2 : n ≤ (2:ℤ) ^ 52 := by
    have : (n:ℚ) ≤ (2:ℚ) ^ 52 := by linarith [hPa.2]
    exact_mod_cast this
  have r1 := h.int_le n (abs_le.mpr ⟨by omega, by omega⟩) h1
  have r2 := h.le_int (n + 1) (abs_le.mpr ⟨by omega, by omega⟩) (by push_cast; linarith)
  push_cast at r2
  have hfin : |r| < (2:ℚ) ^ (1024:ℤ) := h.lt_huge hz
  refine ⟨hfin, ?_⟩
  by_cases hlt : r < (n:ℚ) + 1
  · left; exact Dy.floor_unique d n (by rw [hd]; exact r1) (by rw [hd]; exact hlt)
  · right
    have heq : r = (n:ℚ) + 1 := le_antisymm r2 (not_lt.mp hlt)
    refine ⟨Dy.floor_unique d (n + 1) (by rw [hd, heq]; push_cast; exact le_refl _)
      (by rw [hd, heq]; push_cast; linarith), heq, ?_⟩
    have := h.err
    rw [heq] at this
    have e : ((-1074:ℤ) - 1) = -1075 := by norm_num
    rw [e] at this
    exact le_trans (le_abs_self _) (by exact_mod_cast this)

/-- coded index for a division: `⌊a / b⌋` through the binary64 quotient -/
def divFloorCoded (a b : F64) : ℤ := Dy.floor (F64.floor (a / b)).toDy

/-- **one rounded division, then floor**: with `n ≤ a/b < n + 1` (exact quotient), `|a/b| ≤ 2^52`, `b ≠ 0`:
the coded index is `n`, or `n + 1` when the rounded quotient is exactly `n + 1` -/
theorem divFloor_contains (sa sb : Bool) (ma mb : ℕ) (ea eb : ℤ) (hb : mb ≠ 0) (n : ℤ) :
    let a := F64.fin sa ma ea; let b := F64.fin sb mb eb
    |a.val / b.val| ≤ 2 ^ 52 → (n:ℚ) ≤ a.val / b.val → a.val / b.val < (n:ℚ) + 1 →
    (a / b).isFinite = true ∧
    (divFloorCoded a b = n ∨ (divFloorCoded a b = n + 1 ∧ (a / b).val = (n:ℚ) + 1 ∧
      (n:ℚ) + 1 - a.val / b.val ≤ max (|a.val / b.val| * (2:ℚ) ^ (-(53:ℤ))) ((2:ℚ) ^ (-(1075:ℤ))))) := by
  intro a b hz h1 h2
  obtain ⟨r, hr, hfin⟩ := div_fin sa sb ma mb ea eb hb
  have hlt : |r| < (2:ℚ) ^ (1024:ℤ) := hr.lt_huge hz
  obtain ⟨hf, hv⟩ := hfin hlt
  refine ⟨hf, ?_⟩
  have hc : divFloorCoded a b = Dy.floor (a / b).toDy := by unfold divFloorCoded; rw [floor_toDy_floor]
  obtain ⟨_, hres⟩ := floor_of_isRN hr hz n h1 h2 (a / b).toDy hv
  rw [hc, hv]
  exact hres

/-- `floor` of a finite number is the finite integer `⌊x⌋` -/
theorem floor_val (s : Bool) (m : ℕ) (e : ℤ) :
    (F64.floor (.fin s m e)).isFinite = true ∧ (F64.floor (.fin s m e)).val = (Dy.floor (F64.fin s m e).toDy : ℤ) := by
  unfold F64.floor
  simp only []
  by_cases hm : (m == 0) = true
  · rw [if_pos hm]
    have : m = 0 := by simpa using hm
    subst this
    refine ⟨rfl, ?_⟩
    rw [val_fin_zero]
    have : (F64.fin s 0 e).toDy.val = 0 := val_fin_zero s e
    have := Dy.floor_unique (F64.fin s 0 e).toDy 0 (by rw [this]; simp) (by rw [this]; simp)
    rw [this]; simp
  · rw [if_neg hm]
    by_cases hf : Dy.floor (F64.fin s m e).toDy = 0
    · rw [if_pos hf, hf]; exact ⟨rfl, by rw [val_fin_zero]; simp⟩
    · rw [if_neg hf]
      refine ⟨rfl, ?_⟩
      unfold F64.ofInt F64.val; rw [toDy_ofDy]; simp [Dy.val]

theorem add_fin (sa sb : Bool) (ma mb : ℕ) (ea eb : ℤ) :
    (F64.fin sa ma ea) + (F64.fin sb mb eb) =
      rnd (Dy.add (F64.fin sa ma ea).toDy (F64.fin sb mb eb).toDy) (sa && sb) := rfl

/-- finite addition is correctly rounded -/
theorem add_fin_isRN (sa sb : Bool) (ma mb : ℕ) (ea eb : ℤ) :
    let a := F64.fin sa ma ea; let b := F64.fin sb mb eb
    ∃ r : ℚ, IsRN 53 (-1074) (a.val + b.val) r ∧
      (|r| < (2:ℚ) ^ (1024:ℤ) → (a + b).isFinite = true ∧ (a + b).val = r) := by
  intro a b
  refine ⟨(Dy.round53 (Dy.add a.toDy b.toDy)).val, ?_, fun hlt => ?_⟩
  · have := roundTo_isRN 53 (-1074) (Dy.add a.toDy b.toDy)
    rw [Dy.val_add] at this; exact this
  · rw [add_fin]; exact rnd_fin _ _ hlt

theorem neg_fin_val (s : Bool) (m : ℕ) (e : ℤ) : (F64.neg (.fin s m e)).val = -(F64.fin s m e).val := by
  show (F64.fin (!s) m e).val = _
  rw [val_fin, val_fin]; cases s <;> simp

/-- finite subtraction is correctly rounded -/
theorem sub_fin_isRN (sa sb : Bool) (ma mb : ℕ) (ea eb : ℤ) :
    let a := F64.fin sa ma ea; let b := F64.fin sb mb eb
    ∃ r : ℚ, IsRN 53 (-1074) (a.val - b.val) r ∧
      (|r| < (2:ℚ) ^ (1024:ℤ) → (a - b).isFinite = true ∧ (a - b).val = r) := by
  intro a b
  have h := add_fin_isRN sa (!sb) ma mb ea eb
  have e : (F64.fin (!sb) mb eb).val = -(F64.fin sb mb eb).val := neg_fin_val sb mb eb
  simp only [] at h
  rw [e] at h
  have e2 : (a.val + -b.val) = a.val - b.val := by ring
  rw [e2] at h
  exact h

end F64

/-- a value that fits is its own rounding, so any correctly rounded result of it is exact -/
theorem IsRN.eq_of_fits {z r : ℚ} (h : IsRN 53 (-1074) z r) (g s : ℤ) (hg : |g| ≤ 2 ^ 53) (hs : -1074 ≤ s)
    (hz : z = (g:ℚ) * (2:ℚ) ^ s) : r = z := by
  have h1 := roundTo_isRN 53 (-1074) ⟨g, s⟩
  have e := roundTo_val_of_fits 53 (by norm_num) (-1074) ⟨g, s⟩ g s hg hs rfl
  rw [e] at h1
  have hv : (⟨g, s⟩ : Dy).val = z := by rw [hz]; rfl
  rw [hv] at h1
  exact IsRN.unique (by norm_num) h h1

namespace F64
end F64
end GeoVerif
