import GeoVerif.Proofs.Harmonic
import Mathlib.Analysis.SpecialFunctions.Trigonometric.Deriv
import Mathlib.Analysis.Calculus.Deriv.Pow
import Mathlib.Analysis.Calculus.Deriv.Inv
/-!
# Derivatives of the building blocks of the harmonic series (C19)

`∂/∂λ (C cos mλ + S sin mλ)`, `∂/∂r (a/r)^(n+1)`, `∂/∂θ P_nm(cos θ, sin θ)`: the formally differentiated objects used by the
gradient theorems (`dlegendre`, the factor `m·(S cos − C sin)`, the factor `−(n+1)q^(n+1)/r`) are the derivatives.
-/
namespace GeoVerif.Proofs.Harmonic
open GeoVerif GeoVerif.Harmonic

theorem cs_hasDerivAt (C S : ℝ) (m : ℕ) (lam : ℝ) :
    HasDerivAt (fun x => C * Real.cos (m * x) + S * Real.sin (m * x)) ((m : ℝ) * (S * Real.cos (m * lam) - C * Real.sin (m * lam))) lam := by
  have h1 : HasDerivAt (fun x : ℝ => (m : ℝ) * x) (m : ℝ) lam := by simpa using (hasDerivAt_id lam).const_mul (m : ℝ)
  exact ((h1.cos.const_mul C).fun_add (h1.sin.const_mul S)).congr_deriv (by ring)

theorem qpow_hasDerivAt (a r : ℝ) (hr : r ≠ 0) (n : ℕ) :
    HasDerivAt (fun x => (a / x) ^ (n + 1)) (-((n + 1 : ℕ) : ℝ) * (a / r) ^ (n + 1) / r) r := by
  have h1 : HasDerivAt (fun x : ℝ => a / x) (-a / r ^ 2) r :=
    ((hasDerivAt_const r a).fun_div (hasDerivAt_id r) hr).congr_deriv (by simp)
  exact (h1.fun_pow (n + 1)).congr_deriv (by simp only [Nat.add_sub_cancel]; push_cast; rw [pow_succ (a / r) n]; field_simp)

theorem sectoral_hasDerivAt (full : Bool) (m : ℕ) (th : ℝ) :
    HasDerivAt (fun x => sectoral full (Real.sin x) m) (dsectoral full (Real.cos th) (Real.sin th) m) th := by
  suffices h : ∀ m, HasDerivAt (fun x => sectoral full (Real.sin x) (m + 1)) (dsectoral full (Real.cos th) (Real.sin th) (m + 1)) th by
    cases m with
    | zero => simpa [sectoral, dsectoral] using hasDerivAt_const th (1 : ℝ)
    | succ m => exact h m
  intro m
  induction m with
  | zero =>
    cases full
    · simpa [sectoral, dsectoral] using Real.hasDerivAt_sin th
    · simpa [sectoral, dsectoral] using (Real.hasDerivAt_sin th).const_mul (Real.sqrt 3)
  | succ m ih =>
    simp only [sectoral, dsectoral]
    have h := (((Real.hasDerivAt_sin th).fun_mul ih)).const_mul
      (if full = true then Real.sqrt ((2 * ((m : ℝ) + 2) + 1) / (2 * ((m : ℝ) + 2))) else Real.sqrt ((2 * ((m : ℝ) + 2) - 1) / (2 * ((m : ℝ) + 2))))
    have e : (fun x => (if full = true then Real.sqrt ((2 * ((m : ℝ) + 2) + 1) / (2 * ((m : ℝ) + 2))) else Real.sqrt ((2 * ((m : ℝ) + 2) - 1) / (2 * ((m : ℝ) + 2)))) *
        Real.sin x * sectoral full (Real.sin x) (m + 1)) = fun x => (if full = true then Real.sqrt ((2 * ((m : ℝ) + 2) + 1) / (2 * ((m : ℝ) + 2))) else Real.sqrt ((2 * ((m : ℝ) + 2) - 1) / (2 * ((m : ℝ) + 2)))) *
        (Real.sin x * sectoral full (Real.sin x) (m + 1)) := by funext x; ring
    rw [e]
    exact h.congr_deriv (by ring)

theorem legendre_hasDerivAt (full : Bool) (m l : ℕ) (th : ℝ) :
    HasDerivAt (fun x => legendre full (Real.cos x) (Real.sin x) m l) (dlegendre full (Real.cos th) (Real.sin th) m l) th := by
  suffices h : ∀ l, HasDerivAt (fun x => legendre full (Real.cos x) (Real.sin x) m l) (dlegendre full (Real.cos th) (Real.sin th) m l) th ∧
      HasDerivAt (fun x => legendre full (Real.cos x) (Real.sin x) m (l + 1)) (dlegendre full (Real.cos th) (Real.sin th) m (l + 1)) th from (h l).1
  intro l
  induction l with
  | zero =>
    constructor
    · simpa [legendre, dlegendre] using sectoral_hasDerivAt full m th
    · simp only [legendre, dlegendre]
      have h := ((Real.hasDerivAt_cos th).fun_mul (sectoral_hasDerivAt full m th)).const_mul (anm full (m + 1) m)
      have e : (fun x => anm full (m + 1) m * Real.cos x * sectoral full (Real.sin x) m) =
          fun x => anm full (m + 1) m * (Real.cos x * sectoral full (Real.sin x) m) := by funext x; ring
      rw [e]
      exact h.congr_deriv (by ring)
  | succ l ih =>
    refine ⟨ih.2, ?_⟩
    simp only [legendre, dlegendre]
    have h := (((Real.hasDerivAt_cos th).fun_mul ih.2).const_mul (anm full (m + l + 2) m)).fun_sub (ih.1.const_mul (bnm full (m + l + 2) m))
    have e : (fun x => anm full (m + l + 2) m * Real.cos x * legendre full (Real.cos x) (Real.sin x) m (l + 1) - bnm full (m + l + 2) m * legendre full (Real.cos x) (Real.sin x) m l) =
        fun x => anm full (m + l + 2) m * (Real.cos x * legendre full (Real.cos x) (Real.sin x) m (l + 1)) - bnm full (m + l + 2) m * legendre full (Real.cos x) (Real.sin x) m l := by
      funext x; ring
    rw [e]
    exact h.congr_deriv (by ring)

end GeoVerif.Proofs.Harmonic
