import GeoVerif.Proofs.RoundQ
/-!
# `Dy.divTo` is the correctly rounded quotient

`divTo p emin x y` computes `q = ⌊a·2^k / b⌋` with at least `p + 3` bits, appends a sticky bit and calls `roundTo`.
We prove that the result is `IsRN p emin (x.val / y.val)`: the sticky value and the exact quotient lie strictly
between the same two consecutive multiples of the quotient unit, which is at least four times finer than the
rounding grid, so no grid point or midpoint separates them.
-/
namespace GeoVerif
open Dy

namespace Dy

/-- the scaled quotient has at least `p + 4` bits -/
theorem divTo_q_large (p a b : ℕ) (ha : a ≠ 0) (hb : b ≠ 0) :
    2 ^ (p + 3) ≤ (a * 2 ^ ((p + 3 + blen b) - min (p + 3 + blen b) (blen a) + 1)) / b := by
  obtain ⟨a1, _, a3⟩ := blen_bounds a ha
  obtain ⟨_, b2, _⟩ := blen_bounds b hb
  rw [Nat.le_div_iff_mul_le (Nat.pos_of_ne_zero hb)]
  set k := (p + 3 + blen b) - min (p + 3 + blen b) (blen a) + 1 with hk
  have hexp : p + 3 + blen b ≤ blen a - 1 + k := by omega
  calc 2 ^ (p + 3) * b ≤ 2 ^ (p + 3) * 2 ^ blen b := Nat.mul_le_mul_left _ b2.le
    _ = 2 ^ (p + 3 + blen b) := (Nat.pow_add 2 _ _).symm
    _ ≤ 2 ^ (blen a - 1 + k) := Nat.pow_le_pow_right (by norm_num) hexp
    _ = 2 ^ (blen a - 1) * 2 ^ k := Nat.pow_add 2 _ _
    _ ≤ a * 2 ^ k := Nat.mul_le_mul_right _ a1

/-- core (positive operands): rounding the sticky dyadic `⟨2q + [r ≠ 0], e'⟩` is correct rounding of `(num / b)·2^(e'+1)` -/
theorem sticky_isRN (p : ℕ) (emin : ℤ) (num b : ℕ) (hb : b ≠ 0) (e' : ℤ) (hq : 2 ^ p ≤ num / b) :
    IsRN p emin (((num : ℚ) / b) * (2:ℚ) ^ (e' + 1))
      (roundTo p emin ⟨((2 * (num / b) + (if num % b = 0 then 0 else 1) : ℕ) : ℤ), e'⟩).val := by
  set q := num / b with hqd
  set r := num % b with hrd
  have hdm : b * q + r = num := Nat.div_add_mod num b
  have hrlt : r < b := Nat.mod_lt _ (Nat.pos_of_ne_zero hb)
  have hbq : (0:ℚ) < b := by exact_mod_cast Nat.pos_of_ne_zero hb
  have hV := two_zpow_pos e'
  have hV1 : (2:ℚ) ^ (e' + 1) = 2 * (2:ℚ) ^ e' := by rw [two_zpow_split]; norm_num; ring
  have hq1 : 1 ≤ q := le_trans Nat.one_le_two_pow hq
  -- exact quotient in units of V = 2^e'
  have hz : ((num : ℚ) / b) * (2:ℚ) ^ (e' + 1) = (2 * (q:ℚ) + 2 * ((r:ℚ) / b)) * (2:ℚ) ^ e' := by
    rw [hV1, ← hdm]; push_cast; field_simp
  by_cases hr : r = 0
  · -- exact quotient: the sticky dyadic is the quotient itself
    rw [if_pos hr]
    have : ((num : ℚ) / b) * (2:ℚ) ^ (e' + 1) = (⟨((2 * q + 0 : ℕ) : ℤ), e'⟩ : Dy).val := by
      rw [hz, hr]; simp [val]
    rw [this]
    exact roundTo_isRN p emin _
  · rw [if_neg hr]
    set w : Dy := ⟨((2 * q + 1 : ℕ) : ℤ), e'⟩ with hw
    have hwm : w.m ≠ 0 := by simp [hw]; omega
    have hwa : w.m.natAbs = 2 * q + 1 := by simp [hw]; omega
    obtain ⟨K, hK, h2, _, _⟩ := roundTo_spec p emin w hwm
    have hwv : w.val = (2 * (q:ℚ) + 1) * (2:ℚ) ^ e' := by simp [hw, val]
    -- bit length of q2 and the binade
    obtain ⟨c1, c2, c3⟩ := blen_bounds (2 * q + 1) (by omega)
    set Ln := blen (2 * q + 1) with hLn
    have hLn2 : p + 2 ≤ Ln := by
      by_contra hc
      have : Ln ≤ p + 1 := by omega
      have := Nat.pow_le_pow_right (show 0 < 2 by norm_num) this
      have e : (2:ℕ) ^ (p + 1) = 2 * 2 ^ p := by rw [Nat.pow_succ]; ring
      omega
    have hbexp : bexp w = e' + Ln := by unfold bexp; rw [hwa]
    have htE : tExp p emin w = max (e' + Ln - p) emin := by rw [tExp_eq, hbexp]
    set t := tExp p emin w with ht
    -- P = 2^(Ln−1) is even
    obtain ⟨P', hP'⟩ : ∃ P', 2 ^ (Ln - 1) = 2 * P' := ⟨2 ^ (Ln - 2), by
      rw [show Ln - 1 = (Ln - 2) + 1 by omega, Nat.pow_succ]; ring⟩
    have hPLn : (2:ℕ) ^ Ln = 2 * 2 ^ (Ln - 1) := by
      conv_lhs => rw [show Ln = (Ln - 1) + 1 by omega]
      rw [Nat.pow_succ]; ring
    have d1 : 2 ^ (Ln - 1) ≤ 2 * q := by omega
    have d2 : 2 * q + 2 ≤ 2 ^ Ln := by omega
    have hρ0 : (0:ℚ) < (r:ℚ) / b := div_pos (by exact_mod_cast Nat.pos_of_ne_zero hr) hbq
    have hρ1 : (r:ℚ) / b < 1 := by rw [div_lt_one hbq]; exact_mod_cast hrlt
    have hzpos : 0 < (2 * (q:ℚ) + 2 * ((r:ℚ) / b)) * (2:ℚ) ^ e' := by positivity
    refine ⟨fun h0 => absurd h0 (by rw [hz]; exact hzpos.ne'), fun _ => ?_⟩
    refine ⟨e' + Ln, K, ?_, ?_, ?_, ?_, ?_⟩
    · -- 2^(e'+Ln−1) ≤ z
      rw [hz, abs_of_pos hzpos]
      have : (2:ℚ) ^ (e' + Ln - 1) = ((2 ^ (Ln - 1) : ℕ) : ℚ) * (2:ℚ) ^ e' := by
        push_cast; rw [← zpow_natCast, ← two_zpow_split]; congr 1
        push_cast [c3]; ring
      rw [this]
      have : ((2 ^ (Ln - 1) : ℕ) : ℚ) ≤ 2 * (q:ℚ) := by exact_mod_cast d1
      apply mul_le_mul_of_nonneg_right _ hV.le
      linarith
    · rw [hz, abs_of_pos hzpos]
      have : (2:ℚ) ^ (e' + (Ln:ℤ)) = ((2 ^ Ln : ℕ) : ℚ) * (2:ℚ) ^ e' := by
        push_cast; rw [← zpow_natCast, ← two_zpow_split]; congr 1; ring
      rw [this]
      have : 2 * (q:ℚ) + 2 ≤ ((2 ^ Ln : ℕ) : ℚ) := by exact_mod_cast d2
      apply mul_lt_mul_of_pos_right _ hV
      linarith
    · rw [← htE]; exact hK
    all_goals rw [← htE]
    all_goals
      -- 2^t = 4·D'·V
      have hte : e' + 2 ≤ t := by rw [htE]; omega
      obtain ⟨D', hD'⟩ : ∃ D' : ℕ, (2:ℚ) ^ t = 4 * (D':ℚ) * (2:ℚ) ^ e' ∧ 1 ≤ D' := by
        refine ⟨2 ^ (t - e' - 2).toNat, ?_, Nat.one_le_two_pow⟩
        push_cast
        rw [← zpow_natCast, Int.toNat_of_nonneg (by omega)]
        have : (4:ℚ) = (2:ℚ) ^ (2:ℤ) := by norm_num
        rw [this, ← two_zpow_split, ← two_zpow_split]; congr 1; ring
      obtain ⟨hD, hD1⟩ := hD'
      -- integer distance I = 4·K·D' − (2q+1), odd, so |I| ≤ 2D' − 1
      rw [hK, hwv, hD] at h2
      have h2' : 2 * |(4 * ((K * D' : ℤ) : ℚ) - (2 * (q:ℚ) + 1))| ≤ 4 * (D':ℚ) := by
        have e : (K:ℚ) * (4 * (D':ℚ) * (2:ℚ) ^ e') - (2 * (q:ℚ) + 1) * (2:ℚ) ^ e'
            = (4 * ((K * D' : ℤ) : ℚ) - (2 * (q:ℚ) + 1)) * (2:ℚ) ^ e' := by push_cast; ring
        rw [e, abs_mul, abs_of_pos hV] at h2
        have := le_of_mul_le_mul_right (by linarith : 2 * |(4 * ((K * D' : ℤ) : ℚ) - (2 * (q:ℚ) + 1))| * (2:ℚ) ^ e' ≤ 4 * (D':ℚ) * (2:ℚ) ^ e') hV
        exact this
      have h2i : 2 * |4 * (K * D' : ℤ) - (2 * (q:ℤ) + 1)| ≤ 4 * (D':ℤ) := by
        have : ((2 * |4 * (K * D' : ℤ) - (2 * (q:ℤ) + 1)| : ℤ) : ℚ) ≤ ((4 * (D':ℤ) : ℤ) : ℚ) := by
          push_cast; push_cast at h2'; exact h2'
        exact_mod_cast this
      have hI : |4 * (K * (D':ℤ)) - (2 * (q:ℤ) + 1)| ≤ 2 * (D':ℤ) - 1 := by
        rcases abs_cases (4 * (K * (D':ℤ)) - (2 * (q:ℤ) + 1)) with ⟨e, _⟩ | ⟨e, _⟩ <;> rw [e] at h2i ⊢ <;> omega
      have hIq : |(4 * ((K:ℚ) * (D':ℚ)) - (2 * (q:ℚ) + 1))| ≤ 2 * (D':ℚ) - 1 := by
        have : ((|4 * (K * (D':ℤ)) - (2 * (q:ℤ) + 1)| : ℤ) : ℚ) ≤ ((2 * (D':ℤ) - 1 : ℤ) : ℚ) := by exact_mod_cast hI
        push_cast at this; exact this
      have hstrict : 2 * |(K:ℚ) * (2:ℚ) ^ t - (2 * (q:ℚ) + 2 * ((r:ℚ) / b)) * (2:ℚ) ^ e'| < (2:ℚ) ^ t := by
        have e : (K:ℚ) * (2:ℚ) ^ t - (2 * (q:ℚ) + 2 * ((r:ℚ) / b)) * (2:ℚ) ^ e'
            = ((4 * ((K:ℚ) * (D':ℚ)) - (2 * (q:ℚ) + 1)) + (1 - 2 * ((r:ℚ) / b))) * (2:ℚ) ^ e' := by
          rw [hD]; ring
        rw [e, abs_mul, abs_of_pos hV, hD]
        have hIb := abs_le.mp hIq
        have : |(4 * ((K:ℚ) * (D':ℚ)) - (2 * (q:ℚ) + 1)) + (1 - 2 * ((r:ℚ) / b))| < 2 * (D':ℚ) := by
          rw [abs_lt]; constructor <;> linarith [hIb.1, hIb.2]
        have := mul_lt_mul_of_pos_right this hV
        linarith
      first
        | (rw [hK, hz]; exact hstrict.le)
        | (rw [hK, hz]; intro heq; exact absurd heq hstrict.ne)

theorem isRN_zero (p : ℕ) (emin : ℤ) : IsRN p emin 0 0 where
  zero := fun _ => rfl
  nz := fun h => absurd rfl h

theorem natAbs_cast_q (m : ℤ) : ((m.natAbs : ℕ) : ℚ) = if m < 0 then -(m:ℚ) else (m:ℚ) := by
  by_cases h : m < 0
  · rw [if_pos h]; have : ((m.natAbs : ℕ) : ℤ) = -m := by omega
    rw [← Int.cast_natCast (R := ℚ) m.natAbs, this]; simp
  · rw [if_neg h]; have : ((m.natAbs : ℕ) : ℤ) = m := by omega
    rw [← Int.cast_natCast (R := ℚ) m.natAbs, this]

/-- **`divTo` is the correctly rounded quotient** (`y ≠ 0`) -/
theorem divTo_isRN (p : ℕ) (emin : ℤ) (x y : Dy) (hy : y.m ≠ 0) :
    IsRN p emin (x.val / y.val) (divTo p emin x y).val := by
  by_cases hx : x.m = 0
  · have h1 : divTo p emin x y = ⟨0, 0⟩ := by unfold divTo; simp [hx]
    rw [h1, val_of_m_zero x hx]
    simpa [val] using isRN_zero p emin
  · unfold divTo
    simp only []
    rw [if_neg (by omega : ¬ x.m.natAbs = 0)]
    set a := x.m.natAbs with ha
    set b := y.m.natAbs with hb
    have ha0 : a ≠ 0 := by omega
    have hb0 : b ≠ 0 := by omega
    set k := (p + 3 + blen b) - min (p + 3 + blen b) (blen a) + 1 with hk
    rw [Nat.shiftLeft_eq]
    have hq := divTo_q_large p a b ha0 hb0
    rw [← hk] at hq
    have hq' : 2 ^ p ≤ a * 2 ^ k / b :=
      le_trans (Nat.pow_le_pow_right (by norm_num) (by omega)) hq
    have core := sticky_isRN p emin (a * 2 ^ k) b hb0 (x.e - y.e - k - 1) hq'
    -- the exact quotient
    have hbq : (b:ℚ) ≠ 0 := by exact_mod_cast hb0
    have hym : (y.m:ℚ) ≠ 0 := by exact_mod_cast hy
    have hzp : (((a * 2 ^ k : ℕ) : ℚ) / b) * (2:ℚ) ^ (x.e - y.e - k - 1 + 1) = ((a:ℚ) / b) * (2:ℚ) ^ (x.e - y.e) := by
      have : (2:ℚ) ^ (x.e - y.e) = (2:ℚ) ^ (k:ℤ) * (2:ℚ) ^ (x.e - y.e - k - 1 + 1) := by
        rw [← two_zpow_split]; congr 1; ring
      rw [this, zpow_natCast]; push_cast; field_simp
    have hz : x.val / y.val = ((x.m:ℚ) / y.m) * (2:ℚ) ^ (x.e - y.e) := by
      unfold val
      have h1 := (two_zpow_pos y.e).ne'
      have : (2:ℚ) ^ (x.e - y.e) = (2:ℚ) ^ x.e / (2:ℚ) ^ y.e := by
        rw [sub_eq_add_neg, two_zpow_split, zpow_neg]; rfl
      rw [this]; field_simp
    rw [hzp] at core
    have haq := natAbs_cast_q x.m
    have hbq' := natAbs_cast_q y.m
    rw [← ha] at haq; rw [← hb] at hbq'
    by_cases hs : ((decide (x.m < 0)) != (decide (y.m < 0))) = true
    · rw [if_pos hs]
      have hw : (⟨-1 * ((2 * (a * 2 ^ k / b) + (if a * 2 ^ k % b = 0 then 0 else 1) : ℕ) : ℤ), x.e - y.e - k - 1⟩ : Dy)
          = neg ⟨((2 * (a * 2 ^ k / b) + (if a * 2 ^ k % b = 0 then 0 else 1) : ℕ) : ℤ), x.e - y.e - k - 1⟩ := by
        unfold neg; simp
      rw [hw, roundTo_neg, val_neg]
      have : x.val / y.val = -(((a:ℚ) / b) * (2:ℚ) ^ (x.e - y.e)) := by
        rw [hz, haq, hbq']
        by_cases h1 : x.m < 0 <;> by_cases h2 : y.m < 0 <;> simp [h1, h2] at hs ⊢
        · rw [neg_div]; ring
        · rw [div_neg]; ring
      rw [this]
      exact core.neg
    · rw [if_neg hs]
      have hw : (⟨1 * ((2 * (a * 2 ^ k / b) + (if a * 2 ^ k % b = 0 then 0 else 1) : ℕ) : ℤ), x.e - y.e - k - 1⟩ : Dy)
          = ⟨((2 * (a * 2 ^ k / b) + (if a * 2 ^ k % b = 0 then 0 else 1) : ℕ) : ℤ), x.e - y.e - k - 1⟩ := by
        simp
      rw [hw]
      have : x.val / y.val = (((a:ℚ) / b) * (2:ℚ) ^ (x.e - y.e)) := by
        rw [hz, haq, hbq']
        by_cases h1 : x.m < 0 <;> by_cases h2 : y.m < 0 <;> simp [h1, h2] at hs ⊢
      rw [this]
      exact core

end Dy
end GeoVerif
