import GeoVerif.Model.ErrCover
import Mathlib.Data.List.SplitBy
/-! Lemmas about the one-pass pairing of the API inventory with the coverage list (`ErrCover.assign`), for arbitrary lists. -/
namespace GeoVerif.Proofs.ErrCover
open GeoVerif GeoVerif.ErrCover GeoVerif.ApiInventory

/-- `takeCovers key cov` splits `cov` into a prefix of covers of `key` (whose `how`s it returns) and the rest -/
theorem takeCovers_spec (key : Key) : ∀ cov : List Cover, ∃ pre : List Cover,
    cov = pre ++ (takeCovers key cov).2 ∧ pre.map (·.how) = (takeCovers key cov).1 ∧ ∀ c ∈ pre, (c.api == key) = true
  | [] => ⟨[], by simp [takeCovers]⟩
  | c :: rest => by
    unfold takeCovers
    by_cases h : (c.api == key) = true
    · obtain ⟨pre, h1, h2, h3⟩ := takeCovers_spec key rest
      refine ⟨c :: pre, ?_, ?_, ?_⟩
      · simp only [h, if_true, List.cons_append]; rw [← h1]
      · simp only [h, if_true, List.map_cons, h2]
      · intro d hd
        rcases List.mem_cons.mp hd with rfl | hd
        · exact h
        · exact h3 d hd
    · refine ⟨[], ?_, ?_, ?_⟩ <;> simp [h]

/-- the pairing keeps the inventory, in order -/
theorem assign_fst : ∀ (api : List Fn) (cov : List Cover) (a : List (Fn × List By)), assign api cov = some a → a.map (·.1) = api
  | [], [], a, h => by simp [assign] at h; subst h; rfl
  | [], _ :: _, a, h => by simp [assign] at h
  | f :: fs, cov, a, h => by
    simp only [assign, Option.map_eq_some_iff] at h
    obtain ⟨a', h1, rfl⟩ := h
    simp [assign_fst fs _ a' h1]

/-- every cover attached to a function by the pairing is a cover of the list whose key has the function's code -/
theorem assign_sound : ∀ (api : List Fn) (cov : List Cover) (a : List (Fn × List By)), assign api cov = some a →
    ∀ p ∈ a, ∀ b ∈ p.2, ∃ c ∈ cov, (c.api == p.1.key) = true ∧ c.how = b
  | [], [], a, h => by simp [assign] at h; subst h; simp
  | [], _ :: _, a, h => by simp [assign] at h
  | f :: fs, cov, a, h => by
    simp only [assign, Option.map_eq_some_iff] at h
    obtain ⟨a', h1, rfl⟩ := h
    obtain ⟨pre, e1, e2, e3⟩ := takeCovers_spec f.key cov
    intro p hp b hb
    rcases List.mem_cons.mp hp with rfl | hp
    · simp only at hb
      rw [← e2] at hb
      obtain ⟨c, hc, rfl⟩ := List.mem_map.mp hb
      exact ⟨c, by rw [e1]; exact List.mem_append_left _ hc, e3 c hc, rfl⟩
    · obtain ⟨c, hc, h2⟩ := assign_sound fs _ a' h1 p hp b hb
      exact ⟨c, by rw [e1]; exact List.mem_append_right _ hc, h2⟩

/-- no cover is left over: every cover of the list is attached to a function of the inventory with the same key code
(a key that is no longer in the inventory, or out of order, makes the pairing fail) -/
theorem assign_exhaustive : ∀ (api : List Fn) (cov : List Cover) (a : List (Fn × List By)), assign api cov = some a →
    ∀ c ∈ cov, ∃ p ∈ a, (c.api == p.1.key) = true ∧ c.how ∈ p.2
  | [], [], a, h => by simp
  | [], _ :: _, a, h => by simp [assign] at h
  | f :: fs, cov, a, h => by
    simp only [assign, Option.map_eq_some_iff] at h
    obtain ⟨a', h1, rfl⟩ := h
    obtain ⟨pre, e1, e2, e3⟩ := takeCovers_spec f.key cov
    intro c hc
    rw [e1] at hc
    rcases List.mem_append.mp hc with hc | hc
    · refine ⟨(f, (takeCovers f.key cov).1), List.mem_cons_self, e3 c hc, ?_⟩
      simp only
      rw [← e2]
      exact List.mem_map.mpr ⟨c, hc, rfl⟩
    · obtain ⟨p, hp, h2⟩ := assign_exhaustive fs _ a' h1 c hc
      exact ⟨p, List.mem_cons_of_mem _ hp, h2⟩

/-- every paired function lies in one of the overload groups the check runs over -/
theorem mem_group (a : List (Fn × List By)) (p : Fn × List By) (hp : p ∈ a) : ∃ g ∈ a.splitBy sameFn, p ∈ g := by
  have h := List.flatten_splitBy sameFn a
  rw [← h] at hp
  obtain ⟨g, hg, hpg⟩ := List.mem_flatten.mp hp
  exact ⟨g, hg, hpg⟩

/-- what an accepted check gives for each paired function -/
theorem checkAssigned_mem (a : List (Fn × List By)) (h : checkAssigned a = true) (p : Fn × List By) (hp : p ∈ a) :
    (p.1.hasIn = true → p.2 ≠ []) ∧ ∃ g, p ∈ g ∧ ∀ b ∈ p.2, coverOK g p.1 b = true := by
  obtain ⟨g, hg, hpg⟩ := mem_group a p hp
  have h1 := List.all_eq_true.mp h g hg
  have h2 := List.all_eq_true.mp h1 p hpg
  simp only [Bool.and_eq_true, Bool.or_eq_true, Bool.not_eq_true', List.all_eq_true] at h2
  refine ⟨fun hin => ?_, g, hpg, h2.2⟩
  rcases h2.1 with h3 | h3
  · rw [hin] at h3; cases h3
  · intro hnil; rw [hnil] at h3; simp at h3

/--
`checkCoverage_sound` — what an accepted API-coverage check means, for arbitrary lists:
1. every function of the inventory that has a floating-point / text / vector / stream input is the subject of a cover of the list;
2. every cover of the list is about a function of the inventory (nothing stale);
3. every `.table` cover names an existing row of the dependence table whose arities fit the extracted signature: the row sweeps
   all real arguments of the function (`off + nReal ≤ nin`) and observes at least as many outputs as the function has.
-/
theorem checkCoverage_sound (api : List Fn) (cov : List Cover) (h : checkCoverage api cov = true) :
    (∀ f ∈ api, f.hasIn = true → ∃ c ∈ cov, (c.api == f.key) = true) ∧
    (∀ c ∈ cov, ∃ f ∈ api, (c.api == f.key) = true) ∧
    (∀ c ∈ cov, ∀ e off, c.how = .table e off → ∃ f ∈ api, (c.api == f.key) = true ∧
      ∃ ent, ErrContract.findKey e = some ent ∧ off + f.nReal ≤ ent.nin ∧ f.nOut ≤ ent.nout) := by
  unfold checkCoverage at h
  cases ha : assign api cov with
  | none => rw [ha] at h; cases h
  | some a =>
    rw [ha] at h
    simp only at h
    have hfst := assign_fst api cov a ha
    refine ⟨fun f hf hin => ?_, fun c hc => ?_, fun c hc e off hhow => ?_⟩
    · rw [← hfst] at hf
      obtain ⟨p, hp, rfl⟩ := List.mem_map.mp hf
      obtain ⟨hne, _⟩ := checkAssigned_mem a h p hp
      obtain ⟨b, hb⟩ := List.exists_mem_of_ne_nil _ (hne hin)
      obtain ⟨c, hc, hk, _⟩ := assign_sound api cov a ha p hp b hb
      exact ⟨c, hc, hk⟩
    · obtain ⟨p, hp, hk, _⟩ := assign_exhaustive api cov a ha c hc
      exact ⟨p.1, by rw [← hfst]; exact List.mem_map.mpr ⟨p, hp, rfl⟩, hk⟩
    · obtain ⟨p, hp, hk, hmem⟩ := assign_exhaustive api cov a ha c hc
      obtain ⟨_, g, _, hall⟩ := checkAssigned_mem a h p hp
      have hb := hall c.how hmem
      rw [hhow] at hb
      simp only [coverOK, directOK] at hb
      refine ⟨p.1, by rw [← hfst]; exact List.mem_map.mpr ⟨p, hp, rfl⟩, hk, ?_⟩
      cases hf : ErrContract.findKey e with
      | none => rw [hf] at hb; cases hb
      | some ent =>
        rw [hf] at hb
        simp only [Bool.and_eq_true, decide_eq_true_eq] at hb
        exact ⟨ent, rfl, hb.1, hb.2⟩

end GeoVerif.Proofs.ErrCover
