import GeoVerif.Series.AuxSeries
/-! Kernel-checked certificates about the series tables of `AuxLatitude.cpp` (re-extracted into `Gen/AuxSeries.lean` on every
run).  Split over several modules (`AuxCert1 … AuxCert9`) so that lake checks them in parallel; each `decide +kernel`
takes 10–15 s.  Numbering of the latitudes: 0 φ, 1 β, 2 θ, 3 μ, 4 χ, 5 ξ. -/
namespace GeoVerif.Proofs.AuxCert
open GeoVerif.Series.Aux

theorem revert_0_3 : checkRevert 0 3 = true := by decide +kernel
theorem revert_2_5 : checkRevert 2 5 = true := by decide +kernel
theorem compose_5_0_1 : checkCompose 5 0 1 = true := by decide +kernel

end GeoVerif.Proofs.AuxCert
