import GeoVerif.Model.IntersectSearch
import GeoVerif.Spec.RealInst
import Mathlib.Tactic.Linarith
import Mathlib.Tactic.Ring
import Mathlib.Tactic.NormNum
/-!
# `Intersect`: the L1 metric, the `XPoint` comparators, the set and the sort (lemmas for `Props/C17.lean`)

Real-number reading of `Model/IntersectSearch.lean`.
-/
namespace GeoVerif.IntersectSearch
open GeoVerif GeoVerif.IntersectFix

/-! ## the real reading of the primitives -/

theorem ofC_real (c : Int) : (ofC c : ℝ) = (c : ℝ) := by
  unfold ofC
  split
  · rename_i h
    rw [ofNat_real, Nat.cast_natAbs, abs_of_neg h]; push_cast; ring
  · rename_i h
    rw [ofNat_real, Nat.cast_natAbs, abs_of_nonneg (by omega)]

theorem l1_real (x y : ℝ) : l1 x y = |x| + |y| := rfl
theorem dist_real (p q : XP ℝ) : dist p q = |p.x - q.x| + |p.y - q.y| := rfl
theorem dist0_real (p : XP ℝ) : dist0 p = |p.x| + |p.y| := rfl
theorem ceq_real (δ : ℝ) (p q : XP ℝ) : ceq δ p q = decide (dist p q ≤ δ) := rfl
theorem zero_real : (zero : ℝ) = 0 := by simp [zero, ofNat_real]
theorem two_real : (two : ℝ) = 2 := by simp [two, ofNat_real]

theorem ceq_iff (δ : ℝ) (p q : XP ℝ) : ceq δ p q = true ↔ dist p q ≤ δ := by simp [ceq_real]
theorem ceq_false_iff (δ : ℝ) (p q : XP ℝ) : ceq δ p q = false ↔ δ < dist p q := by
  rw [← Bool.not_eq_true, ceq_iff]; exact not_le

theorem clt_iff (δ : ℝ) (p q : XP ℝ) :
    clt δ p q = true ↔ δ < dist p q ∧ ((δ < |p.x - q.x| ∧ p.x < q.x) ∨ (|p.x - q.x| ≤ δ ∧ p.y < q.y)) := by
  unfold clt
  simp only [Bool.and_eq_true, Bool.not_eq_true', ceq_false_iff, ltb_real, abs_real]
  by_cases h : δ < |p.x - q.x|
  · simp [h]
  · simp [h, not_lt.mp h]

theorem cltOld_iff (δ : ℝ) (p q : XP ℝ) :
    cltOld δ p q = true ↔ δ < dist p q ∧ ((p.x ≠ q.x ∧ p.x < q.x) ∨ (p.x = q.x ∧ p.y < q.y)) := by
  unfold cltOld
  simp only [Bool.and_eq_true, Bool.not_eq_true', ceq_false_iff, ltb_real, eqb_real]
  by_cases h : p.x = q.x
  · simp [h]
  · simp [h]

/-! ## L1 is a metric -/

theorem dist_nonneg (p q : XP ℝ) : 0 ≤ dist p q := by rw [dist_real]; positivity
theorem dist_self (p : XP ℝ) : dist p p = 0 := by simp [dist_real]
theorem dist_symm (p q : XP ℝ) : dist p q = dist q p := by
  rw [dist_real, dist_real, abs_sub_comm p.x, abs_sub_comm p.y]
theorem dist_triangle (p q r : XP ℝ) : dist p r ≤ dist p q + dist q r := by
  rw [dist_real, dist_real, dist_real]
  have h1 := abs_sub_le p.x q.x r.x
  have h2 := abs_sub_le p.y q.y r.y
  linarith
theorem abs_x_le_dist (p q : XP ℝ) : |p.x - q.x| ≤ dist p q := by rw [dist_real]; linarith [abs_nonneg (p.y - q.y)]
theorem abs_y_le_dist (p q : XP ℝ) : |p.y - q.y| ≤ dist p q := by rw [dist_real]; linarith [abs_nonneg (p.x - q.x)]

theorem ceq_refl (δ : ℝ) (hδ : 0 ≤ δ) (p : XP ℝ) : ceq δ p p = true := by rw [ceq_iff, dist_self]; exact hδ
theorem ceq_symm (δ : ℝ) (p q : XP ℝ) : ceq δ p q = ceq δ q p := by rw [ceq_real, ceq_real, dist_symm]

/-! ## `SetComp` -/

theorem clt_not_ceq (δ : ℝ) (p q : XP ℝ) (h : clt δ p q = true) : ceq δ p q = false := by
  rw [clt_iff] at h; rw [ceq_false_iff]; exact h.1

theorem clt_irrefl (δ : ℝ) (hδ : 0 ≤ δ) (p : XP ℝ) : clt δ p p = false := by
  rw [← Bool.not_eq_true, clt_iff, dist_self]; intro h; linarith [h.1]

theorem clt_asymm (δ : ℝ) (p q : XP ℝ) (h : clt δ p q = true) : clt δ q p = false := by
  rw [← Bool.not_eq_true, clt_iff]; rw [clt_iff] at h
  rw [abs_sub_comm q.x p.x]
  rintro ⟨_, h2⟩
  rcases h.2 with ⟨a, b⟩ | ⟨a, b⟩ <;> rcases h2 with ⟨c, d⟩ | ⟨c, d⟩ <;> linarith

/-- incomparability of the repaired comparator is exactly `SetComp::eq` -/
theorem clt_incomparable_iff (δ : ℝ) (hδ : 0 ≤ δ) (p q : XP ℝ) :
    (clt δ p q = false ∧ clt δ q p = false) ↔ ceq δ p q = true := by
  constructor
  · rintro ⟨h1, h2⟩
    by_contra hne
    rw [Bool.not_eq_true, ceq_false_iff] at hne
    rw [← Bool.not_eq_true, clt_iff] at h1 h2
    rw [dist_symm q p, abs_sub_comm q.x p.x] at h2
    by_cases hx : δ < |p.x - q.x|
    · rcases lt_trichotomy p.x q.x with h | h | h
      · exact h1 ⟨hne, Or.inl ⟨hx, h⟩⟩
      · rw [h] at hx; simp at hx; linarith
      · exact h2 ⟨hne, Or.inl ⟨hx, h⟩⟩
    · have hx' := not_lt.mp hx
      rcases lt_trichotomy p.y q.y with h | h | h
      · exact h1 ⟨hne, Or.inr ⟨hx', h⟩⟩
      · rw [dist_real, h] at hne; simp at hne; linarith
      · exact h2 ⟨hne, Or.inr ⟨hx', h⟩⟩
  · intro h
    have h' : ceq δ q p = true := by rw [ceq_symm]; exact h
    constructor
    · by_contra hc; rw [Bool.not_eq_false] at hc; rw [clt_not_ceq δ p q hc] at h; cases h
    · by_contra hc; rw [Bool.not_eq_false] at hc; rw [clt_not_ceq δ q p hc] at h'; cases h'

/-- the same holds for the comparator before d3a4710: what was wrong with it is transitivity, not the equivalence -/
theorem cltOld_incomparable_iff (δ : ℝ) (hδ : 0 ≤ δ) (p q : XP ℝ) :
    (cltOld δ p q = false ∧ cltOld δ q p = false) ↔ ceq δ p q = true := by
  constructor
  · rintro ⟨h1, h2⟩
    by_contra hne
    rw [Bool.not_eq_true, ceq_false_iff] at hne
    rw [← Bool.not_eq_true, cltOld_iff] at h1 h2
    rw [dist_symm q p] at h2
    rcases lt_trichotomy p.x q.x with h | h | h
    · exact h1 ⟨hne, Or.inl ⟨ne_of_lt h, h⟩⟩
    · rcases lt_trichotomy p.y q.y with g | g | g
      · exact h1 ⟨hne, Or.inr ⟨h, g⟩⟩
      · rw [dist_real, h, g] at hne; simp at hne; linarith
      · exact h2 ⟨hne, Or.inr ⟨h.symm, g⟩⟩
    · exact h2 ⟨hne, Or.inl ⟨ne_of_lt h, h⟩⟩
  · intro h
    rw [ceq_iff] at h
    constructor
    · rw [← Bool.not_eq_true, cltOld_iff]; rintro ⟨a, _⟩; linarith
    · rw [← Bool.not_eq_true, cltOld_iff, dist_symm]; rintro ⟨a, _⟩; linarith

/-! ## when is `SetComp` a strict weak order? -/

/-- Conditions on a set `S` of points under which `SetComp::operator()` is a strict weak order on `S` whose incomparability
    is `SetComp::eq`: "x within δ" and "L1 within δ" are transitive on `S`, and inside a class of x-close points the
    δ-classes are convex in `y`. -/
structure Consistent (δ : ℝ) (S : XP ℝ → Prop) : Prop where
  xtrans : ∀ p q r, S p → S q → S r → |p.x - q.x| ≤ δ → |q.x - r.x| ≤ δ → |p.x - r.x| ≤ δ
  etrans : ∀ p q r, S p → S q → S r → dist p q ≤ δ → dist q r ≤ δ → dist p r ≤ δ
  convex : ∀ p q r, S p → S q → S r → |p.x - q.x| ≤ δ → |q.x - r.x| ≤ δ → p.y ≤ q.y → q.y ≤ r.y → dist p r ≤ δ → dist p q ≤ δ

theorem clt_trans_on {δ : ℝ} {S : XP ℝ → Prop} (hS : Consistent δ S) {p q r : XP ℝ}
    (hp : S p) (hq : S q) (hr : S r) (h1 : clt δ p q = true) (h2 : clt δ q r = true) : clt δ p r = true := by
  rw [clt_iff] at h1 h2 ⊢
  obtain ⟨d1, c1⟩ := h1
  obtain ⟨d2, c2⟩ := h2
  rcases c1 with ⟨a1, b1⟩ | ⟨a1, b1⟩ <;> rcases c2 with ⟨a2, b2⟩ | ⟨a2, b2⟩
  · -- x, x
    have e1 : q.x - p.x > δ := by rw [abs_sub_comm, abs_of_pos (by linarith)] at a1; exact a1
    have e2 : r.x - q.x > δ := by rw [abs_sub_comm, abs_of_pos (by linarith)] at a2; exact a2
    have e3 : δ < |p.x - r.x| := by rw [abs_sub_comm, abs_of_pos (by linarith)]; linarith
    exact ⟨lt_of_lt_of_le e3 (abs_x_le_dist p r), Or.inl ⟨e3, by linarith⟩⟩
  · -- x, y
    have e1 : q.x - p.x > δ := by rw [abs_sub_comm, abs_of_pos (by linarith)] at a1; exact a1
    have e3 : δ < |p.x - r.x| := by
      by_contra hc
      have := hS.xtrans p r q hp hr hq (not_lt.mp hc) (by rw [abs_sub_comm]; exact a2)
      linarith
    have e4 : p.x < r.x := by
      have := abs_le.mp a2
      linarith [this.1, this.2]
    exact ⟨lt_of_lt_of_le e3 (abs_x_le_dist p r), Or.inl ⟨e3, e4⟩⟩
  · -- y, x
    have e2 : r.x - q.x > δ := by rw [abs_sub_comm, abs_of_pos (by linarith)] at a2; exact a2
    have e3 : δ < |p.x - r.x| := by
      by_contra hc
      have := hS.xtrans q p r hq hp hr (by rw [abs_sub_comm]; exact a1) (not_lt.mp hc)
      linarith
    have e4 : p.x < r.x := by
      have := abs_le.mp a1
      linarith [this.1, this.2]
    exact ⟨lt_of_lt_of_le e3 (abs_x_le_dist p r), Or.inl ⟨e3, e4⟩⟩
  · -- y, y
    have e3 := hS.xtrans p q r hp hq hr a1 a2
    have e4 : δ < dist p r := by
      by_contra hc
      have := hS.convex p q r hp hq hr a1 a2 b1.le b2.le (not_lt.mp hc)
      linarith
    exact ⟨e4, Or.inr ⟨e3, by linarith⟩⟩

theorem ceq_trans_on {δ : ℝ} {S : XP ℝ → Prop} (hS : Consistent δ S) {p q r : XP ℝ}
    (hp : S p) (hq : S q) (hr : S r) (h1 : ceq δ p q = true) (h2 : ceq δ q r = true) : ceq δ p r = true := by
  rw [ceq_iff] at *; exact hS.etrans p q r hp hq hr h1 h2

/-- every coordinate difference inside `S` is either small (`≤ η`) or larger than `δ + η` -/
def Gapped (δ η : ℝ) (S : XP ℝ → Prop) : Prop :=
  ∀ p q, S p → S q → (|p.x - q.x| ≤ η ∨ δ + η < |p.x - q.x|) ∧ (|p.y - q.y| ≤ η ∨ δ + η < |p.y - q.y|)

theorem gapped_consistent {δ η : ℝ} (hη : 0 ≤ η) (h2 : 2 * η ≤ δ) {S : XP ℝ → Prop} (hg : Gapped δ η S) : Consistent δ S := by
  have small : ∀ v : ℝ, (v ≤ η ∨ δ + η < v) → v ≤ δ → v ≤ η := by
    intro v h hv; rcases h with h | h
    · exact h
    · linarith
  refine ⟨?_, ?_, ?_⟩
  · intro p q r hp hq hr h1 h2'
    have a := small _ (hg p q hp hq).1 h1
    have b := small _ (hg q r hq hr).1 h2'
    have := abs_sub_le p.x q.x r.x
    linarith
  · intro p q r hp hq hr h1 h2'
    have ax := small _ (hg p q hp hq).1 (le_trans (abs_x_le_dist p q) h1)
    have ay := small _ (hg p q hp hq).2 (le_trans (abs_y_le_dist p q) h1)
    have bx := small _ (hg q r hq hr).1 (le_trans (abs_x_le_dist q r) h2')
    have by' := small _ (hg q r hq hr).2 (le_trans (abs_y_le_dist q r) h2')
    have tx := abs_sub_le p.x q.x r.x
    have ty := abs_sub_le p.y q.y r.y
    have cx := small _ (hg p r hp hr).1 (by linarith)
    have cy := small _ (hg p r hp hr).2 (by linarith)
    rw [dist_real]; linarith
  · intro p q r hp hq hr h1 _ hy1 hy2 h3
    have ax := small _ (hg p q hp hq).1 h1
    have cy := small _ (hg p r hp hr).2 (le_trans (abs_y_le_dist p r) h3)
    have : |p.y - q.y| ≤ |p.y - r.y| := by
      rw [abs_sub_comm p.y q.y, abs_sub_comm p.y r.y, abs_of_nonneg (by linarith), abs_of_nonneg (by linarith)]; linarith
    rw [dist_real]; linarith

/-! ## the set (sorted list) and the sort, for an arbitrary comparator -/

section Generic
variable {β : Type}

theorem mem_setInsert {lt : XP β → XP β → Bool} {l : List (XP β)} {q e : XP β} [RealLike β]
    (h : e ∈ setInsert lt l q) : e = q ∨ e ∈ l := by
  induction l with
  | nil => simp [setInsert] at h; exact Or.inl h
  | cons a r ih =>
    simp only [setInsert] at h
    split at h
    · rcases List.mem_cons.mp h with h | h
      · exact Or.inr (by simp [h])
      · rcases ih h with h | h
        · exact Or.inl h
        · exact Or.inr (List.mem_cons_of_mem _ h)
    · split at h
      · rcases List.mem_cons.mp h with h | h
        · exact Or.inl h
        · exact Or.inr h
      · exact Or.inr h

theorem subset_setInsert {lt : XP β → XP β → Bool} {l : List (XP β)} {q e : XP β} [RealLike β]
    (h : e ∈ l) : e ∈ setInsert lt l q := by
  induction l with
  | nil => cases h
  | cons a r ih =>
    simp only [setInsert]
    split
    · rcases List.mem_cons.mp h with h | h
      · simp [h]
      · exact List.mem_cons_of_mem _ (ih h)
    · split
      · exact List.mem_cons_of_mem _ h
      · exact h

/-- after `insert(q)` the set holds `q` or an element incomparable with `q` that was there before -/
theorem setInsert_rep {lt : XP β → XP β → Bool} (l : List (XP β)) (q : XP β) [RealLike β] :
    q ∈ setInsert lt l q ∨ ∃ e ∈ l, e ∈ setInsert lt l q ∧ lt e q = false ∧ lt q e = false := by
  induction l with
  | nil => left; simp [setInsert]
  | cons a r ih =>
    simp only [setInsert]
    by_cases h1 : lt a q = true
    · rw [if_pos h1]
      rcases ih with h | ⟨e, he, hm, h2, h3⟩
      · left; exact List.mem_cons_of_mem _ h
      · right; exact ⟨e, List.mem_cons_of_mem _ he, List.mem_cons_of_mem _ hm, h2, h3⟩
    · rw [if_neg h1]
      by_cases h2 : lt q a = true
      · rw [if_pos h2]; left; simp
      · rw [if_neg h2]; right
        exact ⟨a, by simp, by simp, by simpa using h1, by simpa using h2⟩

/-- `find(q)` succeeds only on an element incomparable with `q` -/
theorem setFind_true {lt : XP β → XP β → Bool} {l : List (XP β)} {q : XP β} [RealLike β]
    (h : setFind lt l q = true) : ∃ e ∈ l, lt e q = false ∧ lt q e = false := by
  induction l with
  | nil => simp [setFind] at h
  | cons a r ih =>
    simp only [setFind] at h
    by_cases h1 : lt a q = true
    · rw [if_pos h1] at h
      obtain ⟨e, he, h2⟩ := ih h
      exact ⟨e, List.mem_cons_of_mem _ he, h2⟩
    · rw [if_neg h1] at h
      exact ⟨a, by simp, by simpa using h1, by simpa using h⟩

/-- unique insertion keeps the list strictly sorted, provided the comparator is transitive on the points involved -/
theorem setInsert_pairwise {lt : XP β → XP β → Bool} {S : XP β → Prop} [RealLike β]
    (htr : ∀ p q r, S p → S q → S r → lt p q = true → lt q r = true → lt p r = true)
    {l : List (XP β)} {q : XP β} (hl : ∀ e ∈ l, S e) (hq : S q) (hp : l.Pairwise (fun a b => lt a b = true)) :
    (setInsert lt l q).Pairwise (fun a b => lt a b = true) := by
  induction l with
  | nil => simp [setInsert]
  | cons a r ih =>
    have hr : ∀ e ∈ r, S e := fun e he => hl e (List.mem_cons_of_mem _ he)
    have ha : S a := hl a (by simp)
    obtain ⟨har, hpr⟩ := List.pairwise_cons.mp hp
    simp only [setInsert]
    by_cases h1 : lt a q = true
    · rw [if_pos h1]
      refine List.pairwise_cons.mpr ⟨?_, ih hr hpr⟩
      intro e he
      rcases mem_setInsert he with h | h
      · rw [h]; exact h1
      · exact har e h
    · rw [if_neg h1]
      by_cases h2 : lt q a = true
      · rw [if_pos h2]
        refine List.pairwise_cons.mpr ⟨?_, hp⟩
        intro e he
        rcases List.mem_cons.mp he with h | h
        · rw [h]; exact h2
        · exact htr q a e hq ha (hr e h) h2 (har e h)
      · rw [if_neg h2]; exact hp

theorem mem_insertBy {lt : XP β → XP β → Bool} {x e : XP β} {l : List (XP β)} :
    e ∈ insertBy lt x l ↔ e = x ∨ e ∈ l := by
  induction l with
  | nil => simp [insertBy]
  | cons a r ih =>
    simp only [insertBy]
    split
    · simp
    · simp only [List.mem_cons, ih]; tauto

theorem mem_sortBy {lt : XP β → XP β → Bool} {e : XP β} {l : List (XP β)} : e ∈ sortBy lt l ↔ e ∈ l := by
  induction l with
  | nil => simp [sortBy]
  | cons a r ih =>
    have : sortBy lt (a :: r) = insertBy lt a (sortBy lt r) := rfl
    rw [this, mem_insertBy, ih]; simp

theorem length_insertBy {lt : XP β → XP β → Bool} {x : XP β} {l : List (XP β)} : (insertBy lt x l).length = l.length + 1 := by
  induction l with
  | nil => simp [insertBy]
  | cons a r ih => simp only [insertBy]; split <;> simp [ih]

theorem length_sortBy {lt : XP β → XP β → Bool} {l : List (XP β)} : (sortBy lt l).length = l.length := by
  induction l with
  | nil => simp [sortBy]
  | cons a r ih =>
    have : sortBy lt (a :: r) = insertBy lt a (sortBy lt r) := rfl
    rw [this, length_insertBy, ih]; simp

/-- a symmetric relation that holds pairwise before sorting holds pairwise afterwards -/
theorem pairwise_sortBy {lt : XP β → XP β → Bool} {R : XP β → XP β → Prop} (hsym : ∀ a b, R a b → R b a)
    {l : List (XP β)} (h : l.Pairwise R) : (sortBy lt l).Pairwise R := by
  induction l with
  | nil => simp [sortBy]
  | cons a r ih =>
    obtain ⟨har, hpr⟩ := List.pairwise_cons.mp h
    have hs := ih hpr
    have har' : ∀ e ∈ sortBy lt r, R a e := fun e he => har e (mem_sortBy.mp he)
    have : sortBy lt (a :: r) = insertBy lt a (sortBy lt r) := rfl
    rw [this]
    generalize sortBy lt r = s at hs har'
    induction s with
    | nil => simp [insertBy]
    | cons b t iht =>
      obtain ⟨hbt, hpt⟩ := List.pairwise_cons.mp hs
      simp only [insertBy]
      split
      · exact List.pairwise_cons.mpr ⟨har', hs⟩
      · refine List.pairwise_cons.mpr ⟨?_, iht hpt (fun e he => har' e (List.mem_cons_of_mem _ he))⟩
        intro e he
        rcases mem_insertBy.mp he with h | h
        · rw [h]; exact hsym _ _ (har' b (by simp))
        · exact hbt e h

/-- insertion sort by a comparator that refines a total preorder `key` yields a list sorted by `key` -/
theorem sortBy_sorted {lt : XP β → XP β → Bool} (key : XP β → ℝ)
    (h1 : ∀ a b, lt a b = true → key a ≤ key b) (h2 : ∀ a b, lt a b = false → key b ≤ key a) (l : List (XP β)) :
    (sortBy lt l).Pairwise (fun a b => key a ≤ key b) := by
  induction l with
  | nil => simp [sortBy]
  | cons a r ih =>
    have : sortBy lt (a :: r) = insertBy lt a (sortBy lt r) := rfl
    rw [this]
    generalize sortBy lt r = s at ih
    induction s with
    | nil => simp [insertBy]
    | cons b t iht =>
      obtain ⟨hbt, hpt⟩ := List.pairwise_cons.mp ih
      simp only [insertBy]
      by_cases hab : lt a b = true
      · rw [if_pos hab]
        refine List.pairwise_cons.mpr ⟨?_, ih⟩
        intro e he
        rcases List.mem_cons.mp he with h | h
        · rw [h]; exact h1 a b hab
        · exact le_trans (h1 a b hab) (hbt e h)
      · rw [if_neg hab]
        refine List.pairwise_cons.mpr ⟨?_, iht hpt⟩
        intro e he
        rcases mem_insertBy.mp he with h | h
        · rw [h]; exact h2 a b (by simpa using hab)
        · exact hbt e h
end Generic

/-! ## `RankPoint` -/

theorem rlt_key_le (p0 p q : XP ℝ) (h : rlt p0 p q = true) : dist p p0 ≤ dist q p0 := by
  unfold rlt at h
  simp only [eqb_real, ltb_real] at h
  by_cases hd : dist p p0 = dist q p0
  · exact hd.le
  · simp [hd] at h; exact h.le

theorem rlt_false_key_le (p0 p q : XP ℝ) (h : rlt p0 p q = false) : dist q p0 ≤ dist p p0 := by
  unfold rlt at h
  simp only [eqb_real, ltb_real] at h
  by_cases hd : dist p p0 = dist q p0
  · exact hd.ge
  · simp [hd] at h; exact h

end GeoVerif.IntersectSearch
