import GeoVerif.Model.GeodLineExact
import GeoVerif.Proofs.GeodLine
import GeoVerif.Spec.RealInst
import Mathlib.Analysis.SpecialFunctions.Complex.Arg
import Mathlib.Tactic.Ring
import Mathlib.Tactic.Linarith
import Mathlib.Tactic.FieldSimp
import Mathlib.Tactic.NormNum
import Mathlib.Tactic.Positivity
import Mathlib.Tactic.LinearCombination
/-!
# Lemmas about the real reading of `Model/GeodLineExact.lean` (used by `Props/C01.lean`, `Props/C03.lean`)
-/
namespace GeoVerif.Proofs.GeodLineX
open GeoVerif GeoVerif.Clenshaw GeoVerif.GeodLine GeoVerif.GeodLineX GeoVerif.Proofs.GeodLine Real

/-- the arc returned by the head of `GenPosition` has a unit (sin, cos) pair: by construction in distance mode,
    and in arc mode when the `sincosd` kernel returns a unit pair — for every elliptic kernel -/
theorem arcOfX_unit (L : LineX ℝ) (K : Ell ℝ) (arcmode : Bool) (s sk ck : ℝ) (hk : arcmode = true → sk ^ 2 + ck ^ 2 = 1) :
    (arcOfX L K arcmode s sk ck).2.1 ^ 2 + (arcOfX L K arcmode s sk ck).2.2.1 ^ 2 = 1 := by
  unfold arcOfX
  cases arcmode with
  | true => simpa using hk rfl
  | false =>
    simp only [Bool.false_eq_true, if_false, sin_real, cos_real]
    exact Real.sin_sq_add_cos_sq _

/-- `cos σ2` before the degenerate case `cbet2 = 0` is patched -/
noncomputable def csig2preX (L : LineX ℝ) (K : Ell ℝ) (arcmode : Bool) (s sk ck : ℝ) : ℝ :=
  L.csig1 * (arcOfX L K arcmode s sk ck).2.2.1 - L.ssig1 * (arcOfX L K arcmode s sk ck).2.1
noncomputable def ssig2ofX (L : LineX ℝ) (K : Ell ℝ) (arcmode : Bool) (s sk ck : ℝ) : ℝ :=
  L.ssig1 * (arcOfX L K arcmode s sk ck).2.2.1 + L.csig1 * (arcOfX L K arcmode s sk ck).2.1
/-- the end point is not the degenerate one (`salp0 = 0` and `csig2 = 0`: a meridional line arriving exactly at a pole) -/
def NonDegenerateX (L : LineX ℝ) (K : Ell ℝ) (arcmode : Bool) (s sk ck : ℝ) : Prop :=
  RealLike.hypot L.salp0 (L.calp0 * csig2preX L K arcmode s sk ck) ≠ 0

theorem genposX_nd (L : LineX ℝ) (K : Ell ℝ) (arcmode : Bool) (s sk ck : ℝ) (un : Bool) (hnd : NonDegenerateX L K arcmode s sk ck) :
    let P := genPositionX L K arcmode s sk ck un
    P.ssig2 = ssig2ofX L K arcmode s sk ck ∧ P.csig2 = csig2preX L K arcmode s sk ck ∧
    P.cbet2 = RealLike.hypot L.salp0 (L.calp0 * csig2preX L K arcmode s sk ck) ∧
    P.calp2 = L.calp0 * csig2preX L K arcmode s sk ck ∧ P.salp2 = L.salp0 ∧ P.sbet2 = L.calp0 * ssig2ofX L K arcmode s sk ck := by
  intro P
  unfold NonDegenerateX at hnd
  refine ⟨rfl, ?_, ?_, ?_, rfl, rfl⟩
  · show (if RealLike.eqb _ _ = true then L.tiny else csig2preX L K arcmode s sk ck) = _
    simp only [eqb_real, lit_real, Nat.cast_zero, decide_eq_true_eq]
    exact if_neg hnd
  · show (if RealLike.eqb _ _ = true then L.tiny else RealLike.hypot L.salp0 (L.calp0 * csig2preX L K arcmode s sk ck)) = _
    simp only [eqb_real, lit_real, Nat.cast_zero, decide_eq_true_eq]
    exact if_neg hnd
  · show L.calp0 * (if RealLike.eqb _ _ = true then L.tiny else csig2preX L K arcmode s sk ck) = _
    simp only [eqb_real, lit_real, Nat.cast_zero, decide_eq_true_eq]
    rw [if_neg (by exact hnd)]

/-- components of `arcOfX` in arc mode -/
theorem arcOfX_arc (L : LineX ℝ) (K : Ell ℝ) (x sk ck : ℝ) :
    (arcOfX L K true x sk ck).1 = x * degree ∧ (arcOfX L K true x sk ck).2.1 = sk ∧ (arcOfX L K true x sk ck).2.2.1 = ck := by
  unfold arcOfX; simp

/-- a concrete kernel for the non-vacuity examples: the sphere (`k2 = 0`), where `E = D·2 = H·2 = φ`, all periodic parts vanish -/
noncomputable def exEll : Ell ℝ :=
  { Ec := Real.pi / 2, Dc := Real.pi / 4, Hc := Real.pi / 4, deltaE := fun _ _ _ => 0, deltaD := fun _ _ _ => 0, deltaH := fun _ _ _ => 0,
    deltaEinv := fun _ _ => 0, C4a := [] }

/-- a concrete line for the non-vacuity examples: the equator of the unit sphere, eastwards from longitude 0 -/
noncomputable def exLineX : LineX ℝ :=
  { f := 0, f1 := 1, e2 := 0, b := 1, c2 := 1, tiny := 1 / 1000, lon1 := 0, salp1 := 1, calp1 := 0, dn1 := 1, salp0 := 1, calp0 := 0,
    ssig1 := 0, csig1 := 1, somg1 := 0, cchi1 := 1, k2 := 0, kp2 := 1, E0 := 1, E1 := 0, stau1 := 0, ctau1 := 1,
    D0 := 1 / 2, D1 := 0, H0 := 1 / 2, H1 := 0, A4 := 0, B41 := 0 }

theorem exLineX_nd (arcmode : Bool) (s sk ck : ℝ) : NonDegenerateX exLineX exEll arcmode s sk ck := by
  unfold NonDegenerateX
  simp [exLineX, hypot_real]


/-! ### the head of `GenPosition` in arc mode, the scaled distance, the kernel contract -/

theorem degree_ne : (degree : ℝ) ≠ 0 := by
  unfold degree
  simp only [lit_real]
  have := Real.pi_pos
  show Real.pi / _ ≠ 0
  positivity


/-- `atan2` sees the direction only: a positive common factor drops out -/
theorem atan2_pos_mul (r y x : ℝ) (hr : 0 < r) : RealLike.atan2 (r * y) (r * x) = RealLike.atan2 y x := by
  show Complex.arg ⟨r * x, r * y⟩ = Complex.arg ⟨x, y⟩
  have : (⟨r * x, r * y⟩ : ℂ) = (r : ℂ) * ⟨x, y⟩ := by
    apply Complex.ext <;> simp
  rw [this, Complex.arg_real_mul _ hr]

/-- two directions with the same first component and second components of the same sign differ by less than a quarter turn -/
theorem atan2_scale_bound (c s k : ℝ) (hc : 0 < c) (hz : s ≠ 0 ∨ k ≠ 0) :
    |RealLike.atan2 (c * s) k - RealLike.atan2 s k| < Real.pi / 2 := by
  show |Complex.arg ⟨k, c * s⟩ - Complex.arg ⟨k, s⟩| < Real.pi / 2
  set z : ℂ := ⟨k, c * s⟩ with hzd
  set w : ℂ := ⟨k, s⟩ with hwd
  have hw0 : w ≠ 0 := by
    intro h; have h1 := congrArg Complex.re h; have h2 := congrArg Complex.im h
    simp [hwd] at h1 h2; rcases hz with h' | h' <;> contradiction
  have hz0 : z ≠ 0 := by
    intro h; have h1 := congrArg Complex.re h; have h2 := congrArg Complex.im h
    simp [hzd] at h1 h2
    rcases hz with h' | h'
    · rcases h2 with h2 | h2
      · exact hc.ne' h2
      · exact h' h2
    · exact h' h1
  -- the quotient has positive real part
  have hq : 0 < (z / w).re := by
    rw [Complex.div_re]
    have hn : 0 < Complex.normSq w := Complex.normSq_pos.mpr hw0
    have : z.re * w.re / Complex.normSq w + z.im * w.im / Complex.normSq w = (k ^ 2 + c * s ^ 2) / Complex.normSq w := by
      simp [hzd, hwd]; ring
    rw [this]
    apply div_pos _ hn
    rcases hz with h' | h'
    · have := sq_pos_of_ne_zero h'; positivity
    · have := sq_pos_of_ne_zero h'; positivity
  have hq2 : |Complex.arg (z / w)| < Real.pi / 2 := Complex.abs_arg_lt_pi_div_two_iff.mpr (Or.inl hq)
  -- arg z − arg w = arg (z / w) modulo 2π
  have hang : ((Complex.arg z - Complex.arg w : ℝ) : Real.Angle) = (Complex.arg (z / w) : Real.Angle) := by
    rw [Complex.arg_div_coe_angle hz0 hw0]; simp
  obtain ⟨n, hn⟩ := Real.Angle.angle_eq_iff_two_pi_dvd_sub.mp hang
  -- both arguments lie on the same side
  have hside : |Complex.arg z - Complex.arg w| ≤ Real.pi := by
    rcases le_or_gt 0 s with hs | hs
    · have h1 : 0 ≤ Complex.arg z := Complex.arg_nonneg_iff.mpr (by simp [hzd]; positivity)
      have h2 : 0 ≤ Complex.arg w := Complex.arg_nonneg_iff.mpr (by simp [hwd]; exact hs)
      have h3 := Complex.arg_le_pi z; have h4 := Complex.arg_le_pi w
      rw [abs_le]; constructor <;> linarith
    · have h1 : Complex.arg z < 0 := Complex.arg_neg_iff.mpr (by simp [hzd]; exact mul_neg_of_pos_of_neg hc hs)
      have h2 : Complex.arg w < 0 := Complex.arg_neg_iff.mpr (by simp [hwd]; exact hs)
      have h3 := Complex.neg_pi_lt_arg z; have h4 := Complex.neg_pi_lt_arg w
      rw [abs_le]; constructor <;> linarith
  have hn0 : n = 0 := by
    have hpi := Real.pi_pos
    have hb : |2 * Real.pi * (n : ℝ)| < 2 * Real.pi := by
      rw [← hn]
      calc |Complex.arg z - Complex.arg w - Complex.arg (z / w)| ≤ |Complex.arg z - Complex.arg w| + |Complex.arg (z / w)| := abs_sub _ _
        _ < 2 * Real.pi := by linarith
    rw [abs_mul, abs_of_pos (by positivity : (0:ℝ) < 2 * Real.pi)] at hb
    have : |(n : ℝ)| < 1 := by
      by_contra h; have h := not_lt.mp h
      have := mul_le_mul_of_nonneg_left h (by positivity : (0:ℝ) ≤ 2 * Real.pi)
      linarith
    have : |n| < 1 := by exact_mod_cast this
    exact Int.abs_lt_one_iff.mp this
  rw [hn0] at hn
  have : Complex.arg z - Complex.arg w = Complex.arg (z / w) := by simpa using sub_eq_zero.mp (by simpa using hn)
  rw [this]; exact hq2

/-! `copysign(1, x)` over ℝ -/

theorem copysign_one_real (x : ℝ) : (copysign 1 x : ℝ) = if x < 0 then -1 else 1 := by
  unfold copysign signNeg
  simp only [ltb_real, eqb_real, lit_real, Nat.cast_zero, Nat.cast_one, abs_real, abs_one]
  by_cases h : x < 0
  · simp [h]
  · by_cases h0 : x = 0
    · simp [h0]
    · simp [h, h0]

theorem copysign_mul_self_pos (x : ℝ) (hx : x ≠ 0) : 0 < copysign 1 x * x := by
  rw [copysign_one_real]
  split_ifs with h
  · linarith
  · have : 0 ≤ x := not_lt.mp h
    have := lt_of_le_of_ne this (Ne.symm hx); linarith

theorem copysign_abs_one (x : ℝ) : |(copysign 1 x : ℝ)| = 1 := by
  rw [copysign_one_real]; split_ifs <;> simp


/-! ranges of `atan2` / `atan2d` over ℝ -/

theorem signNeg_real (x : ℝ) : signNeg x = decide (x < 0) := by
  unfold signNeg
  simp only [ltb_real, eqb_real, lit_real, Nat.cast_zero, Nat.cast_one]
  by_cases h : x < 0
  · simp [h]
  · by_cases h0 : x = 0
    · simp [h0]
    · simp [h, h0]

/-- `|atan2(y, x)| ≤ π/2` for `x ≥ 0`, with the sign of `y` -/
theorem atan2_halfplane (y x : ℝ) (hx : 0 ≤ x) :
    |RealLike.atan2 y x| ≤ Real.pi / 2 ∧ (0 ≤ y → 0 ≤ RealLike.atan2 y x) ∧ (y < 0 → RealLike.atan2 y x < 0) := by
  refine ⟨Complex.abs_arg_le_pi_div_two_iff.mpr hx, fun h => Complex.arg_nonneg_iff.mpr h, fun h => Complex.arg_neg_iff.mpr h⟩

theorem deg_pos : (0 : ℝ) < degree := by
  unfold degree; simp only [lit_real]; have := Real.pi_pos; show 0 < Real.pi / _; positivity

/-- a quotient by `degree` of an angle in `[−π/2, π/2]` lies in `[−90, 90]` -/
theorem div_degree_bound (t : ℝ) (h : |t| ≤ Real.pi / 2) : |t / (degree : ℝ)| ≤ 90 := by
  have hd := deg_pos
  rw [abs_div, abs_of_pos hd, div_le_iff₀ hd]
  have : (90 : ℝ) * degree = Real.pi / 2 := by
    unfold degree; simp only [lit_real]
    show (90 : ℝ) * (Real.pi / _) = _
    push_cast; ring
  rw [this]; exact h


/-- `deltaE` at the end point of an arc whose sine and cosine are `(sk, ck)` -/
noncomputable def E2arc (L : LineX ℝ) (K : Ell ℝ) (sk ck : ℝ) : ℝ :=
  K.deltaE (L.ssig1 * ck + L.csig1 * sk) (L.csig1 * ck - L.ssig1 * sk) (delta L.k2 L.kp2 (L.ssig1 * ck + L.csig1 * sk) (L.csig1 * ck - L.ssig1 * sk))

/-- arc mode: `GenPosition` is `tailX` on `σ12 = a12·degree`, the kernel pair `sincosd(a12)`, `E2 = deltaE(σ2)` and
    `s12 = b (E0 σ12 + E0 (E2 − E1))` -/
theorem genPositionX_arc (L : LineX ℝ) (K : Ell ℝ) (x sk ck : ℝ) (un : Bool) :
    genPositionX L K true x sk ck un =
      tailX L K un (x * degree) sk ck (E2arc L K sk ck) (L.b * (L.E0 * (x * degree) + L.E0 * (E2arc L K sk ck - L.E1))) x := by
  obtain ⟨a0, a1, a2⟩ := arcOfX_arc L K x sk ck
  show tailX L K un (arcOfX L K true x sk ck).1 (arcOfX L K true x sk ck).2.1 (arcOfX L K true x sk ck).2.2.1
    (K.deltaE (L.ssig1 * (arcOfX L K true x sk ck).2.2.1 + L.csig1 * (arcOfX L K true x sk ck).2.1) (L.csig1 * (arcOfX L K true x sk ck).2.2.1 - L.ssig1 * (arcOfX L K true x sk ck).2.1) _)
    (L.b * (L.E0 * (arcOfX L K true x sk ck).1 + L.E0 * (K.deltaE _ _ _ - L.E1))) x = _
  rw [a0, a1, a2]
  rfl

/-- the scaled distance `τ(σ) = σ + deltaE(sin σ, cos σ, Δ(σ))` that a kernel defines on a line (for the elliptic integral:
    `τ = E(σ)·(π/2)/E()`, and `b·E0·τ` is the distance from the node) -/
noncomputable def tauOf (L : LineX ℝ) (K : Ell ℝ) (σ : ℝ) : ℝ := σ + K.deltaE (sin σ) (cos σ) (delta L.k2 L.kp2 (sin σ) (cos σ))

/-- the kernel contract "`Einv` inverts `E`", in the form in which the line uses it:
    `deltaEinv(sin τ, cos τ) = σ − τ` whenever `τ = τ(σ)` -/
def EinvInvertsE (L : LineX ℝ) (K : Ell ℝ) : Prop := ∀ σ : ℝ, K.deltaEinv (sin (tauOf L K σ)) (cos (tauOf L K σ)) = σ - tauOf L K σ

theorem exEll_inverts : EinvInvertsE exLineX exEll := by
  intro σ; simp [tauOf, exEll]

/-! ### reduced length and geodesic scales: the algebra of the coded expressions -/

/-- with `dn_i² = 1 + k2 ssig_i²` the coded `t` is `dn2 − dn1` -/
theorem tf_eq (k2 ssig1 dn1 ssig2 dn2 : ℝ) (h1 : dn1 ^ 2 = 1 + k2 * ssig1 ^ 2) (h2 : dn2 ^ 2 = 1 + k2 * ssig2 ^ 2) (hd : dn1 + dn2 ≠ 0) :
    tf k2 ssig1 dn1 ssig2 dn2 = dn2 - dn1 := by
  unfold tf
  rw [div_eq_iff hd]
  linear_combination h1 - h2

/-- a point of a geodesic as the scale formulas see it: `(sin σ, cos σ)` on the unit circle and `dn = √(1 + k² sin²σ) > 0` -/
structure Pt (k2 : ℝ) (s c d : ℝ) : Prop where
  unit : s ^ 2 + c ^ 2 = 1
  dn : d ^ 2 = 1 + k2 * s ^ 2
  pos : 0 < d

theorem M12f_eq (k2 s1 c1 d1 s2 c2 d2 J : ℝ) (h1 : Pt k2 s1 c1 d1) (h2 : Pt k2 s2 c2 d2) :
    M12f k2 s1 d1 s2 c2 d2 (c1 * c2 + s1 * s2) J = c1 * c2 + s1 * s2 + ((d2 - d1) * s2 - c2 * J) * s1 / d1 := by
  unfold M12f
  rw [tf_eq k2 s1 d1 s2 d2 h1.dn h2.dn (by have := h1.pos; have := h2.pos; positivity)]

theorem M21f_eq (k2 s1 c1 d1 s2 c2 d2 J : ℝ) (h1 : Pt k2 s1 c1 d1) (h2 : Pt k2 s2 c2 d2) :
    M21f k2 s1 c1 d1 s2 d2 (c1 * c2 + s1 * s2) J = c1 * c2 + s1 * s2 - ((d2 - d1) * s1 - c1 * J) * s2 / d2 := by
  unfold M21f
  rw [tf_eq k2 s1 d1 s2 d2 h1.dn h2.dn (by have := h1.pos; have := h2.pos; positivity)]


/-! ### `DST::integral`: weights and the Clenshaw recurrence -/

/-- `Σ_j cs[j]/(2(k+j)+1) · cos((2(k+j)+1)x)` -/
noncomputable def dstSum (x : ℝ) : ℕ → List ℝ → ℝ
  | _, [] => 0
  | k, c :: cs => c / (2 * (k : ℝ) + 1) * cos ((2 * (k : ℝ) + 1) * x) + dstSum x (k + 1) cs

/-- the weights `F[i]/(2i+1)` -/
noncomputable def dstW : ℕ → List ℝ → List ℝ
  | _, [] => []
  | k, c :: cs => c / (2 * (k : ℝ) + 1) :: dstW (k + 1) cs

theorem dstW_eq (F : List ℝ) (k : ℕ) :
    ((List.range F.length).map fun i => F.getD i 0 / (RealLike.ofNat (2 * (i + k) + 1) : ℝ)) = dstW k F := by
  induction F generalizing k with
  | nil => simp [dstW]
  | cons c cs ih =>
    rw [List.length_cons, List.range_succ_eq_map, List.map_cons, List.map_map]
    simp only [dstW, List.getD_cons_zero, ofNat_real]
    congr 1
    · push_cast; ring
    · rw [← ih (k + 1)]
      apply List.map_congr_left
      intro i _
      simp only [Function.comp, List.getD_cons_succ, ofNat_real]
      congr 2
      omega

theorem cos_rec_odd (x : ℝ) (k : ℕ) :
    cos ((2 * ((k+1:ℕ):ℝ) + 1) * x) = 2 * cos (2*x) * cos ((2 * (k:ℝ) + 1) * x) - cos ((2 * (k:ℝ) - 1) * x) := by
  have h1 : (2 * ((k+1:ℕ):ℝ) + 1) * x = (2 * (k:ℝ) + 1) * x + 2 * x := by push_cast; ring
  have h2 : (2 * (k:ℝ) - 1) * x = (2 * (k:ℝ) + 1) * x - 2 * x := by ring
  rw [h1, h2, cos_add, cos_sub]; ring

theorem clen_cons (ar : ℝ) (c : ℝ) (cs : List ℝ) : clen ar (c :: cs) = (ar * (clen ar cs).1 - (clen ar cs).2 + c, (clen ar cs).1) := rfl

theorem clenshaw_dst (x : ℝ) (F : List ℝ) (k : ℕ) :
    dstSum x k F = (clen (2 * cos (2*x)) (dstW k F)).1 * cos ((2 * (k:ℝ) + 1) * x)
                 - (clen (2 * cos (2*x)) (dstW k F)).2 * cos ((2 * (k:ℝ) - 1) * x) := by
  induction F generalizing k with
  | nil => simp [dstSum, dstW, clen, ofNat_real]
  | cons c cs ih =>
    simp only [dstSum, dstW]
    rw [clen_cons, ih (k+1), cos_rec_odd x k]
    have : (2 * ((k+1:ℕ):ℝ) - 1) * x = (2 * (k:ℝ) + 1) * x := by push_cast; ring
    rw [this]; ring


/-! ### the authalic radius -/

/-- `asinh(e/√(1−e²)) = atanh(e)` for `0 < e < 1` -/
theorem arsinh_eq_atanh (e : ℝ) (h0 : 0 < e) (h1 : e < 1) :
    Real.arsinh (e / Real.sqrt (1 - e ^ 2)) = Real.log ((1 + e) / (1 - e)) / 2 := by
  have hm : 0 < 1 - e := by linarith
  have hp : 0 < 1 + e := by linarith
  have hq : 0 < 1 - e ^ 2 := by nlinarith
  have hs : 0 < Real.sqrt (1 - e ^ 2) := Real.sqrt_pos.mpr hq
  rw [Real.arsinh]
  have h1x : 1 + (e / Real.sqrt (1 - e ^ 2)) ^ 2 = (1 / Real.sqrt (1 - e ^ 2)) ^ 2 := by
    rw [div_pow, div_pow, Real.sq_sqrt hq.le]; field_simp; ring
  rw [h1x, Real.sqrt_sq (by positivity)]
  have : e / Real.sqrt (1 - e ^ 2) + 1 / Real.sqrt (1 - e ^ 2) = Real.sqrt ((1 + e) / (1 - e)) := by
    rw [← add_div]
    have hfac : 1 - e ^ 2 = (1 + e) * (1 - e) := by ring
    rw [hfac, Real.sqrt_mul hp.le, Real.sqrt_div hp.le]
    have hsp : 0 < Real.sqrt (1 + e) := Real.sqrt_pos.mpr hp
    have hsm : 0 < Real.sqrt (1 - e) := Real.sqrt_pos.mpr hm
    rw [div_eq_div_iff (by positivity) (by positivity)]
    have : (e + 1) = Real.sqrt (1 + e) * Real.sqrt (1 + e) := by rw [Real.mul_self_sqrt hp.le]; ring
    rw [this]; ring
  rw [this, Real.log_sqrt (by positivity)]


end GeoVerif.Proofs.GeodLineX
