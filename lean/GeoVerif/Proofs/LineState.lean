import GeoVerif.Model.LineState
/-! Lemmas on the third-point state machine (`Model/LineState.lean`) used by `Props/C12.lean`. -/
namespace GeoVerif.LineState
open GeoVerif.Mask

variable {α : Type}

@[simp] theorem setDistance_caps (e : Enum) (K : Kern α) (st : St α) (s : α) : (setDistance e K st s).caps = st.caps := rfl
@[simp] theorem setArc_caps (e : Enum) (K : Kern α) (st : St α) (a : α) : (setArc e K st a).caps = st.caps := rfl

@[simp] theorem step_caps (e : Enum) (K : Kern α) (st : St α) (o : Op α) : (step e K st o).caps = st.caps := by
  cases o with
  | setDistance s => rfl
  | setArc a => rfl
  | genSetDistance am x => cases am <;> rfl

/-- a setter does not look at the third point it replaces -/
theorem step_forgets (e : Enum) (K : Kern α) (st : St α) (o : Op α) :
    step e K st o = step e K (fresh K st.caps) o := by
  cases o with
  | setDistance s => rfl
  | setArc a => rfl
  | genSetDistance am x => cases am <;> rfl

theorem run_caps (e : Enum) (K : Kern α) (st : St α) (h : List (Ev α)) : (run e K st h).1.caps = st.caps := by
  induction h generalizing st with
  | nil => rfl
  | cons ev t ih =>
    cases ev with
    | set o => simp only [run]; rw [ih, step_caps]
    | get r => simp only [run]; exact ih st
    | copy => simp only [run]; exact ih st

theorem run_append (e : Enum) (K : Kern α) (st : St α) (h1 h2 : List (Ev α)) :
    run e K st (h1 ++ h2) = ((run e K (run e K st h1).1 h2).1, (run e K st h1).2 ++ (run e K (run e K st h1).1 h2).2) := by
  induction h1 generalizing st with
  | nil => simp [run]
  | cons ev t ih =>
    cases ev with
    | set o => simp only [List.cons_append, run]; exact ih _
    | get r => simp only [List.cons_append, run]; rw [ih]
    | copy => simp only [List.cons_append, run]; exact ih _

/-- the state after a history, in closed form -/
theorem run_state (e : Enum) (K : Kern α) (st : St α) (h : List (Ev α)) :
    (run e K st h).1 = fromLastSet e K st h := by
  induction h generalizing st with
  | nil => rfl
  | cons ev t ih =>
    cases ev with
    | set o =>
      simp only [run, fromLastSet, lastSet]
      rw [ih]
      unfold fromLastSet
      cases hl : lastSet t with
      | none => simp only []; exact step_forgets e K st o
      | some o' => simp only [step_caps]
    | get r => simp only [run, fromLastSet, lastSet]; exact ih st
    | copy => simp only [run, fromLastSet, lastSet]; exact ih st

theorem lineCaps_ne_zero (e : Enum) (he : e = geod ∨ e = geodx) (caps : Nat) : lineCaps e caps ≠ 0 := by
  intro h
  have : (lineCaps e caps).testBit 7 = true := by
    unfold lineCaps; simp only [Nat.testBit_or]
    have : e.latitude.testBit 7 = true := by rcases he with rfl | rfl <;> decide
    simp [this]
  rw [h] at this; simp at this

end GeoVerif.LineState
