import Mathlib.Tactic.Ring
import Mathlib.Tactic.LinearCombination
import Mathlib.Tactic.FieldSimp
import Mathlib.Tactic.Positivity
import Mathlib.Tactic.Linarith
import Mathlib.Analysis.SpecialFunctions.Pow.Real
import Mathlib.Analysis.SpecialFunctions.Trigonometric.Basic
/-!
# Vermeille's closed-form geocentric → geodetic conversion: the algebra
(used by `Props/C07.lean`)
-/
namespace GeoVerif.Vermeille

/-- the algebraic heart of Vermeille's method: Ferrari's resolvent -/
theorem vermeille_quartic (p q e2 u v w k : ℝ)
    (h1 : u ^ 3 - 3 * ((p + q - e2 ^ 2) / 6) * u ^ 2 = e2 ^ 2 * p * q / 2)
    (h2 : v ^ 2 = u ^ 2 + e2 ^ 2 * q)
    (h4 : 2 * v * w = e2 * (u + v - q))
    (h3 : k ^ 2 + 2 * w * k = u + v) (hv : v ≠ 0) :
    k ^ 2 * (k + e2) ^ 2 - p * k ^ 2 - q * (k + e2) ^ 2 = 0 := by
  have key : v ^ 2 * (k ^ 2 * (k + e2) ^ 2 - p * k ^ 2 - q * (k + e2) ^ 2) = 0 := by
    linear_combination (v ^ 2 * (k ^ 2 + e2 * k - u - (2 * w - e2) * k + v)) * h3
      + (k ^ 2 * (2 * v * w - e2 * (u + v - q)) + 2 * e2 * (u - q) * k ^ 2 - 2 * v ^ 2 * k) * h4
      + (2 * k ^ 2) * h1 + (v ^ 2 - (e2 ^ 2 - 2 * u + (p + q - e2 ^ 2)) * k ^ 2) * h2
  rcases mul_eq_zero.mp key with h | h
  · exact absurd (pow_eq_zero_iff (by norm_num) |>.mp h) hv
  · exact h

/-- Cardano: `u = r + T + r²/T` with `T³ = S + r³ + D`, `D² = S(2r³ + S)` solves `u³ − 3r u² = 2S` -/
theorem vermeille_cubic (r S D T : ℝ) (hT : T ^ 3 = S + r ^ 3 + D) (hD : D ^ 2 = S * (2 * r ^ 3 + S)) (hT0 : T ≠ 0) :
    (r + (T + r ^ 2 / T)) ^ 3 - 3 * r * (r + (T + r ^ 2 / T)) ^ 2 = 2 * S := by
  field_simp
  linear_combination (T ^ 3 - (S + r ^ 3) + D) * hT + hD

/-- `k = uv/(√(uv + w²) + w) = √(uv + w²) − w` solves `k² + 2wk = uv` -/
theorem vermeille_k (uv w : ℝ) (huv : 0 < uv) (hw : 0 ≤ w) :
    let k := uv / (Real.sqrt (uv + w ^ 2) + w)
    k ^ 2 + 2 * w * k = uv ∧ 0 < k := by
  intro k
  have hs : 0 ≤ uv + w ^ 2 := by positivity
  have hsq := Real.sq_sqrt hs
  have hspos : 0 < Real.sqrt (uv + w ^ 2) := Real.sqrt_pos.mpr (by positivity)
  have hden : 0 < Real.sqrt (uv + w ^ 2) + w := by linarith
  have hk : k = Real.sqrt (uv + w ^ 2) - w := by
    show uv / (Real.sqrt (uv + w ^ 2) + w) = _
    rw [div_eq_iff hden.ne']; linear_combination -hsq
  constructor
  · rw [hk]; linear_combination hsq
  · exact div_pos huv hden

/-- once `k` solves the quartic, the reverse formulas close: the forward image of the computed `(φ, h)` is `(R, Z)` -/
theorem vermeille_closure (a e2 R Z k : ℝ) (ha : 0 < a) (hk : 0 < k) (hk2 : 0 < k + e2)
    (hq : (R / a) ^ 2 / (k + e2) ^ 2 + (1 - e2) * (Z / a) ^ 2 / k ^ 2 = 1) (hpos : R ≠ 0 ∨ Z ≠ 0) :
    let H := Real.sqrt ((Z / k) ^ 2 + (R / (k + e2)) ^ 2)
    let sphi := (Z / k) / H
    let cphi := (R / (k + e2)) / H
    let d := k * R / (k + e2)
    let h := (1 - (1 - e2) / k) * Real.sqrt (d ^ 2 + Z ^ 2)
    let n := a / Real.sqrt (1 - e2 * sphi ^ 2)
    (n + h) * cphi = R ∧ ((1 - e2) * n + h) * sphi = Z := by
  intro H sphi cphi d h n
  have hH2pos : 0 < (Z / k) ^ 2 + (R / (k + e2)) ^ 2 := by
    rcases hpos with h0 | h0
    · have : 0 < (R / (k + e2)) ^ 2 := by positivity
      positivity
    · have : 0 < (Z / k) ^ 2 := by positivity
      positivity
  have hHpos : 0 < H := Real.sqrt_pos.mpr hH2pos
  have hH2 : H ^ 2 = (Z / k) ^ 2 + (R / (k + e2)) ^ 2 := Real.sq_sqrt hH2pos.le
  -- 1 − e2 sin²φ = a²/H²
  have hq' : (R / (k + e2)) ^ 2 + (1 - e2) * (Z / k) ^ 2 = a ^ 2 := by
    have := hq; field_simp at this ⊢; linarith
  have h1 : 1 - e2 * sphi ^ 2 = (a / H) ^ 2 := by
    show 1 - e2 * ((Z / k) / H) ^ 2 = (a / H) ^ 2
    field_simp
    have : H ^ 2 - e2 * (Z / k) ^ 2 = a ^ 2 := by rw [hH2]; linarith
    field_simp at this; linarith
  have hn : n = H := by
    show a / Real.sqrt (1 - e2 * sphi ^ 2) = H
    rw [h1, Real.sqrt_sq (by positivity)]; field_simp
  -- hypot(d, Z) = k H
  have h2 : Real.sqrt (d ^ 2 + Z ^ 2) = k * H := by
    have : d ^ 2 + Z ^ 2 = (k * H) ^ 2 := by
      show (k * R / (k + e2)) ^ 2 + Z ^ 2 = (k * H) ^ 2
      rw [mul_pow, hH2]; field_simp; ring
    rw [this, Real.sqrt_sq (by positivity)]
  have hh : h = (k - (1 - e2)) * H := by
    show (1 - (1 - e2) / k) * Real.sqrt (d ^ 2 + Z ^ 2) = _
    rw [h2]; field_simp
  constructor
  · rw [hn, hh]; show (H + (k - (1 - e2)) * H) * ((R / (k + e2)) / H) = R; field_simp; ring
  · rw [hn, hh]; show ((1 - e2) * H + (k - (1 - e2)) * H) * ((Z / k) / H) = Z; field_simp; ring

/-- trigonometric form of the resolvent's root (three real roots, `r < 0`): with `cos θ = (S + r³)/r³`,
`u = r (1 + 2 cos(θ/3))` solves `u³ − 3r u² = 2S` (`cos 3x = 4cos³x − 3cos x`) -/
theorem vermeille_cubic_trig (r S θ : ℝ) (hcos : Real.cos θ * r ^ 3 = S + r ^ 3) :
    (r + 2 * r * Real.cos (θ / 3)) ^ 3 - 3 * r * (r + 2 * r * Real.cos (θ / 3)) ^ 2 = 2 * S := by
  have h3 : Real.cos θ = 4 * Real.cos (θ / 3) ^ 3 - 3 * Real.cos (θ / 3) := by
    have := Real.cos_three_mul (θ / 3)
    rwa [show 3 * (θ / 3) = θ by ring] at this
  rw [h3] at hcos
  linear_combination 2 * hcos

end GeoVerif.Vermeille
