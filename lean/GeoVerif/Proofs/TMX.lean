import GeoVerif.Model.TMExact
import GeoVerif.Spec.RealInst
import Mathlib.Tactic.Ring
import Mathlib.Tactic.LinearCombination
import Mathlib.Tactic.FieldSimp
import Mathlib.Tactic.Positivity
/-!
# Lemmas for the exact transverse Mercator model (`Model/TMExact.lean`); property theorems are restated in `Props/C06.lean`

1. the Newton loop shared by `zetainv` / `sigmainv`, for *every* step function (hence for every elliptic-function kernel), over
   any number type: the result is an iterate of the Newton map, the iteration cap, what an exit through the convergence test
   means, what an exit at the cap means;
2. over `ℝ`: the squared length of the Newton correction is the squared residual of the forward map in the metric `|dw/dζ|²`;
3. over `ℝ`, with the Jacobi functions abstract (only `sn² + cn² = 1`, `dn² + k² sn² = 1` assumed): the closed forms as coded are Lee's
   (1976) formulas — `zeta` (54.17), `dwdzeta` (54.21), `dwdsigma` (55.9), the rewritings used in `sigma` and `Scale`.
-/
namespace GeoVerif.Proofs.TMX
open GeoVerif GeoVerif.TMX

section Loop
variable {α : Type} [RealLike α]

/-- one Newton step at index `i` -/
def nstep (step : Nat → α → α → α × α) (i : Nat) (w : α × α) : α × α :=
  (w.1 - (step i w.1 w.2).1, w.2 - (step i w.1 w.2).2)

/-- the `n`-th Newton iterate starting at index `i` -/
def iterate (step : Nat → α → α → α × α) : Nat → Nat → α × α → α × α
  | 0, _, w => w
  | n + 1, i, w => iterate step n (i + 1) (nstep step i w)

/-- squared length of the correction at index `i` -/
def len2 (step : Nat → α → α → α × α) (i : Nat) (w : α × α) : α :=
  RealLike.sq (step i w.1 w.2).1 + RealLike.sq (step i w.1 w.2).2

/-- the test `delw2 >= thr` at the `m`-th iterate -/
def long (step : Nat → α → α → α × α) (thr : α) (i : Nat) (w : α × α) (m : Nat) : Bool :=
  RealLike.leb thr (len2 step (i + m) (iterate step m i w))

theorem iterate_succ (step : Nat → α → α → α × α) (n i : Nat) (w : α × α) :
    iterate step (n + 1) i w = nstep step (i + n) (iterate step n i w) := by
  induction n generalizing i w with
  | zero => rfl
  | succ n ih =>
    show iterate step (n + 1) (i + 1) (nstep step i w) = _
    rw [ih (i + 1) (nstep step i w)]
    show _ = nstep step (i + (n + 1)) (iterate step n (i + 1) (nstep step i w))
    congr 1
    omega

/-- **the result is a Newton iterate and the cap holds** (any step function, any starting `trip`) -/
theorem newton_iterate (step : Nat → α → α → α × α) (thr : α) (fuel i : Nat) (trip : Bool) (u v : α) :
    let r := newton step thr fuel i trip u v
    i ≤ r.steps ∧ r.steps ≤ i + fuel ∧ (r.u, r.v) = iterate step (r.steps - i) i (u, v) := by
  induction fuel generalizing i trip u v with
  | zero => simp [newton, iterate]
  | succ fuel ih =>
    cases trip with
    | true =>
      simp only [newton, if_true]
      refine ⟨by omega, by omega, ?_⟩
      have : i + 1 - i = 1 := by omega
      rw [this]; rfl
    | false =>
      simp only [newton]
      have h := ih (i + 1) (!(RealLike.leb thr (RealLike.sq (step i u v).1 + RealLike.sq (step i u v).2))) (u - (step i u v).1) (v - (step i u v).2)
      obtain ⟨h1, h2, h3⟩ := h
      refine ⟨by simp only [Bool.false_eq_true, if_false]; omega, by simp only [Bool.false_eq_true, if_false]; omega, ?_⟩
      simp only [Bool.false_eq_true, if_false]
      rw [h3]
      set r := newton step thr fuel (i + 1) (!(RealLike.leb thr (RealLike.sq (step i u v).1 + RealLike.sq (step i u v).2))) (u - (step i u v).1) (v - (step i u v).2) with hr
      have : r.steps - i = (r.steps - (i + 1)) + 1 := by omega
      rw [this]
      rfl

/-- started with `trip = true` the loop takes exactly one more step (if any fuel is left) -/
theorem newton_tripped (step : Nat → α → α → α × α) (thr : α) (fuel i : Nat) (u v : α) :
    let r := newton step thr (fuel + 1) i true u v
    r.steps = i + 1 ∧ r.brk = true ∧ (r.u, r.v) = nstep step i (u, v) := by
  simp [newton, nstep]

/-- **exit through the convergence test**: if the loop is left by `if (trip) break`, then some iterate `m` had a correction that is *not*
    `≥ thr` (all earlier ones were), exactly one further step was taken after it, and `m + 2 ≤ fuel` -/
theorem newton_break (step : Nat → α → α → α × α) (thr : α) (fuel i : Nat) (u v : α)
    (hb : (newton step thr fuel i false u v).brk = true) :
    ∃ m, (newton step thr fuel i false u v).steps = i + m + 2 ∧ m + 2 ≤ fuel ∧
      long step thr i (u, v) m = false ∧ (∀ m' < m, long step thr i (u, v) m' = true) ∧
      ((newton step thr fuel i false u v).u, (newton step thr fuel i false u v).v) = iterate step (m + 2) i (u, v) := by
  induction fuel generalizing i u v with
  | zero => simp [newton] at hb
  | succ fuel ih =>
    simp only [newton, Bool.false_eq_true, if_false] at hb ⊢
    by_cases hl : RealLike.leb thr (RealLike.sq (step i u v).1 + RealLike.sq (step i u v).2) = true
    · -- a long step: continue untripped
      simp only [hl, Bool.not_true] at hb ⊢
      obtain ⟨m, h1, h2, h3, h4, h5⟩ := ih (i + 1) (u - (step i u v).1) (v - (step i u v).2) hb
      refine ⟨m + 1, by omega, by omega, ?_, ?_, ?_⟩
      · have : long step thr i (u, v) (m + 1) = long step thr (i + 1) (nstep step i (u, v)) m := by
          unfold long; simp only [iterate]; congr 2; omega
        rw [this]; exact h3
      · intro m' hm'
        cases m' with
        | zero => simpa [long, len2, iterate] using hl
        | succ m' =>
          have : long step thr i (u, v) (m' + 1) = long step thr (i + 1) (nstep step i (u, v)) m' := by
            unfold long; simp only [iterate]; congr 2; omega
          rw [this]; exact h4 m' (by omega)
      · rw [h5]; rfl
    · -- a short step: trip
      have hl' : RealLike.leb thr (RealLike.sq (step i u v).1 + RealLike.sq (step i u v).2) = false := by
        cases h : RealLike.leb thr (RealLike.sq (step i u v).1 + RealLike.sq (step i u v).2) <;> simp_all
      simp only [hl', Bool.not_false] at hb ⊢
      cases fuel with
      | zero => simp [newton] at hb
      | succ fuel =>
        refine ⟨0, by simp [newton], by omega, by simpa [long, len2, iterate] using hl', by intro m' hm'; omega, ?_⟩
        simp [newton, iterate, nstep]

/-- **exit at the cap**: if the loop is not left through the convergence test, all `fuel` steps were taken (silent exit: for binary64
    `GEOGRAPHICLIB_PANIC` is `false`), and every correction tested before the last step was `≥ thr` -/
theorem newton_cap (step : Nat → α → α → α × α) (thr : α) (fuel i : Nat) (u v : α)
    (hb : (newton step thr fuel i false u v).brk = false) :
    (newton step thr fuel i false u v).steps = i + fuel ∧ (∀ m, m + 1 < fuel → long step thr i (u, v) m = true) ∧
    ((newton step thr fuel i false u v).trip = true → 0 < fuel ∧ long step thr i (u, v) (fuel - 1) = false) := by
  induction fuel generalizing i u v with
  | zero => simp [newton]
  | succ fuel ih =>
    simp only [newton, Bool.false_eq_true, if_false] at hb ⊢
    by_cases hl : RealLike.leb thr (RealLike.sq (step i u v).1 + RealLike.sq (step i u v).2) = true
    · simp only [hl, Bool.not_true] at hb ⊢
      obtain ⟨h1, h2, h3⟩ := ih (i + 1) (u - (step i u v).1) (v - (step i u v).2) hb
      refine ⟨by omega, ?_, ?_⟩
      · intro m hm
        cases m with
        | zero => simpa [long, len2, iterate] using hl
        | succ m =>
          have : long step thr i (u, v) (m + 1) = long step thr (i + 1) (nstep step i (u, v)) m := by
            unfold long; simp only [iterate]; congr 2; omega
          rw [this]; exact h2 m (by omega)
      · intro ht
        obtain ⟨hf, hlast⟩ := h3 ht
        refine ⟨by omega, ?_⟩
        have e1 : fuel + 1 - 1 = (fuel - 1) + 1 := by omega
        have : long step thr i (u, v) ((fuel - 1) + 1) = long step thr (i + 1) (nstep step i (u, v)) (fuel - 1) := by
          unfold long; simp only [iterate]; congr 2; omega
        rw [e1, this]; exact hlast
    · have hl' : RealLike.leb thr (RealLike.sq (step i u v).1 + RealLike.sq (step i u v).2) = false := by
        cases h : RealLike.leb thr (RealLike.sq (step i u v).1 + RealLike.sq (step i u v).2) <;> simp_all
      simp only [hl', Bool.not_false] at hb ⊢
      cases fuel with
      | zero =>
        refine ⟨by simp [newton], by intro m hm; omega, ?_⟩
        intro _
        exact ⟨by omega, by simpa [long, len2, iterate] using hl'⟩
      | succ fuel => simp [newton] at hb

end Loop


/-! ## 2. the real-number reading -/

@[simp] theorem sinh_real (x : ℝ) : RealLike.sinh x = Real.sinh x := rfl
@[simp] theorem asinh_real (x : ℝ) : RealLike.asinh x = Real.arsinh x := rfl
theorem atan2_real (y x : ℝ) : RealLike.atan2 y x = Complex.arg ⟨x, y⟩ := rfl
@[simp] theorem zero_real : (RealLike.ofNat 0 : ℝ) = 0 := by simp [ofNat_real]
@[simp] theorem one_real : (@OfNat.ofNat ℝ 1 RealLike.Lits.instLit) = 1 := by show ((1 : ℕ) : ℝ) = 1; norm_num
@[simp] theorem two_real : (@OfNat.ofNat ℝ 2 RealLike.Lits.instLit) = 2 := by show ((2 : ℕ) : ℝ) = 2; norm_num

theorem max_real (x y : ℝ) : RealLike.max x y = max x y := rfl
theorem ofDec_real (n k : ℕ) : (RealLike.ofDec n k : ℝ) = (n : ℝ) / 10 ^ k := rfl
theorem atan2_zero_pos (x : ℝ) (hx : 0 < x) : RealLike.atan2 (0 : ℝ) x = 0 := by
  rw [atan2_real]
  have : (⟨x, 0⟩ : ℂ) = (x : ℂ) := by apply Complex.ext <;> simp
  rw [this, Complex.arg_ofReal_of_nonneg hx.le]

/-- inverse hyperbolic tangent as `RealLike.atanh` reads it over `ℝ` -/
noncomputable def artanh (x : ℝ) : ℝ := Real.log ((1 + x) / (1 - x)) / 2

theorem atanh_real (x : ℝ) : RealLike.atanh x = artanh x := rfl

/-- `asinh(x/√(1 − x²)) = atanh x` — the rewriting of Lee 54.17 that `zeta` uses (stated in its comment) -/
theorem arsinh_div_sqrt (x : ℝ) (h1 : -1 < x) (h2 : x < 1) : Real.arsinh (x / Real.sqrt (1 - x ^ 2)) = artanh x := by
  have ha : 0 < 1 + x := by linarith
  have hb : 0 < 1 - x := by linarith
  set a := Real.sqrt (1 + x) with ha'
  set b := Real.sqrt (1 - x) with hb'
  have a2 : a ^ 2 = 1 + x := Real.sq_sqrt ha.le
  have b2 : b ^ 2 = 1 - x := Real.sq_sqrt hb.le
  have apos : 0 < a := Real.sqrt_pos.mpr ha
  have bpos : 0 < b := Real.sqrt_pos.mpr hb
  have hs : Real.sqrt (1 - x ^ 2) = a * b := by
    have : 1 - x ^ 2 = (1 + x) * (1 - x) := by ring
    rw [this, Real.sqrt_mul ha.le]
  have hE : Real.exp (artanh x) = a / b := by
    have hpos : 0 < Real.exp (artanh x) := Real.exp_pos _
    have hsq : Real.exp (artanh x) ^ 2 = (1 + x) / (1 - x) := by
      rw [← Real.exp_nat_mul]
      have : ((2 : ℕ) : ℝ) * artanh x = Real.log ((1 + x) / (1 - x)) := by unfold artanh; push_cast; ring
      rw [this, Real.exp_log (div_pos ha hb)]
    have h2' : (a / b) ^ 2 = (1 + x) / (1 - x) := by rw [div_pow, a2, b2]
    have hab : 0 < a / b := div_pos apos bpos
    nlinarith [sq_nonneg (Real.exp (artanh x) - a / b), sq_nonneg (Real.exp (artanh x) + a / b), hsq, h2', hpos, hab]
  have hsinh : Real.sinh (artanh x) = x / Real.sqrt (1 - x ^ 2) := by
    rw [Real.sinh_eq, Real.exp_neg, hE, hs]
    field_simp
    nlinarith [a2, b2]
  rw [← hsinh, Real.arsinh_sinh]

theorem sqrt_one_add_sinh_sq (y : ℝ) : Real.sqrt (1 ^ 2 + Real.sinh y ^ 2) = Real.cosh y := by
  have : 1 ^ 2 + Real.sinh y ^ 2 = Real.cosh y ^ 2 := by rw [Real.cosh_sq y]; ring
  rw [this, Real.sqrt_sq (Real.cosh_pos y).le]

/-- `t₁·√(1 + t₂²) − t₂·√(1 + t₁²) = sinh(asinh t₁ − asinh t₂)`: the cancellation-free form of `sinh ψ` in `zeta` -/
theorem sinh_diff_form (t1 t2 : ℝ) :
    t1 * Real.sqrt (1 ^ 2 + t2 ^ 2) - t2 * Real.sqrt (1 ^ 2 + t1 ^ 2) = Real.sinh (Real.arsinh t1 - Real.arsinh t2) := by
  have h1 : t1 = Real.sinh (Real.arsinh t1) := (Real.sinh_arsinh t1).symm
  have h2 : t2 = Real.sinh (Real.arsinh t2) := (Real.sinh_arsinh t2).symm
  conv_lhs => rw [h1, h2]
  rw [sqrt_one_add_sinh_sq, sqrt_one_add_sinh_sq, Real.sinh_sub]
  ring

/-- the algebraic relations between the Jacobi functions of `u | e²` and `v | 1 − e²` — all that is assumed about them -/
structure JacobiRel (mu : ℝ) (j : Jac ℝ) : Prop where
  u1 : j.snu ^ 2 + j.cnu ^ 2 = 1
  u2 : j.dnu ^ 2 + mu * j.snu ^ 2 = 1
  v1 : j.snv ^ 2 + j.cnv ^ 2 = 1
  v2 : j.dnv ^ 2 + (1 - mu) * j.snv ^ 2 = 1

/-- constructor state over `ℝ` with `_mv = 1 − _mu`, `_e = √_mu` -/
structure ParOK (p : Par ℝ) : Prop where
  mv : p.mv = 1 - p.mu
  e2 : p.e ^ 2 = p.mu
  e0 : 0 ≤ p.e

theorem zeta_den1 (p : Par ℝ) (hp : ParOK p) (j : Jac ℝ) (hj : JacobiRel p.mu j) :
    RealLike.sq j.cnu + p.mv * RealLike.sq (j.snu * j.snv) = 1 - (j.snu * j.dnv) ^ 2 := by
  simp only [sq_real, hp.mv]
  linear_combination hj.u1 + j.snu ^ 2 * hj.v2

theorem zeta_den2 (p : Par ℝ) (hp : ParOK p) (j : Jac ℝ) (hj : JacobiRel p.mu j) :
    p.mu * RealLike.sq j.cnu + p.mv * RealLike.sq j.cnv = j.dnv ^ 2 - p.mu * j.snu ^ 2 := by
  simp only [sq_real, hp.mv]
  linear_combination p.mu * hj.u1 + (1 - p.mu) * hj.v1 - hj.v2

/-- **`zeta`, real part (Lee 54.17)**: `τ' = sinh ψ` with `ψ = atanh(sn u · dn v) − e·atanh(e · sn u / dn v)` -/
theorem zeta_taup_lee (p : Par ℝ) (hp : ParOK p) (j : Jac ℝ) (hj : JacobiRel p.mu j)
    (hdn : 0 < j.dnv) (hx : |j.snu * j.dnv| < 1) (hy : |p.e * j.snu| < j.dnv) :
    (zeta p j).1 = Real.sinh (artanh (j.snu * j.dnv) - p.e * artanh (p.e * j.snu / j.dnv)) := by
  have hx' := abs_lt.mp hx
  have hy' := abs_lt.mp hy
  set x := j.snu * j.dnv with hxdef
  set X := p.e * j.snu / j.dnv with hXdef
  have hX1 : -1 < X := by rw [hXdef, lt_div_iff₀ hdn]; linarith [hy'.1]
  have hX2 : X < 1 := by rw [hXdef, div_lt_iff₀ hdn]; linarith [hy'.2]
  have d1sq : RealLike.sq j.cnu + p.mv * RealLike.sq (j.snu * j.snv) = 1 - x ^ 2 := zeta_den1 p hp j hj
  have d2sq : p.mu * RealLike.sq j.cnu + p.mv * RealLike.sq j.cnv = j.dnv ^ 2 * (1 - X ^ 2) := by
    rw [zeta_den2 p hp j hj, hXdef, ← hp.e2]
    field_simp
  have hpos1 : 0 < 1 - x ^ 2 := by nlinarith [hx'.1, hx'.2]
  have hpos2 : 0 < 1 - X ^ 2 := by nlinarith [hX1, hX2]
  have hd1 : Real.sqrt (1 - x ^ 2) ≠ 0 := (Real.sqrt_pos.mpr hpos1).ne'
  have hd2s : Real.sqrt (j.dnv ^ 2 * (1 - X ^ 2)) = j.dnv * Real.sqrt (1 - X ^ 2) := by
    rw [Real.sqrt_mul (sq_nonneg _), Real.sqrt_sq hdn.le]
  have hd2 : j.dnv * Real.sqrt (1 - X ^ 2) ≠ 0 := mul_ne_zero hdn.ne' (Real.sqrt_pos.mpr hpos2).ne'
  have harg : p.e * j.snu / (j.dnv * Real.sqrt (1 - X ^ 2)) = X / Real.sqrt (1 - X ^ 2) := by
    rw [hXdef]; field_simp
  simp only [zeta, sqrt_real, d1sq, d2sq, hd2s, eqb_real, zero_real, hd1, hd2, decide_false, Bool.not_false, if_true, hypot_real, one_real,
    sinh_real, asinh_real, harg]
  rw [sinh_diff_form, Real.arsinh_sinh, arsinh_div_sqrt x hx'.1 hx'.2, arsinh_div_sqrt X hX1 hX2]

/-- **`zeta`, imaginary part (Lee 54.17)**: `λ = arg(cn u cn v + i dn u sn v) − e·arg(dn u cn v + i e cn u sn v)` whenever neither
    denominator vanishes -/
theorem zeta_lam_lee (p : Par ℝ) (j : Jac ℝ)
    (h1 : Real.sqrt (RealLike.sq j.cnu + p.mv * RealLike.sq (j.snu * j.snv)) ≠ 0)
    (h2 : Real.sqrt (p.mu * RealLike.sq j.cnu + p.mv * RealLike.sq j.cnv) ≠ 0) :
    (zeta p j).2 = Complex.arg ⟨j.cnu * j.cnv, j.dnu * j.snv⟩ - p.e * Complex.arg ⟨j.dnu * j.cnv, p.e * j.cnu * j.snv⟩ := by
  simp only [zeta, sqrt_real, eqb_real, zero_real, h1, h2, decide_false, Bool.not_false, Bool.and_self, if_true, atan2_real]

/-! ### the complex Jacobi functions of `w = u + iv` by the addition theorem (A+S 16.21.2–4), as the code's comments use them -/

/-- common denominator `1 − dn²u sn²v = cn²v + e² sn²u sn²v` -/
def denW (mu : ℝ) (j : Jac ℝ) : ℝ := j.cnv ^ 2 + mu * (j.snu * j.snv) ^ 2
noncomputable def snW (mu : ℝ) (j : Jac ℝ) : ℂ := ⟨j.snu * j.dnv / denW mu j, j.cnu * j.dnu * j.snv * j.cnv / denW mu j⟩
noncomputable def cnW (mu : ℝ) (j : Jac ℝ) : ℂ := ⟨j.cnu * j.cnv / denW mu j, -(j.snu * j.dnu * j.snv * j.dnv) / denW mu j⟩
noncomputable def dnW (mu : ℝ) (j : Jac ℝ) : ℂ := ⟨j.dnu * j.cnv * j.dnv / denW mu j, -(mu * j.snu * j.cnu * j.snv) / denW mu j⟩

theorem denW_alt (mu : ℝ) (j : Jac ℝ) (hj : JacobiRel mu j) : denW mu j = 1 - j.dnu ^ 2 * j.snv ^ 2 := by
  unfold denW; linear_combination hj.v1 + j.snv ^ 2 * hj.u2

/-- `sn² w + cn² w = 1` and `dn² w + e² sn² w = 1` hold for the complex values as well (so `snW, cnW, dnW` are a consistent
    continuation) -/
theorem complex_jacobi_rel (mu : ℝ) (j : Jac ℝ) (hj : JacobiRel mu j) (hD : denW mu j ≠ 0) :
    snW mu j ^ 2 + cnW mu j ^ 2 = 1 ∧ dnW mu j ^ 2 + (mu : ℂ) * snW mu j ^ 2 = 1 := by
  have cu : j.cnu ^ 2 = 1 - j.snu ^ 2 := by linarith [hj.u1]
  have du : j.dnu ^ 2 = 1 - mu * j.snu ^ 2 := by linarith [hj.u2]
  have cv : j.cnv ^ 2 = 1 - j.snv ^ 2 := by linarith [hj.v1]
  have dv : j.dnv ^ 2 = 1 - (1 - mu) * j.snv ^ 2 := by linarith [hj.v2]
  have R1 : (j.snu * j.dnv) ^ 2 - (j.cnu * j.dnu * j.snv * j.cnv) ^ 2 + (j.cnu * j.cnv) ^ 2 - (j.snu * j.dnu * j.snv * j.dnv) ^ 2 = denW mu j ^ 2 := by
    unfold denW; simp only [mul_pow]; rw [cu, du, cv, dv]; ring
  have R2 : (j.dnu * j.cnv * j.dnv) ^ 2 - (mu * j.snu * j.cnu * j.snv) ^ 2 + mu * ((j.snu * j.dnv) ^ 2 - (j.cnu * j.dnu * j.snv * j.cnv) ^ 2) = denW mu j ^ 2 := by
    unfold denW; simp only [mul_pow]; rw [cu, du, cv, dv]; ring
  constructor
  · apply Complex.ext
    · simp only [snW, cnW, sq, Complex.add_re, Complex.mul_re, Complex.one_re]
      field_simp
      linear_combination R1
    · simp only [snW, cnW, sq, Complex.add_im, Complex.mul_im, Complex.one_im]
      field_simp
      ring
  · apply Complex.ext
    · simp only [snW, dnW, sq, Complex.add_re, Complex.mul_re, Complex.one_re, Complex.ofReal_re, Complex.ofReal_im, Complex.mul_im, zero_mul, sub_zero]
      field_simp
      linear_combination R2
    · simp only [snW, dnW, sq, Complex.add_im, Complex.mul_im, Complex.one_im, Complex.ofReal_re, Complex.ofReal_im, Complex.mul_re, zero_mul, add_zero]
      field_simp
      ring

/-- **Lee 54.17 over ℂ, imaginary part of `atanh(sn w)`**: `(1 + sn w)·conj(1 − sn w)·D = (cn u cn v + i dn u sn v)²`, `D > 0`, so
    `arg((1 + sn w)/(1 − sn w)) = 2·arg(cn u cn v + i dn u sn v)` modulo `2π`: the first `atan2` of `zeta` is `Im atanh(sn w)` -/
theorem lee_atanh_im (mu : ℝ) (j : Jac ℝ) (hj : JacobiRel mu j) (hD : denW mu j ≠ 0) :
    (1 + snW mu j) * (starRingEnd ℂ) (1 - snW mu j) * (denW mu j : ℂ) = (⟨j.cnu * j.cnv, j.dnu * j.snv⟩ : ℂ) ^ 2 := by
  have cu : j.cnu ^ 2 = 1 - j.snu ^ 2 := by linarith [hj.u1]
  have du : j.dnu ^ 2 = 1 - mu * j.snu ^ 2 := by linarith [hj.u2]
  have cv : j.cnv ^ 2 = 1 - j.snv ^ 2 := by linarith [hj.v1]
  have dv : j.dnv ^ 2 = 1 - (1 - mu) * j.snv ^ 2 := by linarith [hj.v2]
  have C1 : denW mu j ^ 2 - (j.snu * j.dnv) ^ 2 - (j.cnu * j.dnu * j.snv * j.cnv) ^ 2 = denW mu j * ((j.cnu * j.cnv) ^ 2 - (j.dnu * j.snv) ^ 2) := by
    unfold denW; simp only [mul_pow]; rw [cu, du, cv, dv]; ring
  apply Complex.ext
  · simp only [snW, sq, Complex.mul_re, Complex.mul_im, Complex.add_re, Complex.add_im, Complex.sub_re, Complex.sub_im, Complex.one_re, Complex.one_im,
      Complex.conj_re, Complex.conj_im, Complex.ofReal_re, Complex.ofReal_im]
    field_simp
    linear_combination (denW mu j) * C1
  · simp only [snW, sq, Complex.mul_re, Complex.mul_im, Complex.add_re, Complex.add_im, Complex.sub_re, Complex.sub_im, Complex.one_re, Complex.one_im,
      Complex.conj_re, Complex.conj_im, Complex.ofReal_re, Complex.ofReal_im]
    field_simp
    ring

/-- **… real part**: `|1 + sn w|²·(1 − x)² = |1 − sn w|²·(1 + x)²` with `x = sn u · dn v`, i.e. `Re atanh(sn w) = atanh(sn u dn v)`, the first term
    of `ψ` in `zeta` -/
theorem lee_atanh_re (mu : ℝ) (j : Jac ℝ) (hj : JacobiRel mu j) (hD : denW mu j ≠ 0) :
    Complex.normSq (1 + snW mu j) * (1 - j.snu * j.dnv) ^ 2 = Complex.normSq (1 - snW mu j) * (1 + j.snu * j.dnv) ^ 2 := by
  have cu : j.cnu ^ 2 = 1 - j.snu ^ 2 := by linarith [hj.u1]
  have du : j.dnu ^ 2 = 1 - mu * j.snu ^ 2 := by linarith [hj.u2]
  have cv : j.cnv ^ 2 = 1 - j.snv ^ 2 := by linarith [hj.v1]
  have dv : j.dnv ^ 2 = 1 - (1 - mu) * j.snv ^ 2 := by linarith [hj.v2]
  -- with y² eliminated the identity is x·(D − 1)·(D + … ) …; prove it from the single relation y² = (1 − su)(1 − μ su) sv (1 − sv)
  have Y : (j.cnu * j.dnu * j.snv * j.cnv) ^ 2 = denW mu j * (1 + (j.snu * j.dnv) ^ 2) - denW mu j ^ 2 - (j.snu * j.dnv) ^ 2 := by
    unfold denW; simp only [mul_pow]; rw [cu, du, cv, dv]; ring
  simp only [snW, Complex.normSq_apply, Complex.add_re, Complex.add_im, Complex.sub_re, Complex.sub_im, Complex.one_re, Complex.one_im]
  field_simp
  have Y' := Y
  set x := j.snu * j.dnv
  set y := j.cnu * j.dnu * j.snv * j.cnv
  set D := denW mu j
  linear_combination (-4 * x) * Y'

/-- the same for the second term `e·atanh(e·sn w)`: `(1 + e sn w)·conj(1 − e sn w)·D = (dn u cn v + i e cn u sn v)²` -/
theorem lee_atanh_e_im (e mu : ℝ) (he : e ^ 2 = mu) (j : Jac ℝ) (hj : JacobiRel mu j) (hD : denW mu j ≠ 0) :
    (1 + (e : ℂ) * snW mu j) * (starRingEnd ℂ) (1 - (e : ℂ) * snW mu j) * (denW mu j : ℂ) = (⟨j.dnu * j.cnv, e * j.cnu * j.snv⟩ : ℂ) ^ 2 := by
  have cu : j.cnu ^ 2 = 1 - j.snu ^ 2 := by linarith [hj.u1]
  have du : j.dnu ^ 2 = 1 - mu * j.snu ^ 2 := by linarith [hj.u2]
  have cv : j.cnv ^ 2 = 1 - j.snv ^ 2 := by linarith [hj.v1]
  have dv : j.dnv ^ 2 = 1 - (1 - mu) * j.snv ^ 2 := by linarith [hj.v2]
  have C2 : denW mu j ^ 2 - mu * ((j.snu * j.dnv) ^ 2 + (j.cnu * j.dnu * j.snv * j.cnv) ^ 2) = denW mu j * ((j.dnu * j.cnv) ^ 2 - mu * (j.cnu * j.snv) ^ 2) := by
    unfold denW; simp only [mul_pow]; rw [cu, du, cv, dv]; ring
  apply Complex.ext
  · simp only [snW, sq, Complex.mul_re, Complex.mul_im, Complex.add_re, Complex.add_im, Complex.sub_re, Complex.sub_im, Complex.one_re, Complex.one_im,
      Complex.conj_re, Complex.conj_im, Complex.ofReal_re, Complex.ofReal_im]
    field_simp
    linear_combination (denW mu j) * C2 + denW mu j * (denW mu j * (j.cnu * j.snv) ^ 2 - (j.snu * j.dnv) ^ 2 - (j.cnu * j.dnu * j.snv * j.cnv) ^ 2) * he
  · simp only [snW, sq, Complex.mul_re, Complex.mul_im, Complex.add_re, Complex.add_im, Complex.sub_re, Complex.sub_im, Complex.one_re, Complex.one_im,
      Complex.conj_re, Complex.conj_im, Complex.ofReal_re, Complex.ofReal_im]
    field_simp
    ring

/-- **`dwdzeta` is Lee 54.21**: `du + i dv = cn w · dn w / (1 − e²)` (the derivative of `ζ = atanh(sn w) − e atanh(e sn w)` is
    `(1 − e²)/(cn w dn w)`) — an identity of rational functions, no relation between the six values is needed -/
theorem dwdzeta_lee (p : Par ℝ) (j : Jac ℝ) (hD : denW p.mu j ≠ 0) (hmv : p.mv ≠ 0) :
    (⟨(dwdzeta p j).1, (dwdzeta p j).2⟩ : ℂ) = cnW p.mu j * dnW p.mu j / (p.mv : ℂ) := by
  have hD' : j.cnv ^ 2 + p.mu * (j.snu * j.snv) ^ 2 ≠ 0 := hD
  rw [eq_div_iff (by exact_mod_cast hmv)]
  apply Complex.ext
  · simp only [dwdzeta, cnW, dnW, denW, sq_real, Complex.mul_re, Complex.ofReal_re, Complex.ofReal_im]
    field_simp
    ring
  · simp only [dwdzeta, cnW, dnW, denW, sq_real, Complex.mul_im, Complex.ofReal_re, Complex.ofReal_im]
    field_simp
    ring

/-- **`dwdsigma` is the reciprocal of Lee 55.9**: `du + i dv = dn² w / (1 − e²)` -/
theorem dwdsigma_lee (p : Par ℝ) (j : Jac ℝ) (hD : denW p.mu j ≠ 0) (hmv : p.mv ≠ 0) :
    (⟨(dwdsigma p j).1, (dwdsigma p j).2⟩ : ℂ) = dnW p.mu j ^ 2 / (p.mv : ℂ) := by
  have hD' : j.cnv ^ 2 + p.mu * (j.snu * j.snv) ^ 2 ≠ 0 := hD
  rw [eq_div_iff (by exact_mod_cast hmv)]
  apply Complex.ext
  · simp only [dwdsigma, dnW, denW, sq_real, sq, two_real, Complex.mul_re, Complex.ofReal_re, Complex.ofReal_im]
    field_simp
    ring
  · simp only [dwdsigma, dnW, denW, sq_real, sq, two_real, Complex.mul_im, Complex.ofReal_re, Complex.ofReal_im]
    field_simp
    ring

/-- the rewritings announced in the comments of `sigma` and `Scale`: `dn²u + dn²v − 1 = e² cn²u + (1 − e²) cn²v` and
    `1 − sn²u dn²v = (1 − e²) sn²v + cn²u dn²v` -/
theorem sigma_scale_rewrites (p : Par ℝ) (hp : ParOK p) (j : Jac ℝ) (hj : JacobiRel p.mu j) :
    p.mu * RealLike.sq j.cnu + p.mv * RealLike.sq j.cnv = j.dnu ^ 2 + j.dnv ^ 2 - 1 ∧
    p.mv * RealLike.sq j.snv + RealLike.sq (j.cnu * j.dnv) = 1 - j.snu ^ 2 * j.dnv ^ 2 := by
  simp only [sq_real, hp.mv]
  constructor
  · linear_combination p.mu * hj.u1 + (1 - p.mu) * hj.v1 - hj.u2 - hj.v2
  · linear_combination hj.v2 + j.dnv ^ 2 * hj.u1

/-! ### the Newton correction measures the residual of the forward map -/

/-- **`zetainv`**: the squared length of the correction is `|dw/dζ|²·((τ'(w) − τ')²·scal² + (λ(w) − λ)²)` -/
theorem zetaStep_len (p : Par ℝ) (E : Ell ℝ) (taup lam scal : ℝ) (i : ℕ) (u v : ℝ) :
    let j := E.am i u v
    RealLike.sq (zetaStep p E taup lam scal i u v).1 + RealLike.sq (zetaStep p E taup lam scal i u v).2 =
      ((dwdzeta p j).1 ^ 2 + (dwdzeta p j).2 ^ 2) * ((((zeta p j).1 - taup) * scal) ^ 2 + ((zeta p j).2 - lam) ^ 2) := by
  simp only [zetaStep, sq_real]; ring

/-- **`sigmainv`**: the squared length of the correction is `|dw/dσ|²·|σ(w) − (ξ + iη)|²` -/
theorem sigmaStep_len (p : Par ℝ) (E : Ell ℝ) (xi eta : ℝ) (i : ℕ) (u v : ℝ) :
    let j := E.am i u v
    let s := sigma p j v (E.einc i u v j)
    RealLike.sq (sigmaStep p E xi eta i u v).1 + RealLike.sq (sigmaStep p E xi eta i u v).2 =
      ((dwdsigma p j).1 ^ 2 + (dwdsigma p j).2 ^ 2) * ((s.1 - xi) ^ 2 + (s.2 - eta) ^ 2) := by
  simp only [sigmaStep, sq_real]; ring

/-! ### `zetainv` / `sigmainv` as wholes -/

section Whole
open GeoVerif.RealLike.Lits
variable {α : Type} [RealLike α]

/-- starting point, step function and threshold of `zetainv` as the code forms them -/
def zStart (p : Par α) (E : Ell α) (taup lam : α) : Start α := zetainv0 p E (RealLike.asinh taup) lam
def zStep (p : Par α) (E : Ell α) (taup lam : α) : Nat → α → α → α × α :=
  zetaStep p E taup lam ((1 : α) / RealLike.hypot (1 : α) taup)
def zThr (p : Par α) (taup : α) : α := p.tol2 / RealLike.sq (RealLike.max (RealLike.asinh taup) (1 : α))

theorem zetainv_unfold (p : Par α) (E : Ell α) (taup lam : α) (hnd : (zStart p E taup lam).done = false) :
    (zetainv p E taup lam).1 = newton (zStep p E taup lam) (zThr p taup) p.numit 0 false (zStart p E taup lam).u (zStart p E taup lam).v := by
  unfold zStart at hnd
  simp only [zetainv, hnd, zStep, zThr, zStart]
  rfl

/-- **iteration cap of `zetainv`** (every kernel, every number type) -/
theorem zetainv_cap (p : Par α) (E : Ell α) (taup lam : α) : (zetainv p E taup lam).1.steps ≤ p.numit := by
  by_cases hnd : (zStart p E taup lam).done = false
  · rw [zetainv_unfold p E taup lam hnd]
    have := (newton_iterate (zStep p E taup lam) (zThr p taup) p.numit 0 false (zStart p E taup lam).u (zStart p E taup lam).v).2.1
    simpa using this
  · have hd : (zetainv0 p E (RealLike.asinh taup) lam).done = true := by
      unfold zStart at hnd; simpa using hnd
    simp [zetainv, hd]

theorem sigmainv_unfold (p : Par α) (E : Ell α) (xi eta : α) (hnd : (sigmainv0 p E xi eta).done = false) :
    (sigmainv p E xi eta).1 = newton (sigmaStep p E xi eta) p.tol2 p.numit 0 false (sigmainv0 p E xi eta).u (sigmainv0 p E xi eta).v := by
  simp only [sigmainv, hnd]
  rfl

/-- **iteration cap of `sigmainv`** -/
theorem sigmainv_cap (p : Par α) (E : Ell α) (xi eta : α) : (sigmainv p E xi eta).1.steps ≤ p.numit := by
  by_cases hnd : (sigmainv0 p E xi eta).done = false
  · rw [sigmainv_unfold p E xi eta hnd]
    have := (newton_iterate (sigmaStep p E xi eta) p.tol2 p.numit 0 false (sigmainv0 p E xi eta).u (sigmainv0 p E xi eta).v).2.1
    simpa using this
  · have hd : (sigmainv0 p E xi eta).done = true := by simpa using hnd
    simp [sigmainv, hd]

end Whole

/-- **`zetainv` left through its convergence test** (over `ℝ`, every kernel): some Newton iterate `w_m` (`m + 2 ≤ numit_`) has a forward
    image whose residual, measured in the metric of the Newton step, `|dw/dζ|²·((τ'(w_m) − τ')²/(1 + τ'²) + (λ(w_m) − λ)²)`, is below
    `tol2_/max(ψ, 1)²`; all earlier iterates had not; the result is the iterate two steps later -/
theorem zetainv_converged (p : Par ℝ) (E : Ell ℝ) (taup lam : ℝ) (hnd : (zStart p E taup lam).done = false)
    (hb : (zetainv p E taup lam).1.brk = true) :
    ∃ m, m + 2 ≤ p.numit ∧ (zetainv p E taup lam).1.steps = m + 2 ∧
      (let w := iterate (zStep p E taup lam) m 0 ((zStart p E taup lam).u, (zStart p E taup lam).v)
       let j := E.am m w.1 w.2
       ((dwdzeta p j).1 ^ 2 + (dwdzeta p j).2 ^ 2) *
         ((((zeta p j).1 - taup) * (1 / Real.sqrt (1 ^ 2 + taup ^ 2))) ^ 2 + ((zeta p j).2 - lam) ^ 2) < zThr p taup) ∧
      (∀ m' < m, long (zStep p E taup lam) (zThr p taup) 0 ((zStart p E taup lam).u, (zStart p E taup lam).v) m' = true) ∧
      ((zetainv p E taup lam).1.u, (zetainv p E taup lam).1.v) =
        iterate (zStep p E taup lam) (m + 2) 0 ((zStart p E taup lam).u, (zStart p E taup lam).v) := by
  rw [zetainv_unfold p E taup lam hnd] at hb ⊢
  obtain ⟨m, h1, h2, h3, h4, h5⟩ := newton_break (zStep p E taup lam) (zThr p taup) p.numit 0 _ _ hb
  refine ⟨m, h2, by simpa using h1, ?_, h4, h5⟩
  have hl : long (zStep p E taup lam) (zThr p taup) 0 ((zStart p E taup lam).u, (zStart p E taup lam).v) m = false := h3
  unfold long len2 at hl
  simp only [Nat.zero_add, leb_real, decide_eq_false_iff_not, not_le] at hl
  have key : ∀ (i : ℕ) (u v : ℝ), RealLike.sq (zStep p E taup lam i u v).1 + RealLike.sq (zStep p E taup lam i u v).2 =
      ((dwdzeta p (E.am i u v)).1 ^ 2 + (dwdzeta p (E.am i u v)).2 ^ 2) *
        ((((zeta p (E.am i u v)).1 - taup) * (1 / Real.sqrt (1 ^ 2 + taup ^ 2))) ^ 2 + ((zeta p (E.am i u v)).2 - lam) ^ 2) := by
    intro i u v
    have := zetaStep_len p E taup lam ((1 : ℝ) / RealLike.hypot (1 : ℝ) taup) i u v
    unfold zStep
    simpa [hypot_real, one_real] using this
  rw [key] at hl
  exact hl

/-- **`sigmainv` left through its convergence test**: some Newton iterate `w_m` has `|dw/dσ|²·|σ(w_m) − (ξ + iη)|² < tol2_` -/
theorem sigmainv_converged (p : Par ℝ) (E : Ell ℝ) (xi eta : ℝ) (hnd : (sigmainv0 p E xi eta).done = false)
    (hb : (sigmainv p E xi eta).1.brk = true) :
    ∃ m, m + 2 ≤ p.numit ∧ (sigmainv p E xi eta).1.steps = m + 2 ∧
      (let w := iterate (sigmaStep p E xi eta) m 0 ((sigmainv0 p E xi eta).u, (sigmainv0 p E xi eta).v)
       let j := E.am m w.1 w.2
       let s := sigma p j w.2 (E.einc m w.1 w.2 j)
       ((dwdsigma p j).1 ^ 2 + (dwdsigma p j).2 ^ 2) * ((s.1 - xi) ^ 2 + (s.2 - eta) ^ 2) < p.tol2) ∧
      (∀ m' < m, long (sigmaStep p E xi eta) p.tol2 0 ((sigmainv0 p E xi eta).u, (sigmainv0 p E xi eta).v) m' = true) ∧
      ((sigmainv p E xi eta).1.u, (sigmainv p E xi eta).1.v) =
        iterate (sigmaStep p E xi eta) (m + 2) 0 ((sigmainv0 p E xi eta).u, (sigmainv0 p E xi eta).v) := by
  rw [sigmainv_unfold p E xi eta hnd] at hb ⊢
  obtain ⟨m, h1, h2, h3, h4, h5⟩ := newton_break (sigmaStep p E xi eta) p.tol2 p.numit 0 _ _ hb
  refine ⟨m, h2, by simpa using h1, ?_, h4, h5⟩
  have hl : long (sigmaStep p E xi eta) p.tol2 0 ((sigmainv0 p E xi eta).u, (sigmainv0 p E xi eta).v) m = false := h3
  unfold long len2 at hl
  simp only [Nat.zero_add, leb_real, decide_eq_false_iff_not, not_le] at hl
  have := sigmaStep_len p E xi eta m
    (iterate (sigmaStep p E xi eta) m 0 ((sigmainv0 p E xi eta).u, (sigmainv0 p E xi eta).v)).1
    (iterate (sigmaStep p E xi eta) m 0 ((sigmainv0 p E xi eta).u, (sigmainv0 p E xi eta).v)).2
  simp only at this
  rw [this] at hl
  exact hl

/-! ### the special cases of `Forward` / `Reverse` -/

theorem ninety_real : (RealLike.ofNat 90 : ℝ) = 90 := by show ((90 : ℕ) : ℝ) = 90; norm_num

/-- **which way `Forward` obtains the Thompson coordinates** (every kernel): the pole special case exactly for `lat = 90` (then `u = K`, `v = 0`,
    `γ = lon`, `k = 1`), the branch-point special case exactly at the single point `lat = 0 ∧ lon = 90(1 − e)` (then `u = 0`, `v = K'`; this is the
    comparison seeded change C06B turned into `≥`), Newton's method otherwise (then `(u, v)` is what `zetainv(taupf(τ), λ)` returns) -/
theorem fwdKernel_cases (p : Par ℝ) (E : Ell ℝ) (lat lon tau : ℝ) :
    let r := fwdKernel p E lat lon tau
    (r.via = Via.pole ↔ lat = 90) ∧
    (r.via = Via.branchPoint ↔ lat ≠ 90 ∧ lat = 0 ∧ lon = 90 * (1 - p.e)) ∧
    (lat = 90 → r.u = E.Ku ∧ r.v = 0 ∧ r.gamma = lon ∧ r.k = 1) ∧
    (lat ≠ 90 → lat = 0 → lon = 90 * (1 - p.e) → r.u = 0 ∧ r.v = E.Kv) ∧
    (r.via = Via.newton → r.u = (zetainv p E (TM.taupf tau p.e) (lon * degree)).1.u ∧ r.v = (zetainv p E (TM.taupf tau p.e) (lon * degree)).1.v ∧
      r.steps ≤ p.numit) := by
  intro r
  by_cases h90 : lat = 90
  · simp [r, fwdKernel, h90, ninety_real, eqb_real]
  · by_cases hb : lat = 0 ∧ lon = 90 * (1 - p.e)
    · obtain ⟨h0, hl⟩ := hb
      simp [r, fwdKernel, ninety_real, eqb_real, h0, hl, zero_real, one_real]
    · have hb' : ¬ (lat = 0 ∧ lon = 90 * (1 - p.e)) := hb
      have hc : (decide (lat = 0) && decide (lon = 90 * (1 - p.e))) = false := by
        simpa using hb'
      have hsteps := zetainv_cap p E (TM.taupf tau p.e) (lon * degree)
      simp [r, fwdKernel, h90, ninety_real, eqb_real, zero_real, one_real, hc]
      refine ⟨?_, ?_, hsteps⟩
      · intro h0 hl; exact absurd ⟨h0, hl⟩ hb'
      · intro h0 hl; exact absurd ⟨h0, hl⟩ hb'

/-- **`Reverse`**: the branch-point special case exactly at `ξ = 0 ∧ η = K' − E'`; otherwise `(u, v)` is what `sigmainv` returns; the pole output
    (`lat = 90`, `lon = γ = 0`, `k = 1`) exactly when the Thompson coordinates are `(K, 0)` -/
theorem revKernel_cases (p : Par ℝ) (E : Ell ℝ) (xi eta : ℝ) :
    let r := revKernel p E xi eta
    ((xi = 0 ∧ eta = E.KEv) → r.u = 0 ∧ r.v = E.Kv) ∧
    (¬ (xi = 0 ∧ eta = E.KEv) → r.u = (sigmainv p E xi eta).1.u ∧ r.v = (sigmainv p E xi eta).1.v ∧ r.steps ≤ p.numit) ∧
    (r.via = Via.pole ↔ (r.v = 0 ∧ r.u = E.Ku)) ∧
    (r.via = Via.pole → r.p = 90 ∧ r.q = 0 ∧ r.gamma = 0 ∧ r.k = 1) := by
  intro r
  have hsteps := sigmainv_cap p E xi eta
  by_cases hb : xi = 0 ∧ eta = E.KEv
  · obtain ⟨h0, hl⟩ := hb
    by_cases hp : (0 : ℝ) = E.Ku ∧ E.Kv = 0
    · simp [r, revKernel, h0, hl, eqb_real, zero_real, one_real, ninety_real, hp.1.symm, hp.2]
    · have : ¬ (E.Kv = 0 ∧ (0 : ℝ) = E.Ku) := fun h => hp ⟨h.2, h.1⟩
      simp [r, revKernel, h0, hl, eqb_real, zero_real, one_real, ninety_real]
      by_cases hk : E.Kv = 0
      · by_cases hk2 : (0 : ℝ) = E.Ku
        · exact absurd ⟨hk, hk2⟩ this
        · simp [hk, hk2]
      · simp [hk]
  · have hc : (decide (xi = 0) && decide (eta = E.KEv)) = false := by simpa using hb
    simp only [r, revKernel, eqb_real, zero_real, hc, Bool.false_eq_true, if_false]
    by_cases hp : (sigmainv p E xi eta).1.v = 0 ∧ (sigmainv p E xi eta).1.u = E.Ku
    · simp [hp.1, hp.2, hb, hsteps, ninety_real, one_real]
    · have hd : (!decide ((sigmainv p E xi eta).1.v = 0) || !decide ((sigmainv p E xi eta).1.u = E.Ku)) = true := by
        by_cases h1 : (sigmainv p E xi eta).1.v = 0
        · have h2 : (sigmainv p E xi eta).1.u ≠ E.Ku := fun h => hp ⟨h1, h⟩
          simp [h1, h2]
        · simp [h1]
      simp [hd, hb, hsteps]
      intro h1 h2; exact absurd ⟨h1, h2⟩ hp

end GeoVerif.Proofs.TMX
