import GeoVerif.Model.VPTree
/-!
# Lemmas about `Model/VPTree.lean` (core Lean + `omega`/`simp`/`grind` only)
-/
namespace GeoVerif.VPTree

/-! ## Save / Load on tokens -/

/-- what `Load` demands of one node at position `i` (and what `Save` of a tree built by `init` provides) -/
def NodeOK (bucket : Nat) (numpoints : Int) (i : Nat) (n : Node) : Prop :=
  nodeCheck numpoints (i : Int) n = true ∧ (∀ ls, n = .leaf ls → ls.length = bucket)

def NodesOK (bucket : Nat) (numpoints : Int) : Nat → List Node → Prop
  | _, [] => True
  | i, n :: ns => NodeOK bucket numpoints i n ∧ NodesOK bucket numpoints (i + 1) ns

theorem loadNode_saveNode (bucket : Nat) (n : Node) (rest : List Int)
    (h : ∀ ls, n = .leaf ls → ls.length = bucket) :
    loadNode bucket (saveNode n ++ rest) = .ok (n, rest) := by
  cases n with
  | inner v lo0 up0 c0 lo1 up1 c1 =>
    simp [saveNode, loadNode]
  | leaf ls =>
    have hl := h ls rfl
    simp only [saveNode, List.cons_append, loadNode]
    have h1 : ¬ ((-1 : Int) ≥ 0) := by omega
    simp only [h1, if_false]
    have h2 : ¬ ((ls ++ rest).length < bucket) := by simp [List.length_append]; omega
    simp [← hl]

theorem loadNodes_saveNodes (bucket : Nat) (numpoints : Int) (extra : List Int) :
    ∀ (ns : List Node) (i : Nat), NodesOK bucket numpoints i ns →
      loadNodes bucket numpoints ns.length i (saveNodes ns ++ extra) = .ok ns := by
  intro ns
  induction ns with
  | nil => intro i _; simp [loadNodes]
  | cons n ns ih =>
    intro i h
    obtain ⟨⟨hc, hl⟩, hrest⟩ := h
    simp only [List.length_cons, loadNodes, saveNodes, List.append_assoc]
    rw [loadNode_saveNode bucket n _ hl]
    simp only [hc, Bool.not_true]
    rw [ih (i + 1) hrest]
    simp

/-- a tree as `Save` writes it and `Load` accepts it -/
structure WellFormed (maxbucket : Int) (t : Tree) : Prop where
  bucket_lo : 0 ≤ t.bucket
  bucket_hi : t.bucket ≤ maxbucket
  size : (t.nodes.length : Int) ≤ t.numpoints
  cost : 0 ≤ t.cost
  nodes : NodesOK t.bucket.toNat t.numpoints 0 t.nodes

theorem load_save (realspec maxbucket : Int) (t : Tree) (extra : List Int) (h : WellFormed maxbucket t) :
    load realspec maxbucket (save realspec t ++ extra) = .ok t := by
  obtain ⟨h1, h2, h3, h4, h5⟩ := h
  simp only [save, List.cons_append, List.nil_append, load]
  have hv : ¬ (version != version) = true := by simp
  have hr : ¬ (realspec != realspec) = true := by simp
  have hb : (0 ≤ t.bucket && t.bucket ≤ maxbucket) = true := by simp [h1, h2]
  have hs : ((0 : Int) ≤ (t.nodes.length : Int) && (t.nodes.length : Int) ≤ t.numpoints) = true := by
    simp [h3]
  have hc : (decide (0 ≤ t.cost)) = true := by simp [h4]
  simp only [hv, hr, hb, hs, hc, if_false, Bool.not_true, Bool.false_eq_true]
  have := loadNodes_saveNodes t.bucket.toNat t.numpoints extra t.nodes 0 h5
  simp only [Int.toNat_natCast]
  rw [this]

/-- every node list accepted by `loadNodes` satisfies `Node::Check` with the node's own position as the bound on the
    child pointers -/
theorem loadNodes_ok (bucket : Nat) (numpoints : Int) :
    ∀ (m i : Nat) (toks : List Int) (ns : List Node), loadNodes bucket numpoints m i toks = .ok ns →
      ns.length = m ∧ ∀ j (n : Node), ns[j]? = some n → nodeCheck numpoints ((i + j : Nat) : Int) n = true := by
  intro m
  induction m with
  | zero => intro i toks ns h; simp [loadNodes] at h; subst h; simp
  | succ m ih =>
    intro i toks ns h
    simp only [loadNodes] at h
    split at h
    · cases h
    · rename_i node rest hn
      split at h
      · cases h
      · rename_i hck
        split at h
        · cases h
        · rename_i ns' hns
          cases h
          obtain ⟨hlen, hall⟩ := ih (i + 1) rest ns' hns
          refine ⟨by simp [hlen], ?_⟩
          intro j n hj
          cases j with
          | zero =>
            simp at hj; subst hj
            simpa using hck
          | succ j =>
            simp at hj
            have := hall j n hj
            have e : i + 1 + j = i + (j + 1) := by omega
            rw [e] at this; exact this

end GeoVerif.VPTree
