import GeoVerif.Model.VPTree
/-!
# Lemmas about `Model/VPTree.lean` (core Lean + `omega`/`simp`/`grind` only)
-/
namespace GeoVerif.VPTree

/-! ## Save / Load on tokens -/

/-- what `Load` demands of one node at position `i` (and what `Save` of a tree built by `init` provides) -/
def NodeOK (bucket : Nat) (numpoints : Int) (i : Nat) (n : Node) : Prop :=
  nodeCheck numpoints (i : Int) n = true ∧ (∀ ls, n = .leaf ls → ls.length = bucket)

def NodesOK (bucket : Nat) (numpoints : Int) : Nat → List Node → Prop
  | _, [] => True
  | i, n :: ns => NodeOK bucket numpoints i n ∧ NodesOK bucket numpoints (i + 1) ns

theorem loadNode_saveNode (bucket : Nat) (n : Node) (rest : List Int)
    (h : ∀ ls, n = .leaf ls → ls.length = bucket) :
    loadNode bucket (saveNode n ++ rest) = .ok (n, rest) := by
  cases n with
  | inner v lo0 up0 c0 lo1 up1 c1 =>
    simp [saveNode, loadNode]
  | leaf ls =>
    have hl := h ls rfl
    simp only [saveNode, List.cons_append, loadNode]
    have h1 : ¬ ((-1 : Int) ≥ 0) := by omega
    simp only [h1, if_false]
    have h2 : ¬ ((ls ++ rest).length < bucket) := by simp [List.length_append]; omega
    simp [← hl]

theorem loadNodes_saveNodes (bucket : Nat) (numpoints : Int) (extra : List Int) :
    ∀ (ns : List Node) (i : Nat), NodesOK bucket numpoints i ns →
      loadNodes bucket numpoints ns.length i (saveNodes ns ++ extra) = .ok ns := by
  intro ns
  induction ns with
  | nil => intro i _; simp [loadNodes]
  | cons n ns ih =>
    intro i h
    obtain ⟨⟨hc, hl⟩, hrest⟩ := h
    simp only [List.length_cons, loadNodes, saveNodes, List.append_assoc]
    rw [loadNode_saveNode bucket n _ hl]
    simp only [hc, Bool.not_true]
    rw [ih (i + 1) hrest]
    simp

/-- a tree as `Save` writes it and `Load` accepts it -/
structure WellFormed (maxbucket : Int) (t : Tree) : Prop where
  bucket_lo : 0 ≤ t.bucket
  bucket_hi : t.bucket ≤ maxbucket
  size : (t.nodes.length : Int) ≤ t.numpoints
  cost : 0 ≤ t.cost
  nodes : NodesOK t.bucket.toNat t.numpoints 0 t.nodes

theorem load_save (realspec maxbucket : Int) (t : Tree) (extra : List Int) (h : WellFormed maxbucket t) :
    load realspec maxbucket (save realspec t ++ extra) = .ok t := by
  obtain ⟨h1, h2, h3, h4, h5⟩ := h
  simp only [save, List.cons_append, List.nil_append, load]
  have hv : ¬ (version != version) = true := by simp
  have hr : ¬ (realspec != realspec) = true := by simp
  have hb : (0 ≤ t.bucket && t.bucket ≤ maxbucket) = true := by simp [h1, h2]
  have hs : ((0 : Int) ≤ (t.nodes.length : Int) && (t.nodes.length : Int) ≤ t.numpoints) = true := by
    simp [h3]
  have hc : (decide (0 ≤ t.cost)) = true := by simp [h4]
  simp only [hv, hr, hb, hs, hc, if_false, Bool.not_true, Bool.false_eq_true]
  have := loadNodes_saveNodes t.bucket.toNat t.numpoints extra t.nodes 0 h5
  simp only [Int.toNat_natCast]
  rw [this]

/-- every node list accepted by `loadNodes` satisfies `Node::Check` with the node's own position as the bound on the
    child pointers -/
theorem loadNodes_ok (bucket : Nat) (numpoints : Int) :
    ∀ (m i : Nat) (toks : List Int) (ns : List Node), loadNodes bucket numpoints m i toks = .ok ns →
      ns.length = m ∧ ∀ j (n : Node), ns[j]? = some n → nodeCheck numpoints ((i + j : Nat) : Int) n = true := by
  intro m
  induction m with
  | zero => intro i toks ns h; simp [loadNodes] at h; subst h; simp
  | succ m ih =>
    intro i toks ns h
    simp only [loadNodes] at h
    split at h
    · cases h
    · rename_i node rest hn
      split at h
      · cases h
      · rename_i hck
        split at h
        · cases h
        · rename_i ns' hns
          cases h
          obtain ⟨hlen, hall⟩ := ih (i + 1) rest ns' hns
          refine ⟨by simp [hlen], ?_⟩
          intro j n hj
          cases j with
          | zero =>
            simp at hj; subst hj
            simpa using hck
          | succ j =>
            simp at hj
            have := hall j n hj
            have e : i + 1 + j = i + (j + 1) := by omega
            rw [e] at this; exact this

/-! ## insertion sort on `Int`, `k` smallest -/

theorem insInt_comm (a b : Int) (l : List Int) : insInt a (insInt b l) = insInt b (insInt a l) := by
  induction l with
  | nil => simp only [insInt]; split <;> split <;> simp_all <;> omega
  | cons y ys ih =>
    simp only [insInt]
    split <;> split <;> simp_all [insInt] <;> (try omega) <;> (repeat' split) <;> simp_all <;> omega

theorem sortAsc_cons (x : Int) (l : List Int) : sortAsc (x :: l) = insInt x (sortAsc l) := rfl

theorem sortAsc_perm {l1 l2 : List Int} (h : l1.Perm l2) : sortAsc l1 = sortAsc l2 := by
  induction h with
  | nil => rfl
  | cons x _ ih => simp only [sortAsc_cons, ih]
  | swap x y l => simp only [sortAsc_cons]; exact insInt_comm y x _
  | trans _ _ ih1 ih2 => exact ih1.trans ih2

theorem sortAsc_append (a b : List Int) : sortAsc (a ++ b) = a.foldr insInt (sortAsc b) := by
  simp [sortAsc, List.foldr_append]

theorem mem_insInt {x y : Int} {l : List Int} : y ∈ insInt x l ↔ y = x ∨ y ∈ l := by
  induction l with
  | nil => simp [insInt]
  | cons z zs ih =>
    simp only [insInt]; split
    · simp
    · simp [ih]; grind

theorem length_insInt (x : Int) (l : List Int) : (insInt x l).length = l.length + 1 := by
  induction l with
  | nil => simp [insInt]
  | cons z zs ih => simp only [insInt]; split <;> simp [ih]

theorem mem_sortAsc {y : Int} {l : List Int} : y ∈ sortAsc l ↔ y ∈ l := by
  induction l with
  | nil => simp [sortAsc]
  | cons z zs ih => rw [sortAsc_cons, mem_insInt, ih]; simp

theorem length_sortAsc (l : List Int) : (sortAsc l).length = l.length := by
  induction l with
  | nil => simp [sortAsc]
  | cons z zs ih => rw [sortAsc_cons, length_insInt, ih]; simp

abbrev Sorted (l : List Int) : Prop := l.Pairwise (· ≤ ·)

theorem sorted_insInt (x : Int) (l : List Int) (h : Sorted l) : Sorted (insInt x l) := by
  induction l with
  | nil => simp [insInt, Sorted]
  | cons z zs ih =>
    simp only [insInt]; split
    · rename_i hlt
      refine List.Pairwise.cons ?_ h
      intro w hw
      simp only [List.mem_cons] at hw
      rcases hw with rfl | hw
      · omega
      · have := (List.pairwise_cons.mp h).1 w hw; omega
    · rename_i hlt
      have h' := List.pairwise_cons.mp h
      refine List.Pairwise.cons ?_ (ih h'.2)
      intro w hw
      rcases mem_insInt.mp hw with rfl | hw
      · omega
      · exact h'.1 w hw

theorem sorted_sortAsc (l : List Int) : Sorted (sortAsc l) := by
  induction l with
  | nil => simp [sortAsc, Sorted]
  | cons z zs ih => rw [sortAsc_cons]; exact sorted_insInt z _ ih

/-- inserting an element that is `≤` everything puts it (as a value) in front -/
theorem insInt_le_all (x : Int) (l : List Int) (h : ∀ y ∈ l, x ≤ y) : insInt x l = x :: l := by
  induction l with
  | nil => rfl
  | cons z zs ih =>
    simp only [insInt]; split
    · rfl
    · have hz := h z (by simp)
      have : x = z := by omega
      subst this
      rw [ih (fun y hy => h y (by simp [hy]))]

theorem sortAsc_of_sorted (l : List Int) (h : Sorted l) : sortAsc l = l := by
  induction l with
  | nil => rfl
  | cons z zs ih =>
    have h' := List.pairwise_cons.mp h
    rw [sortAsc_cons, ih h'.2, insInt_le_all z zs h'.1]

/-- inserting an element that is `≥` a prefix passes over the prefix -/
theorem insInt_append_ge (y : Int) (r L : List Int) (h : ∀ x ∈ r, x ≤ y) : insInt y (r ++ L) = r ++ insInt y L := by
  induction r with
  | nil => rfl
  | cons x r ih =>
    have hx := h x (by simp)
    simp only [List.cons_append, insInt]
    have : ¬ y < x := by omega
    simp only [this, if_false]
    rw [ih (fun z hz => h z (by simp [hz]))]

theorem foldr_insInt_append_ge (Y r : List Int) (h : ∀ y ∈ Y, ∀ x ∈ r, x ≤ y) :
    Y.foldr insInt r = r ++ Y.foldr insInt [] := by
  induction Y with
  | nil => simp
  | cons y Y ih =>
    simp only [List.foldr_cons]
    rw [ih (fun y' hy' => h y' (by simp [hy']))]
    exact insInt_append_ge y r _ (h y (by simp))

/-- the first `k` elements after an insertion depend only on the first `k` elements before -/
theorem take_insInt (b : Int) : ∀ (k : Nat) (L : List Int), (insInt b L).take k = (insInt b (L.take k)).take k := by
  intro k
  induction k with
  | zero => intro L; simp
  | succ k ih =>
    intro L
    cases L with
    | nil => simp [insInt]
    | cons x xs =>
      simp only [List.take_succ_cons, insInt]
      split
      · simp only [List.take_succ_cons]
        congr 1
        cases k with
        | zero => simp
        | succ k => simp [List.take_take]
      · simp only [List.take_succ_cons]
        congr 1
        exact ih xs

/-- the `k` smallest, ascending -/
def kbest (k : Nat) (l : List Int) : List Int := (sortAsc l).take k

theorem kbest_perm {k : Nat} {l1 l2 : List Int} (h : l1.Perm l2) : kbest k l1 = kbest k l2 := by
  unfold kbest; rw [sortAsc_perm h]

theorem sorted_kbest (k : Nat) (l : List Int) : Sorted (kbest k l) :=
  List.Pairwise.sublist (List.take_sublist _ _) (sorted_sortAsc l)

theorem take_foldr_insInt (k : Nat) (B S : List Int) :
    (B.foldr insInt (S.take k)).take k = (B.foldr insInt S).take k := by
  induction B with
  | nil => simp [List.take_take]
  | cons b B ih =>
    simp only [List.foldr_cons]
    rw [take_insInt b k (B.foldr insInt (S.take k)), ih, ← take_insInt]

/-- absorption: the `k` best of (the `k` best of `A`) and `B` are the `k` best of `A` and `B` -/
theorem kbest_absorb (k : Nat) (A B : List Int) : kbest k (kbest k A ++ B) = kbest k (A ++ B) := by
  have e1 : kbest k (kbest k A ++ B) = kbest k (B ++ kbest k A) := kbest_perm List.perm_append_comm
  have e2 : kbest k (A ++ B) = kbest k (B ++ A) := kbest_perm List.perm_append_comm
  rw [e1, e2]
  unfold kbest
  rw [sortAsc_append, sortAsc_append]
  have : sortAsc ((sortAsc A).take k) = (sortAsc A).take k :=
    sortAsc_of_sorted _ (List.Pairwise.sublist (List.take_sublist _ _) (sorted_sortAsc A))
  rw [this]
  exact take_foldr_insInt k B (sortAsc A)

/-- a sorted list of at most `k` elements is its own `k` best -/
theorem kbest_self (k : Nat) (r : List Int) (hs : Sorted r) (hl : r.length ≤ k) : kbest k r = r := by
  unfold kbest; rw [sortAsc_of_sorted r hs]; exact List.take_of_length_le hl

/-- elements that are `≥` all of `k` sorted elements do not change the `k` best -/
theorem kbest_discard (k : Nat) (r Y : List Int) (hs : Sorted r) (hl : r.length = k)
    (h : ∀ y ∈ Y, ∀ x ∈ r, x ≤ y) : kbest k (r ++ Y) = r := by
  have e1 : kbest k (r ++ Y) = kbest k (Y ++ r) := kbest_perm List.perm_append_comm
  rw [e1]; unfold kbest
  rw [sortAsc_append, sortAsc_of_sorted r hs, foldr_insInt_append_ge Y r h]
  rw [List.take_append_of_le_length (by omega)]
  exact List.take_of_length_le (by omega)

/-- replacing the maximum of `k` sorted elements by a new element `x ≤` that maximum -/
theorem take_insInt_dropLast (x : Int) : ∀ (r : List Int), (∀ z, r.getLast? = some z → x ≤ z) → r ≠ [] →
    (insInt x r).take r.length = insInt x r.dropLast := by
  intro r
  induction r with
  | nil => intro _ h; exact absurd rfl h
  | cons a r ih =>
    intro hlast _
    cases r with
    | nil =>
      have := hlast a (by simp)
      simp only [insInt, List.length_singleton, List.dropLast_singleton]
      split
      · simp
      · have : x = a := by omega
        subst this; simp
    | cons b rest =>
      have hlast' : ∀ z, (b :: rest).getLast? = some z → x ≤ z := by
        intro z hz; apply hlast z; simpa [List.getLast?_cons_cons] using hz
      have ih' := ih hlast' (by simp)
      simp only [insInt, List.dropLast_cons_cons, List.length_cons] at ih' ⊢
      split
      · rename_i hxa
        simp only [List.take_succ_cons]
        congr 1
        have : (a :: b :: rest).take (rest.length + 1) = (a :: b :: rest).dropLast := by
          rw [List.dropLast_eq_take]; simp
        simpa using this
      · simp only [List.take_succ_cons]
        congr 1

/-! ## the result heap as a distance list -/

def dists (res : List Item) : List Int := res.map (·.1)

abbrev LexSorted (res : List Item) : Prop := res.Pairwise (fun a b => lexLt b a = false)

theorem le_of_lexLt_false {a b : Item} (h : lexLt b a = false) : a.1 ≤ b.1 := by
  simp only [lexLt, Bool.or_eq_false_iff, decide_eq_false_iff_not, Bool.and_eq_false_iff, beq_eq_false_iff_ne] at h
  omega

theorem le_of_lexLt {a b : Item} (h : lexLt a b = true) : a.1 ≤ b.1 := by
  simp only [lexLt, Bool.or_eq_true, decide_eq_true_eq, Bool.and_eq_true, beq_iff_eq] at h
  omega

theorem sorted_dists {L : List Item} (h : LexSorted L) : Sorted (dists L) := by
  unfold dists
  rw [Sorted, List.pairwise_map]
  exact h.imp (fun h => le_of_lexLt_false h)

theorem mem_insAsc {x y : Item} {l : List Item} : y ∈ insAsc x l ↔ y = x ∨ y ∈ l := by
  induction l with
  | nil => simp [insAsc]
  | cons z zs ih =>
    simp only [insAsc]; split
    · simp
    · simp [ih]; grind

theorem length_insAsc (x : Item) (l : List Item) : (insAsc x l).length = l.length + 1 := by
  induction l with
  | nil => simp [insAsc]
  | cons z zs ih => simp only [insAsc]; split <;> simp [ih]

theorem lexLt_trans_false {a b c : Item} (h1 : lexLt a b = true) (h2 : lexLt c b = false) : lexLt c a = false := by
  simp only [lexLt, Bool.or_eq_true, decide_eq_true_eq, Bool.and_eq_true, beq_iff_eq, Bool.or_eq_false_iff,
    decide_eq_false_iff_not, Bool.and_eq_false_iff, beq_eq_false_iff_ne] at *
  omega

theorem lexSorted_insAsc (x : Item) (l : List Item) (h : LexSorted l) : LexSorted (insAsc x l) := by
  induction l with
  | nil => simp [insAsc, LexSorted]
  | cons z zs ih =>
    have h' := List.pairwise_cons.mp h
    simp only [insAsc]; split
    · rename_i hlt
      refine List.Pairwise.cons ?_ h
      intro w hw
      simp only [List.mem_cons] at hw
      rcases hw with rfl | hw
      · simp only [lexLt, Bool.or_eq_true, decide_eq_true_eq, Bool.and_eq_true, beq_iff_eq, Bool.or_eq_false_iff,
          decide_eq_false_iff_not, Bool.and_eq_false_iff, beq_eq_false_iff_ne] at *
        omega
      · exact lexLt_trans_false hlt (h'.1 w hw)
    · rename_i hlt
      refine List.Pairwise.cons ?_ (ih h'.2)
      intro w hw
      rcases mem_insAsc.mp hw with rfl | hw
      · simpa using hlt
      · exact h'.1 w hw

theorem dists_insAsc (x i : Int) (L : List Item) (h : LexSorted L) : dists (insAsc (x, i) L) = insInt x (dists L) := by
  induction L with
  | nil => rfl
  | cons z zs ih =>
    have h' := List.pairwise_cons.mp h
    simp only [insAsc]; split
    · rename_i hlt
      have hle := le_of_lexLt hlt
      simp only [dists, List.map_cons, insInt] at hle ⊢
      split
      · rfl
      · have hxz : x = z.1 := by omega
        have hall : ∀ y ∈ List.map (·.1) zs, x ≤ y := by
          intro y hy
          obtain ⟨w, hw, rfl⟩ := List.mem_map.mp hy
          have := le_of_lexLt_false (h'.1 w hw); omega
        rw [insInt_le_all x _ hall, hxz]
    · rename_i hlt
      have : ¬ x < z.1 := by
        intro hc
        apply hlt
        simp [lexLt, hc]
      simp only [dists, List.map_cons, insInt, this, if_false]
      congr 1
      exact ih h'.2

theorem topDist_eq (L : List Item) : topDist L = (match (dists L).getLast? with | some z => z | none => 0) := by
  unfold topDist dists
  rw [List.getLast?_map]
  cases L.getLast? <;> rfl

theorem sorted_le_last {d : List Int} (h : Sorted d) {z : Int} (hz : d.getLast? = some z) : ∀ x ∈ d, x ≤ z := by
  induction d with
  | nil => simp
  | cons a d ih =>
    have h' := List.pairwise_cons.mp h
    cases d with
    | nil => simp at hz; subst hz; simp
    | cons b rest =>
      rw [List.getLast?_cons_cons] at hz
      intro x hx
      simp only [List.mem_cons] at hx
      rcases hx with rfl | hx
      · have hb := ih h'.2 hz b (by simp)
        have := h'.1 b (by simp); omega
      · exact ih h'.2 hz x (by simpa using hx)

/-! ## the invariant on `(tau, results)` and one visit -/

def tauOf (Q : Query) (k : Nat) (res : List Item) : Int := if res.length = k then topDist res else Q.maxdist

structure InvR (Q : Query) (k : Nat) (s : St) : Prop where
  sorted : LexSorted s.res
  len : s.res.length ≤ k
  win : ∀ x ∈ dists s.res, inWindow Q x = true
  tau : s.tau = tauOf Q k s.res

theorem inWindow_iff (Q : Query) (x : Int) : inWindow Q x = true ↔ Q.mindist < x ∧ x ≤ Q.maxdist := by
  simp [inWindow]

/-- when the heap is full `tau` is its largest distance -/
theorem tau_full {Q : Query} {k : Nat} {s : St} (h : InvR Q k s) (hk : 1 ≤ k) (hfull : s.res.length = k) :
    (dists s.res).getLast? = some s.tau ∧ (∀ x ∈ dists s.res, x ≤ s.tau) ∧ s.tau ≤ Q.maxdist := by
  have hne : dists s.res ≠ [] := by
    intro hc
    have h0 : (dists s.res).length = 0 := by rw [hc]; rfl
    have h1 : (dists s.res).length = s.res.length := by simp [dists]
    omega
  obtain ⟨z, hz⟩ : ∃ z, (dists s.res).getLast? = some z := by
    cases hl : (dists s.res).getLast? with
    | none => exact absurd (List.getLast?_eq_none_iff.mp hl) hne
    | some z => exact ⟨z, rfl⟩
  have htau : s.tau = z := by
    rw [h.tau, tauOf, if_pos hfull, topDist_eq, hz]
  subst htau
  refine ⟨hz, sorted_le_last (sorted_dists h.sorted) hz, ?_⟩
  have := (inWindow_iff Q _).mp (h.win _ (List.mem_of_getLast? hz))
  exact this.2

theorem tau_le_maxdist {Q : Query} {k : Nat} {s : St} (h : InvR Q k s) (hk : 1 ≤ k) : s.tau ≤ Q.maxdist := by
  by_cases hfull : s.res.length = k
  · exact (tau_full h hk hfull).2.2
  · rw [h.tau, tauOf, if_neg hfull]; exact Int.le_refl _

/-- candidates above `tau` (or outside the window) do not change the `k` best -/
theorem kbest_drop_irrelevant {Q : Query} {k : Nat} {s : St} (h : InvR Q k s) (hk : 1 ≤ k) (Y : List Int)
    (hY : ∀ y ∈ Y, inWindow Q y = true → s.tau < y) :
    kbest k (dists s.res ++ Y.filter (inWindow Q)) = dists s.res := by
  by_cases hfull : s.res.length = k
  · apply kbest_discard k _ _ (sorted_dists h.sorted) (by simp [dists, hfull])
    intro y hy x hx
    simp only [List.mem_filter] at hy
    have := hY y hy.1 hy.2
    have := (tau_full h hk hfull).2.1 x hx
    omega
  · have : Y.filter (inWindow Q) = [] := by
      rw [List.filter_eq_nil_iff]
      intro y hy hw
      have h1 := hY y hy hw
      rw [h.tau, tauOf, if_neg hfull] at h1
      have := ((inWindow_iff Q y).mp hw).2
      omega
    rw [this, List.append_nil]
    exact kbest_self k _ (sorted_dists h.sorted) (by simp [dists]; exact h.len)

theorem visit_spec (Q : Query) (k : Nat) (dq : Nat → Int) (s : St) (idx : Nat) (hk : 1 ≤ k)
    (hex : Q.exhaustive = true) (htol : Q.tol = 0) (h : InvR Q k s) :
    InvR Q k (visit Q k dq s idx) ∧
    dists (visit Q k dq s idx).res = kbest k (dists s.res ++ [dq idx].filter (inWindow Q)) ∧
    (s.exit = false → (visit Q k dq s idx).exit = true →
      (visit Q k dq s idx).res.length = k ∧ ∀ x ∈ dists (visit Q k dq s idx).res, x ≤ 0) := by
  have hsd := sorted_dists h.sorted
  unfold visit
  by_cases hacc : Q.mindist < dq idx ∧ dq idx ≤ s.tau
  · rw [if_pos hacc]
    have hwin : inWindow Q (dq idx) = true := (inWindow_iff Q _).mpr ⟨hacc.1, Int.le_trans hacc.2 (tau_le_maxdist h hk)⟩
    have hfilt : [dq idx].filter (inWindow Q) = [dq idx] := by simp [hwin]
    -- the base list after the optional pop
    have hbase_sorted : LexSorted (if s.res.length = k then s.res.dropLast else s.res) := by
      split
      · exact List.Pairwise.sublist (List.dropLast_sublist _) h.sorted
      · exact h.sorted
    have hr_sorted := lexSorted_insAsc (dq idx, (idx : Int)) _ hbase_sorted
    have hr_dists := dists_insAsc (dq idx) (idx : Int) _ hbase_sorted
    have hkb : kbest k (dists s.res ++ [dq idx]) = (insInt (dq idx) (dists s.res)).take k := by
      have e : kbest k (dists s.res ++ [dq idx]) = kbest k ([dq idx] ++ dists s.res) := kbest_perm List.perm_append_comm
      rw [e]; unfold kbest
      rw [sortAsc_append, sortAsc_of_sorted _ hsd]; rfl
    -- distances and length of the new heap
    have hnew : dists (insAsc (dq idx, (idx : Int)) (if s.res.length = k then s.res.dropLast else s.res)) =
          kbest k (dists s.res ++ [dq idx]) ∧
        (insAsc (dq idx, (idx : Int)) (if s.res.length = k then s.res.dropLast else s.res)).length ≤ k ∧
        ((insAsc (dq idx, (idx : Int)) (if s.res.length = k then s.res.dropLast else s.res)).length = k ∨ s.res.length ≠ k) := by
      rw [hr_dists, hkb, length_insAsc]
      by_cases hfull : s.res.length = k
      · simp only [if_pos hfull]
        have hlast := (tau_full h hk hfull).1
        have hdl : dists s.res.dropLast = (dists s.res).dropLast := by simp [dists, List.map_dropLast]
        have hlen : (dists s.res).length = k := by simp [dists, hfull]
        have hne : dists s.res ≠ [] := by intro hc; rw [hc] at hlen; simp at hlen; omega
        refine ⟨?_, ?_, ?_⟩
        · rw [hdl, ← hlen]
          exact (take_insInt_dropLast (dq idx) (dists s.res) (by intro z hz; rw [hlast] at hz; cases hz; exact hacc.2) hne).symm
        · simp [List.length_dropLast]; omega
        · left; simp [List.length_dropLast]; omega
      · simp only [if_neg hfull]
        have := h.len
        refine ⟨?_, by omega, Or.inr hfull⟩
        rw [List.take_of_length_le]
        rw [length_insInt]; simp [dists]; omega
    obtain ⟨hnd, hnl, hncase⟩ := hnew
    have hnwin : ∀ x ∈ dists (insAsc (dq idx, (idx : Int)) (if s.res.length = k then s.res.dropLast else s.res)), inWindow Q x = true := by
      intro x hx
      rw [hr_dists] at hx
      rcases mem_insInt.mp hx with rfl | hx
      · exact hwin
      · apply h.win
        split at hx
        · simp only [dists, List.map_dropLast] at hx
          exact (List.dropLast_sublist _).subset hx
        · exact hx
    unfold accept
    simp only [hfilt]
    by_cases hlen : (insAsc (dq idx, (idx : Int)) (if s.res.length = k then s.res.dropLast else s.res)).length = k
    · simp only [if_pos hlen, hex, if_true]
      refine ⟨⟨hr_sorted, hnl, hnwin, ?_⟩, hnd, ?_⟩
      · simp [tauOf, hlen]
      · intro _ hexit
        simp only [htol, decide_eq_true_eq] at hexit
        refine ⟨hlen, ?_⟩
        intro x hx
        rw [topDist_eq] at hexit
        cases hl : (dists (insAsc (dq idx, (idx : Int)) (if s.res.length = k then s.res.dropLast else s.res))).getLast? with
        | none =>
          have := List.getLast?_eq_none_iff.mp hl
          rw [this] at hx; simp at hx
        | some z =>
          rw [hl] at hexit
          have := sorted_le_last (sorted_dists hr_sorted) hl x hx
          simp only at hexit
          omega
    · simp only [if_neg hlen]
      have hnf : s.res.length ≠ k := by rcases hncase with h1 | h1; exact absurd h1 hlen; exact h1
      refine ⟨⟨hr_sorted, hnl, hnwin, ?_⟩, hnd, ?_⟩
      · show s.tau = _
        rw [h.tau]; unfold tauOf; rw [if_neg hnf, if_neg hlen]
      · intro he hexit
        rw [he] at hexit; cases hexit
  · rw [if_neg hacc]
    refine ⟨h, ?_, ?_⟩
    · symm
      apply kbest_drop_irrelevant h hk
      intro y hy hw
      simp only [List.mem_singleton] at hy
      subst hy
      have := (inWindow_iff Q _).mp hw
      omega
    · intro he hexit; rw [he] at hexit; cases hexit

end GeoVerif.VPTree
