import GeoVerif.Model.VPTree
/-!
# Lemmas about `Model/VPTree.lean` (core Lean + `omega`/`simp`/`grind` only)
-/
namespace GeoVerif.VPTree

/-! ## Save / Load on tokens -/

/-- what `Load` demands of one node at position `i` (and what `Save` of a tree built by `init` provides) -/
def NodeOK (bucket : Nat) (numpoints : Int) (i : Nat) (n : Node) : Prop :=
  nodeCheck numpoints (i : Int) n = true ∧ (∀ ls, n = .leaf ls → ls.length = bucket)

def NodesOK (bucket : Nat) (numpoints : Int) : Nat → List Node → Prop
  | _, [] => True
  | i, n :: ns => NodeOK bucket numpoints i n ∧ NodesOK bucket numpoints (i + 1) ns

theorem loadNode_saveNode (bucket : Nat) (n : Node) (rest : List Int)
    (h : ∀ ls, n = .leaf ls → ls.length = bucket) :
    loadNode bucket (saveNode n ++ rest) = .ok (n, rest) := by
  cases n with
  | inner v lo0 up0 c0 lo1 up1 c1 =>
    simp [saveNode, loadNode]
  | leaf ls =>
    have hl := h ls rfl
    simp only [saveNode, List.cons_append, loadNode]
    have h1 : ¬ ((-1 : Int) ≥ 0) := by omega
    simp only [h1, if_false]
    have h2 : ¬ ((ls ++ rest).length < bucket) := by simp [List.length_append]; omega
    simp [← hl]

/-- the non-negative child pointers of a node, in the order `Load` claims them -/
def kids : Node → List Int
  | .inner _ _ _ c0 _ _ c1 => (if c0 < 0 then [] else [c0]) ++ (if c1 < 0 then [] else [c1])
  | .leaf _ => []

/-- all child pointers of a file, in file order -/
def children : List Node → List Int
  | [] => []
  | n :: ns => kids n ++ children ns

theorem claim_ok {used : List Int} {c : Int} (h : 0 ≤ c → c ∉ used) :
    claim used c = some ((if c < 0 then [] else [c]) ++ used) := by
  unfold claim
  by_cases hc : c < 0
  · simp [hc]
  · have := h (by omega)
    simp [hc, this]

theorem claim_some {used u : List Int} {c : Int} (h : claim used c = some u) :
    (0 ≤ c → c ∉ used) ∧ u = (if c < 0 then [] else [c]) ++ used := by
  unfold claim at h
  by_cases hc : c < 0
  · simp [hc] at h; subst h; exact ⟨by omega, by simp [hc]⟩
  · by_cases hu : c ∈ used
    · simp [hc, hu] at h
    · simp [hc, hu] at h
      subst h
      exact ⟨fun _ => hu, by simp [hc]⟩

/-- `Load` accepts the child pointers of a node iff they are new and (if both present) different -/
theorem claimNode_ok {used : List Int} {n : Node} (hn : (kids n).Nodup) (hd : ∀ c ∈ kids n, c ∉ used) :
    ∃ u, claimNode used n = some u ∧ ∀ x, x ∈ u ↔ x ∈ kids n ∨ x ∈ used := by
  cases n with
  | leaf ls => exact ⟨used, rfl, by simp [kids]⟩
  | inner v lo0 up0 c0 lo1 up1 c1 =>
    simp only [kids] at hn hd
    simp only [claimNode]
    have h0 : 0 ≤ c0 → c0 ∉ used := fun h => hd c0 (by simp; left; omega)
    rw [claim_ok h0]
    have h1 : 0 ≤ c1 → c1 ∉ (if c0 < 0 then [] else [c0]) ++ used := by
      intro h hm
      rcases List.mem_append.mp hm with hm | hm
      · by_cases hc0 : c0 < 0
        · simp [hc0] at hm
        · have hc1 : ¬ c1 < 0 := by omega
          simp only [hc0, if_false, List.mem_singleton] at hm
          subst hm
          simp [hc1] at hn
      · exact hd c1 (by simp; right; omega) hm
    simp only []
    rw [claim_ok h1]
    refine ⟨_, rfl, ?_⟩
    intro x
    simp only [kids, List.mem_append]
    constructor
    · rintro (h | h | h)
      · exact Or.inl (Or.inr h)
      · exact Or.inl (Or.inl h)
      · exact Or.inr h
    · rintro ((h | h) | h)
      · exact Or.inr (Or.inl h)
      · exact Or.inl h
      · exact Or.inr (Or.inr h)

theorem claimNode_some {used u : List Int} {n : Node} (h : claimNode used n = some u) :
    (kids n).Nodup ∧ (∀ c ∈ kids n, c ∉ used) ∧ ∀ x, x ∈ u ↔ x ∈ kids n ∨ x ∈ used := by
  cases n with
  | leaf ls => simp only [claimNode, Option.some.injEq] at h; subst h; simp [kids]
  | inner v lo0 up0 c0 lo1 up1 c1 =>
    simp only [claimNode] at h
    cases h0 : claim used c0 with
    | none => rw [h0] at h; cases h
    | some u0 =>
      rw [h0] at h
      simp only [] at h
      obtain ⟨a0, rfl⟩ := claim_some h0
      obtain ⟨a1, rfl⟩ := claim_some h
      simp only [kids]
      refine ⟨?_, ?_, ?_⟩
      · by_cases hc0 : c0 < 0 <;> by_cases hc1 : c1 < 0 <;> simp [hc0, hc1]
        intro e; subst e
        exact a1 (by omega) (by simp [hc0])
      · intro c hc hu
        rcases List.mem_append.mp hc with hc | hc
        · by_cases hc0 : c0 < 0
          · simp [hc0] at hc
          · simp only [hc0, if_false, List.mem_singleton] at hc; subst hc; exact a0 (by omega) hu
        · by_cases hc1 : c1 < 0
          · simp [hc1] at hc
          · simp only [hc1, if_false, List.mem_singleton] at hc; subst hc
            exact a1 (by omega) (List.mem_append.mpr (Or.inr hu))
      · intro x
        simp only [List.mem_append]
        constructor
        · rintro (h | h | h)
          · exact Or.inl (Or.inr h)
          · exact Or.inl (Or.inl h)
          · exact Or.inr h
        · rintro ((h | h) | h)
          · exact Or.inr (Or.inl h)
          · exact Or.inl h
          · exact Or.inr (Or.inr h)

theorem loadNodes_saveNodes (bucket : Nat) (numpoints : Int) (extra : List Int) :
    ∀ (ns : List Node) (i : Nat) (used : List Int), NodesOK bucket numpoints i ns →
      (children ns).Nodup → (∀ c ∈ children ns, c ∉ used) →
      loadNodes bucket numpoints ns.length i used (saveNodes ns ++ extra) = .ok ns := by
  intro ns
  induction ns with
  | nil => intro i used _ _ _; simp [loadNodes]
  | cons n ns ih =>
    intro i used h hnd hdis
    obtain ⟨⟨hc, hl⟩, hrest⟩ := h
    simp only [children, List.nodup_append] at hnd
    obtain ⟨hk, hcs, hkc⟩ := hnd
    obtain ⟨u, hu, hmem⟩ := claimNode_ok (used := used) hk (fun c hc => hdis c (by simp [children, hc]))
    simp only [List.length_cons, loadNodes, saveNodes, List.append_assoc]
    rw [loadNode_saveNode bucket n _ hl]
    simp only [hc, Bool.not_true, hu]
    rw [ih (i + 1) u hrest hcs (by
      intro c hc hcu
      rcases (hmem c).mp hcu with h | h
      · exact hkc c h c hc rfl
      · exact hdis c (by simp [children, hc]) h)]
    simp

/-- a tree as `Save` writes it and `Load` accepts it -/
structure WellFormed (maxbucket : Int) (t : Tree) : Prop where
  bucket_lo : 0 ≤ t.bucket
  bucket_hi : t.bucket ≤ maxbucket
  size : (t.nodes.length : Int) ≤ t.numpoints
  cost : 0 ≤ t.cost
  nodes : NodesOK t.bucket.toNat t.numpoints 0 t.nodes
  /-- no node is the child of two parents (or twice the child of one): demanded by `Load` since fix 90dea91 -/
  noshare : (children t.nodes).Nodup

theorem load_save (realspec maxbucket : Int) (t : Tree) (extra : List Int) (h : WellFormed maxbucket t) :
    load realspec maxbucket (save realspec t ++ extra) = .ok t := by
  obtain ⟨h1, h2, h3, h4, h5, h6⟩ := h
  simp only [save, List.cons_append, List.nil_append, load]
  have hv : ¬ (version != version) = true := by simp
  have hr : ¬ (realspec != realspec) = true := by simp
  have hb : (0 ≤ t.bucket && t.bucket ≤ maxbucket) = true := by simp [h1, h2]
  have hs : ((0 : Int) ≤ (t.nodes.length : Int) && (t.nodes.length : Int) ≤ t.numpoints) = true := by
    simp [h3]
  have hc : (decide (0 ≤ t.cost)) = true := by simp [h4]
  simp only [hv, hr, hb, hs, hc, if_false, Bool.not_true, Bool.false_eq_true]
  have := loadNodes_saveNodes t.bucket.toNat t.numpoints extra t.nodes 0 [] h5 h6 (by simp)
  simp only [Int.toNat_natCast]
  rw [this]

/-- every node list accepted by `loadNodes` satisfies `Node::Check` with the node's own position as the bound on the
    child pointers -/
theorem loadNodes_ok (bucket : Nat) (numpoints : Int) :
    ∀ (m i : Nat) (used : List Int) (toks : List Int) (ns : List Node), loadNodes bucket numpoints m i used toks = .ok ns →
      ns.length = m ∧ (∀ j (n : Node), ns[j]? = some n → nodeCheck numpoints ((i + j : Nat) : Int) n = true) ∧
      (children ns).Nodup ∧ ∀ c ∈ children ns, c ∉ used := by
  intro m
  induction m with
  | zero => intro i used toks ns h; simp [loadNodes] at h; subst h; simp [children]
  | succ m ih =>
    intro i used toks ns h
    simp only [loadNodes] at h
    split at h
    · cases h
    · rename_i node rest hn
      split at h
      · cases h
      · rename_i hck
        split at h
        · cases h
        · rename_i used' hcl
          split at h
          · cases h
          · rename_i ns' hns
            cases h
            obtain ⟨hlen, hall, hnd, hdis⟩ := ih (i + 1) used' rest ns' hns
            obtain ⟨hk, hku, hmem⟩ := claimNode_some hcl
            refine ⟨by simp [hlen], ?_, ?_, ?_⟩
            · intro j n hj
              cases j with
              | zero =>
                simp at hj; subst hj
                simpa using hck
              | succ j =>
                simp at hj
                have := hall j n hj
                have e : i + 1 + j = i + (j + 1) := by omega
                rw [e] at this; exact this
            · simp only [children, List.nodup_append]
              refine ⟨hk, hnd, ?_⟩
              intro a ha b hb e
              subst e
              exact hdis a hb ((hmem a).mpr (Or.inl ha))
            · intro c hc
              simp only [children, List.mem_append] at hc
              rcases hc with hc | hc
              · exact hku c hc
              · intro hu; exact hdis c hc ((hmem c).mpr (Or.inr hu))


theorem kids_mem_children {ns : List Node} {j : Nat} {n : Node} {c : Int} (hj : ns[j]? = some n) (hc : c ∈ kids n) :
    c ∈ children ns := by
  induction ns generalizing j with
  | nil => simp at hj
  | cons m ms ih =>
    cases j with
    | zero => simp at hj; subst hj; simp [children, hc]
    | succ j => simp at hj; simp [children, ih hj]

/-- if the child list of a file has no duplicates, a node index named as a child has a unique parent -/
theorem parent_unique {ns : List Node} (hnd : (children ns).Nodup) {j1 j2 : Nat} {n1 n2 : Node} {c : Int}
    (h1 : ns[j1]? = some n1) (h2 : ns[j2]? = some n2) (c1 : c ∈ kids n1) (c2 : c ∈ kids n2) : j1 = j2 := by
  induction ns generalizing j1 j2 with
  | nil => simp at h1
  | cons m ms ih =>
    simp only [children, List.nodup_append] at hnd
    obtain ⟨_, hms, hdis⟩ := hnd
    cases j1 with
    | zero =>
      cases j2 with
      | zero => rfl
      | succ j2 =>
        simp at h1 h2; subst h1
        exact absurd rfl (hdis c c1 c (kids_mem_children h2 c2))
    | succ j1 =>
      cases j2 with
      | zero =>
        simp at h1 h2; subst h2
        exact absurd rfl (hdis c c2 c (kids_mem_children h1 c1))
      | succ j2 =>
        simp at h1 h2
        rw [ih hms h1 h2]

/-! ## insertion sort on `Int`, `k` smallest -/

theorem insInt_comm (a b : Int) (l : List Int) : insInt a (insInt b l) = insInt b (insInt a l) := by
  induction l with
  | nil => simp only [insInt]; split <;> split <;> simp_all <;> omega
  | cons y ys ih =>
    simp only [insInt]
    split <;> split <;> simp_all [insInt] <;> (try omega) <;> (repeat' split) <;> simp_all <;> omega

theorem sortAsc_cons (x : Int) (l : List Int) : sortAsc (x :: l) = insInt x (sortAsc l) := rfl

theorem sortAsc_perm {l1 l2 : List Int} (h : l1.Perm l2) : sortAsc l1 = sortAsc l2 := by
  induction h with
  | nil => rfl
  | cons x _ ih => simp only [sortAsc_cons, ih]
  | swap x y l => simp only [sortAsc_cons]; exact insInt_comm y x _
  | trans _ _ ih1 ih2 => exact ih1.trans ih2

theorem sortAsc_append (a b : List Int) : sortAsc (a ++ b) = a.foldr insInt (sortAsc b) := by
  simp [sortAsc, List.foldr_append]

theorem mem_insInt {x y : Int} {l : List Int} : y ∈ insInt x l ↔ y = x ∨ y ∈ l := by
  induction l with
  | nil => simp [insInt]
  | cons z zs ih =>
    simp only [insInt]; split
    · simp
    · simp [ih]; grind

theorem length_insInt (x : Int) (l : List Int) : (insInt x l).length = l.length + 1 := by
  induction l with
  | nil => simp [insInt]
  | cons z zs ih => simp only [insInt]; split <;> simp [ih]

theorem mem_sortAsc {y : Int} {l : List Int} : y ∈ sortAsc l ↔ y ∈ l := by
  induction l with
  | nil => simp [sortAsc]
  | cons z zs ih => rw [sortAsc_cons, mem_insInt, ih]; simp

theorem length_sortAsc (l : List Int) : (sortAsc l).length = l.length := by
  induction l with
  | nil => simp [sortAsc]
  | cons z zs ih => rw [sortAsc_cons, length_insInt, ih]; simp

abbrev Sorted (l : List Int) : Prop := l.Pairwise (· ≤ ·)

theorem sorted_insInt (x : Int) (l : List Int) (h : Sorted l) : Sorted (insInt x l) := by
  induction l with
  | nil => simp [insInt, Sorted]
  | cons z zs ih =>
    simp only [insInt]; split
    · rename_i hlt
      refine List.Pairwise.cons ?_ h
      intro w hw
      simp only [List.mem_cons] at hw
      rcases hw with rfl | hw
      · omega
      · have := (List.pairwise_cons.mp h).1 w hw; omega
    · rename_i hlt
      have h' := List.pairwise_cons.mp h
      refine List.Pairwise.cons ?_ (ih h'.2)
      intro w hw
      rcases mem_insInt.mp hw with rfl | hw
      · omega
      · exact h'.1 w hw

theorem sorted_sortAsc (l : List Int) : Sorted (sortAsc l) := by
  induction l with
  | nil => simp [sortAsc, Sorted]
  | cons z zs ih => rw [sortAsc_cons]; exact sorted_insInt z _ ih

/-- inserting an element that is `≤` everything puts it (as a value) in front -/
theorem insInt_le_all (x : Int) (l : List Int) (h : ∀ y ∈ l, x ≤ y) : insInt x l = x :: l := by
  induction l with
  | nil => rfl
  | cons z zs ih =>
    simp only [insInt]; split
    · rfl
    · have hz := h z (by simp)
      have : x = z := by omega
      subst this
      rw [ih (fun y hy => h y (by simp [hy]))]

theorem sortAsc_of_sorted (l : List Int) (h : Sorted l) : sortAsc l = l := by
  induction l with
  | nil => rfl
  | cons z zs ih =>
    have h' := List.pairwise_cons.mp h
    rw [sortAsc_cons, ih h'.2, insInt_le_all z zs h'.1]

/-- inserting an element that is `≥` a prefix passes over the prefix -/
theorem insInt_append_ge (y : Int) (r L : List Int) (h : ∀ x ∈ r, x ≤ y) : insInt y (r ++ L) = r ++ insInt y L := by
  induction r with
  | nil => rfl
  | cons x r ih =>
    have hx := h x (by simp)
    simp only [List.cons_append, insInt]
    have : ¬ y < x := by omega
    simp only [this, if_false]
    rw [ih (fun z hz => h z (by simp [hz]))]

theorem foldr_insInt_append_ge (Y r : List Int) (h : ∀ y ∈ Y, ∀ x ∈ r, x ≤ y) :
    Y.foldr insInt r = r ++ Y.foldr insInt [] := by
  induction Y with
  | nil => simp
  | cons y Y ih =>
    simp only [List.foldr_cons]
    rw [ih (fun y' hy' => h y' (by simp [hy']))]
    exact insInt_append_ge y r _ (h y (by simp))

/-- the first `k` elements after an insertion depend only on the first `k` elements before -/
theorem take_insInt (b : Int) : ∀ (k : Nat) (L : List Int), (insInt b L).take k = (insInt b (L.take k)).take k := by
  intro k
  induction k with
  | zero => intro L; simp
  | succ k ih =>
    intro L
    cases L with
    | nil => simp [insInt]
    | cons x xs =>
      simp only [List.take_succ_cons, insInt]
      split
      · simp only [List.take_succ_cons]
        congr 1
        cases k with
        | zero => simp
        | succ k => simp [List.take_take]
      · simp only [List.take_succ_cons]
        congr 1
        exact ih xs

/-- the `k` smallest, ascending -/
def kbest (k : Nat) (l : List Int) : List Int := (sortAsc l).take k

theorem kbest_perm {k : Nat} {l1 l2 : List Int} (h : l1.Perm l2) : kbest k l1 = kbest k l2 := by
  unfold kbest; rw [sortAsc_perm h]

theorem sorted_kbest (k : Nat) (l : List Int) : Sorted (kbest k l) :=
  List.Pairwise.sublist (List.take_sublist _ _) (sorted_sortAsc l)

theorem take_foldr_insInt (k : Nat) (B S : List Int) :
    (B.foldr insInt (S.take k)).take k = (B.foldr insInt S).take k := by
  induction B with
  | nil => simp [List.take_take]
  | cons b B ih =>
    simp only [List.foldr_cons]
    rw [take_insInt b k (B.foldr insInt (S.take k)), ih, ← take_insInt]

/-- absorption: the `k` best of (the `k` best of `A`) and `B` are the `k` best of `A` and `B` -/
theorem kbest_absorb (k : Nat) (A B : List Int) : kbest k (kbest k A ++ B) = kbest k (A ++ B) := by
  have e1 : kbest k (kbest k A ++ B) = kbest k (B ++ kbest k A) := kbest_perm List.perm_append_comm
  have e2 : kbest k (A ++ B) = kbest k (B ++ A) := kbest_perm List.perm_append_comm
  rw [e1, e2]
  unfold kbest
  rw [sortAsc_append, sortAsc_append]
  have : sortAsc ((sortAsc A).take k) = (sortAsc A).take k :=
    sortAsc_of_sorted _ (List.Pairwise.sublist (List.take_sublist _ _) (sorted_sortAsc A))
  rw [this]
  exact take_foldr_insInt k B (sortAsc A)

/-- a sorted list of at most `k` elements is its own `k` best -/
theorem kbest_self (k : Nat) (r : List Int) (hs : Sorted r) (hl : r.length ≤ k) : kbest k r = r := by
  unfold kbest; rw [sortAsc_of_sorted r hs]; exact List.take_of_length_le hl

/-- elements that are `≥` all of `k` sorted elements do not change the `k` best -/
theorem kbest_discard (k : Nat) (r Y : List Int) (hs : Sorted r) (hl : r.length = k)
    (h : ∀ y ∈ Y, ∀ x ∈ r, x ≤ y) : kbest k (r ++ Y) = r := by
  have e1 : kbest k (r ++ Y) = kbest k (Y ++ r) := kbest_perm List.perm_append_comm
  rw [e1]; unfold kbest
  rw [sortAsc_append, sortAsc_of_sorted r hs, foldr_insInt_append_ge Y r h]
  rw [List.take_append_of_le_length (by omega)]
  exact List.take_of_length_le (by omega)

/-- replacing the maximum of `k` sorted elements by a new element `x ≤` that maximum -/
theorem take_insInt_dropLast (x : Int) : ∀ (r : List Int), (∀ z, r.getLast? = some z → x ≤ z) → r ≠ [] →
    (insInt x r).take r.length = insInt x r.dropLast := by
  intro r
  induction r with
  | nil => intro _ h; exact absurd rfl h
  | cons a r ih =>
    intro hlast _
    cases r with
    | nil =>
      have := hlast a (by simp)
      simp only [insInt, List.length_singleton, List.dropLast_singleton]
      split
      · simp
      · have : x = a := by omega
        subst this; simp
    | cons b rest =>
      have hlast' : ∀ z, (b :: rest).getLast? = some z → x ≤ z := by
        intro z hz; apply hlast z; simpa [List.getLast?_cons_cons] using hz
      have ih' := ih hlast' (by simp)
      simp only [insInt, List.dropLast_cons_cons, List.length_cons] at ih' ⊢
      split
      · rename_i hxa
        simp only [List.take_succ_cons]
        congr 1
        have : (a :: b :: rest).take (rest.length + 1) = (a :: b :: rest).dropLast := by
          rw [List.dropLast_eq_take]; simp
        simpa using this
      · simp only [List.take_succ_cons]
        congr 1

/-! ## the result heap as a distance list -/

def dists (res : List Item) : List Int := res.map (·.1)

abbrev LexSorted (res : List Item) : Prop := res.Pairwise (fun a b => lexLt b a = false)

theorem le_of_lexLt_false {a b : Item} (h : lexLt b a = false) : a.1 ≤ b.1 := by
  simp only [lexLt, Bool.or_eq_false_iff, decide_eq_false_iff_not, Bool.and_eq_false_iff, beq_eq_false_iff_ne] at h
  omega

theorem le_of_lexLt {a b : Item} (h : lexLt a b = true) : a.1 ≤ b.1 := by
  simp only [lexLt, Bool.or_eq_true, decide_eq_true_eq, Bool.and_eq_true, beq_iff_eq] at h
  omega

theorem sorted_dists {L : List Item} (h : LexSorted L) : Sorted (dists L) := by
  unfold dists
  rw [Sorted, List.pairwise_map]
  exact h.imp (fun h => le_of_lexLt_false h)

theorem mem_insAsc {x y : Item} {l : List Item} : y ∈ insAsc x l ↔ y = x ∨ y ∈ l := by
  induction l with
  | nil => simp [insAsc]
  | cons z zs ih =>
    simp only [insAsc]; split
    · simp
    · simp [ih]; grind

theorem length_insAsc (x : Item) (l : List Item) : (insAsc x l).length = l.length + 1 := by
  induction l with
  | nil => simp [insAsc]
  | cons z zs ih => simp only [insAsc]; split <;> simp [ih]

theorem lexLt_trans_false {a b c : Item} (h1 : lexLt a b = true) (h2 : lexLt c b = false) : lexLt c a = false := by
  simp only [lexLt, Bool.or_eq_true, decide_eq_true_eq, Bool.and_eq_true, beq_iff_eq, Bool.or_eq_false_iff,
    decide_eq_false_iff_not, Bool.and_eq_false_iff, beq_eq_false_iff_ne] at *
  omega

theorem lexSorted_insAsc (x : Item) (l : List Item) (h : LexSorted l) : LexSorted (insAsc x l) := by
  induction l with
  | nil => simp [insAsc, LexSorted]
  | cons z zs ih =>
    have h' := List.pairwise_cons.mp h
    simp only [insAsc]; split
    · rename_i hlt
      refine List.Pairwise.cons ?_ h
      intro w hw
      simp only [List.mem_cons] at hw
      rcases hw with rfl | hw
      · simp only [lexLt, Bool.or_eq_true, decide_eq_true_eq, Bool.and_eq_true, beq_iff_eq, Bool.or_eq_false_iff,
          decide_eq_false_iff_not, Bool.and_eq_false_iff, beq_eq_false_iff_ne] at *
        omega
      · exact lexLt_trans_false hlt (h'.1 w hw)
    · rename_i hlt
      refine List.Pairwise.cons ?_ (ih h'.2)
      intro w hw
      rcases mem_insAsc.mp hw with rfl | hw
      · simpa using hlt
      · exact h'.1 w hw

theorem dists_insAsc (x i : Int) (L : List Item) (h : LexSorted L) : dists (insAsc (x, i) L) = insInt x (dists L) := by
  induction L with
  | nil => rfl
  | cons z zs ih =>
    have h' := List.pairwise_cons.mp h
    simp only [insAsc]; split
    · rename_i hlt
      have hle := le_of_lexLt hlt
      simp only [dists, List.map_cons, insInt] at hle ⊢
      split
      · rfl
      · have hxz : x = z.1 := by omega
        have hall : ∀ y ∈ List.map (·.1) zs, x ≤ y := by
          intro y hy
          obtain ⟨w, hw, rfl⟩ := List.mem_map.mp hy
          have := le_of_lexLt_false (h'.1 w hw); omega
        rw [insInt_le_all x _ hall, hxz]
    · rename_i hlt
      have : ¬ x < z.1 := by
        intro hc
        apply hlt
        simp [lexLt, hc]
      simp only [dists, List.map_cons, insInt, this, if_false]
      congr 1
      exact ih h'.2

theorem topDist_eq (L : List Item) : topDist L = (match (dists L).getLast? with | some z => z | none => 0) := by
  unfold topDist dists
  rw [List.getLast?_map]
  cases L.getLast? <;> rfl

theorem sorted_le_last {d : List Int} (h : Sorted d) {z : Int} (hz : d.getLast? = some z) : ∀ x ∈ d, x ≤ z := by
  induction d with
  | nil => simp
  | cons a d ih =>
    have h' := List.pairwise_cons.mp h
    cases d with
    | nil => simp at hz; subst hz; simp
    | cons b rest =>
      rw [List.getLast?_cons_cons] at hz
      intro x hx
      simp only [List.mem_cons] at hx
      rcases hx with rfl | hx
      · have hb := ih h'.2 hz b (by simp)
        have := h'.1 b (by simp); omega
      · exact ih h'.2 hz x (by simpa using hx)

/-! ## the invariant on `(tau, results)` and one visit -/

def tauOf (Q : Query) (k : Nat) (res : List Item) : Int := if res.length = k then topDist res else Q.maxdist

structure InvR (Q : Query) (k : Nat) (s : St) : Prop where
  sorted : LexSorted s.res
  len : s.res.length ≤ k
  win : ∀ x ∈ dists s.res, inWindow Q x = true
  tau : s.tau = tauOf Q k s.res

theorem inWindow_iff (Q : Query) (x : Int) : inWindow Q x = true ↔ Q.mindist < x ∧ x ≤ Q.maxdist := by
  simp [inWindow]

/-- when the heap is full `tau` is its largest distance -/
theorem tau_full {Q : Query} {k : Nat} {s : St} (h : InvR Q k s) (hk : 1 ≤ k) (hfull : s.res.length = k) :
    (dists s.res).getLast? = some s.tau ∧ (∀ x ∈ dists s.res, x ≤ s.tau) ∧ s.tau ≤ Q.maxdist := by
  have hne : dists s.res ≠ [] := by
    intro hc
    have h0 : (dists s.res).length = 0 := by rw [hc]; rfl
    have h1 : (dists s.res).length = s.res.length := by simp [dists]
    omega
  obtain ⟨z, hz⟩ : ∃ z, (dists s.res).getLast? = some z := by
    cases hl : (dists s.res).getLast? with
    | none => exact absurd (List.getLast?_eq_none_iff.mp hl) hne
    | some z => exact ⟨z, rfl⟩
  have htau : s.tau = z := by
    rw [h.tau, tauOf, if_pos hfull, topDist_eq, hz]
  subst htau
  refine ⟨hz, sorted_le_last (sorted_dists h.sorted) hz, ?_⟩
  have := (inWindow_iff Q _).mp (h.win _ (List.mem_of_getLast? hz))
  exact this.2

theorem tau_le_maxdist {Q : Query} {k : Nat} {s : St} (h : InvR Q k s) (hk : 1 ≤ k) : s.tau ≤ Q.maxdist := by
  by_cases hfull : s.res.length = k
  · exact (tau_full h hk hfull).2.2
  · rw [h.tau, tauOf, if_neg hfull]; exact Int.le_refl _

/-- candidates above `tau` (or outside the window) do not change the `k` best -/
theorem kbest_drop_irrelevant {Q : Query} {k : Nat} {s : St} (h : InvR Q k s) (hk : 1 ≤ k) (Y : List Int)
    (hY : ∀ y ∈ Y, inWindow Q y = true → s.tau < y) :
    kbest k (dists s.res ++ Y.filter (inWindow Q)) = dists s.res := by
  by_cases hfull : s.res.length = k
  · apply kbest_discard k _ _ (sorted_dists h.sorted) (by simp [dists, hfull])
    intro y hy x hx
    simp only [List.mem_filter] at hy
    have := hY y hy.1 hy.2
    have := (tau_full h hk hfull).2.1 x hx
    omega
  · have : Y.filter (inWindow Q) = [] := by
      rw [List.filter_eq_nil_iff]
      intro y hy hw
      have h1 := hY y hy hw
      rw [h.tau, tauOf, if_neg hfull] at h1
      have := ((inWindow_iff Q y).mp hw).2
      omega
    rw [this, List.append_nil]
    exact kbest_self k _ (sorted_dists h.sorted) (by simp [dists]; exact h.len)

theorem visit_spec (Q : Query) (k : Nat) (dq : Nat → Int) (s : St) (idx : Nat) (hk : 1 ≤ k)
    (hex : Q.exhaustive = true) (htol : Q.tol = 0) (h : InvR Q k s) :
    InvR Q k (visit Q k dq s idx) ∧
    dists (visit Q k dq s idx).res = kbest k (dists s.res ++ [dq idx].filter (inWindow Q)) ∧
    (s.exit = false → (visit Q k dq s idx).exit = true →
      (visit Q k dq s idx).res.length = k ∧ ∀ x ∈ dists (visit Q k dq s idx).res, x ≤ 0) := by
  have hsd := sorted_dists h.sorted
  unfold visit
  by_cases hacc : Q.mindist < dq idx ∧ dq idx ≤ s.tau
  · rw [if_pos hacc]
    have hwin : inWindow Q (dq idx) = true := (inWindow_iff Q _).mpr ⟨hacc.1, Int.le_trans hacc.2 (tau_le_maxdist h hk)⟩
    have hfilt : [dq idx].filter (inWindow Q) = [dq idx] := by simp [hwin]
    -- the base list after the optional pop
    have hbase_sorted : LexSorted (if s.res.length = k then s.res.dropLast else s.res) := by
      split
      · exact List.Pairwise.sublist (List.dropLast_sublist _) h.sorted
      · exact h.sorted
    have hr_sorted := lexSorted_insAsc (dq idx, (idx : Int)) _ hbase_sorted
    have hr_dists := dists_insAsc (dq idx) (idx : Int) _ hbase_sorted
    have hkb : kbest k (dists s.res ++ [dq idx]) = (insInt (dq idx) (dists s.res)).take k := by
      have e : kbest k (dists s.res ++ [dq idx]) = kbest k ([dq idx] ++ dists s.res) := kbest_perm List.perm_append_comm
      rw [e]; unfold kbest
      rw [sortAsc_append, sortAsc_of_sorted _ hsd]; rfl
    -- distances and length of the new heap
    have hnew : dists (insAsc (dq idx, (idx : Int)) (if s.res.length = k then s.res.dropLast else s.res)) =
          kbest k (dists s.res ++ [dq idx]) ∧
        (insAsc (dq idx, (idx : Int)) (if s.res.length = k then s.res.dropLast else s.res)).length ≤ k ∧
        ((insAsc (dq idx, (idx : Int)) (if s.res.length = k then s.res.dropLast else s.res)).length = k ∨ s.res.length ≠ k) := by
      rw [hr_dists, hkb, length_insAsc]
      by_cases hfull : s.res.length = k
      · simp only [if_pos hfull]
        have hlast := (tau_full h hk hfull).1
        have hdl : dists s.res.dropLast = (dists s.res).dropLast := by simp [dists, List.map_dropLast]
        have hlen : (dists s.res).length = k := by simp [dists, hfull]
        have hne : dists s.res ≠ [] := by intro hc; rw [hc] at hlen; simp at hlen; omega
        refine ⟨?_, ?_, ?_⟩
        · rw [hdl, ← hlen]
          exact (take_insInt_dropLast (dq idx) (dists s.res) (by intro z hz; rw [hlast] at hz; cases hz; exact hacc.2) hne).symm
        · simp [List.length_dropLast]; omega
        · left; simp [List.length_dropLast]; omega
      · simp only [if_neg hfull]
        have := h.len
        refine ⟨?_, by omega, Or.inr hfull⟩
        rw [List.take_of_length_le]
        rw [length_insInt]; simp [dists]; omega
    obtain ⟨hnd, hnl, hncase⟩ := hnew
    have hnwin : ∀ x ∈ dists (insAsc (dq idx, (idx : Int)) (if s.res.length = k then s.res.dropLast else s.res)), inWindow Q x = true := by
      intro x hx
      rw [hr_dists] at hx
      rcases mem_insInt.mp hx with rfl | hx
      · exact hwin
      · apply h.win
        split at hx
        · simp only [dists, List.map_dropLast] at hx
          exact (List.dropLast_sublist _).subset hx
        · exact hx
    unfold accept
    simp only [hfilt]
    by_cases hlen : (insAsc (dq idx, (idx : Int)) (if s.res.length = k then s.res.dropLast else s.res)).length = k
    · simp only [if_pos hlen, hex, if_true]
      refine ⟨⟨hr_sorted, hnl, hnwin, ?_⟩, hnd, ?_⟩
      · simp [tauOf, hlen]
      · intro _ hexit
        simp only [htol, decide_eq_true_eq] at hexit
        refine ⟨hlen, ?_⟩
        intro x hx
        rw [topDist_eq] at hexit
        cases hl : (dists (insAsc (dq idx, (idx : Int)) (if s.res.length = k then s.res.dropLast else s.res))).getLast? with
        | none =>
          have := List.getLast?_eq_none_iff.mp hl
          rw [this] at hx; simp at hx
        | some z =>
          rw [hl] at hexit
          have := sorted_le_last (sorted_dists hr_sorted) hl x hx
          simp only at hexit
          omega
    · simp only [if_neg hlen]
      have hnf : s.res.length ≠ k := by rcases hncase with h1 | h1; exact absurd h1 hlen; exact h1
      refine ⟨⟨hr_sorted, hnl, hnwin, ?_⟩, hnd, ?_⟩
      · show s.tau = _
        rw [h.tau]; unfold tauOf; rw [if_neg hnf, if_neg hlen]
      · intro he hexit
        rw [he] at hexit; cases hexit
  · rw [if_neg hacc]
    refine ⟨h, ?_, ?_⟩
    · symm
      apply kbest_drop_irrelevant h hk
      intro y hy hw
      simp only [List.mem_singleton] at hy
      subst hy
      have := (inWindow_iff Q _).mp hw
      omega
    · intro he hexit; rw [he] at hexit; cases hexit

/-! ## the tree invariant -/

/-- the tree a node index stands for (ghost): finite by construction, hence acyclic -/
inductive VT where
  | nil
  | leaf (pts : List Nat)
  | inner (v : Nat) (lo0 up0 lo1 up1 : Int) (t0 t1 : VT)

def VT.pts : VT → List Nat
  | .nil => []
  | .leaf p => p
  | .inner v _ _ _ _ t0 t1 => v :: (t0.pts ++ t1.pts)

/-- node `n` of the stored array represents the tree `t` (`n < 0`: the empty tree; bucket nodes are non-empty) -/
inductive Rep (tree : Array Node) (bucket : Nat) : Int → VT → Prop
  | nil {n : Int} : n < 0 → Rep tree bucket n .nil
  | leaf {n : Int} {ls : List Int} : 0 ≤ n → tree[n.toNat]? = some (.leaf ls) → validLeaves (ls.take bucket) ≠ [] →
      Rep tree bucket n (.leaf (validLeaves (ls.take bucket)))
  | inner {n : Int} {v : Nat} {lo0 up0 c0 lo1 up1 c1 : Int} {t0 t1 : VT} : 0 ≤ n →
      tree[n.toNat]? = some (.inner v lo0 up0 c0 lo1 up1 c1) → Rep tree bucket c0 t0 → Rep tree bucket c1 t1 →
      Rep tree bucket n (.inner v lo0 up0 lo1 up1 t0 t1)

/-- every point `p` of child `l` of a node with vantage point `v` has `lower[l] ≤ d v p ≤ upper[l]` -/
def Bounded (d : Nat → Nat → Int) : VT → Prop
  | .nil => True
  | .leaf _ => True
  | .inner v lo0 up0 lo1 up1 t0 t1 =>
    (∀ p ∈ t0.pts, lo0 ≤ d v p ∧ d v p ≤ up0) ∧ (∀ p ∈ t1.pts, lo1 ≤ d v p ∧ d v p ≤ up1) ∧ Bounded d t0 ∧ Bounded d t1

/-- `TreeInv`: the last node is the root of a (finite, hence acyclic) tree of nodes whose bounds enclose the distances
    of the children's points from the vantage point and in which every point index `0 … numpoints−1` occurs exactly once -/
def TreeInv (tree : Array Node) (bucket numpoints : Nat) (d : Nat → Nat → Int) : Prop :=
  ∃ t, Rep tree bucket ((tree.size : Int) - 1) t ∧ Bounded d t ∧ t.pts.Perm (List.range numpoints)

/-- what the search uses of the metric: distances to the query are non-negative and obey the triangle inequality with
    the inter-point distances in its three forms -/
structure MetricQ (d : Nat → Nat → Int) (dq : Nat → Int) : Prop where
  nonneg : ∀ p, 0 ≤ dq p
  tri1 : ∀ v p, dq p ≤ dq v + d v p
  tri2 : ∀ v p, d v p ≤ dq v + dq p
  tri3 : ∀ v p, dq v ≤ d v p + dq p

theorem rep_pts_ne_nil {tree : Array Node} {bucket : Nat} {n : Int} {t : VT} (h : Rep tree bucket n t) (hn : 0 ≤ n) :
    t.pts ≠ [] := by
  cases h with
  | nil h => omega
  | leaf _ _ h => exact h
  | inner => simp [VT.pts]

theorem rep_neg {tree : Array Node} {bucket : Nat} {n : Int} {t : VT} (h : Rep tree bucket n t) (hn : n < 0) :
    t.pts = [] := by
  cases h with
  | nil h => rfl
  | leaf h => omega
  | inner h => omega

/-! ## the `todo` queue with its ghost trees -/

inductive Zip (R : Item → VT → Prop) : List Item → List VT → Prop
  | nil : Zip R [] []
  | cons {x : Item} {t : VT} {xs : List Item} {ts : List VT} : R x t → Zip R xs ts → Zip R (x :: xs) (t :: ts)

theorem zip_insDesc {R : Item → VT → Prop} (x : Item) (t : VT) (hx : R x t) :
    ∀ (todo : List Item) (ts : List VT), Zip R todo ts → ∃ ts2, Zip R (insDesc x todo) ts2 ∧ ts2.Perm (t :: ts) := by
  intro todo ts h
  induction h with
  | nil => exact ⟨[t], Zip.cons hx Zip.nil, List.Perm.refl _⟩
  | @cons y u ys us hy hys ih =>
    simp only [insDesc]
    split
    · exact ⟨t :: u :: us, Zip.cons hx (Zip.cons hy hys), List.Perm.refl _⟩
    · obtain ⟨ts2, hz, hp⟩ := ih
      exact ⟨u :: ts2, Zip.cons hy hz, (List.Perm.cons u hp).trans (List.Perm.swap t u us)⟩

/-- distances to the query of all points below the nodes of `todo` -/
def D (dq : Nat → Int) (ts : List VT) : List Int := (ts.flatMap VT.pts).map dq

theorem D_cons (dq : Nat → Int) (t : VT) (ts : List VT) : D dq (t :: ts) = t.pts.map dq ++ D dq ts := by
  simp [D]

theorem D_perm (dq : Nat → Int) {ts1 ts2 : List VT} (h : ts1.Perm ts2) : (D dq ts1).Perm (D dq ts2) :=
  (h.flatMap_right VT.pts).map dq

def TodoR (tree : Array Node) (bucket : Nat) (d : Nat → Nat → Int) (dq : Nat → Int) (it : Item) (t : VT) : Prop :=
  0 ≤ it.2 ∧ Rep tree bucket it.2 t ∧ Bounded d t ∧ ∀ p ∈ t.pts, -it.1 ≤ dq p

/-- candidates that can still matter: inside the window and not beyond `tau` -/
def relv (Q : Query) (tau : Int) (y : Int) : Bool := decide (y ≤ tau) && inWindow Q y

theorem kbest_drop {Q : Query} {k : Nat} {s : St} (h : InvR Q k s) (hk : 1 ≤ k) (Y0 A : List Int)
    (hY : ∀ y ∈ Y0, inWindow Q y = true ∧ s.tau < y) :
    kbest k (dists s.res ++ (Y0 ++ A)) = kbest k (dists s.res ++ A) := by
  have h1 : kbest k (dists s.res ++ Y0) = dists s.res := by
    have hf : Y0.filter (inWindow Q) = Y0 := List.filter_eq_self.mpr (fun y hy => (hY y hy).1)
    have := kbest_drop_irrelevant h hk Y0 (fun y hy _ => (hY y hy).2)
    rwa [hf] at this
  rw [← List.append_assoc, ← kbest_absorb, h1]

theorem kbest_relv {Q : Query} {k : Nat} {s : St} (h : InvR Q k s) (hk : 1 ≤ k) (Y : List Int) :
    kbest k (dists s.res ++ Y.filter (inWindow Q)) = kbest k (dists s.res ++ Y.filter (relv Q s.tau)) := by
  have hp := List.filter_append_perm (fun y => decide (y ≤ s.tau)) (Y.filter (inWindow Q))
  have hA : (Y.filter (inWindow Q)).filter (fun y => decide (y ≤ s.tau)) = Y.filter (relv Q s.tau) := by
    rw [List.filter_filter]; rfl
  rw [hA] at hp
  have e1 : kbest k (dists s.res ++ Y.filter (inWindow Q)) =
      kbest k (dists s.res ++ ((Y.filter (inWindow Q)).filter (fun x => !decide (x ≤ s.tau)) ++ Y.filter (relv Q s.tau))) :=
    kbest_perm (List.Perm.append_left _ (hp.symm.trans List.perm_append_comm))
  rw [e1]
  apply kbest_drop h hk
  intro y hy
  simp only [List.mem_filter, Bool.not_eq_eq_eq_not, Bool.not_true, decide_eq_false_iff_not] at hy
  exact ⟨hy.1.2, by omega⟩

/-- an exit (`tau ≤ tol = 0` with a full heap) is final: everything else is at distance `≥ 0` -/
theorem kbest_exit {k : Nat} (r Y : List Int) (hs : Sorted r) (hl : r.length = k) (hneg : ∀ x ∈ r, x ≤ 0)
    (hY : ∀ y ∈ Y, 0 ≤ y) : kbest k (r ++ Y) = r :=
  kbest_discard k r Y hs hl (fun y hy x hx => Int.le_trans (hneg x hx) (hY y hy))

theorem visitLeaves_spec (Q : Query) (k : Nat) (dq : Nat → Int) (hk : 1 ≤ k) (hex : Q.exhaustive = true) (htol : Q.tol = 0) :
    ∀ (l : List Int) (s : St), InvR Q k s → s.exit = false →
      ∃ pre post, validLeaves l = pre ++ post ∧ InvR Q k (visitLeaves Q k dq s l) ∧
        dists (visitLeaves Q k dq s l).res = kbest k (dists s.res ++ (pre.map dq).filter (inWindow Q)) ∧
        ((visitLeaves Q k dq s l).exit = false → post = []) ∧
        ((visitLeaves Q k dq s l).exit = true →
          (visitLeaves Q k dq s l).res.length = k ∧ ∀ x ∈ dists (visitLeaves Q k dq s l).res, x ≤ 0) := by
  intro l
  induction l with
  | nil =>
    intro s h he
    refine ⟨[], [], rfl, h, ?_, fun _ => rfl, ?_⟩
    · simp only [visitLeaves, List.map_nil, List.filter_nil, List.append_nil]
      exact (kbest_self k _ (sorted_dists h.sorted) (by simp [dists]; exact h.len)).symm
    · intro hx; simp only [visitLeaves] at hx; rw [he] at hx; cases hx
  | cons i is ih =>
    intro s h he
    by_cases hi : i < 0
    · refine ⟨[], [], by simp [validLeaves, hi], ?_, ?_, fun _ => rfl, ?_⟩
      · simp only [visitLeaves, hi, if_true]; exact h
      · simp only [visitLeaves, hi, if_true, List.map_nil, List.filter_nil, List.append_nil]
        exact (kbest_self k _ (sorted_dists h.sorted) (by simp [dists]; exact h.len)).symm
      · intro hx; simp only [visitLeaves, hi, if_true] at hx; rw [he] at hx; cases hx
    · obtain ⟨h1, hd1, hx1⟩ := visit_spec Q k dq s i.toNat hk hex htol h
      have hv : validLeaves (i :: is) = i.toNat :: validLeaves is := by simp [validLeaves, hi]
      by_cases hexit : (visit Q k dq s i.toNat).exit = true
      · have hres : visitLeaves Q k dq s (i :: is) = visit Q k dq s i.toNat := by
          simp only [visitLeaves, hi, if_false, hexit, if_true]
        rw [hres]
        refine ⟨[i.toNat], validLeaves is, by rw [hv]; rfl, h1, ?_, ?_, fun _ => hx1 he hexit⟩
        · simpa using hd1
        · intro hc; rw [hexit] at hc; cases hc
      · have hexit' : (visit Q k dq s i.toNat).exit = false := by simpa using hexit
        have hres : visitLeaves Q k dq s (i :: is) = visitLeaves Q k dq (visit Q k dq s i.toNat) is := by
          simp only [visitLeaves, hi, if_false, hexit', Bool.false_eq_true]
        rw [hres]
        obtain ⟨pre, post, hpp, h2, hd2, hf2, hx2⟩ := ih (visit Q k dq s i.toNat) h1 hexit'
        refine ⟨i.toNat :: pre, post, by rw [hv, hpp]; rfl, h2, ?_, hf2, hx2⟩
        rw [hd2, hd1, kbest_absorb, List.append_assoc]
        congr 2
        simp [List.filter_cons]
        split <;> simp

/-! ## soundness of the pruning tests -/

theorem relv_nil_of {Q : Query} {tau : Int} {L : List Int} (h : ∀ y ∈ L, inWindow Q y = true → tau < y) :
    L.filter (relv Q tau) = [] := by
  rw [List.filter_eq_nil_iff]
  intro y hy hr
  simp only [relv, Bool.and_eq_true, decide_eq_true_eq] at hr
  have := h y hy hr.2
  omega

/-- one child: either it is pushed with a valid lower bound, or none of its points can enter the result -/
theorem pushChild_spec {tree : Array Node} {bucket : Nat} {d : Nat → Nat → Int} {dq : Nat → Int} (hm : MetricQ d dq)
    (Q : Query) (tau : Int) (v : Nat) (lo up c : Int) (tc : VT)
    (hrep : Rep tree bucket c tc) (hb : Bounded d tc) (hbd : ∀ p ∈ tc.pts, lo ≤ d v p ∧ d v p ≤ up)
    (todo : List Item) (ts : List VT) (h : Zip (TodoR tree bucket d dq) todo ts) :
    ∃ ts2, Zip (TodoR tree bucket d dq) (pushChild Q tau (dq v) lo up c todo) ts2 ∧
      (ts2.flatMap VT.pts).length ≤ (ts.flatMap VT.pts).length + tc.pts.length ∧
      ((D dq ts2).filter (relv Q tau)).Perm ((tc.pts.map dq).filter (relv Q tau) ++ (D dq ts).filter (relv Q tau)) := by
  -- the child is dropped
  have drop : (∀ p ∈ tc.pts, inWindow Q (dq p) = true → tau < dq p) →
      ∃ ts2, Zip (TodoR tree bucket d dq) todo ts2 ∧
      (ts2.flatMap VT.pts).length ≤ (ts.flatMap VT.pts).length + tc.pts.length ∧
      ((D dq ts2).filter (relv Q tau)).Perm ((tc.pts.map dq).filter (relv Q tau) ++ (D dq ts).filter (relv Q tau)) := by
    intro hall
    refine ⟨ts, h, by omega, ?_⟩
    rw [relv_nil_of (Q := Q) (tau := tau) (L := tc.pts.map dq)]
    · exact List.Perm.refl _
    · intro y hy; obtain ⟨p, hp, rfl⟩ := List.mem_map.mp hy; exact hall p hp
  -- the child is pushed with priority `prio`
  have push : ∀ prio : Int, 0 ≤ c → (∀ p ∈ tc.pts, -prio ≤ dq p) →
      ∃ ts2, Zip (TodoR tree bucket d dq) (insDesc (prio, c) todo) ts2 ∧
      (ts2.flatMap VT.pts).length ≤ (ts.flatMap VT.pts).length + tc.pts.length ∧
      ((D dq ts2).filter (relv Q tau)).Perm ((tc.pts.map dq).filter (relv Q tau) ++ (D dq ts).filter (relv Q tau)) := by
    intro prio hc hall
    obtain ⟨ts2, hz, hp⟩ := zip_insDesc (R := TodoR tree bucket d dq) (prio, c) tc ⟨hc, hrep, hb, hall⟩ todo ts h
    refine ⟨ts2, hz, ?_, ?_⟩
    · have := (hp.flatMap_right VT.pts).length_eq
      simp only [List.flatMap_cons, List.length_append] at this
      omega
    · have := (D_perm dq hp).filter (relv Q tau)
      rw [D_cons, List.filter_append] at this
      exact this
  unfold pushChild
  by_cases h1 : 0 ≤ c ∧ Q.mindist ≤ dq v + up
  · rw [if_pos h1]
    by_cases h2 : dq v < lo
    · rw [if_pos h2]
      by_cases h3 : lo - dq v ≤ tau
      · rw [if_pos h3]
        apply push _ h1.1
        intro p hp; have := hbd p hp; have := hm.tri2 v p; omega
      · rw [if_neg h3]
        apply drop
        intro p hp _; have := hbd p hp; have := hm.tri2 v p; omega
    · rw [if_neg h2]
      by_cases h4 : up < dq v
      · rw [if_pos h4]
        by_cases h5 : dq v - up ≤ tau
        · rw [if_pos h5]
          apply push _ h1.1
          intro p hp; have := hbd p hp; have := hm.tri3 v p; omega
        · rw [if_neg h5]
          apply drop
          intro p hp _; have := hbd p hp; have := hm.tri3 v p; omega
      · rw [if_neg h4]
        apply push _ h1.1
        intro p hp; have := hm.nonneg p; omega
  · rw [if_neg h1]
    apply drop
    intro p hp hw
    by_cases hc : 0 ≤ c
    · have hw' := (inWindow_iff Q _).mp hw
      have := hbd p hp; have := hm.tri1 v p
      omega
    · have := rep_neg hrep (by omega)
      rw [this] at hp; simp at hp

/-! ## the main loop -/

theorem loop_nil (tree : Array Node) (bucket : Nat) (dq : Nat → Int) (Q : Query) (k fuel : Nat) (s : St) :
    loop tree bucket dq Q k fuel [] s = some s := by
  cases fuel <;> rfl

theorem loop_spec {tree : Array Node} {bucket : Nat} {d : Nat → Nat → Int} {dq : Nat → Int} (hm : MetricQ d dq)
    (Q : Query) (k : Nat) (hk : 1 ≤ k) (hex : Q.exhaustive = true) (htol : Q.tol = 0) :
    ∀ (fuel : Nat) (todo : List Item) (ts : List VT) (s : St),
      Zip (TodoR tree bucket d dq) todo ts → InvR Q k s → s.exit = false → (ts.flatMap VT.pts).length ≤ fuel →
      ∃ s', loop tree bucket dq Q k fuel todo s = some s' ∧
        dists s'.res = kbest k (dists s.res ++ (D dq ts).filter (inWindow Q)) := by
  intro fuel
  induction fuel with
  | zero =>
    intro todo ts s hz h he hf
    cases hz with
    | nil =>
      refine ⟨s, loop_nil .., ?_⟩
      simp only [D, List.flatMap_nil, List.map_nil, List.filter_nil, List.append_nil]
      exact (kbest_self k _ (sorted_dists h.sorted) (by simp [dists]; exact h.len)).symm
    | @cons x t xs ts' hx hxs =>
      exfalso
      have := rep_pts_ne_nil hx.2.1 hx.1
      simp only [List.flatMap_cons, List.length_append] at hf
      have : t.pts.length ≠ 0 := by intro hc; exact this (List.length_eq_zero_iff.mp hc)
      omega
  | succ fuel ih =>
    intro todo ts s hz h he hf
    cases hz with
    | nil =>
      refine ⟨s, loop_nil .., ?_⟩
      simp only [D, List.flatMap_nil, List.map_nil, List.filter_nil, List.append_nil]
      exact (kbest_self k _ (sorted_dists h.sorted) (by simp [dists]; exact h.len)).symm
    | @cons x t xs ts' hx hxs =>
      obtain ⟨prio, n⟩ := x
      obtain ⟨hn, hrep, hbnd, hlow⟩ := hx
      simp only at hn hrep hlow
      have hne := rep_pts_ne_nil hrep hn
      have hlen : t.pts.length ≠ 0 := by intro hc; exact hne (List.length_eq_zero_iff.mp hc)
      simp only [List.flatMap_cons, List.length_append] at hf
      have hsd := sorted_dists h.sorted
      rw [loop]
      by_cases hgo : 0 ≤ n ∧ -prio ≤ s.tau - Q.tol
      · rw [if_pos hgo]
        cases hrep with
        | nil hneg => omega
        | @leaf _ ls _ hget hnonempty =>
          simp only [hget]
          obtain ⟨pre, post, hpp, h1, hd1, hf1, hx1⟩ := visitLeaves_spec Q k dq hk hex htol (ls.take bucket) s h he
          simp only [VT.pts] at hf hlow hlen
          have hD : D dq (VT.leaf (validLeaves (ls.take bucket)) :: ts') = pre.map dq ++ (post.map dq ++ D dq ts') := by
            rw [D_cons]; simp only [VT.pts]; rw [hpp, List.map_append, List.append_assoc]
          by_cases hexit : (visitLeaves Q k dq s (List.take bucket ls)).exit = true
          · rw [if_pos hexit]
            refine ⟨_, rfl, ?_⟩
            obtain ⟨hl1, hn1⟩ := hx1 hexit
            rw [hD, List.filter_append, ← List.append_assoc, ← kbest_absorb, ← hd1]
            symm
            apply kbest_exit _ _ (sorted_dists h1.sorted) (by simp [dists, hl1]) hn1
            intro y hy
            simp only [List.mem_filter, List.mem_append, List.mem_map, D] at hy
            rcases hy.1 with ⟨p, _, rfl⟩ | ⟨p, _, rfl⟩ <;> exact hm.nonneg p
          · rw [if_neg hexit]
            have hexit' : (visitLeaves Q k dq s (List.take bucket ls)).exit = false := by simpa using hexit
            have hpost := hf1 hexit'
            obtain ⟨s', hs', hd'⟩ := ih xs ts' _ hxs h1 hexit' (by omega)
            refine ⟨s', hs', ?_⟩
            rw [hd', hd1, kbest_absorb, hD, hpost]
            simp [List.filter_append, List.append_assoc]
        | @inner _ v lo0 up0 c0 lo1 up1 c1 t0 t1 _ hget hr0 hr1 =>
          simp only [hget]
          obtain ⟨h1, hd1, hx1⟩ := visit_spec Q k dq s v hk hex htol h
          simp only [VT.pts] at hf hlow hlen
          obtain ⟨hb0, hb1, hbd0, hbd1⟩ := hbnd
          have hD : D dq (VT.inner v lo0 up0 lo1 up1 t0 t1 :: ts') = [dq v] ++ ((t0.pts.map dq ++ t1.pts.map dq) ++ D dq ts') := by
            rw [D_cons]; simp [VT.pts]
          by_cases hexit : (visit Q k dq s v).exit = true
          · rw [if_pos hexit]
            refine ⟨_, rfl, ?_⟩
            obtain ⟨hl1, hn1⟩ := hx1 he hexit
            rw [hD, List.filter_append, ← List.append_assoc, ← kbest_absorb, ← hd1]
            symm
            apply kbest_exit _ _ (sorted_dists h1.sorted) (by simp [dists, hl1]) hn1
            intro y hy
            simp only [List.mem_filter, List.mem_append, List.mem_map, D] at hy
            rcases hy.1 with (⟨p, _, rfl⟩ | ⟨p, _, rfl⟩) | ⟨p, _, rfl⟩ <;> exact hm.nonneg p
          · rw [if_neg hexit]
            have hexit' : (visit Q k dq s v).exit = false := by simpa using hexit
            rw [htol, Int.sub_zero]
            obtain ⟨tsA, hzA, hlA, hpA⟩ := pushChild_spec hm Q (visit Q k dq s v).tau v lo0 up0 c0 t0 hr0 hbd0 hb0 xs ts' hxs
            obtain ⟨tsB, hzB, hlB, hpB⟩ := pushChild_spec hm Q (visit Q k dq s v).tau v lo1 up1 c1 t1 hr1 hbd1 hb1 _ tsA hzA
            simp only [List.length_cons, List.length_append] at hf
            obtain ⟨s', hs', hd'⟩ := ih _ tsB _ hzB h1 hexit' (by omega)
            refine ⟨s', hs', ?_⟩
            have e1 := kbest_relv h1 hk (D dq tsB)
            have e2 : kbest k (dists s.res ++ (D dq (VT.inner v lo0 up0 lo1 up1 t0 t1 :: ts')).filter (inWindow Q)) =
                kbest k (dists (visit Q k dq s v).res ++ ((t0.pts.map dq ++ t1.pts.map dq) ++ D dq ts').filter (inWindow Q)) := by
              rw [hD, List.filter_append, ← List.append_assoc, ← kbest_absorb, ← hd1]
            have e3 := kbest_relv h1 hk ((t0.pts.map dq ++ t1.pts.map dq) ++ D dq ts')
            rw [hd', e1, e2, e3]
            apply kbest_perm
            apply List.Perm.append_left
            refine hpB.trans ?_
            refine (List.Perm.append_left _ hpA).trans ?_
            simp only [List.filter_append, ← List.append_assoc]
            exact List.Perm.append_right _ List.perm_append_comm
      · rw [if_neg hgo]
        obtain ⟨s', hs', hd'⟩ := ih xs ts' s hxs h he (by omega)
        refine ⟨s', hs', ?_⟩
        rw [hd', D_cons, List.filter_append]
        symm
        apply kbest_drop h hk
        intro y hy
        simp only [List.mem_filter, List.mem_map] at hy
        obtain ⟨⟨p, hp, rfl⟩, hw⟩ := hy
        refine ⟨hw, ?_⟩
        have := hlow p hp
        rw [htol] at hgo
        omega

/-! ## `Search` -/

theorem search_spec {tree : Array Node} {bucket numpoints : Nat} {d : Nat → Nat → Int} {dq : Nat → Int}
    (hm : MetricQ d dq) (Q : Query) (hex : Q.exhaustive = true) (htol : Q.tol = 0)
    (hinv : TreeInv tree bucket numpoints d) :
    ∃ res, search tree numpoints bucket dq Q = some res ∧ dists res = bruteforce numpoints dq Q := by
  unfold search
  by_cases hc : numpoints > 0 ∧ Q.k > 0 ∧ Q.maxdist > Q.mindist
  · rw [if_pos hc]
    obtain ⟨t, hrep, hb, hperm⟩ := hinv
    have hlen : t.pts.length = numpoints := by rw [hperm.length_eq, List.length_range]
    have hroot : 0 ≤ (tree.size : Int) - 1 := by
      by_cases hneg : (tree.size : Int) - 1 < 0
      · have := rep_neg hrep hneg
        rw [this] at hlen; simp at hlen; omega
      · omega
    have hk : 1 ≤ Q.k.toNat := by omega
    have hz : Zip (TodoR tree bucket d dq) [(1, (tree.size : Int) - 1)] [t] :=
      Zip.cons ⟨hroot, hrep, hb, fun p _ => by have := hm.nonneg p; omega⟩ Zip.nil
    have h0 : InvR Q Q.k.toNat { tau := Q.maxdist, res := [], exit := false } := by
      refine ⟨List.Pairwise.nil, by simp, by simp [dists], ?_⟩
      simp only [tauOf, List.length_nil]
      rw [if_neg (by omega)]
    obtain ⟨s', hs', hd'⟩ := loop_spec hm Q Q.k.toNat hk hex htol numpoints _ [t] _ hz h0 rfl (by simp [hlen])
    refine ⟨s'.res, by rw [hs']; rfl, ?_⟩
    rw [hd']
    simp only [dists, List.map_nil, List.nil_append, bruteforce]
    show kbest _ _ = kbest _ _
    apply kbest_perm
    apply List.Perm.filter
    simp only [D, List.flatMap_cons, List.flatMap_nil, List.append_nil]
    exact hperm.map dq
  · rw [if_neg hc]
    refine ⟨[], rfl, ?_⟩
    simp only [dists, List.map_nil, bruteforce]
    by_cases h1 : numpoints > 0
    · by_cases h2 : Q.k > 0
      · have h3 : ¬ Q.maxdist > Q.mindist := fun h3 => hc ⟨h1, h2, h3⟩
        have : ((List.range numpoints).map dq).filter (inWindow Q) = [] := by
          rw [List.filter_eq_nil_iff]
          intro y _ hw
          have := (inWindow_iff Q y).mp hw
          omega
        rw [this]; simp [sortAsc]
      · have : Q.k.toNat = 0 := by omega
        rw [this]; simp
    · have : numpoints = 0 := by omega
      subst this; simp [sortAsc]

/-! ## the executable invariant check is sound -/

theorem checkSub_sound (tree : Array Node) (bucket : Nat) (d : Nat → Nat → Int) :
    ∀ (f : Nat) (n : Int) (pts : List Nat), checkSub tree bucket d f n = some pts →
      ∃ t, Rep tree bucket n t ∧ Bounded d t ∧ t.pts = pts := by
  intro f
  induction f with
  | zero =>
    intro n pts h
    simp only [checkSub] at h
    by_cases hn : n < 0
    · rw [if_pos hn] at h; cases h; exact ⟨.nil, Rep.nil hn, trivial, rfl⟩
    · rw [if_neg hn] at h; cases h
  | succ f ih =>
    intro n pts h
    simp only [checkSub] at h
    by_cases hn : n < 0
    · rw [if_pos hn] at h; cases h; exact ⟨.nil, Rep.nil hn, trivial, rfl⟩
    · rw [if_neg hn] at h
      cases hget : tree[n.toNat]? with
      | none => simp only [hget] at h; cases h
      | some node =>
        simp only [hget] at h
        cases node with
        | leaf ls =>
          simp only at h
          by_cases he : (validLeaves (ls.take bucket)).isEmpty = true
          · rw [if_pos he] at h; cases h
          · rw [if_neg he] at h; cases h
            refine ⟨.leaf (validLeaves (ls.take bucket)), Rep.leaf (by omega) hget ?_, trivial, rfl⟩
            intro hc; rw [hc] at he; simp at he
        | inner v lo0 up0 c0 lo1 up1 c1 =>
          simp only at h
          by_cases hc : c0 < n ∧ c1 < n
          · rw [if_pos hc] at h
            cases h0 : checkSub tree bucket d f c0 with
            | none => simp only [h0] at h; cases h
            | some p0 =>
              cases h1 : checkSub tree bucket d f c1 with
              | none => simp only [h0, h1] at h; cases h
              | some p1 =>
                simp only [h0, h1] at h
                by_cases hall : (p0.all (fun p => decide (lo0 ≤ d v p) && decide (d v p ≤ up0)) &&
                    p1.all (fun p => decide (lo1 ≤ d v p) && decide (d v p ≤ up1))) = true
                · rw [if_pos hall] at h; cases h
                  obtain ⟨t0, hr0, hb0, hp0⟩ := ih c0 p0 h0
                  obtain ⟨t1, hr1, hb1, hp1⟩ := ih c1 p1 h1
                  simp only [Bool.and_eq_true, List.all_eq_true, decide_eq_true_eq] at hall
                  refine ⟨.inner v lo0 up0 lo1 up1 t0 t1, Rep.inner (by omega) hget hr0 hr1, ?_, by simp [VT.pts, hp0, hp1]⟩
                  refine ⟨?_, ?_, hb0, hb1⟩
                  · intro p hp; rw [hp0] at hp; exact hall.1 p hp
                  · intro p hp; rw [hp1] at hp; exact hall.2 p hp
                · rw [if_neg hall] at h; cases h
          · rw [if_neg hc] at h; cases h

theorem insNat_perm (x : Nat) (l : List Nat) : (insNat x l).Perm (x :: l) := by
  induction l with
  | nil => exact List.Perm.refl _
  | cons y ys ih =>
    simp only [insNat]; split
    · exact List.Perm.refl _
    · exact (List.Perm.cons y ih).trans (List.Perm.swap x y ys)

theorem foldr_insNat_perm (l : List Nat) : (l.foldr insNat []).Perm l := by
  induction l with
  | nil => exact List.Perm.refl _
  | cons x xs ih => exact (insNat_perm x _).trans (List.Perm.cons x ih)

theorem checkInv_sound' (tree : Array Node) (numpoints bucket : Nat) (d : Nat → Nat → Int)
    (h : checkInv tree numpoints bucket d = true) : TreeInv tree bucket numpoints d := by
  unfold checkInv at h
  cases hs : checkSub tree bucket d tree.size ((tree.size : Int) - 1) with
  | none => simp only [hs] at h; cases h
  | some pts =>
    simp only [hs, beq_iff_eq] at h
    obtain ⟨t, hr, hb, hp⟩ := checkSub_sound tree bucket d _ _ _ hs
    refine ⟨t, hr, hb, ?_⟩
    rw [hp, ← h]
    exact (foldr_insNat_perm pts).symm

/-! ## the returned items are distinct points of the set with their distances -/

def idxs (res : List Item) : List Int := res.map (·.2)
def ptsI (ts : List VT) : List Int := (ts.flatMap VT.pts).map Int.ofNat

theorem insAsc_perm (x : Item) (l : List Item) : (insAsc x l).Perm (x :: l) := by
  induction l with
  | nil => exact List.Perm.refl _
  | cons y ys ih =>
    simp only [insAsc]; split
    · exact List.Perm.refl _
    · exact (List.Perm.cons y ih).trans (List.Perm.swap x y ys)

theorem accept_res (Q : Query) (k : Nat) (s : St) (dst : Int) (idx : Nat) :
    (accept Q k s dst idx).res = insAsc (dst, (idx : Int)) (if s.res.length = k then s.res.dropLast else s.res) := by
  unfold accept
  by_cases h1 : (insAsc (dst, (idx : Int)) (if s.res.length = k then s.res.dropLast else s.res)).length = k
  · simp only [h1, if_true]
    by_cases h2 : Q.exhaustive = true <;> simp [h2]
  · simp only [h1, if_false]

theorem visit_items (Q : Query) (k : Nat) (dq : Nat → Int) (s : St) (idx : Nat) :
    (∀ a, (idxs (visit Q k dq s idx).res).count a ≤ (idxs s.res).count a + [(idx : Int)].count a) ∧
    (∀ it ∈ (visit Q k dq s idx).res, it ∈ s.res ∨ it = (dq idx, (idx : Int))) := by
  have key : ∀ base : List Item, base.Sublist s.res →
      (∀ a, (idxs (insAsc (dq idx, (idx : Int)) base)).count a ≤ (idxs s.res).count a + [(idx : Int)].count a) ∧
      (∀ it ∈ insAsc (dq idx, (idx : Int)) base, it ∈ s.res ∨ it = (dq idx, (idx : Int))) := by
    intro base hb
    constructor
    · intro a
      have h1 := ((insAsc_perm (dq idx, (idx : Int)) base).map (·.2)).count_eq a
      have h2 := (hb.map (·.2)).count_le a
      simp only [idxs, List.map_cons, List.count_cons, List.count_nil] at *
      omega
    · intro it hit
      rcases mem_insAsc.mp hit with rfl | h
      · exact Or.inr rfl
      · exact Or.inl (hb.subset h)
  have hbase : (if s.res.length = k then s.res.dropLast else s.res).Sublist s.res := by
    split
    · exact List.dropLast_sublist _
    · exact List.Sublist.refl _
  unfold visit
  split
  · rw [accept_res]
    exact key _ hbase
  · exact ⟨fun a => Nat.le_add_right _ _, fun it h => Or.inl h⟩

theorem visitLeaves_items (Q : Query) (k : Nat) (dq : Nat → Int) :
    ∀ (l : List Int) (s : St),
      (∀ a, (idxs (visitLeaves Q k dq s l).res).count a ≤ (idxs s.res).count a + ((validLeaves l).map Int.ofNat).count a) ∧
      (∀ it ∈ (visitLeaves Q k dq s l).res, it ∈ s.res ∨ ∃ p ∈ validLeaves l, it = (dq p, (p : Int))) := by
  intro l
  induction l with
  | nil => intro s; exact ⟨fun a => Nat.le_add_right _ _, fun it h => Or.inl h⟩
  | cons i is ih =>
    intro s
    by_cases hi : i < 0
    · simp only [visitLeaves, hi, if_true]
      exact ⟨fun a => Nat.le_add_right _ _, fun it h => Or.inl h⟩
    · have hv : validLeaves (i :: is) = i.toNat :: validLeaves is := by simp [validLeaves, hi]
      obtain ⟨v1, v2⟩ := visit_items Q k dq s i.toNat
      rw [hv]
      by_cases hexit : (visit Q k dq s i.toNat).exit = true
      · have hres : visitLeaves Q k dq s (i :: is) = visit Q k dq s i.toNat := by
          simp only [visitLeaves, hi, if_false, hexit, if_true]
        rw [hres]
        constructor
        · intro a
          have := v1 a
          simp only [List.map_cons, List.count_cons, List.count_nil, Int.ofNat_eq_natCast] at *
          omega
        · intro it hit
          rcases v2 it hit with h | h
          · exact Or.inl h
          · exact Or.inr ⟨i.toNat, by simp, h⟩
      · have hexit' : (visit Q k dq s i.toNat).exit = false := by simpa using hexit
        have hres : visitLeaves Q k dq s (i :: is) = visitLeaves Q k dq (visit Q k dq s i.toNat) is := by
          simp only [visitLeaves, hi, if_false, hexit', Bool.false_eq_true]
        rw [hres]
        obtain ⟨w1, w2⟩ := ih (visit Q k dq s i.toNat)
        constructor
        · intro a
          have := v1 a; have := w1 a
          simp only [List.map_cons, List.count_cons, List.count_nil, Int.ofNat_eq_natCast] at *
          omega
        · intro it hit
          rcases w2 it hit with h | ⟨p, hp, h⟩
          · rcases v2 it h with h | h
            · exact Or.inl h
            · exact Or.inr ⟨i.toNat, by simp, h⟩
          · exact Or.inr ⟨p, by simp [hp], h⟩

def RepR (tree : Array Node) (bucket : Nat) (it : Item) (t : VT) : Prop := Rep tree bucket it.2 t

theorem pushChild_items {tree : Array Node} {bucket : Nat} (Q : Query) (tau dst lo up c : Int) (tc : VT)
    (hrep : Rep tree bucket c tc) (todo : List Item) (ts : List VT) (h : Zip (RepR tree bucket) todo ts) :
    ∃ ts2, Zip (RepR tree bucket) (pushChild Q tau dst lo up c todo) ts2 ∧
      (∀ a, (ptsI ts2).count a ≤ (ptsI ts).count a + (tc.pts.map Int.ofNat).count a) ∧
      (∀ p ∈ ts2.flatMap VT.pts, p ∈ ts.flatMap VT.pts ∨ p ∈ tc.pts) := by
  have keep : ∃ ts2, Zip (RepR tree bucket) todo ts2 ∧
      (∀ a, (ptsI ts2).count a ≤ (ptsI ts).count a + (tc.pts.map Int.ofNat).count a) ∧
      (∀ p ∈ ts2.flatMap VT.pts, p ∈ ts.flatMap VT.pts ∨ p ∈ tc.pts) :=
    ⟨ts, h, fun a => Nat.le_add_right _ _, fun p hp => Or.inl hp⟩
  have push : ∀ prio : Int, ∃ ts2, Zip (RepR tree bucket) (insDesc (prio, c) todo) ts2 ∧
      (∀ a, (ptsI ts2).count a ≤ (ptsI ts).count a + (tc.pts.map Int.ofNat).count a) ∧
      (∀ p ∈ ts2.flatMap VT.pts, p ∈ ts.flatMap VT.pts ∨ p ∈ tc.pts) := by
    intro prio
    obtain ⟨ts2, hz, hp⟩ := zip_insDesc (R := RepR tree bucket) (prio, c) tc hrep todo ts h
    refine ⟨ts2, hz, fun a => ?_, fun p hpp => ?_⟩
    · have := ((hp.flatMap_right VT.pts).map Int.ofNat).count_eq a
      simp only [ptsI, List.flatMap_cons, List.map_append, List.count_append] at *
      omega
    · have := (hp.flatMap_right VT.pts).subset hpp
      simp only [List.flatMap_cons, List.mem_append] at this
      rcases this with h1 | h1
      · exact Or.inr h1
      · exact Or.inl h1
  unfold pushChild
  repeat' split
  all_goals first | exact keep | exact push _

theorem loop_items {tree : Array Node} {bucket : Nat} {dq : Nat → Int} (Q : Query) (k : Nat) :
    ∀ (fuel : Nat) (todo : List Item) (ts : List VT) (s s' : St),
      Zip (RepR tree bucket) todo ts → loop tree bucket dq Q k fuel todo s = some s' →
      (∀ a, (idxs s'.res).count a ≤ (idxs s.res).count a + (ptsI ts).count a) ∧
      (∀ it ∈ s'.res, it ∈ s.res ∨ ∃ p ∈ ts.flatMap VT.pts, it = (dq p, (p : Int))) := by
  intro fuel
  induction fuel with
  | zero =>
    intro todo ts s s' hz h
    cases hz with
    | nil =>
      rw [loop_nil] at h; cases h
      exact ⟨fun a => Nat.le_add_right _ _, fun it h => Or.inl h⟩
    | cons hx hxs => simp [loop] at h
  | succ fuel ih =>
    intro todo ts s s' hz h
    cases hz with
    | nil =>
      rw [loop_nil] at h; cases h
      exact ⟨fun a => Nat.le_add_right _ _, fun it h => Or.inl h⟩
    | @cons x t xs ts' hx hxs =>
      obtain ⟨prio, n⟩ := x
      have hrep : Rep tree bucket n t := hx
      rw [loop] at h
      have hP : ∀ a, (ptsI (t :: ts')).count a = (t.pts.map Int.ofNat).count a + (ptsI ts').count a := by
        intro a; simp [ptsI, List.count_append]
      by_cases hgo : 0 ≤ n ∧ -prio ≤ s.tau - Q.tol
      · rw [if_pos hgo] at h
        cases hrep with
        | nil hneg => omega
        | @leaf _ ls _ hget hnonempty =>
          simp only [hget] at h
          obtain ⟨v1, v2⟩ := visitLeaves_items Q k dq (ls.take bucket) s
          by_cases hexit : (visitLeaves Q k dq s (List.take bucket ls)).exit = true
          · rw [if_pos hexit] at h; cases h
            constructor
            · intro a; have := v1 a; rw [hP a]; simp only [VT.pts]; omega
            · intro it hit
              rcases v2 it hit with h1 | ⟨p, hp, h1⟩
              · exact Or.inl h1
              · exact Or.inr ⟨p, by simp [VT.pts, hp], h1⟩
          · rw [if_neg hexit] at h
            obtain ⟨w1, w2⟩ := ih xs ts' _ s' hxs h
            constructor
            · intro a; have := v1 a; have := w1 a; rw [hP a]; simp only [VT.pts]; omega
            · intro it hit
              rcases w2 it hit with h1 | ⟨p, hp, h1⟩
              · rcases v2 it h1 with h2 | ⟨p, hp, h2⟩
                · exact Or.inl h2
                · exact Or.inr ⟨p, by simp [VT.pts, hp], h2⟩
              · exact Or.inr ⟨p, by simp [hp], h1⟩
        | @inner _ v lo0 up0 c0 lo1 up1 c1 t0 t1 _ hget hr0 hr1 =>
          simp only [hget] at h
          obtain ⟨v1, v2⟩ := visit_items Q k dq s v
          have hPi : ∀ a, ((VT.inner v lo0 up0 lo1 up1 t0 t1).pts.map Int.ofNat).count a =
              [(v : Int)].count a + (t0.pts.map Int.ofNat).count a + (t1.pts.map Int.ofNat).count a := by
            intro a; simp [VT.pts, List.count_append, List.count_cons]; omega
          by_cases hexit : (visit Q k dq s v).exit = true
          · rw [if_pos hexit] at h; cases h
            constructor
            · intro a; have := v1 a; rw [hP a, hPi a]; omega
            · intro it hit
              rcases v2 it hit with h1 | h1
              · exact Or.inl h1
              · exact Or.inr ⟨v, by simp [VT.pts], h1⟩
          · rw [if_neg hexit] at h
            obtain ⟨tsA, hzA, hcA, hmA⟩ := pushChild_items Q ((visit Q k dq s v).tau - Q.tol) (dq v) lo0 up0 c0 t0 hr0 xs ts' hxs
            obtain ⟨tsB, hzB, hcB, hmB⟩ := pushChild_items Q ((visit Q k dq s v).tau - Q.tol) (dq v) lo1 up1 c1 t1 hr1 _ tsA hzA
            obtain ⟨w1, w2⟩ := ih _ tsB _ s' hzB h
            constructor
            · intro a
              have := v1 a; have := w1 a; have := hcA a; have := hcB a
              rw [hP a, hPi a]; omega
            · intro it hit
              rcases w2 it hit with h1 | ⟨p, hp, h1⟩
              · rcases v2 it h1 with h2 | h2
                · exact Or.inl h2
                · exact Or.inr ⟨v, by simp [VT.pts], h2⟩
              · refine Or.inr ⟨p, ?_, h1⟩
                rcases hmB p hp with h3 | h3
                · rcases hmA p h3 with h4 | h4
                  · simp [h4]
                  · simp [VT.pts, h4]
                · simp [VT.pts, h3]
      · rw [if_neg hgo] at h
        obtain ⟨w1, w2⟩ := ih xs ts' s s' hxs h
        constructor
        · intro a; have := w1 a; rw [hP a]; omega
        · intro it hit
          rcases w2 it hit with h1 | ⟨p, hp, h1⟩
          · exact Or.inl h1
          · exact Or.inr ⟨p, by simp [hp], h1⟩

theorem nodup_range_int (n : Nat) : ((List.range n).map Int.ofNat).Nodup := by
  rw [List.Nodup, List.pairwise_map]
  exact (List.nodup_range (n := n)).imp (fun h hc => h (Int.ofNat.inj hc))

/-- the items `Search` returns are pairs `(dist(pt i, query), i)` for pairwise distinct indices `i < numpoints` -/
theorem search_items {tree : Array Node} {bucket numpoints : Nat} {d : Nat → Nat → Int} {dq : Nat → Int} (Q : Query)
    (hinv : TreeInv tree bucket numpoints d) (res : List Item) (h : search tree numpoints bucket dq Q = some res) :
    (res.map (·.2)).Nodup ∧ ∀ it ∈ res, ∃ p, p < numpoints ∧ it = (dq p, (p : Int)) := by
  unfold search at h
  by_cases hc : numpoints > 0 ∧ Q.k > 0 ∧ Q.maxdist > Q.mindist
  · rw [if_pos hc] at h
    obtain ⟨t, hrep, _, hperm⟩ := hinv
    cases hl : loop tree bucket dq Q Q.k.toNat numpoints [(1, (tree.size : Int) - 1)] { tau := Q.maxdist, res := [], exit := false } with
    | none => rw [hl] at h; cases h
    | some s' =>
      rw [hl] at h; simp only [Option.map_some, Option.some.injEq] at h; subst h
      obtain ⟨w1, w2⟩ := loop_items Q Q.k.toNat numpoints _ [t] _ s' (Zip.cons (show RepR tree bucket (1, (tree.size : Int) - 1) t from hrep) Zip.nil) hl
      constructor
      · rw [List.nodup_iff_count]
        intro a
        have h1 := w1 a
        have h2 : (ptsI [t]).count a = ((List.range numpoints).map Int.ofNat).count a := by
          simp only [ptsI, List.flatMap_cons, List.flatMap_nil, List.append_nil]
          exact (hperm.map Int.ofNat).count_eq a
        have h3 := (List.nodup_iff_count.mp (nodup_range_int numpoints)) a
        simp only [idxs, List.map_nil, List.count_nil] at h1
        simp only [idxs] at *
        omega
      · intro it hit
        rcases w2 it hit with h1 | ⟨p, hp, h1⟩
        · simp at h1
        · simp only [List.flatMap_cons, List.flatMap_nil, List.append_nil] at hp
          have := hperm.subset hp
          exact ⟨p, List.mem_range.mp this, h1⟩
  · rw [if_neg hc] at h; cases h
    exact ⟨List.Pairwise.nil, fun it h => by simp at h⟩

/-! ## `exhaustive = false`: the first `k` points found in the window; fewer than `k` results ⇒ the search was exhaustive -/

/-- invariant while fewer than `k` results have been found: `tau` is still `maxdist` -/
structure InvN (Q : Query) (k : Nat) (s : St) : Prop where
  sorted : LexSorted s.res
  len : s.res.length < k
  win : ∀ x ∈ dists s.res, inWindow Q x = true
  tau : s.tau = Q.maxdist
  exit : s.exit = false

theorem visit_ne (Q : Query) (k : Nat) (dq : Nat → Int) (s : St) (idx : Nat)
    (hex : Q.exhaustive = false) (h : InvN Q k s) :
    ((visit Q k dq s idx).exit = false → InvN Q k (visit Q k dq s idx) ∧
      dists (visit Q k dq s idx).res = sortAsc (dists s.res ++ [dq idx].filter (inWindow Q))) ∧
    ((visit Q k dq s idx).exit = true → (visit Q k dq s idx).res.length = k ∧
      ∀ x ∈ dists (visit Q k dq s idx).res, inWindow Q x = true) := by
  have hsd := sorted_dists h.sorted
  have hlen := h.len
  unfold visit
  by_cases hacc : Q.mindist < dq idx ∧ dq idx ≤ s.tau
  · rw [if_pos hacc]
    have hwin : inWindow Q (dq idx) = true := (inWindow_iff Q _).mpr ⟨hacc.1, by rw [h.tau] at hacc; exact hacc.2⟩
    have hfilt : [dq idx].filter (inWindow Q) = [dq idx] := by simp [hwin]
    have hne : s.res.length ≠ k := by omega
    have hr_sorted := lexSorted_insAsc (dq idx, (idx : Int)) _ h.sorted
    have hr_dists := dists_insAsc (dq idx) (idx : Int) _ h.sorted
    have hsort : sortAsc (dists s.res ++ [dq idx]) = insInt (dq idx) (dists s.res) := by
      rw [sortAsc_perm (List.perm_append_comm : (dists s.res ++ [dq idx]).Perm ([dq idx] ++ dists s.res)), sortAsc_append,
        sortAsc_of_sorted _ hsd]; rfl
    have hnwin : ∀ x ∈ dists (insAsc (dq idx, (idx : Int)) s.res), inWindow Q x = true := by
      intro x hx; rw [hr_dists] at hx
      rcases mem_insInt.mp hx with rfl | hx
      · exact hwin
      · exact h.win x hx
    unfold accept
    simp only [if_neg hne, hfilt]
    by_cases hl : (insAsc (dq idx, (idx : Int)) s.res).length = k
    · simp only [if_pos hl, hex, Bool.false_eq_true, if_false]
      exact ⟨fun hc => (by cases hc), fun _ => ⟨hl, hnwin⟩⟩
    · simp only [if_neg hl]
      refine ⟨fun _ => ⟨⟨hr_sorted, ?_, hnwin, h.tau, h.exit⟩, ?_⟩, fun hc => ?_⟩
      · rw [length_insAsc] at hl ⊢; omega
      · rw [hr_dists, hsort]
      · rw [h.exit] at hc; cases hc
  · rw [if_neg hacc]
    refine ⟨fun _ => ⟨h, ?_⟩, fun hc => (by rw [h.exit] at hc; cases hc)⟩
    have : [dq idx].filter (inWindow Q) = [] := by
      rw [List.filter_eq_nil_iff]
      intro y hy hw
      simp only [List.mem_singleton] at hy; subst hy
      have := (inWindow_iff Q _).mp hw
      rw [h.tau] at hacc
      omega
    rw [this, List.append_nil, sortAsc_of_sorted _ hsd]

theorem relv_maxdist (Q : Query) (L : List Int) : L.filter (relv Q Q.maxdist) = L.filter (inWindow Q) := by
  apply List.filter_congr
  intro y _
  simp only [relv, inWindow]
  by_cases h : y ≤ Q.maxdist <;> simp [h]

theorem sortAsc_sortAsc_append (A B : List Int) : sortAsc (sortAsc A ++ B) = sortAsc (A ++ B) := by
  rw [sortAsc_perm (List.perm_append_comm (l₁ := sortAsc A)), sortAsc_perm (List.perm_append_comm (l₁ := A)),
    sortAsc_append, sortAsc_append, sortAsc_of_sorted _ (sorted_sortAsc _)]

theorem visitLeaves_ne (Q : Query) (k : Nat) (dq : Nat → Int) (hex : Q.exhaustive = false) :
    ∀ (l : List Int) (s : St), InvN Q k s →
      ((visitLeaves Q k dq s l).exit = false → InvN Q k (visitLeaves Q k dq s l) ∧
        dists (visitLeaves Q k dq s l).res = sortAsc (dists s.res ++ ((validLeaves l).map dq).filter (inWindow Q))) ∧
      ((visitLeaves Q k dq s l).exit = true → (visitLeaves Q k dq s l).res.length = k ∧
        ∀ x ∈ dists (visitLeaves Q k dq s l).res, inWindow Q x = true) := by
  intro l
  induction l with
  | nil =>
    intro s h
    simp only [visitLeaves, validLeaves, List.map_nil, List.filter_nil, List.append_nil]
    exact ⟨fun _ => ⟨h, (sortAsc_of_sorted _ (sorted_dists h.sorted)).symm⟩, fun hc => (by rw [h.exit] at hc; cases hc)⟩
  | cons i is ih =>
    intro s h
    by_cases hi : i < 0
    · simp only [visitLeaves, hi, if_true, validLeaves, List.map_nil, List.filter_nil, List.append_nil]
      exact ⟨fun _ => ⟨h, (sortAsc_of_sorted _ (sorted_dists h.sorted)).symm⟩, fun hc => (by rw [h.exit] at hc; cases hc)⟩
    · have hv : validLeaves (i :: is) = i.toNat :: validLeaves is := by simp [validLeaves, hi]
      obtain ⟨v1, v2⟩ := visit_ne Q k dq s i.toNat hex h
      by_cases hexit : (visit Q k dq s i.toNat).exit = true
      · have hres : visitLeaves Q k dq s (i :: is) = visit Q k dq s i.toNat := by
          simp only [visitLeaves, hi, if_false, hexit, if_true]
        rw [hres]
        exact ⟨fun hc => (by rw [hexit] at hc; cases hc), fun _ => v2 hexit⟩
      · have hexit' : (visit Q k dq s i.toNat).exit = false := by simpa using hexit
        have hres : visitLeaves Q k dq s (i :: is) = visitLeaves Q k dq (visit Q k dq s i.toNat) is := by
          simp only [visitLeaves, hi, if_false, hexit', Bool.false_eq_true]
        rw [hres, hv]
        obtain ⟨h1, hd1⟩ := v1 hexit'
        obtain ⟨w1, w2⟩ := ih _ h1
        refine ⟨fun hc => ?_, w2⟩
        obtain ⟨h2, hd2⟩ := w1 hc
        refine ⟨h2, ?_⟩
        rw [hd2, hd1, sortAsc_sortAsc_append]
        have e : ((i.toNat :: validLeaves is).map dq).filter (inWindow Q) =
            [dq i.toNat].filter (inWindow Q) ++ ((validLeaves is).map dq).filter (inWindow Q) := by
          rw [← List.filter_append]; rfl
        rw [e, List.append_assoc]

theorem loop_ne {tree : Array Node} {bucket : Nat} {d : Nat → Nat → Int} {dq : Nat → Int} (hm : MetricQ d dq)
    (Q : Query) (k : Nat) (hex : Q.exhaustive = false) (htol : Q.tol = 0) :
    ∀ (fuel : Nat) (todo : List Item) (ts : List VT) (s : St),
      Zip (TodoR tree bucket d dq) todo ts → InvN Q k s → (ts.flatMap VT.pts).length ≤ fuel →
      ∃ s', loop tree bucket dq Q k fuel todo s = some s' ∧ s'.res.length ≤ k ∧ (∀ x ∈ dists s'.res, inWindow Q x = true) ∧
        (s'.res.length < k → dists s'.res = sortAsc (dists s.res ++ (D dq ts).filter (inWindow Q))) := by
  intro fuel
  induction fuel with
  | zero =>
    intro todo ts s hz h hf
    cases hz with
    | nil =>
      refine ⟨s, loop_nil .., Nat.le_of_lt h.len, h.win, fun _ => ?_⟩
      simp only [D, List.flatMap_nil, List.map_nil, List.filter_nil, List.append_nil]
      exact (sortAsc_of_sorted _ (sorted_dists h.sorted)).symm
    | @cons x t xs ts' hx hxs =>
      exfalso
      have := rep_pts_ne_nil hx.2.1 hx.1
      simp only [List.flatMap_cons, List.length_append] at hf
      have : t.pts.length ≠ 0 := by intro hc; exact this (List.length_eq_zero_iff.mp hc)
      omega
  | succ fuel ih =>
    intro todo ts s hz h hf
    cases hz with
    | nil =>
      refine ⟨s, loop_nil .., Nat.le_of_lt h.len, h.win, fun _ => ?_⟩
      simp only [D, List.flatMap_nil, List.map_nil, List.filter_nil, List.append_nil]
      exact (sortAsc_of_sorted _ (sorted_dists h.sorted)).symm
    | @cons x t xs ts' hx hxs =>
      obtain ⟨prio, n⟩ := x
      obtain ⟨hn, hrep, hbnd, hlow⟩ := hx
      simp only at hn hrep hlow
      have hne := rep_pts_ne_nil hrep hn
      have hlen : t.pts.length ≠ 0 := by intro hc; exact hne (List.length_eq_zero_iff.mp hc)
      simp only [List.flatMap_cons, List.length_append] at hf
      rw [loop]
      by_cases hgo : 0 ≤ n ∧ -prio ≤ s.tau - Q.tol
      · rw [if_pos hgo]
        cases hrep with
        | nil hneg => omega
        | @leaf _ ls _ hget hnonempty =>
          simp only [hget]
          obtain ⟨v1, v2⟩ := visitLeaves_ne Q k dq hex (ls.take bucket) s h
          simp only [VT.pts] at hf hlow hlen
          by_cases hexit : (visitLeaves Q k dq s (List.take bucket ls)).exit = true
          · rw [if_pos hexit]
            obtain ⟨hl, hw⟩ := v2 hexit
            exact ⟨_, rfl, Nat.le_of_eq hl, hw, fun hc => (by omega)⟩
          · rw [if_neg hexit]
            have hexit' : (visitLeaves Q k dq s (List.take bucket ls)).exit = false := by simpa using hexit
            obtain ⟨h1, hd1⟩ := v1 hexit'
            obtain ⟨s', hs', hl', hw', hd'⟩ := ih xs ts' _ hxs h1 (by omega)
            refine ⟨s', hs', hl', hw', fun hc => ?_⟩
            rw [hd' hc, hd1, sortAsc_sortAsc_append, D_cons, List.filter_append, List.append_assoc]
            rfl
        | @inner _ v lo0 up0 c0 lo1 up1 c1 t0 t1 _ hget hr0 hr1 =>
          simp only [hget]
          obtain ⟨v1, v2⟩ := visit_ne Q k dq s v hex h
          simp only [VT.pts] at hf hlow hlen
          obtain ⟨hb0, hb1, hbd0, hbd1⟩ := hbnd
          by_cases hexit : (visit Q k dq s v).exit = true
          · rw [if_pos hexit]
            obtain ⟨hl, hw⟩ := v2 hexit
            exact ⟨_, rfl, Nat.le_of_eq hl, hw, fun hc => (by omega)⟩
          · rw [if_neg hexit]
            have hexit' : (visit Q k dq s v).exit = false := by simpa using hexit
            obtain ⟨h1, hd1⟩ := v1 hexit'
            rw [htol, Int.sub_zero, h1.tau]
            obtain ⟨tsA, hzA, hlA, hpA⟩ := pushChild_spec hm Q Q.maxdist v lo0 up0 c0 t0 hr0 hbd0 hb0 xs ts' hxs
            obtain ⟨tsB, hzB, hlB, hpB⟩ := pushChild_spec hm Q Q.maxdist v lo1 up1 c1 t1 hr1 hbd1 hb1 _ tsA hzA
            simp only [List.length_cons, List.length_append] at hf
            obtain ⟨s', hs', hl', hw', hd'⟩ := ih _ tsB _ hzB h1 (by omega)
            refine ⟨s', hs', hl', hw', fun hc => ?_⟩
            rw [hd' hc, hd1, sortAsc_sortAsc_append]
            apply sortAsc_perm
            simp only [relv_maxdist] at hpA hpB
            have hD : D dq (VT.inner v lo0 up0 lo1 up1 t0 t1 :: ts') = [dq v] ++ ((t0.pts.map dq ++ t1.pts.map dq) ++ D dq ts') := by
              rw [D_cons]; simp [VT.pts]
            rw [hD]
            simp only [List.filter_append, List.append_assoc]
            apply List.Perm.append_left
            apply List.Perm.append_left
            refine hpB.trans ?_
            refine (List.Perm.append_left _ hpA).trans ?_
            rw [← List.append_assoc, ← List.append_assoc]
            exact List.Perm.append_right _ List.perm_append_comm
      · rw [if_neg hgo]
        obtain ⟨s', hs', hl', hw', hd'⟩ := ih xs ts' s hxs h (by omega)
        refine ⟨s', hs', hl', hw', fun hc => ?_⟩
        rw [hd' hc, D_cons, List.filter_append]
        have : (t.pts.map dq).filter (inWindow Q) = [] := by
          rw [List.filter_eq_nil_iff]
          intro y hy hw
          obtain ⟨p, hp, rfl⟩ := List.mem_map.mp hy
          have := hlow p hp
          have := (inWindow_iff Q _).mp hw
          rw [htol, h.tau] at hgo
          omega
        rw [this, List.nil_append]

/-- `exhaustive = false`, `tol = 0`: at most `k` results, all inside the window; if fewer than `k` are returned they are
    *all* points of the window (the search was exhaustive) -/
theorem search_ne {tree : Array Node} {bucket numpoints : Nat} {d : Nat → Nat → Int} {dq : Nat → Int}
    (hm : MetricQ d dq) (Q : Query) (hex : Q.exhaustive = false) (htol : Q.tol = 0)
    (hinv : TreeInv tree bucket numpoints d) :
    ∃ res, search tree numpoints bucket dq Q = some res ∧ res.length ≤ Q.k.toNat ∧
      (∀ x ∈ dists res, inWindow Q x = true) ∧
      (res.length < Q.k.toNat → dists res = sortAsc (((List.range numpoints).map dq).filter (inWindow Q))) := by
  unfold search
  by_cases hc : numpoints > 0 ∧ Q.k > 0 ∧ Q.maxdist > Q.mindist
  · rw [if_pos hc]
    obtain ⟨t, hrep, hb, hperm⟩ := hinv
    have hlen : t.pts.length = numpoints := by rw [hperm.length_eq, List.length_range]
    have hroot : 0 ≤ (tree.size : Int) - 1 := by
      by_cases hneg : (tree.size : Int) - 1 < 0
      · have := rep_neg hrep hneg
        rw [this] at hlen; simp at hlen; omega
      · omega
    have hz : Zip (TodoR tree bucket d dq) [(1, (tree.size : Int) - 1)] [t] :=
      Zip.cons ⟨hroot, hrep, hb, fun p _ => by have := hm.nonneg p; omega⟩ Zip.nil
    have h0 : InvN Q Q.k.toNat { tau := Q.maxdist, res := [], exit := false } :=
      ⟨List.Pairwise.nil, by simp; omega, by simp [dists], rfl, rfl⟩
    obtain ⟨s', hs', hl', hw', hd'⟩ := loop_ne hm Q Q.k.toNat hex htol numpoints _ [t] _ hz h0 (by simp [hlen])
    refine ⟨s'.res, by rw [hs']; rfl, hl', hw', fun hlt => ?_⟩
    rw [hd' hlt]
    simp only [dists, List.map_nil, List.nil_append]
    apply sortAsc_perm
    apply List.Perm.filter
    simp only [D, List.flatMap_cons, List.flatMap_nil, List.append_nil]
    exact hperm.map dq
  · rw [if_neg hc]
    refine ⟨[], rfl, by simp, by simp [dists], fun hlt => ?_⟩
    simp only [List.length_nil] at hlt
    by_cases h1 : numpoints > 0
    · have h2 : Q.k > 0 := by omega
      have h3 : ¬ Q.maxdist > Q.mindist := fun h3 => hc ⟨h1, h2, h3⟩
      have : ((List.range numpoints).map dq).filter (inWindow Q) = [] := by
        rw [List.filter_eq_nil_iff]
        intro y _ hw
        have := (inWindow_iff Q y).mp hw
        omega
      rw [this]; simp [dists, sortAsc]
    · have : numpoints = 0 := by omega
      subst this; simp [dists, sortAsc]

/-! ## the binary layout -/

theorem length_encLE (w : Nat) (x : Int) : (encLE w x).length = w := by
  induction w generalizing x with
  | zero => rfl
  | succ w ih => simp [encLE, ih]

theorem decLEu_append (a b : List Nat) : decLEu (a ++ b) = decLEu a + 256 ^ a.length * decLEu b := by
  induction a with
  | nil => simp [decLEu]
  | cons x xs ih =>
    simp only [List.cons_append, decLEu, ih, List.length_cons, Nat.pow_succ]
    rw [Nat.mul_add, ← Nat.mul_assoc, Nat.add_assoc, Nat.mul_comm 256 (256 ^ xs.length)]

theorem decEnc4 (y : Int) : (decLEu (encLE 4 y) : Int) = y % 4294967296 := by
  simp only [encLE, decLEu]
  omega

theorem encLE8_split (x : Int) : encLE 8 x = encLE 4 x ++ encLE 4 (x / 4294967296) := by
  have h : x / 256 / 256 / 256 / 256 = x / 4294967296 := by omega
  simp only [encLE, List.cons_append, List.nil_append, h]

theorem readLE4 (x : Int) (rest : List Nat) (h1 : -2147483648 ≤ x) (h2 : x < 2147483648) :
    readLE 4 (encLE 4 x ++ rest) = some (x, rest) := by
  unfold readLE
  have hl : ¬ ((encLE 4 x ++ rest).length < 4) := by simp [length_encLE]
  rw [if_neg hl, List.take_left' (length_encLE 4 x), List.drop_left' (length_encLE 4 x)]
  have := decEnc4 x
  simp only [Option.some.injEq, Prod.mk.injEq, and_true]
  split <;> omega

theorem readLE8 (x : Int) (rest : List Nat) (h1 : -9223372036854775808 ≤ x) (h2 : x < 9223372036854775808) :
    readLE 8 (encLE 8 x ++ rest) = some (x, rest) := by
  unfold readLE
  have hl : ¬ ((encLE 8 x ++ rest).length < 8) := by simp [length_encLE]
  rw [if_neg hl, List.take_left' (length_encLE 8 x), List.drop_left' (length_encLE 8 x)]
  have e : (decLEu (encLE 8 x) : Int) = x % 4294967296 + 4294967296 * ((x / 4294967296) % 4294967296) := by
    rw [encLE8_split, decLEu_append, length_encLE]
    have a := decEnc4 x
    have b := decEnc4 (x / 4294967296)
    have c : ((256 ^ 4 : Nat) : Int) = 4294967296 := by decide
    rw [Int.natCast_add, Int.natCast_mul, a, b, c]
  simp only [Option.some.injEq, Prod.mk.injEq, and_true]
  split <;> omega
def In32 (x : Int) : Prop := -2147483648 ≤ x ∧ x < 2147483648
def In64 (x : Int) : Prop := -9223372036854775808 ≤ x ∧ x < 9223372036854775808

theorem readInts4 : ∀ (xs : List Int) (rest : List Nat), (∀ x ∈ xs, In32 x) →
    readInts 4 xs.length (encInts 4 xs ++ rest) = some (xs, rest) := by
  intro xs
  induction xs with
  | nil => intro rest _; rfl
  | cons x xs ih =>
    intro rest h
    have hx := h x (by simp)
    simp only [List.length_cons, readInts, encInts, List.append_assoc]
    rw [readLE4 x _ hx.1 hx.2]
    simp only
    rw [ih rest (fun y hy => h y (by simp [hy]))]

theorem readInts8 : ∀ (xs : List Int) (rest : List Nat), (∀ x ∈ xs, In64 x) →
    readInts 8 xs.length (encInts 8 xs ++ rest) = some (xs, rest) := by
  intro xs
  induction xs with
  | nil => intro rest _; rfl
  | cons x xs ih =>
    intro rest h
    have hx := h x (by simp)
    simp only [List.length_cons, readInts, encInts, List.append_assoc]
    rw [readLE8 x _ hx.1 hx.2]
    simp only
    rw [ih rest (fun y hy => h y (by simp [hy]))]

/-- the stored fields fit their C++ types (`int` 32 bit, `dist_t` 64 bit) -/
def NodeRange : Node → Prop
  | .inner v lo0 up0 c0 lo1 up1 c1 => In32 (v : Int) ∧ In64 lo0 ∧ In64 up0 ∧ In32 c0 ∧ In64 lo1 ∧ In64 up1 ∧ In32 c1
  | .leaf ls => ∀ x ∈ ls, In32 x

theorem loadNodeBin_saveNodeBin (bucket : Nat) (n : Node) (rest : List Nat)
    (h : ∀ ls, n = .leaf ls → ls.length = bucket) (hr : NodeRange n) :
    loadNodeBin bucket (saveNodeBin n ++ rest) = .ok (n, rest) := by
  cases n with
  | inner v lo0 up0 c0 lo1 up1 c1 =>
    obtain ⟨hv, h1, h2, h3, h4, h5, h6⟩ := hr
    simp only [saveNodeBin, loadNodeBin, List.append_assoc]
    rw [readLE4 _ _ hv.1 hv.2]
    have hv0 : ((v : Int) ≥ 0) := by omega
    simp only [hv0, if_true]
    have e8 := readInts8 [lo0, lo1, up0, up1] (encInts 4 [c0, c1] ++ rest)
      (by intro x hx; simp at hx; rcases hx with rfl | rfl | rfl | rfl <;> assumption)
    simp only [List.length_cons, List.length_nil] at e8
    rw [e8]
    have e4 := readInts4 [c0, c1] rest (by intro x hx; simp at hx; rcases hx with rfl | rfl <;> assumption)
    simp only [List.length_cons, List.length_nil] at e4
    simp only [e4, Int.toNat_natCast]
  | leaf ls =>
    have hl := h ls rfl
    simp only [saveNodeBin, loadNodeBin, List.append_assoc]
    rw [readLE4 (-1) _ (by omega) (by omega)]
    have h1 : ¬ ((-1 : Int) ≥ 0) := by omega
    simp only [h1, if_false]
    have e4 := readInts4 ls rest hr
    rw [hl] at e4
    simp [e4]

def NodesRange : List Node → Prop
  | [] => True
  | n :: ns => NodeRange n ∧ NodesRange ns

theorem loadNodesBin_saveNodesBin (bucket : Nat) (numpoints : Int) (extra : List Nat) :
    ∀ (ns : List Node) (i : Nat) (used : List Int), NodesOK bucket numpoints i ns → NodesRange ns →
      (children ns).Nodup → (∀ c ∈ children ns, c ∉ used) →
      loadNodesBin bucket numpoints ns.length i used (saveNodesBin ns ++ extra) = .ok ns := by
  intro ns
  induction ns with
  | nil => intro i used _ _ _ _; simp [loadNodesBin]
  | cons n ns ih =>
    intro i used h hr hnd hdis
    obtain ⟨⟨hc, hl⟩, hrest⟩ := h
    simp only [children, List.nodup_append] at hnd
    obtain ⟨hk, hcs, hkc⟩ := hnd
    obtain ⟨u, hu, hmem⟩ := claimNode_ok (used := used) hk (fun c hc => hdis c (by simp [children, hc]))
    simp only [List.length_cons, loadNodesBin, saveNodesBin, List.append_assoc]
    rw [loadNodeBin_saveNodeBin bucket n _ hl hr.1]
    simp only [hc, Bool.not_true, hu]
    rw [ih (i + 1) u hrest hr.2 hcs (by
      intro c hc hcu
      rcases (hmem c).mp hcu with h | h
      · exact hkc c h c hc rfl
      · exact hdis c (by simp [children, hc]) h)]
    simp

theorem loadBin_saveBin (realspec maxbucket : Int) (t : Tree) (extra : List Nat) (h : WellFormed maxbucket t)
    (hrs : In32 realspec) (hnp : In32 t.numpoints) (hcost : In32 t.cost) (hmb : In32 maxbucket) (hr : NodesRange t.nodes) :
    loadBin realspec maxbucket (saveBin realspec t ++ extra) = .ok t := by
  obtain ⟨h1, h2, h3, h4, h5, h6⟩ := h
  unfold loadBin saveBin
  have hm : ((magic ++ encInts 4 [version, realspec, t.bucket, t.numpoints, (t.nodes.length : Int), t.cost] ++ saveNodesBin t.nodes ++ extra).take 16 != magic) = false := by
    simp [magic]
  rw [hm]
  simp only [Bool.false_eq_true, if_false]
  have hd : (magic ++ encInts 4 [version, realspec, t.bucket, t.numpoints, (t.nodes.length : Int), t.cost] ++ saveNodesBin t.nodes ++ extra).drop 16 =
      encInts 4 [version, realspec, t.bucket, t.numpoints, (t.nodes.length : Int), t.cost] ++ (saveNodesBin t.nodes ++ extra) := by
    simp [magic]
  rw [hd]
  have hrange : ∀ x ∈ [version, realspec, t.bucket, t.numpoints, (t.nodes.length : Int), t.cost], In32 x := by
    intro x hx
    simp only [List.mem_cons, List.not_mem_nil, or_false] at hx
    unfold In32 at *
    rcases hx with rfl | rfl | rfl | rfl | rfl | rfl <;> (try simp only [version]) <;> omega
  have e := readInts4 _ (saveNodesBin t.nodes ++ extra) hrange
  simp only [List.length_cons, List.length_nil] at e
  rw [e]
  have hv : ¬ (version != version) = true := by simp
  have hr' : ¬ (realspec != realspec) = true := by simp
  have hb : (0 ≤ t.bucket && t.bucket ≤ maxbucket) = true := by simp [h1, h2]
  have hs : ((0 : Int) ≤ (t.nodes.length : Int) && (t.nodes.length : Int) ≤ t.numpoints) = true := by simp [h3]
  have hc : (decide (0 ≤ t.cost)) = true := by simp [h4]
  simp only [hv, hr', hb, hs, hc, if_false, Bool.not_true, Bool.false_eq_true]
  have := loadNodesBin_saveNodesBin t.bucket.toNat t.numpoints extra t.nodes 0 [] h5 hr h6 (by simp)
  simp only [Int.toNat_natCast]
  rw [this]


end GeoVerif.VPTree
