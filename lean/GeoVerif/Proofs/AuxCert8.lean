import GeoVerif.Series.AuxSeries
/-! Kernel-checked certificates about the series tables of `AuxLatitude.cpp` (re-extracted into `Gen/AuxSeries.lean` on every
run).  Split over several modules (`AuxCert1 … AuxCert9`) so that lake checks them in parallel; each `decide +kernel`
takes 10–15 s.  Numbering of the latitudes: 0 φ, 1 β, 2 θ, 3 μ, 4 χ, 5 ξ. -/
namespace GeoVerif.Proofs.AuxCert
open GeoVerif.Series.Aux

theorem revert_1_4 : checkRevert 1 4 = true := by decide +kernel
theorem compose_3_1_2 : checkCompose 3 1 2 = true := by decide +kernel
theorem xi_ode : checkXiODE = true := by decide +kernel

end GeoVerif.Proofs.AuxCert
