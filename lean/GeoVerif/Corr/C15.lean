import GeoVerif.Corr.Proto
import GeoVerif.Model.AuxLat
import GeoVerif.Series.AuxSeries
import GeoVerif.Corr.C15Model
/-!
Correspondence for C15.

* `ellconv`: the formula models of the `Ellipsoid.hpp` inline functions and constructor parameters, run in native
  binary64, against the implementation (a few ulp: they use only `+ − × ÷ sqrt`).
* `auxser`: the model of the series path of `AuxLatitude::Convert` (tables from `Gen/AuxSeries.lean`) against the
  implementation, and the measured error of the implementation against the harness oracle is judged here against
  16 ulp + the truncation bound computed from the extracted tables.
* `m15_*`: `EllipticFunction`, `AuxAngle`, the exact methods of `AuxLatitude` and the `Ellipsoid` measures against
  `Model/Elliptic.lean` / `Model/AuxExact.lean` in running-error arithmetic (`Corr/C15Model.lean`).
* the other ops are judged by the harness oracles on the implementation.
-/
namespace GeoVerif.Corr.C15
open GeoVerif GeoVerif.Proto GeoVerif.AuxLat

def pfl (s : String) : Option Float := (hexToNat s).bind fun n => if s.length == 16 then some (Float.ofBits n.toUInt64) else none
def shw (x : Float) : String := toString x ++ "[" ++ natToHex x.toBits.toNat 16 ++ "]"

/-- `|a − b| ≤ ulps · 2^-52 · max(|a|, |b|)`, or both NaN / equal (infinities) -/
def closeRel (a b : Float) (ulps : Float) : Bool :=
  (a.isNaN && b.isNaN) || a == b || Float.abs (a - b) ≤ ulps * 2.220446049250313e-16 * (if Float.abs a < Float.abs b then Float.abs b else Float.abs a)

def ratToFloat (q : Rat) : Float := Float.ofInt q.num / Float.ofNat q.den
def absR (q : Rat) : Rat := if q < 0 then -q else q

/-- `2 ρ max_j∈{L−1, L} Σ_l l·|[n^j] C_l|` with growth allowance ρ = 4: bound for the relative error of the tangent caused by
    dropping the terms `n^(L+1)` and beyond (a sine series error `δ sin 2lζ` changes `tan ζ` relatively by at most `2 l δ`) -/
def truncCoeff (auxout auxin : Nat) : Float :=
  open GeoVerif.Series in open GeoVerif.Series.Aux in
  let blk := block auxout auxin
  let S (j : Nat) : Rat := ((List.range blk.length).map fun (l : Nat) => ((l : Rat) + 1) * absR ((blk.getD l []).coeff j)).sum
  let m := if S L < S (L - 1) then S (L - 1) else S L
  ratToFloat (2 * 4 * m)

def handle (op : String) (args res : List String) : Option Verdict :=
  match op with
  | "ellconv" => some <|
    match args.mapM pfl, res.mapM pfl with
    | some [a, f], some r =>
      if r.length != 17 then .bad "parse" else
      let fp := flatteningToSecondFlattening f
      let n := flatteningToThirdFlattening f
      let e2 := flatteningToEccentricitySq f
      let ep2 := flatteningToSecondEccentricitySq f
      let epp2 := flatteningToThirdEccentricitySq f
      let model : List (String × Float) :=
        [("FlatteningToSecondFlattening", fp), ("FlatteningToThirdFlattening", n), ("FlatteningToEccentricitySq", e2),
         ("FlatteningToSecondEccentricitySq", ep2), ("FlatteningToThirdEccentricitySq", epp2),
         ("SecondFlatteningToFlattening", secondFlatteningToFlattening (secondFlattening f)),
         ("ThirdFlatteningToFlattening", thirdFlatteningToFlattening (ctorN f)),
         ("EccentricitySqToFlattening", eccentricitySqToFlattening (ctorE2 f)),
         ("SecondEccentricitySqToFlattening", secondEccentricitySqToFlattening (ctorE12 f)),
         ("ThirdEccentricitySqToFlattening", thirdEccentricitySqToFlattening (thirdEccentricitySq f)),
         ("PolarRadius", ctorB a f), ("EccentricitySq", ctorE2 f), ("SecondEccentricitySq", ctorE12 f), ("ThirdFlattening", ctorN f),
         ("SecondFlattening", secondFlattening f), ("ThirdEccentricitySq", thirdEccentricitySq f), ("Volume", volume a f)]
      let badl := (List.range 17).filterMap fun i =>
        let (nm, m) := model.getD i ("?", 0)
        let v := r.getD i 0
        if closeRel m v 4 then none else some s!"{nm}: impl={shw v} formula model={shw m}"
      if badl.isEmpty then .ok else .bad (String.intercalate "; " badl)
    | _, _ => .bad "parse"
  | "auxser" => some <|
    match args with
    | [fs, froms, tos, szs, czs] =>
      match pfl fs, froms.toNat?, tos.toNat?, pfl szs, pfl czs, res.mapM pfl with
      | some f, some from_, some to_, some sz, some cz, some [ry, rx, err] =>
        if from_ ≥ 6 || to_ ≥ 6 then .bad "parse" else
        let (my, mx) : Float × Float := if from_ == to_ then (sz, cz) else convertSeries f from_ to_ sz cz
        let okm := (closeRel my ry 64 || Float.abs (my - ry) ≤ 1e-300) && (closeRel mx rx 64 || Float.abs (mx - rx) ≤ 1e-300)
        let n := Float.abs (ctorN f)
        let bound := 32 * 1.1102230246251565e-16 + (if from_ == to_ then 0 else truncCoeff to_ from_ * Float.pow n (Float.ofNat (Series.Aux.L + 1)))
        if !okm then .bad s!"series Convert {from_}->{to_}: impl=({shw ry},{shw rx}) model of fillcoeff+Clenshaw+rotation=({shw my},{shw mx})"
        else if err.isNaN then .skip "oracle unsure"
        else if err ≤ bound then .ok
        else .bad s!"series Convert {from_}->{to_} f={f}: relative error of tan {err} against the defining integral/closed form exceeds 16 ulp + truncation bound {bound}"
      | _, _, _, _, _, _ => .bad "parse"
    | _ => .bad "parse"
  | "auxconv" | "auxlaws" | "ellmeas" | "elldeg" | "ellinc" | "ellmono" | "ellcomp" | "ellinv" | "carlson" =>
    some (.skip "judged by the harness oracles on the implementation")
  | _ => C15M.handle op args res

end GeoVerif.Corr.C15
