import GeoVerif.Corr.Proto
import GeoVerif.Model.ErrContract
import GeoVerif.Model.UTMUPS
import GeoVerif.Model.MGRS
import GeoVerif.Model.GridCodes
import GeoVerif.Model.ErrCover
import GeoVerif.Gen.ApiC13
/-! Correspondence relations for C13 (error contract): the verdict on every reported call is computed here from the
contract tables / predicates of `Model/ErrContract.lean` and the `Except`-returning models of C04, C05, C18. -/
namespace GeoVerif.Corr.C13
open GeoVerif GeoVerif.Proto GeoVerif.ErrContract

def parseExc (s : String) : Option Exc :=
  if s == "-" then some .none else if s == "!E" then some .lib else if s == "!A" then some .alloc
  else if s == "!hang" then some .hang else if s.startsWith "!O" then some .foreign else none

def bitsOf (s : String) : List Bool := (s.toList.drop 1).map (· == '1')

def natsOf (b : List UInt8) : List Nat := b.map UInt8.toNat
def pb (s : String) : Option Bool := if s == "1" then some true else if s == "0" then some false else none

/-- `N:index:l0:u0:c0:l1:u1:c1:leaf…` -/
def parseNode (s : String) : Option Node :=
  match s.splitOn ":" with
  | "N" :: idx :: l0 :: u0 :: c0 :: l1 :: u1 :: c1 :: leaves => do
    let index ← parseI idx; let lower0 ← parseF l0; let upper0 ← parseF u0; let child0 ← parseI c0
    let lower1 ← parseF l1; let upper1 ← parseF u1; let child1 ← parseI c1
    let lv ← leaves.mapM parseI
    pure { index, child0, child1, lower0, upper0, lower1, upper1, leaves := lv ++ List.replicate (maxbucket - lv.length) 0 }
  | _ => none

/-- generic structural verdict: `exc … w<bits>` — only the library's exception, nothing written when thrown -/
def structural (what : String) (res : List String) : Verdict :=
  match res with
  | e :: rest =>
    (match parseExc e with
     | some exc =>
       let w := match rest.getLast? with
         | some t => if t.startsWith "w" then bitsOf t else []
         | none => []
       if throwClean { exc := exc, written := w, isnan := [] } then .ok
       else .bad s!"{what}: exception contract broken (exception={e}, outputs written={w})"
     | none => .bad s!"{what}: unparsable exception field {e}")
  | [] => .bad s!"{what}: no result"

def isNaNArg (s : String) : Bool := match parseF s with | some x => x.isNaN | none => false
def isInfArg (s : String) : Bool := match parseF s with | some x => x.isInf | none => false

def handle (op : String) (args res : List String) : Option Verdict :=
  match op with
  | "c13_sw" => some <|
    match args, res with
    | [name, pos, val], [e, _, w, n, sm] =>
      (match find name, parseI pos, parseF val, parseExc e with
       | some ent, some p, some v, some exc =>
         let r : Report := { exc := exc, written := bitsOf w, isnan := bitsOf n, same := bitsOf sm }
         if exc == .hang then .skip "hang (reported by the harness as a failing input)"
         else if p < 0 then
           (if ent.checkBase r then .ok else .bad s!"baseline call of {name}: expected no exception and every output written and valid, got exc={e} {w} {n}")
         else if p.toNat ≥ ent.nin then .bad s!"dependence table of {name} has {ent.nin} inputs, harness swept input {p}"
         else if v.isNaN then
           (if ent.checkNaN p.toNat r then .ok
            else .bad s!"nan-contract: {name} with NaN in argument {p}: expected pattern {ent.rows.getD p.toNat ""} (1 = NaN, 0 = valid, '=' = valid and bit-identical to the NaN-free baseline call, x = free), exception allowed={ent.nanErr.contains p.toNat}; got exc={e} {w} {n} {sm}")
         else
           (if ent.checkOther r then .ok
            else .bad s!"exception-contract: {name} with {showF v} in argument {p}: exc={e} (documented to validate: {ent.validates}) {w}")
       | none, _, _, _ => .bad s!"entry point {name} is missing from the dependence table (Model/ErrContract.lean)"
       | _, _, _, _ => .bad "parse")
    | _, ["!nopos"] => .skip "no such argument"
    | _, _ => .bad "parse"
  | "c13_ctor" => some <|
    match args, res with
    | cls :: ps, [r] =>
      (match parseFs ps with
       | some p =>
         (match ctorOK cls p with
          | some ok =>
            if r == "!hang" then .skip "hang (reported by the harness)"
            else if r == "!A" then .skip "allocation failure"
            else (match pb r with
              | some acc => if acc == ok then .ok else .bad s!"ctor-domain: {cls} {p.map showF}: implementation accepted={acc}, validation predicate says {ok}"
              | none => .bad s!"ctor-domain: {cls} threw a foreign exception {r}")
          | none =>
            (match ctorBounds cls p with
             | some (mustReject, mustAccept) =>
               if r == "!hang" then .skip "hang (reported by the harness)"
               else if r == "!A" then .skip "allocation failure"
               else (match pb r with
                 | some acc =>
                   if acc && mustReject then .bad s!"ctor-domain: {cls} {p.map showF}: implementation accepted parameters that must be rejected"
                   else if !acc && mustAccept then .bad s!"ctor-domain: {cls} {p.map showF}: implementation rejected parameters that must be accepted"
                   else .ok
                 | none => .bad s!"ctor-domain: {cls} threw a foreign exception {r}")
             | none => .bad s!"no validation predicate for constructor {cls} with {p.length} parameters"))
       | none => .bad "parse")
    | _, _ => .bad "parse"
  | "c13_shctor" => some <|
    match args, res with
    | form :: nums, [r] =>
      (match nums.mapM parseI with
       | some v =>
         let rec sets : List Int → Option (List ShSet)
           | n :: nmx :: mmx :: cs :: ss :: rest => (sets rest).map (⟨n, nmx, mmx, cs, ss⟩ :: ·)
           | [] => some []
           | _ => none
         (match sets v with
          | some ss =>
            (match shCtorOK form ss with
             | some ok =>
               if r == "!A" then .skip "allocation failure"
               else (match pb r with
                 | some acc => if acc == ok then .ok else .bad s!"ctor-domain: {form} (N nmx mmx csize ssize)={v}: implementation accepted={acc}, the size / index predicate says {ok}"
                 | none => .bad s!"ctor-domain: {form} threw a foreign exception {r}")
             | none => .bad s!"no size predicate for {form} with {ss.length} coefficient sets")
          | none => .bad "parse")
       | none => .bad "parse")
    | _, _ => .bad "parse"
  | "c13_selfcheck" => some <|
    -- executed natively on every run: the numeric codes of all keys are the codes of their strings (the kernel-checked coverage
    -- obligations compare codes), and the generated inventory is well formed
    let badTable := (table.filter fun e => !e.key.ok).map (·.name)
    let keysOf (b : ErrCover.By) : List Key := match b with
      | .table k _ | .ctor k | .parser k | .file k | .sizes k | .forwards k _ | .via k _ => [k]
      | .excluded _ => []
    let badCover := (ErrCover.coverage.filter fun c => !(c.api.ok && (keysOf c.how).all Key.ok)).map (·.api.s)
    let badApi := (Gen.ApiC13.api.filter fun f => !(f.key.ok && f.wf)).map (·.key.s)
    let badLists := ((ctorTable.map (·.1)) ++ parsers ++ fileReaders ++ sizeForms).filter fun k => !k.ok
    -- the coverage obligation itself, evaluated natively so that a broken `api_covered` names the functions concerned
    let uncovered := (Gen.ApiC13.api.filter fun f => f.hasIn && !(ErrCover.coverage.any (·.api == f.key))).map (·.key.s)
    let stale := (ErrCover.coverage.filter fun c => !(Gen.ApiC13.api.any (·.key == c.api))).map (·.api.s)
    if !uncovered.isEmpty || !stale.isEmpty then
      .bad s!"api-coverage: public functions of include/GeographicLib/*.hpp with a floating-point / string / vector / stream input that no part of the contract covers: {uncovered}; covers of functions that no longer exist: {stale}"
    else if !ErrCover.checkCoverage Gen.ApiC13.api ErrCover.coverage then
      .bad "api-coverage: the coverage list does not pass checkCoverage (an invalid cover, or the list is not sorted like the inventory)"
    else
    if badTable.isEmpty && badCover.isEmpty && badApi.isEmpty && badLists.isEmpty then .ok
    else .bad s!"key-code mismatch (label and numeric code of a key disagree): table {badTable} coverage {badCover} api {badApi} lists {badLists.map (·.s)}"
  | "c13_entry" => some <|
    -- the harness's own sweep table: every entry it registers must be a row of the Lean dependence table with the same arities
    match args with
    | [name, nin, nout] =>
      (match find name, nin.toNat?, nout.toNat? with
       | some ent, some ni, some no =>
         if ent.nin == ni && ent.nout == no then .ok
         else .bad s!"table-arity: harness entry {name} has {ni} inputs / {no} outputs, the dependence table says {ent.nin} / {ent.nout}"
       | none, _, _ => .bad s!"entry point {name} is missing from the dependence table (Model/ErrContract.lean)"
       | _, _, _ => .bad "parse")
    | _ => .bad "parse"
  | "c13_ctorclass" => some <|
    match args with
    | [cls, np] =>
      if ctorTable.any (fun c => c.1.s == cls && some c.2 == np.toNat?) then .ok
      else .bad s!"ctor-table: the harness drives constructor class {cls} with {np} parameters, which is not in ErrContract.ctorTable"
    | _ => .bad "parse"
  | "c13_ctorcount" => some <|
    match args with
    | [n] => if n.toNat? == some ctorTable.length then .ok
             else .bad s!"ctor-table: the harness drives {n} constructor classes, ErrContract.ctorTable lists {ctorTable.length} (a listed class that is never executed)"
    | _ => .bad "parse"
  | "c13_entrycount" => some <|
    match args with
    | [n] => if n.toNat? == some table.length then .ok
             else .bad s!"table-arity: the harness registers {n} entry points, the dependence table has {table.length} rows (a row without a harness entry is never exercised)"
    | _ => .bad "parse"
  | "c13_nncheck" => some <|
    match args, res with
    | [np, ts, b, node], [r] =>
      (match parseI np, parseI ts, b.toNat?, parseNode node, pb r with
       | some np, some ts, some b, some n, some acc =>
         let m := n.check np ts b
         if m == acc then .ok else .bad s!"nn-check: Node::Check(numpoints={np}, treesize={ts}, bucket={b}) accepted={acc}, model says {m}: {node}"
       | _, _, _, _, _ => .bad "parse")
    | _, _ => .bad "parse"
  | "c13_nnload" => some <|
    match args, res with
    | bin :: ver :: rs :: b :: np :: ts :: cost :: _seed :: nodes, [r] =>
      (match parseI ver, parseI rs, parseI b, parseI np, parseI ts, parseI cost, nodes.mapM parseNode with
       | some ver, some rs, some b, some np, some ts, some cost, some ns =>
         let m := loadAccepts (bin == "1") ver rs b np ts cost ns
         if r == "!A" then .skip "allocation failure" else
         (match pb r with
          | some acc => if m == acc then .ok else .bad s!"nn-load: NearestNeighbor::Load accepted={acc}, model (header tests + Node::Check of every node) says {m}"
          | none => .bad s!"nn-load: foreign exception {r}")
       | _, _, _, _, _, _, _ => .bad "parse")
    | _, _ => .bad "parse"
  | "c13_nnfile" => some <|
    match res with
    | [r] => if r == "1" || r == "0" || r == "!A" then .ok else .bad s!"NearestNeighbor::Load on a corrupted image: {r}"
    | _ => .bad "parse"
  | "c13_fwd" => some <|
    match args, res with
    | [c, a, b, p], e :: s :: _ =>
      (match parseF a, parseF b, parseI p, parseS s with
       | some x, some y, some prec, some str =>
         let st := structural s!"{c} Forward" res
         -- the models decide the NaN cases (marker string, or the documented rejection of the other argument)
         let model : Option (Except String (List Char)) :=
           if !(x.isNaN || y.isNaN) || x.isInf || y.isInf then none
           else if c == "geohash" then some (Grid.Geohash.forward x y prec)
           else if c == "gars" then some (Grid.GARS.forward x y prec)
           else if c == "georef" then some (Grid.Georef.forward x y prec)
           else if c == "osgb" then some (Grid.OSGB.gridReference x y prec)
           else if c == "mgrs" then some (MGRS.forward 32 true x y prec (.ok .nan))
           else if c == "mgrsups" then some (MGRS.forward 0 true x y prec (.ok .nan))
           else none
         (match model with
          | none => st
          | some (.error _) => both st (if e == "!E" then .ok else .bad s!"nan-marker: {c} Forward must reject this call, returned {bytesToString str}")
          | some (.ok m) =>
            both st (if e == "-" && str == m.map (fun ch => ch.toNat.toUInt8) then .ok
                     else .bad s!"nan-marker: {c} Forward with a NaN position must return {String.ofList m}, got exc={e} '{bytesToString str}'"))
       | _, _, _, _ => .bad "parse")
    | _, _ => .bad "parse"
  | "c13_utmfwd" => some <|
    match args, res with
    | [la, lo, sz, mg], [e, z, x, y, g, k, _w] =>
      (match parseF la, parseF lo, parseI sz, pb mg, parseI z, parseFs [x, y, g, k] with
       | some lat, some lon, some setzone, some mgl, some zone, some [x, y, g, k] =>
         let st := structural "UTMUPS::Forward" res
         let nanK : F64 × F64 × F64 × F64 := (.nan, .nan, .nan, .nan)
         (match UTMUPS.forward lat lon setzone mgl nanK with
          | .error _ =>
            -- an error that does not depend on the projection kernel: decided before the kernel is used
            (match UTMUPS.forward lat lon setzone mgl ((0 : F64), (0 : F64), (0 : F64), (1 : F64)) with
             | .error _ => both st (if e == "!E" then .ok else .bad "UTMUPS::Forward must throw on this call (model: error independent of the projection)")
             | .ok _ => st)
          | .ok o =>
            if o.zone == Gen.UTM.zINVALID then
              both st (if e == "-" && zone == Gen.UTM.zINVALID && x.isNaN && y.isNaN && g.isNaN && k.isNaN then .ok
                       else .bad s!"nan-marker: UTMUPS::Forward must return zone INVALID and NaN x, y, gamma, k; got exc={e} zone={zone}")
            else st)
       | _, _, _, _, _, _ => .bad "parse")
    | _, _ => .bad "parse"
  | "c13_utmtransfer" => some (structural "UTMUPS::Transfer" res)
  | "c13_utmrev" => some <|
    match args, res with
    | [z, np, x, y, mg], [e, la, lo, _w] =>
      (match parseI z, pb np, parseF x, parseF y, pb mg, parseF la, parseF lo with
       | some zone, some northp, some x, some y, some mgl, some lat, some lon =>
         let st := structural "UTMUPS::Reverse" res
         (match UTMUPS.reverseAccepts zone northp x y mgl with
          | .error _ => both st (if e == "!E" then .ok else .bad "UTMUPS::Reverse must throw on this call")
          | .ok none => both st (if e == "-" && lat.isNaN && lon.isNaN then .ok else .bad s!"nan-marker: UTMUPS::Reverse with INVALID zone or NaN coordinates must return NaN, got exc={e}")
          | .ok (some _) => both st (if e == "-" then .ok else .bad "UTMUPS::Reverse threw on a call its model accepts"))
       | _, _, _, _, _, _, _ => .bad "parse")
    | _, _ => .bad "parse"
  | "c13_rev" => some <|
    match args, res with
    | [c, s, cp], [e, x, y, _p, z, _w] =>
      (match parseS s, pb cp, parseF x, parseF y, parseI z with
       | some str, some centerp, some xx, some yy, some zone =>
         let st := structural s!"{c} Reverse" res
         let b := natsOf str
         -- (model rejects?, model says INVALID→NaN?)
         let m : Option (Bool × Bool) :=
           if c == "geohash" then some (match Grid.Geohash.reverse b centerp with | .error _ => (true, false) | .ok .nan => (false, true) | .ok _ => (false, false))
           else if c == "gars" then some (match Grid.GARS.reverse b centerp with | .error _ => (true, false) | .ok .nan => (false, true) | .ok _ => (false, false))
           else if c == "georef" then some (match Grid.Georef.reverse b centerp with | .error _ => (true, false) | .ok .nan => (false, true) | .ok _ => (false, false))
           else if c == "osgb" then some (match Grid.OSGB.reverse b centerp with | .error _ => (true, false) | .ok .nan => (false, true) | .ok _ => (false, false))
           else if c == "mgrs" then some (match MGRS.reverse b centerp with | .error _ => (true, false) | .ok r => (false, r.zone == Gen.UTM.zINVALID))
           else if c == "zone" then some (match UTMUPS.decodeZone b with | .error _ => (true, false) | .ok _ => (false, false))
           else none
         (match m with
          | none => .bad s!"unknown codec {c}"
          | some (true, _) => both st (if e == "!E" then .ok else .bad s!"parser-contract: {c} decoder accepted a string its model rejects: {bytesToString str}")
          | some (false, inv) =>
            both st (if e != "-" then .bad s!"parser-contract: {c} decoder rejected a string its model accepts: {bytesToString str}"
                     else if inv && !(xx.isNaN && yy.isNaN && (c != "mgrs" || zone == Gen.UTM.zINVALID)) then .bad s!"nan-marker: {c} INVALID string must decode to NaN"
                     else .ok))
       | _, _, _, _, _ => .bad "parse")
    | _, _ => .bad "parse"
  | "c13_parse" => some (structural s!"parser {args.headD ""}" res)
  | "c13_int" => some (structural s!"{args.headD ""}" res)
  | "c13_default" => some (structural s!"default-constructed {args.headD ""}" res)
  | "c13_geoidfile" => some (structural "Geoid constructor" (res.take 1))
  | "c13_magfile" => some (structural "MagneticModel constructor" (res.take 1))
  | "c13_gravfile" => some (structural "GravityModel constructor" (res.take 1))
  | _ => none

end GeoVerif.Corr.C13
