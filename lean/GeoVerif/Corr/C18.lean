import GeoVerif.Corr.Proto
import GeoVerif.Model.GridCodes
import GeoVerif.Gen.OSGBC
/-! Correspondence relations for C18 (Geohash, GARS, Georef, OSGB) -/
namespace GeoVerif.Corr.C18
open GeoVerif GeoVerif.Proto GeoVerif.Grid

def strOf (l : List Char) : List UInt8 := l.map fun c => c.toNat.toUInt8
def natsOf (b : List UInt8) : List Nat := b.map UInt8.toNat

/-- `|impl·den − num| ≤ |num|·2^-k + den·2^-1074·4`, all exact -/
def closeRat (impl : F64) (num den : Int) (k : Nat) : Bool :=
  impl.isFinite &&
  let lhs := Dy.abs (Dy.sub (Dy.mul impl.toDy (Dy.ofInt den)) (Dy.ofInt num))
  let rhs : Dy := Dy.add ⟨num.natAbs, -(k : Int)⟩ ⟨den.natAbs * 4, -1074⟩
  Dy.le lhs rhs

def showStr (l : List Char) : String := String.ofList l

/-- forward verdict: exact containing cell, else the coded (rounded) cell = sliver class F2, else bad -/
def fwdVerdict (name : String) (exact coded : Except String (List Char)) (res : List String) : Verdict :=
  match res with
  | ["!E"] =>
    (match coded with
     | .error _ => .ok
     | .ok s => .bad s!"{name}: implementation threw, model returns {showStr s}")
  | [r] =>
    match parseS r, coded, exact with
    | some b, .ok c, .ok e =>
      if b == strOf e then .ok
      else if b == strOf c then
        .bad s!"F2-sliver {name}: position within half an ulp (of the scaled value) below a cell edge is coded into the next cell: got {showStr c}, containing cell is {showStr e}"
      else .bad s!"{name}: impl={bytesToString b} model={showStr c} exact-cell={showStr e}"
    | some b, .error _, _ => .bad s!"{name}: model rejects, impl returned {bytesToString b}"
    | _, _, _ => .bad s!"{name}: parse"
  | _ => .bad s!"{name}: unexpected result {res}"

def parseBool (s : String) : Option Bool := if s == "1" then some true else if s == "0" then some false else none

def valVerdict (name : String) (mlat mlon : F64) (ilat ilon : F64) (exLat exLon : Int × Int) : Verdict :=
  let okLat := F64.same mlat ilat || closeRat ilat exLat.1 exLat.2 50
  let okLon := F64.same mlon ilon || closeRat ilon exLon.1 exLon.2 50
  if okLat && okLon then .ok
  else .bad s!"{name}: impl=({showF ilat},{showF ilon}) model=({showF mlat},{showF mlon}) exact centre/corner=({exLat.1}/{exLat.2},{exLon.1}/{exLon.2})"

/-- global index of the coded square of one coordinate: `h·10^p + (i1 mod 10^min(p,5))·10^(p−5) + (i2 mod 10^(p−5))` — what the digits say -/
def osgbCoded (sc : OSGB.Sc) (p : Nat) : Int :=
  let n1 := min p 5
  sc.h * (10 : Int) ^ p + (sc.i1 % (10 : Int) ^ n1) * (10 : Int) ^ (p - 5) + sc.i2 % (10 : Int) ^ (p - 5)

/-- exact global index `⌊v·10^(p−5)⌋` of a finite coordinate (exact dyadic arithmetic) -/
def osgbExact (v : F64) (p : Nat) : Int :=
  if p ≥ 5 then Dy.floor (Dy.mul v.toDy (Dy.ofInt ((10 : Int) ^ (p - 5))))
  else
    let den : Int := (10 : Int) ^ (5 - p)
    let n := Dy.norm v.toDy
    if n.e ≥ 0 then (Dy.shl n.m n.e) / den else n.m / (den * (2 : Int) ^ (-n.e).toNat)

/-- was the in-tile offset `x − 10^5·h` computed without rounding (or clamped from a negative value)? -/
def osgbOffsetExact (v : F64) (h : Int) : Bool :=
  let ex := Dy.sub v.toDy (Dy.ofInt (100000 * h))
  ex.m < 0 || Dy.eq (OSGB.offset v h).toDy ex

def osgbString (gx gy : Int) (p : Nat) : List Char :=
  let P : Int := (10 : Int) ^ p
  OSGB.tileLetters (gx / P) (gy / P) ++ digitsW OSGB.digits 10 p (gx % P).toNat ++ digitsW OSGB.digits 10 p (gy % P).toNat

/-- one reference against the model: `.ok` when it is the code of the exact containing square, a class label when it is the
coded square of one of the proved deviation classes, a plain mismatch otherwise -/
def osgbOne (x y : F64) (pn : Nat) (b : List UInt8) (c : List Char) : Verdict :=
  let sx := OSGB.scaleCoord x pn
  let sy := OSGB.scaleCoord y pn
  let ex := osgbExact x pn
  let ey := osgbExact y pn
  let e := osgbString ex ey pn
  if b == strOf e then .ok
  else if b == strOf c then
    let dx := osgbCoded sx pn - ex
    let dy := osgbCoded sy pn - ey
    -- exactness of the offset is judged at the tile index *before* the carry of the repaired code (finding F74)
    let hx0 := OSGB.fl (x / F64.ofInt Gen.Grid.osgb_tile)
    let hy0 := OSGB.fl (y / F64.ofInt Gen.Grid.osgb_tile)
    if dx.natAbs > 1 || dy.natAbs > 1 then
      .bad s!"OSGB::GridReference: the coded square {showStr c} is not a neighbour of the containing square {showStr e} (no proved deviation class allows this)"
    else if (dx != 0 && !osgbOffsetExact x hx0) || (dy != 0 && !osgbOffsetExact y hy0) then
      .bad s!"OSGB-offset-sliver OSGB::GridReference: tile -1, the addition x + 10^5 is rounded (by at most 2^-37 m) across a square edge: got {showStr c}, containing square is {showStr e}"
    else
      .bad s!"F2-sliver OSGB: position within half an ulp (of the scaled value) below a cell edge is coded into the next cell: got {showStr c}, containing cell is {showStr e}"
  else .bad s!"OSGB::GridReference: impl={bytesToString b} model={showStr c} exact-cell={showStr e}"

/-- field-wise prefix law between the references at precisions `p` and `p + 1` -/
def osgbPrefixOK (b b2 : List UInt8) (p : Nat) : Bool :=
  b.take (2 + p) == b2.take (2 + p) && b.drop (2 + p) == (b2.drop (2 + p + 1)).take p

/-- `OSGB::GridReference(x, y, prec)`: exact containing square, else one of the proved deviation classes, else bad; the
second result token (when present) is the reference at `prec + 1`: the prefix law is checked here, and a failure that is
the consequence of a proved deviation class of either reference is reported under that class -/
def osgbFwdVerdict (x y : F64) (p : Int) (res : List String) : Verdict :=
  let coded := OSGB.gridReference x y p
  match res with
  | ["!E"] =>
    (match coded with
     | .error _ => .ok
     | .ok s => .bad s!"OSGB::GridReference: implementation threw, model returns {showStr s}")
  | r :: rest =>
    (match parseS r, coded with
     | some b, .ok c =>
       if x.isNaN || y.isNaN then (if b == strOf c then .ok else .bad s!"OSGB::GridReference: impl={bytesToString b} model={showStr c}") else
       let pn := p.toNat
       let v1 := osgbOne x y pn b c
       match rest with
       | [r2] =>
         (match parseS r2, OSGB.gridReference x y (p + 1) with
          | some b2, .ok c2 =>
            if osgbPrefixOK b b2 pn then v1 else
            (match v1, osgbOne x y (pn + 1) b2 c2 with
             | .bad m, _ => .bad m
             | _, .bad m => .bad (m ++ s!" [prec {pn + 1}; seen as a failure of the prefix law against the reference at prec {pn}: {bytesToString b}]")
             | _, _ => .bad s!"prefix-law OSGB: {bytesToString b} (prec {pn}) is not field-wise a prefix of {bytesToString b2}")
          | _, _ => v1)
       | _ => v1
     | some b, .error _ => .bad s!"OSGB::GridReference: model rejects, impl returned {bytesToString b}"
     | _, _ => .bad "OSGB::GridReference: parse")
  | _ => .bad s!"OSGB::GridReference: unexpected result {res}"

def resVerdict (name : String) (f : Int → F64) (args res : List String) : Verdict :=
  match args, res with
  | [a], [x] =>
    (match parseI a, parseF x with
     | some p, some r => if F64.same r (f p) then .ok else .bad s!"{name}({p}): impl={showF r} model={showF (f p)}"
     | _, _ => .bad "parse")
  | _, _ => .bad "parse"

def precVerdict (name : String) (f : F64 → Int) (args res : List String) : Verdict :=
  match args, res with
  | [a], [x] =>
    (match parseF a, parseI x with
     | some r, some p => if p == f r then .ok else .bad s!"{name}({showF r}): impl={p} model={f r}"
     | _, _ => .bad "parse")
  | _, _ => .bad "parse"

def handle (op : String) (args res : List String) : Option Verdict :=
  match op with
  | "geohash_fwd" => some <|
    match args with
    | [a, b, c] =>
      match parseF a, parseF b, parseI c with
      | some lat, some lon, some len =>
        let coded := Geohash.forward lat lon len
        let exact : Except String (List Char) :=
          match coded with
          | .error e => .error e
          | .ok s => match Geohash.scaleExact lat lon with
            | none => .ok s
            | some (ulon, ulat) => .ok (Geohash.encodeInt ulon ulat (Geohash.clampLen len))
        fwdVerdict "Geohash::Forward" exact coded res
      | _, _, _ => .bad "parse"
    | _ => .bad "parse"
  | "gars_fwd" => some <|
    match args with
    | [a, b, c] =>
      match parseF a, parseF b, parseI c with
      | some lat, some lon, some p => fwdVerdict "GARS::Forward" (GARS.forwardExact lat lon p) (GARS.forward lat lon p) res
      | _, _, _ => .bad "parse"
    | _ => .bad "parse"
  | "georef_fwd" => some <|
    match args with
    | [a, b, c] =>
      match parseF a, parseF b, parseI c with
      | some lat, some lon, some p => fwdVerdict "Georef::Forward" (Georef.forwardExact lat lon p) (Georef.forward lat lon p) res
      | _, _, _ => .bad "parse"
    | _ => .bad "parse"
  | "osgb_fwd" => some <|
    match args with
    | [a, b, c] =>
      match parseF a, parseF b, parseI c with
      | some x, some y, some p => osgbFwdVerdict x y p res
      | _, _, _ => .bad "parse"
    | _ => .bad "parse"
  | "geohash_rev" => some <|
    match args with
    | [a, b] =>
      match parseS a, parseBool b with
      | some s, some cp =>
        let m := Geohash.reverse (natsOf s) cp
        match m, res with
        | .error _, ["!E"] => .ok
        | .error e, _ => .bad s!"Geohash::Reverse: model rejects ({e}), impl={res}"
        | .ok _, ["!E"] => .bad "Geohash::Reverse: impl threw on a string the model accepts"
        | .ok .nan, [x, y, _] =>
          (match parseF x, parseF y with
           | some lat, some lon => if lat.isNaN && lon.isNaN then .ok else .bad "Geohash::Reverse: INVALID must give NaN"
           | _, _ => .bad "parse")
        | .ok (.val mlat mlon mlen), [x, y, l] =>
          (match parseF x, parseF y, parseI l, Geohash.decodeInt (natsOf s) with
           | some lat, some lon, some len, .ok d =>
             if len != mlen then .bad s!"Geohash::Reverse: len impl={len} model={mlen}" else
             let sft := 5 * (Geohash.maxlen - d.len)
             let ulon : Int := ((2 * d.ulon + (if cp then 1 else 0)) <<< (sft / 2) : Nat)
             let ulat : Int := ((2 * d.ulat + (if cp then 1 else 0)) <<< (sft - sft / 2) : Nat)
             let den : Int := 2 ^ 45
             -- relative closeness is required of lon+180 / lat+90 (the cell offset), so compare shifted values
             let okLon := F64.same mlon lon || closeRat (lon + MathF.hd) (ulon * 180) den 48
             let okLat := F64.same mlat lat || closeRat (lat + MathF.qd) (ulat * 90) den 48
             if okLon && okLat then .ok
             else .bad s!"Geohash::Reverse: impl=({showF lat},{showF lon}) model=({showF mlat},{showF mlon})"
           | _, _, _, _ => .bad "parse")
        | _, _ => .bad "Geohash::Reverse: shape"
      | _, _ => .bad "parse"
    | _ => .bad "parse"
  | "gars_rev" => some <|
    match args with
    | [a, b] =>
      match parseS a, parseBool b with
      | some s, some cp =>
        match GARS.reverse (natsOf s) cp, res with
        | .error _, ["!E"] => .ok
        | .error e, _ => .bad s!"GARS::Reverse: model rejects ({e}), impl={res}"
        | .ok _, ["!E"] => .bad "GARS::Reverse: impl threw on a string the model accepts"
        | .ok .nan, [x, y, _] =>
          (match parseF x, parseF y with
           | some lat, some lon => if lat.isNaN && lon.isNaN then .ok else .bad "GARS::Reverse: INVALID must give NaN"
           | _, _ => .bad "parse")
        | .ok (.val mlat mlon mp), [x, y, l] =>
          (match parseF x, parseF y, parseI l, GARS.decodeInt (natsOf s) cp with
           | some lat, some lon, some p, .ok d =>
             if p != mp then .bad s!"GARS::Reverse: prec impl={p} model={mp}" else
             valVerdict "GARS::Reverse" mlat mlon lat lon (d.lat1, d.unit) (d.lon1, d.unit)
           | _, _, _, _ => .bad "parse")
        | _, _ => .bad "GARS::Reverse: shape"
      | _, _ => .bad "parse"
    | _ => .bad "parse"
  | "georef_rev" => some <|
    match args with
    | [a, b] =>
      match parseS a, parseBool b with
      | some s, some cp =>
        match Georef.reverse (natsOf s) cp, res with
        | .error _, ["!E"] => .ok
        | .error e, _ => .bad s!"Georef::Reverse: model rejects ({e}), impl={res}"
        | .ok _, ["!E"] => .bad "Georef::Reverse: impl threw on a string the model accepts"
        | .ok .nan, [x, y, _] =>
          (match parseF x, parseF y with
           | some lat, some lon => if lat.isNaN && lon.isNaN then .ok else .bad "Georef::Reverse: INVALID must give NaN"
           | _, _ => .bad "parse")
        | .ok (.val mlat mlon mp), [x, y, l] =>
          (match parseF x, parseF y, parseI l, Georef.decodeInt (natsOf s) cp with
           | some lat, some lon, some p, .ok d =>
             if p != mp then .bad s!"Georef::Reverse: prec impl={p} model={mp}" else
             valVerdict "Georef::Reverse" mlat mlon lat lon (Gen.Grid.georef_tile * d.lat1, d.unit) (Gen.Grid.georef_tile * d.lon1, d.unit)
           | _, _, _, _ => .bad "parse")
        | _, _ => .bad "Georef::Reverse: shape"
      | _, _ => .bad "parse"
    | _ => .bad "parse"
  | "osgb_rev" => some <|
    match args with
    | [a, b] =>
      match parseS a, parseBool b with
      | some s, some cp =>
        match OSGB.reverse (natsOf s) cp, res with
        | .error _, ["!E"] => .ok
        | .error e, _ => .bad s!"OSGB::GridReference(string): model rejects ({e}), impl={res}"
        | .ok _, ["!E"] => .bad "OSGB::GridReference(string): impl threw on a string the model accepts"
        | .ok .nan, [x, y, l] =>
          (match parseF x, parseF y, parseI l with
           | some xx, some yy, some p => if xx.isNaN && yy.isNaN && p == -2 then .ok else .bad "OSGB: a string starting with IN must give NaN, NaN, prec = -2"
           | _, _, _ => .bad "parse")
        | .ok (.val mx my mp), [x, y, l] =>
          (match parseF x, parseF y, parseI l, OSGB.decodeInt (natsOf s) with
           | some xx, some yy, some p, .ok d =>
             if p != mp then .bad s!"OSGB: prec impl={p} model={mp}" else
             -- exact value of the square's corner / centre: (2·(h·10^p + X) + (1 if centre)) · 10^5 / (2·10^p)
             let pn := d.prec
             let P : Int := (10 : Int) ^ pn
             let acc (l : List Nat) : Int := l.foldl (fun (a : Int) (k : Nat) => 10 * a + (k : Int)) 0
             let numx := (2 * (d.xh * P + acc d.xd) + (if cp then 1 else 0)) * 100000
             let numy := (2 * (d.yh * P + acc d.yd) + (if cp then 1 else 0)) * 100000
             let den := 2 * P
             -- tolerance 2^-46 relative to the value shifted by the false origin (≥ 0): the accumulation of 6 rounded digits at 10^6 m
             let okx := F64.same mx xx || closeRat (xx + F64.ofInt 1000000) (numx + 1000000 * den) den 46
             let oky := F64.same my yy || closeRat (yy + F64.ofInt 500000) (numy + 500000 * den) den 46
             -- up to 1 m (p ≤ 5) the arithmetic is exact (theorem `osgb_reverse_exact_le5`): require it of the implementation
             let exactOK := pn > 5 || (closeRat xx numx den 2000 && closeRat yy numy den 2000)
             if okx && oky && exactOK then .ok else .bad s!"OSGB reverse: impl=({showF xx},{showF yy}) model=({showF mx},{showF my}) exact=({numx}/{den},{numy}/{den})"
           | _, _, _, _ => .bad "parse")
        | _, _ => .bad "OSGB: shape"
      | _, _ => .bad "parse"
    | _ => .bad "parse"
  | "geohash_res" => some <|
    match args, res with
    | [a], [x, y, d] =>
      (match parseI a, parseF x, parseF y, parseI d with
       | some len, some la, some lo, some dp =>
         if F64.same la (Geohash.latRes len) && F64.same lo (Geohash.lonRes len) && dp == Geohash.decimalPrecision len then .ok
         else .bad s!"Geohash resolutions for len={len}: impl=({showF la},{showF lo},{dp}) model=({showF (Geohash.latRes len)},{showF (Geohash.lonRes len)},{Geohash.decimalPrecision len})"
       | _, _, _, _ => .bad "parse")
    | _, _ => .bad "parse"
  | "geohash_len" => some <|
    match args, res with
    | [a], [l] =>
      (match parseF a, parseI l with
       | some r, some L => if L == Geohash.lengthFor r then .ok else .bad s!"Geohash::GeohashLength({showF r}): impl={L} model={Geohash.lengthFor r}"
       | _, _ => .bad "parse")
    | _, _ => .bad "parse"
  | "geohash_len2" => some <|
    match args, res with
    | [a, b], [l] =>
      (match parseF a, parseF b, parseI l with
       | some r1, some r2, some L => if L == Geohash.lengthFor2 r1 r2 then .ok else .bad s!"Geohash::GeohashLength({showF r1},{showF r2}): impl={L} model={Geohash.lengthFor2 r1 r2}"
       | _, _, _ => .bad "parse")
    | _, _ => .bad "parse"
  | "gars_res" => some <| resVerdict "GARS::Resolution" GARS.resolution args res
  | "georef_res" => some <| resVerdict "Georef::Resolution" Georef.resolution args res
  | "gars_prec" => some <| precVerdict "GARS::Precision" GARS.precision args res
  | "georef_prec" => some <| precVerdict "Georef::Precision" Georef.precision args res
  | "osgb_consts" => some <|
    match res.mapM parseF with
    | some [a, f, k0, la0, lo0, fn, fe, no, y0, ta, tf, tk0] =>
      let C := Gen.OSGBC.falseEasting
      let chk : List (Bool × String) := [
        (F64.same f (F64.ofInt Gen.OSGBC.f_num / F64.ofInt Gen.OSGBC.f_den), "Flattening = real(N)/real(D)"),
        (F64.same la0 (F64.ofInt Gen.OSGBC.lat0) && F64.same lo0 (F64.ofInt Gen.OSGBC.lon0), "origin latitude / longitude"),
        (F64.same fn (F64.ofInt Gen.OSGBC.falseNorthing) && F64.same fe (F64.ofInt C), "false northing / easting"),
        (F64.same no (OSGB.northOffset fn y0), "computenorthoffset() = FalseNorthing() - y(OriginLatitude)"),
        (F64.same ta a && F64.same tf f && F64.same tk0 k0, "OSGBTM() is built from EquatorialRadius(), Flattening(), CentralScale()"),
        -- published decimals, decided exactly: 6377563.3955 < a < 6377563.3965 ; 0.9996012716 < k0 < 0.9996012718 (one unit of the last published digit)
        (a.isFinite && Dy.lt (Dy.mul a.toDy (Dy.ofInt 10000)) (Dy.ofInt 63775633965) && Dy.lt (Dy.ofInt 63775633955) (Dy.mul a.toDy (Dy.ofInt 10000)), "a = 6377563.396 m"),
        (k0.isFinite && Dy.lt (Dy.mul k0.toDy (Dy.ofInt 100000000000)) (Dy.ofInt 99960127180) && Dy.lt (Dy.ofInt 99960127160) (Dy.mul k0.toDy (Dy.ofInt 100000000000)), "F0 = 0.9996012717")]
      match chk.filter (fun c => !c.1) with
      | [] => .ok
      | bad => .bad s!"OSGB constants: {bad.map (·.2)}"
    | _ => .bad "parse"
  | "osgb_tm_fwd" => some <|
    match res.mapM parseF with
    | some [x, y, g, k, tx, ty, tg, tk, no] =>
      let m := OSGB.forwardWrap (F64.ofInt Gen.OSGBC.falseEasting) no tx ty
      if F64.same x m.1 && F64.same y m.2 && F64.same g tg && F64.same k tk then .ok
      else .bad s!"OSGB::Forward: (x, y, gamma, k) = ({showF x},{showF y},{showF g},{showF k}) but the projection gives ({showF tx},{showF ty},{showF tg},{showF tk}), north offset {showF no}"
    | _ => .bad "parse"
  | "osgb_tm_rev" => some <|
    match res.mapM parseF with
    | some [la, lo, g, k, tla, tlo, tg, tk] =>
      -- the harness applies the inverse projection to (x − FalseEasting(), y − computenorthoffset()) itself: same bits expected
      if F64.same la tla && F64.same lo tlo && F64.same g tg && F64.same k tk then .ok
      else .bad s!"OSGB::Reverse: ({showF la},{showF lo},{showF g},{showF k}) differs from the inverse projection of the shifted point ({showF tla},{showF tlo},{showF tg},{showF tk})"
    | _ => .bad "parse"
  | _ => none

end GeoVerif.Corr.C18
