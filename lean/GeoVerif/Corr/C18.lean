import GeoVerif.Corr.Proto
import GeoVerif.Model.GridCodes
/-! Correspondence relations for C18 (Geohash, GARS, Georef, OSGB) -/
namespace GeoVerif.Corr.C18
open GeoVerif GeoVerif.Proto GeoVerif.Grid

def strOf (l : List Char) : List UInt8 := l.map fun c => c.toNat.toUInt8
def natsOf (b : List UInt8) : List Nat := b.map UInt8.toNat

/-- `|impl·den − num| ≤ |num|·2^-k + den·2^-1074·4`, all exact -/
def closeRat (impl : F64) (num den : Int) (k : Nat) : Bool :=
  impl.isFinite &&
  let lhs := Dy.abs (Dy.sub (Dy.mul impl.toDy (Dy.ofInt den)) (Dy.ofInt num))
  let rhs : Dy := Dy.add ⟨num.natAbs, -(k : Int)⟩ ⟨den.natAbs * 4, -1074⟩
  Dy.le lhs rhs

def showStr (l : List Char) : String := String.ofList l

/-- forward verdict: exact containing cell, else the coded (rounded) cell = sliver class F2, else bad -/
def fwdVerdict (name : String) (exact coded : Except String (List Char)) (res : List String) : Verdict :=
  match res with
  | ["!E"] =>
    (match coded with
     | .error _ => .ok
     | .ok s => .bad s!"{name}: implementation threw, model returns {showStr s}")
  | [r] =>
    match parseS r, coded, exact with
    | some b, .ok c, .ok e =>
      if b == strOf e then .ok
      else if b == strOf c then
        .bad s!"F2-sliver {name}: position within half an ulp (of the scaled value) below a cell edge is coded into the next cell: got {showStr c}, containing cell is {showStr e}"
      else .bad s!"{name}: impl={bytesToString b} model={showStr c} exact-cell={showStr e}"
    | some b, .error _, _ => .bad s!"{name}: model rejects, impl returned {bytesToString b}"
    | _, _, _ => .bad s!"{name}: parse"
  | _ => .bad s!"{name}: unexpected result {res}"

def parseBool (s : String) : Option Bool := if s == "1" then some true else if s == "0" then some false else none

def valVerdict (name : String) (mlat mlon : F64) (ilat ilon : F64) (exLat exLon : Int × Int) : Verdict :=
  let okLat := F64.same mlat ilat || closeRat ilat exLat.1 exLat.2 50
  let okLon := F64.same mlon ilon || closeRat ilon exLon.1 exLon.2 50
  if okLat && okLon then .ok
  else .bad s!"{name}: impl=({showF ilat},{showF ilon}) model=({showF mlat},{showF mlon}) exact centre/corner=({exLat.1}/{exLat.2},{exLon.1}/{exLon.2})"

def handle (op : String) (args res : List String) : Option Verdict :=
  match op with
  | "geohash_fwd" => some <|
    match args with
    | [a, b, c] =>
      match parseF a, parseF b, parseI c with
      | some lat, some lon, some len =>
        let coded := Geohash.forward lat lon len
        let exact : Except String (List Char) :=
          match coded with
          | .error e => .error e
          | .ok s => match Geohash.scaleExact lat lon with
            | none => .ok s
            | some (ulon, ulat) => .ok (Geohash.encodeInt ulon ulat (Geohash.clampLen len))
        fwdVerdict "Geohash::Forward" exact coded res
      | _, _, _ => .bad "parse"
    | _ => .bad "parse"
  | "gars_fwd" => some <|
    match args with
    | [a, b, c] =>
      match parseF a, parseF b, parseI c with
      | some lat, some lon, some p => fwdVerdict "GARS::Forward" (GARS.forwardExact lat lon p) (GARS.forward lat lon p) res
      | _, _, _ => .bad "parse"
    | _ => .bad "parse"
  | "georef_fwd" => some <|
    match args with
    | [a, b, c] =>
      match parseF a, parseF b, parseI c with
      | some lat, some lon, some p => fwdVerdict "Georef::Forward" (Georef.forwardExact lat lon p) (Georef.forward lat lon p) res
      | _, _, _ => .bad "parse"
    | _ => .bad "parse"
  | "osgb_fwd" => some <|
    match args with
    | [a, b, c] =>
      match parseF a, parseF b, parseI c with
      | some x, some y, some p =>
        let coded := OSGB.gridReference x y p
        -- exact containing cell: N = ⌊(x + 10^6)·10^(p-5)⌋ etc.
        let exact : Except String (List Char) :=
          match coded with
          | .error e => .error e
          | .ok s =>
            if x.isNaN || y.isNaN then .ok s else
            let pn := p.toNat
            let cell (v : F64) (off : Int) : Int :=
              let d := Dy.add v.toDy (Dy.ofInt off)
              if pn ≥ 5 then Dy.floor (Dy.mul d (Dy.ofInt ((10 : Int) ^ (pn - 5))))
              else
                let den : Int := (10 : Int) ^ (5 - pn)
                let n := Dy.norm d
                if n.e ≥ 0 then (Dy.shl n.m n.e) / den else n.m / (den * (2 : Int) ^ (-n.e).toNat)
            let nx := cell x 1000000
            let ny := cell y 500000
            let P : Int := (10 : Int) ^ pn
            let xh := nx / P
            let yh := ny / P
            let g := Gen.Grid.osgb_tilegrid
            .ok ([chr OSGB.letters ((g - (yh / g) - 1) * g + (xh / g)).toNat, chr OSGB.letters ((g - (yh % g) - 1) * g + (xh % g)).toNat]
                 ++ digitsW OSGB.digits 10 pn (nx % P).toNat ++ digitsW OSGB.digits 10 pn (ny % P).toNat)
        fwdVerdict "OSGB::GridReference" exact coded res
      | _, _, _ => .bad "parse"
    | _ => .bad "parse"
  | "geohash_rev" => some <|
    match args with
    | [a, b] =>
      match parseS a, parseBool b with
      | some s, some cp =>
        let m := Geohash.reverse (natsOf s) cp
        match m, res with
        | .error _, ["!E"] => .ok
        | .error e, _ => .bad s!"Geohash::Reverse: model rejects ({e}), impl={res}"
        | .ok _, ["!E"] => .bad "Geohash::Reverse: impl threw on a string the model accepts"
        | .ok .nan, [x, y, _] =>
          (match parseF x, parseF y with
           | some lat, some lon => if lat.isNaN && lon.isNaN then .ok else .bad "Geohash::Reverse: INVALID must give NaN"
           | _, _ => .bad "parse")
        | .ok (.val mlat mlon mlen), [x, y, l] =>
          (match parseF x, parseF y, parseI l, Geohash.decodeInt (natsOf s) with
           | some lat, some lon, some len, .ok d =>
             if len != mlen then .bad s!"Geohash::Reverse: len impl={len} model={mlen}" else
             let sft := 5 * (Geohash.maxlen - d.len)
             let ulon : Int := ((2 * d.ulon + (if cp then 1 else 0)) <<< (sft / 2) : Nat)
             let ulat : Int := ((2 * d.ulat + (if cp then 1 else 0)) <<< (sft - sft / 2) : Nat)
             let den : Int := 2 ^ 45
             -- relative closeness is required of lon+180 / lat+90 (the cell offset), so compare shifted values
             let okLon := F64.same mlon lon || closeRat (lon + MathF.hd) (ulon * 180) den 48
             let okLat := F64.same mlat lat || closeRat (lat + MathF.qd) (ulat * 90) den 48
             if okLon && okLat then .ok
             else .bad s!"Geohash::Reverse: impl=({showF lat},{showF lon}) model=({showF mlat},{showF mlon})"
           | _, _, _, _ => .bad "parse")
        | _, _ => .bad "Geohash::Reverse: shape"
      | _, _ => .bad "parse"
    | _ => .bad "parse"
  | "gars_rev" => some <|
    match args with
    | [a, b] =>
      match parseS a, parseBool b with
      | some s, some cp =>
        match GARS.reverse (natsOf s) cp, res with
        | .error _, ["!E"] => .ok
        | .error e, _ => .bad s!"GARS::Reverse: model rejects ({e}), impl={res}"
        | .ok _, ["!E"] => .bad "GARS::Reverse: impl threw on a string the model accepts"
        | .ok .nan, [x, y, _] =>
          (match parseF x, parseF y with
           | some lat, some lon => if lat.isNaN && lon.isNaN then .ok else .bad "GARS::Reverse: INVALID must give NaN"
           | _, _ => .bad "parse")
        | .ok (.val mlat mlon mp), [x, y, l] =>
          (match parseF x, parseF y, parseI l, GARS.decodeInt (natsOf s) cp with
           | some lat, some lon, some p, .ok d =>
             if p != mp then .bad s!"GARS::Reverse: prec impl={p} model={mp}" else
             valVerdict "GARS::Reverse" mlat mlon lat lon (d.lat1, d.unit) (d.lon1, d.unit)
           | _, _, _, _ => .bad "parse")
        | _, _ => .bad "GARS::Reverse: shape"
      | _, _ => .bad "parse"
    | _ => .bad "parse"
  | "georef_rev" => some <|
    match args with
    | [a, b] =>
      match parseS a, parseBool b with
      | some s, some cp =>
        match Georef.reverse (natsOf s) cp, res with
        | .error _, ["!E"] => .ok
        | .error e, _ => .bad s!"Georef::Reverse: model rejects ({e}), impl={res}"
        | .ok _, ["!E"] => .bad "Georef::Reverse: impl threw on a string the model accepts"
        | .ok .nan, [x, y, _] =>
          (match parseF x, parseF y with
           | some lat, some lon => if lat.isNaN && lon.isNaN then .ok else .bad "Georef::Reverse: INVALID must give NaN"
           | _, _ => .bad "parse")
        | .ok (.val mlat mlon mp), [x, y, l] =>
          (match parseF x, parseF y, parseI l, Georef.decodeInt (natsOf s) cp with
           | some lat, some lon, some p, .ok d =>
             if p != mp then .bad s!"Georef::Reverse: prec impl={p} model={mp}" else
             valVerdict "Georef::Reverse" mlat mlon lat lon (Gen.Grid.georef_tile * d.lat1, d.unit) (Gen.Grid.georef_tile * d.lon1, d.unit)
           | _, _, _, _ => .bad "parse")
        | _, _ => .bad "Georef::Reverse: shape"
      | _, _ => .bad "parse"
    | _ => .bad "parse"
  | "osgb_rev" => some <|
    match args with
    | [a, b] =>
      match parseS a, parseBool b with
      | some s, some cp =>
        match OSGB.reverse (natsOf s) cp, res with
        | .error _, ["!E"] => .ok
        | .error e, _ => .bad s!"OSGB::GridReference(string): model rejects ({e}), impl={res}"
        | .ok _, ["!E"] => .bad "OSGB::GridReference(string): impl threw on a string the model accepts"
        | .ok .nan, [x, y, _] =>
          (match parseF x, parseF y with
           | some xx, some yy => if xx.isNaN && yy.isNaN then .ok else .bad "OSGB: INVALID must give NaN"
           | _, _ => .bad "parse")
        | .ok (.val mx my mp), [x, y, l] =>
          (match parseF x, parseF y, parseI l with
           | some xx, some yy, some p =>
             if p != mp then .bad s!"OSGB: prec impl={p} model={mp}" else
             -- exact value: digits are decimal fractions of the tile; tolerance 2^-44 relative to the 10^6-offset value
             let grid := (natsOf s).filter (fun c => !OSGB.isSpace c)
             let pn := mp.toNat
             let dig (i : Nat) : Int := ((lookup OSGB.digits (grid.getD i 0)).map Int.ofNat).getD 0
             let acc (off : Nat) : Int := (List.range pn).foldl (fun a i => 10 * a + dig (2 + off + i)) 0
             let tileIdx (f : Nat → Int) : Int := f 0 * 5 + f 1
             let li (k : Nat) : Int := ((lookup OSGB.letters (grid.getD k 0)).map Int.ofNat).getD 0
             let xh := tileIdx (fun k => li k % 5) - 10
             let yh := tileIdx (fun k => 5 - li k / 5 - 1) - 5
             let P : Int := (10 : Int) ^ pn
             -- value·(2P)/10^5 = (2·(xh·P + digits) + (1 if centre)) ; so value = num / den with den = 2P, scaled by 10^5
             let numx := (2 * (xh * P + acc 0) + (if cp then 1 else 0)) * 100000
             let numy := (2 * (yh * P + acc pn) + (if cp then 1 else 0)) * 100000
             let den := 2 * P
             let okx := F64.same mx xx || closeRat (xx + F64.ofInt 1000000) (numx + 1000000 * den) den 46
             let oky := F64.same my yy || closeRat (yy + F64.ofInt 500000) (numy + 500000 * den) den 46
             if okx && oky then .ok else .bad s!"OSGB reverse: impl=({showF xx},{showF yy}) model=({showF mx},{showF my})"
           | _, _, _ => .bad "parse")
        | _, _ => .bad "OSGB: shape"
      | _, _ => .bad "parse"
    | _ => .bad "parse"
  | _ => none

end GeoVerif.Corr.C18
