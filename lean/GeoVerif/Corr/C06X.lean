import GeoVerif.Corr.Proto
import GeoVerif.Model.TMExact
import GeoVerif.FP.RunErr
/-!
# Correspondence of the exact transverse Mercator with `Model/TMExact.lean`

The model is executed in the running-error arithmetic `RE` (`FP/RunErr.lean`): the value is its binary64 evaluation, the
tolerance is `4 ×` the first-order bound of the rounding error of that evaluation on these inputs (no identical-bits demand, a
re-association of the source is not an alarm).  The elliptic functions are kernels of the model: the harness records every
value the implementation's `EllipticFunction` objects returned along the computation, and the kernel slot is filled with them
(`Ell.am i u v` = the `i`-th recorded triple pair; the distance between the model's argument and the recorded argument enters
the error bound with the Lipschitz constant 1 of `sn, cn, dn, E` in their argument).

* `tmxc`  — constructor state (`tol_`, `tol2_`, `taytol_`, `_mu`, `_mv`, `_e`, `numit_` = the header value in `Gen.TMExact`, `_extendp`);
* `tmxf`  — `zeta`, `dwdzeta`, `sigma`, `dwdsigma`, `Scale` at a given `(u, v)`;
* `tmxz0`, `tmxs0` — the starting guesses: same case, same flag, same `(u, v)`;
* `tmxzi`, `tmxsi` — the Newton loops: every recorded step is the model's step from the recorded iterate; the model's loop (`newton`) fed with the
  model's corrections at the recorded iterates takes the same number of steps and ends where the library's own `zetainv` / `sigmainv` ended;
* `tmxkf`, `tmxkr` — `Forward` / `Reverse` between the fold and the unfold (pole and branch-point special cases included).
-/
namespace GeoVerif.Corr.C06X
open GeoVerif GeoVerif.Proto GeoVerif.TMX

def pfl (s : String) : Option Float := if s.length != 16 then none else (hexToNat s).map fun n => Float.ofBits n.toUInt64

def sci (x : Float) : String :=
  if x.isNaN then "NaN" else if x.isInf then (if x < 0 then "-inf" else "inf") else if x == 0 then "0" else
  let e := (Float.log10 x.abs).floor
  let m := x / Float.pow 10 e
  s!"{m}e{e.toInt64}"

def cmpRE (name : String) (impl : Float) (m : RE) : Option String :=
  let d := Float.abs (impl - m.v)
  if (impl.isNaN && m.v.isNaN) || impl == m.v || d ≤ 4 * m.e || (m.e.isNaN && !m.v.isNaN && !impl.isNaN) then none
  else some s!"{name}: impl={sci impl} model={sci m.v} diff={sci d} bound={sci m.e}"

/-- angles in degrees / radians are compared modulo a full turn -/
def cmpREang (name : String) (turn : Float) (impl : Float) (m : RE) : Option String :=
  match cmpRE name impl m with
  | none => none
  | some s => if (cmpRE name (impl + turn) m).isNone || (cmpRE name (impl - turn) m).isNone then none else some s

/-- one recorded call of the elliptic functions -/
structure Ent where
  u : Float
  v : Float
  j : Jac Float
  eu : Float
  ev : Float

def nanEnt : Ent := let n : Float := 0.0 / 0.0; ⟨n, n, ⟨n, n, n, n, n, n⟩, n, n⟩

def entOf : List Float → Option Ent
  | [u, v, a, b, c, d, e, f, eu, ev] => some ⟨u, v, ⟨a, b, c, d, e, f⟩, eu, ev⟩
  | _ => none

/-- split `n · 10` numbers into `n` entries -/
def entries : Nat → List Float → Option (List Ent × List Float)
  | 0, l => some ([], l)
  | n + 1, l =>
    match entOf (l.take 10), entries n (l.drop 10) with
    | some e, some (es, rest) => some (e :: es, rest)
    | _, _ => none

/-- the recorded values as a kernel.  The distance between the model's argument and the recorded argument enters the error bound with
    the Lipschitz constant 1 of `sn, cn, dn, E` in their argument.  Inside a Newton loop (`carry = false`) the bound carried by the
    iterate itself is *not* fed through the kernels: the iterate is the input of the step, and Newton's iteration forgets the error of
    its iterate quadratically — what the comparison needs is the rounding error of the steps (which still accumulates additively in
    `u − delu`), not the first-order propagation of the first step's error through all later ones (which grows geometrically and says
    nothing).  For the call after the loop (`carry = true`) the accumulated bound of `(u, v)` is propagated as usual. -/
def reJac (carry : Bool) (e : Ent) (u v : RE) : Jac RE :=
  let du := Float.abs (u.v - e.u) + (if carry then u.e else 0)
  let dv := Float.abs (v.v - e.v) + (if carry then v.e else 0)
  ⟨⟨e.j.snu, du⟩, ⟨e.j.cnu, du⟩, ⟨e.j.dnu, du⟩, ⟨e.j.snv, dv⟩, ⟨e.j.cnv, dv⟩, ⟨e.j.dnv, dv⟩⟩

def reEinc (carry : Bool) (e : Ent) (u v : RE) : RE × RE :=
  (⟨e.eu, Float.abs (u.v - e.u) + (if carry then u.e else 0)⟩, ⟨e.ev, Float.abs (v.v - e.v) + (if carry then v.e else 0)⟩)

def mkEll (Ku Eu Kv KEv : Float) (loop : List Ent) (fin : Ent) : Ell RE :=
  let get (i : Nat) : Ent := if i == finalIdx then fin else loop.getD i nanEnt
  ⟨RE.exact Ku, RE.exact Eu, RE.exact Kv, RE.exact KEv, fun i u v => reJac (i == finalIdx) (get i) u v, fun i u v _ => reEinc (i == finalIdx) (get i) u v⟩

def exJac (j : Jac Float) : Jac RE := ⟨RE.exact j.snu, RE.exact j.cnu, RE.exact j.dnu, RE.exact j.snv, RE.exact j.cnv, RE.exact j.dnv⟩

def flag (s : String) : Option Bool := if s == "1" then some true else if s == "0" then some false else none

/-- a bound so large that a comparison against it says nothing -/
def vacuous (xs : List RE) : Bool := xs.any fun x => !(x.e ≤ 1e-4 * (1 + x.v.abs))

def report (what : String) (bads : List (Option String)) : Verdict :=
  let b := bads.filterMap id
  if b.isEmpty then .ok else .bad s!"{what}: {b}"

/-- per-step check of a recorded Newton trajectory: from every recorded iterate the model's step lands on the next one, and from the
    last one on the point the library returned.  Returns the discrepancies and the squared step lengths. -/
def stepChecks (step : Nat → RE → RE → RE × RE) (loop : List Ent) (uf vf : Float) : List (Option String) × List Float :=
  let n := loop.length
  ((List.range n).foldl (fun (acc : List (Option String) × List Float) i =>
    let e := loop.getD i nanEnt
    let d := step i (RE.exact e.u) (RE.exact e.v)
    let u' := RE.exact e.u - d.1
    let v' := RE.exact e.v - d.2
    let (tu, tv) := if i + 1 < n then ((loop.getD (i + 1) nanEnt).u, (loop.getD (i + 1) nanEnt).v) else (uf, vf)
    let d2 := (RealLike.sq d.1 + RealLike.sq d.2 : RE).v
    (acc.1 ++ [cmpRE s!"u after step {i}" tu u', cmpRE s!"v after step {i}" tv v'], acc.2 ++ [d2])) ([], []))

/-- the loop test `delw2 >= thr` was decided within a factor 4 of the threshold somewhere: the iteration count may legitimately differ -/
def marginal (d2s : List Float) (thr : Float) : Bool := d2s.any fun d => 0.25 * thr ≤ d && d ≤ 4 * thr

def guessName : Guess → String
  | .pole => "pole" | .branch => "branch-point" | .plain => "plain"

def loopVerdict (name : String) (o : NOut RE) (g : Guess) (loop : List Ent) (uf vf thr : Float) (checks : List (Option String) × List Float) : Verdict :=
  let n := loop.length
  let stepBad := checks.1.filterMap id
  if !stepBad.isEmpty then .bad s!"{name}: a recorded Newton step is not the model's step from the recorded iterate ({guessName g} start): {stepBad}"
  else if o.steps != n then
    if marginal checks.2 thr || (n == 0) != (o.steps == 0) then .skip s!"{name}: iteration counts differ at a marginal test (model {o.steps}, implementation {n})"
    else .bad s!"{name}: the model's loop takes {o.steps} steps on the recorded kernel values, the implementation's loop took {n} (squared step lengths {checks.2.map sci}, threshold {sci thr})"
  else if vacuous [o.u, o.v] then .skip s!"{name}: ill-conditioned (error bound {sci o.u.e}, {sci o.v.e})"
  else report s!"{name}: the library's result is not where the model's loop ends ({guessName g} start, {n} steps)" [cmpRE "u" uf o.u, cmpRE "v" vf o.v]

def handle (op : String) (args res : List String) : Option Verdict :=
  match op with
  | "tmxc" => some <|
    match args, res with
    | [sf, sext], [stol, stol2, stay, smu, smv, se, snumit, sextp, _, _, _, _] =>
      match pfl sf, flag sext, [stol, stol2, stay, smu, smv, se].mapM pfl, snumit.toNat?, flag sextp with
      | some f, some ext, some [tol, tol2, tay, mu, mv, e], some numit, some extp =>
        let p := mkPar (RE.exact f) ext
        if numit != p.numit then .bad s!"numit_ of the object is {numit}, the header constant read by the translator is {p.numit}"
        else if extp != ext then .bad "_extendp is not the constructor argument"
        else report "constructor state of TransverseMercatorExact differs from Model/TMExact.mkPar"
          [cmpRE "tol_" tol p.tol, cmpRE "tol2_" tol2 p.tol2, cmpRE "taytol_" tay p.taytol, cmpRE "_mu" mu p.mu, cmpRE "_mv" mv p.mv, cmpRE "_e" e p.e]
      | _, _, _, _, _ => .bad "parse"
    | _, ["!E"] => .skip "constructor threw"
    | _, _ => .bad "parse"
  | "tmtau" => some <|
    match args.mapM pfl, res.mapM pfl with
    | some [es, tau], some [tp, tb] =>
      let m := TM.taupf (RE.exact tau) (RE.exact es)
      let b := TM.tauf (RE.exact tp) (RE.exact es)
      if !tau.isFinite || tau.abs > 1e150 then .skip "taupf model is for finite arguments whose square does not overflow" else
      report "Math::taupf / Math::tauf differ from Model/TM" [cmpRE "taupf" tp m, cmpRE "tauf" tb b]
    | _, _ => .bad "parse"
  | "tmxf" => some <|
    match args.mapM pfl, res.mapM pfl with
    | some [f, _u, v, tau, a, b, c, d, e, g, eu, ev], some [taup, lam, du, dv, xi, eta, du2, dv2, gam, k] =>
      let p := mkPar (RE.exact f) false
      let j := exJac ⟨a, b, c, d, e, g⟩
      let z := zeta p j; let dz := dwdzeta p j
      let s := sigma p j (RE.exact v) (RE.exact eu, RE.exact ev); let ds := dwdsigma p j
      let gk := scale p (RE.exact tau) j
      report "closed forms of TransverseMercatorExact differ from Model/TMExact"
        [cmpRE "zeta.taup" taup z.1, cmpREang "zeta.lam" 6.283185307179586 lam z.2, cmpRE "dwdzeta.du" du dz.1, cmpRE "dwdzeta.dv" dv dz.2,
         cmpRE "sigma.xi" xi s.1, cmpRE "sigma.eta" eta s.2, cmpRE "dwdsigma.du" du2 ds.1, cmpRE "dwdsigma.dv" dv2 ds.2,
         cmpREang "Scale.gamma" 6.283185307179586 gam gk.1, cmpRE "Scale.k" k gk.2]
    | _, _ => .bad "parse"
  | "tmxz0" | "tmxs0" => some <|
    match args.mapM pfl, res with
    | some [f, a, b, Ku, Eu, Kv, KEv], [sdone, su, sv] =>
      match flag sdone, pfl su, pfl sv with
      | some done, some u, some v =>
        let p := mkPar (RE.exact f) false
        let E := mkEll Ku Eu Kv KEv [] nanEnt
        let s := if op == "tmxz0" then zetainv0 p E (RE.exact a) (RE.exact b) else sigmainv0 p E (RE.exact a) (RE.exact b)
        if s.done != done then
          (if s.which == .branch then .skip "the distance to the branch point is within rounding of the no-iteration threshold"
           else .bad s!"{op}: return value {done}, model {s.done} ({guessName s.which} case)")
        else report s!"{op}: starting guess differs from Model/TMExact ({guessName s.which} case)" [cmpRE "u" u s.u, cmpRE "v" v s.v]
      | _, _, _ => .bad "parse"
    | _, _ => .bad "parse"
  | "tmxzi" | "tmxsi" => some <|
    -- tmxsi: the fourth input is the `image` flag ("0"/"1"), used by the harness only
    let args := if op == "tmxsi" then args.take 3 ++ args.drop 4 else args
    match args.mapM pfl, res.mapM pfl with
    | some (f :: a :: b :: Ku :: Eu :: Kv :: KEv :: nf :: rest), some [uf, vf] =>
      match entries nf.toUInt64.toNat rest with
      | some (loop, []) =>
        let p := mkPar (RE.exact f) false
        let E := mkEll Ku Eu Kv KEv loop nanEnt
        -- loop control is decided on the recorded trajectory itself: the model's `newton` is run with the model's corrections at the recorded
        -- iterates (exact inputs), so that a rounding-level difference between the model's and the recorded iterate cannot change a test
        -- next to the branch point, where the corrections are dominated by the rounding of sigma / zeta
        let nan : RE := RE.exact (0.0 / 0.0)
        let ctrl (stepf : Nat → RE → RE → RE × RE) (thr : RE) (s : Start RE) : NOut RE :=
          if s.done then ⟨s.u, s.v, 0, false, false⟩ else
          newton (fun i _ _ => match loop[i]? with
            | some e => stepf i (RE.exact e.u) (RE.exact e.v)
            | none => (nan, nan)) thr p.numit 0 false s.u s.v
        if op == "tmxzi" then
          let taup := RE.exact a; let lam := RE.exact b
          let psi : RE := RealLike.asinh taup
          let scal : RE := (RE.exact 1) / RealLike.hypot (RE.exact 1) taup
          let thr : RE := p.tol2 / RealLike.sq (RealLike.max psi (RE.exact 1))
          let s := zetainv0 p E psi lam
          loopVerdict "zetainv" (ctrl (zetaStep p E taup lam scal) thr s) s.which loop uf vf thr.v (stepChecks (zetaStep p E taup lam scal) loop uf vf)
        else
          let s := sigmainv0 p E (RE.exact a) (RE.exact b)
          loopVerdict "sigmainv" (ctrl (sigmaStep p E (RE.exact a) (RE.exact b)) p.tol2 s) s.which loop uf vf p.tol2.v (stepChecks (sigmaStep p E (RE.exact a) (RE.exact b)) loop uf vf)
      | _ => .bad "parse"
    | _, _ => .bad "parse"
  | "tmxkf" => some <|
    match args with
    | sf :: sext :: slat :: slon :: rest =>
      match pfl sf, flag sext, pfl slat, pfl slon, rest.mapM pfl, res.mapM pfl with
      | some f, some ext, some lat, some lon, some (tau :: Ku :: Eu :: Kv :: KEv :: nf :: rest), some [xi, eta, g, k] =>
        match entries nf.toUInt64.toNat rest with
        | some (loop, finl) =>
          match entOf finl with
          | some fin =>
            let p := mkPar (RE.exact f) ext
            let E := mkEll Ku Eu Kv KEv loop fin
            let m := fwdKernel p E (RE.exact lat) (RE.exact lon) (RE.exact tau)
            if m.via == .newton && m.steps != loop.length then .skip s!"Forward: iteration counts differ (model {m.steps}, implementation {loop.length})"
            else if vacuous [m.p, m.q, m.k] then .skip s!"Forward: ill-conditioned (error bounds {sci m.p.e}, {sci m.q.e}, {sci m.k.e})"
            else report "TransverseMercatorExact::Forward between fold and unfold differs from Model/TMExact.fwdKernel"
              [cmpRE "xi" xi m.p, cmpRE "eta" eta m.q, cmpREang "gamma" 360 g m.gamma, cmpRE "k" k m.k]
          | none => .bad "parse"
        | none => .bad "parse"
      | _, _, _, _, _, _ => .bad "parse"
    | _ => .bad "parse"
  | "tmxkr" => some <|
    match args with
    | sf :: sext :: sxi :: seta :: rest =>
      match pfl sf, flag sext, pfl sxi, pfl seta, rest.mapM pfl, res.mapM pfl with
      | some f, some ext, some xi, some eta, some (Ku :: Eu :: Kv :: KEv :: nf :: rest), some [lat, lon, g, k] =>
        match entries nf.toUInt64.toNat rest with
        | some (loop, finl) =>
          match entOf finl with
          | some fin =>
            let p := mkPar (RE.exact f) ext
            let E := mkEll Ku Eu Kv KEv loop fin
            let m := revKernel p E (RE.exact xi) (RE.exact eta)
            if m.via == .newton && m.steps != loop.length then .skip s!"Reverse: iteration counts differ (model {m.steps}, implementation {loop.length})"
            else if vacuous [m.p, m.q, m.k] then .skip s!"Reverse: ill-conditioned (error bounds {sci m.p.e}, {sci m.q.e}, {sci m.k.e})"
            else report "TransverseMercatorExact::Reverse between fold and unfold differs from Model/TMExact.revKernel"
              [cmpRE "lat" lat m.p, cmpREang "lon" 360 lon m.q, cmpREang "gamma" 360 g m.gamma, cmpRE "k" k m.k]
          | none => .bad "parse"
        | none => .bad "parse"
      | _, _, _, _, _, _ => .bad "parse"
    | _ => .bad "parse"
  | _ => none

end GeoVerif.Corr.C06X
