import GeoVerif.Corr.Proto
import GeoVerif.Model.GeodInverse
/-! Correspondence for C02: canonical-form bookkeeping of the inverse solvers, and output ranges -/
namespace GeoVerif.Corr.C02
open GeoVerif GeoVerif.Proto GeoVerif.GeodInverse

/-- equal bits, or both zero (the sign of a zero is not part of the contract), or both NaN -/
def sameZ (a b : F64) : Bool := F64.same a b || (a.isZero && b.isZero)

def handle (op : String) (args res : List String) : Option Verdict :=
  match op with
  | "invwrap" => some <|
    -- args: a f  lat1 lon1 lat2 lon2 | canonical input used by the harness (lat1c lat2c lon12c) | kernel = outputs on the canonical input
    -- res: outputs on the original input; order s12 salp1 calp1 salp2 calp2 m12 M12 M21 S12 a12
    match parseFs args, parseFs res with
    | some (_a :: _f :: lat1 :: lon1 :: lat2 :: lon2 :: l1c :: l2c :: l12c :: kern), some out =>
      if kern.length != 10 || out.length != 10 then .bad "parse" else
      let k := canon lat1 lon1 lat2 lon2
      if !(sameZ k.lat1 l1c && sameZ k.lat2 l2c && sameZ k.lon12 l12c) then
        .bad s!"canonical form: harness used ({showF l1c},{showF l2c},{showF l12c}), model says ({showF k.lat1},{showF k.lat2},{showF k.lon12})"
      else if !k.lon12s.isZero then .skip "longitude difference not exact (error term feeds the core)"
      else
        let g (i : Nat) := kern.getD i .nan
        let core : Core := ⟨g 0, g 1, g 2, g 3, g 4, g 5, g 6, g 7, g 8, g 9⟩
        let r := uncanon k.lonsign k.swapp k.latsign core
        let r := { r with S12 := plusZero r.S12 }
        let m := [r.s12, r.salp1, r.calp1, r.salp2, r.calp2, r.m12, r.M12, r.M21, r.S12, r.a12]
        let names := ["s12", "salp1", "calp1", "salp2", "calp2", "m12", "M12", "M21", "S12", "a12"]
        let bads := (List.range 10).filter fun i => !sameZ (m.getD i .nan) (out.getD i .nan)
        if bads.isEmpty then .ok
        else .bad s!"GenInverse on a non-canonical input is not the sign/swap image of its answer on the canonical one: {bads.map fun i => (names.getD i "", showF (out.getD i .nan), showF (m.getD i .nan))} flags=({k.lonsign},{k.swapp},{k.latsign})"
    | _, _ => .bad "parse"
  | "ginverse" => some <|
    -- res: s12 azi1 azi2 a12 for series and exact
    match parseFs args, parseFs res with
    | some inp, some [gs, ga1, ga2, ga12, es, ea1, ea2, ea12] =>
      if !inp.all F64.isFinite then .skip "non-finite input" else
      let rng (x : F64) (lo hi : Int) := x.isNaN || (F64.ge x (F64.ofInt lo) && F64.le x (F64.ofInt hi))
      if !(rng ga12 0 180 && rng ea12 0 180) then .bad s!"a12 outside [0,180]: series {showF ga12} exact {showF ea12}"
      else if !(rng ga1 (-180) 180 && rng ga2 (-180) 180 && rng ea1 (-180) 180 && rng ea2 (-180) 180) then .bad "azimuth outside [-180,180]"
      else if !((gs.isNaN || F64.ge gs 0) && (es.isNaN || F64.ge es 0)) then .bad "negative s12"
      else .ok
    | _, _ => .bad "parse"
  | _ => none

end GeoVerif.Corr.C02
