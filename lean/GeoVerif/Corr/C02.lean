import GeoVerif.Corr.Proto
import GeoVerif.Model.GeodInverse
import GeoVerif.Model.GeodInvSeries
import GeoVerif.FP.RunErr
import GeoVerif.Corr.C02Full
/-! Correspondence for C02: canonical-form bookkeeping of the inverse solvers, and output ranges -/
namespace GeoVerif.Corr.C02
open GeoVerif GeoVerif.Proto GeoVerif.GeodInverse

/-- equal bits, or both zero (the sign of a zero is not part of the contract), or both NaN -/
def sameZ (a b : F64) : Bool := F64.same a b || (a.isZero && b.isZero)

/-! ### `Geodesic::Astroid`, `Geodesic::Lambda12` against `Model/GeodInvSeries.lean`

As for the direct solver (`Corr/C01.lean`): the model is executed in the running-error arithmetic `RE`; the value is its
binary64 evaluation, the tolerance is 4 × the first-order bound of the rounding error of that evaluation on these inputs. -/

def pfl (s : String) : Option Float := if s.length != 16 then none else (hexToNat s).map fun n => Float.ofBits n.toUInt64

def cmpRE (name : String) (impl : Float) (m : RE) : Option String :=
  let d := Float.abs (impl - m.v)
  if (impl.isNaN && m.v.isNaN) || impl == m.v || d ≤ 4 * m.e || (m.e.isNaN && !m.v.isNaN && !impl.isNaN) then none
  else some s!"{name}: impl={impl} model={m.v} diff={d} bound={m.e}"

open GeodInvSeries in
def handleSeries (op : String) (args res : List String) : Option Verdict :=
  match op with
  | "astroid" => some <|
    match args.mapM pfl, res.mapM pfl with
    | some [x, y], some [k] =>
      match cmpRE "k" k (astroid (RE.exact x) (RE.exact y)) with
      | none => .ok
      | some m => .bad s!"Geodesic::Astroid differs from Model/GeodInvSeries: {m}"
    | _, _ => .bad "parse"
  | "invstart" => some <|
    match args.mapM pfl, res.mapM pfl with
    | some [a, f, sbet1, cbet1, sbet2, cbet2, lam12],
      some [tiny, eps0, dn1, dn2, slam12, clam12, sig12, salp1, calp1, salp2, calp2, dnm] =>
      let e := RE.exact
      let g := GeodLine.geodesic (e a) (e f) (e tiny) (e eps0)
      let o := inverseStart g (e eps0) (e sbet1) (e cbet1) (e dn1) (e sbet2) (e cbet2) (e dn2) (e lam12) (e slam12) (e clam12)
      let bads := [cmpRE "sig12" sig12 o.sig12, cmpRE "salp1" salp1 o.salp1, cmpRE "calp1" calp1 o.calp1, cmpRE "salp2" salp2 o.salp2,
                   cmpRE "calp2" calp2 o.calp2, cmpRE "dnm" dnm o.dnm].filterMap id
      if bads.isEmpty then .ok else .bad s!"Geodesic::InverseStart differs from Model/GeodInvSeries: {bads}"
    | _, _ => .bad "parse"
  | "lambda12" => some <|
    match args.mapM pfl, res.mapM pfl with
    | some [a, f, sbet1, cbet1, sbet2, cbet2, salp1, calp1, slam120, clam120],
      some [tiny, eps0, dn1, dn2, lam12, salp2, calp2, sig12, ssig1, csig1, ssig2, csig2, eps, domg12, dlam12] =>
      let e := RE.exact
      let g := GeodLine.geodesic (e a) (e f) (e tiny) (e eps0)
      let o := lambda12 g (e sbet1) (e cbet1) (e dn1) (e sbet2) (e cbet2) (e dn2) (e salp1) (e calp1) (e slam120) (e clam120)
      let bads := [cmpRE "lam12" lam12 o.lam12, cmpRE "salp2" salp2 o.salp2, cmpRE "calp2" calp2 o.calp2, cmpRE "sig12" sig12 o.sig12,
                   cmpRE "ssig1" ssig1 o.ssig1, cmpRE "csig1" csig1 o.csig1, cmpRE "ssig2" ssig2 o.ssig2, cmpRE "csig2" csig2 o.csig2,
                   cmpRE "eps" eps o.eps, cmpRE "domg12" domg12 o.domg12, cmpRE "dlam12" dlam12 o.dlam12].filterMap id
      if bads.isEmpty then .ok else .bad s!"Geodesic::Lambda12 differs from Model/GeodInvSeries: {bads}"
    | _, _ => .bad "parse"
  | _ => none

def handle (op : String) (args res : List String) : Option Verdict :=
  match handleSeries op args res with
  | some v => some v
  | none =>
  match C02Full.handle op args res with
  | some v => some v
  | none =>
  match op with
  | "invwrap" => some <|
    -- args: a f  lat1 lon1 lat2 lon2 | canonical input used by the harness (lat1c lat2c lon12c) | kernel = outputs on the canonical input
    -- res: outputs on the original input; order s12 salp1 calp1 salp2 calp2 m12 M12 M21 S12 a12
    match parseFs args, parseFs res with
    | some (_a :: _f :: lat1 :: lon1 :: lat2 :: lon2 :: l1c :: l2c :: l12c :: kern), some out =>
      if kern.length != 10 || out.length != 10 then .bad "parse" else
      let k := canon lat1 lon1 lat2 lon2
      if !(sameZ k.lat1 l1c && sameZ k.lat2 l2c && sameZ k.lon12 l12c) then
        .bad s!"canonical form: harness used ({showF l1c},{showF l2c},{showF l12c}), model says ({showF k.lat1},{showF k.lat2},{showF k.lon12})"
      else if !k.lon12s.isZero then .skip "longitude difference not exact (error term feeds the core)"
      else
        let g (i : Nat) := kern.getD i .nan
        let core : Core := ⟨g 0, g 1, g 2, g 3, g 4, g 5, g 6, g 7, g 8, g 9⟩
        let r := uncanon k.lonsign k.swapp k.latsign core
        let r := { r with S12 := plusZero r.S12 }
        let m := [r.s12, r.salp1, r.calp1, r.salp2, r.calp2, r.m12, r.M12, r.M21, r.S12, r.a12]
        let names := ["s12", "salp1", "calp1", "salp2", "calp2", "m12", "M12", "M21", "S12", "a12"]
        let bads := (List.range 10).filter fun i => !sameZ (m.getD i .nan) (out.getD i .nan)
        if bads.isEmpty then .ok
        else .bad s!"GenInverse on a non-canonical input is not the sign/swap image of its answer on the canonical one: {bads.map fun i => (names.getD i "", showF (out.getD i .nan), showF (m.getD i .nan))} flags=({k.lonsign},{k.swapp},{k.latsign})"
    | _, _ => .bad "parse"
  | "ginverse" => some <|
    -- res: s12 azi1 azi2 a12 for series and exact
    match parseFs args, parseFs res with
    | some inp, some [gs, ga1, ga2, ga12, es, ea1, ea2, ea12] =>
      if !inp.all F64.isFinite then .skip "non-finite input" else
      let rng (x : F64) (lo hi : Int) := x.isNaN || (F64.ge x (F64.ofInt lo) && F64.le x (F64.ofInt hi))
      if !(rng ga12 0 180 && rng ea12 0 180) then .bad s!"a12 outside [0,180]: series {showF ga12} exact {showF ea12}"
      else if !(rng ga1 (-180) 180 && rng ga2 (-180) 180 && rng ea1 (-180) 180 && rng ea2 (-180) 180) then .bad "azimuth outside [-180,180]"
      else if !((gs.isNaN || F64.ge gs 0) && (es.isNaN || F64.ge es 0)) then .bad "negative s12"
      else .ok
    | _, _ => .bad "parse"
  | _ => none

end GeoVerif.Corr.C02
