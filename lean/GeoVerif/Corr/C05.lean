import GeoVerif.Corr.Proto
import GeoVerif.Model.MGRS
/-! Correspondence relations for C05 (MGRS) -/
namespace GeoVerif.Corr.C05
open GeoVerif GeoVerif.Proto GeoVerif.MGRS

def pb (s : String) : Option Bool := if s == "1" then some true else if s == "0" then some false else none
def bytesOfChars (l : List Char) : List UInt8 := l.map fun c => c.toNat.toUInt8
def showL (l : List Char) : String := String.ofList l

def strVerdict (name : String) (m : Except String (List Char)) (res : List String) : Verdict :=
  match m, res with
  | .error _, ["!E"] => .ok
  | .error e, _ => .bad s!"{name}: model rejects ({e}), impl={res}"
  | .ok s, ["!E"] => .bad s!"{name}: impl threw, model returns {showL s}"
  | .ok s, [r] =>
    (match parseS r with
     | some b => if b == bytesOfChars s then .ok else .bad s!"{name}: impl={bytesToString b} model={showL s}"
     | none => .bad "parse")
  | _, _ => .bad s!"{name}: shape {res}"

def handle (op : String) (args res : List String) : Option Verdict :=
  match op with
  | "utmrow" => some <|
    match args.mapM parseI, res with
    | some [b, c, r], [v] => if parseI v == some (utmRow b c r) then .ok else .bad s!"UTMRow({b},{c},{r}): impl={v} model={utmRow b c r}"
    | _, _ => .bad "parse"
  | "mgrs_check" => some <|
    match args with
    | [u, n, x, y] =>
      (match pb u, pb n, parseF x, parseF y with
       | some utmp, some northp, some xx, some yy =>
         (match checkCoords utmp northp xx yy, res with
          | .error _, ["!E"] => .ok
          | .ok c, [rn, rx, ry] =>
            (match pb rn, parseF rx, parseF ry with
             | some inn, some ix, some iy =>
               if inn == c.northp && F64.same ix c.x && F64.same iy c.y then .ok
               else .bad s!"MGRS::CheckCoords: impl=({inn},{showF ix},{showF iy}) model=({c.northp},{showF c.x},{showF c.y})"
             | _, _, _ => .bad "parse")
          | .error e, _ => .bad s!"MGRS::CheckCoords: model rejects ({e}), impl={res}"
          | .ok _, _ => .bad s!"MGRS::CheckCoords: model accepts, impl={res}")
       | _, _, _, _ => .bad "parse")
    | _ => .bad "parse"
  | "mgrs_fwdlat" => some <|
    match args with
    | [z, n, x, y, l, p] =>
      (match parseI z, pb n, parseF x, parseF y, parseF l, parseI p with
       | some zone, some northp, some xx, some yy, some lat, some prec =>
         strVerdict "MGRS::Forward(lat)" (forwardLat zone northp xx yy lat prec) res
       | _, _, _, _, _, _ => .bad "parse")
    | _ => .bad "parse"
  | "mgrs_fwd" => some <|
    match args with
    | [z, n, x, y, p, k] =>
      (match parseI z, pb n, parseF x, parseF y, parseI p with
       | some zone, some northp, some xx, some yy, some prec =>
         let kern : Except String F64 := match parseF k with | some v => .ok v | none => .error "UTMUPS::Reverse threw"
         strVerdict "MGRS::Forward" (forward zone northp xx yy prec kern) res
       | _, _, _, _, _ => .bad "parse")
    | _ => .bad "parse"
  | "mgrs_rev" => some <|
    match args with
    | [s, c] =>
      (match parseS s, pb c with
       | some b, some cp =>
         (match reverse (b.map UInt8.toNat) cp, res with
          | .error _, ["!E"] => .ok
          | .error e, _ => .bad s!"MGRS::Reverse: model rejects ({e}), impl={res}"
          | .ok _, ["!E"] => .bad "MGRS::Reverse: impl threw on a string the model accepts"
          | .ok r, [z, n, x, y, p] =>
            (match parseI z, pb n, parseF x, parseF y, parseI p with
             | some iz, some inn, some ix, some iy, some ip =>
               if iz == r.zone && inn == r.northp && ip == r.prec && F64.same ix r.x && F64.same iy r.y then .ok
               else .bad s!"MGRS::Reverse: impl=({iz},{inn},{showF ix},{showF iy},{ip}) model=({r.zone},{r.northp},{showF r.x},{showF r.y},{r.prec})"
             | _, _, _, _, _ => .bad "parse")
          | _, _ => .bad "shape")
       | _, _ => .bad "parse")
    | _ => .bad "parse"
  | "mgrs_decode" => some <|
    match args with
    | [a] =>
      (match parseS a with
       | some bs =>
         (match decode (bs.map UInt8.toNat), res with
          | .error _, ["!E"] => .ok
          | .error e, _ => .bad s!"MGRS::Decode: model rejects ({e}), impl={res}"
          | .ok _, ["!E"] => .bad "MGRS::Decode: impl threw on a string the model splits"
          | .ok p, [g, bl, e, n] =>
            let eqb (r : String) (m : List Nat) : Bool := (parseS r).map (·.map UInt8.toNat) == some m
            if eqb g p.gridzone && eqb bl p.block && eqb e p.easting && eqb n p.northing then .ok
            else .bad s!"MGRS::Decode: impl={res} model=({p.gridzone},{p.block},{p.easting},{p.northing})"
          | _, _ => .bad "shape")
       | none => .bad "parse")
    | _ => .bad "parse"
  | "mgrs_selftest" => some (if res == ["ok"] then .ok else .bad "MGRS::Check() throws")
  | "mgrs_cover" => some (.skip "coverage of the standard zones is judged by the harness (UTMUPS::Forward with mgrslimits, documented lettering)")
  | "gconv_m" => some (.skip "the values GeoConvert prints are judged by the harness against the conversion classes")
  | "gc_mgrs" => some <|
    match args with
    | [_, _, _, _, _, _, _, "E"] => .skip "the constructor / SetAltZone throws: C04"
    | [_, _, _, _, _, _, pr, z, n, e, nn, la, az, ae, an] =>
      (match parseI pr, parseI z, pb n, parseFs [e, nn, la, ae, an], parseI az, res with
       | some prec, some zone, some northp, some [x, y, lat, ax, ay], some altz, [r1, r2] =>
         both (strVerdict "GeoCoords::MGRSRepresentation" (mgrsRepresentation zone northp x y lat prec) [r1])
              (strVerdict "GeoCoords::AltMGRSRepresentation" (mgrsRepresentation altz northp ax ay lat prec) [r2])
       | _, _, _, _, _, _ => .bad "parse")
    | _ => .bad "parse"
  | "mgrs_block" => some (.skip "block/band geography is judged by the harness oracle (samples through UTMUPS::Reverse)")
  | _ => none

end GeoVerif.Corr.C05
