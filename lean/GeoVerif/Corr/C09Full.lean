import GeoVerif.Corr.Proto
import GeoVerif.Model.RhumbSeries
import GeoVerif.Model.RhumbExact
import GeoVerif.FP.RunErr
/-!
# Correspondence of the whole series path of `Rhumb` with `Model/RhumbSeries.lean`

The model is evaluated once, in the running-error arithmetic `RE` (`FP/RunErr.lean`): the value component is the binary64
evaluation of the model (same operations, same order, same libm as the implementation), the error component is the
first-order bound of the rounding error of *that evaluation* on *these inputs*.  A member / output of the implementation
agrees with the model when it differs by at most `4·e` (as `Corr/C01.lean`: factor 2 for two evaluations of the same real
expression, factor 2 for an equivalent re-association / a differently rounded `hypot`).  `AngDiff`, `AngNormalize`, `LatFix`
and the beyond-the-pole reduction are the exact binary64 models of C16 / `Model/Rhumb.lean`.

ops: `rh_const` (constructor: `_n`, `_rm`, `_c2`, `_pP[]`, `EllipsoidArea`), `rh_inv` (`GenInverse`, series), `rh_pos`
(`RhumbLine::RhumbLine` members and `GenPosition`, series), `rh_dconv` (`DConvert`, every pair), `rh_msx` (`MeanSinXi`, series).
-/
namespace GeoVerif.Corr.C09Full
open GeoVerif GeoVerif.Proto GeoVerif.Rhumb GeoVerif.RhumbS GeoVerif.RhumbX

def pfl (s : String) : Option Float := if s.length != 16 then none else (hexToNat s).map fun n => Float.ofBits n.toUInt64

def sci (x : Float) : String :=
  if x.isNaN then "NaN" else if x.isInf then (if x < 0 then "-inf" else "inf") else if x == 0 then "0" else
  let e := (Float.log10 x.abs).floor
  let m := x / Float.pow 10 e
  s!"{m}e{e.toInt64}"

def safety : Float := 4

/-- `none` = agrees; `some msg` = differs by more than `4·e` (`ang`: compared modulo 360) -/
def cmp (name : String) (ang : Bool) (impl : Float) (m : RE) : Option String :=
  let d := Float.abs (impl - m.v)
  let d := if ang && d > 180 then Float.abs (360 - d) else d
  if (impl.isNaN && m.v.isNaN) || impl == m.v || d ≤ safety * m.e || (m.e.isNaN && !m.v.isNaN && !impl.isNaN) then none
  else some s!"{name}: impl={sci impl} model={sci m.v} diff={sci d} bound={sci m.e}"

def verdictOf (what : String) (bads : List String) : Verdict :=
  if bads.isEmpty then .ok else .bad s!"{what} differs from Model/RhumbSeries: {bads}"

def ex (x : Float) : RE := RE.exact x

/-- `ε²`, `ε = 2⁻⁵²` -/
def eps2 : Float := Float.ofScientific 1 false 0 / (Float.ofNat (2 ^ 52) * Float.ofNat (2 ^ 52))

/-- `tolRF = pow(3 ε · 0.01, 1/8)`, `tolRD = pow(0.2 (ε · 0.01), 1/8)` of EllipticFunction.cpp -/
def epsF : Float := 2.220446049250313e-16
def tolRF : Float := Float.pow (3 * epsF * 0.01) (1 / 8)
def tolRD : Float := Float.pow (0.2 * (epsF * 0.01)) (1 / 8)
def RFm : RE → RE → RE → RE := rf (ex tolRF)
def RDm : RE → RE → RE → RE := rd (ex tolRD)

def takeN (n : Nat) (l : List Float) : Option (List Float × List Float) := if l.length < n then none else some (l.take n, l.drop n)
def ang (l : List Float) (i : Nat) : Ang RE := (ex (l.getD i 0), ex (l.getD (i + 1) 0))

/-- kernel values of the exact solvers as the harness emits them:
    `phi1 phi2 chi1 chi2 phix phiy mu1 (pairs) d1 mu2 (pair) rr rm c2 pP…` -/
def invXOf (k : List Float) : Option (Ang RE × Ang RE × InvX RE) := do
  let (h, pP) ← takeN 20 k
  some (ang h 0, ang h 2,
    { chi1 := ang h 4, chi2 := ang h 6, phix := ang h 8, phiy := ang h 10,
      rect := { mu1 := ang h 12, d1 := ex (h.getD 14 0), mu2 := ang h 15, rr := ex (h.getD 17 0) },
      pP := pP.map ex, rm := ex (h.getD 18 0), c2 := ex (h.getD 19 0) })

def handle (op : String) (args res : List String) : Option Verdict :=
  match op with
  | "rh_carlson" => some <|
    match args.mapM pfl, res.mapM pfl with
    | some [x, y, z], some [vf, vd] =>
      verdictOf "EllipticFunction::RF/RD(x, y, z)" ([cmp "RF" false vf (RFm (ex x) (ex y) (ex z)), cmp "RD" false vd (RDm (ex x) (ex y) (ex z))].filterMap id)
    | _, _ => .bad "parse"
  | "rh_de" => some <|
    match args.mapM pfl, res.mapM pfl with
    | some [a, f, xy, xx, yy, yx], some [v] =>
      verdictOf "DAuxLatitude::DE" ([cmp "DE" false v (DE RFm RDm (ellOf (ex a) (ex f)) (ex xy, ex xx) (ex yy, ex yx))].filterMap id)
    | _, _ => .bad "parse"
  | "rh_datanhee" => some <|
    match args.mapM pfl, res.mapM pfl with
    | some [a, f, x, y], some [v] =>
      if !(x.isFinite && y.isFinite) then .skip "non-finite argument: shelter branches are judged by the harness" else
      if (x != 0 && x.abs < 1e-150) || (y != 0 && y.abs < 1e-150) then .skip "underflow regime" else
      let E := ellOf (ex a) (ex f)
      verdictOf "DAuxLatitude::Datanhee" ([cmp "Datanhee" false v (Datanhee E.f E.e E.e1 E.fm1 (ex x) (ex y))].filterMap id)
    | _, _ => .bad "parse"
  | "rh_drect" => some <|
    match args.mapM pfl, res.mapM pfl with
    | some [a, f, p1y, p1x, p2y, p2x, m1y, m1x, d1, m2y, m2x, rr], some [v] =>
      let K : RectK RE := { mu1 := (ex m1y, ex m1x), d1 := ex d1, mu2 := (ex m2y, ex m2x), rr := ex rr }
      verdictOf "DAuxLatitude::DRectifying" ([cmp "DRectifying" false v (DRectifying RFm RDm (ellOf (ex a) (ex f)) K (ex p1y, ex p1x) (ex p2y, ex p2x))].filterMap id)
    | _, _ => .bad "parse"
  | "rh_xinv" => some <|
    match (args.take 6).mapM pfl, (args.drop 6).mapM pfl, res.mapM pfl with
    | some [a, f, _lat1, lon1, _lat2, lon2], some k, some [s12, azi12, S12] =>
      if !(lon1.isFinite && lon2.isFinite) then .skip "non-finite longitude" else
      match invXOf k with
      | some (phi1, phi2, K) =>
        if phi1.2.v == 0 || phi2.2.v == 0 then .skip "a pole: the isinf shelters are judged by the harness" else
        let lon12 := (MathF.angDiff (F64.ofFloat lon1) (F64.ofFloat lon2)).1.toFloat
        let (ms12, mazi, mS12) := genInverseX RFm RDm (ellOf (ex a) (ex f)) K phi1 phi2 (ex lon12)
        verdictOf "Rhumb::GenInverse (exact)" ([cmp "s12" false s12 ms12, cmp "azi12" true azi12 mazi, cmp "S12" false S12 mS12].filterMap id)
      | none => .bad "parse"
    | _, _, _ => .bad "parse"
  | "rh_xpos" => some <|
    match (args.take 6).mapM pfl, args.getD 6 "", (args.drop 7).mapM pfl, res.mapM pfl with
    | some [a, f, _lat1, lon1, _azi, s12], unr, some (mu1 :: salp :: calp :: mu2h :: k), some [_lat2, lon2, S12] =>
      if !(lon1.isFinite && s12.isFinite && mu1.isFinite) then .skip "non-finite input" else
      match invXOf k with
      | some (phi1, phi2, K) =>
        let r12 : RE := ex s12 / (K.rm * degree)
        let mu2 : RE := ex mu1 + r12 * ex calp
        if !(mu2.v == mu2h) then .bad s!"GenPosition (exact): mu2 = mu1 + r12 calp: harness {sci mu2h}, model {sci mu2.v}" else
        if !(mu2.v.abs ≤ 90) then .skip "beyond the pole: judged by op rdir" else
        if phi2.2.v == 0 || K.chi2.2.v == 0 then .skip "point 2 is exactly a pole: the isinf shelters are judged by the harness" else
        let (lon2x, mS) := genPositionX RFm RDm (ellOf (ex a) (ex f)) K phi1 phi2 (ex salp) r12
        let lonM : RE :=
          if unr == "1" then (ex lon1 : RE) + lon2x else
            let x := F64.toFloat (MathF.angNormalize (MathF.angNormalize (F64.ofFloat lon1) + F64.ofFloat lon2x.v))
            ⟨x, lon2x.e + RE.u * x.abs⟩
        verdictOf "RhumbLine::GenPosition (exact)" ([cmp "lon2" (unr != "1") lon2 lonM, cmp "S12" false S12 mS].filterMap id)
      | none => .bad "parse"
    | _, _, _, _ => .bad "parse"
  | "rh_const" => some <|
    if res == ["!E"] then .skip "constructor rejects the ellipsoid" else
    match args.mapM pfl, res.mapM pfl with
    | some [a, f], some (n :: rm :: c2 :: area :: pP) =>
      let P := params (ex a) (ex f)
      if pP.length != P.pP.length then .bad s!"Rhumb::AreaCoeffs: _pP has {pP.length} entries, the model {P.pP.length}" else
      let nm : RE := AuxLat.ctorN (ex f)
      let bads := [cmp "_n" false n nm, cmp "_rm" false rm P.rm, cmp "_c2" false c2 P.c2, cmp "EllipsoidArea" false area (ellipsoidArea P.c2)].filterMap id
        ++ ((List.range pP.length).filterMap fun i => cmp s!"_pP[{i}]" false (pP.getD i 0) (P.pP.getD i (ex 0)))
      verdictOf "Rhumb::Rhumb / AreaCoeffs" bads
    | _, _ => .bad "parse"
  | "rh_inv" => some <|
    match args.mapM pfl, res.mapM pfl with
    | some [a, f, _lat1, lon1, _lat2, lon2, s1, c1, s2, c2], some [s12, azi12, S12] =>
      if !(lon1.isFinite && lon2.isFinite) then .skip "non-finite longitude" else
      if c1 == 0 && c2 == 0 then .skip "both points are poles" else
      let lon12 := (MathF.angDiff (F64.ofFloat lon1) (F64.ofFloat lon2)).1.toFloat
      let P := params (ex a) (ex f)
      let (ms12, mazi, mS12) := genInverseS P (ex s1, ex c1) (ex s2, ex c2) (ex lon12)
      verdictOf "Rhumb::GenInverse (series)" ([cmp "s12" false s12 ms12, cmp "azi12" true azi12 mazi, cmp "S12" false S12 mS12].filterMap id)
    | _, _ => .bad "parse"
  | "rh_pos" => some <|
    match args with
    | [as, fs, lat1s, lon1s, azis, s12s, unr, sphis, cphis, salps, calps] =>
      match [as, fs, lat1s, lon1s, azis, s12s, sphis, cphis, salps, calps].mapM pfl, res.mapM pfl with
      | some [a, f, lat1, lon1, azi, s12, sphi, cphi, salp, calp],
        some [mlat1, mlon1, mazi, msalp, mcalp, mphiy, mphix, mmu1, mchiy, mchix, mpsi1, lat2, lon2, S12] =>
        if !(lon1.isFinite && s12.isFinite && azi.isFinite && lat1.isFinite) then .skip "non-finite input" else
        if lat1.abs > 90 then .skip "latitude out of range (LatFix gives NaN)" else
        let P := params (ex a) (ex f)
        let L := lineInit P (ex sphi, ex cphi) (ex salp) (ex calp) (ex eps2)
        -- members: `_lat1 = LatFix(lat1)`, `_lon1 = lon1`, `_azi12 = AngNormalize(azi12)` exactly; `_salp`, `_calp` are sincosd of that
        let azn := (MathF.angNormalize (F64.ofFloat azi)).toFloat
        let sameF (x y : Float) := x == y || (x.isNaN && y.isNaN)
        let mem := (if sameF mlat1 lat1 then [] else [s!"_lat1 = {sci mlat1}, LatFix(lat1) = {sci lat1}"])
          ++ (if sameF mlon1 lon1 then [] else [s!"_lon1 = {sci mlon1}, lon1 = {sci lon1}"])
          ++ (if sameF mazi azn then [] else [s!"_azi12 = {sci mazi}, AngNormalize(azi12) = {sci azn}"])
          ++ (if sameF msalp salp && sameF mcalp calp then [] else [s!"(_salp, _calp) = ({sci msalp}, {sci mcalp}), sincosd(AngNormalize(azi12)) = ({sci salp}, {sci calp})"])
          ++ [cmp "_phi1.y" false mphiy L.phi1.1, cmp "_phi1.x" false mphix L.phi1.2, cmp "_mu1" false mmu1 L.mu1,
              cmp "_chi1.y" false mchiy L.chi1.1, cmp "_chi1.x" false mchix L.chi1.2, cmp "_psi1" false mpsi1 L.psi1].filterMap id
        if !mem.isEmpty then .bad s!"RhumbLine::RhumbLine differs from Model/RhumbSeries: {mem}" else
        let (r12, mu2) := positionMuS P L (ex s12)
        if mu2.v.isNaN then .skip "mu2 is NaN" else
        -- the branch test `|mu2| ≤ 90` within the rounding of mu2 itself: either branch is legitimate
        if Float.abs (mu2.v.abs - 90) ≤ safety * mu2.e && mu2.v.abs != 90 then .skip "|mu2| = 90 within its own rounding error" else
        if mu2.v.abs ≤ 90 then
          let o := genPositionReg P L r12 mu2
          if o.chi2.2.v == 0 then .skip "point 2 is exactly a pole (infinite tangent): the isinf shelters are judged by the harness" else
          let lonM : RE :=
            if unr == "1" then (ex lon1 : RE) + o.lon2x else
              let x := F64.toFloat (MathF.angNormalize (MathF.angNormalize (F64.ofFloat lon1) + F64.ofFloat o.lon2x.v))
              ⟨x, o.lon2x.e + RE.u * x.abs⟩
          verdictOf "RhumbLine::GenPosition (series)"
            ([cmp "lat2" false lat2 o.lat2, cmp "lon2" (unr != "1") lon2 lonM, cmp "S12" false S12 o.S12].filterMap id)
        else
          let m := poleFold angF64 MathF.angNormalize (F64.ofFloat mu2.v)
          -- the reduction is exact up to one rounding of `180 − mu2`; the error of mu2 is carried through
          let mf : RE := ⟨m.toFloat, mu2.e + RE.u * 512⟩
          let latM := genPositionPole P mf
          if !(lon2.isNaN && S12.isNaN) then .bad s!"GenPosition beyond the pole: lon2={sci lon2} S12={sci S12} (NaN expected)"
          else verdictOf "RhumbLine::GenPosition (series, beyond the pole)" ([cmp "lat2" false lat2 latM].filterMap id)
      | _, _ => .bad "parse"
    | _ => .bad "parse"
  | "rh_dconv" => some <|
    match args with
    | [as, fs, ins, outs, y1, x1, y2, x2] =>
      match [as, fs, y1, x1, y2, x2].mapM pfl, ins.toNat?, outs.toNat?, res.mapM pfl with
      | some [_a, f, z1y, z1x, z2y, z2x], some auxin, some auxout, some [v] =>
        if auxin ≥ 6 || auxout ≥ 6 then .bad "parse" else
        let m : RE := if auxin == auxout then ex 1 else
          dconvert (AuxLat.fillcoeff (AuxLat.ctorN (ex f)) auxout auxin) (ex z1y, ex z1x) (ex z2y, ex z2x)
        verdictOf s!"DAuxLatitude::DConvert({auxin}, {auxout})" ([cmp "DConvert" false v m].filterMap id)
      | _, _, _, _ => .bad "parse"
    | _ => .bad "parse"
  | "rh_msx" => some <|
    match args.mapM pfl, res.mapM pfl with
    | some [a, f, xy, xx, yy, yx], some [v] =>
      if xx == 0 && yx == 0 then .skip "both points are poles" else
      let P := params (ex a) (ex f)
      verdictOf "Rhumb::MeanSinXi (series)" ([cmp "MeanSinXi" false v (meanSinXi P (ex xy, ex xx) (ex yy, ex yx))].filterMap id)
    | _, _ => .bad "parse"
  | "rh_api" | "rh_solve" => some (.skip "interface / front-end equalities are judged by the harness on the implementation")
  | "rh_zone" => some (.skip "closed-form zone area on strongly eccentric ellipsoids: judged by the harness oracle on the implementation")
  | _ => none

end GeoVerif.Corr.C09Full
