import GeoVerif.Corr.Proto
import GeoVerif.Model.Geoid
import GeoVerif.Model.GeoidHeader
/-! Correspondence relation for C20: a whole query/caching history per line, raster generated from a seed;
    byte-level PGM headers; default path/name; the line contract of GeoidEval -/
namespace GeoVerif.Corr.C20
open GeoVerif GeoVerif.Proto GeoVerif.Geoid

/-- splitmix64 finaliser, identical to the harness' pixel generator -/
def mix (z0 : UInt64) : UInt64 :=
  let z := z0 + 0x9e3779b97f4a7c15
  let z := (z ^^^ (z >>> 30)) * 0xbf58476d1ce4e5b9
  let z := (z ^^^ (z >>> 27)) * 0x94d049bb133111eb
  z ^^^ (z >>> 31)

/-- pixel generators: kind 0 = random, 1 = smooth ramp (exercises interpolation), 2 = zonal (depends on row only) -/
def pixelAt (kind : Nat) (seed : UInt64) (w : Nat) (ix iy : Nat) : Nat :=
  match kind with
  | 0 => ((mix (seed + (iy * w + ix).toUInt64)) &&& 0xffff).toNat
  | 1 => (1000 + 37 * ix + 101 * iy + ((mix (seed + (iy * w + ix).toUInt64)) &&& 0xff).toNat) % 65536
  | _ => ((mix (seed + iy.toUInt64)) &&& 0xffff).toNat

def mkFile (w h : Nat) (offset scale : F64) (kind : Nat) (seed : UInt64) : File :=
  { w := w, h := h, offset := offset, scale := scale,
    pixels := Array.ofFn (n := w * h) fun i => pixelAt kind seed w (i.val % w) (i.val / w) }

def pb (s : String) : Option Bool := if s == "1" then some true else if s == "0" then some false else none

def near (m v : F64) (scaleMag : F64) : Bool :=
  F64.same m v || (m.isFinite && v.isFinite &&
    Dy.le (Dy.abs (Dy.sub m.toDy v.toDy)) (let s := Dy.abs scaleMag.toDy; ⟨s.m, s.e - 50⟩))

/-- the `int` values of a height query (`heightInts`, and `rawvalInts` for the stencil of the located cell when a cache
    window is set) are in the range of `int` (theorem `accepted_int_arithmetic`; evaluated again on every query) -/
def heightIntsOK (f : File) (cubic : Bool) (s : St (List F64)) (lat lon : F64) : Bool :=
  let la := MathF.latFix lat
  let lo := MathF.angNormalize lon
  if la.isNaN || lo.isNaN then true else
  intsOK (heightInts f.w f.h (fl (lo * rlonresF f)) (fl (F64.neg la * rlatresF f))) &&
  (match locF f lat lon with
   | some (ix, iy, _, _) =>
     !s.cache || (if cubic then stencilCubic else stencilBilinear).all fun d =>
       intsOK (rawvalInts f.w f.h s.xoff s.yoff s.xsize s.ysize (ix + d.1) (iy + d.2))
   | none => true)

/-- the `int` values of a `CacheArea` call that sets the window `(xo, yo, xs, ys)` -/
def cacheIntsOK (f : File) (cubic : Bool) (so we no ea : F64) (xo yo xs ys : Int) : Bool :=
  let q := cacheFloors f so we no ea
  intsOK (cacheAreaInts f.w f.h cubic q.1 q.2.1 q.2.2.1 q.2.2.2) &&
  (List.range ys.toNat).all (fun j => intsOK (fillInts f.w f.h xo yo xs (yo + (j : Int)))) &&
  intsOK (getterInts f.w xo yo xs ys cubic)

/-- cache flag and extent reported by the implementation after a cache operation: `c:W:E:N:S` -/
def checkExtent (f : File) (cubic : Bool) (s : St (List F64)) (parts : List String) : Option String :=
  match parts with
  | [c, w, e, n, so] =>
    (match pb c, parseF w, parseF e, parseF n, parseF so with
     | some c, some w, some e, some n, some so =>
       let big := F64.ofInt 360
       if c != s.cache then some s!"Cache() = {c}, model {s.cache}"
       else if !(near (cacheWest f cubic s) w big && near (cacheEast f cubic s) e big) then
         some s!"CacheWest/East: impl {showF w} {showF e}, model {showF (cacheWest f cubic s)} {showF (cacheEast f cubic s)}"
       else if !(near (cacheNorth f cubic s) n big && near (cacheSouth f cubic s) so big) then
         some s!"CacheNorth/South: impl {showF n} {showF so}, model {showF (cacheNorth f cubic s)} {showF (cacheSouth f cubic s)}"
       else none
     | _, _, _, _, _ => some "parse extent")
  | _ => some "parse extent"

partial def walk (f : File) (cubic : Bool) (E : Env F64 (List F64)) (s : St (List F64)) (mag : F64) (bits : Nat × Nat) :
    List String → List String → Option String × (Nat × Nat)
  | [], _ => (none, bits)
  | op :: ops, r :: rs =>
    match op.splitOn ":" with
    | ["H", la, lo] =>
      (match parseF la, parseF lo with
       | some lat, some lon =>
         (match parseF r with
          | some v =>
            let (s', out) := apiStep f cubic s (.height lat lon)
            let m := out.getD .nan
            -- the location must stay inside the raster (theorem `concrete_loc_in_raster`; checked again on every query)
            let locOK := match E.loc lat lon with
              | none => true
              | some (ix, iy, _, _) => 0 ≤ ix && ix < f.w && 0 ≤ iy && iy ≤ f.h - 2
            if !locOK then (some s!"cell location outside the raster for lat={showF lat} lon={showF lon}", bits)
            else if !heightIntsOK f cubic s lat lon then (some s!"an int expression of Geoid::height / rawval leaves the range of int at lat={showF lat} lon={showF lon}", bits)
            else if near m v mag then walk f cubic E s' mag (bits.1 + (if F64.same m v then 1 else 0), bits.2 + 1) ops rs
            else (some s!"Geoid height at ({showF lat},{showF lon}): impl={showF v} model={showF m} spec={showF (heightSpec E lat lon)}", bits)
          | none => (some s!"height query at ({showF lat},{showF lon}) threw {r}", bits))
       | _, _ => (some "parse H", bits))
    | ["C", la, lo, hh] =>
      (match parseF la, parseF lo, parseF hh with
       | some lat, some lon, some h0 =>
         (match (r.splitOn ":").map parseF with
          | [some up, some dn] =>
            let (s', out) := step E s (.height lat lon)
            let N := out.getD .nan
            let mag' := mag + F64.abs h0
            if near (convertHeight h0 1 N) up mag' && near (convertHeight h0 (-1) N) dn mag' then walk f cubic E s' mag bits ops rs
            else (some s!"ConvertHeight at ({showF lat},{showF lon}) h={showF h0}: impl {showF up} {showF dn}, model {showF (convertHeight h0 1 N)} {showF (convertHeight h0 (-1) N)}", bits)
          | _ => (some s!"ConvertHeight threw / parse: {r}", bits))
       | _, _, _ => (some "parse C", bits))
    | ["A", a, b, c, d] =>
      (match parseF a, parseF b, parseF c, parseF d, r.splitOn ":" with
       | some so, some we, some no, some ea, status :: ext =>
         let after (s' : St (List F64)) :=
           match checkExtent f cubic s' ext with
           | some e => (some e, bits)
           | none => walk f cubic E s' mag bits ops rs
         if s.threadsafe then (if status == "!E" then after s else (some "CacheArea on a thread-safe Geoid must throw", bits))
         else if status == "!E" then
           (match cacheWindow f cubic so we no ea with
            | .invalid => after s    -- the rejected call leaves the cache as it was
            | _ => (some "CacheArea threw on valid limits", bits))
         else
           (match cacheWindow f cubic so we no ea with
            | .clear => after (apiStep f cubic s (.cacheArea so we no ea)).1
            | .invalid => (some "CacheArea must reject limits that are not finite / latitudes outside [-90, 90]", bits)
            | .set xo yo xs ys =>
              -- window facts (theorem `cacheWindow_ok`), checked again on every call
              if !(0 ≤ xo && xo < f.w && 0 < xs && xs ≤ f.w && -1 ≤ yo && yo + ys ≤ f.h + 1 && 0 < ys) then (some s!"CacheArea window out of range: xoff={xo} xsize={xs} yoff={yo} ysize={ys}", bits)
              else if !cacheIntsOK f cubic so we no ea xo yo xs ys then (some "an int expression of Geoid::CacheArea leaves the range of int", bits)
              else after (apiStep f cubic s (.cacheArea so we no ea)).1)
       | _, _, _, _, _ => (some "parse A", bits))
    | ["L"] =>
      (match r.splitOn ":" with
       | status :: ext =>
         let after (s' : St (List F64)) :=
           match checkExtent f cubic s' ext with
           | some e => (some e, bits)
           | none => walk f cubic E s' mag bits ops rs
         if s.threadsafe then (if status == "!E" then after s else (some "CacheAll on a thread-safe Geoid must throw", bits))
         else if status != "-" then (some s!"CacheAll threw {status}", bits)
         else after (apiStep f cubic s .cacheAll).1
       | _ => (some "parse L", bits))
    | ["X"] =>
      (match r.splitOn ":" with
       | _ :: ext =>
         let s' := (apiStep f cubic s .cacheClear).1
         (match checkExtent f cubic s' ext with
          | some e => (some e, bits)
          | none => walk f cubic E s' mag bits ops rs)
       | _ => (some "parse X", bits))
    | _ => (some s!"malformed op {op}", bits)
  | _, [] => (some "missing results", bits)

/-! ### byte-level headers -/
open GeoidHeader in
def dataByte (kind : Nat) (i : Nat) : Nat :=
  match kind with
  | 0 => 0
  | 1 => 53
  | 2 => (i * 37 + 11) % 256
  | 3 => 32
  | _ => [55, 32, 10].getD (i % 3) 0

def smallLimit : Nat := 65536

/-- the bytes handed to the model: the whole file when it is small, otherwise the header and the first 16 (zero) data bytes -/
def fileBytes (hdr : List Nat) (datalen kind : Nat) : List Nat :=
  hdr ++ (List.range (if datalen ≤ smallLimit then datalen else 16)).map (dataByte kind)

def sameBytes (a : List Nat) (b : List UInt8) : Bool := a == b.map (·.toNat)

def headerVerdict (cubic : Bool) (hdr : List Nat) (datalen kind : Nat) (res : List String) : Verdict :=
  let file := fileBytes hdr datalen kind
  let len := hdr.length + datalen
  let big := datalen > smallLimit
  -- a large (sparse) file is described by its header only: every line the scanner reads must end inside the header
  if big && !(hdr.getLast? == some 10 && kind == 0) then .skip "large file whose header is not newline-terminated" else
  let m := GeoidHeader.parse cubic file len
  if big && (match GeoidHeader.scan cubic file with
             | .ok raw => (match raw.tell with | some p => p > hdr.length | none => true)
             | .error _ => false) then .skip "scanner ran into the data of a large file" else
  match res, m with
  | ["skip"], _ => .skip "sparse files unavailable"
  | ["!E", msg], .error e =>
    (match parseS msg with
     | some b => if bytesToString b == e.msg then .ok else .skip s!"rejected by both; message '{bytesToString b}' vs model '{e.msg}'"
     | none => .bad "parse message")
  | ["!E", msg], .ok H =>
    .bad s!"Geoid header: the implementation rejects ({(parseS msg).map bytesToString}) a file the format model accepts ({H.w} x {H.h}, data at {H.datastart}, length {len})"
  | "ok" :: _, .error e => .bad s!"Geoid header: the implementation accepts a file the format model rejects: {e.msg} (length {len})"
  | ["ok", off, sc, me, re, w, h, ds, rlon, rlat, desc, dt], .ok H =>
    (match parseF off, parseF sc, parseF me, parseF re, parseI w, parseI h, ds.toNat?, parseF rlon, parseF rlat, parseS desc, parseS dt with
     | some off, some sc, some me, some re, some w, some h, some ds, some rlon, some rlat, some desc, some dt =>
       if !(F64.same off H.offset && F64.same sc H.scale) then .bad s!"Geoid header: offset/scale impl {showF off} {showF sc}, model {showF H.offset} {showF H.scale}"
       else if !(F64.same me H.maxerror && F64.same re H.rmserror) then .bad s!"Geoid header: MaxError/RMSError impl {showF me} {showF re}, model {showF H.maxerror} {showF H.rmserror}"
       else if !(w == H.w && h == H.h && ds == H.datastart) then .bad s!"Geoid header: width/height/datastart impl {w} {h} {ds}, model {H.w} {H.h} {H.datastart}"
       else if !(F64.same rlon (GeoidHeader.rlonres H.w) && F64.same rlat (GeoidHeader.rlatres H.h)) then .bad s!"Geoid header: resolutions impl {showF rlon} {showF rlat}"
       else if !(sameBytes H.description desc && sameBytes H.datetime dt) then .bad s!"Geoid header: description/date impl {showS desc} / {showS dt}, model {H.description} / {H.datetime}"
       else .ok
     | _, _, _, _, _, _, _, _, _, _, _ => .bad "parse")
  | _, _ => .bad "parse result"

/-! ### default path and name -/
def defaultData : String := "/usr/local/share/GeographicLib"
def defaultName : String := "egm96-5"

def envVal (s : String) : Option (Option String) :=
  if s == "-" then some none else (parseS s).map fun b => some (bytesToString b)

def defaultPath (p d : Option String) : String :=
  match p with
  | some x => if x != "" then x else (match d with | some y => if y != "" then y else defaultData | none => defaultData) ++ "/geoids"
  | none => (match d with | some y => if y != "" then y else defaultData | none => defaultData) ++ "/geoids"

/-! ### GeoidEval: one output line per input line, heights printed with four decimals -/
def isFixed4 (t : List Nat) : Bool :=
  let t := match t with | 45 :: r => r | _ => t
  let ip := t.takeWhile GeoidHeader.isdigit
  match t.dropWhile GeoidHeader.isdigit with
  | 46 :: fr => !ip.isEmpty && fr.length == 4 && fr.all GeoidHeader.isdigit
  | _ => false

def lastToken (l : List Nat) : List Nat :=
  ((l.reverse.dropWhile (fun c => c == 32 || c == 9)).takeWhile (fun c => !(c == 32 || c == 9))).reverse

def splitLines (b : List Nat) : List (List Nat) :=
  let rec go (cur : List Nat) : List Nat → List (List Nat)
    | [] => if cur.isEmpty then [] else [cur.reverse]
    | 10 :: r => cur.reverse :: go [] r
    | c :: r => go (c :: cur) r
  go [] b

def isErrorLine (l : List Nat) : Bool := l.take 6 == GeoidHeader.str "ERROR:"

def handle (op : String) (args res : List String) : Option Verdict :=
  match op with
  | "geoid" => some <|
    match args with
    | w :: h :: off :: sc :: cu :: ts :: kind :: seed :: ops =>
      (match w.toNat?, h.toNat?, parseF off, parseF sc, pb cu, pb ts, kind.toNat?, seed.toNat? with
       | some w, some h, some offset, some scale, some cubic, some threadsafe, some kind, some seed =>
         let f := mkFile w h offset scale kind seed.toUInt64
         let E := concrete f cubic
         let s0 := if threadsafe then threadsafeSt f cubic else initSt f
         let mag := F64.abs offset + scale * F64.ofInt 65535
         (match walk f cubic E s0 mag (0, 0) ops res with
          | (none, _) => .ok
          | (some e, _) => .bad s!"Geoid: {e}")
       | _, _, _, _, _, _, _, _ => .bad "parse")
    | _ => .bad "parse"
  | "geoidhdr" => some <|
    -- structured header: magic offsetPresent scale(hex) scalePresent w h maxval lengthDelta  |  accepted?
    match args, res with
    | [magic, offp, sc, scp, w, h, maxval, delta], [acc] =>
      (match pb offp, parseF sc, pb scp, parseI w, parseI h, parseI maxval, parseI delta, pb acc with
       | some offp, some scale, some scp, some w, some h, some mv, some delta, some accepted =>
         let ok := magic == "P5" && offp && scp && F64.gt scale 0 && mv == 65535 && w ≥ 2 && h ≥ 2 && w % 2 == 0 && h % 2 == 1 && delta == 0
         if ok == accepted then .ok else .bad s!"Geoid header validation: impl accepted={accepted}, format says {ok}"
       | _, _, _, _, _, _, _, _ => .bad "parse")
    | _, _ => .bad "parse"
  | "geoidpgm" => some <|
    -- cubic expect s:<header> datalen kind | ok … / !E s:<message>
    match args with
    | [cu, _expect, hdr, dl, kind] =>
      (match pb cu, parseS hdr, dl.toNat?, kind.toNat? with
       | some cubic, some hb, some datalen, some kind => headerVerdict cubic (hb.map (·.toNat)) datalen kind res
       | _, _, _, _ => .bad "parse")
    | _ => .bad "parse"
  | "geoidbig" => some <|
    -- cubic s:<header> w h seed | accepted nchecked : a well-formed raster of more than 2^32 bytes must be accepted (Nat arithmetic)
    match args, res with
    | [_, _, _, _, _], ["skip"] => .skip "sparse files unavailable"
    | [cu, hdr, w, h, _], [acc, _] =>
      (match pb cu, parseS hdr, w.toNat?, h.toNat?, pb acc with
       | some cubic, some hb, some w, some h, some accepted =>
         let hb := hb.map (·.toNat)
         let m := GeoidHeader.parse cubic (hb ++ List.replicate 16 0) (hb.length + 2 * w * h)
         (match m with
          | .ok H => if accepted && H.w == w && H.h == h then .ok else .bad s!"large raster {w} x {h}: the format model accepts, the implementation does not"
          | .error e => if accepted then .bad s!"large raster {w} x {h}: accepted although the format model says {e.msg}" else .ok)
       | _, _, _, _, _ => .bad "parse")
    | _, _ => .bad "parse"
  | "geoidenv" => some <|
    match args, res with
    | [p, d, n], [rp, rn] =>
      (match envVal p, envVal d, envVal n, parseS rp, parseS rn with
       | some p, some d, some n, some rp, some rn =>
         let wantP := defaultPath p d
         let wantN := match n with | some x => if x != "" then x else defaultName | none => defaultName
         if bytesToString rp == wantP && bytesToString rn == wantN then .ok
         else .bad s!"DefaultGeoidPath/Name: impl '{bytesToString rp}' '{bytesToString rn}', documented '{wantP}' '{wantN}'"
       | _, _, _, _, _ => .bad "parse")
    | _, _ => .bad "parse"
  | "geoidlookup" => some <|
    match args, res with
    | [mode, cu], "ok" :: tail :: interp :: _ =>
      (match mode.toNat?, pb cu, parseS tail, parseS interp with
       | some mode, some cubic, some t, some i =>
         let t := bytesToString t
         if mode ≥ 2 then .bad "a Geoid was constructed from a missing file"
         else if t.startsWith "/" && t.endsWith ".pgm" && bytesToString i == (if cubic then "cubic" else "bilinear") then .ok
         else .bad s!"lookup through the default path: file '{t}' interpolation '{bytesToString i}'"
       | _, _, _, _ => .bad "parse")
    | [mode, _], ["!E", msg] =>
      (match mode.toNat?, parseS msg with
       | some mode, some m =>
         if mode ≥ 2 && bytesToString m == GeoidHeader.Err.notReadable.msg then .ok
         else .bad s!"Geoid lookup mode {mode}: GeographicErr '{bytesToString m}'"
       | _, _ => .bad "parse")
    | _, _ => .bad "parse"
  | "geoideval" => some <|
    match args, res with
    | [_, _, _, _, _, mode, _], [rc, nin, nout, nerr, out] =>
      (match mode.toNat?, rc.toInt?, nin.toNat?, nout.toNat?, nerr.toNat?, parseS out with
       | some mode, some rc, some nin, some nout, some nerr, some ob =>
         let ls := splitLines (ob.map (·.toNat))
         if rc < -90 then .bad "GeoidEval: exception escaped main"
         else if nin != nout then .bad s!"GeoidEval: {nin} input lines, {nout} output lines"
         else if (nerr > 0) != (rc != 0) then .bad s!"GeoidEval: {nerr} ERROR lines, exit status {rc}"
         else
           -- every output line is an ERROR: line or ends (before a comment) with a height printed with four decimals
           let okLine (l : List Nat) : Bool :=
             isErrorLine l ||
             (let body := if mode == 5 then l.takeWhile (· != 35) else l
              let t := lastToken body
              isFixed4 t || t == GeoidHeader.str "nan")
           if ob.length < 4000 && !(ls.all okLine) then .bad "GeoidEval: an output line is neither an ERROR: line nor a height with four decimals"
           else .ok
       | _, _, _, _, _, _ => .bad "parse")
    | _, _ => .bad "parse"
  | "geoidhuge" => some (.skip "dimensions above 2^30: judged by the harness (child process under the sanitizers)")
  | "geoidcubic" => some (.skip "reproduction of cubic rasters is judged by the harness on the implementation (theorem cubic_reproduces for the table)")
  | "geoidbil" => some (.skip "bilinear node/edge/continuity laws are judged by the harness on the implementation")
  | _ => none

end GeoVerif.Corr.C20
