import GeoVerif.Corr.Proto
import GeoVerif.Model.Geoid
/-! Correspondence relation for C20: a whole query/caching history per line, raster generated from a seed -/
namespace GeoVerif.Corr.C20
open GeoVerif GeoVerif.Proto GeoVerif.Geoid

/-- splitmix64 finaliser, identical to the harness' pixel generator -/
def mix (z0 : UInt64) : UInt64 :=
  let z := z0 + 0x9e3779b97f4a7c15
  let z := (z ^^^ (z >>> 30)) * 0xbf58476d1ce4e5b9
  let z := (z ^^^ (z >>> 27)) * 0x94d049bb133111eb
  z ^^^ (z >>> 31)

/-- pixel generators: kind 0 = random, 1 = smooth ramp (exercises interpolation), 2 = zonal (depends on row only) -/
def pixelAt (kind : Nat) (seed : UInt64) (w : Nat) (ix iy : Nat) : Nat :=
  match kind with
  | 0 => ((mix (seed + (iy * w + ix).toUInt64)) &&& 0xffff).toNat
  | 1 => (1000 + 37 * ix + 101 * iy + ((mix (seed + (iy * w + ix).toUInt64)) &&& 0xff).toNat) % 65536
  | _ => ((mix (seed + iy.toUInt64)) &&& 0xffff).toNat

def mkFile (w h : Nat) (offset scale : F64) (kind : Nat) (seed : UInt64) : File :=
  { w := w, h := h, offset := offset, scale := scale,
    pixels := Array.ofFn (n := w * h) fun i => pixelAt kind seed w (i.val % w) (i.val / w) }

def pb (s : String) : Option Bool := if s == "1" then some true else if s == "0" then some false else none

def near (m v : F64) (scaleMag : F64) : Bool :=
  F64.same m v || (m.isFinite && v.isFinite &&
    Dy.le (Dy.abs (Dy.sub m.toDy v.toDy)) (let s := Dy.abs scaleMag.toDy; ⟨s.m, s.e - 50⟩))

partial def walk (f : File) (cubic : Bool) (E : Env F64 (List F64)) (s : St (List F64)) (mag : F64) (bits : Nat × Nat) :
    List String → List String → Option String × (Nat × Nat)
  | [], _ => (none, bits)
  | op :: ops, r :: rs =>
    match op.splitOn ":" with
    | ["H", la, lo] =>
      (match parseF la, parseF lo, parseF r with
       | some lat, some lon, some v =>
         let (s', out) := step E s (.height lat lon)
         let m := out.getD .nan
         -- the location must stay inside the raster (hypothesis `LocOK` of the theorems, checked on every query)
         let locOK := match E.loc lat lon with
           | none => true
           | some (ix, iy, _, _) => 0 ≤ ix && ix < f.w && 0 ≤ iy && iy ≤ f.h - 2
         if !locOK then (some s!"cell location outside the raster for lat={showF lat} lon={showF lon}", bits)
         else if near m v mag then walk f cubic E s' mag (bits.1 + (if F64.same m v then 1 else 0), bits.2 + 1) ops rs
         else (some s!"Geoid height at ({showF lat},{showF lon}): impl={showF v} model={showF m} spec={showF (heightSpec E lat lon)}", bits)
       | _, _, _ => (some "parse H", bits))
    | ["A", a, b, c, d] =>
      (match parseF a, parseF b, parseF c, parseF d with
       | some so, some we, some no, some ea =>
         if s.threadsafe then (if r == "!E" then walk f cubic E s mag bits ops rs else (some "CacheArea on a thread-safe Geoid must throw", bits))
         else if r == "!E" then
           (match cacheWindow f cubic so we no ea with
            | .invalid => walk f cubic E s mag bits ops rs    -- the rejected call leaves the cache as it was
            | _ => (some "CacheArea threw on valid limits", bits))
         else
           (match cacheWindow f cubic so we no ea with
            | .clear => walk f cubic E (step E s .cacheClear).1 mag bits ops rs
            | .invalid => (some "CacheArea must reject limits that are not finite / latitudes outside [-90, 90]", bits)
            | .set xo yo xs ys =>
              -- window hypotheses of the theorems, checked on every call
              if !(0 ≤ xo && xo < f.w && 0 < xs && xs ≤ f.w) then (some s!"CacheArea window out of range: xoff={xo} xsize={xs}", bits)
              else walk f cubic E (step E s (.cacheSet xo yo xs ys)).1 mag bits ops rs)
       | _, _, _, _ => (some "parse A", bits))
    | ["L"] =>
      if s.threadsafe then (if r == "!E" then walk f cubic E s mag bits ops rs else (some "CacheAll on a thread-safe Geoid must throw", bits))
      else
        (match cacheWindow f cubic (F64.ofInt (-90)) 0 (F64.ofInt 90) (F64.ofInt 360) with
         | .set xo yo xs ys => walk f cubic E (step E s (.cacheSet xo yo xs ys)).1 mag bits ops rs
         | _ => (some "CacheAll window", bits))
    | ["X"] => walk f cubic E (step E s .cacheClear).1 mag bits ops rs
    | _ => (some s!"malformed op {op}", bits)
  | _, [] => (some "missing results", bits)

def handle (op : String) (args res : List String) : Option Verdict :=
  match op with
  | "geoid" => some <|
    match args with
    | w :: h :: off :: sc :: cu :: ts :: kind :: seed :: ops =>
      (match w.toNat?, h.toNat?, parseF off, parseF sc, pb cu, pb ts, kind.toNat?, seed.toNat? with
       | some w, some h, some offset, some scale, some cubic, some threadsafe, some kind, some seed =>
         let f := mkFile w h offset scale kind seed.toUInt64
         let E := concrete f cubic
         let s0 := initSt f
         let s0 := if threadsafe then
             (match cacheWindow f cubic (F64.ofInt (-90)) 0 (F64.ofInt 90) (F64.ofInt 360) with
              | .set xo yo xs ys => { (step E s0 (.cacheSet xo yo xs ys)).1 with threadsafe := true }
              | _ => s0)
           else s0
         let mag := F64.abs offset + scale * F64.ofInt 65535
         (match walk f cubic E s0 mag (0, 0) ops res with
          | (none, _) => .ok
          | (some e, _) => .bad s!"Geoid: {e}")
       | _, _, _, _, _, _, _, _ => .bad "parse")
    | _ => .bad "parse"
  | "geoidhdr" => some <|
    -- structured header: magic offsetPresent scale(hex) scalePresent w h maxval lengthDelta  |  accepted?
    match args, res with
    | [magic, offp, sc, scp, w, h, maxval, delta], [acc] =>
      (match pb offp, parseF sc, pb scp, parseI w, parseI h, parseI maxval, parseI delta, pb acc with
       | some offp, some scale, some scp, some w, some h, some mv, some delta, some accepted =>
         let ok := magic == "P5" && offp && scp && F64.gt scale 0 && mv == 65535 && w ≥ 2 && h ≥ 2 && w % 2 == 0 && h % 2 == 1 && delta == 0
         if ok == accepted then .ok else .bad s!"Geoid header validation: impl accepted={accepted}, format says {ok}"
       | _, _, _, _, _, _, _, _ => .bad "parse")
    | _, _ => .bad "parse"
  | "geoidcubic" => some (.skip "reproduction of cubic rasters is judged by the harness on the implementation (theorem cubic_reproduces for the table)")
  | "geoidbil" => some (.skip "bilinear node/edge/continuity laws are judged by the harness on the implementation")
  | _ => none

end GeoVerif.Corr.C20
