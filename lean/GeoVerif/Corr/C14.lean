import GeoVerif.Corr.Proto
import GeoVerif.Model.Effects
/-! Correspondence relation for C14.  One line per class of the property's quantifier:
`mt <Class> <nthreads> <iters> <seed> | <ncalls> <calls made> <mismatches> <hash of the solo results> <bytes of object image>`.
The effect model says: the const/static API of these classes writes no shared location, hence
(`readonly_returns_solo_value`) every concurrent call returns its solo value — so the number of mismatches the
harness observed must be 0, for a class that the model knows, with at least two threads and at least one call.
(A data race observed by ThreadSanitizer ends the harness process; the orchestrator reports it with this op.) -/
namespace GeoVerif.Corr.C14
open GeoVerif GeoVerif.Proto GeoVerif.Effects

/-- harness suite name ↦ classes of the quantifier it exercises -/
def suiteClasses : List (String × List String) := [
  ("Singletons", ["Geodesic", "GeodesicExact", "Rhumb", "TransverseMercator", "TransverseMercatorExact", "PolarStereographic", "Ellipsoid",
                  "Geocentric", "AuxLatitude", "NormalGravity", "LambertConformalConic", "AlbersEqualArea", "OSGB", "UTMUPS", "MGRS"]),
  ("Geodesic", ["Geodesic", "GeodesicLine"]), ("GeodesicExact", ["GeodesicExact", "GeodesicLineExact", "DST", "kissfft"]),
  ("GeodesicLine", ["GeodesicLine"]), ("GeodesicLineExact", ["GeodesicLineExact"]),
  -- area computations on strongly eccentric ellipsoids (f = 3/4, -2, 9/10: DST size N = 48, 48, 96 > 32), on one shared solver / lines of
  -- one shared solver; `Geodesic(exact)` = the wrapper class constructed with `exact = true`, which delegates to its GeodesicExact member
  ("GeodesicExact(eccentric)", ["GeodesicExact", "GeodesicLineExact", "DST", "kissfft"]),
  ("GeodesicLineExact(eccentric)", ["GeodesicLineExact", "GeodesicExact", "DST", "kissfft"]),
  ("Geodesic(exact)", ["Geodesic", "GeodesicLine", "GeodesicExact", "GeodesicLineExact", "DST", "kissfft"]),
  ("GeodesicLine(exact)", ["GeodesicLine", "Geodesic", "GeodesicLineExact", "GeodesicExact", "DST", "kissfft"]),
  ("Rhumb", ["Rhumb", "RhumbLine", "AuxLatitude", "DAuxLatitude"]), ("Rhumb(exact)", ["Rhumb", "RhumbLine", "AuxLatitude", "DAuxLatitude"]),
  ("RhumbLine", ["RhumbLine"]), ("TransverseMercator", ["TransverseMercator"]), ("TransverseMercatorExact", ["TransverseMercatorExact"]),
  ("PolarStereographic", ["PolarStereographic"]), ("LambertConformalConic", ["LambertConformalConic"]), ("AlbersEqualArea", ["AlbersEqualArea"]),
  ("Geocentric", ["Geocentric"]), ("LocalCartesian", ["LocalCartesian"]), ("Ellipsoid", ["Ellipsoid"]), ("AuxLatitude", ["AuxLatitude", "DAuxLatitude"]),
  ("EllipticFunction", ["EllipticFunction"]), ("NormalGravity", ["NormalGravity"]),
  ("SphericalHarmonic", ["SphericalHarmonic", "SphericalHarmonic1", "SphericalHarmonic2", "CircularEngine", "SphericalEngine"]),
  ("GravityModel", ["GravityModel", "GravityCircle"]), ("MagneticModel", ["MagneticModel", "MagneticCircle"]), ("Geoid(threadsafe)", ["Geoid"]),
  ("static", ["UTMUPS", "MGRS", "DMS", "Geohash", "GARS", "Georef", "OSGB"]),
  ("GeodesicProjections", ["AzimuthalEquidistant", "CassiniSoldner", "Gnomonic", "Geodesic"]),
  ("PolygonArea", ["PolygonAreaT", "Geodesic", "GeodesicExact", "Rhumb", "Accumulator"]),
  ("DST", ["DST", "kissfft"]), ("DST(generic)", ["DST", "kissfft"]), ("Accumulator", ["Accumulator"]) ]

/-- the common check of the three threaded ops: known suite, ≥ 2 threads, every call made, no mismatch -/
def threaded (what cls nth ncalls made mism : String) (perCall : Nat → Nat → Nat) : Verdict :=
  match suiteClasses.lookup cls, nth.toNat?, ncalls.toNat?, made.toNat?, mism.toNat? with
  | some cs, some n, some nc, some m, some mm =>
    if !(cs.all quantifierClasses.contains) then .bad s!"suite {cls} names a class the effect model does not list"
    else if n < 2 then .bad "fewer than two threads"
    else if nc == 0 || m < perCall n nc then .bad s!"suite {cls} made {m} calls for {nc} call sites on {n} threads"
    else if mm != 0 then .bad s!"{mm} concurrent results differ from the solo results although the effect model has no shared write for {cls} ({what})"
    else .ok
  | none, _, _, _, _ => .bad s!"unknown suite {cls}"
  | _, _, _, _, _ => .bad s!"malformed {what} line"

def handle (op : String) (args res : List String) : Option Verdict :=
  match op with
  | "mt" => some <|
    match args, res with
    | cls :: nth :: _iters :: _seed :: _, ncalls :: made :: mism :: _ =>
      match suiteClasses.lookup cls, nth.toNat?, ncalls.toNat?, made.toNat?, mism.toNat? with
      | some cs, some n, some nc, some m, some mm =>
        if !(cs.all quantifierClasses.contains) then .bad s!"suite {cls} names a class the effect model does not list"
        else if n < 2 then .bad "fewer than two threads"
        else if nc == 0 || m < n * nc then .bad s!"suite {cls} made {m} calls for {nc} call sites on {n} threads"
        else if mm != 0 then .bad s!"{mm} concurrent results differ from the solo results although the effect model has no shared write for {cls}"
        else .ok
      | none, _, _, _, _ => .bad s!"unknown suite {cls}"
      | _, _, _, _, _ => .bad "malformed mt line"
    | _, _ => .bad "malformed mt line"
  -- a shared instance in use while two more threads construct and destroy objects of every class: in addition the background
  -- threads must have constructed something (last field)
  | "mtc" => some <|
    match args, res with
    | cls :: nth :: _iters :: _seed :: _, [ncalls, made, mism, _hash, _img, built] =>
      match built.toNat? with
      | some b => if b == 0 then .bad "no object was constructed in the background" else threaded "mtc" cls nth ncalls made mism (fun n nc => n * nc)
      | none => .bad "malformed mtc line"
    | _, _ => .bad "malformed mtc line"
  -- first use: every thread makes two calls (the same first call at once) on a fresh shared instance
  | "fu" => some <|
    match args, res with
    | cls :: nth :: _which :: _seed :: _, ncalls :: made :: mism :: _ => threaded "fu" cls nth ncalls made mism (fun n _ => 2 * n)
    | _, _ => .bad "malformed fu line"
  | "fftradix" => some <|
    match args with
    | [n] => match n.toNat? with
      | some n =>
        let m := kissRadices n
        if res.map String.toNat? == m.map some then .ok
        else .bad s!"kissfft stage radices for length {n}: impl={res} model={m}"
      | none => .bad "malformed fftradix line"
    | _ => .bad "malformed fftradix line"
  | "dstlen" => some <|
    match args, res with
    | [n], [l] => if l.toNat? == n.toNat?.map (2 * ·) then .ok else .bad s!"DST({n}) uses an FFT of length {l}, the model says 2·N"
    | _, _ => .bad "malformed dstlen line"
  | _ => none

end GeoVerif.Corr.C14
