import GeoVerif.Corr.Proto
import GeoVerif.Model.Harmonic
/-!
Correspondence for C19.

* `coeff`: the `Int` model of the packed storage (`index`, `Csize`, `Ssize`, constructor checks, unchecked and
  range-checked accessors) against the real `SphericalEngine::coeff` object — exact.
* `shm`: the `RealLike` models of `SphericalEngine::Value<false, norm, L>`, `Value<true, norm, L>` (value and Cartesian
  gradient), `SphericalEngine::Circle<gradp, norm, L>` + `CircularEngine::Value` (L = 1, 2, 3, both normalisations,
  truncated secondary sets) executed in binary64 against `SphericalHarmonic`, `SphericalHarmonic1`,
  `SphericalHarmonic2` and their `Circle(…)(lon)` — tolerance relative to `Σ|terms|` (of the value, resp. of the
  gradient components).
* `mag`: epoch selection and time interpolation of `MagneticModel::FieldGeocentric` from the implementation's own
  per-epoch harmonic gradients.
* `ngu`: closed forms of the normal potential (oblate, prolate, sphere) and of `FlatteningToJ2` (oblate) — condition-aware tolerance.
* `ngj`: the flattening returned by `J2ToFlattening` is a zero of the model's Newton residual `j2Residual` (oblate branch).
-/
namespace GeoVerif.Corr.C19
open GeoVerif GeoVerif.Proto GeoVerif.Harmonic

def pfl (s : String) : Option Float := (hexToNat s).bind fun n => if s.length == 16 then some (Float.ofBits n.toUInt64) else none
def shw (x : Float) : String := toString x ++ "[" ++ natToHex x.toBits.toNat 16 ++ "]"
def fabs (x : Float) : Float := Float.abs x
def eps53 : Float := 1.1102230246251565e-16

/-- `scale()` = 2^(−3·1024/5) = 2^−614 and `eps()` = 2^−52·√(2^−52) = 2^−78 -/
def scaleF : Float := Float.scaleB 1.0 (-614)
def epsF : Float := Float.scaleB 1.0 (-78)

/-! ### coeff -/

def intList (n : Int) (sign : Int) : List Int := (List.range n.toNat).map fun (k : Nat) => sign * ((k : Int) + 1)

def coeffExpected (N nmx mmx Ms : Int) : Option (List Int) :=
  let cs := if N ≥ -1 ∧ Ms ≥ -1 then csize N Ms else 0
  let ss := if N ≥ -1 ∧ Ms ≥ -1 then ssize N Ms else 0
  let cs := max cs 0
  let ss := max ss 0
  if !(validDims N nmx mmx && arraysOk N nmx mmx cs ss) then none else
  let c : Coeff Int := ⟨N, nmx, mmx, intList cs 1, intList ss (-1)⟩
  let body := (List.range (N + 2).toNat).flatMap fun (nn : Nat) =>
    (List.range ((min (nn : Int) Ms) + 1).toNat).flatMap fun (mm : Nat) =>
      let n : Int := nn
      let m : Int := mm
      let k := index N n m
      let stored : Bool := decide (n ≤ N)
      let cu := if stored then c.cv0 0 k else 0
      let su := if stored && m != 0 then c.sv0 0 k else 0
      let cc := c.cv 0 k n m 2
      let sc := if m != 0 then c.sv 0 k n m 2 else 0
      [n, m, k, cu, su, cc, sc]
  some (csize N Ms :: ssize N Ms :: body)

/-! ### shm -/

structure SetArgs where
  N : Int
  nmx : Int
  mmx : Int
  tau : Float

/-- parse `L` dimension groups: `N nmx mmx Ms [tau]` -/
def parseDims : Nat → Bool → List String → Option (List SetArgs × List String)
  | 0, _, rest => some ([], rest)
  | l + 1, first, sN :: snmx :: smmx :: _sMs :: rest => do
    let N ← sN.toInt?; let nmx ← snmx.toInt?; let mmx ← smmx.toInt?
    if first then
      let (more, rest') ← parseDims l false rest
      pure (⟨N, nmx, mmx, 1.0⟩ :: more, rest')
    else
      match rest with
      | st :: rest2 => do
        let tau ← pfl st
        let (more, rest') ← parseDims l false rest2
        pure (⟨N, nmx, mmx, tau⟩ :: more, rest')
      | [] => none
  | _, _, _ => none

/-- parse `clen slen C… S…` for each set; returns the sets and what follows them -/
def parseArrays : List SetArgs → List String → Option (List (Coeff Float × Float) × List String)
  | [], rest => some ([], rest)
  | s :: more, scl :: ssl :: rest => do
    let cl ← scl.toNat?; let sl ← ssl.toNat?
    let C ← (rest.take cl).mapM pfl
    let S ← ((rest.drop cl).take sl).mapM pfl
    if C.length != cl || S.length != sl then none else
    let (tail, rest') ← parseArrays more ((rest.drop cl).drop sl)
    pure ((⟨s.N, s.nmx, s.mmx, C, S⟩, s.tau) :: tail, rest')
  | _, _ => none

def handleShm (args res : List String) : Verdict :=
  match args with
  | snorm :: sL :: _cmode :: _seed :: sa :: sx :: sy :: sz :: rest =>
    match snorm.toNat?, sL.toNat?, pfl sa, pfl sx, pfl sy, pfl sz, res.mapM pfl with
    | some norm, some L, some a, some x, some y, some z, some [v, gx, gy, gz, vc, mag, gmag, bound, vcg, cgx, cgy, cgz] =>
      match parseDims L true rest with
      | some (dims, rest') =>
        match parseArrays dims rest' with
        | some (sets, tail) =>
          match tail.mapM pfl with
          | some [p, slon, clon] =>
            let full := norm == 0
            let (mv, mgx, mgy, mgz) := valueGrad full sets x y z a scaleF epsF
            let mv0 := value full sets x y z a scaleF epsF
            let N := match dims with | d :: _ => d.nmx | [] => 0
            let n2 : Float := Float.ofInt (N + 2)
            let rel : Float := 1e-12 * (if N + 1 > 32 then Float.ofInt (N + 1) / 32 else 1)
            -- r, cos θ, sin θ are rounded (and the model's hypot differs from libm's in the last bits): |∇V|·r·ε is a legitimate difference
            let rr := Float.sqrt (x * x + y * y + z * z)
            let uf := Float.scaleB 1.0 (-450) * (if a > 0 then 1 + a / rr else 1)
            let tol := rel * mag + 16 * eps53 * rr * gmag + uf
            -- the same for the gradient: its own derivative scale is (N + 2)/r times larger; pole offset eps() and underflow floor as documented
            let tolg := rel * gmag + 16 * eps53 * n2 * gmag + uf * n2 / rr + 1e-22 * n2 * n2 * bound / rr
            let close (t a b : Float) : Bool := (a.isNaN && b.isNaN) || fabs (a - b) ≤ t
            if !(mag < 1e290 && gmag < 1e290) then .skip "overflow"
            else if !(close tol v mv0) then
              .bad s!"SphericalEngine::Value: impl={shw v} formula model={shw mv0} tolerance {tol} (sum|terms| {mag})"
            else if !(close tol v mv && close tolg gx mgx && close tolg gy mgy && close tolg gz mgz) then
              .bad s!"SphericalEngine::Value<gradp=true>: impl=({shw v}; {shw gx}, {shw gy}, {shw gz}) formula model=({shw mv}; {shw mgx}, {shw mgy}, {shw mgz}) tolerances {tol}, {tolg} (sum|terms| {mag}, {gmag})"
            else
              match circle full false sets p z a scaleF epsF, circle full true sets p z a scaleF epsF with
              | some c0, some c1 =>
                let (cv0, _, _, _) := circValue full c0 clon slon scaleF
                let (cv1, c1x, c1y, c1z) := circValue full c1 clon slon scaleF
                if !(close tol vc cv0) then
                  .bad s!"SphericalEngine::Circle<gradp=false> + CircularEngine::Value: impl={shw vc} formula model={shw cv0} tolerance {tol} (sum|terms| {mag})"
                else if !(close tol vcg cv1 && close tolg cgx c1x && close tolg cgy c1y && close tolg cgz c1z) then
                  .bad s!"SphericalEngine::Circle<gradp=true> + CircularEngine::Value: impl=({shw vcg}; {shw cgx}, {shw cgy}, {shw cgz}) formula model=({shw cv1}; {shw c1x}, {shw c1y}, {shw c1z}) tolerances {tol}, {tolg} (sum|terms| {mag}, {gmag})"
                else .ok
              | _, _ =>
                -- order −1: the circle object is empty and evaluates to 0
                if close tol vc 0 && close tol vcg 0 then .ok
                else .bad s!"CircularEngine of an empty sum: impl={shw vc}, {shw vcg} expected 0"
          | _ => .bad "parse circle arguments"
        | none => .bad "parse arrays"
      | none => .bad "parse dims"
    | _, _, _, _, _, _, _ => if res == ["!E"] then .skip "rejected" else .bad "parse"
  | _ => .bad "parse"

/-! ### mag -/

def handleMag (args res : List String) : Verdict :=
  -- seed norm nmod ncon N M dt0 t lat lon h Nmax Mmax | t0 dt0 rad k nb g…
  match args with
  | _seed :: _norm :: snmod :: sncon :: _N :: _M :: _dt :: st :: _lat :: _lon :: _h :: _Nmax :: _Mmax :: st0 :: sdt0 :: srad :: sk :: snb :: gs =>
    match snmod.toNat?, sncon.toNat?, pfl st, pfl st0, pfl sdt0, pfl srad, sk.toInt?, snb.toNat?, gs.mapM pfl, res.mapM pfl with
    | some nmod, some ncon, some t, some t0, some dt0, some rad, some k, some nb, some g, some [BX, BY, BZ, BXt, BYt, BZt] =>
      if g.length != 3 * nb || nb != nmod + 1 + ncon then .bad "parse (kernel values)" else
      let comp (j : Nat) : Float × Float × Float :=
        let B (i : Nat) : Float := g.getD (3 * i + j) 0
        let Bc : Float := if ncon > 0 then B (nmod + 1) else 0
        let (fld, rate) := fieldAt B Bc t t0 dt0 k nmod
        let n := epochIndex k nmod
        let sc := fabs (B n) + fabs (B (n + 1)) * (1 + fabs ((t - t0) / dt0)) + fabs Bc + fabs (fld)
        (fld * (-rad), rate * (-rad), sc * rad)
      let chk (j : Nat) (b bt : Float) : Bool :=
        let (mf, mr, sc) := comp j
        fabs (mf - b) ≤ 1e-14 * sc && fabs (mr - bt) ≤ 1e-14 * sc * (1 + 1 / dt0)
      if chk 0 BX BXt && chk 1 BY BYt && chk 2 BZ BZt then .ok
      else
        let (m0, r0, _) := comp 0; let (m1, r1, _) := comp 1; let (m2, r2, _) := comp 2
        .bad s!"MagneticModel::FieldGeocentric: impl=({shw BX},{shw BY},{shw BZ}; {shw BXt},{shw BYt},{shw BZt}) time-interpolation model=({shw m0},{shw m1},{shw m2}; {shw r0},{shw r1},{shw r2}) epoch index {epochIndex k nmod}"
    | _, _, _, _, _, _, _, _, _, _ => if res.head?.map (·.startsWith "!") == some true then .skip "rejected" else .bad "parse"
  | _ => if res.head?.map (·.startsWith "!") == some true then .skip "rejected" else .bad "parse"

/-! ### ngu -/

def handleNgu (args res : List String) : Verdict :=
  match args.mapM pfl, res.mapM pfl with
  | some [GM, om, a, f, u, _beta, b, E, sb, cb], some [U, j2] =>
    if f > 0 then
      let mU := normalU GM om a b E u sb cb
      -- conditioning of q(u) = ½[(1 + 3u²/E²)·atan(E/u) − 3u/E]: the two terms are ≈ 3u/E each
      let relq (w : Float) : Float := 16 * eps53 * (3 * w / E) / fabs (qfun E w)
      let rot := om * om * a * a / 2 * fabs (qfun E u / qfun E b) * fabs (sb * sb - 1 / 3)
      let tolU := 16 * eps53 * (fabs GM / u + om * om * (u * u + E * E)) + rot * (relq u + relq b)
      let mJ := flatteningToJ2 a GM om f
      let z := Float.sqrt (f * (2 - f)) / (1 - f)
      let K := 2 * (a * om) * (a * om) * a / (15 * GM)
      let corrJ := fabs (K * (1 - f) * (1 - f) * (1 - f) / Qz z)
      let tolJ := 16 * eps53 * (f * (2 - f)) + corrJ * (16 * eps53 * (3 / z) / fabs (Qz z * z * z * z))
      if fabs (mU - U) ≤ tolU && fabs (mJ - j2) ≤ tolJ then .ok
      else .bad s!"NormalGravity: U impl={shw U} closed-form model={shw mU} (tolerance {tolU}); FlatteningToJ2 impl={shw j2} model={shw mJ} (tolerance {tolJ})"
    else if f < 0 then
      let mU := normalUProlate GM om a b E u sb cb
      -- conditioning of q(w) = Q(−w²)·w³ = −½[(1 − 3/w²)·atanh w + 3/w], w = E/u: the two terms are ≈ 3/w each
      let relq (w : Float) : Float := 16 * eps53 * (3 / w) / fabs (QzAlt w * w * w * w)
      let bu := b / u
      let rot := om * om * a * a / 2 * fabs (QzAlt (E / u) / QzAlt (E / b) * bu * bu * bu) * fabs (sb * sb - 1 / 3)
      let tolU := 16 * eps53 * (fabs GM / u * (1 + E / (u - E)) + om * om * (u * u + E * E)) + rot * (relq (E / u) + relq (E / b))
      if fabs (mU - U) ≤ tolU then .ok
      else .bad s!"NormalGravity (prolate): U impl={shw U} closed-form model={shw mU} (tolerance {tolU})"
    else
      let mU := normalUSphere GM om a u sb cb
      let tolU := 16 * eps53 * (fabs GM / u + om * om * (u * u + a * a * (a / u) * (a / u) * (a / u)))
      if fabs (mU - U) ≤ tolU then .ok
      else .bad s!"NormalGravity (sphere): U impl={shw U} closed-form model={shw mU} (tolerance {tolU})"
  | _, _ => if res == ["!E"] then .skip "rejected" else .bad "parse"

/-! ### ngj: the value returned by `J2ToFlattening` is a zero of the residual of its Newton iteration (oblate branch) -/

def handleNgj (args res : List String) : Verdict :=
  match args.mapM pfl, res.mapM pfl with
  | some [a, GM, om, J2], some [f, _j2] =>
    if f.isNaN then .skip "no solution (NaN)"
    else if !(f > 1e-5 && f < 1) then .skip "not on the oblate branch of the model"
    else
      let e2 := f * (2 - f)
      let h := j2Residual a GM om J2 e2
      -- the closed form of Q(e′) cancels for small e′ (the implementation uses a series there): condition-aware tolerance as for FlatteningToJ2
      let z := Float.sqrt (e2 / (1 - e2))
      let K := 2 * (a * om) * (a * om) * a / (15 * GM)
      let corr := fabs (K * (1 - f) * (1 - f) * (1 - f) / Qz z)
      let tol := 64 * eps53 * (e2 + 3 * fabs J2) + corr * (64 * eps53 * (1 + (3 / z) / fabs (Qz z * z * z * z)))
      -- |f − j2Flattening(e²)|: the returned flattening is the one of e²
      let fb := j2Flattening e2
      if fabs h ≤ tol && fabs (fb - f) ≤ 8 * eps53 * f then .ok
      else .bad s!"NormalGravity::J2ToFlattening: returned f={shw f} (e2={shw e2}) has residual h(e2)={shw h} in the model of the Newton iteration (tolerance {tol}); e2/(1+sqrt(1-e2))={shw fb}"
  | _, _ => if res == ["!E"] then .skip "rejected" else .bad "parse"

def handle (op : String) (args res : List String) : Option Verdict :=
  match op with
  | "coeff" => some <|
    match args.mapM (·.toInt?) with
    | some [N, nmx, mmx, Ms] =>
      match coeffExpected N nmx mmx Ms, res with
      | none, ["!E"] => .ok
      | none, _ => .bad s!"coeff constructor accepted dimensions the model rejects (N={N} nmx={nmx} mmx={mmx})"
      | some _, ["!E"] => .bad s!"coeff constructor rejected dimensions the model accepts (N={N} nmx={nmx} mmx={mmx})"
      | some exp, r =>
        match r.mapM (·.toInt?) with
        | some got =>
          if got == exp then .ok
          else
            let bads := (List.range (min got.length exp.length)).filter fun i => got.getD i 0 != exp.getD i 0
            let i := bads.headD 0
            let j := if i < 2 then 0 else 2 + (i - 2) / 7 * 7
            .bad s!"coeff storage/accessors differ from the model at field {i}: impl={got.getD i 0} model={exp.getD i 0}; record (n m k Cv Sv Cv(k,n,m,2) Sv(k,n,m,2)) impl={(got.drop j).take 7} model={(exp.drop j).take 7} lengths {got.length}/{exp.length}"
        | none => .bad "parse"
    | _ => .bad "parse"
  | "shm" => some (handleShm args res)
  | "mag" => some (handleMag args res)
  | "ngu" => some (handleNgu args res)
  | "ngj" => some (handleNgj args res)
  | "sh" | "grav" | "ng" | "cofbad" | "magx" => some (.skip "judged by the harness oracles on the implementation")
  | _ => none

end GeoVerif.Corr.C19
